From FP Require Import Lexer Parser ShowPT Digest.
From Coq Require Import String List NArith.
Import ListNotations.
Open Scope string_scope.
Set Printing Width 100000000.
Set Printing Depth 100000000.
Definition nl : string := String (Ascii.ascii_of_nat 10) EmptyString.
Definition model_lex (rs : list rune) : string := show_toks (lex rs).
Definition model_parse (rs : list rune) : string :=
  show_pt (match lex rs with Some ts => parse ts | None => None end).
(* coqc is slow at printing long strings: digests first (Digest.v), full texts on demand *)
Definition check (rs : list rune) : string :=
  digest (model_lex rs) ++ " " ++ digest (model_parse rs).
Definition full (rs : list rune) : string := model_lex rs ++ nl ++ model_parse rs.
Definition terms (ts : list tok) (t : pt) : string :=
  digest (show_toks (Some ts)) ++ " " ++ digest (show_pt (Some t)) ++ " " ++ digest (show_pt (parse ts)).
Definition terms_full (ts : list tok) (t : pt) : string :=
  show_toks (Some ts) ++ nl ++ show_pt (Some t) ++ nl ++ show_pt (parse ts).
Eval vm_compute in ("<<<M25>>>" ++ check (runes_of_ascii "root packet
    metadata// " ++ [128512]%N ++ runes_of_ascii " emoji
{ } packet // c
u
{@leftPad (
) repeat char[  4294967296 ] A
`a\`  ,
}
")).
Eval vm_compute in ("<<<M57>>>" ++ check (runes_of_ascii "// " ++ [27880; 37322]%N ++ runes_of_ascii "
options { u8x
=false}	packet crc
{ @leftPad
    ( // `tick` ""quote"" 'q'
'\x00'
)@calculatedFrom( ""a\""b"" ) char[] u@lengthOf(
    x ), stringy
charz	`" ++ [233]%N ++ runes_of_ascii "`
// c
// c
,
} packet
// c
//x
tag {
    string T,zchar[ 7
    ] leftPad ,// `tick` ""quote"" 'q'
}
")).
Eval vm_compute in ("<<<M89>>>" ++ check (runes_of_ascii "
MetaData f32a { char[ 42
    ] zchar
, //x
}")).
Eval vm_compute in ("<<<M121>>>" ++ check (runes_of_ascii "packet string_ { trueish
{options1 @lengthOf( Z9_ ) `// not a comment` , // c
_x
    //	t
    @lengthOf( u128), /// triple
match packetx as charz{[
1 , 3 ,
""a\\"" //x
,10 ] : lengthOf ,
""" ++ [28040; 24687]%N ++ runes_of_ascii """
:float	""CRC32"" : // a // b
calculatedFrom
, """ ++ [128512]%N ++ runes_of_ascii """ : tag , 00
:
rootA, }
    ,} ,}")).
Eval vm_compute in ("<<<M153>>>" ++ check (runes_of_ascii "root packet	BodyLength
    {
    // " ++ [27880; 37322]%N ++ runes_of_ascii "
    @lengthOf( asx) repeat char[ 007
] matchKey ,char[]
MetaDataX @lengthOf(
Foo) `tab	here` ,
repeat uint64 //	t
f32a
, }")).
Eval vm_compute in ("<<<T153>>>" ++ terms [mkTok 34 "root" 1 0 false; mkTok 35 "packet" 1 5 false; mkTok 42 "BodyLength" 1 12 false; mkTok 2 "{" 2 4 false; mkTok 44 (string_of_bytes [47; 47; 32; 230; 179; 168; 233; 135; 138]%N) 3 4 true; mkTok 7 "@lengthOf(" 4 4 false; mkTok 42 "asx" 4 15 false; mkTok 6 ")" 4 18 false; mkTok 36 "repeat" 4 20 false; mkTok 12 "char[" 4 27 false; mkTok 30 "007" 4 33 false; mkTok 13 "]" 5 0 false; mkTok 42 "matchKey" 5 2 false; mkTok 40 "," 5 11 false; mkTok 16 "char[]" 5 12 false; mkTok 42 "MetaDataX" 6 0 false; mkTok 7 "@lengthOf(" 6 10 false; mkTok 42 "Foo" 7 0 false; mkTok 6 ")" 7 3 false; mkTok 43 (string_of_bytes [96; 116; 97; 98; 9; 104; 101; 114; 101; 96]%N) 7 5 false; mkTok 40 "," 7 16 false; mkTok 36 "repeat" 8 0 false; mkTok 23 "uint64" 8 7 false; mkTok 44 (string_of_bytes [47; 47; 9; 116]%N) 8 14 true; mkTok 42 "f32a" 9 0 false; mkTok 40 "," 10 0 false; mkTok 3 "}" 10 2 false; mkTok 0 "<EOF>" 10 3 false] (mkPacket (mkPtok 34 "root" 1 0 0) (Some (mkPtok 3 "}" 10 2 26)) [(DPacket (mkPacketDef (mkSpan (mkPtok 34 "root" 1 0 0) (mkPtok 3 "}" 10 2 26)) (Some (mkPtok 34 "root" 1 0 0)) (mkPtok 35 "packet" 1 5 1) (mkPtok 42 "BodyLength" 1 12 2) (mkPtok 2 "{" 2 4 3) [(mkFieldWithAttr (mkSpan (mkPtok 7 "@lengthOf(" 4 4 5) (mkPtok 40 "," 5 11 13)) [(FALengthOf (mkSpan (mkPtok 7 "@lengthOf(" 4 4 5) (mkPtok 6 ")" 4 18 7)) (mkLengthOf (mkSpan (mkPtok 7 "@lengthOf(" 4 4 5) (mkPtok 6 ")" 4 18 7)) (mkPtok 7 "@lengthOf(" 4 4 5) (mkPtok 42 "asx" 4 15 6) (mkPtok 6 ")" 4 18 7)))] (MetaField (mkSpan (mkPtok 36 "repeat" 4 20 8) (mkPtok 40 "," 5 11 13)) (Some (mkPtok 36 "repeat" 4 20 8)) (mkMetaDecl (mkSpan (mkPtok 12 "char[" 4 27 9) (mkPtok 40 "," 5 11 13)) (TyFixed (mkSpan (mkPtok 12 "char[" 4 27 9) (mkPtok 13 "]" 5 0 11)) (mkFixedString (mkSpan (mkPtok 12 "char[" 4 27 9) (mkPtok 13 "]" 5 0 11)) (mkPtok 12 "char[" 4 27 9) (mkPtok 30 "007" 4 33 10) (mkPtok 13 "]" 5 0 11))) (mkPtok 42 "matchKey" 5 2 12) None (mkPtok 40 "," 5 11 13)))); (mkFieldWithAttr (mkSpan (mkPtok 16 "char[]" 5 12 14) (mkPtok 40 "," 7 16 20)) [] (LengthField (mkSpan (mkPtok 16 "char[]" 5 12 14) (mkPtok 40 "," 7 16 20)) (mkLengthFieldDecl (mkSpan (mkPtok 16 "char[]" 5 12 14) (mkPtok 40 "," 7 16 20)) (Some (TyDynamic (mkSpan (mkPtok 16 "char[]" 5 12 14) (mkPtok 16 "char[]" 5 12 14)) (mkDynamicString (mkSpan (mkPtok 16 "char[]" 5 12 14) (mkPtok 16 "char[]" 5 12 14)) (mkPtok 16 "char[]" 5 12 14)))) (mkPtok 42 "MetaDataX" 6 0 15) (mkLengthOf (mkSpan (mkPtok 7 "@lengthOf(" 6 10 16) (mkPtok 6 ")" 7 3 18)) (mkPtok 7 "@lengthOf(" 6 10 16) (mkPtok 42 "Foo" 7 0 17) (mkPtok 6 ")" 7 3 18)) (Some (mkPtok 43 (string_of_bytes [96; 116; 97; 98; 9; 104; 101; 114; 101; 96]%N) 7 5 19)) (mkPtok 40 "," 7 16 20)))); (mkFieldWithAttr (mkSpan (mkPtok 36 "repeat" 8 0 21) (mkPtok 40 "," 10 0 25)) [] (MetaField (mkSpan (mkPtok 36 "repeat" 8 0 21) (mkPtok 40 "," 10 0 25)) (Some (mkPtok 36 "repeat" 8 0 21)) (mkMetaDecl (mkSpan (mkPtok 23 "uint64" 8 7 22) (mkPtok 40 "," 10 0 25)) (TyBasic (mkSpan (mkPtok 23 "uint64" 8 7 22) (mkPtok 23 "uint64" 8 7 22)) (mkBasicType (mkSpan (mkPtok 23 "uint64" 8 7 22) (mkPtok 23 "uint64" 8 7 22)) (mkPtok 23 "uint64" 8 7 22))) (mkPtok 42 "f32a" 9 0 24) None (mkPtok 40 "," 10 0 25))))] (mkPtok 3 "}" 10 2 26)))])).
Eval vm_compute in ("<<<M185>>>" ++ check (runes_of_ascii "
packet
// packet A { u8 x, }
// " ++ [27880; 37322]%N ++ runes_of_ascii "
matchKey {} packet
    string_ { matchKey @lengthOf(
asx)
    ,@rightPad ( ' '
) metadata
,
// a // b
// @lengthOf(
o //
chars ,  uint16 tag `u8 x,` ,
repeat  float32 Logon  `two words` , /// triple
matchKey	@calculatedFrom( ""a	b""
)`doc`
    ,
repeat packetx
a1 ,} MetaData Packet //
{
char[]
    pack, string  zchar ,zchar[
//	t
// trailing space 
1 ] x_y_z, int64
    charz
`say ""hi""`, u32
lengthOf
    `doc`
,}
options
    { a1
= int16 ; crc =' ';tag = char[ 42]
leftPad
    = true ; }")).
Eval vm_compute in ("<<<M217>>>" ++ check (runes_of_ascii "packet zchar{
    uint8x { MetaDataX , match stringy as calculatedFrom { """" : options1,""// no comment""
: //x
u
""\" ++ [233]%N ++ runes_of_ascii """
:  body
, [
""abc""
    , ""it's"" , // c
007 ] : packetx
//	t
// @lengthOf(
,65535:
roots
, } ,  zchar[	10 ]
lengthOf`two words`  ,	} // trailing space 
,
//
// packet A { u8 x, }
} root
packet Header{repeat f32a o `two words`,
    @lengthOf(
    f32a ) char[	42
]
    uint8x ,	@tag( 42
)
    float@lengthOf(
MetaDataX  ) , string T	, match _x as leftPad
    { 0123456789 :
    stringy, } ,  @leftPad // @lengthOf(
( )repeat uint8x// c
{
string_ { char[ 255] a1 @calculatedFrom( ""abc""
), metadata @lengthOf(	asx ),
    } , repeat falsey /// triple
,
    Logon { As ,
repeat char[]// trailing space 
u
    , } , },
    @leftPad
    (	' '
    )
char[ 10
] charz
@lengthOf(  float ), @calculatedFrom(
    """ ++ [233]%N ++ runes_of_ascii "t" ++ [233]%N ++ runes_of_ascii """
) i64 trueish
    `two words`
, } options{ options1	=7
; u
    // " ++ [27880; 37322]%N ++ runes_of_ascii "
    = """" ; } 	 ")).
Eval vm_compute in ("<<<M249>>>" ++ check (runes_of_ascii "
packet Header{ char[] body
//x
//
, }
")).
Eval vm_compute in ("<<<M281>>>" ++ check (runes_of_ascii "// trailing space 
packet
// packet A { u8 x, }
// packet A { u8 x, }
o {
@calculatedFrom(
""`tick`""
    //	t
    )repeat i8 rootA
, @calculatedFrom( ""`tick`""	)Logon
body`line1
line2` , // " ++ [128512]%N ++ runes_of_ascii " emoji
@lengthOf(crc )@tag( 0
) repeat
falsey string_ , @calculatedFrom(
"""" )
    lengthOf/// triple
, u16 calculatedFrom ,
    i8i8//x
tag `two words` , @tag( 1)	string rootA`u8 x,`
,match pack as int { [
""" ++ [233]%N ++ runes_of_ascii "t" ++ [233]%N ++ runes_of_ascii """
, ""\" ++ [233]%N ++ runes_of_ascii """	, 10 ,  0,
4294967296 , ""packet"" ,""" ++ [28040; 24687]%N ++ runes_of_ascii """
,""" ++ [233]%N ++ runes_of_ascii "t" ++ [233]%N ++ runes_of_ascii """ ] : int
//x
// trailing space 
, 3
    :zchar , """ ++ [128512]%N ++ runes_of_ascii """
:
options1, 00 // c
:x_y_z , 4294967296 :
chars , } ,float32 matchKey
    //x
    ,
T
,}
")).
Eval vm_compute in ("<<<M313>>>" ++ check (runes_of_ascii "packet
As {
char[ 42	]//
chars
@calculatedFrom(
""a\""b"" ) `it's` ,f32a falsey // trailing space 
`// not a comment` , // " ++ [128512]%N ++ runes_of_ascii " emoji
string
trueish
`" ++ [28040; 24687; 31867; 22411]%N ++ runes_of_ascii "` ,
@lengthOf(  metadata )@tag(65535 ) @calculatedFrom( ""`tick`"" ) repeat Logon { x_y_z@lengthOf(lengthOf ),uint32  u
, i64_ @calculatedFrom( ""CRC32""
    )
`a\` , asx @calculatedFrom( """" ) `u8 x,` ,	} ,
u16
    _x `` , repeat string_
//
// `tick` ""quote"" 'q'
, options1 f32a , @calculatedFrom(""\n""// a // b
) Packet @lengthOf( zchar
    ) , }// `tick` ""quote"" 'q'
options { // a // b
} packet a1 { @tag( 0123456789)u8
    uint8x	`{ , }` ,
    u32// " ++ [27880; 37322]%N ++ runes_of_ascii "
x_y_z `say ""hi""`
, }
")).
Eval vm_compute in ("<<<M345>>>" ++ check (runes_of_ascii "root packet calculatedFrom { @lengthOf( asx )	T{
repeat
/// triple
//x
packetx A  ,
match // " ++ [27880; 37322]%N ++ runes_of_ascii "
string_ as msg_type { [""abc""] :
As 0123456789 :  repeatCount
    , ""a\""b"" :
roots, } , },uint8x BodyLength `{ , }`
, string  BodyLength,@leftPad(
    '\x00'
) repeat calculatedFrom { uint32 //	t
trueish ,/// triple
}, // c
} // a // b")).
Eval vm_compute in ("<<<M377>>>" ++ check (runes_of_ascii "packet	matchKey { } packet rootA {} root packet lengthOf { // trailing space 
@tag(
0 //x
)uint16 repeatCount
    , //x
uint32 rootA @calculatedFrom(""it's""
// packet A { u8 x, }
// `tick` ""quote"" 'q'
)
,
//	t
// a // b
string uint8x /// triple
,  u128@calculatedFrom(
""" ++ [28040; 24687]%N ++ runes_of_ascii """ ) ,@leftPad
( '\x00' ) u  `a\` , @leftPad( ' ' ) @calculatedFrom(
""1"" ) @lengthOf( int )match msg_type
// " ++ [128512]%N ++ runes_of_ascii " emoji
// a // b
as Pad{
""abc""// " ++ [27880; 37322]%N ++ runes_of_ascii "
: asx }
    , options1 {
    char[]  metadata // trailing space 
, Logon@lengthOf( zchar ) , repeatCount {
zchar[255 ] tag
    ,x_y_z msg_type,// `tick` ""quote"" 'q'
pack, MetaDataX @lengthOf(  falsey )
    , }
, zchar  @lengthOf( Header  )
,  } ,@tag( 42 ) char[
    007 ] i64_
,
// trailing space 
//	t
@lengthOf( As
) match crc  as/// triple
MetaDataX {65535 :leftPad
""a\""b"" : BodyLength , 42:	crc
    ,
    // " ++ [27880; 37322]%N ++ runes_of_ascii "
    0123456789: body , ""abc""
:	stringy
,	""CRC32"":
    x_y_z,} ,
    //
    int32 Header @lengthOf(
// @lengthOf(
//
asx // " ++ [27880; 37322]%N ++ runes_of_ascii "
) , } packet packetx
{	}root packet
float//	t
{ @tag( 1 ) @lengthOf(
_x) @leftPad ( '0'
    )
repeat // c
i64_ ,}
")).
Eval vm_compute in ("<<<T377>>>" ++ terms [mkTok 35 "packet" 1 0 false; mkTok 42 "matchKey" 1 7 false; mkTok 2 "{" 1 16 false; mkTok 3 "}" 1 18 false; mkTok 35 "packet" 1 20 false; mkTok 42 "rootA" 1 27 false; mkTok 2 "{" 1 33 false; mkTok 3 "}" 1 34 false; mkTok 34 "root" 1 36 false; mkTok 35 "packet" 1 41 false; mkTok 42 "lengthOf" 1 48 false; mkTok 2 "{" 1 57 false; mkTok 44 "// trailing space " 1 59 true; mkTok 9 "@tag(" 2 0 false; mkTok 30 "0" 3 0 false; mkTok 44 "//x" 3 2 true; mkTok 6 ")" 4 0 false; mkTok 21 "uint16" 4 1 false; mkTok 42 "repeatCount" 4 8 false; mkTok 40 "," 5 4 false; mkTok 44 "//x" 5 6 true; mkTok 22 "uint32" 6 0 false; mkTok 42 "rootA" 6 7 false; mkTok 5 "@calculatedFrom(" 6 13 false; mkTok 31 """it's""" 6 29 false; mkTok 44 "// packet A { u8 x, }" 7 0 true; mkTok 44 "// `tick` ""quote"" 'q'" 8 0 true; mkTok 6 ")" 9 0 false; mkTok 40 "," 10 0 false; mkTok 44 (string_of_bytes [47; 47; 9; 116]%N) 11 0 true; mkTok 44 "// a // b" 12 0 true; mkTok 15 "string" 13 0 false; mkTok 42 "uint8x" 13 7 false; mkTok 44 "/// triple" 13 14 true; mkTok 40 "," 14 0 false; mkTok 42 "u128" 14 3 false; mkTok 5 "@calculatedFrom(" 14 7 false; mkTok 31 (string_of_bytes [34; 230; 182; 136; 230; 129; 175; 34]%N) 15 0 false; mkTok 6 ")" 15 5 false; mkTok 40 "," 15 7 false; mkTok 32 "@leftPad" 15 8 false; mkTok 8 "(" 16 0 false; mkTok 33 "'\x00'" 16 2 false; mkTok 6 ")" 16 9 false; mkTok 42 "u" 16 11 false; mkTok 43 "`a\`" 16 14 false; mkTok 40 "," 16 19 false; mkTok 32 "@leftPad" 16 21 false; mkTok 8 "(" 16 29 false; mkTok 33 "' '" 16 31 false; mkTok 6 ")" 16 35 false; mkTok 5 "@calculatedFrom(" 16 37 false; mkTok 31 """1""" 17 0 false; mkTok 6 ")" 17 4 false; mkTok 7 "@lengthOf(" 17 6 false; mkTok 42 "int" 17 17 false; mkTok 6 ")" 17 21 false; mkTok 38 "match" 17 22 false; mkTok 42 "msg_type" 17 28 false; mkTok 44 (string_of_bytes [47; 47; 32; 240; 159; 152; 128; 32; 101; 109; 111; 106; 105]%N) 18 0 true; mkTok 44 "// a // b" 19 0 true; mkTok 17 "as" 20 0 false; mkTok 42 "Pad" 20 3 false; mkTok 2 "{" 20 6 false; mkTok 31 """abc""" 21 0 false; mkTok 44 (string_of_bytes [47; 47; 32; 230; 179; 168; 233; 135; 138]%N) 21 5 true; mkTok 39 ":" 22 0 false; mkTok 42 "asx" 22 2 false; mkTok 3 "}" 22 6 false; mkTok 40 "," 23 4 false; mkTok 42 "options1" 23 6 false; mkTok 2 "{" 23 15 false; mkTok 16 "char[]" 24 4 false; mkTok 42 "metadata" 24 12 false; mkTok 44 "// trailing space " 24 21 true; mkTok 40 "," 25 0 false; mkTok 42 "Logon" 25 2 false; mkTok 7 "@lengthOf(" 25 7 false; mkTok 42 "zchar" 25 18 false; mkTok 6 ")" 25 24 false; mkTok 40 "," 25 26 false; mkTok 42 "repeatCount" 25 28 false; mkTok 2 "{" 25 40 false; mkTok 14 "zchar[" 26 0 false; mkTok 30 "255" 26 6 false; mkTok 13 "]" 26 10 false; mkTok 42 "tag" 26 12 false; mkTok 40 "," 27 4 false; mkTok 42 "x_y_z" 27 5 false; mkTok 42 "msg_type" 27 11 false; mkTok 40 "," 27 19 false; mkTok 44 "// `tick` ""quote"" 'q'" 27 20 true; mkTok 42 "pack" 28 0 false; mkTok 40 "," 28 4 false; mkTok 42 "MetaDataX" 28 6 false; mkTok 7 "@lengthOf(" 28 16 false; mkTok 42 "falsey" 28 28 false; mkTok 6 ")" 28 35 false; mkTok 40 "," 29 4 false; mkTok 3 "}" 29 6 false; mkTok 40 "," 30 0 false; mkTok 42 "zchar" 30 2 false; mkTok 7 "@lengthOf(" 30 9 false; mkTok 42 "Header" 30 20 false; mkTok 6 ")" 30 28 false; mkTok 40 "," 31 0 false; mkTok 3 "}" 31 3 false; mkTok 40 "," 31 5 false; mkTok 9 "@tag(" 31 6 false; mkTok 30 "42" 31 12 false; mkTok 6 ")" 31 15 false; mkTok 12 "char[" 31 17 false; mkTok 30 "007" 32 4 false; mkTok 13 "]" 32 8 false; mkTok 42 "i64_" 32 10 false; mkTok 40 "," 33 0 false; mkTok 44 "// trailing space " 34 0 true; mkTok 44 (string_of_bytes [47; 47; 9; 116]%N) 35 0 true; mkTok 7 "@lengthOf(" 36 0 false; mkTok 42 "As" 36 11 false; mkTok 6 ")" 37 0 false; mkTok 38 "match" 37 2 false; mkTok 42 "crc" 37 8 false; mkTok 17 "as" 37 13 false; mkTok 44 "/// triple" 37 15 true; mkTok 42 "MetaDataX" 38 0 false; mkTok 2 "{" 38 10 false; mkTok 30 "65535" 38 11 false; mkTok 39 ":" 38 17 false; mkTok 42 "leftPad" 38 18 false; mkTok 31 """a\""b""" 39 0 false; mkTok 39 ":" 39 7 false; mkTok 42 "BodyLength" 39 9 false; mkTok 40 "," 39 20 false; mkTok 30 "42" 39 22 false; mkTok 39 ":" 39 24 false; mkTok 42 "crc" 39 26 false; mkTok 40 "," 40 4 false; mkTok 44 (string_of_bytes [47; 47; 32; 230; 179; 168; 233; 135; 138]%N) 41 4 true; mkTok 30 "0123456789" 42 4 false; mkTok 39 ":" 42 14 false; mkTok 42 "body" 42 16 false; mkTok 40 "," 42 21 false; mkTok 31 """abc""" 42 23 false; mkTok 39 ":" 43 0 false; mkTok 42 "stringy" 43 2 false; mkTok 40 "," 44 0 false; mkTok 31 """CRC32""" 44 2 false; mkTok 39 ":" 44 9 false; mkTok 42 "x_y_z" 45 4 false; mkTok 40 "," 45 9 false; mkTok 3 "}" 45 10 false; mkTok 40 "," 45 12 false; mkTok 44 "//" 46 4 true; mkTok 26 "int32" 47 4 false; mkTok 42 "Header" 47 10 false; mkTok 7 "@lengthOf(" 47 17 false; mkTok 44 "// @lengthOf(" 48 0 true; mkTok 44 "//" 49 0 true; mkTok 42 "asx" 50 0 false; mkTok 44 (string_of_bytes [47; 47; 32; 230; 179; 168; 233; 135; 138]%N) 50 4 true; mkTok 6 ")" 51 0 false; mkTok 40 "," 51 2 false; mkTok 3 "}" 51 4 false; mkTok 35 "packet" 51 6 false; mkTok 42 "packetx" 51 13 false; mkTok 2 "{" 52 0 false; mkTok 3 "}" 52 2 false; mkTok 34 "root" 52 3 false; mkTok 35 "packet" 52 8 false; mkTok 42 "float" 53 0 false; mkTok 44 (string_of_bytes [47; 47; 9; 116]%N) 53 5 true; mkTok 2 "{" 54 0 false; mkTok 9 "@tag(" 54 2 false; mkTok 30 "1" 54 8 false; mkTok 6 ")" 54 10 false; mkTok 7 "@lengthOf(" 54 12 false; mkTok 42 "_x" 55 0 false; mkTok 6 ")" 55 2 false; mkTok 32 "@leftPad" 55 4 false; mkTok 8 "(" 55 13 false; mkTok 33 "'0'" 55 15 false; mkTok 6 ")" 56 4 false; mkTok 36 "repeat" 57 0 false; mkTok 44 "// c" 57 7 true; mkTok 42 "i64_" 58 0 false; mkTok 40 "," 58 5 false; mkTok 3 "}" 58 6 false; mkTok 0 "<EOF>" 59 0 false] (mkPacket (mkPtok 35 "packet" 1 0 0) (Some (mkPtok 3 "}" 58 6 187)) [(DPacket (mkPacketDef (mkSpan (mkPtok 35 "packet" 1 0 0) (mkPtok 3 "}" 1 18 3)) None (mkPtok 35 "packet" 1 0 0) (mkPtok 42 "matchKey" 1 7 1) (mkPtok 2 "{" 1 16 2) [] (mkPtok 3 "}" 1 18 3))); (DPacket (mkPacketDef (mkSpan (mkPtok 35 "packet" 1 20 4) (mkPtok 3 "}" 1 34 7)) None (mkPtok 35 "packet" 1 20 4) (mkPtok 42 "rootA" 1 27 5) (mkPtok 2 "{" 1 33 6) [] (mkPtok 3 "}" 1 34 7))); (DPacket (mkPacketDef (mkSpan (mkPtok 34 "root" 1 36 8) (mkPtok 3 "}" 51 4 163)) (Some (mkPtok 34 "root" 1 36 8)) (mkPtok 35 "packet" 1 41 9) (mkPtok 42 "lengthOf" 1 48 10) (mkPtok 2 "{" 1 57 11) [(mkFieldWithAttr (mkSpan (mkPtok 9 "@tag(" 2 0 13) (mkPtok 40 "," 5 4 19)) [(FATag (mkSpan (mkPtok 9 "@tag(" 2 0 13) (mkPtok 6 ")" 4 0 16)) (mkTagAttr (mkSpan (mkPtok 9 "@tag(" 2 0 13) (mkPtok 6 ")" 4 0 16)) (mkPtok 9 "@tag(" 2 0 13) (mkPtok 30 "0" 3 0 14) (mkPtok 6 ")" 4 0 16)))] (MetaField (mkSpan (mkPtok 21 "uint16" 4 1 17) (mkPtok 40 "," 5 4 19)) None (mkMetaDecl (mkSpan (mkPtok 21 "uint16" 4 1 17) (mkPtok 40 "," 5 4 19)) (TyBasic (mkSpan (mkPtok 21 "uint16" 4 1 17) (mkPtok 21 "uint16" 4 1 17)) (mkBasicType (mkSpan (mkPtok 21 "uint16" 4 1 17) (mkPtok 21 "uint16" 4 1 17)) (mkPtok 21 "uint16" 4 1 17))) (mkPtok 42 "repeatCount" 4 8 18) None (mkPtok 40 "," 5 4 19)))); (mkFieldWithAttr (mkSpan (mkPtok 22 "uint32" 6 0 21) (mkPtok 40 "," 10 0 28)) [] (CheckSumField (mkSpan (mkPtok 22 "uint32" 6 0 21) (mkPtok 40 "," 10 0 28)) (mkChecksumFieldDecl (mkSpan (mkPtok 22 "uint32" 6 0 21) (mkPtok 40 "," 10 0 28)) (Some (TyBasic (mkSpan (mkPtok 22 "uint32" 6 0 21) (mkPtok 22 "uint32" 6 0 21)) (mkBasicType (mkSpan (mkPtok 22 "uint32" 6 0 21) (mkPtok 22 "uint32" 6 0 21)) (mkPtok 22 "uint32" 6 0 21)))) (mkPtok 42 "rootA" 6 7 22) (mkCalculatedFrom (mkSpan (mkPtok 5 "@calculatedFrom(" 6 13 23) (mkPtok 6 ")" 9 0 27)) (mkPtok 5 "@calculatedFrom(" 6 13 23) (mkPtok 31 """it's""" 6 29 24) (mkPtok 6 ")" 9 0 27)) None (mkPtok 40 "," 10 0 28)))); (mkFieldWithAttr (mkSpan (mkPtok 15 "string" 13 0 31) (mkPtok 40 "," 14 0 34)) [] (MetaField (mkSpan (mkPtok 15 "string" 13 0 31) (mkPtok 40 "," 14 0 34)) None (mkMetaDecl (mkSpan (mkPtok 15 "string" 13 0 31) (mkPtok 40 "," 14 0 34)) (TyDynamic (mkSpan (mkPtok 15 "string" 13 0 31) (mkPtok 15 "string" 13 0 31)) (mkDynamicString (mkSpan (mkPtok 15 "string" 13 0 31) (mkPtok 15 "string" 13 0 31)) (mkPtok 15 "string" 13 0 31))) (mkPtok 42 "uint8x" 13 7 32) None (mkPtok 40 "," 14 0 34)))); (mkFieldWithAttr (mkSpan (mkPtok 42 "u128" 14 3 35) (mkPtok 40 "," 15 7 39)) [] (CheckSumField (mkSpan (mkPtok 42 "u128" 14 3 35) (mkPtok 40 "," 15 7 39)) (mkChecksumFieldDecl (mkSpan (mkPtok 42 "u128" 14 3 35) (mkPtok 40 "," 15 7 39)) None (mkPtok 42 "u128" 14 3 35) (mkCalculatedFrom (mkSpan (mkPtok 5 "@calculatedFrom(" 14 7 36) (mkPtok 6 ")" 15 5 38)) (mkPtok 5 "@calculatedFrom(" 14 7 36) (mkPtok 31 (string_of_bytes [34; 230; 182; 136; 230; 129; 175; 34]%N) 15 0 37) (mkPtok 6 ")" 15 5 38)) None (mkPtok 40 "," 15 7 39)))); (mkFieldWithAttr (mkSpan (mkPtok 32 "@leftPad" 15 8 40) (mkPtok 40 "," 16 19 46)) [(FAPadding (mkSpan (mkPtok 32 "@leftPad" 15 8 40) (mkPtok 6 ")" 16 9 43)) (mkPaddingAttr (mkSpan (mkPtok 32 "@leftPad" 15 8 40) (mkPtok 6 ")" 16 9 43)) (mkPtok 32 "@leftPad" 15 8 40) (mkPtok 8 "(" 16 0 41) (Some (mkPtok 33 "'\x00'" 16 2 42)) (mkPtok 6 ")" 16 9 43)))] (ObjectField (mkSpan (mkPtok 42 "u" 16 11 44) (mkPtok 40 "," 16 19 46)) None (mkPtok 42 "u" 16 11 44) None (Some (mkPtok 43 "`a\`" 16 14 45)) (mkPtok 40 "," 16 19 46))); (mkFieldWithAttr (mkSpan (mkPtok 32 "@leftPad" 16 21 47) (mkPtok 40 "," 23 4 69)) [(FAPadding (mkSpan (mkPtok 32 "@leftPad" 16 21 47) (mkPtok 6 ")" 16 35 50)) (mkPaddingAttr (mkSpan (mkPtok 32 "@leftPad" 16 21 47) (mkPtok 6 ")" 16 35 50)) (mkPtok 32 "@leftPad" 16 21 47) (mkPtok 8 "(" 16 29 48) (Some (mkPtok 33 "' '" 16 31 49)) (mkPtok 6 ")" 16 35 50))); (FACalculatedFrom (mkSpan (mkPtok 5 "@calculatedFrom(" 16 37 51) (mkPtok 6 ")" 17 4 53)) (mkCalculatedFrom (mkSpan (mkPtok 5 "@calculatedFrom(" 16 37 51) (mkPtok 6 ")" 17 4 53)) (mkPtok 5 "@calculatedFrom(" 16 37 51) (mkPtok 31 """1""" 17 0 52) (mkPtok 6 ")" 17 4 53))); (FALengthOf (mkSpan (mkPtok 7 "@lengthOf(" 17 6 54) (mkPtok 6 ")" 17 21 56)) (mkLengthOf (mkSpan (mkPtok 7 "@lengthOf(" 17 6 54) (mkPtok 6 ")" 17 21 56)) (mkPtok 7 "@lengthOf(" 17 6 54) (mkPtok 42 "int" 17 17 55) (mkPtok 6 ")" 17 21 56)))] (MatchField (mkSpan (mkPtok 38 "match" 17 22 57) (mkPtok 40 "," 23 4 69)) (mkMatchFieldDecl (mkSpan (mkPtok 38 "match" 17 22 57) (mkPtok 3 "}" 22 6 68)) (mkPtok 38 "match" 17 22 57) (mkPtok 42 "msg_type" 17 28 58) (mkPtok 17 "as" 20 0 61) (mkPtok 42 "Pad" 20 3 62) (mkPtok 2 "{" 20 6 63) [(mkMatchPair (mkSpan (mkPtok 31 """abc""" 21 0 64) (mkPtok 42 "asx" 22 2 67)) (MKString (mkPtok 31 """abc""" 21 0 64)) (mkPtok 39 ":" 22 0 66) (mkPtok 42 "asx" 22 2 67) None)] (mkPtok 3 "}" 22 6 68)) (mkPtok 40 "," 23 4 69))); (mkFieldWithAttr (mkSpan (mkPtok 42 "options1" 23 6 70) (mkPtok 40 "," 31 5 107)) [] (InerObjectField (mkSpan (mkPtok 42 "options1" 23 6 70) (mkPtok 40 "," 31 5 107)) None (InerObjectDecl (mkSpan (mkPtok 42 "options1" 23 6 70) (mkPtok 3 "}" 31 3 106)) (mkPtok 42 "options1" 23 6 70) (mkPtok 2 "{" 23 15 71) [(MetaField (mkSpan (mkPtok 16 "char[]" 24 4 72) (mkPtok 40 "," 25 0 75)) None (mkMetaDecl (mkSpan (mkPtok 16 "char[]" 24 4 72) (mkPtok 40 "," 25 0 75)) (TyDynamic (mkSpan (mkPtok 16 "char[]" 24 4 72) (mkPtok 16 "char[]" 24 4 72)) (mkDynamicString (mkSpan (mkPtok 16 "char[]" 24 4 72) (mkPtok 16 "char[]" 24 4 72)) (mkPtok 16 "char[]" 24 4 72))) (mkPtok 42 "metadata" 24 12 73) None (mkPtok 40 "," 25 0 75))); (LengthField (mkSpan (mkPtok 42 "Logon" 25 2 76) (mkPtok 40 "," 25 26 80)) (mkLengthFieldDecl (mkSpan (mkPtok 42 "Logon" 25 2 76) (mkPtok 40 "," 25 26 80)) None (mkPtok 42 "Logon" 25 2 76) (mkLengthOf (mkSpan (mkPtok 7 "@lengthOf(" 25 7 77) (mkPtok 6 ")" 25 24 79)) (mkPtok 7 "@lengthOf(" 25 7 77) (mkPtok 42 "zchar" 25 18 78) (mkPtok 6 ")" 25 24 79)) None (mkPtok 40 "," 25 26 80))); (InerObjectField (mkSpan (mkPtok 42 "repeatCount" 25 28 81) (mkPtok 40 "," 30 0 100)) None (InerObjectDecl (mkSpan (mkPtok 42 "repeatCount" 25 28 81) (mkPtok 3 "}" 29 6 99)) (mkPtok 42 "repeatCount" 25 28 81) (mkPtok 2 "{" 25 40 82) [(MetaField (mkSpan (mkPtok 14 "zchar[" 26 0 83) (mkPtok 40 "," 27 4 87)) None (mkMetaDecl (mkSpan (mkPtok 14 "zchar[" 26 0 83) (mkPtok 40 "," 27 4 87)) (TyFixed (mkSpan (mkPtok 14 "zchar[" 26 0 83) (mkPtok 13 "]" 26 10 85)) (mkFixedString (mkSpan (mkPtok 14 "zchar[" 26 0 83) (mkPtok 13 "]" 26 10 85)) (mkPtok 14 "zchar[" 26 0 83) (mkPtok 30 "255" 26 6 84) (mkPtok 13 "]" 26 10 85))) (mkPtok 42 "tag" 26 12 86) None (mkPtok 40 "," 27 4 87))); (ObjectField (mkSpan (mkPtok 42 "x_y_z" 27 5 88) (mkPtok 40 "," 27 19 90)) None (mkPtok 42 "x_y_z" 27 5 88) (Some (mkPtok 42 "msg_type" 27 11 89)) None (mkPtok 40 "," 27 19 90)); (ObjectField (mkSpan (mkPtok 42 "pack" 28 0 92) (mkPtok 40 "," 28 4 93)) None (mkPtok 42 "pack" 28 0 92) None None (mkPtok 40 "," 28 4 93)); (LengthField (mkSpan (mkPtok 42 "MetaDataX" 28 6 94) (mkPtok 40 "," 29 4 98)) (mkLengthFieldDecl (mkSpan (mkPtok 42 "MetaDataX" 28 6 94) (mkPtok 40 "," 29 4 98)) None (mkPtok 42 "MetaDataX" 28 6 94) (mkLengthOf (mkSpan (mkPtok 7 "@lengthOf(" 28 16 95) (mkPtok 6 ")" 28 35 97)) (mkPtok 7 "@lengthOf(" 28 16 95) (mkPtok 42 "falsey" 28 28 96) (mkPtok 6 ")" 28 35 97)) None (mkPtok 40 "," 29 4 98)))] (mkPtok 3 "}" 29 6 99)) (mkPtok 40 "," 30 0 100)); (LengthField (mkSpan (mkPtok 42 "zchar" 30 2 101) (mkPtok 40 "," 31 0 105)) (mkLengthFieldDecl (mkSpan (mkPtok 42 "zchar" 30 2 101) (mkPtok 40 "," 31 0 105)) None (mkPtok 42 "zchar" 30 2 101) (mkLengthOf (mkSpan (mkPtok 7 "@lengthOf(" 30 9 102) (mkPtok 6 ")" 30 28 104)) (mkPtok 7 "@lengthOf(" 30 9 102) (mkPtok 42 "Header" 30 20 103) (mkPtok 6 ")" 30 28 104)) None (mkPtok 40 "," 31 0 105)))] (mkPtok 3 "}" 31 3 106)) (mkPtok 40 "," 31 5 107))); (mkFieldWithAttr (mkSpan (mkPtok 9 "@tag(" 31 6 108) (mkPtok 40 "," 33 0 115)) [(FATag (mkSpan (mkPtok 9 "@tag(" 31 6 108) (mkPtok 6 ")" 31 15 110)) (mkTagAttr (mkSpan (mkPtok 9 "@tag(" 31 6 108) (mkPtok 6 ")" 31 15 110)) (mkPtok 9 "@tag(" 31 6 108) (mkPtok 30 "42" 31 12 109) (mkPtok 6 ")" 31 15 110)))] (MetaField (mkSpan (mkPtok 12 "char[" 31 17 111) (mkPtok 40 "," 33 0 115)) None (mkMetaDecl (mkSpan (mkPtok 12 "char[" 31 17 111) (mkPtok 40 "," 33 0 115)) (TyFixed (mkSpan (mkPtok 12 "char[" 31 17 111) (mkPtok 13 "]" 32 8 113)) (mkFixedString (mkSpan (mkPtok 12 "char[" 31 17 111) (mkPtok 13 "]" 32 8 113)) (mkPtok 12 "char[" 31 17 111) (mkPtok 30 "007" 32 4 112) (mkPtok 13 "]" 32 8 113))) (mkPtok 42 "i64_" 32 10 114) None (mkPtok 40 "," 33 0 115)))); (mkFieldWithAttr (mkSpan (mkPtok 7 "@lengthOf(" 36 0 118) (mkPtok 40 "," 45 12 152)) [(FALengthOf (mkSpan (mkPtok 7 "@lengthOf(" 36 0 118) (mkPtok 6 ")" 37 0 120)) (mkLengthOf (mkSpan (mkPtok 7 "@lengthOf(" 36 0 118) (mkPtok 6 ")" 37 0 120)) (mkPtok 7 "@lengthOf(" 36 0 118) (mkPtok 42 "As" 36 11 119) (mkPtok 6 ")" 37 0 120)))] (MatchField (mkSpan (mkPtok 38 "match" 37 2 121) (mkPtok 40 "," 45 12 152)) (mkMatchFieldDecl (mkSpan (mkPtok 38 "match" 37 2 121) (mkPtok 3 "}" 45 10 151)) (mkPtok 38 "match" 37 2 121) (mkPtok 42 "crc" 37 8 122) (mkPtok 17 "as" 37 13 123) (mkPtok 42 "MetaDataX" 38 0 125) (mkPtok 2 "{" 38 10 126) [(mkMatchPair (mkSpan (mkPtok 30 "65535" 38 11 127) (mkPtok 42 "leftPad" 38 18 129)) (MKDigits (mkPtok 30 "65535" 38 11 127)) (mkPtok 39 ":" 38 17 128) (mkPtok 42 "leftPad" 38 18 129) None); (mkMatchPair (mkSpan (mkPtok 31 """a\""b""" 39 0 130) (mkPtok 40 "," 39 20 133)) (MKString (mkPtok 31 """a\""b""" 39 0 130)) (mkPtok 39 ":" 39 7 131) (mkPtok 42 "BodyLength" 39 9 132) (Some (mkPtok 40 "," 39 20 133))); (mkMatchPair (mkSpan (mkPtok 30 "42" 39 22 134) (mkPtok 40 "," 40 4 137)) (MKDigits (mkPtok 30 "42" 39 22 134)) (mkPtok 39 ":" 39 24 135) (mkPtok 42 "crc" 39 26 136) (Some (mkPtok 40 "," 40 4 137))); (mkMatchPair (mkSpan (mkPtok 30 "0123456789" 42 4 139) (mkPtok 40 "," 42 21 142)) (MKDigits (mkPtok 30 "0123456789" 42 4 139)) (mkPtok 39 ":" 42 14 140) (mkPtok 42 "body" 42 16 141) (Some (mkPtok 40 "," 42 21 142))); (mkMatchPair (mkSpan (mkPtok 31 """abc""" 42 23 143) (mkPtok 40 "," 44 0 146)) (MKString (mkPtok 31 """abc""" 42 23 143)) (mkPtok 39 ":" 43 0 144) (mkPtok 42 "stringy" 43 2 145) (Some (mkPtok 40 "," 44 0 146))); (mkMatchPair (mkSpan (mkPtok 31 """CRC32""" 44 2 147) (mkPtok 40 "," 45 9 150)) (MKString (mkPtok 31 """CRC32""" 44 2 147)) (mkPtok 39 ":" 44 9 148) (mkPtok 42 "x_y_z" 45 4 149) (Some (mkPtok 40 "," 45 9 150)))] (mkPtok 3 "}" 45 10 151)) (mkPtok 40 "," 45 12 152))); (mkFieldWithAttr (mkSpan (mkPtok 26 "int32" 47 4 154) (mkPtok 40 "," 51 2 162)) [] (LengthField (mkSpan (mkPtok 26 "int32" 47 4 154) (mkPtok 40 "," 51 2 162)) (mkLengthFieldDecl (mkSpan (mkPtok 26 "int32" 47 4 154) (mkPtok 40 "," 51 2 162)) (Some (TyBasic (mkSpan (mkPtok 26 "int32" 47 4 154) (mkPtok 26 "int32" 47 4 154)) (mkBasicType (mkSpan (mkPtok 26 "int32" 47 4 154) (mkPtok 26 "int32" 47 4 154)) (mkPtok 26 "int32" 47 4 154)))) (mkPtok 42 "Header" 47 10 155) (mkLengthOf (mkSpan (mkPtok 7 "@lengthOf(" 47 17 156) (mkPtok 6 ")" 51 0 161)) (mkPtok 7 "@lengthOf(" 47 17 156) (mkPtok 42 "asx" 50 0 159) (mkPtok 6 ")" 51 0 161)) None (mkPtok 40 "," 51 2 162))))] (mkPtok 3 "}" 51 4 163))); (DPacket (mkPacketDef (mkSpan (mkPtok 35 "packet" 51 6 164) (mkPtok 3 "}" 52 2 167)) None (mkPtok 35 "packet" 51 6 164) (mkPtok 42 "packetx" 51 13 165) (mkPtok 2 "{" 52 0 166) [] (mkPtok 3 "}" 52 2 167))); (DPacket (mkPacketDef (mkSpan (mkPtok 34 "root" 52 3 168) (mkPtok 3 "}" 58 6 187)) (Some (mkPtok 34 "root" 52 3 168)) (mkPtok 35 "packet" 52 8 169) (mkPtok 42 "float" 53 0 170) (mkPtok 2 "{" 54 0 172) [(mkFieldWithAttr (mkSpan (mkPtok 9 "@tag(" 54 2 173) (mkPtok 40 "," 58 5 186)) [(FATag (mkSpan (mkPtok 9 "@tag(" 54 2 173) (mkPtok 6 ")" 54 10 175)) (mkTagAttr (mkSpan (mkPtok 9 "@tag(" 54 2 173) (mkPtok 6 ")" 54 10 175)) (mkPtok 9 "@tag(" 54 2 173) (mkPtok 30 "1" 54 8 174) (mkPtok 6 ")" 54 10 175))); (FALengthOf (mkSpan (mkPtok 7 "@lengthOf(" 54 12 176) (mkPtok 6 ")" 55 2 178)) (mkLengthOf (mkSpan (mkPtok 7 "@lengthOf(" 54 12 176) (mkPtok 6 ")" 55 2 178)) (mkPtok 7 "@lengthOf(" 54 12 176) (mkPtok 42 "_x" 55 0 177) (mkPtok 6 ")" 55 2 178))); (FAPadding (mkSpan (mkPtok 32 "@leftPad" 55 4 179) (mkPtok 6 ")" 56 4 182)) (mkPaddingAttr (mkSpan (mkPtok 32 "@leftPad" 55 4 179) (mkPtok 6 ")" 56 4 182)) (mkPtok 32 "@leftPad" 55 4 179) (mkPtok 8 "(" 55 13 180) (Some (mkPtok 33 "'0'" 55 15 181)) (mkPtok 6 ")" 56 4 182)))] (ObjectField (mkSpan (mkPtok 36 "repeat" 57 0 183) (mkPtok 40 "," 58 5 186)) (Some (mkPtok 36 "repeat" 57 0 183)) (mkPtok 42 "i64_" 58 0 185) None None (mkPtok 40 "," 58 5 186)))] (mkPtok 3 "}" 58 6 187)))])).
Eval vm_compute in ("<<<M409>>>" ++ check (runes_of_ascii "packet lengthOf
{ }")).
Eval vm_compute in ("<<<M441>>>" ++ check (runes_of_ascii "
options { }
")).
Eval vm_compute in ("<<<M473>>>" ++ check (runes_of_ascii "packet  calculatedFrom { @calculatedFrom( ""a	b"" ) T // packet A { u8 x, }
{ zchar[ 0123456789 ]
    falsey `say ""hi""`
, match o as
    // " ++ [27880; 37322]%N ++ runes_of_ascii "
    matchKey {
    [ ""`tick`""	,
    //
    ""it's""
] :int , 1 :	float // a // b
, } ,string Foo @calculatedFrom( ""a\\""), // `tick` ""quote"" 'q'
} ,	}
")).
Eval vm_compute in ("<<<M505>>>" ++ check (runes_of_ascii "MetaData
pack {// " ++ [27880; 37322]%N ++ runes_of_ascii "
string //	t
float,
char[]	options1
, }
")).
Eval vm_compute in ("<<<M537>>>" ++ check (runes_of_ascii "
packet Z9_ { } // " ++ [27880; 37322]%N ++ runes_of_ascii "
MetaData packetx
{ u8 x_y_z
    `it's` , } packet options1
    {
uint16 rootA
    `" ++ [28040; 24687; 31867; 22411]%N ++ runes_of_ascii "`
//x
// `tick` ""quote"" 'q'
, // " ++ [128512]%N ++ runes_of_ascii " emoji
repeat string stringy`" ++ [233]%N ++ runes_of_ascii "` ,
    char[] // @lengthOf(
repeatCount `" ++ [28040; 24687; 31867; 22411]%N ++ runes_of_ascii "`
,
    }")).
Eval vm_compute in ("<<<M569>>>" ++ check (runes_of_ascii "
packet
float
{ @leftPad ( // packet A { u8 x, }
'\x00' )
    i64_ {string Z9_
,} ,
    @tag( //x
0 )char[] u8x @calculatedFrom( ""a	b"" ) ,@lengthOf(	u128)int8
    u	`two words` ,
u64 Foo `a\` //x
, @leftPad// packet A { u8 x, }
(
    '0'
    )
repeat
//x
// " ++ [128512]%N ++ runes_of_ascii " emoji
repeatCount //x
{ repeat Pad {repeat  tag {
    char[
00 ] //	t
Logon `it's` , string_, }
    ,  match // " ++ [128512]%N ++ runes_of_ascii " emoji
As // c
as
    matchKey
    {
    7:lengthOf } ,
    match u128  as tag {
    [ 7 ]
    :// " ++ [128512]%N ++ runes_of_ascii " emoji
Packet
    //	t
    , """ ++ [28040; 24687]%N ++ runes_of_ascii """: Foo ,65535 // " ++ [128512]%N ++ runes_of_ascii " emoji
: calculatedFrom
//x
//x
}/// triple
, // a // b
} , // " ++ [128512]%N ++ runes_of_ascii " emoji
f32
options1 `doc`// c
, // trailing space 
} ,@leftPad ( '0'	) match  rootA // packet A { u8 x, }
as
i64_ {3
// " ++ [128512]%N ++ runes_of_ascii " emoji
//
: msg_type , ""abc"": rootA ,
    //	t
    [ ""CRC32"" ]
: float ,10 : pack ,""" ++ [128512]%N ++ runes_of_ascii """
:	tag } ,
@rightPad (
    // trailing space 
    '\x00')	char[ 65535] _x @calculatedFrom( """ ++ [128512]%N ++ runes_of_ascii """	), char[ 4294967296 ] lengthOf @calculatedFrom(""// no comment"" ) ,@leftPad (  ' ' )zchar[007 ] options1 ,/// triple
}	packet
    // " ++ [27880; 37322]%N ++ runes_of_ascii "
    rootA {
} packet charz
    { repeat
As`` ,} packet f32a {	}
    MetaData	roots { body matchKey `// not a comment`,
}
")).
Eval vm_compute in ("<<<M601>>>" ++ check (runes_of_ascii "packet
// `tick` ""quote"" 'q'
// `tick` ""quote"" 'q'
trueish {
    repeat packetx /// triple
zchar , // " ++ [128512]%N ++ runes_of_ascii " emoji
zchar[ 1
]
    /// triple
    stringy ,
    @lengthOf( u8x ) repeat
    f32 Logon,
repeat u8x {
zchar[	007
    ]crc
@calculatedFrom( ""a\\"" ) ,}
,@tag( 255
) @calculatedFrom(
""it's"" //	t
)	@tag( 65535 )repeat x
{
    repeat u8x metadata ,
zchar[
    //
    00 ]  stringy@lengthOf( float
    )
`two words` , }
, @lengthOf( A ) @calculatedFrom( ""packet"" )@rightPad ( '0'  )	Header ,msg_type charz , // packet A { u8 x, }
} packet x
{ @calculatedFrom( """ ++ [128512]%N ++ runes_of_ascii """ )
zchar[ 0123456789 ]A
    // c
    @calculatedFrom( ""a	b""
    )
, @calculatedFrom( // " ++ [128512]%N ++ runes_of_ascii " emoji
""""
) repeat BodyLength `
` ,
    }packet Foo{  char[
    7 ] crc // " ++ [27880; 37322]%N ++ runes_of_ascii "
@lengthOf(
charz )
    // @lengthOf(
    ,
@lengthOf( float
) charz ,repeat i8 Foo, uint64 leftPad /// triple
`{ , }`
    ,// `tick` ""quote"" 'q'
falsey
A,
repeat u128 x_y_z `// not a comment`
    // " ++ [128512]%N ++ runes_of_ascii " emoji
    ,/// triple
Logon @calculatedFrom( ""a	b"" )	, }
")).
Eval vm_compute in ("<<<T601>>>" ++ terms [mkTok 35 "packet" 1 0 false; mkTok 44 "// `tick` ""quote"" 'q'" 2 0 true; mkTok 44 "// `tick` ""quote"" 'q'" 3 0 true; mkTok 42 "trueish" 4 0 false; mkTok 2 "{" 4 8 false; mkTok 36 "repeat" 5 4 false; mkTok 42 "packetx" 5 11 false; mkTok 44 "/// triple" 5 19 true; mkTok 42 "zchar" 6 0 false; mkTok 40 "," 6 6 false; mkTok 44 (string_of_bytes [47; 47; 32; 240; 159; 152; 128; 32; 101; 109; 111; 106; 105]%N) 6 8 true; mkTok 14 "zchar[" 7 0 false; mkTok 30 "1" 7 7 false; mkTok 13 "]" 8 0 false; mkTok 44 "/// triple" 9 4 true; mkTok 42 "stringy" 10 4 false; mkTok 40 "," 10 12 false; mkTok 7 "@lengthOf(" 11 4 false; mkTok 42 "u8x" 11 15 false; mkTok 6 ")" 11 19 false; mkTok 36 "repeat" 11 21 false; mkTok 28 "f32" 12 4 false; mkTok 42 "Logon" 12 8 false; mkTok 40 "," 12 13 false; mkTok 36 "repeat" 13 0 false; mkTok 42 "u8x" 13 7 false; mkTok 2 "{" 13 11 false; mkTok 14 "zchar[" 14 0 false; mkTok 30 "007" 14 7 false; mkTok 13 "]" 15 4 false; mkTok 42 "crc" 15 5 false; mkTok 5 "@calculatedFrom(" 16 0 false; mkTok 31 """a\\""" 16 17 false; mkTok 6 ")" 16 23 false; mkTok 40 "," 16 25 false; mkTok 3 "}" 16 26 false; mkTok 40 "," 17 0 false; mkTok 9 "@tag(" 17 1 false; mkTok 30 "255" 17 7 false; mkTok 6 ")" 18 0 false; mkTok 5 "@calculatedFrom(" 18 2 false; mkTok 31 """it's""" 19 0 false; mkTok 44 (string_of_bytes [47; 47; 9; 116]%N) 19 7 true; mkTok 6 ")" 20 0 false; mkTok 9 "@tag(" 20 2 false; mkTok 30 "65535" 20 8 false; mkTok 6 ")" 20 14 false; mkTok 36 "repeat" 20 15 false; mkTok 42 "x" 20 22 false; mkTok 2 "{" 21 0 false; mkTok 36 "repeat" 22 4 false; mkTok 42 "u8x" 22 11 false; mkTok 42 "metadata" 22 15 false; mkTok 40 "," 22 24 false; mkTok 14 "zchar[" 23 0 false; mkTok 44 "//" 24 4 true; mkTok 30 "00" 25 4 false; mkTok 13 "]" 25 7 false; mkTok 42 "stringy" 25 10 false; mkTok 7 "@lengthOf(" 25 17 false; mkTok 42 "float" 25 28 false; mkTok 6 ")" 26 4 false; mkTok 43 "`two words`" 27 0 false; mkTok 40 "," 27 12 false; mkTok 3 "}" 27 14 false; mkTok 40 "," 28 0 false; mkTok 7 "@lengthOf(" 28 2 false; mkTok 42 "A" 28 13 false; mkTok 6 ")" 28 15 false; mkTok 5 "@calculatedFrom(" 28 17 false; mkTok 31 """packet""" 28 34 false; mkTok 6 ")" 28 43 false; mkTok 32 "@rightPad" 28 44 false; mkTok 8 "(" 28 54 false; mkTok 33 "'0'" 28 56 false; mkTok 6 ")" 28 61 false; mkTok 42 "Header" 28 63 false; mkTok 40 "," 28 70 false; mkTok 42 "msg_type" 28 71 false; mkTok 42 "charz" 28 80 false; mkTok 40 "," 28 86 false; mkTok 44 "// packet A { u8 x, }" 28 88 true; mkTok 3 "}" 29 0 false; mkTok 35 "packet" 29 2 false; mkTok 42 "x" 29 9 false; mkTok 2 "{" 30 0 false; mkTok 5 "@calculatedFrom(" 30 2 false; mkTok 31 (string_of_bytes [34; 240; 159; 152; 128; 34]%N) 30 19 false; mkTok 6 ")" 30 23 false; mkTok 14 "zchar[" 31 0 false; mkTok 30 "0123456789" 31 7 false; mkTok 13 "]" 31 18 false; mkTok 42 "A" 31 19 false; mkTok 44 "// c" 32 4 true; mkTok 5 "@calculatedFrom(" 33 4 false; mkTok 31 (string_of_bytes [34; 97; 9; 98; 34]%N) 33 21 false; mkTok 6 ")" 34 4 false; mkTok 40 "," 35 0 false; mkTok 5 "@calculatedFrom(" 35 2 false; mkTok 44 (string_of_bytes [47; 47; 32; 240; 159; 152; 128; 32; 101; 109; 111; 106; 105]%N) 35 19 true; mkTok 31 """""" 36 0 false; mkTok 6 ")" 37 0 false; mkTok 36 "repeat" 37 2 false; mkTok 42 "BodyLength" 37 9 false; mkTok 43 (string_of_bytes [96; 10; 96]%N) 37 20 false; mkTok 40 "," 38 2 false; mkTok 3 "}" 39 4 false; mkTok 35 "packet" 39 5 false; mkTok 42 "Foo" 39 12 false; mkTok 2 "{" 39 15 false; mkTok 12 "char[" 39 18 false; mkTok 30 "7" 40 4 false; mkTok 13 "]" 40 6 false; mkTok 42 "crc" 40 8 false; mkTok 44 (string_of_bytes [47; 47; 32; 230; 179; 168; 233; 135; 138]%N) 40 12 true; mkTok 7 "@lengthOf(" 41 0 false; mkTok 42 "charz" 42 0 false; mkTok 6 ")" 42 6 false; mkTok 44 "// @lengthOf(" 43 4 true; mkTok 40 "," 44 4 false; mkTok 7 "@lengthOf(" 45 0 false; mkTok 42 "float" 45 11 false; mkTok 6 ")" 46 0 false; mkTok 42 "charz" 46 2 false; mkTok 40 "," 46 8 false; mkTok 36 "repeat" 46 9 false; mkTok 24 "i8" 46 16 false; mkTok 42 "Foo" 46 19 false; mkTok 40 "," 46 22 false; mkTok 23 "uint64" 46 24 false; mkTok 42 "leftPad" 46 31 false; mkTok 44 "/// triple" 46 39 true; mkTok 43 "`{ , }`" 47 0 false; mkTok 40 "," 48 4 false; mkTok 44 "// `tick` ""quote"" 'q'" 48 5 true; mkTok 42 "falsey" 49 0 false; mkTok 42 "A" 50 0 false; mkTok 40 "," 50 1 false; mkTok 36 "repeat" 51 0 false; mkTok 42 "u128" 51 7 false; mkTok 42 "x_y_z" 51 12 false; mkTok 43 "`// not a comment`" 51 18 false; mkTok 44 (string_of_bytes [47; 47; 32; 240; 159; 152; 128; 32; 101; 109; 111; 106; 105]%N) 52 4 true; mkTok 40 "," 53 4 false; mkTok 44 "/// triple" 53 5 true; mkTok 42 "Logon" 54 0 false; mkTok 5 "@calculatedFrom(" 54 6 false; mkTok 31 (string_of_bytes [34; 97; 9; 98; 34]%N) 54 23 false; mkTok 6 ")" 54 29 false; mkTok 40 "," 54 31 false; mkTok 3 "}" 54 33 false; mkTok 0 "<EOF>" 55 0 false] (mkPacket (mkPtok 35 "packet" 1 0 0) (Some (mkPtok 3 "}" 54 33 150)) [(DPacket (mkPacketDef (mkSpan (mkPtok 35 "packet" 1 0 0) (mkPtok 3 "}" 29 0 82)) None (mkPtok 35 "packet" 1 0 0) (mkPtok 42 "trueish" 4 0 3) (mkPtok 2 "{" 4 8 4) [(mkFieldWithAttr (mkSpan (mkPtok 36 "repeat" 5 4 5) (mkPtok 40 "," 6 6 9)) [] (ObjectField (mkSpan (mkPtok 36 "repeat" 5 4 5) (mkPtok 40 "," 6 6 9)) (Some (mkPtok 36 "repeat" 5 4 5)) (mkPtok 42 "packetx" 5 11 6) (Some (mkPtok 42 "zchar" 6 0 8)) None (mkPtok 40 "," 6 6 9))); (mkFieldWithAttr (mkSpan (mkPtok 14 "zchar[" 7 0 11) (mkPtok 40 "," 10 12 16)) [] (MetaField (mkSpan (mkPtok 14 "zchar[" 7 0 11) (mkPtok 40 "," 10 12 16)) None (mkMetaDecl (mkSpan (mkPtok 14 "zchar[" 7 0 11) (mkPtok 40 "," 10 12 16)) (TyFixed (mkSpan (mkPtok 14 "zchar[" 7 0 11) (mkPtok 13 "]" 8 0 13)) (mkFixedString (mkSpan (mkPtok 14 "zchar[" 7 0 11) (mkPtok 13 "]" 8 0 13)) (mkPtok 14 "zchar[" 7 0 11) (mkPtok 30 "1" 7 7 12) (mkPtok 13 "]" 8 0 13))) (mkPtok 42 "stringy" 10 4 15) None (mkPtok 40 "," 10 12 16)))); (mkFieldWithAttr (mkSpan (mkPtok 7 "@lengthOf(" 11 4 17) (mkPtok 40 "," 12 13 23)) [(FALengthOf (mkSpan (mkPtok 7 "@lengthOf(" 11 4 17) (mkPtok 6 ")" 11 19 19)) (mkLengthOf (mkSpan (mkPtok 7 "@lengthOf(" 11 4 17) (mkPtok 6 ")" 11 19 19)) (mkPtok 7 "@lengthOf(" 11 4 17) (mkPtok 42 "u8x" 11 15 18) (mkPtok 6 ")" 11 19 19)))] (MetaField (mkSpan (mkPtok 36 "repeat" 11 21 20) (mkPtok 40 "," 12 13 23)) (Some (mkPtok 36 "repeat" 11 21 20)) (mkMetaDecl (mkSpan (mkPtok 28 "f32" 12 4 21) (mkPtok 40 "," 12 13 23)) (TyBasic (mkSpan (mkPtok 28 "f32" 12 4 21) (mkPtok 28 "f32" 12 4 21)) (mkBasicType (mkSpan (mkPtok 28 "f32" 12 4 21) (mkPtok 28 "f32" 12 4 21)) (mkPtok 28 "f32" 12 4 21))) (mkPtok 42 "Logon" 12 8 22) None (mkPtok 40 "," 12 13 23)))); (mkFieldWithAttr (mkSpan (mkPtok 36 "repeat" 13 0 24) (mkPtok 40 "," 17 0 36)) [] (InerObjectField (mkSpan (mkPtok 36 "repeat" 13 0 24) (mkPtok 40 "," 17 0 36)) (Some (mkPtok 36 "repeat" 13 0 24)) (InerObjectDecl (mkSpan (mkPtok 42 "u8x" 13 7 25) (mkPtok 3 "}" 16 26 35)) (mkPtok 42 "u8x" 13 7 25) (mkPtok 2 "{" 13 11 26) [(CheckSumField (mkSpan (mkPtok 14 "zchar[" 14 0 27) (mkPtok 40 "," 16 25 34)) (mkChecksumFieldDecl (mkSpan (mkPtok 14 "zchar[" 14 0 27) (mkPtok 40 "," 16 25 34)) (Some (TyFixed (mkSpan (mkPtok 14 "zchar[" 14 0 27) (mkPtok 13 "]" 15 4 29)) (mkFixedString (mkSpan (mkPtok 14 "zchar[" 14 0 27) (mkPtok 13 "]" 15 4 29)) (mkPtok 14 "zchar[" 14 0 27) (mkPtok 30 "007" 14 7 28) (mkPtok 13 "]" 15 4 29)))) (mkPtok 42 "crc" 15 5 30) (mkCalculatedFrom (mkSpan (mkPtok 5 "@calculatedFrom(" 16 0 31) (mkPtok 6 ")" 16 23 33)) (mkPtok 5 "@calculatedFrom(" 16 0 31) (mkPtok 31 """a\\""" 16 17 32) (mkPtok 6 ")" 16 23 33)) None (mkPtok 40 "," 16 25 34)))] (mkPtok 3 "}" 16 26 35)) (mkPtok 40 "," 17 0 36))); (mkFieldWithAttr (mkSpan (mkPtok 9 "@tag(" 17 1 37) (mkPtok 40 "," 28 0 65)) [(FATag (mkSpan (mkPtok 9 "@tag(" 17 1 37) (mkPtok 6 ")" 18 0 39)) (mkTagAttr (mkSpan (mkPtok 9 "@tag(" 17 1 37) (mkPtok 6 ")" 18 0 39)) (mkPtok 9 "@tag(" 17 1 37) (mkPtok 30 "255" 17 7 38) (mkPtok 6 ")" 18 0 39))); (FACalculatedFrom (mkSpan (mkPtok 5 "@calculatedFrom(" 18 2 40) (mkPtok 6 ")" 20 0 43)) (mkCalculatedFrom (mkSpan (mkPtok 5 "@calculatedFrom(" 18 2 40) (mkPtok 6 ")" 20 0 43)) (mkPtok 5 "@calculatedFrom(" 18 2 40) (mkPtok 31 """it's""" 19 0 41) (mkPtok 6 ")" 20 0 43))); (FATag (mkSpan (mkPtok 9 "@tag(" 20 2 44) (mkPtok 6 ")" 20 14 46)) (mkTagAttr (mkSpan (mkPtok 9 "@tag(" 20 2 44) (mkPtok 6 ")" 20 14 46)) (mkPtok 9 "@tag(" 20 2 44) (mkPtok 30 "65535" 20 8 45) (mkPtok 6 ")" 20 14 46)))] (InerObjectField (mkSpan (mkPtok 36 "repeat" 20 15 47) (mkPtok 40 "," 28 0 65)) (Some (mkPtok 36 "repeat" 20 15 47)) (InerObjectDecl (mkSpan (mkPtok 42 "x" 20 22 48) (mkPtok 3 "}" 27 14 64)) (mkPtok 42 "x" 20 22 48) (mkPtok 2 "{" 21 0 49) [(ObjectField (mkSpan (mkPtok 36 "repeat" 22 4 50) (mkPtok 40 "," 22 24 53)) (Some (mkPtok 36 "repeat" 22 4 50)) (mkPtok 42 "u8x" 22 11 51) (Some (mkPtok 42 "metadata" 22 15 52)) None (mkPtok 40 "," 22 24 53)); (LengthField (mkSpan (mkPtok 14 "zchar[" 23 0 54) (mkPtok 40 "," 27 12 63)) (mkLengthFieldDecl (mkSpan (mkPtok 14 "zchar[" 23 0 54) (mkPtok 40 "," 27 12 63)) (Some (TyFixed (mkSpan (mkPtok 14 "zchar[" 23 0 54) (mkPtok 13 "]" 25 7 57)) (mkFixedString (mkSpan (mkPtok 14 "zchar[" 23 0 54) (mkPtok 13 "]" 25 7 57)) (mkPtok 14 "zchar[" 23 0 54) (mkPtok 30 "00" 25 4 56) (mkPtok 13 "]" 25 7 57)))) (mkPtok 42 "stringy" 25 10 58) (mkLengthOf (mkSpan (mkPtok 7 "@lengthOf(" 25 17 59) (mkPtok 6 ")" 26 4 61)) (mkPtok 7 "@lengthOf(" 25 17 59) (mkPtok 42 "float" 25 28 60) (mkPtok 6 ")" 26 4 61)) (Some (mkPtok 43 "`two words`" 27 0 62)) (mkPtok 40 "," 27 12 63)))] (mkPtok 3 "}" 27 14 64)) (mkPtok 40 "," 28 0 65))); (mkFieldWithAttr (mkSpan (mkPtok 7 "@lengthOf(" 28 2 66) (mkPtok 40 "," 28 70 77)) [(FALengthOf (mkSpan (mkPtok 7 "@lengthOf(" 28 2 66) (mkPtok 6 ")" 28 15 68)) (mkLengthOf (mkSpan (mkPtok 7 "@lengthOf(" 28 2 66) (mkPtok 6 ")" 28 15 68)) (mkPtok 7 "@lengthOf(" 28 2 66) (mkPtok 42 "A" 28 13 67) (mkPtok 6 ")" 28 15 68))); (FACalculatedFrom (mkSpan (mkPtok 5 "@calculatedFrom(" 28 17 69) (mkPtok 6 ")" 28 43 71)) (mkCalculatedFrom (mkSpan (mkPtok 5 "@calculatedFrom(" 28 17 69) (mkPtok 6 ")" 28 43 71)) (mkPtok 5 "@calculatedFrom(" 28 17 69) (mkPtok 31 """packet""" 28 34 70) (mkPtok 6 ")" 28 43 71))); (FAPadding (mkSpan (mkPtok 32 "@rightPad" 28 44 72) (mkPtok 6 ")" 28 61 75)) (mkPaddingAttr (mkSpan (mkPtok 32 "@rightPad" 28 44 72) (mkPtok 6 ")" 28 61 75)) (mkPtok 32 "@rightPad" 28 44 72) (mkPtok 8 "(" 28 54 73) (Some (mkPtok 33 "'0'" 28 56 74)) (mkPtok 6 ")" 28 61 75)))] (ObjectField (mkSpan (mkPtok 42 "Header" 28 63 76) (mkPtok 40 "," 28 70 77)) None (mkPtok 42 "Header" 28 63 76) None None (mkPtok 40 "," 28 70 77))); (mkFieldWithAttr (mkSpan (mkPtok 42 "msg_type" 28 71 78) (mkPtok 40 "," 28 86 80)) [] (ObjectField (mkSpan (mkPtok 42 "msg_type" 28 71 78) (mkPtok 40 "," 28 86 80)) None (mkPtok 42 "msg_type" 28 71 78) (Some (mkPtok 42 "charz" 28 80 79)) None (mkPtok 40 "," 28 86 80)))] (mkPtok 3 "}" 29 0 82))); (DPacket (mkPacketDef (mkSpan (mkPtok 35 "packet" 29 2 83) (mkPtok 3 "}" 39 4 106)) None (mkPtok 35 "packet" 29 2 83) (mkPtok 42 "x" 29 9 84) (mkPtok 2 "{" 30 0 85) [(mkFieldWithAttr (mkSpan (mkPtok 5 "@calculatedFrom(" 30 2 86) (mkPtok 40 "," 35 0 97)) [(FACalculatedFrom (mkSpan (mkPtok 5 "@calculatedFrom(" 30 2 86) (mkPtok 6 ")" 30 23 88)) (mkCalculatedFrom (mkSpan (mkPtok 5 "@calculatedFrom(" 30 2 86) (mkPtok 6 ")" 30 23 88)) (mkPtok 5 "@calculatedFrom(" 30 2 86) (mkPtok 31 (string_of_bytes [34; 240; 159; 152; 128; 34]%N) 30 19 87) (mkPtok 6 ")" 30 23 88)))] (CheckSumField (mkSpan (mkPtok 14 "zchar[" 31 0 89) (mkPtok 40 "," 35 0 97)) (mkChecksumFieldDecl (mkSpan (mkPtok 14 "zchar[" 31 0 89) (mkPtok 40 "," 35 0 97)) (Some (TyFixed (mkSpan (mkPtok 14 "zchar[" 31 0 89) (mkPtok 13 "]" 31 18 91)) (mkFixedString (mkSpan (mkPtok 14 "zchar[" 31 0 89) (mkPtok 13 "]" 31 18 91)) (mkPtok 14 "zchar[" 31 0 89) (mkPtok 30 "0123456789" 31 7 90) (mkPtok 13 "]" 31 18 91)))) (mkPtok 42 "A" 31 19 92) (mkCalculatedFrom (mkSpan (mkPtok 5 "@calculatedFrom(" 33 4 94) (mkPtok 6 ")" 34 4 96)) (mkPtok 5 "@calculatedFrom(" 33 4 94) (mkPtok 31 (string_of_bytes [34; 97; 9; 98; 34]%N) 33 21 95) (mkPtok 6 ")" 34 4 96)) None (mkPtok 40 "," 35 0 97)))); (mkFieldWithAttr (mkSpan (mkPtok 5 "@calculatedFrom(" 35 2 98) (mkPtok 40 "," 38 2 105)) [(FACalculatedFrom (mkSpan (mkPtok 5 "@calculatedFrom(" 35 2 98) (mkPtok 6 ")" 37 0 101)) (mkCalculatedFrom (mkSpan (mkPtok 5 "@calculatedFrom(" 35 2 98) (mkPtok 6 ")" 37 0 101)) (mkPtok 5 "@calculatedFrom(" 35 2 98) (mkPtok 31 """""" 36 0 100) (mkPtok 6 ")" 37 0 101)))] (ObjectField (mkSpan (mkPtok 36 "repeat" 37 2 102) (mkPtok 40 "," 38 2 105)) (Some (mkPtok 36 "repeat" 37 2 102)) (mkPtok 42 "BodyLength" 37 9 103) None (Some (mkPtok 43 (string_of_bytes [96; 10; 96]%N) 37 20 104)) (mkPtok 40 "," 38 2 105)))] (mkPtok 3 "}" 39 4 106))); (DPacket (mkPacketDef (mkSpan (mkPtok 35 "packet" 39 5 107) (mkPtok 3 "}" 54 33 150)) None (mkPtok 35 "packet" 39 5 107) (mkPtok 42 "Foo" 39 12 108) (mkPtok 2 "{" 39 15 109) [(mkFieldWithAttr (mkSpan (mkPtok 12 "char[" 39 18 110) (mkPtok 40 "," 44 4 119)) [] (LengthField (mkSpan (mkPtok 12 "char[" 39 18 110) (mkPtok 40 "," 44 4 119)) (mkLengthFieldDecl (mkSpan (mkPtok 12 "char[" 39 18 110) (mkPtok 40 "," 44 4 119)) (Some (TyFixed (mkSpan (mkPtok 12 "char[" 39 18 110) (mkPtok 13 "]" 40 6 112)) (mkFixedString (mkSpan (mkPtok 12 "char[" 39 18 110) (mkPtok 13 "]" 40 6 112)) (mkPtok 12 "char[" 39 18 110) (mkPtok 30 "7" 40 4 111) (mkPtok 13 "]" 40 6 112)))) (mkPtok 42 "crc" 40 8 113) (mkLengthOf (mkSpan (mkPtok 7 "@lengthOf(" 41 0 115) (mkPtok 6 ")" 42 6 117)) (mkPtok 7 "@lengthOf(" 41 0 115) (mkPtok 42 "charz" 42 0 116) (mkPtok 6 ")" 42 6 117)) None (mkPtok 40 "," 44 4 119)))); (mkFieldWithAttr (mkSpan (mkPtok 7 "@lengthOf(" 45 0 120) (mkPtok 40 "," 46 8 124)) [(FALengthOf (mkSpan (mkPtok 7 "@lengthOf(" 45 0 120) (mkPtok 6 ")" 46 0 122)) (mkLengthOf (mkSpan (mkPtok 7 "@lengthOf(" 45 0 120) (mkPtok 6 ")" 46 0 122)) (mkPtok 7 "@lengthOf(" 45 0 120) (mkPtok 42 "float" 45 11 121) (mkPtok 6 ")" 46 0 122)))] (ObjectField (mkSpan (mkPtok 42 "charz" 46 2 123) (mkPtok 40 "," 46 8 124)) None (mkPtok 42 "charz" 46 2 123) None None (mkPtok 40 "," 46 8 124))); (mkFieldWithAttr (mkSpan (mkPtok 36 "repeat" 46 9 125) (mkPtok 40 "," 46 22 128)) [] (MetaField (mkSpan (mkPtok 36 "repeat" 46 9 125) (mkPtok 40 "," 46 22 128)) (Some (mkPtok 36 "repeat" 46 9 125)) (mkMetaDecl (mkSpan (mkPtok 24 "i8" 46 16 126) (mkPtok 40 "," 46 22 128)) (TyBasic (mkSpan (mkPtok 24 "i8" 46 16 126) (mkPtok 24 "i8" 46 16 126)) (mkBasicType (mkSpan (mkPtok 24 "i8" 46 16 126) (mkPtok 24 "i8" 46 16 126)) (mkPtok 24 "i8" 46 16 126))) (mkPtok 42 "Foo" 46 19 127) None (mkPtok 40 "," 46 22 128)))); (mkFieldWithAttr (mkSpan (mkPtok 23 "uint64" 46 24 129) (mkPtok 40 "," 48 4 133)) [] (MetaField (mkSpan (mkPtok 23 "uint64" 46 24 129) (mkPtok 40 "," 48 4 133)) None (mkMetaDecl (mkSpan (mkPtok 23 "uint64" 46 24 129) (mkPtok 40 "," 48 4 133)) (TyBasic (mkSpan (mkPtok 23 "uint64" 46 24 129) (mkPtok 23 "uint64" 46 24 129)) (mkBasicType (mkSpan (mkPtok 23 "uint64" 46 24 129) (mkPtok 23 "uint64" 46 24 129)) (mkPtok 23 "uint64" 46 24 129))) (mkPtok 42 "leftPad" 46 31 130) (Some (mkPtok 43 "`{ , }`" 47 0 132)) (mkPtok 40 "," 48 4 133)))); (mkFieldWithAttr (mkSpan (mkPtok 42 "falsey" 49 0 135) (mkPtok 40 "," 50 1 137)) [] (ObjectField (mkSpan (mkPtok 42 "falsey" 49 0 135) (mkPtok 40 "," 50 1 137)) None (mkPtok 42 "falsey" 49 0 135) (Some (mkPtok 42 "A" 50 0 136)) None (mkPtok 40 "," 50 1 137))); (mkFieldWithAttr (mkSpan (mkPtok 36 "repeat" 51 0 138) (mkPtok 40 "," 53 4 143)) [] (ObjectField (mkSpan (mkPtok 36 "repeat" 51 0 138) (mkPtok 40 "," 53 4 143)) (Some (mkPtok 36 "repeat" 51 0 138)) (mkPtok 42 "u128" 51 7 139) (Some (mkPtok 42 "x_y_z" 51 12 140)) (Some (mkPtok 43 "`// not a comment`" 51 18 141)) (mkPtok 40 "," 53 4 143))); (mkFieldWithAttr (mkSpan (mkPtok 42 "Logon" 54 0 145) (mkPtok 40 "," 54 31 149)) [] (CheckSumField (mkSpan (mkPtok 42 "Logon" 54 0 145) (mkPtok 40 "," 54 31 149)) (mkChecksumFieldDecl (mkSpan (mkPtok 42 "Logon" 54 0 145) (mkPtok 40 "," 54 31 149)) None (mkPtok 42 "Logon" 54 0 145) (mkCalculatedFrom (mkSpan (mkPtok 5 "@calculatedFrom(" 54 6 146) (mkPtok 6 ")" 54 29 148)) (mkPtok 5 "@calculatedFrom(" 54 6 146) (mkPtok 31 (string_of_bytes [34; 97; 9; 98; 34]%N) 54 23 147) (mkPtok 6 ")" 54 29 148)) None (mkPtok 40 "," 54 31 149))))] (mkPtok 3 "}" 54 33 150)))])).
Eval vm_compute in ("<<<M633>>>" ++ check (runes_of_ascii "options { packetx =' '
}root	packet i64_ {string // trailing space 
Foo , @tag(// " ++ [27880; 37322]%N ++ runes_of_ascii "
3	) u128 @calculatedFrom( ""\" ++ [233]%N ++ runes_of_ascii """ )	`
` , repeat char[//
00  ] Logon ,repeat crc lengthOf`a\` , }
")).
Eval vm_compute in ("<<<M665>>>" ++ check (runes_of_ascii " 	 ")).
Eval vm_compute in ("<<<M697>>>" ++ check (runes_of_ascii "packet u128{ }
    // " ++ [128512]%N ++ runes_of_ascii " emoji
    root
packet
rootA{ @tag( // " ++ [27880; 37322]%N ++ runes_of_ascii "
007 )
match uint8x as
    crc {	""a\""b"" :
    charz ,},
    // packet A { u8 x, }
    uint64 repeatCount ,@tag(007//x
)
    uint8 f32a
, @rightPad (
' ' ) @leftPad
( '\x00')  @lengthOf( stringy ) T@lengthOf( charz
    ), metadata matchKey , }
    packet msg_type {
    stringy zchar `" ++ [28040; 24687; 31867; 22411]%N ++ runes_of_ascii "` , }
")).
Eval vm_compute in ("<<<M729>>>" ++ check (runes_of_ascii "MetaData float { u8 Packet
    ,
    string i64_ `" ++ [28040; 24687; 31867; 22411]%N ++ runes_of_ascii "`
, charz pack , char
rootA ,char[0123456789 ] msg_type ,
    uint8 calculatedFrom , } packet	Pad
    { }
    root packet len{ // c
matchKey
    @calculatedFrom(""a\""b""
    ) `u8 x,`
, //x
@leftPad
    ( ) match roots as u128{ [  4294967296
    // packet A { u8 x, }
    , 007] :body , } , charz ,
    // trailing space 
    }")).
Eval vm_compute in ("<<<M761>>>" ++ check (runes_of_ascii "root packet //
Pad {
    char[
00
]
stringy @calculatedFrom( ""\" ++ [233]%N ++ runes_of_ascii """ ) `it's`,zchar{
falsey
Header // @lengthOf(
`two words` , Packet
@lengthOf( int ) `` ,charz
asx , u32 A , }	, string
    metadata, repeat
char[
1 ]	crc`
`
, Foo `it's` ,}packet
    // c
    rootA
    { repeat
    i32 matchKey , repeat x_y_z `// not a comment`, roots
    @calculatedFrom(
""\n"" ),
x_y_z {
    zchar[ 42]
// packet A { u8 x, }
// " ++ [27880; 37322]%N ++ runes_of_ascii "
charz@lengthOf( u128 ) // " ++ [128512]%N ++ runes_of_ascii " emoji
, leftPad`line1
line2` ,}
, falsey crc`crlf
line`,
    repeat
// " ++ [128512]%N ++ runes_of_ascii " emoji
// c
char
i64_ `a\` , }
    packet Packet { repeat //	t
i64_{ repeat metadata  { repeatCount `{ , }`,  int16// c
o , },
    //	t
    repeat uint64	A , float @calculatedFrom(
""a\""b""
    )
, zchar[	7 ]
T , }
, @leftPad
( '\x00')
    repeatCount	`a\` , } MetaData o // " ++ [27880; 37322]%N ++ runes_of_ascii "
{
    // a // b
    int
// packet A { u8 x, }
// @lengthOf(
repeatCount`line1
line2` ,} options	{ msg_type
=
00//x
}")).
Eval vm_compute in ("<<<M793>>>" ++ check (runes_of_ascii "
MetaData
    A{ calculatedFrom
falsey `line1
line2` , //x
char[ 255 ]T
    `
` , float32 Logon ,
    stringy
i8i8 ,
char[]rootA
`{ , }` , }
")).
Eval vm_compute in ("<<<M825>>>" ++ check (runes_of_ascii "options
    { }
")).
Eval vm_compute in ("<<<T825>>>" ++ terms [mkTok 1 "options" 1 0 false; mkTok 2 "{" 2 4 false; mkTok 3 "}" 2 6 false; mkTok 0 "<EOF>" 3 0 false] (mkPacket (mkPtok 1 "options" 1 0 0) (Some (mkPtok 3 "}" 2 6 2)) [(DOption (mkOptionDef (mkSpan (mkPtok 1 "options" 1 0 0) (mkPtok 3 "}" 2 6 2)) (mkPtok 1 "options" 1 0 0) (mkPtok 2 "{" 2 4 1) [] (mkPtok 3 "}" 2 6 2)))])).
Eval vm_compute in ("<<<M857>>>" ++ check (runes_of_ascii "//	t
MetaData
    chars { falsey pack , packetx zchar
    `
`	, } // " ++ [128512]%N ++ runes_of_ascii " emoji
packet u128
    {@lengthOf(tag ) @tag(
    // trailing space 
    1)
@rightPad
(
'\x00'
    ) i64 T
,
}")).
Eval vm_compute in ("<<<M889>>>" ++ check (runes_of_ascii "options
{A =
char ; } MetaData// @lengthOf(
metadata { crc matchKey `u8 x,` ,
    }")).
Eval vm_compute in ("<<<M921>>>" ++ check (runes_of_ascii "packet zchar
{ }")).
Eval vm_compute in ("<<<M953>>>" ++ check (runes_of_ascii "
MetaData
    //	t
    u { int8 body
,
    string Packet ,} options // `tick` ""quote"" 'q'
{
    matchKey =float64
;
}
packet roots	{ // " ++ [128512]%N ++ runes_of_ascii " emoji
@calculatedFrom(	""abc"")
match MetaDataX
// " ++ [27880; 37322]%N ++ runes_of_ascii "
// c
as // " ++ [27880; 37322]%N ++ runes_of_ascii "
_x
    { 007
    : o[ 42  , ""x y""
, 65535 , 1 ,
65535
    ,""a	b""	,4294967296 ,
00 ]:f32a ""CRC32"" : repeatCount  , ""CRC32"" :u128 ,	} ,} options { } MetaData uint8x
{
char[] u128 , body
crc  `
`,
    lengthOf rootA ,// " ++ [128512]%N ++ runes_of_ascii " emoji
i8 crc
, }

")).
Eval vm_compute in ("<<<M985>>>" ++ check (runes_of_ascii "MetaData float
{ // " ++ [27880; 37322]%N ++ runes_of_ascii "
} root packet	Header {float  {
i32 u8x @lengthOf( a1 )
`u8 x,` , }
, char[] i64_
@calculatedFrom( ""a\\"" )
`" ++ [233]%N ++ runes_of_ascii "`,
    float64	packetx `{ , }`,
    } // packet A { u8 x, }")).
Eval vm_compute in ("<<<M1017>>>" ++ check (runes_of_ascii "MetaData	asx { u32
asx
    ,
//
// a // b
roots Packet
    // " ++ [128512]%N ++ runes_of_ascii " emoji
    , }
root packet
pack{ // @lengthOf(
len @calculatedFrom(""// no comment"" )
    , match pack as leftPad { [007] // `tick` ""quote"" 'q'
:	crc
    //	t
    ,10 :
    tag
    ,7 : packetx
    ,
""" ++ [28040; 24687]%N ++ runes_of_ascii """ : stringy ,
65535
:
    i64_ ,1
: MetaDataX ,
}	, zchar[
    /// triple
    4294967296 ] chars @calculatedFrom(
    //	t
    ""\n""
// `tick` ""quote"" 'q'
// " ++ [27880; 37322]%N ++ runes_of_ascii "
) ,
    }
")).
Eval vm_compute in ("<<<M1049>>>" ++ check (runes_of_ascii "
root packet _x{@lengthOf(
    //
    options1 ) charz @lengthOf( Foo
)	,// packet A { u8 x, }
} packet metadata
    { }
    packet
crc  { stringy@calculatedFrom(  ""packet"" )
`// not a comment` , @tag(42 )repeat
leftPad	{body@calculatedFrom( ""a\""b"" ) `two words`, } ,@tag( 1	) repeat uint16 packetx `a\` // trailing space 
,repeat zchar[ 00]matchKey
/// triple
//x
``
,@calculatedFrom(	""`tick`"" )//
@calculatedFrom( ""1""
) char[ 00]
u128 @lengthOf(
    a1 ) , @lengthOf( lengthOf)@rightPad
    (
    '0'
) @lengthOf(u128) rootA, } options
    { } packet u128 { @tag(
    // `tick` ""quote"" 'q'
    3 )
    @tag(
    // packet A { u8 x, }
    255 /// triple
) @lengthOf(
_x )	char crc
    `// not a comment`
// " ++ [128512]%N ++ runes_of_ascii " emoji
//	t
,repeat matchKey
    repeatCount , repeat
    T
    `a\`
,	@tag( 00 ) repeat rootA`tab	here`, } //	t")).
Eval vm_compute in ("<<<T1049>>>" ++ terms [mkTok 34 "root" 2 0 false; mkTok 35 "packet" 2 5 false; mkTok 42 "_x" 2 12 false; mkTok 2 "{" 2 14 false; mkTok 7 "@lengthOf(" 2 15 false; mkTok 44 "//" 3 4 true; mkTok 42 "options1" 4 4 false; mkTok 6 ")" 4 13 false; mkTok 42 "charz" 4 15 false; mkTok 7 "@lengthOf(" 4 21 false; mkTok 42 "Foo" 4 32 false; mkTok 6 ")" 5 0 false; mkTok 40 "," 5 2 false; mkTok 44 "// packet A { u8 x, }" 5 3 true; mkTok 3 "}" 6 0 false; mkTok 35 "packet" 6 2 false; mkTok 42 "metadata" 6 9 false; mkTok 2 "{" 7 4 false; mkTok 3 "}" 7 6 false; mkTok 35 "packet" 8 4 false; mkTok 42 "crc" 9 0 false; mkTok 2 "{" 9 5 false; mkTok 42 "stringy" 9 7 false; mkTok 5 "@calculatedFrom(" 9 14 false; mkTok 31 """packet""" 9 32 false; mkTok 6 ")" 9 41 false; mkTok 43 "`// not a comment`" 10 0 false; mkTok 40 "," 10 19 false; mkTok 9 "@tag(" 10 21 false; mkTok 30 "42" 10 26 false; mkTok 6 ")" 10 29 false; mkTok 36 "repeat" 10 30 false; mkTok 42 "leftPad" 11 0 false; mkTok 2 "{" 11 8 false; mkTok 42 "body" 11 9 false; mkTok 5 "@calculatedFrom(" 11 13 false; mkTok 31 """a\""b""" 11 30 false; mkTok 6 ")" 11 37 false; mkTok 43 "`two words`" 11 39 false; mkTok 40 "," 11 50 false; mkTok 3 "}" 11 52 false; mkTok 40 "," 11 54 false; mkTok 9 "@tag(" 11 55 false; mkTok 30 "1" 11 61 false; mkTok 6 ")" 11 63 false; mkTok 36 "repeat" 11 65 false; mkTok 21 "uint16" 11 72 false; mkTok 42 "packetx" 11 79 false; mkTok 43 "`a\`" 11 87 false; mkTok 44 "// trailing space " 11 92 true; mkTok 40 "," 12 0 false; mkTok 36 "repeat" 12 1 false; mkTok 14 "zchar[" 12 8 false; mkTok 30 "00" 12 15 false; mkTok 13 "]" 12 17 false; mkTok 42 "matchKey" 12 18 false; mkTok 44 "/// triple" 13 0 true; mkTok 44 "//x" 14 0 true; mkTok 43 "``" 15 0 false; mkTok 40 "," 16 0 false; mkTok 5 "@calculatedFrom(" 16 1 false; mkTok 31 """`tick`""" 16 18 false; mkTok 6 ")" 16 27 false; mkTok 44 "//" 16 28 true; mkTok 5 "@calculatedFrom(" 17 0 false; mkTok 31 """1""" 17 17 false; mkTok 6 ")" 18 0 false; mkTok 12 "char[" 18 2 false; mkTok 30 "00" 18 8 false; mkTok 13 "]" 18 10 false; mkTok 42 "u128" 19 0 false; mkTok 7 "@lengthOf(" 19 5 false; mkTok 42 "a1" 20 4 false; mkTok 6 ")" 20 7 false; mkTok 40 "," 20 9 false; mkTok 7 "@lengthOf(" 20 11 false; mkTok 42 "lengthOf" 20 22 false; mkTok 6 ")" 20 30 false; mkTok 32 "@rightPad" 20 31 false; mkTok 8 "(" 21 4 false; mkTok 33 "'0'" 22 4 false; mkTok 6 ")" 23 0 false; mkTok 7 "@lengthOf(" 23 2 false; mkTok 42 "u128" 23 12 false; mkTok 6 ")" 23 16 false; mkTok 42 "rootA" 23 18 false; mkTok 40 "," 23 23 false; mkTok 3 "}" 23 25 false; mkTok 1 "options" 23 27 false; mkTok 2 "{" 24 4 false; mkTok 3 "}" 24 6 false; mkTok 35 "packet" 24 8 false; mkTok 42 "u128" 24 15 false; mkTok 2 "{" 24 20 false; mkTok 9 "@tag(" 24 22 false; mkTok 44 "// `tick` ""quote"" 'q'" 25 4 true; mkTok 30 "3" 26 4 false; mkTok 6 ")" 26 6 false; mkTok 9 "@tag(" 27 4 false; mkTok 44 "// packet A { u8 x, }" 28 4 true; mkTok 30 "255" 29 4 false; mkTok 44 "/// triple" 29 8 true; mkTok 6 ")" 30 0 false; mkTok 7 "@lengthOf(" 30 2 false; mkTok 42 "_x" 31 0 false; mkTok 6 ")" 31 3 false; mkTok 19 "char" 31 5 false; mkTok 42 "crc" 31 10 false; mkTok 43 "`// not a comment`" 32 4 false; mkTok 44 (string_of_bytes [47; 47; 32; 240; 159; 152; 128; 32; 101; 109; 111; 106; 105]%N) 33 0 true; mkTok 44 (string_of_bytes [47; 47; 9; 116]%N) 34 0 true; mkTok 40 "," 35 0 false; mkTok 36 "repeat" 35 1 false; mkTok 42 "matchKey" 35 8 false; mkTok 42 "repeatCount" 36 4 false; mkTok 40 "," 36 16 false; mkTok 36 "repeat" 36 18 false; mkTok 42 "T" 37 4 false; mkTok 43 "`a\`" 38 4 false; mkTok 40 "," 39 0 false; mkTok 9 "@tag(" 39 2 false; mkTok 30 "00" 39 8 false; mkTok 6 ")" 39 11 false; mkTok 36 "repeat" 39 13 false; mkTok 42 "rootA" 39 20 false; mkTok 43 (string_of_bytes [96; 116; 97; 98; 9; 104; 101; 114; 101; 96]%N) 39 25 false; mkTok 40 "," 39 35 false; mkTok 3 "}" 39 37 false; mkTok 44 (string_of_bytes [47; 47; 9; 116]%N) 39 39 true; mkTok 0 "<EOF>" 39 43 false] (mkPacket (mkPtok 34 "root" 2 0 0) (Some (mkPtok 3 "}" 39 37 127)) [(DPacket (mkPacketDef (mkSpan (mkPtok 34 "root" 2 0 0) (mkPtok 3 "}" 6 0 14)) (Some (mkPtok 34 "root" 2 0 0)) (mkPtok 35 "packet" 2 5 1) (mkPtok 42 "_x" 2 12 2) (mkPtok 2 "{" 2 14 3) [(mkFieldWithAttr (mkSpan (mkPtok 7 "@lengthOf(" 2 15 4) (mkPtok 40 "," 5 2 12)) [(FALengthOf (mkSpan (mkPtok 7 "@lengthOf(" 2 15 4) (mkPtok 6 ")" 4 13 7)) (mkLengthOf (mkSpan (mkPtok 7 "@lengthOf(" 2 15 4) (mkPtok 6 ")" 4 13 7)) (mkPtok 7 "@lengthOf(" 2 15 4) (mkPtok 42 "options1" 4 4 6) (mkPtok 6 ")" 4 13 7)))] (LengthField (mkSpan (mkPtok 42 "charz" 4 15 8) (mkPtok 40 "," 5 2 12)) (mkLengthFieldDecl (mkSpan (mkPtok 42 "charz" 4 15 8) (mkPtok 40 "," 5 2 12)) None (mkPtok 42 "charz" 4 15 8) (mkLengthOf (mkSpan (mkPtok 7 "@lengthOf(" 4 21 9) (mkPtok 6 ")" 5 0 11)) (mkPtok 7 "@lengthOf(" 4 21 9) (mkPtok 42 "Foo" 4 32 10) (mkPtok 6 ")" 5 0 11)) None (mkPtok 40 "," 5 2 12))))] (mkPtok 3 "}" 6 0 14))); (DPacket (mkPacketDef (mkSpan (mkPtok 35 "packet" 6 2 15) (mkPtok 3 "}" 7 6 18)) None (mkPtok 35 "packet" 6 2 15) (mkPtok 42 "metadata" 6 9 16) (mkPtok 2 "{" 7 4 17) [] (mkPtok 3 "}" 7 6 18))); (DPacket (mkPacketDef (mkSpan (mkPtok 35 "packet" 8 4 19) (mkPtok 3 "}" 23 25 87)) None (mkPtok 35 "packet" 8 4 19) (mkPtok 42 "crc" 9 0 20) (mkPtok 2 "{" 9 5 21) [(mkFieldWithAttr (mkSpan (mkPtok 42 "stringy" 9 7 22) (mkPtok 40 "," 10 19 27)) [] (CheckSumField (mkSpan (mkPtok 42 "stringy" 9 7 22) (mkPtok 40 "," 10 19 27)) (mkChecksumFieldDecl (mkSpan (mkPtok 42 "stringy" 9 7 22) (mkPtok 40 "," 10 19 27)) None (mkPtok 42 "stringy" 9 7 22) (mkCalculatedFrom (mkSpan (mkPtok 5 "@calculatedFrom(" 9 14 23) (mkPtok 6 ")" 9 41 25)) (mkPtok 5 "@calculatedFrom(" 9 14 23) (mkPtok 31 """packet""" 9 32 24) (mkPtok 6 ")" 9 41 25)) (Some (mkPtok 43 "`// not a comment`" 10 0 26)) (mkPtok 40 "," 10 19 27)))); (mkFieldWithAttr (mkSpan (mkPtok 9 "@tag(" 10 21 28) (mkPtok 40 "," 11 54 41)) [(FATag (mkSpan (mkPtok 9 "@tag(" 10 21 28) (mkPtok 6 ")" 10 29 30)) (mkTagAttr (mkSpan (mkPtok 9 "@tag(" 10 21 28) (mkPtok 6 ")" 10 29 30)) (mkPtok 9 "@tag(" 10 21 28) (mkPtok 30 "42" 10 26 29) (mkPtok 6 ")" 10 29 30)))] (InerObjectField (mkSpan (mkPtok 36 "repeat" 10 30 31) (mkPtok 40 "," 11 54 41)) (Some (mkPtok 36 "repeat" 10 30 31)) (InerObjectDecl (mkSpan (mkPtok 42 "leftPad" 11 0 32) (mkPtok 3 "}" 11 52 40)) (mkPtok 42 "leftPad" 11 0 32) (mkPtok 2 "{" 11 8 33) [(CheckSumField (mkSpan (mkPtok 42 "body" 11 9 34) (mkPtok 40 "," 11 50 39)) (mkChecksumFieldDecl (mkSpan (mkPtok 42 "body" 11 9 34) (mkPtok 40 "," 11 50 39)) None (mkPtok 42 "body" 11 9 34) (mkCalculatedFrom (mkSpan (mkPtok 5 "@calculatedFrom(" 11 13 35) (mkPtok 6 ")" 11 37 37)) (mkPtok 5 "@calculatedFrom(" 11 13 35) (mkPtok 31 """a\""b""" 11 30 36) (mkPtok 6 ")" 11 37 37)) (Some (mkPtok 43 "`two words`" 11 39 38)) (mkPtok 40 "," 11 50 39)))] (mkPtok 3 "}" 11 52 40)) (mkPtok 40 "," 11 54 41))); (mkFieldWithAttr (mkSpan (mkPtok 9 "@tag(" 11 55 42) (mkPtok 40 "," 12 0 50)) [(FATag (mkSpan (mkPtok 9 "@tag(" 11 55 42) (mkPtok 6 ")" 11 63 44)) (mkTagAttr (mkSpan (mkPtok 9 "@tag(" 11 55 42) (mkPtok 6 ")" 11 63 44)) (mkPtok 9 "@tag(" 11 55 42) (mkPtok 30 "1" 11 61 43) (mkPtok 6 ")" 11 63 44)))] (MetaField (mkSpan (mkPtok 36 "repeat" 11 65 45) (mkPtok 40 "," 12 0 50)) (Some (mkPtok 36 "repeat" 11 65 45)) (mkMetaDecl (mkSpan (mkPtok 21 "uint16" 11 72 46) (mkPtok 40 "," 12 0 50)) (TyBasic (mkSpan (mkPtok 21 "uint16" 11 72 46) (mkPtok 21 "uint16" 11 72 46)) (mkBasicType (mkSpan (mkPtok 21 "uint16" 11 72 46) (mkPtok 21 "uint16" 11 72 46)) (mkPtok 21 "uint16" 11 72 46))) (mkPtok 42 "packetx" 11 79 47) (Some (mkPtok 43 "`a\`" 11 87 48)) (mkPtok 40 "," 12 0 50)))); (mkFieldWithAttr (mkSpan (mkPtok 36 "repeat" 12 1 51) (mkPtok 40 "," 16 0 59)) [] (MetaField (mkSpan (mkPtok 36 "repeat" 12 1 51) (mkPtok 40 "," 16 0 59)) (Some (mkPtok 36 "repeat" 12 1 51)) (mkMetaDecl (mkSpan (mkPtok 14 "zchar[" 12 8 52) (mkPtok 40 "," 16 0 59)) (TyFixed (mkSpan (mkPtok 14 "zchar[" 12 8 52) (mkPtok 13 "]" 12 17 54)) (mkFixedString (mkSpan (mkPtok 14 "zchar[" 12 8 52) (mkPtok 13 "]" 12 17 54)) (mkPtok 14 "zchar[" 12 8 52) (mkPtok 30 "00" 12 15 53) (mkPtok 13 "]" 12 17 54))) (mkPtok 42 "matchKey" 12 18 55) (Some (mkPtok 43 "``" 15 0 58)) (mkPtok 40 "," 16 0 59)))); (mkFieldWithAttr (mkSpan (mkPtok 5 "@calculatedFrom(" 16 1 60) (mkPtok 40 "," 20 9 74)) [(FACalculatedFrom (mkSpan (mkPtok 5 "@calculatedFrom(" 16 1 60) (mkPtok 6 ")" 16 27 62)) (mkCalculatedFrom (mkSpan (mkPtok 5 "@calculatedFrom(" 16 1 60) (mkPtok 6 ")" 16 27 62)) (mkPtok 5 "@calculatedFrom(" 16 1 60) (mkPtok 31 """`tick`""" 16 18 61) (mkPtok 6 ")" 16 27 62))); (FACalculatedFrom (mkSpan (mkPtok 5 "@calculatedFrom(" 17 0 64) (mkPtok 6 ")" 18 0 66)) (mkCalculatedFrom (mkSpan (mkPtok 5 "@calculatedFrom(" 17 0 64) (mkPtok 6 ")" 18 0 66)) (mkPtok 5 "@calculatedFrom(" 17 0 64) (mkPtok 31 """1""" 17 17 65) (mkPtok 6 ")" 18 0 66)))] (LengthField (mkSpan (mkPtok 12 "char[" 18 2 67) (mkPtok 40 "," 20 9 74)) (mkLengthFieldDecl (mkSpan (mkPtok 12 "char[" 18 2 67) (mkPtok 40 "," 20 9 74)) (Some (TyFixed (mkSpan (mkPtok 12 "char[" 18 2 67) (mkPtok 13 "]" 18 10 69)) (mkFixedString (mkSpan (mkPtok 12 "char[" 18 2 67) (mkPtok 13 "]" 18 10 69)) (mkPtok 12 "char[" 18 2 67) (mkPtok 30 "00" 18 8 68) (mkPtok 13 "]" 18 10 69)))) (mkPtok 42 "u128" 19 0 70) (mkLengthOf (mkSpan (mkPtok 7 "@lengthOf(" 19 5 71) (mkPtok 6 ")" 20 7 73)) (mkPtok 7 "@lengthOf(" 19 5 71) (mkPtok 42 "a1" 20 4 72) (mkPtok 6 ")" 20 7 73)) None (mkPtok 40 "," 20 9 74)))); (mkFieldWithAttr (mkSpan (mkPtok 7 "@lengthOf(" 20 11 75) (mkPtok 40 "," 23 23 86)) [(FALengthOf (mkSpan (mkPtok 7 "@lengthOf(" 20 11 75) (mkPtok 6 ")" 20 30 77)) (mkLengthOf (mkSpan (mkPtok 7 "@lengthOf(" 20 11 75) (mkPtok 6 ")" 20 30 77)) (mkPtok 7 "@lengthOf(" 20 11 75) (mkPtok 42 "lengthOf" 20 22 76) (mkPtok 6 ")" 20 30 77))); (FAPadding (mkSpan (mkPtok 32 "@rightPad" 20 31 78) (mkPtok 6 ")" 23 0 81)) (mkPaddingAttr (mkSpan (mkPtok 32 "@rightPad" 20 31 78) (mkPtok 6 ")" 23 0 81)) (mkPtok 32 "@rightPad" 20 31 78) (mkPtok 8 "(" 21 4 79) (Some (mkPtok 33 "'0'" 22 4 80)) (mkPtok 6 ")" 23 0 81))); (FALengthOf (mkSpan (mkPtok 7 "@lengthOf(" 23 2 82) (mkPtok 6 ")" 23 16 84)) (mkLengthOf (mkSpan (mkPtok 7 "@lengthOf(" 23 2 82) (mkPtok 6 ")" 23 16 84)) (mkPtok 7 "@lengthOf(" 23 2 82) (mkPtok 42 "u128" 23 12 83) (mkPtok 6 ")" 23 16 84)))] (ObjectField (mkSpan (mkPtok 42 "rootA" 23 18 85) (mkPtok 40 "," 23 23 86)) None (mkPtok 42 "rootA" 23 18 85) None None (mkPtok 40 "," 23 23 86)))] (mkPtok 3 "}" 23 25 87))); (DOption (mkOptionDef (mkSpan (mkPtok 1 "options" 23 27 88) (mkPtok 3 "}" 24 6 90)) (mkPtok 1 "options" 23 27 88) (mkPtok 2 "{" 24 4 89) [] (mkPtok 3 "}" 24 6 90))); (DPacket (mkPacketDef (mkSpan (mkPtok 35 "packet" 24 8 91) (mkPtok 3 "}" 39 37 127)) None (mkPtok 35 "packet" 24 8 91) (mkPtok 42 "u128" 24 15 92) (mkPtok 2 "{" 24 20 93) [(mkFieldWithAttr (mkSpan (mkPtok 9 "@tag(" 24 22 94) (mkPtok 40 "," 35 0 111)) [(FATag (mkSpan (mkPtok 9 "@tag(" 24 22 94) (mkPtok 6 ")" 26 6 97)) (mkTagAttr (mkSpan (mkPtok 9 "@tag(" 24 22 94) (mkPtok 6 ")" 26 6 97)) (mkPtok 9 "@tag(" 24 22 94) (mkPtok 30 "3" 26 4 96) (mkPtok 6 ")" 26 6 97))); (FATag (mkSpan (mkPtok 9 "@tag(" 27 4 98) (mkPtok 6 ")" 30 0 102)) (mkTagAttr (mkSpan (mkPtok 9 "@tag(" 27 4 98) (mkPtok 6 ")" 30 0 102)) (mkPtok 9 "@tag(" 27 4 98) (mkPtok 30 "255" 29 4 100) (mkPtok 6 ")" 30 0 102))); (FALengthOf (mkSpan (mkPtok 7 "@lengthOf(" 30 2 103) (mkPtok 6 ")" 31 3 105)) (mkLengthOf (mkSpan (mkPtok 7 "@lengthOf(" 30 2 103) (mkPtok 6 ")" 31 3 105)) (mkPtok 7 "@lengthOf(" 30 2 103) (mkPtok 42 "_x" 31 0 104) (mkPtok 6 ")" 31 3 105)))] (MetaField (mkSpan (mkPtok 19 "char" 31 5 106) (mkPtok 40 "," 35 0 111)) None (mkMetaDecl (mkSpan (mkPtok 19 "char" 31 5 106) (mkPtok 40 "," 35 0 111)) (TyBasic (mkSpan (mkPtok 19 "char" 31 5 106) (mkPtok 19 "char" 31 5 106)) (mkBasicType (mkSpan (mkPtok 19 "char" 31 5 106) (mkPtok 19 "char" 31 5 106)) (mkPtok 19 "char" 31 5 106))) (mkPtok 42 "crc" 31 10 107) (Some (mkPtok 43 "`// not a comment`" 32 4 108)) (mkPtok 40 "," 35 0 111)))); (mkFieldWithAttr (mkSpan (mkPtok 36 "repeat" 35 1 112) (mkPtok 40 "," 36 16 115)) [] (ObjectField (mkSpan (mkPtok 36 "repeat" 35 1 112) (mkPtok 40 "," 36 16 115)) (Some (mkPtok 36 "repeat" 35 1 112)) (mkPtok 42 "matchKey" 35 8 113) (Some (mkPtok 42 "repeatCount" 36 4 114)) None (mkPtok 40 "," 36 16 115))); (mkFieldWithAttr (mkSpan (mkPtok 36 "repeat" 36 18 116) (mkPtok 40 "," 39 0 119)) [] (ObjectField (mkSpan (mkPtok 36 "repeat" 36 18 116) (mkPtok 40 "," 39 0 119)) (Some (mkPtok 36 "repeat" 36 18 116)) (mkPtok 42 "T" 37 4 117) None (Some (mkPtok 43 "`a\`" 38 4 118)) (mkPtok 40 "," 39 0 119))); (mkFieldWithAttr (mkSpan (mkPtok 9 "@tag(" 39 2 120) (mkPtok 40 "," 39 35 126)) [(FATag (mkSpan (mkPtok 9 "@tag(" 39 2 120) (mkPtok 6 ")" 39 11 122)) (mkTagAttr (mkSpan (mkPtok 9 "@tag(" 39 2 120) (mkPtok 6 ")" 39 11 122)) (mkPtok 9 "@tag(" 39 2 120) (mkPtok 30 "00" 39 8 121) (mkPtok 6 ")" 39 11 122)))] (ObjectField (mkSpan (mkPtok 36 "repeat" 39 13 123) (mkPtok 40 "," 39 35 126)) (Some (mkPtok 36 "repeat" 39 13 123)) (mkPtok 42 "rootA" 39 20 124) None (Some (mkPtok 43 (string_of_bytes [96; 116; 97; 98; 9; 104; 101; 114; 101; 96]%N) 39 25 125)) (mkPtok 40 "," 39 35 126)))] (mkPtok 3 "}" 39 37 127)))])).
Eval vm_compute in ("<<<M1081>>>" ++ check (runes_of_ascii "//x
options {
o =//x
' '
; }
")).
Eval vm_compute in ("<<<M1113>>>" ++ check (runes_of_ascii "root packet u128 { }")).
Eval vm_compute in ("<<<M1145>>>" ++ check (runes_of_ascii "packet i64_{
@tag( 4294967296
) As
{ repeat f32
BodyLength ,
// trailing space 
// a // b
i64_ @calculatedFrom(""{,}""
// @lengthOf(
// a // b
) ,	repeatCount
packetx `" ++ [28040; 24687; 31867; 22411]%N ++ runes_of_ascii "`
    ,}, @lengthOf( _x )
options1 ,
    //	t
    options1 , @rightPad (
'0') repeat // packet A { u8 x, }
string Foo
    ,
    char[] string_@calculatedFrom(""a	b"" )// c
`u8 x,` ,
char[
// packet A { u8 x, }
// @lengthOf(
65535]  x_y_z ,	repeat
    options1 packetx/// triple
, @lengthOf(
matchKey )
@calculatedFrom( ""\" ++ [233]%N ++ runes_of_ascii """) repeat
    Logon // trailing space 
asx , matchKey
@lengthOf(
// `tick` ""quote"" 'q'
//
lengthOf  )
`u8 x,`
    , // packet A { u8 x, }
}root packet repeatCount{ @rightPad ( '\x00' ) u8 Packet `// not a comment`
    , @calculatedFrom( ""CRC32""
) i8i8 , repeat u{// `tick` ""quote"" 'q'
char[255]u128 , i16
    Packet `doc`, zchar[
    3//
]  BodyLength , char[]
u
    `say ""hi""`
    ,
} , int32 float ,i8 Logon , @lengthOf( rootA)  zchar[42 ] int @lengthOf( lengthOf ) , //
repeat	char[ 42 ]
metadata ,
} packet falsey{ }
")).
Eval vm_compute in ("<<<M1177>>>" ++ check (runes_of_ascii "// " ++ [128512]%N ++ runes_of_ascii " emoji
packet// @lengthOf(
string_ {@calculatedFrom(
""" ++ [233]%N ++ runes_of_ascii "t" ++ [233]%N ++ runes_of_ascii """) repeat
    i64 MetaDataX  , u64 i8i8
    `a\`
,
    As
//
// " ++ [27880; 37322]%N ++ runes_of_ascii "
, // packet A { u8 x, }
}
")).
Eval vm_compute in ("<<<M1209>>>" ++ check (runes_of_ascii "packet
    Logon
{Foo , }")).
Eval vm_compute in ("<<<M1241>>>" ++ check (runes_of_ascii "MetaData // packet A { u8 x, }
lengthOf
{ msg_type
// `tick` ""quote"" 'q'
// " ++ [128512]%N ++ runes_of_ascii " emoji
metadata , float32 matchKey`" ++ [28040; 24687; 31867; 22411]%N ++ runes_of_ascii "`//
,
int32 body , zchar[ 0123456789
    ] uint8x  , float32 int , int16 body , } //	t")).
Eval vm_compute in ("<<<M1273>>>" ++ check (runes_of_ascii "root packet //
i64_ { }")).
Eval vm_compute in ("<<<T1273>>>" ++ terms [mkTok 34 "root" 1 0 false; mkTok 35 "packet" 1 5 false; mkTok 44 "//" 1 12 true; mkTok 42 "i64_" 2 0 false; mkTok 2 "{" 2 5 false; mkTok 3 "}" 2 7 false; mkTok 0 "<EOF>" 2 8 false] (mkPacket (mkPtok 34 "root" 1 0 0) (Some (mkPtok 3 "}" 2 7 5)) [(DPacket (mkPacketDef (mkSpan (mkPtok 34 "root" 1 0 0) (mkPtok 3 "}" 2 7 5)) (Some (mkPtok 34 "root" 1 0 0)) (mkPtok 35 "packet" 1 5 1) (mkPtok 42 "i64_" 2 0 3) (mkPtok 2 "{" 2 5 4) [] (mkPtok 3 "}" 2 7 5)))])).
Eval vm_compute in ("<<<M1305>>>" ++ check (runes_of_ascii "//	t
options
    {
    packetx = '\x00' len =	false // packet A { u8 x, }
As =
""a\""b"" ;} packet
BodyLength {string options1  `crlf
line`
, // c
repeatCount @lengthOf( matchKey
) , }")).
Eval vm_compute in ("<<<M1337>>>" ++ check (runes_of_ascii "// a // b
options
    { i64_ //
=
    false ; BodyLength
    =
    10	;} packet msg_type { @lengthOf( msg_type) match rootA as
    tag { ""1""	:// `tick` ""quote"" 'q'
u8x ,[""x y""
    ,// " ++ [128512]%N ++ runes_of_ascii " emoji
""" ++ [233]%N ++ runes_of_ascii "t" ++ [233]%N ++ runes_of_ascii """, 0123456789
, 007 , 7, 255 ,	7 , 65535]:matchKey,4294967296 :chars""packet"" : charz
    ,
    ""// no comment"": // a // b
i64_ ,
10 : MetaDataX  ,} , @lengthOf( metadata )
MetaDataX@calculatedFrom(""" ++ [233]%N ++ runes_of_ascii "t" ++ [233]%N ++ runes_of_ascii """ ) `
` , f32a{
matchKey, } , zchar[10 ]  _x
`line1
line2` ,metadata crc ,	@lengthOf( body) char[
3  ]string_ ,repeat T , trueish// @lengthOf(
i8i8 ,f32
Header`
`,	@leftPad	(' ' ) char[00 ]o , } packet zchar { @lengthOf( Packet
) @lengthOf( falsey)// " ++ [128512]%N ++ runes_of_ascii " emoji
repeat rootA `doc`
    , @leftPad // " ++ [128512]%N ++ runes_of_ascii " emoji
( ' '
// @lengthOf(
// @lengthOf(
) char[] float @lengthOf(
roots )
,
    }root packet //x
lengthOf{
rootA// trailing space 
@calculatedFrom(
    ""it's"" ) ,
} root
    packet repeatCount// a // b
{ }
")).
Eval vm_compute in ("<<<M1369>>>" ++ check (runes_of_ascii "
MetaData i64_
{ A crc`crlf
line`, } options
// " ++ [27880; 37322]%N ++ runes_of_ascii "
// @lengthOf(
{ int =
    i8
    }")).
Eval vm_compute in ("<<<M1401>>>" ++ check (runes_of_ascii "//	t
packet crc { } MetaData len  { stringy	body `line1
line2`	, u16 crc , //
zchar[007 ] Z9_ , Header T,
} packet stringy //	t
{	@lengthOf( u8x )match A as
// @lengthOf(
/// triple
BodyLength
    {
""{,}"" : o // " ++ [128512]%N ++ runes_of_ascii " emoji
} ,repeat
    //
    zchar[
255 ]packetx , A `" ++ [233]%N ++ runes_of_ascii "` , BodyLength	msg_type
    ,	}
")).
Eval vm_compute in ("<<<M1433>>>" ++ check (runes_of_ascii "
root packet As {	u
{ tag
    a1
, repeat charz `a\` , } ,match float
    as
u128 {""a\\"" : msg_type
    ,""`tick`"": packetx, } , repeat
char[
    255 ] falsey `two words` ,
f32
    packetx  , zchar[0 //	t
] options1 `{ , }`, repeat rootA
    `
` , }
MetaData Header {
u32 Header `` , }
//x
//x
MetaData matchKey{ msg_type Z9_ ,
}")).
Eval vm_compute in ("<<<M1465>>>" ++ check (runes_of_ascii "packet float {  @lengthOf(
matchKey )	int64	options1 @calculatedFrom( ""{,}"" )`it's`, repeat
i32 msg_type `a\` ,  options1  @calculatedFrom(""it's""
)  `// not a comment`, @lengthOf( roots) u8 repeatCount
`say ""hi""` ,
    int16 len, char[]
chars @lengthOf(
    repeatCount ) ,
    /// triple
    @calculatedFrom(""{,}"" ) match body as i64_{ ""x y""
    :	pack  ,
//
// @lengthOf(
}	,
    A
{ i8i8 @calculatedFrom(""a	b"" ),} // c
, @leftPad( '\x00' ) /// triple
metadata { repeat Foo	{	Z9_
//x
// `tick` ""quote"" 'q'
trueish , } , }
, @calculatedFrom(
// " ++ [27880; 37322]%N ++ runes_of_ascii "
/// triple
""" ++ [233]%N ++ runes_of_ascii "t" ++ [233]%N ++ runes_of_ascii """ // " ++ [128512]%N ++ runes_of_ascii " emoji
)
@lengthOf( lengthOf	)
    // packet A { u8 x, }
    @rightPad  (
    '\x00' // " ++ [128512]%N ++ runes_of_ascii " emoji
)
repeat
    char[ 255] // c
string_`a\` ,
    }
MetaData
    trueish {o
T	,	char[ 1 ] BodyLength`{ , }` , } packet Logon
{ @calculatedFrom(""a\\"") // `tick` ""quote"" 'q'
match roots  as
As { 255:stringy , [ // packet A { u8 x, }
10 , """" , """ ++ [233]%N ++ runes_of_ascii "t" ++ [233]%N ++ runes_of_ascii """
, ""a\""b"" ,
    ""\" ++ [233]%N ++ runes_of_ascii """ ]
:  _x  , }
, }	packet
    i64_	{ // a // b
@tag( 007
)float32	metadata`two words`
// @lengthOf(
// `tick` ""quote"" 'q'
,	match Header as matchKey{	""`tick`"" : Pad ,[""a\""b"" ,""a	b""
    , 65535
// packet A { u8 x, }
// packet A { u8 x, }
,
10  ,""1""
,  ""a\""b"" , ""abc"",
""`tick`""] : rootA	,[255 , ""a\""b"" ]:// trailing space 
body ,
    // `tick` ""quote"" 'q'
    ""\n""	: stringy
    ,
    [ 0  , ""\" ++ [233]%N ++ runes_of_ascii """ ,	""\" ++ [233]%N ++ runes_of_ascii """ , 65535 , 3
    ,0 ,""1"" ,
//x
// trailing space 
42 ]
:Z9_,
// a // b
// @lengthOf(
""a\""b"" //
: string_ , } ,len
MetaDataX ,u @lengthOf(calculatedFrom  ) `a\` , Foo {
    match crc
// @lengthOf(
// `tick` ""quote"" 'q'
as
    // trailing space 
    asx // " ++ [27880; 37322]%N ++ runes_of_ascii "
{
""1"":leftPad
    ,
""" ++ [128512]%N ++ runes_of_ascii """
: leftPad
[ ""{,}""  ] : string_
, ""CRC32"":
crc, 42 :u
    }
    ,
    match asx as u {
    [4294967296 ,1	]:	zchar ,//x
} ,	string body ,
    // " ++ [128512]%N ++ runes_of_ascii " emoji
    lengthOf asx
    `two words`
    // trailing space 
    , } ,charz @calculatedFrom( ""abc"" ) // trailing space 
`{ , }` ,char[
// a // b
//x
0123456789]
    // a // b
    o @lengthOf( packetx )
    // " ++ [128512]%N ++ runes_of_ascii " emoji
    , }")).
Eval vm_compute in ("<<<M1497>>>" ++ check (runes_of_ascii "
packet msg_type { } MetaData
leftPad { int32
calculatedFrom`
`  ,
    } /// triple")).
Eval vm_compute in ("<<<T1497>>>" ++ terms [mkTok 35 "packet" 2 0 false; mkTok 42 "msg_type" 2 7 false; mkTok 2 "{" 2 16 false; mkTok 3 "}" 2 18 false; mkTok 37 "MetaData" 2 20 false; mkTok 42 "leftPad" 3 0 false; mkTok 2 "{" 3 8 false; mkTok 26 "int32" 3 10 false; mkTok 42 "calculatedFrom" 4 0 false; mkTok 43 (string_of_bytes [96; 10; 96]%N) 4 14 false; mkTok 40 "," 5 3 false; mkTok 3 "}" 6 4 false; mkTok 44 "/// triple" 6 6 true; mkTok 0 "<EOF>" 6 16 false] (mkPacket (mkPtok 35 "packet" 2 0 0) (Some (mkPtok 3 "}" 6 4 11)) [(DPacket (mkPacketDef (mkSpan (mkPtok 35 "packet" 2 0 0) (mkPtok 3 "}" 2 18 3)) None (mkPtok 35 "packet" 2 0 0) (mkPtok 42 "msg_type" 2 7 1) (mkPtok 2 "{" 2 16 2) [] (mkPtok 3 "}" 2 18 3))); (DMeta (mkMetaDef (mkSpan (mkPtok 37 "MetaData" 2 20 4) (mkPtok 3 "}" 6 4 11)) (mkPtok 37 "MetaData" 2 20 4) (mkPtok 42 "leftPad" 3 0 5) (mkPtok 2 "{" 3 8 6) [(MIDecl (mkMetaDecl (mkSpan (mkPtok 26 "int32" 3 10 7) (mkPtok 40 "," 5 3 10)) (TyBasic (mkSpan (mkPtok 26 "int32" 3 10 7) (mkPtok 26 "int32" 3 10 7)) (mkBasicType (mkSpan (mkPtok 26 "int32" 3 10 7) (mkPtok 26 "int32" 3 10 7)) (mkPtok 26 "int32" 3 10 7))) (mkPtok 42 "calculatedFrom" 4 0 8) (Some (mkPtok 43 (string_of_bytes [96; 10; 96]%N) 4 14 9)) (mkPtok 40 "," 5 3 10)))] (mkPtok 3 "}" 6 4 11)))])).
Eval vm_compute in ("<<<M1529>>>" ++ check (runes_of_ascii "

")).
Eval vm_compute in ("<<<M1561>>>" ++ check (runes_of_ascii "options{
falsey
    = true
    }
")).
Eval vm_compute in ("<<<M1593>>>" ++ check (runes_of_ascii "packet msg_type
{
    // @lengthOf(
    @calculatedFrom(
    ""a	b"" ) a1 @lengthOf( int
    ) , match Z9_ as metadata	{[ 4294967296 ,""a\\"" ] : u8x , 3 :string_ ,},}")).
Eval vm_compute in ("<<<M1625>>>" ++ check (runes_of_ascii "options{	repeatCount = uint32 // trailing space 
; } root
packet rootA
    {@lengthOf(
    options1 )zchar[ 0 ] packetx	,} options {	body
    =  """" ;
    } packet	body	{@leftPad ( )	rootA  ,
    falsey ,
//	t
// trailing space 
@lengthOf(
BodyLength ) @lengthOf(Pad  ) As@calculatedFrom( ""packet""
)
`// not a comment`
, @lengthOf( metadata )
match // " ++ [128512]%N ++ runes_of_ascii " emoji
zchar as
int { [
4294967296 ,
""a\\""
]:
metadata
""it's"" :
leftPad,  00 : T,} , @calculatedFrom( ""\n"")
zchar[0 ]zchar,@calculatedFrom( ""CRC32""
    )// trailing space 
zchar[
7
] Foo
    `" ++ [28040; 24687; 31867; 22411]%N ++ runes_of_ascii "` ,	string repeatCount
// a // b
// @lengthOf(
`" ++ [28040; 24687; 31867; 22411]%N ++ runes_of_ascii "` , @calculatedFrom( ""packet""
    ) u32 packetx
    , // trailing space 
} //x")).
Eval vm_compute in ("<<<M1657>>>" ++ check (runes_of_ascii "MetaData metadata {lengthOf
options1//
,}
")).
Eval vm_compute in ("<<<M1689>>>" ++ check (runes_of_ascii "root
    packet roots {//	t
} MetaData float /// triple
{ char[] matchKey , uint16 packetx ,// c
} // @lengthOf(")).
Eval vm_compute in ("<<<M1721>>>" ++ check (runes_of_ascii "root packet i64_
{
    }
    root
packet //x
int { match
    // @lengthOf(
    i64_ as
    pack { 7 : //x
asx,  007 :	body ,
[ 007 ] : float } ,@tag( 42 ) MetaDataX, stringy@calculatedFrom( """ ++ [233]%N ++ runes_of_ascii "t" ++ [233]%N ++ runes_of_ascii """
), // " ++ [128512]%N ++ runes_of_ascii " emoji
roots
    @calculatedFrom( ""packet"" )`line1
line2` ,  i8i8 `// not a comment` ,} packet msg_type  {
    match chars as Z9_ {
    """"
: A , }	, @tag( 65535  )
    u128
    { string
T `crlf
line` ,} , @lengthOf( Pad ) // packet A { u8 x, }
Foo roots `a\`	,
    i8 o  `crlf
line` ,  } packet asx
    { MetaDataX @calculatedFrom(	""CRC32""
//
// @lengthOf(
) ,@leftPad (
'0'
    // " ++ [128512]%N ++ runes_of_ascii " emoji
    )
    zchar[ 255 ] BodyLength @calculatedFrom(
""packet""	)
`a\`
, } root packet
float// trailing space 
{	float
/// triple
/// triple
,@lengthOf(tag ) // " ++ [128512]%N ++ runes_of_ascii " emoji
@lengthOf( Header  ) @calculatedFrom( """ ++ [128512]%N ++ runes_of_ascii """
    ) uint16 x_y_z //x
@lengthOf( u128)  ,
    i8
tag,@calculatedFrom( ""abc"" )char[  0123456789
]
body
, }
")).
Eval vm_compute in ("<<<T1721>>>" ++ terms [mkTok 34 "root" 1 0 false; mkTok 35 "packet" 1 5 false; mkTok 42 "i64_" 1 12 false; mkTok 2 "{" 2 0 false; mkTok 3 "}" 3 4 false; mkTok 34 "root" 4 4 false; mkTok 35 "packet" 5 0 false; mkTok 44 "//x" 5 7 true; mkTok 42 "int" 6 0 false; mkTok 2 "{" 6 4 false; mkTok 38 "match" 6 6 false; mkTok 44 "// @lengthOf(" 7 4 true; mkTok 42 "i64_" 8 4 false; mkTok 17 "as" 8 9 false; mkTok 42 "pack" 9 4 false; mkTok 2 "{" 9 9 false; mkTok 30 "7" 9 11 false; mkTok 39 ":" 9 13 false; mkTok 44 "//x" 9 15 true; mkTok 42 "asx" 10 0 false; mkTok 40 "," 10 3 false; mkTok 30 "007" 10 6 false; mkTok 39 ":" 10 10 false; mkTok 42 "body" 10 12 false; mkTok 40 "," 10 17 false; mkTok 18 "[" 11 0 false; mkTok 30 "007" 11 2 false; mkTok 13 "]" 11 6 false; mkTok 39 ":" 11 8 false; mkTok 42 "float" 11 10 false; mkTok 3 "}" 11 16 false; mkTok 40 "," 11 18 false; mkTok 9 "@tag(" 11 19 false; mkTok 30 "42" 11 25 false; mkTok 6 ")" 11 28 false; mkTok 42 "MetaDataX" 11 30 false; mkTok 40 "," 11 39 false; mkTok 42 "stringy" 11 41 false; mkTok 5 "@calculatedFrom(" 11 48 false; mkTok 31 (string_of_bytes [34; 195; 169; 116; 195; 169; 34]%N) 11 65 false; mkTok 6 ")" 12 0 false; mkTok 40 "," 12 1 false; mkTok 44 (string_of_bytes [47; 47; 32; 240; 159; 152; 128; 32; 101; 109; 111; 106; 105]%N) 12 3 true; mkTok 42 "roots" 13 0 false; mkTok 5 "@calculatedFrom(" 14 4 false; mkTok 31 """packet""" 14 21 false; mkTok 6 ")" 14 30 false; mkTok 43 (string_of_bytes [96; 108; 105; 110; 101; 49; 10; 108; 105; 110; 101; 50; 96]%N) 14 31 false; mkTok 40 "," 15 7 false; mkTok 42 "i8i8" 15 10 false; mkTok 43 "`// not a comment`" 15 15 false; mkTok 40 "," 15 34 false; mkTok 3 "}" 15 35 false; mkTok 35 "packet" 15 37 false; mkTok 42 "msg_type" 15 44 false; mkTok 2 "{" 15 54 false; mkTok 38 "match" 16 4 false; mkTok 42 "chars" 16 10 false; mkTok 17 "as" 16 16 false; mkTok 42 "Z9_" 16 19 false; mkTok 2 "{" 16 23 false; mkTok 31 """""" 17 4 false; mkTok 39 ":" 18 0 false; mkTok 42 "A" 18 2 false; mkTok 40 "," 18 4 false; mkTok 3 "}" 18 6 false; mkTok 40 "," 18 8 false; mkTok 9 "@tag(" 18 10 false; mkTok 30 "65535" 18 16 false; mkTok 6 ")" 18 23 false; mkTok 42 "u128" 19 4 false; mkTok 2 "{" 20 4 false; mkTok 15 "string" 20 6 false; mkTok 42 "T" 21 0 false; mkTok 43 (string_of_bytes [96; 99; 114; 108; 102; 13; 10; 108; 105; 110; 101; 96]%N) 21 2 false; mkTok 40 "," 22 6 false; mkTok 3 "}" 22 7 false; mkTok 40 "," 22 9 false; mkTok 7 "@lengthOf(" 22 11 false; mkTok 42 "Pad" 22 22 false; mkTok 6 ")" 22 26 false; mkTok 44 "// packet A { u8 x, }" 22 28 true; mkTok 42 "Foo" 23 0 false; mkTok 42 "roots" 23 4 false; mkTok 43 "`a\`" 23 10 false; mkTok 40 "," 23 15 false; mkTok 24 "i8" 24 4 false; mkTok 42 "o" 24 7 false; mkTok 43 (string_of_bytes [96; 99; 114; 108; 102; 13; 10; 108; 105; 110; 101; 96]%N) 24 10 false; mkTok 40 "," 25 6 false; mkTok 3 "}" 25 9 false; mkTok 35 "packet" 25 11 false; mkTok 42 "asx" 25 18 false; mkTok 2 "{" 26 4 false; mkTok 42 "MetaDataX" 26 6 false; mkTok 5 "@calculatedFrom(" 26 16 false; mkTok 31 """CRC32""" 26 33 false; mkTok 44 "//" 27 0 true; mkTok 44 "// @lengthOf(" 28 0 true; mkTok 6 ")" 29 0 false; mkTok 40 "," 29 2 false; mkTok 32 "@leftPad" 29 3 false; mkTok 8 "(" 29 12 false; mkTok 33 "'0'" 30 0 false; mkTok 44 (string_of_bytes [47; 47; 32; 240; 159; 152; 128; 32; 101; 109; 111; 106; 105]%N) 31 4 true; mkTok 6 ")" 32 4 false; mkTok 14 "zchar[" 33 4 false; mkTok 30 "255" 33 11 false; mkTok 13 "]" 33 15 false; mkTok 42 "BodyLength" 33 17 false; mkTok 5 "@calculatedFrom(" 33 28 false; mkTok 31 """packet""" 34 0 false; mkTok 6 ")" 34 9 false; mkTok 43 "`a\`" 35 0 false; mkTok 40 "," 36 0 false; mkTok 3 "}" 36 2 false; mkTok 34 "root" 36 4 false; mkTok 35 "packet" 36 9 false; mkTok 42 "float" 37 0 false; mkTok 44 "// trailing space " 37 5 true; mkTok 2 "{" 38 0 false; mkTok 42 "float" 38 2 false; mkTok 44 "/// triple" 39 0 true; mkTok 44 "/// triple" 40 0 true; mkTok 40 "," 41 0 false; mkTok 7 "@lengthOf(" 41 1 false; mkTok 42 "tag" 41 11 false; mkTok 6 ")" 41 15 false; mkTok 44 (string_of_bytes [47; 47; 32; 240; 159; 152; 128; 32; 101; 109; 111; 106; 105]%N) 41 17 true; mkTok 7 "@lengthOf(" 42 0 false; mkTok 42 "Header" 42 11 false; mkTok 6 ")" 42 19 false; mkTok 5 "@calculatedFrom(" 42 21 false; mkTok 31 (string_of_bytes [34; 240; 159; 152; 128; 34]%N) 42 38 false; mkTok 6 ")" 43 4 false; mkTok 21 "uint16" 43 6 false; mkTok 42 "x_y_z" 43 13 false; mkTok 44 "//x" 43 19 true; mkTok 7 "@lengthOf(" 44 0 false; mkTok 42 "u128" 44 11 false; mkTok 6 ")" 44 15 false; mkTok 40 "," 44 18 false; mkTok 24 "i8" 45 4 false; mkTok 42 "tag" 46 0 false; mkTok 40 "," 46 3 false; mkTok 5 "@calculatedFrom(" 46 4 false; mkTok 31 """abc""" 46 21 false; mkTok 6 ")" 46 27 false; mkTok 12 "char[" 46 28 false; mkTok 30 "0123456789" 46 35 false; mkTok 13 "]" 47 0 false; mkTok 42 "body" 48 0 false; mkTok 40 "," 49 0 false; mkTok 3 "}" 49 2 false; mkTok 0 "<EOF>" 50 0 false] (mkPacket (mkPtok 34 "root" 1 0 0) (Some (mkPtok 3 "}" 49 2 153)) [(DPacket (mkPacketDef (mkSpan (mkPtok 34 "root" 1 0 0) (mkPtok 3 "}" 3 4 4)) (Some (mkPtok 34 "root" 1 0 0)) (mkPtok 35 "packet" 1 5 1) (mkPtok 42 "i64_" 1 12 2) (mkPtok 2 "{" 2 0 3) [] (mkPtok 3 "}" 3 4 4))); (DPacket (mkPacketDef (mkSpan (mkPtok 34 "root" 4 4 5) (mkPtok 3 "}" 15 35 52)) (Some (mkPtok 34 "root" 4 4 5)) (mkPtok 35 "packet" 5 0 6) (mkPtok 42 "int" 6 0 8) (mkPtok 2 "{" 6 4 9) [(mkFieldWithAttr (mkSpan (mkPtok 38 "match" 6 6 10) (mkPtok 40 "," 11 18 31)) [] (MatchField (mkSpan (mkPtok 38 "match" 6 6 10) (mkPtok 40 "," 11 18 31)) (mkMatchFieldDecl (mkSpan (mkPtok 38 "match" 6 6 10) (mkPtok 3 "}" 11 16 30)) (mkPtok 38 "match" 6 6 10) (mkPtok 42 "i64_" 8 4 12) (mkPtok 17 "as" 8 9 13) (mkPtok 42 "pack" 9 4 14) (mkPtok 2 "{" 9 9 15) [(mkMatchPair (mkSpan (mkPtok 30 "7" 9 11 16) (mkPtok 40 "," 10 3 20)) (MKDigits (mkPtok 30 "7" 9 11 16)) (mkPtok 39 ":" 9 13 17) (mkPtok 42 "asx" 10 0 19) (Some (mkPtok 40 "," 10 3 20))); (mkMatchPair (mkSpan (mkPtok 30 "007" 10 6 21) (mkPtok 40 "," 10 17 24)) (MKDigits (mkPtok 30 "007" 10 6 21)) (mkPtok 39 ":" 10 10 22) (mkPtok 42 "body" 10 12 23) (Some (mkPtok 40 "," 10 17 24))); (mkMatchPair (mkSpan (mkPtok 18 "[" 11 0 25) (mkPtok 42 "float" 11 10 29)) (MKList (mkKeyList (mkSpan (mkPtok 18 "[" 11 0 25) (mkPtok 13 "]" 11 6 27)) (mkPtok 18 "[" 11 0 25) (mkPtok 30 "007" 11 2 26) [] (mkPtok 13 "]" 11 6 27))) (mkPtok 39 ":" 11 8 28) (mkPtok 42 "float" 11 10 29) None)] (mkPtok 3 "}" 11 16 30)) (mkPtok 40 "," 11 18 31))); (mkFieldWithAttr (mkSpan (mkPtok 9 "@tag(" 11 19 32) (mkPtok 40 "," 11 39 36)) [(FATag (mkSpan (mkPtok 9 "@tag(" 11 19 32) (mkPtok 6 ")" 11 28 34)) (mkTagAttr (mkSpan (mkPtok 9 "@tag(" 11 19 32) (mkPtok 6 ")" 11 28 34)) (mkPtok 9 "@tag(" 11 19 32) (mkPtok 30 "42" 11 25 33) (mkPtok 6 ")" 11 28 34)))] (ObjectField (mkSpan (mkPtok 42 "MetaDataX" 11 30 35) (mkPtok 40 "," 11 39 36)) None (mkPtok 42 "MetaDataX" 11 30 35) None None (mkPtok 40 "," 11 39 36))); (mkFieldWithAttr (mkSpan (mkPtok 42 "stringy" 11 41 37) (mkPtok 40 "," 12 1 41)) [] (CheckSumField (mkSpan (mkPtok 42 "stringy" 11 41 37) (mkPtok 40 "," 12 1 41)) (mkChecksumFieldDecl (mkSpan (mkPtok 42 "stringy" 11 41 37) (mkPtok 40 "," 12 1 41)) None (mkPtok 42 "stringy" 11 41 37) (mkCalculatedFrom (mkSpan (mkPtok 5 "@calculatedFrom(" 11 48 38) (mkPtok 6 ")" 12 0 40)) (mkPtok 5 "@calculatedFrom(" 11 48 38) (mkPtok 31 (string_of_bytes [34; 195; 169; 116; 195; 169; 34]%N) 11 65 39) (mkPtok 6 ")" 12 0 40)) None (mkPtok 40 "," 12 1 41)))); (mkFieldWithAttr (mkSpan (mkPtok 42 "roots" 13 0 43) (mkPtok 40 "," 15 7 48)) [] (CheckSumField (mkSpan (mkPtok 42 "roots" 13 0 43) (mkPtok 40 "," 15 7 48)) (mkChecksumFieldDecl (mkSpan (mkPtok 42 "roots" 13 0 43) (mkPtok 40 "," 15 7 48)) None (mkPtok 42 "roots" 13 0 43) (mkCalculatedFrom (mkSpan (mkPtok 5 "@calculatedFrom(" 14 4 44) (mkPtok 6 ")" 14 30 46)) (mkPtok 5 "@calculatedFrom(" 14 4 44) (mkPtok 31 """packet""" 14 21 45) (mkPtok 6 ")" 14 30 46)) (Some (mkPtok 43 (string_of_bytes [96; 108; 105; 110; 101; 49; 10; 108; 105; 110; 101; 50; 96]%N) 14 31 47)) (mkPtok 40 "," 15 7 48)))); (mkFieldWithAttr (mkSpan (mkPtok 42 "i8i8" 15 10 49) (mkPtok 40 "," 15 34 51)) [] (ObjectField (mkSpan (mkPtok 42 "i8i8" 15 10 49) (mkPtok 40 "," 15 34 51)) None (mkPtok 42 "i8i8" 15 10 49) None (Some (mkPtok 43 "`// not a comment`" 15 15 50)) (mkPtok 40 "," 15 34 51)))] (mkPtok 3 "}" 15 35 52))); (DPacket (mkPacketDef (mkSpan (mkPtok 35 "packet" 15 37 53) (mkPtok 3 "}" 25 9 90)) None (mkPtok 35 "packet" 15 37 53) (mkPtok 42 "msg_type" 15 44 54) (mkPtok 2 "{" 15 54 55) [(mkFieldWithAttr (mkSpan (mkPtok 38 "match" 16 4 56) (mkPtok 40 "," 18 8 66)) [] (MatchField (mkSpan (mkPtok 38 "match" 16 4 56) (mkPtok 40 "," 18 8 66)) (mkMatchFieldDecl (mkSpan (mkPtok 38 "match" 16 4 56) (mkPtok 3 "}" 18 6 65)) (mkPtok 38 "match" 16 4 56) (mkPtok 42 "chars" 16 10 57) (mkPtok 17 "as" 16 16 58) (mkPtok 42 "Z9_" 16 19 59) (mkPtok 2 "{" 16 23 60) [(mkMatchPair (mkSpan (mkPtok 31 """""" 17 4 61) (mkPtok 40 "," 18 4 64)) (MKString (mkPtok 31 """""" 17 4 61)) (mkPtok 39 ":" 18 0 62) (mkPtok 42 "A" 18 2 63) (Some (mkPtok 40 "," 18 4 64)))] (mkPtok 3 "}" 18 6 65)) (mkPtok 40 "," 18 8 66))); (mkFieldWithAttr (mkSpan (mkPtok 9 "@tag(" 18 10 67) (mkPtok 40 "," 22 9 77)) [(FATag (mkSpan (mkPtok 9 "@tag(" 18 10 67) (mkPtok 6 ")" 18 23 69)) (mkTagAttr (mkSpan (mkPtok 9 "@tag(" 18 10 67) (mkPtok 6 ")" 18 23 69)) (mkPtok 9 "@tag(" 18 10 67) (mkPtok 30 "65535" 18 16 68) (mkPtok 6 ")" 18 23 69)))] (InerObjectField (mkSpan (mkPtok 42 "u128" 19 4 70) (mkPtok 40 "," 22 9 77)) None (InerObjectDecl (mkSpan (mkPtok 42 "u128" 19 4 70) (mkPtok 3 "}" 22 7 76)) (mkPtok 42 "u128" 19 4 70) (mkPtok 2 "{" 20 4 71) [(MetaField (mkSpan (mkPtok 15 "string" 20 6 72) (mkPtok 40 "," 22 6 75)) None (mkMetaDecl (mkSpan (mkPtok 15 "string" 20 6 72) (mkPtok 40 "," 22 6 75)) (TyDynamic (mkSpan (mkPtok 15 "string" 20 6 72) (mkPtok 15 "string" 20 6 72)) (mkDynamicString (mkSpan (mkPtok 15 "string" 20 6 72) (mkPtok 15 "string" 20 6 72)) (mkPtok 15 "string" 20 6 72))) (mkPtok 42 "T" 21 0 73) (Some (mkPtok 43 (string_of_bytes [96; 99; 114; 108; 102; 13; 10; 108; 105; 110; 101; 96]%N) 21 2 74)) (mkPtok 40 "," 22 6 75)))] (mkPtok 3 "}" 22 7 76)) (mkPtok 40 "," 22 9 77))); (mkFieldWithAttr (mkSpan (mkPtok 7 "@lengthOf(" 22 11 78) (mkPtok 40 "," 23 15 85)) [(FALengthOf (mkSpan (mkPtok 7 "@lengthOf(" 22 11 78) (mkPtok 6 ")" 22 26 80)) (mkLengthOf (mkSpan (mkPtok 7 "@lengthOf(" 22 11 78) (mkPtok 6 ")" 22 26 80)) (mkPtok 7 "@lengthOf(" 22 11 78) (mkPtok 42 "Pad" 22 22 79) (mkPtok 6 ")" 22 26 80)))] (ObjectField (mkSpan (mkPtok 42 "Foo" 23 0 82) (mkPtok 40 "," 23 15 85)) None (mkPtok 42 "Foo" 23 0 82) (Some (mkPtok 42 "roots" 23 4 83)) (Some (mkPtok 43 "`a\`" 23 10 84)) (mkPtok 40 "," 23 15 85))); (mkFieldWithAttr (mkSpan (mkPtok 24 "i8" 24 4 86) (mkPtok 40 "," 25 6 89)) [] (MetaField (mkSpan (mkPtok 24 "i8" 24 4 86) (mkPtok 40 "," 25 6 89)) None (mkMetaDecl (mkSpan (mkPtok 24 "i8" 24 4 86) (mkPtok 40 "," 25 6 89)) (TyBasic (mkSpan (mkPtok 24 "i8" 24 4 86) (mkPtok 24 "i8" 24 4 86)) (mkBasicType (mkSpan (mkPtok 24 "i8" 24 4 86) (mkPtok 24 "i8" 24 4 86)) (mkPtok 24 "i8" 24 4 86))) (mkPtok 42 "o" 24 7 87) (Some (mkPtok 43 (string_of_bytes [96; 99; 114; 108; 102; 13; 10; 108; 105; 110; 101; 96]%N) 24 10 88)) (mkPtok 40 "," 25 6 89))))] (mkPtok 3 "}" 25 9 90))); (DPacket (mkPacketDef (mkSpan (mkPtok 35 "packet" 25 11 91) (mkPtok 3 "}" 36 2 115)) None (mkPtok 35 "packet" 25 11 91) (mkPtok 42 "asx" 25 18 92) (mkPtok 2 "{" 26 4 93) [(mkFieldWithAttr (mkSpan (mkPtok 42 "MetaDataX" 26 6 94) (mkPtok 40 "," 29 2 100)) [] (CheckSumField (mkSpan (mkPtok 42 "MetaDataX" 26 6 94) (mkPtok 40 "," 29 2 100)) (mkChecksumFieldDecl (mkSpan (mkPtok 42 "MetaDataX" 26 6 94) (mkPtok 40 "," 29 2 100)) None (mkPtok 42 "MetaDataX" 26 6 94) (mkCalculatedFrom (mkSpan (mkPtok 5 "@calculatedFrom(" 26 16 95) (mkPtok 6 ")" 29 0 99)) (mkPtok 5 "@calculatedFrom(" 26 16 95) (mkPtok 31 """CRC32""" 26 33 96) (mkPtok 6 ")" 29 0 99)) None (mkPtok 40 "," 29 2 100)))); (mkFieldWithAttr (mkSpan (mkPtok 32 "@leftPad" 29 3 101) (mkPtok 40 "," 36 0 114)) [(FAPadding (mkSpan (mkPtok 32 "@leftPad" 29 3 101) (mkPtok 6 ")" 32 4 105)) (mkPaddingAttr (mkSpan (mkPtok 32 "@leftPad" 29 3 101) (mkPtok 6 ")" 32 4 105)) (mkPtok 32 "@leftPad" 29 3 101) (mkPtok 8 "(" 29 12 102) (Some (mkPtok 33 "'0'" 30 0 103)) (mkPtok 6 ")" 32 4 105)))] (CheckSumField (mkSpan (mkPtok 14 "zchar[" 33 4 106) (mkPtok 40 "," 36 0 114)) (mkChecksumFieldDecl (mkSpan (mkPtok 14 "zchar[" 33 4 106) (mkPtok 40 "," 36 0 114)) (Some (TyFixed (mkSpan (mkPtok 14 "zchar[" 33 4 106) (mkPtok 13 "]" 33 15 108)) (mkFixedString (mkSpan (mkPtok 14 "zchar[" 33 4 106) (mkPtok 13 "]" 33 15 108)) (mkPtok 14 "zchar[" 33 4 106) (mkPtok 30 "255" 33 11 107) (mkPtok 13 "]" 33 15 108)))) (mkPtok 42 "BodyLength" 33 17 109) (mkCalculatedFrom (mkSpan (mkPtok 5 "@calculatedFrom(" 33 28 110) (mkPtok 6 ")" 34 9 112)) (mkPtok 5 "@calculatedFrom(" 33 28 110) (mkPtok 31 """packet""" 34 0 111) (mkPtok 6 ")" 34 9 112)) (Some (mkPtok 43 "`a\`" 35 0 113)) (mkPtok 40 "," 36 0 114))))] (mkPtok 3 "}" 36 2 115))); (DPacket (mkPacketDef (mkSpan (mkPtok 34 "root" 36 4 116) (mkPtok 3 "}" 49 2 153)) (Some (mkPtok 34 "root" 36 4 116)) (mkPtok 35 "packet" 36 9 117) (mkPtok 42 "float" 37 0 118) (mkPtok 2 "{" 38 0 120) [(mkFieldWithAttr (mkSpan (mkPtok 42 "float" 38 2 121) (mkPtok 40 "," 41 0 124)) [] (ObjectField (mkSpan (mkPtok 42 "float" 38 2 121) (mkPtok 40 "," 41 0 124)) None (mkPtok 42 "float" 38 2 121) None None (mkPtok 40 "," 41 0 124))); (mkFieldWithAttr (mkSpan (mkPtok 7 "@lengthOf(" 41 1 125) (mkPtok 40 "," 44 18 141)) [(FALengthOf (mkSpan (mkPtok 7 "@lengthOf(" 41 1 125) (mkPtok 6 ")" 41 15 127)) (mkLengthOf (mkSpan (mkPtok 7 "@lengthOf(" 41 1 125) (mkPtok 6 ")" 41 15 127)) (mkPtok 7 "@lengthOf(" 41 1 125) (mkPtok 42 "tag" 41 11 126) (mkPtok 6 ")" 41 15 127))); (FALengthOf (mkSpan (mkPtok 7 "@lengthOf(" 42 0 129) (mkPtok 6 ")" 42 19 131)) (mkLengthOf (mkSpan (mkPtok 7 "@lengthOf(" 42 0 129) (mkPtok 6 ")" 42 19 131)) (mkPtok 7 "@lengthOf(" 42 0 129) (mkPtok 42 "Header" 42 11 130) (mkPtok 6 ")" 42 19 131))); (FACalculatedFrom (mkSpan (mkPtok 5 "@calculatedFrom(" 42 21 132) (mkPtok 6 ")" 43 4 134)) (mkCalculatedFrom (mkSpan (mkPtok 5 "@calculatedFrom(" 42 21 132) (mkPtok 6 ")" 43 4 134)) (mkPtok 5 "@calculatedFrom(" 42 21 132) (mkPtok 31 (string_of_bytes [34; 240; 159; 152; 128; 34]%N) 42 38 133) (mkPtok 6 ")" 43 4 134)))] (LengthField (mkSpan (mkPtok 21 "uint16" 43 6 135) (mkPtok 40 "," 44 18 141)) (mkLengthFieldDecl (mkSpan (mkPtok 21 "uint16" 43 6 135) (mkPtok 40 "," 44 18 141)) (Some (TyBasic (mkSpan (mkPtok 21 "uint16" 43 6 135) (mkPtok 21 "uint16" 43 6 135)) (mkBasicType (mkSpan (mkPtok 21 "uint16" 43 6 135) (mkPtok 21 "uint16" 43 6 135)) (mkPtok 21 "uint16" 43 6 135)))) (mkPtok 42 "x_y_z" 43 13 136) (mkLengthOf (mkSpan (mkPtok 7 "@lengthOf(" 44 0 138) (mkPtok 6 ")" 44 15 140)) (mkPtok 7 "@lengthOf(" 44 0 138) (mkPtok 42 "u128" 44 11 139) (mkPtok 6 ")" 44 15 140)) None (mkPtok 40 "," 44 18 141)))); (mkFieldWithAttr (mkSpan (mkPtok 24 "i8" 45 4 142) (mkPtok 40 "," 46 3 144)) [] (MetaField (mkSpan (mkPtok 24 "i8" 45 4 142) (mkPtok 40 "," 46 3 144)) None (mkMetaDecl (mkSpan (mkPtok 24 "i8" 45 4 142) (mkPtok 40 "," 46 3 144)) (TyBasic (mkSpan (mkPtok 24 "i8" 45 4 142) (mkPtok 24 "i8" 45 4 142)) (mkBasicType (mkSpan (mkPtok 24 "i8" 45 4 142) (mkPtok 24 "i8" 45 4 142)) (mkPtok 24 "i8" 45 4 142))) (mkPtok 42 "tag" 46 0 143) None (mkPtok 40 "," 46 3 144)))); (mkFieldWithAttr (mkSpan (mkPtok 5 "@calculatedFrom(" 46 4 145) (mkPtok 40 "," 49 0 152)) [(FACalculatedFrom (mkSpan (mkPtok 5 "@calculatedFrom(" 46 4 145) (mkPtok 6 ")" 46 27 147)) (mkCalculatedFrom (mkSpan (mkPtok 5 "@calculatedFrom(" 46 4 145) (mkPtok 6 ")" 46 27 147)) (mkPtok 5 "@calculatedFrom(" 46 4 145) (mkPtok 31 """abc""" 46 21 146) (mkPtok 6 ")" 46 27 147)))] (MetaField (mkSpan (mkPtok 12 "char[" 46 28 148) (mkPtok 40 "," 49 0 152)) None (mkMetaDecl (mkSpan (mkPtok 12 "char[" 46 28 148) (mkPtok 40 "," 49 0 152)) (TyFixed (mkSpan (mkPtok 12 "char[" 46 28 148) (mkPtok 13 "]" 47 0 150)) (mkFixedString (mkSpan (mkPtok 12 "char[" 46 28 148) (mkPtok 13 "]" 47 0 150)) (mkPtok 12 "char[" 46 28 148) (mkPtok 30 "0123456789" 46 35 149) (mkPtok 13 "]" 47 0 150))) (mkPtok 42 "body" 48 0 151) None (mkPtok 40 "," 49 0 152))))] (mkPtok 3 "}" 49 2 153)))])).
Eval vm_compute in ("<<<M1753>>>" ++ check (runes_of_ascii "packet
a1{ char[
10 ] a1 `" ++ [28040; 24687; 31867; 22411]%N ++ runes_of_ascii "`/// triple
, }")).
Eval vm_compute in ("<<<M1785>>>" ++ check (runes_of_ascii "options//x
{
Foo
=
true ;
} //	t
packet
    asx { match
    asx
    as
Header {
    // " ++ [27880; 37322]%N ++ runes_of_ascii "
    [ 1,
""""  , ""// no comment"" ,	""" ++ [28040; 24687]%N ++ runes_of_ascii """ ,
// `tick` ""quote"" 'q'
// packet A { u8 x, }
7 ,	""a\""b"" , 3 , 3]
:_x 0 :
charz
// packet A { u8 x, }
// a // b
, [""a	b""
// " ++ [128512]%N ++ runes_of_ascii " emoji
// @lengthOf(
]
    // " ++ [27880; 37322]%N ++ runes_of_ascii "
    :
//x
//
packetx , } ,
// `tick` ""quote"" 'q'
//
x ,
}")).
Eval vm_compute in ("<<<M1817>>>" ++ check (runes_of_ascii "packet crc {repeat
int16 charz `it's`
    // " ++ [128512]%N ++ runes_of_ascii " emoji
    ,
    }
packet zchar
{ i64 crc , //	t
}packet matchKey { }
root
packet
falsey {repeat tag body `
` // " ++ [27880; 37322]%N ++ runes_of_ascii "
, /// triple
}root
packet As { trueish @lengthOf(rootA )
, }
")).
Eval vm_compute in ("<<<M1849>>>" ++ check (runes_of_ascii "MetaData len
{ trueish uint8x
,
}packet  x_y_z //x
{ char[]	falsey `doc`
, repeat// trailing space 
crc// @lengthOf(
{ Header
`line1
line2`
    ,
zchar[255]x `it's` , repeat float64 Header , uint8
options1@lengthOf(// `tick` ""quote"" 'q'
x_y_z
) `a\` , }  ,MetaDataX// packet A { u8 x, }
@calculatedFrom(
    ""a	b"" )
    ,u// a // b
, repeat
    body `a\` , uint8
zchar
@lengthOf(	Foo ) `a\`
, // packet A { u8 x, }
u8 uint8x , BodyLength chars , @calculatedFrom(""" ++ [233]%N ++ runes_of_ascii "t" ++ [233]%N ++ runes_of_ascii """)
u8// `tick` ""quote"" 'q'
repeatCount @lengthOf(
options1
// `tick` ""quote"" 'q'
// a // b
) , @lengthOf(
o
    ) tag @lengthOf(
    o
    ) ,
//x
/// triple
} packet Packet {	} options {Foo // " ++ [27880; 37322]%N ++ runes_of_ascii "
= '\x00'
o
    =65535// @lengthOf(
;	Z9_=
true ;	stringy =1 ;	pack =0
//
// a // b
;
}
")).
Eval vm_compute in ("<<<M1881>>>" ++ check (runes_of_ascii "root
packet
metadata  { } packet// " ++ [27880; 37322]%N ++ runes_of_ascii "
chars { }
    // c
    packet a1 { i8i8{
repeat// a // b
len{	float {repeat string_	chars , } ,
string_ {x @calculatedFrom(
""\" ++ [233]%N ++ runes_of_ascii """
    // trailing space 
    ),
    repeat
f64
    i64_
// `tick` ""quote"" 'q'
// trailing space 
,
}, leftPad@calculatedFrom( ""{,}""	) `a\` ,Packet i8i8,
} , repeat f32 matchKey , string o
@calculatedFrom( ""abc"")
// " ++ [27880; 37322]%N ++ runes_of_ascii "
//
,
repeat
    zchar[
1
] string_	`tab	here` , } ,
}
")).
Eval vm_compute in ("<<<M1913>>>" ++ check (runes_of_ascii "options { stringy =	true ;  Z9_	=	f32; }

")).
Eval vm_compute in ("<<<M1945>>>" ++ check (runes_of_ascii "
root // packet A { u8 x, }
packet calculatedFrom { zchar[
7 ] repeatCount
,@rightPad
    (
    ) match body as
pack
    //
    {""// no comment"":
a1
    ,} ,Pad @calculatedFrom(
    ""a	b"" ) ,
@calculatedFrom(
    ""x y""
) char[ 0 ]i64_
    `a\`
// c
// a // b
, i64_ rootA// c
`crlf
line`	,	@calculatedFrom(
""{,}"" ) @lengthOf( repeatCount ) As
@calculatedFrom(
""\n"" )`a\` ,  @leftPad ( '0' )	repeat f32a // trailing space 
asx ,@calculatedFrom(  """") zchar `` ,
// packet A { u8 x, }
// " ++ [128512]%N ++ runes_of_ascii " emoji
@leftPad ( '0'  )char[] Foo
    @lengthOf( _x )
`{ , }` ,
} root packet string_ {uint64 T ,} options {
    // packet A { u8 x, }
    BodyLength// c
=4294967296 ; repeatCount =
true; a1=
int32; }
")).
Eval vm_compute in ("<<<T1945>>>" ++ terms [mkTok 34 "root" 2 0 false; mkTok 44 "// packet A { u8 x, }" 2 5 true; mkTok 35 "packet" 3 0 false; mkTok 42 "calculatedFrom" 3 7 false; mkTok 2 "{" 3 22 false; mkTok 14 "zchar[" 3 24 false; mkTok 30 "7" 4 0 false; mkTok 13 "]" 4 2 false; mkTok 42 "repeatCount" 4 4 false; mkTok 40 "," 5 0 false; mkTok 32 "@rightPad" 5 1 false; mkTok 8 "(" 6 4 false; mkTok 6 ")" 7 4 false; mkTok 38 "match" 7 6 false; mkTok 42 "body" 7 12 false; mkTok 17 "as" 7 17 false; mkTok 42 "pack" 8 0 false; mkTok 44 "//" 9 4 true; mkTok 2 "{" 10 4 false; mkTok 31 """// no comment""" 10 5 false; mkTok 39 ":" 10 20 false; mkTok 42 "a1" 11 0 false; mkTok 40 "," 12 4 false; mkTok 3 "}" 12 5 false; mkTok 40 "," 12 7 false; mkTok 42 "Pad" 12 8 false; mkTok 5 "@calculatedFrom(" 12 12 false; mkTok 31 (string_of_bytes [34; 97; 9; 98; 34]%N) 13 4 false; mkTok 6 ")" 13 10 false; mkTok 40 "," 13 12 false; mkTok 5 "@calculatedFrom(" 14 0 false; mkTok 31 """x y""" 15 4 false; mkTok 6 ")" 16 0 false; mkTok 12 "char[" 16 2 false; mkTok 30 "0" 16 8 false; mkTok 13 "]" 16 10 false; mkTok 42 "i64_" 16 11 false; mkTok 43 "`a\`" 17 4 false; mkTok 44 "// c" 18 0 true; mkTok 44 "// a // b" 19 0 true; mkTok 40 "," 20 0 false; mkTok 42 "i64_" 20 2 false; mkTok 42 "rootA" 20 7 false; mkTok 44 "// c" 20 12 true; mkTok 43 (string_of_bytes [96; 99; 114; 108; 102; 13; 10; 108; 105; 110; 101; 96]%N) 21 0 false; mkTok 40 "," 22 6 false; mkTok 5 "@calculatedFrom(" 22 8 false; mkTok 31 """{,}""" 23 0 false; mkTok 6 ")" 23 6 false; mkTok 7 "@lengthOf(" 23 8 false; mkTok 42 "repeatCount" 23 19 false; mkTok 6 ")" 23 31 false; mkTok 42 "As" 23 33 false; mkTok 5 "@calculatedFrom(" 24 0 false; mkTok 31 """\n""" 25 0 false; mkTok 6 ")" 25 5 false; mkTok 43 "`a\`" 25 6 false; mkTok 40 "," 25 11 false; mkTok 32 "@leftPad" 25 14 false; mkTok 8 "(" 25 23 false; mkTok 33 "'0'" 25 25 false; mkTok 6 ")" 25 29 false; mkTok 36 "repeat" 25 31 false; mkTok 42 "f32a" 25 38 false; mkTok 44 "// trailing space " 25 43 true; mkTok 42 "asx" 26 0 false; mkTok 40 "," 26 4 false; mkTok 5 "@calculatedFrom(" 26 5 false; mkTok 31 """""" 26 23 false; mkTok 6 ")" 26 25 false; mkTok 42 "zchar" 26 27 false; mkTok 43 "``" 26 33 false; mkTok 40 "," 26 36 false; mkTok 44 "// packet A { u8 x, }" 27 0 true; mkTok 44 (string_of_bytes [47; 47; 32; 240; 159; 152; 128; 32; 101; 109; 111; 106; 105]%N) 28 0 true; mkTok 32 "@leftPad" 29 0 false; mkTok 8 "(" 29 9 false; mkTok 33 "'0'" 29 11 false; mkTok 6 ")" 29 16 false; mkTok 16 "char[]" 29 17 false; mkTok 42 "Foo" 29 24 false; mkTok 7 "@lengthOf(" 30 4 false; mkTok 42 "_x" 30 15 false; mkTok 6 ")" 30 18 false; mkTok 43 "`{ , }`" 31 0 false; mkTok 40 "," 31 8 false; mkTok 3 "}" 32 0 false; mkTok 34 "root" 32 2 false; mkTok 35 "packet" 32 7 false; mkTok 42 "string_" 32 14 false; mkTok 2 "{" 32 22 false; mkTok 23 "uint64" 32 23 false; mkTok 42 "T" 32 30 false; mkTok 40 "," 32 32 false; mkTok 3 "}" 32 33 false; mkTok 1 "options" 32 35 false; mkTok 2 "{" 32 43 false; mkTok 44 "// packet A { u8 x, }" 33 4 true; mkTok 42 "BodyLength" 34 4 false; mkTok 44 "// c" 34 14 true; mkTok 4 "=" 35 0 false; mkTok 30 "4294967296" 35 1 false; mkTok 41 ";" 35 12 false; mkTok 42 "repeatCount" 35 14 false; mkTok 4 "=" 35 26 false; mkTok 10 "true" 36 0 false; mkTok 41 ";" 36 4 false; mkTok 42 "a1" 36 6 false; mkTok 4 "=" 36 8 false; mkTok 26 "int32" 37 0 false; mkTok 41 ";" 37 5 false; mkTok 3 "}" 37 7 false; mkTok 0 "<EOF>" 38 0 false] (mkPacket (mkPtok 34 "root" 2 0 0) (Some (mkPtok 3 "}" 37 7 111)) [(DPacket (mkPacketDef (mkSpan (mkPtok 34 "root" 2 0 0) (mkPtok 3 "}" 32 0 86)) (Some (mkPtok 34 "root" 2 0 0)) (mkPtok 35 "packet" 3 0 2) (mkPtok 42 "calculatedFrom" 3 7 3) (mkPtok 2 "{" 3 22 4) [(mkFieldWithAttr (mkSpan (mkPtok 14 "zchar[" 3 24 5) (mkPtok 40 "," 5 0 9)) [] (MetaField (mkSpan (mkPtok 14 "zchar[" 3 24 5) (mkPtok 40 "," 5 0 9)) None (mkMetaDecl (mkSpan (mkPtok 14 "zchar[" 3 24 5) (mkPtok 40 "," 5 0 9)) (TyFixed (mkSpan (mkPtok 14 "zchar[" 3 24 5) (mkPtok 13 "]" 4 2 7)) (mkFixedString (mkSpan (mkPtok 14 "zchar[" 3 24 5) (mkPtok 13 "]" 4 2 7)) (mkPtok 14 "zchar[" 3 24 5) (mkPtok 30 "7" 4 0 6) (mkPtok 13 "]" 4 2 7))) (mkPtok 42 "repeatCount" 4 4 8) None (mkPtok 40 "," 5 0 9)))); (mkFieldWithAttr (mkSpan (mkPtok 32 "@rightPad" 5 1 10) (mkPtok 40 "," 12 7 24)) [(FAPadding (mkSpan (mkPtok 32 "@rightPad" 5 1 10) (mkPtok 6 ")" 7 4 12)) (mkPaddingAttr (mkSpan (mkPtok 32 "@rightPad" 5 1 10) (mkPtok 6 ")" 7 4 12)) (mkPtok 32 "@rightPad" 5 1 10) (mkPtok 8 "(" 6 4 11) None (mkPtok 6 ")" 7 4 12)))] (MatchField (mkSpan (mkPtok 38 "match" 7 6 13) (mkPtok 40 "," 12 7 24)) (mkMatchFieldDecl (mkSpan (mkPtok 38 "match" 7 6 13) (mkPtok 3 "}" 12 5 23)) (mkPtok 38 "match" 7 6 13) (mkPtok 42 "body" 7 12 14) (mkPtok 17 "as" 7 17 15) (mkPtok 42 "pack" 8 0 16) (mkPtok 2 "{" 10 4 18) [(mkMatchPair (mkSpan (mkPtok 31 """// no comment""" 10 5 19) (mkPtok 40 "," 12 4 22)) (MKString (mkPtok 31 """// no comment""" 10 5 19)) (mkPtok 39 ":" 10 20 20) (mkPtok 42 "a1" 11 0 21) (Some (mkPtok 40 "," 12 4 22)))] (mkPtok 3 "}" 12 5 23)) (mkPtok 40 "," 12 7 24))); (mkFieldWithAttr (mkSpan (mkPtok 42 "Pad" 12 8 25) (mkPtok 40 "," 13 12 29)) [] (CheckSumField (mkSpan (mkPtok 42 "Pad" 12 8 25) (mkPtok 40 "," 13 12 29)) (mkChecksumFieldDecl (mkSpan (mkPtok 42 "Pad" 12 8 25) (mkPtok 40 "," 13 12 29)) None (mkPtok 42 "Pad" 12 8 25) (mkCalculatedFrom (mkSpan (mkPtok 5 "@calculatedFrom(" 12 12 26) (mkPtok 6 ")" 13 10 28)) (mkPtok 5 "@calculatedFrom(" 12 12 26) (mkPtok 31 (string_of_bytes [34; 97; 9; 98; 34]%N) 13 4 27) (mkPtok 6 ")" 13 10 28)) None (mkPtok 40 "," 13 12 29)))); (mkFieldWithAttr (mkSpan (mkPtok 5 "@calculatedFrom(" 14 0 30) (mkPtok 40 "," 20 0 40)) [(FACalculatedFrom (mkSpan (mkPtok 5 "@calculatedFrom(" 14 0 30) (mkPtok 6 ")" 16 0 32)) (mkCalculatedFrom (mkSpan (mkPtok 5 "@calculatedFrom(" 14 0 30) (mkPtok 6 ")" 16 0 32)) (mkPtok 5 "@calculatedFrom(" 14 0 30) (mkPtok 31 """x y""" 15 4 31) (mkPtok 6 ")" 16 0 32)))] (MetaField (mkSpan (mkPtok 12 "char[" 16 2 33) (mkPtok 40 "," 20 0 40)) None (mkMetaDecl (mkSpan (mkPtok 12 "char[" 16 2 33) (mkPtok 40 "," 20 0 40)) (TyFixed (mkSpan (mkPtok 12 "char[" 16 2 33) (mkPtok 13 "]" 16 10 35)) (mkFixedString (mkSpan (mkPtok 12 "char[" 16 2 33) (mkPtok 13 "]" 16 10 35)) (mkPtok 12 "char[" 16 2 33) (mkPtok 30 "0" 16 8 34) (mkPtok 13 "]" 16 10 35))) (mkPtok 42 "i64_" 16 11 36) (Some (mkPtok 43 "`a\`" 17 4 37)) (mkPtok 40 "," 20 0 40)))); (mkFieldWithAttr (mkSpan (mkPtok 42 "i64_" 20 2 41) (mkPtok 40 "," 22 6 45)) [] (ObjectField (mkSpan (mkPtok 42 "i64_" 20 2 41) (mkPtok 40 "," 22 6 45)) None (mkPtok 42 "i64_" 20 2 41) (Some (mkPtok 42 "rootA" 20 7 42)) (Some (mkPtok 43 (string_of_bytes [96; 99; 114; 108; 102; 13; 10; 108; 105; 110; 101; 96]%N) 21 0 44)) (mkPtok 40 "," 22 6 45))); (mkFieldWithAttr (mkSpan (mkPtok 5 "@calculatedFrom(" 22 8 46) (mkPtok 40 "," 25 11 57)) [(FACalculatedFrom (mkSpan (mkPtok 5 "@calculatedFrom(" 22 8 46) (mkPtok 6 ")" 23 6 48)) (mkCalculatedFrom (mkSpan (mkPtok 5 "@calculatedFrom(" 22 8 46) (mkPtok 6 ")" 23 6 48)) (mkPtok 5 "@calculatedFrom(" 22 8 46) (mkPtok 31 """{,}""" 23 0 47) (mkPtok 6 ")" 23 6 48))); (FALengthOf (mkSpan (mkPtok 7 "@lengthOf(" 23 8 49) (mkPtok 6 ")" 23 31 51)) (mkLengthOf (mkSpan (mkPtok 7 "@lengthOf(" 23 8 49) (mkPtok 6 ")" 23 31 51)) (mkPtok 7 "@lengthOf(" 23 8 49) (mkPtok 42 "repeatCount" 23 19 50) (mkPtok 6 ")" 23 31 51)))] (CheckSumField (mkSpan (mkPtok 42 "As" 23 33 52) (mkPtok 40 "," 25 11 57)) (mkChecksumFieldDecl (mkSpan (mkPtok 42 "As" 23 33 52) (mkPtok 40 "," 25 11 57)) None (mkPtok 42 "As" 23 33 52) (mkCalculatedFrom (mkSpan (mkPtok 5 "@calculatedFrom(" 24 0 53) (mkPtok 6 ")" 25 5 55)) (mkPtok 5 "@calculatedFrom(" 24 0 53) (mkPtok 31 """\n""" 25 0 54) (mkPtok 6 ")" 25 5 55)) (Some (mkPtok 43 "`a\`" 25 6 56)) (mkPtok 40 "," 25 11 57)))); (mkFieldWithAttr (mkSpan (mkPtok 32 "@leftPad" 25 14 58) (mkPtok 40 "," 26 4 66)) [(FAPadding (mkSpan (mkPtok 32 "@leftPad" 25 14 58) (mkPtok 6 ")" 25 29 61)) (mkPaddingAttr (mkSpan (mkPtok 32 "@leftPad" 25 14 58) (mkPtok 6 ")" 25 29 61)) (mkPtok 32 "@leftPad" 25 14 58) (mkPtok 8 "(" 25 23 59) (Some (mkPtok 33 "'0'" 25 25 60)) (mkPtok 6 ")" 25 29 61)))] (ObjectField (mkSpan (mkPtok 36 "repeat" 25 31 62) (mkPtok 40 "," 26 4 66)) (Some (mkPtok 36 "repeat" 25 31 62)) (mkPtok 42 "f32a" 25 38 63) (Some (mkPtok 42 "asx" 26 0 65)) None (mkPtok 40 "," 26 4 66))); (mkFieldWithAttr (mkSpan (mkPtok 5 "@calculatedFrom(" 26 5 67) (mkPtok 40 "," 26 36 72)) [(FACalculatedFrom (mkSpan (mkPtok 5 "@calculatedFrom(" 26 5 67) (mkPtok 6 ")" 26 25 69)) (mkCalculatedFrom (mkSpan (mkPtok 5 "@calculatedFrom(" 26 5 67) (mkPtok 6 ")" 26 25 69)) (mkPtok 5 "@calculatedFrom(" 26 5 67) (mkPtok 31 """""" 26 23 68) (mkPtok 6 ")" 26 25 69)))] (ObjectField (mkSpan (mkPtok 42 "zchar" 26 27 70) (mkPtok 40 "," 26 36 72)) None (mkPtok 42 "zchar" 26 27 70) None (Some (mkPtok 43 "``" 26 33 71)) (mkPtok 40 "," 26 36 72))); (mkFieldWithAttr (mkSpan (mkPtok 32 "@leftPad" 29 0 75) (mkPtok 40 "," 31 8 85)) [(FAPadding (mkSpan (mkPtok 32 "@leftPad" 29 0 75) (mkPtok 6 ")" 29 16 78)) (mkPaddingAttr (mkSpan (mkPtok 32 "@leftPad" 29 0 75) (mkPtok 6 ")" 29 16 78)) (mkPtok 32 "@leftPad" 29 0 75) (mkPtok 8 "(" 29 9 76) (Some (mkPtok 33 "'0'" 29 11 77)) (mkPtok 6 ")" 29 16 78)))] (LengthField (mkSpan (mkPtok 16 "char[]" 29 17 79) (mkPtok 40 "," 31 8 85)) (mkLengthFieldDecl (mkSpan (mkPtok 16 "char[]" 29 17 79) (mkPtok 40 "," 31 8 85)) (Some (TyDynamic (mkSpan (mkPtok 16 "char[]" 29 17 79) (mkPtok 16 "char[]" 29 17 79)) (mkDynamicString (mkSpan (mkPtok 16 "char[]" 29 17 79) (mkPtok 16 "char[]" 29 17 79)) (mkPtok 16 "char[]" 29 17 79)))) (mkPtok 42 "Foo" 29 24 80) (mkLengthOf (mkSpan (mkPtok 7 "@lengthOf(" 30 4 81) (mkPtok 6 ")" 30 18 83)) (mkPtok 7 "@lengthOf(" 30 4 81) (mkPtok 42 "_x" 30 15 82) (mkPtok 6 ")" 30 18 83)) (Some (mkPtok 43 "`{ , }`" 31 0 84)) (mkPtok 40 "," 31 8 85))))] (mkPtok 3 "}" 32 0 86))); (DPacket (mkPacketDef (mkSpan (mkPtok 34 "root" 32 2 87) (mkPtok 3 "}" 32 33 94)) (Some (mkPtok 34 "root" 32 2 87)) (mkPtok 35 "packet" 32 7 88) (mkPtok 42 "string_" 32 14 89) (mkPtok 2 "{" 32 22 90) [(mkFieldWithAttr (mkSpan (mkPtok 23 "uint64" 32 23 91) (mkPtok 40 "," 32 32 93)) [] (MetaField (mkSpan (mkPtok 23 "uint64" 32 23 91) (mkPtok 40 "," 32 32 93)) None (mkMetaDecl (mkSpan (mkPtok 23 "uint64" 32 23 91) (mkPtok 40 "," 32 32 93)) (TyBasic (mkSpan (mkPtok 23 "uint64" 32 23 91) (mkPtok 23 "uint64" 32 23 91)) (mkBasicType (mkSpan (mkPtok 23 "uint64" 32 23 91) (mkPtok 23 "uint64" 32 23 91)) (mkPtok 23 "uint64" 32 23 91))) (mkPtok 42 "T" 32 30 92) None (mkPtok 40 "," 32 32 93))))] (mkPtok 3 "}" 32 33 94))); (DOption (mkOptionDef (mkSpan (mkPtok 1 "options" 32 35 95) (mkPtok 3 "}" 37 7 111)) (mkPtok 1 "options" 32 35 95) (mkPtok 2 "{" 32 43 96) [(mkOptionDecl (mkSpan (mkPtok 42 "BodyLength" 34 4 98) (mkPtok 41 ";" 35 12 102)) (mkPtok 42 "BodyLength" 34 4 98) (mkPtok 4 "=" 35 0 100) (VDigits (mkSpan (mkPtok 30 "4294967296" 35 1 101) (mkPtok 30 "4294967296" 35 1 101)) (mkPtok 30 "4294967296" 35 1 101)) (Some (mkPtok 41 ";" 35 12 102))); (mkOptionDecl (mkSpan (mkPtok 42 "repeatCount" 35 14 103) (mkPtok 41 ";" 36 4 106)) (mkPtok 42 "repeatCount" 35 14 103) (mkPtok 4 "=" 35 26 104) (VTrue (mkSpan (mkPtok 10 "true" 36 0 105) (mkPtok 10 "true" 36 0 105)) (mkPtok 10 "true" 36 0 105)) (Some (mkPtok 41 ";" 36 4 106))); (mkOptionDecl (mkSpan (mkPtok 42 "a1" 36 6 107) (mkPtok 41 ";" 37 5 110)) (mkPtok 42 "a1" 36 6 107) (mkPtok 4 "=" 36 8 108) (VType (mkSpan (mkPtok 26 "int32" 37 0 109) (mkPtok 26 "int32" 37 0 109)) (TyBasic (mkSpan (mkPtok 26 "int32" 37 0 109) (mkPtok 26 "int32" 37 0 109)) (mkBasicType (mkSpan (mkPtok 26 "int32" 37 0 109) (mkPtok 26 "int32" 37 0 109)) (mkPtok 26 "int32" 37 0 109)))) (Some (mkPtok 41 ";" 37 5 110)))] (mkPtok 3 "}" 37 7 111)))])).
Eval vm_compute in ("<<<M1977>>>" ++ check (runes_of_ascii "  packet
Z9_	{  repeat// trailing space 
x
calculatedFrom
,	len Header,repeat // c
u16 len ,
i8 i8i8`{ , }` ,
    }
")).
Eval vm_compute in ("<<<M2009>>>" ++ check (runes_of_ascii "{ i64_ = string ; trueish =
    '\x00'
    leftPad = ""a\\"" /// triple
; crc
    = 255; uint8x
=
""abc""
    ;}")).
Eval vm_compute in ("<<<M2041>>>" ++ check (runes_of_ascii "options{ i64_ = string ; = trueish
    '\x00'
    leftPad = ""a\\"" /// triple
; crc
    = 255; uint8x
=
""abc""
    ;}")).
Eval vm_compute in ("<<<M2073>>>" ++ check (runes_of_ascii "options{ i64_ = string ; trueish =
    '\x00'
    leftPad = ""a\\""")).
Eval vm_compute in ("<<<M2105>>>" ++ check (runes_of_ascii "options{ i64_ = string ; trueish =
    '\x00'
    leftPad = ""a\\"" /// triple
; crc
    = 255; uint8x
=
""abc"" ""abc""
    ;}")).
Eval vm_compute in ("<<<M2137>>>" ++ check (runes_of_ascii "options{ i64_ = string ; trueish =
    '\x00'
    leftPad = ""a\\"" /// triple
; crc
    = 255; na" ++ [239]%N ++ runes_of_ascii "ve
=
""abc""
    ;}")).
Eval vm_compute in ("<<<M2169>>>" ++ check (runes_of_ascii "  packet
asx
{
/// triple
// @lengthOf(
u32 stringy")).
Eval vm_compute in ("<<<M2201>>>" ++ check (runes_of_ascii "  packet
asx
{
/// triple
// @lengthOf(
u32 stringy
`" ++ [28040; 24687; 31867; 22411]%N ++ runes_of_ascii "` ,} MetaData
    A {string  _x _x, zchar Header `a\`
// @lengthOf(
// packet A { u8 x, }
, char[] MetaDataX
,zchar[ 1 ]
    matchKey
    , char[] //
u,	char[0123456789 ]
    matchKey
    `{ , }`, }
")).
Eval vm_compute in ("<<<M2233>>>" ++ check (runes_of_ascii "  packet
asx
{
/// triple
// @lengthOf(
u32 stringy
`" ++ [28040; 24687; 31867; 22411]%N ++ runes_of_ascii "` ,} MetaData
    A {string  _x, zchar Header `a\`
// @lengthOf(
// packet A { u8 x, }
, float32 MetaDataX
,zchar[ 1 ]
    matchKey
    , char[] //
u,	char[0123456789 ]
    matchKey
    `{ , }`, }
")).
Eval vm_compute in ("<<<M2265>>>" ++ check (runes_of_ascii "  packet
asx
{
/// triple
// @lengthOf(
u32 stringy
`" ++ [28040; 24687; 31867; 22411]%N ++ runes_of_ascii "` ,} MetaData
    A {string  _x, zchar Header `a\`
// @lengthOf(
// packet A { u8 x, }
, char[] MetaDataX
,zchar[ 1 ]
    matchKey
     char[] //
u,	char[0123456789 ]
    matchKey
    `{ , }`, }
")).
Eval vm_compute in ("<<<M2297>>>" ++ check (runes_of_ascii "  packet
asx
{
/// triple
// @lengthOf(
u32 stringy
`" ++ [28040; 24687; 31867; 22411]%N ++ runes_of_ascii "` ,} MetaData
    A {string  _x, zchar Header `a\`
// @lengthOf(
// packet A { u8 x, }
, char[] MetaDataX
,zchar[ 1 ]
    matchKey
    , char[] //
u,	char[0123456789 matchKey
    ]
    `{ , }`, }
")).
Eval vm_compute in ("<<<M2329>>>" ++ check (runes_of_ascii "  packet
asx
{
/// triple
// @lengthOf(
u32 stringy
`" ++ [28040; 24687; 31867; 22411]%N ++ runes_of_ascii "` ,} MetaData
    A {string  _x, zchar Header `a\`
// @lengthOf(
// packet A { u8 x, }
, char[] MetaDataX
,zchar[ 1 ]
    matchKey
    , char[] //
u,	char[0123456789 ]
    matchKey@
    `{ , }`, }
")).
Eval vm_compute in ("<<<M2361>>>" ++ check (runes_of_ascii "root
    packet
Packet
{ // trailing space 
 `tab	here` ,}")).
Eval vm_compute in ("<<<M2393>>>" ++ check (runes_of_ascii "root
    packet
Packet
{ // trailing space 
matchKey `tab	here` ,}/")).
Eval vm_compute in ("<<<M2425>>>" ++ check (runes_of_ascii "options{ falsey // a // b
=
    255 } options { repeatCount =
true ; string_// a // b
=
// c
// " ++ [27880; 37322]%N ++ runes_of_ascii "
int64
// trailing space 
/// triple
; } // @lengthOf(")).
Eval vm_compute in ("<<<M2457>>>" ++ check (runes_of_ascii "options{ falsey // a // b
=
    '0' } options { repeatCount =
true  string_// a // b
=
// c
// " ++ [27880; 37322]%N ++ runes_of_ascii "
int64
// trailing space 
/// triple
; } // @lengthOf(")).
Eval vm_compute in ("<<<M2489>>>" ++ check (runes_of_ascii "options{ falsey // a // b
=
    '0' } options { repeatCount =
true ; string_// a // b
=
// c
// " ++ [27880; 37322]%N ++ runes_of_ascii "
")).
Eval vm_compute in ("<<<M2521>>>" ++ check (runes_of_ascii "options{i64 root packet
metadata {
@lengthOf(x ) float32
body ``, }
    MetaData
Z9_
    {
    string string_ , Logon x
,
uint32
    // packet A { u8 x, }
    Z9_,asx
_x
    `tab	here` , }
")).
Eval vm_compute in ("<<<M2553>>>" ++ check (runes_of_ascii "options{}root packet
metadata {
@lengthOf(x  float32
body ``, }
    MetaData
Z9_
    {
    string string_ , Logon x
,
uint32
    // packet A { u8 x, }
    Z9_,asx
_x
    `tab	here` , }
")).
Eval vm_compute in ("<<<M2585>>>" ++ check (runes_of_ascii "options{}root packet
metadata {
@lengthOf(x ) float32
body ``, }
    Z9_
MetaData
    {
    string string_ , Logon x
,
uint32
    // packet A { u8 x, }
    Z9_,asx
_x
    `tab	here` , }
")).
Eval vm_compute in ("<<<M2617>>>" ++ check (runes_of_ascii "options{}root packet
metadata {
@lengthOf(x ) float32
body ``, }
    MetaData
Z9_
    {
    string string_ ,")).
Eval vm_compute in ("<<<M2649>>>" ++ check (runes_of_ascii "options{}root packet
metadata {
@lengthOf(x ) float32
body ``, }
    MetaData
Z9_
    {
    string string_ , Logon x
,
uint32
    // packet A { u8 x, }
    Z9_,asx
_x _x
    `tab	here` , }
")).
Eval vm_compute in ("<<<M2681>>>" ++ check (runes_of_ascii "options{}root packet
metadata {
@lengthOf(x ) float32
body ``, }
    MetaData
Z9_
    {
  " ++ [0]%N ++ runes_of_ascii "  string string_ , Logon x
,
uint32
    // packet A { u8 x, }
    Z9_,asx
_x
    `tab	here` , }
")).
Eval vm_compute in ("<<<M2713>>>" ++ check (runes_of_ascii "options {
    falsey=")).
Eval vm_compute in ("<<<M2745>>>" ++ check (runes_of_ascii " f32a
{
    //	t
    }root
    packet tag  {
}
")).
Eval vm_compute in ("<<<M2777>>>" ++ check (runes_of_ascii "MetaData f32a
{
    //	t
    }root
    packet {  tag
}
")).
Eval vm_compute in ("<<<M2809>>>" ++ check (runes_of_ascii "MetaData f32a
{
    //	t
    }root
    packet a" ++ [769]%N ++ runes_of_ascii "b  {
}
")).
Eval vm_compute in ("<<<M2841>>>" ++ check (runes_of_ascii "
options
    {msg_type =
    float32  }
packet Z9_{ char /// triple
crc @lengthOf(
options1 ) //
,} MetaData a1{}
")).
Eval vm_compute in ("<<<M2873>>>" ++ check (runes_of_ascii "
options
    {msg_type =
    float32  }root
packet Z9_{ char /// triple
crc options1
@lengthOf( ) //
,} MetaData a1{}
")).
Eval vm_compute in ("<<<M2905>>>" ++ check (runes_of_ascii "
options
    {msg_type =
    float32  }root
packet Z9_{ char /// triple
crc @lengthOf(
options1 ) //
,} MetaData")).
Eval vm_compute in ("<<<M2937>>>" ++ check (runes_of_ascii " crc{ // " ++ [128512]%N ++ runes_of_ascii " emoji
repeat string i8i8
`a\`, }
")).
Eval vm_compute in ("<<<M2969>>>" ++ check (runes_of_ascii "packet crc{ // " ++ [128512]%N ++ runes_of_ascii " emoji
repeat string i8i8
,`a\` }
")).
Eval vm_compute in ("<<<M3001>>>" ++ check (runes_of_ascii "packet " ++ [21517; 23383]%N ++ runes_of_ascii "{ // " ++ [128512]%N ++ runes_of_ascii " emoji
repeat string i8i8
`a\`, }
")).
Eval vm_compute in ("<<<M3033>>>" ++ check (runes_of_ascii "packet BodyLength {} MetaData zchar zchar[// @lengthOf(
42 ]
    pack , string_
A , char[]crc , _x trueish ,
// " ++ [27880; 37322]%N ++ runes_of_ascii "
// " ++ [128512]%N ++ runes_of_ascii " emoji
zchar[
    3 ]	T // trailing space 
, } packet body
{
    }
")).
Eval vm_compute in ("<<<M3065>>>" ++ check (runes_of_ascii "packet BodyLength {} MetaData zchar{ zchar[// @lengthOf(
42 ]
    pack , A
string_ , char[]crc , _x trueish ,
// " ++ [27880; 37322]%N ++ runes_of_ascii "
// " ++ [128512]%N ++ runes_of_ascii " emoji
zchar[
    3 ]	T // trailing space 
, } packet body
{
    }
")).
Eval vm_compute in ("<<<M3097>>>" ++ check (runes_of_ascii "packet BodyLength {} MetaData zchar{ zchar[// @lengthOf(
42 ]
    pack , string_
A , char[]crc ,")).
Eval vm_compute in ("<<<M3129>>>" ++ check (runes_of_ascii "packet BodyLength {} MetaData zchar{ zchar[// @lengthOf(
42 ]
    pack , string_
A , char[]crc , _x trueish ,
// " ++ [27880; 37322]%N ++ runes_of_ascii "
// " ++ [128512]%N ++ runes_of_ascii " emoji
zchar[
    3 ]	T // trailing space 
, , } packet body
{
    }
")).
Eval vm_compute in ("<<<M3161>>>" ++ check (runes_of_ascii "packet BodyLength {} MetaData zchar{ zchar[// @lengthOf(
42 ]
    pack , string_
A , char[]crc , _x trueish ,
// " ++ [27880; 37322]%N ++ runes_of_ascii "
// " ++ [128512]%N)).
Eval vm_compute in ("<<<M3193>>>" ++ check (runes_of_ascii "packet
string_")).
Eval vm_compute in ("<<<M3225>>>" ++ check (runes_of_ascii "packet
string_ {@lengthOf( int ) match packetx as f32a f32a {
    1 :	calculatedFrom , }  ,
    } packet len
    //	t
    { @calculatedFrom( """ ++ [233]%N ++ runes_of_ascii "t" ++ [233]%N ++ runes_of_ascii """ ) body Header , char[] lengthOf  `two words` ,chars{repeat string_ matchKey ,
    } ,
    }
")).
Eval vm_compute in ("<<<M3257>>>" ++ check (runes_of_ascii "packet
string_ {@lengthOf( int ) match packetx as f32a {
    1 :	calculatedFrom , =  ,
    } packet len
    //	t
    { @calculatedFrom( """ ++ [233]%N ++ runes_of_ascii "t" ++ [233]%N ++ runes_of_ascii """ ) body Header , char[] lengthOf  `two words` ,chars{repeat string_ matchKey ,
    } ,
    }
")).
Eval vm_compute in ("<<<M3289>>>" ++ check (runes_of_ascii "packet
string_ {@lengthOf( int ) match packetx as f32a {
    1 :	calculatedFrom , }  ,
    } packet len
    //	t
    { @calculatedFrom(  ) body Header , char[] lengthOf  `two words` ,chars{repeat string_ matchKey ,
    } ,
    }
")).
Eval vm_compute in ("<<<M3321>>>" ++ check (runes_of_ascii "packet
string_ {@lengthOf( int ) match packetx as f32a {
    1 :	calculatedFrom , }  ,
    } packet len
    //	t
    { @calculatedFrom( """ ++ [233]%N ++ runes_of_ascii "t" ++ [233]%N ++ runes_of_ascii """ ) body Header , char[] `two words`  lengthOf ,chars{repeat string_ matchKey ,
    } ,
    }
")).
Eval vm_compute in ("<<<M3353>>>" ++ check (runes_of_ascii "packet
string_ {@lengthOf( int ) match packetx as f32a {
    1 :	calculatedFrom , }  ,
    } packet len
    //	t
    { @calculatedFrom( """ ++ [233]%N ++ runes_of_ascii "t" ++ [233]%N ++ runes_of_ascii """ ) body Header , char[] lengthOf  `two words` ,chars{repeat")).
Eval vm_compute in ("<<<M3385>>>" ++ check (runes_of_ascii "packet
string_ {@lengthOf( int ) match packetx as f32a {
    1 :	calculatedFrom , }  ,
    } packet len
    //	t
    { @calculatedFrom( """ ++ [233]%N ++ runes_of_ascii "t" ++ [233]%N ++ runes_of_ascii """ ) body Header , char[] @leftpad lengthOf  `two words` ,chars{repeat string_ matchKey ,
    } ,
    }
")).
Eval vm_compute in ("<<<M3417>>>" ++ check (runes_of_ascii "/// triple
root
packet // packet A { u8 x, }
chars { @lengthOf(charz )
stringy,  @tag(  0 { // a // b
asx
    As
,
// trailing space 
// trailing space 
x_y_z {
repeat i16 charz , } ,	int16  crc ,}
")).
Eval vm_compute in ("<<<M3449>>>" ++ check (runes_of_ascii "/// triple
root
packet // packet A { u8 x, }
chars { @lengthOf(charz )
stringy,  @tag(  0 ) // a // b
asx
    As
,")).
Eval vm_compute in ("<<<M3481>>>" ++ check (runes_of_ascii "/// triple
root
packet // packet A { u8 x, }
chars { @lengthOf(charz )
stringy,  @tag(  0 ) // a // b
asx asx
    As
,
// trailing space 
// trailing space 
x_y_z {
repeat i16 charz , } ,	int16  crc ,}
")).
Eval vm_compute in ("<<<M3513>>>" ++ check (runes_of_ascii "true1")).
Eval vm_compute in ("<<<M3545>>>" ++ check (runes_of_ascii "'  '")).
Eval vm_compute in ("<<<M3577>>>" ++ check (runes_of_ascii """a\""""")).
Eval vm_compute in ("<<<M3609>>>" ++ check (runes_of_ascii "[[]]")).
Eval vm_compute in ("<<<M3641>>>" ++ check (runes_of_ascii "packet A { x y `d`, }")).
Eval vm_compute in ("<<<M3673>>>" ++ check (runes_of_ascii "packet A { match k as n { 1 : B,, }, }")).
Eval vm_compute in ("<<<M3705>>>" ++ check (runes_of_ascii "packet")).
Eval vm_compute in ("<<<M3737>>>" ++ check (runes_of_ascii "options { options = 1; }")).
Eval vm_compute in ("<<<M3769>>>" ++ check (runes_of_ascii "&T a?uF8pWmsTf<`$3C-")).
Eval vm_compute in ("<<<M3801>>>" ++ check (runes_of_ascii "I'Qi?0""""]SuMf9A7")).
Eval vm_compute in ("<<<M3833>>>" ++ check (runes_of_ascii "v=OfM)k")).
Eval vm_compute in ("<<<M3865>>>" ++ check (runes_of_ascii "qPL\*R[5!eBJGT12|4fS@-zF(")).
Eval vm_compute in ("<<<M3897>>>" ++ check (runes_of_ascii "sJY6o?<(W|0l)MK:c^Vy.rhm7")).
Eval vm_compute in ("<<<M3929>>>" ++ check (runes_of_ascii "@Ld-ha-gX*n")).
Eval vm_compute in ("<<<M3961>>>" ++ check (runes_of_ascii ">&""v{S^62?^1Aq0Ju0oU?S>ncXP!]-&B+=")).
Eval vm_compute in ("<<<M3993>>>" ++ check (runes_of_ascii "6x*bn$)}h{{")).
