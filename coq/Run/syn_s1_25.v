From FP Require Import Lexer Parser ShowPT Digest.
From Coq Require Import String List NArith.
Import ListNotations.
Open Scope string_scope.
Set Printing Width 100000000.
Set Printing Depth 100000000.
Definition nl : string := String (Ascii.ascii_of_nat 10) EmptyString.
Definition model_lex (rs : list rune) : string := show_toks (lex rs).
Definition model_parse (rs : list rune) : string :=
  show_pt (match lex rs with Some ts => parse ts | None => None end).
(* coqc is slow at printing long strings: digests first (Digest.v), full texts on demand *)
Definition check (rs : list rune) : string :=
  digest (model_lex rs) ++ " " ++ digest (model_parse rs).
Definition full (rs : list rune) : string := model_lex rs ++ nl ++ model_parse rs.
Definition terms (ts : list tok) (t : pt) : string :=
  digest (show_toks (Some ts)) ++ " " ++ digest (show_pt (Some t)) ++ " " ++ digest (show_pt (parse ts)).
Definition terms_full (ts : list tok) (t : pt) : string :=
  show_toks (Some ts) ++ nl ++ show_pt (Some t) ++ nl ++ show_pt (parse ts).
Eval vm_compute in ("<<<M25>>>" ++ check (runes_of_ascii "root packet zchar{
@calculatedFrom( ""\" ++ [233]%N ++ runes_of_ascii """)
@rightPad (
    // a // b
    )
@rightPad	( '\x00' ) int8 Foo ,
    } packet calculatedFrom { u8x `doc`
    , }	MetaData x {
}options{ repeatCount
    = ""x y"" ;leftPad = """ ++ [128512]%N ++ runes_of_ascii """
tag= uint8}
//	t
")).
Eval vm_compute in ("<<<M57>>>" ++ check (runes_of_ascii "packet //	t
trueish
{/// triple
string crc`two words`,
T chars , }
packet
asx	{ @leftPad ( '0'
) match x as u8x { [ ""{,}"" ,
1 ,
65535, ""// no comment""	,  7,3 ,// c
10
,	42 ]:
    o ,
}
, // c
@leftPad(	'0'	) //	t
repeat	int64
    f32a`doc` ,  @tag( 4294967296)	@rightPad
    (
// trailing space 
//x
' ') @tag( 3)	o
`u8 x,` ,} packet	options1//x
{ // `tick` ""quote"" 'q'
char crc,
    rootA
//
// a // b
`a\` ,
    }
")).
Eval vm_compute in ("<<<M89>>>" ++ check (runes_of_ascii "packet	i64_ { }
")).
Eval vm_compute in ("<<<M121>>>" ++ check (runes_of_ascii "
packet Pad{ @lengthOf(
    msg_type)match u8x as u {
10: msg_type
// @lengthOf(
// c
255 : roots
    , ""CRC32""
:
// " ++ [128512]%N ++ runes_of_ascii " emoji
// `tick` ""quote"" 'q'
BodyLength [ 1, ""a\""b""  ] : trueish ,} ,
//	t
//	t
}")).
Eval vm_compute in ("<<<M153>>>" ++ check (runes_of_ascii "options { options1
    =
    // packet A { u8 x, }
    float64
    leftPad =
true ; MetaDataX
=char[ 00 ] ;roots=false } packet string_{ }
")).
Eval vm_compute in ("<<<T153>>>" ++ terms [mkTok 1 "options" 1 0 false; mkTok 2 "{" 1 8 false; mkTok 42 "options1" 1 10 false; mkTok 4 "=" 2 4 false; mkTok 44 "// packet A { u8 x, }" 3 4 true; mkTok 29 "float64" 4 4 false; mkTok 42 "leftPad" 5 4 false; mkTok 4 "=" 5 12 false; mkTok 10 "true" 6 0 false; mkTok 41 ";" 6 5 false; mkTok 42 "MetaDataX" 6 7 false; mkTok 4 "=" 7 0 false; mkTok 12 "char[" 7 1 false; mkTok 30 "00" 7 7 false; mkTok 13 "]" 7 10 false; mkTok 41 ";" 7 12 false; mkTok 42 "roots" 7 13 false; mkTok 4 "=" 7 18 false; mkTok 11 "false" 7 19 false; mkTok 3 "}" 7 25 false; mkTok 35 "packet" 7 27 false; mkTok 42 "string_" 7 34 false; mkTok 2 "{" 7 41 false; mkTok 3 "}" 7 43 false; mkTok 0 "<EOF>" 8 0 false] (mkPacket (mkPtok 1 "options" 1 0 0) (Some (mkPtok 3 "}" 7 43 23)) [(DOption (mkOptionDef (mkSpan (mkPtok 1 "options" 1 0 0) (mkPtok 3 "}" 7 25 19)) (mkPtok 1 "options" 1 0 0) (mkPtok 2 "{" 1 8 1) [(mkOptionDecl (mkSpan (mkPtok 42 "options1" 1 10 2) (mkPtok 29 "float64" 4 4 5)) (mkPtok 42 "options1" 1 10 2) (mkPtok 4 "=" 2 4 3) (VType (mkSpan (mkPtok 29 "float64" 4 4 5) (mkPtok 29 "float64" 4 4 5)) (TyBasic (mkSpan (mkPtok 29 "float64" 4 4 5) (mkPtok 29 "float64" 4 4 5)) (mkBasicType (mkSpan (mkPtok 29 "float64" 4 4 5) (mkPtok 29 "float64" 4 4 5)) (mkPtok 29 "float64" 4 4 5)))) None); (mkOptionDecl (mkSpan (mkPtok 42 "leftPad" 5 4 6) (mkPtok 41 ";" 6 5 9)) (mkPtok 42 "leftPad" 5 4 6) (mkPtok 4 "=" 5 12 7) (VTrue (mkSpan (mkPtok 10 "true" 6 0 8) (mkPtok 10 "true" 6 0 8)) (mkPtok 10 "true" 6 0 8)) (Some (mkPtok 41 ";" 6 5 9))); (mkOptionDecl (mkSpan (mkPtok 42 "MetaDataX" 6 7 10) (mkPtok 41 ";" 7 12 15)) (mkPtok 42 "MetaDataX" 6 7 10) (mkPtok 4 "=" 7 0 11) (VType (mkSpan (mkPtok 12 "char[" 7 1 12) (mkPtok 13 "]" 7 10 14)) (TyFixed (mkSpan (mkPtok 12 "char[" 7 1 12) (mkPtok 13 "]" 7 10 14)) (mkFixedString (mkSpan (mkPtok 12 "char[" 7 1 12) (mkPtok 13 "]" 7 10 14)) (mkPtok 12 "char[" 7 1 12) (mkPtok 30 "00" 7 7 13) (mkPtok 13 "]" 7 10 14)))) (Some (mkPtok 41 ";" 7 12 15))); (mkOptionDecl (mkSpan (mkPtok 42 "roots" 7 13 16) (mkPtok 11 "false" 7 19 18)) (mkPtok 42 "roots" 7 13 16) (mkPtok 4 "=" 7 18 17) (VFalse (mkSpan (mkPtok 11 "false" 7 19 18) (mkPtok 11 "false" 7 19 18)) (mkPtok 11 "false" 7 19 18)) None)] (mkPtok 3 "}" 7 25 19))); (DPacket (mkPacketDef (mkSpan (mkPtok 35 "packet" 7 27 20) (mkPtok 3 "}" 7 43 23)) None (mkPtok 35 "packet" 7 27 20) (mkPtok 42 "string_" 7 34 21) (mkPtok 2 "{" 7 41 22) [] (mkPtok 3 "}" 7 43 23)))])).
Eval vm_compute in ("<<<M185>>>" ++ check (runes_of_ascii "packet Foo
    // packet A { u8 x, }
    { @lengthOf( u128// " ++ [128512]%N ++ runes_of_ascii " emoji
) // c
pack
{
    match x as string_
    // " ++ [128512]%N ++ runes_of_ascii " emoji
    {""" ++ [28040; 24687]%N ++ runes_of_ascii """
: BodyLength ,} , }// a // b
,char[ 4294967296 ] i64_ `" ++ [233]%N ++ runes_of_ascii "` ,@lengthOf(u8x
    ) repeat float64 f32a ,
// a // b
// packet A { u8 x, }
} // 50% %s
options { MetaDataX=  ""a\\""
pack =// packet A { u8 x, }
false;	options1
    // a // b
    = char[]  Pad= '0'
    ;
u8x =false}
")).
Eval vm_compute in ("<<<M217>>>" ++ check (runes_of_ascii "
packet x
    { match Foo as stringy  {
    [
    ""CRC32"" , //	t
""{,}"" , ""it's""
,  ""a\\""
,
    // @lengthOf(
    """ ++ [28040; 24687]%N ++ runes_of_ascii """ , """ ++ [233]%N ++ runes_of_ascii "t" ++ [233]%N ++ runes_of_ascii """]
// " ++ [27880; 37322]%N ++ runes_of_ascii "
// @lengthOf(
: Packet ,} ,
match Header as
Foo
    {
[ 42
    , 1
]: BodyLength , }
    // `tick` ""quote"" 'q'
    , i64_ @calculatedFrom(
    ""it's"" ) `{ , }` ,
    } root // `tick` ""quote"" 'q'
packet	stringy { zchar[ 42 ]
    asx
`doc` ,
// packet A { u8 x, }
//x
}
    packet Z9_ { uint8
// " ++ [27880; 37322]%N ++ runes_of_ascii "
// " ++ [27880; 37322]%N ++ runes_of_ascii "
charz @calculatedFrom( ""CRC32"" ) `it's` , match stringy
    as  u128 { 42 : i8i8// trailing space 
, 0123456789 : charz ,
[00
, ""\" ++ [233]%N ++ runes_of_ascii """ , """ ++ [128512]%N ++ runes_of_ascii """ ,""\n"" , 10 , 42 ,	10 ] :
falsey	, 10 : pack
    ,	} , @tag( 10 ) repeat trueish
{ x_y_z MetaDataX `100% of %d` , } , tag
@calculatedFrom( ""`tick`"" ) ,
// c
// @lengthOf(
@calculatedFrom(""x y"" ) len // 50% %s
`
` ,@calculatedFrom( // " ++ [27880; 37322]%N ++ runes_of_ascii "
""`tick`""
    )repeat // a // b
pack { MetaDataX`" ++ [28040; 24687; 31867; 22411]%N ++ runes_of_ascii "` // `tick` ""quote"" 'q'
,repeat char[
007
    ]
Header // " ++ [128512]%N ++ runes_of_ascii " emoji
,}
, match msg_type as uint8x{ ""a\""b"" :uint8x 00: i64_,
10 : Header""packet"" :
f32a ,} , repeat string_ i8i8 , int32
    charz `// not a comment` ,@rightPad
( ) // 50% %s
match T
    as charz
{ [""\n""
    , """" , 10 , 10
,10 ,
10 , 4294967296 ]
:crc// packet A { u8 x, }
, ""a	b"" : a1
,	""\" ++ [233]%N ++ runes_of_ascii """  : // @lengthOf(
len
, 255
    // c
    :
x
    } ,}options { // " ++ [128512]%N ++ runes_of_ascii " emoji
packetx =false } packet u {
    //x
    @calculatedFrom( """ ++ [28040; 24687]%N ++ runes_of_ascii """ )repeat
// packet A { u8 x, }
// a // b
char[ 7 ]	Logon, }

")).
Eval vm_compute in ("<<<M249>>>" ++ check (runes_of_ascii "packet pack{ repeat charz , @leftPad ()  roots @lengthOf( Packet
)
    `it's`  , //	t
}
")).
Eval vm_compute in ("<<<M281>>>" ++ check (runes_of_ascii "options { Header
=
    ""a\\"" }packet x{ } packet repeatCount{zchar[ 00 ] asx,
@calculatedFrom( ""// no comment"" ) match body as Logon
{ ""abc""
:	chars
42	: A
,
""// no comment"":
crc , [ """"
]: f32a , 4294967296 : falsey ""x y""	: u8x },	@rightPad(
    ' ' ) u32
stringy @lengthOf(	lengthOf) ,  Foo `say ""hi""`// packet A { u8 x, }
,
crc `100% of %d` , @leftPad( '\x00' )
u8x o , zchar[
255	]
tag `u8 x,`	,} packet f32a { }
// @lengthOf(
// @lengthOf(
root packet
// packet A { u8 x, }
// 50% %s
msg_type {
@calculatedFrom(  ""`tick`""
    )char[]crc
, int	options1
, //
asx ,}
")).
Eval vm_compute in ("<<<M313>>>" ++ check (runes_of_ascii "MetaData
i64_ {// a // b
int16
tag// c
`" ++ [28040; 24687; 31867; 22411]%N ++ runes_of_ascii "` , }

")).
Eval vm_compute in ("<<<M345>>>" ++ check (runes_of_ascii "MetaData Foo/// triple
{ uint32
calculatedFrom `tab	here` ,//x
options1
//
//x
i64_ , // 50% %s
string packetx `it's` // " ++ [128512]%N ++ runes_of_ascii " emoji
, u32 Packet`
` ,
    zchar[
1  ]
int  `" ++ [233]%N ++ runes_of_ascii "` ,
}
    // `tick` ""quote"" 'q'
    packet x_y_z	{ T ,
    match BodyLength// @lengthOf(
as
    //
    charz { [
    ""// no comment"" , """ ++ [233]%N ++ runes_of_ascii "t" ++ [233]%N ++ runes_of_ascii """
    ,
""`tick`"" ,
0123456789 ]
    :
Z9_ ""1"" : MetaDataX [ ""\n""
    ]
    :
    matchKey , } ,
    stringy	{ repeat uint16 float
, zchar[ 1 ] Packet , }
    , //
match metadata
as	o // " ++ [27880; 37322]%N ++ runes_of_ascii "
{
10 : Header ,7 : crc
""it's"" // 50% %s
:falsey 3: leftPad , [ 00
, 1 // trailing space 
, 255  , 007 // " ++ [27880; 37322]%N ++ runes_of_ascii "
, 255
    ] :
    charz 4294967296 : metadata}
    ,
    }
")).
Eval vm_compute in ("<<<M377>>>" ++ check (runes_of_ascii "packet x {@rightPad ( '\x00'  ) char[ 10 // a // b
]
_x ,
    u32 trueish
// c
// packet A { u8 x, }
@lengthOf( As) `a\` ,@calculatedFrom(
    // c
    ""\" ++ [233]%N ++ runes_of_ascii """ ) char
//
// a // b
rootA @calculatedFrom( ""\n"" ) ,
}
")).
Eval vm_compute in ("<<<T377>>>" ++ terms [mkTok 35 "packet" 1 0 false; mkTok 42 "x" 1 7 false; mkTok 2 "{" 1 9 false; mkTok 32 "@rightPad" 1 10 false; mkTok 8 "(" 1 20 false; mkTok 33 "'\x00'" 1 22 false; mkTok 6 ")" 1 30 false; mkTok 12 "char[" 1 32 false; mkTok 30 "10" 1 38 false; mkTok 44 "// a // b" 1 41 true; mkTok 13 "]" 2 0 false; mkTok 42 "_x" 3 0 false; mkTok 40 "," 3 3 false; mkTok 22 "u32" 4 4 false; mkTok 42 "trueish" 4 8 false; mkTok 44 "// c" 5 0 true; mkTok 44 "// packet A { u8 x, }" 6 0 true; mkTok 7 "@lengthOf(" 7 0 false; mkTok 42 "As" 7 11 false; mkTok 6 ")" 7 13 false; mkTok 43 "`a\`" 7 15 false; mkTok 40 "," 7 20 false; mkTok 5 "@calculatedFrom(" 7 21 false; mkTok 44 "// c" 8 4 true; mkTok 31 (string_of_bytes [34; 92; 195; 169; 34]%N) 9 4 false; mkTok 6 ")" 9 9 false; mkTok 19 "char" 9 11 false; mkTok 44 "//" 10 0 true; mkTok 44 "// a // b" 11 0 true; mkTok 42 "rootA" 12 0 false; mkTok 5 "@calculatedFrom(" 12 6 false; mkTok 31 """\n""" 12 23 false; mkTok 6 ")" 12 28 false; mkTok 40 "," 12 30 false; mkTok 3 "}" 13 0 false; mkTok 0 "<EOF>" 14 0 false] (mkPacket (mkPtok 35 "packet" 1 0 0) (Some (mkPtok 3 "}" 13 0 34)) [(DPacket (mkPacketDef (mkSpan (mkPtok 35 "packet" 1 0 0) (mkPtok 3 "}" 13 0 34)) None (mkPtok 35 "packet" 1 0 0) (mkPtok 42 "x" 1 7 1) (mkPtok 2 "{" 1 9 2) [(mkFieldWithAttr (mkSpan (mkPtok 32 "@rightPad" 1 10 3) (mkPtok 40 "," 3 3 12)) [(FAPadding (mkSpan (mkPtok 32 "@rightPad" 1 10 3) (mkPtok 6 ")" 1 30 6)) (mkPaddingAttr (mkSpan (mkPtok 32 "@rightPad" 1 10 3) (mkPtok 6 ")" 1 30 6)) (mkPtok 32 "@rightPad" 1 10 3) (mkPtok 8 "(" 1 20 4) (Some (mkPtok 33 "'\x00'" 1 22 5)) (mkPtok 6 ")" 1 30 6)))] (MetaField (mkSpan (mkPtok 12 "char[" 1 32 7) (mkPtok 40 "," 3 3 12)) None (mkMetaDecl (mkSpan (mkPtok 12 "char[" 1 32 7) (mkPtok 40 "," 3 3 12)) (TyFixed (mkSpan (mkPtok 12 "char[" 1 32 7) (mkPtok 13 "]" 2 0 10)) (mkFixedString (mkSpan (mkPtok 12 "char[" 1 32 7) (mkPtok 13 "]" 2 0 10)) (mkPtok 12 "char[" 1 32 7) (mkPtok 30 "10" 1 38 8) (mkPtok 13 "]" 2 0 10))) (mkPtok 42 "_x" 3 0 11) None (mkPtok 40 "," 3 3 12)))); (mkFieldWithAttr (mkSpan (mkPtok 22 "u32" 4 4 13) (mkPtok 40 "," 7 20 21)) [] (LengthField (mkSpan (mkPtok 22 "u32" 4 4 13) (mkPtok 40 "," 7 20 21)) (mkLengthFieldDecl (mkSpan (mkPtok 22 "u32" 4 4 13) (mkPtok 40 "," 7 20 21)) (Some (TyBasic (mkSpan (mkPtok 22 "u32" 4 4 13) (mkPtok 22 "u32" 4 4 13)) (mkBasicType (mkSpan (mkPtok 22 "u32" 4 4 13) (mkPtok 22 "u32" 4 4 13)) (mkPtok 22 "u32" 4 4 13)))) (mkPtok 42 "trueish" 4 8 14) (mkLengthOf (mkSpan (mkPtok 7 "@lengthOf(" 7 0 17) (mkPtok 6 ")" 7 13 19)) (mkPtok 7 "@lengthOf(" 7 0 17) (mkPtok 42 "As" 7 11 18) (mkPtok 6 ")" 7 13 19)) (Some (mkPtok 43 "`a\`" 7 15 20)) (mkPtok 40 "," 7 20 21)))); (mkFieldWithAttr (mkSpan (mkPtok 5 "@calculatedFrom(" 7 21 22) (mkPtok 40 "," 12 30 33)) [(FACalculatedFrom (mkSpan (mkPtok 5 "@calculatedFrom(" 7 21 22) (mkPtok 6 ")" 9 9 25)) (mkCalculatedFrom (mkSpan (mkPtok 5 "@calculatedFrom(" 7 21 22) (mkPtok 6 ")" 9 9 25)) (mkPtok 5 "@calculatedFrom(" 7 21 22) (mkPtok 31 (string_of_bytes [34; 92; 195; 169; 34]%N) 9 4 24) (mkPtok 6 ")" 9 9 25)))] (CheckSumField (mkSpan (mkPtok 19 "char" 9 11 26) (mkPtok 40 "," 12 30 33)) (mkChecksumFieldDecl (mkSpan (mkPtok 19 "char" 9 11 26) (mkPtok 40 "," 12 30 33)) (Some (TyBasic (mkSpan (mkPtok 19 "char" 9 11 26) (mkPtok 19 "char" 9 11 26)) (mkBasicType (mkSpan (mkPtok 19 "char" 9 11 26) (mkPtok 19 "char" 9 11 26)) (mkPtok 19 "char" 9 11 26)))) (mkPtok 42 "rootA" 12 0 29) (mkCalculatedFrom (mkSpan (mkPtok 5 "@calculatedFrom(" 12 6 30) (mkPtok 6 ")" 12 28 32)) (mkPtok 5 "@calculatedFrom(" 12 6 30) (mkPtok 31 """\n""" 12 23 31) (mkPtok 6 ")" 12 28 32)) None (mkPtok 40 "," 12 30 33))))] (mkPtok 3 "}" 13 0 34)))])).
Eval vm_compute in ("<<<M409>>>" ++ check (runes_of_ascii "options { // a // b
_x = ' ' ;}MetaData // `tick` ""quote"" 'q'
u8x
    { char crc // a // b
`doc`
// c
//	t
, u body ,
zchar[  3 ] lengthOf
,
    x_y_z options1 ,
    }
    options // 50% %s
{ } packet calculatedFrom {	@leftPad
(
// @lengthOf(
// a // b
' '
    // a // b
    ) char pack`" ++ [233]%N ++ runes_of_ascii "`
,@calculatedFrom(""a	b"") match msg_type
as A{ [ 0123456789  , 007 , /// triple
""`tick`"", ""\" ++ [233]%N ++ runes_of_ascii """] : o	,42:
    i64_
} , x  @calculatedFrom( ""it's""  ),pack , chars {  uint8x
, i8i8 @calculatedFrom(
""abc"")
    , tag {repeat falsey// " ++ [27880; 37322]%N ++ runes_of_ascii "
`say ""hi""`, // " ++ [27880; 37322]%N ++ runes_of_ascii "
repeat
    metadata roots,match
    lengthOf
as
// @lengthOf(
/// triple
asx	{[ 0123456789
// " ++ [27880; 37322]%N ++ runes_of_ascii "
// `tick` ""quote"" 'q'
, 65535 ] :
charz //	t
, 1 : // `tick` ""quote"" 'q'
chars, 7 : As ,
    3 :
    BodyLength  , ""x y""
:
Packet , ""a	b""  : trueish,
}
// " ++ [27880; 37322]%N ++ runes_of_ascii "
// a // b
,
    // c
    } // " ++ [128512]%N ++ runes_of_ascii " emoji
,
    float64
i8i8  `
`// packet A { u8 x, }
,
    } ,
    @calculatedFrom(	""abc"" )
    @tag( 255 )	@calculatedFrom( ""`tick`"" ) zchar[ 7 ] body
@lengthOf( leftPad )
    ,len
{
asx
    A
,
} ,
    @tag( 7
    ) @calculatedFrom(""{,}"" )f64
    MetaDataX ``	,	} root packet metadata
    {
repeat//	t
char[ 0]
    uint8x , }

")).
Eval vm_compute in ("<<<M441>>>" ++ check (runes_of_ascii "

// 50% %s
")).
Eval vm_compute in ("<<<M473>>>" ++ check (runes_of_ascii "options {
BodyLength	=	'0'lengthOf//	t
=""abc"";
} packet
    u8x { tag zchar ,/// triple
} //")).
Eval vm_compute in ("<<<M505>>>" ++ check (runes_of_ascii "
packet // a // b
rootA
{
} options {	} MetaData body { //x
i8i8 //
A, i16 Header ,
calculatedFrom
T,	char[] packetx
`say ""hi""` ,
    Foo uint8x , int64 Header`doc`
    ,
} MetaData
packetx{ i64 string_ `say ""hi""`
    ,uint8 calculatedFrom ,
    a1
MetaDataX
,MetaDataX tag ,f64 u8x,  f64
    asx, } // `tick` ""quote"" 'q'")).
Eval vm_compute in ("<<<M537>>>" ++ check (runes_of_ascii "root packet // @lengthOf(
Foo { @lengthOf(
    Logon )	@calculatedFrom(  ""{,}"" )
@calculatedFrom( ""`tick`""
) match
    roots as charz { 7 :
// a // b
/// triple
string_ } , u64 u @calculatedFrom( //x
""\" ++ [233]%N ++ runes_of_ascii """ ),
@tag(  007 ) @lengthOf( zchar) match body// 50% %s
as trueish{ [	10
,// @lengthOf(
""packet""
, 3//	t
,0 ,
    00 , """" ]
    //	t
    :  repeatCount , [4294967296 ]	: Logon
[ ""CRC32""  ,""it's""  ] :
    x_y_z ,}
    , }	packet/// triple
repeatCount	{matchKey{
    repeat  char crc
    ,char[  10 ]u8x @calculatedFrom(
""1""
    ) ,	char[]matchKey
    @lengthOf( o ) , } , i32 T @lengthOf(	crc
    )`" ++ [233]%N ++ runes_of_ascii "` , @lengthOf( Foo )calculatedFrom
// trailing space 
// @lengthOf(
@lengthOf(
options1 ),	Packet //x
@lengthOf(
repeatCount )
,
}")).
Eval vm_compute in ("<<<M569>>>" ++ check (runes_of_ascii "root packet Packet { u128 x_y_z,	zchar[007]
    i64_	@lengthOf( Pad
) `a\` , // 50% %s
uint8 charz	,@lengthOf(
i8i8 )zchar
,@rightPad() //x
zchar[ 65535] i64_@lengthOf(  metadata )
    ,
@calculatedFrom( """" //	t
) char[ 4294967296 ]lengthOf @calculatedFrom(
    ""// no comment""  ) // " ++ [128512]%N ++ runes_of_ascii " emoji
, // c
@leftPad
    (
    ' '
    )zchar[007 ] options1
    , i64_  { f64 msg_type
    , u8x {
    repeat// " ++ [128512]%N ++ runes_of_ascii " emoji
f32a
    //	t
    { roots@calculatedFrom( ""{,}"" )`tab	here` // " ++ [128512]%N ++ runes_of_ascii " emoji
, }
//x
//x
,/// triple
} // a // b
, u64 // " ++ [128512]%N ++ runes_of_ascii " emoji
Logon
, }// c
, // trailing space 
@lengthOf( i64_) char[ 3	] u8x  @lengthOf( // packet A { u8 x, }
stringy
) `two words`,
// " ++ [128512]%N ++ runes_of_ascii " emoji
//
} MetaData f32a {}")).
Eval vm_compute in ("<<<M601>>>" ++ check (runes_of_ascii "packet
trueish { repeat matchKey // " ++ [27880; 37322]%N ++ runes_of_ascii "
As `doc` , @calculatedFrom(""a\""b""	) Packet  Logon, // @lengthOf(
i16 Z9_ // packet A { u8 x, }
,  x_y_z { char charz
@calculatedFrom(
// @lengthOf(
//	t
""""
)// a // b
, repeat rootA repeatCount
    ,
repeat u128
    f32a
    `100% of %d` //	t
, }	, match
leftPad
as // c
string_ //
{
    // " ++ [128512]%N ++ runes_of_ascii " emoji
    [
    ""packet"" , ""x y""
//x
// packet A { u8 x, }
,255 , ""abc""
, 0123456789
,	255 ,
7
] :	a1 ,
}  , uint64 options1
    @lengthOf( u8x ) `it's` , @leftPad( '0'// 50% %s
)repeat
    Header `say ""hi""` ,
trueish zchar , @leftPad(
    // c
    '\x00'
    )// " ++ [128512]%N ++ runes_of_ascii " emoji
A // c
@lengthOf(	crc	)
//
// " ++ [27880; 37322]%N ++ runes_of_ascii "
, }
    root
    packet
    i64_
    { i64_
    // trailing space 
    `// not a comment`
,
string
    i8i8 @calculatedFrom(
""\" ++ [233]%N ++ runes_of_ascii """ // a // b
)`doc` ,
    }
    packet Logon//	t
{ @lengthOf( leftPad )
u64 u128`" ++ [28040; 24687; 31867; 22411]%N ++ runes_of_ascii "` , }

")).
Eval vm_compute in ("<<<T601>>>" ++ terms [mkTok 35 "packet" 1 0 false; mkTok 42 "trueish" 2 0 false; mkTok 2 "{" 2 8 false; mkTok 36 "repeat" 2 10 false; mkTok 42 "matchKey" 2 17 false; mkTok 44 (string_of_bytes [47; 47; 32; 230; 179; 168; 233; 135; 138]%N) 2 26 true; mkTok 42 "As" 3 0 false; mkTok 43 "`doc`" 3 3 false; mkTok 40 "," 3 9 false; mkTok 5 "@calculatedFrom(" 3 11 false; mkTok 31 """a\""b""" 3 27 false; mkTok 6 ")" 3 34 false; mkTok 42 "Packet" 3 36 false; mkTok 42 "Logon" 3 44 false; mkTok 40 "," 3 49 false; mkTok 44 "// @lengthOf(" 3 51 true; mkTok 25 "i16" 4 0 false; mkTok 42 "Z9_" 4 4 false; mkTok 44 "// packet A { u8 x, }" 4 8 true; mkTok 40 "," 5 0 false; mkTok 42 "x_y_z" 5 3 false; mkTok 2 "{" 5 9 false; mkTok 19 "char" 5 11 false; mkTok 42 "charz" 5 16 false; mkTok 5 "@calculatedFrom(" 6 0 false; mkTok 44 "// @lengthOf(" 7 0 true; mkTok 44 (string_of_bytes [47; 47; 9; 116]%N) 8 0 true; mkTok 31 """""" 9 0 false; mkTok 6 ")" 10 0 false; mkTok 44 "// a // b" 10 1 true; mkTok 40 "," 11 0 false; mkTok 36 "repeat" 11 2 false; mkTok 42 "rootA" 11 9 false; mkTok 42 "repeatCount" 11 15 false; mkTok 40 "," 12 4 false; mkTok 36 "repeat" 13 0 false; mkTok 42 "u128" 13 7 false; mkTok 42 "f32a" 14 4 false; mkTok 43 "`100% of %d`" 15 4 false; mkTok 44 (string_of_bytes [47; 47; 9; 116]%N) 15 17 true; mkTok 40 "," 16 0 false; mkTok 3 "}" 16 2 false; mkTok 40 "," 16 4 false; mkTok 38 "match" 16 6 false; mkTok 42 "leftPad" 17 0 false; mkTok 17 "as" 18 0 false; mkTok 44 "// c" 18 3 true; mkTok 42 "string_" 19 0 false; mkTok 44 "//" 19 8 true; mkTok 2 "{" 20 0 false; mkTok 44 (string_of_bytes [47; 47; 32; 240; 159; 152; 128; 32; 101; 109; 111; 106; 105]%N) 21 4 true; mkTok 18 "[" 22 4 false; mkTok 31 """packet""" 23 4 false; mkTok 40 "," 23 13 false; mkTok 31 """x y""" 23 15 false; mkTok 44 "//x" 24 0 true; mkTok 44 "// packet A { u8 x, }" 25 0 true; mkTok 40 "," 26 0 false; mkTok 30 "255" 26 1 false; mkTok 40 "," 26 5 false; mkTok 31 """abc""" 26 7 false; mkTok 40 "," 27 0 false; mkTok 30 "0123456789" 27 2 false; mkTok 40 "," 28 0 false; mkTok 30 "255" 28 2 false; mkTok 40 "," 28 6 false; mkTok 30 "7" 29 0 false; mkTok 13 "]" 30 0 false; mkTok 39 ":" 30 2 false; mkTok 42 "a1" 30 4 false; mkTok 40 "," 30 7 false; mkTok 3 "}" 31 0 false; mkTok 40 "," 31 3 false; mkTok 23 "uint64" 31 5 false; mkTok 42 "options1" 31 12 false; mkTok 7 "@lengthOf(" 32 4 false; mkTok 42 "u8x" 32 15 false; mkTok 6 ")" 32 19 false; mkTok 43 "`it's`" 32 21 false; mkTok 40 "," 32 28 false; mkTok 32 "@leftPad" 32 30 false; mkTok 8 "(" 32 38 false; mkTok 33 "'0'" 32 40 false; mkTok 44 "// 50% %s" 32 43 true; mkTok 6 ")" 33 0 false; mkTok 36 "repeat" 33 1 false; mkTok 42 "Header" 34 4 false; mkTok 43 "`say ""hi""`" 34 11 false; mkTok 40 "," 34 22 false; mkTok 42 "trueish" 35 0 false; mkTok 42 "zchar" 35 8 false; mkTok 40 "," 35 14 false; mkTok 32 "@leftPad" 35 16 false; mkTok 8 "(" 35 24 false; mkTok 44 "// c" 36 4 true; mkTok 33 "'\x00'" 37 4 false; mkTok 6 ")" 38 4 false; mkTok 44 (string_of_bytes [47; 47; 32; 240; 159; 152; 128; 32; 101; 109; 111; 106; 105]%N) 38 5 true; mkTok 42 "A" 39 0 false; mkTok 44 "// c" 39 2 true; mkTok 7 "@lengthOf(" 40 0 false; mkTok 42 "crc" 40 11 false; mkTok 6 ")" 40 15 false; mkTok 44 "//" 41 0 true; mkTok 44 (string_of_bytes [47; 47; 32; 230; 179; 168; 233; 135; 138]%N) 42 0 true; mkTok 40 "," 43 0 false; mkTok 3 "}" 43 2 false; mkTok 34 "root" 44 4 false; mkTok 35 "packet" 45 4 false; mkTok 42 "i64_" 46 4 false; mkTok 2 "{" 47 4 false; mkTok 42 "i64_" 47 6 false; mkTok 44 "// trailing space " 48 4 true; mkTok 43 "`// not a comment`" 49 4 false; mkTok 40 "," 50 0 false; mkTok 15 "string" 51 0 false; mkTok 42 "i8i8" 52 4 false; mkTok 5 "@calculatedFrom(" 52 9 false; mkTok 31 (string_of_bytes [34; 92; 195; 169; 34]%N) 53 0 false; mkTok 44 "// a // b" 53 5 true; mkTok 6 ")" 54 0 false; mkTok 43 "`doc`" 54 1 false; mkTok 40 "," 54 7 false; mkTok 3 "}" 55 4 false; mkTok 35 "packet" 56 4 false; mkTok 42 "Logon" 56 11 false; mkTok 44 (string_of_bytes [47; 47; 9; 116]%N) 56 16 true; mkTok 2 "{" 57 0 false; mkTok 7 "@lengthOf(" 57 2 false; mkTok 42 "leftPad" 57 13 false; mkTok 6 ")" 57 21 false; mkTok 23 "u64" 58 0 false; mkTok 42 "u128" 58 4 false; mkTok 43 (string_of_bytes [96; 230; 182; 136; 230; 129; 175; 231; 177; 187; 229; 158; 139; 96]%N) 58 8 false; mkTok 40 "," 58 15 false; mkTok 3 "}" 58 17 false; mkTok 0 "<EOF>" 60 0 false] (mkPacket (mkPtok 35 "packet" 1 0 0) (Some (mkPtok 3 "}" 58 17 135)) [(DPacket (mkPacketDef (mkSpan (mkPtok 35 "packet" 1 0 0) (mkPtok 3 "}" 43 2 106)) None (mkPtok 35 "packet" 1 0 0) (mkPtok 42 "trueish" 2 0 1) (mkPtok 2 "{" 2 8 2) [(mkFieldWithAttr (mkSpan (mkPtok 36 "repeat" 2 10 3) (mkPtok 40 "," 3 9 8)) [] (ObjectField (mkSpan (mkPtok 36 "repeat" 2 10 3) (mkPtok 40 "," 3 9 8)) (Some (mkPtok 36 "repeat" 2 10 3)) (mkPtok 42 "matchKey" 2 17 4) (Some (mkPtok 42 "As" 3 0 6)) (Some (mkPtok 43 "`doc`" 3 3 7)) (mkPtok 40 "," 3 9 8))); (mkFieldWithAttr (mkSpan (mkPtok 5 "@calculatedFrom(" 3 11 9) (mkPtok 40 "," 3 49 14)) [(FACalculatedFrom (mkSpan (mkPtok 5 "@calculatedFrom(" 3 11 9) (mkPtok 6 ")" 3 34 11)) (mkCalculatedFrom (mkSpan (mkPtok 5 "@calculatedFrom(" 3 11 9) (mkPtok 6 ")" 3 34 11)) (mkPtok 5 "@calculatedFrom(" 3 11 9) (mkPtok 31 """a\""b""" 3 27 10) (mkPtok 6 ")" 3 34 11)))] (ObjectField (mkSpan (mkPtok 42 "Packet" 3 36 12) (mkPtok 40 "," 3 49 14)) None (mkPtok 42 "Packet" 3 36 12) (Some (mkPtok 42 "Logon" 3 44 13)) None (mkPtok 40 "," 3 49 14))); (mkFieldWithAttr (mkSpan (mkPtok 25 "i16" 4 0 16) (mkPtok 40 "," 5 0 19)) [] (MetaField (mkSpan (mkPtok 25 "i16" 4 0 16) (mkPtok 40 "," 5 0 19)) None (mkMetaDecl (mkSpan (mkPtok 25 "i16" 4 0 16) (mkPtok 40 "," 5 0 19)) (TyBasic (mkSpan (mkPtok 25 "i16" 4 0 16) (mkPtok 25 "i16" 4 0 16)) (mkBasicType (mkSpan (mkPtok 25 "i16" 4 0 16) (mkPtok 25 "i16" 4 0 16)) (mkPtok 25 "i16" 4 0 16))) (mkPtok 42 "Z9_" 4 4 17) None (mkPtok 40 "," 5 0 19)))); (mkFieldWithAttr (mkSpan (mkPtok 42 "x_y_z" 5 3 20) (mkPtok 40 "," 16 4 42)) [] (InerObjectField (mkSpan (mkPtok 42 "x_y_z" 5 3 20) (mkPtok 40 "," 16 4 42)) None (InerObjectDecl (mkSpan (mkPtok 42 "x_y_z" 5 3 20) (mkPtok 3 "}" 16 2 41)) (mkPtok 42 "x_y_z" 5 3 20) (mkPtok 2 "{" 5 9 21) [(CheckSumField (mkSpan (mkPtok 19 "char" 5 11 22) (mkPtok 40 "," 11 0 30)) (mkChecksumFieldDecl (mkSpan (mkPtok 19 "char" 5 11 22) (mkPtok 40 "," 11 0 30)) (Some (TyBasic (mkSpan (mkPtok 19 "char" 5 11 22) (mkPtok 19 "char" 5 11 22)) (mkBasicType (mkSpan (mkPtok 19 "char" 5 11 22) (mkPtok 19 "char" 5 11 22)) (mkPtok 19 "char" 5 11 22)))) (mkPtok 42 "charz" 5 16 23) (mkCalculatedFrom (mkSpan (mkPtok 5 "@calculatedFrom(" 6 0 24) (mkPtok 6 ")" 10 0 28)) (mkPtok 5 "@calculatedFrom(" 6 0 24) (mkPtok 31 """""" 9 0 27) (mkPtok 6 ")" 10 0 28)) None (mkPtok 40 "," 11 0 30))); (ObjectField (mkSpan (mkPtok 36 "repeat" 11 2 31) (mkPtok 40 "," 12 4 34)) (Some (mkPtok 36 "repeat" 11 2 31)) (mkPtok 42 "rootA" 11 9 32) (Some (mkPtok 42 "repeatCount" 11 15 33)) None (mkPtok 40 "," 12 4 34)); (ObjectField (mkSpan (mkPtok 36 "repeat" 13 0 35) (mkPtok 40 "," 16 0 40)) (Some (mkPtok 36 "repeat" 13 0 35)) (mkPtok 42 "u128" 13 7 36) (Some (mkPtok 42 "f32a" 14 4 37)) (Some (mkPtok 43 "`100% of %d`" 15 4 38)) (mkPtok 40 "," 16 0 40))] (mkPtok 3 "}" 16 2 41)) (mkPtok 40 "," 16 4 42))); (mkFieldWithAttr (mkSpan (mkPtok 38 "match" 16 6 43) (mkPtok 40 "," 31 3 72)) [] (MatchField (mkSpan (mkPtok 38 "match" 16 6 43) (mkPtok 40 "," 31 3 72)) (mkMatchFieldDecl (mkSpan (mkPtok 38 "match" 16 6 43) (mkPtok 3 "}" 31 0 71)) (mkPtok 38 "match" 16 6 43) (mkPtok 42 "leftPad" 17 0 44) (mkPtok 17 "as" 18 0 45) (mkPtok 42 "string_" 19 0 47) (mkPtok 2 "{" 20 0 49) [(mkMatchPair (mkSpan (mkPtok 18 "[" 22 4 51) (mkPtok 40 "," 30 7 70)) (MKList (mkKeyList (mkSpan (mkPtok 18 "[" 22 4 51) (mkPtok 13 "]" 30 0 67)) (mkPtok 18 "[" 22 4 51) (mkPtok 31 """packet""" 23 4 52) [((mkPtok 40 "," 23 13 53), (mkPtok 31 """x y""" 23 15 54)); ((mkPtok 40 "," 26 0 57), (mkPtok 30 "255" 26 1 58)); ((mkPtok 40 "," 26 5 59), (mkPtok 31 """abc""" 26 7 60)); ((mkPtok 40 "," 27 0 61), (mkPtok 30 "0123456789" 27 2 62)); ((mkPtok 40 "," 28 0 63), (mkPtok 30 "255" 28 2 64)); ((mkPtok 40 "," 28 6 65), (mkPtok 30 "7" 29 0 66))] (mkPtok 13 "]" 30 0 67))) (mkPtok 39 ":" 30 2 68) (mkPtok 42 "a1" 30 4 69) (Some (mkPtok 40 "," 30 7 70)))] (mkPtok 3 "}" 31 0 71)) (mkPtok 40 "," 31 3 72))); (mkFieldWithAttr (mkSpan (mkPtok 23 "uint64" 31 5 73) (mkPtok 40 "," 32 28 79)) [] (LengthField (mkSpan (mkPtok 23 "uint64" 31 5 73) (mkPtok 40 "," 32 28 79)) (mkLengthFieldDecl (mkSpan (mkPtok 23 "uint64" 31 5 73) (mkPtok 40 "," 32 28 79)) (Some (TyBasic (mkSpan (mkPtok 23 "uint64" 31 5 73) (mkPtok 23 "uint64" 31 5 73)) (mkBasicType (mkSpan (mkPtok 23 "uint64" 31 5 73) (mkPtok 23 "uint64" 31 5 73)) (mkPtok 23 "uint64" 31 5 73)))) (mkPtok 42 "options1" 31 12 74) (mkLengthOf (mkSpan (mkPtok 7 "@lengthOf(" 32 4 75) (mkPtok 6 ")" 32 19 77)) (mkPtok 7 "@lengthOf(" 32 4 75) (mkPtok 42 "u8x" 32 15 76) (mkPtok 6 ")" 32 19 77)) (Some (mkPtok 43 "`it's`" 32 21 78)) (mkPtok 40 "," 32 28 79)))); (mkFieldWithAttr (mkSpan (mkPtok 32 "@leftPad" 32 30 80) (mkPtok 40 "," 34 22 88)) [(FAPadding (mkSpan (mkPtok 32 "@leftPad" 32 30 80) (mkPtok 6 ")" 33 0 84)) (mkPaddingAttr (mkSpan (mkPtok 32 "@leftPad" 32 30 80) (mkPtok 6 ")" 33 0 84)) (mkPtok 32 "@leftPad" 32 30 80) (mkPtok 8 "(" 32 38 81) (Some (mkPtok 33 "'0'" 32 40 82)) (mkPtok 6 ")" 33 0 84)))] (ObjectField (mkSpan (mkPtok 36 "repeat" 33 1 85) (mkPtok 40 "," 34 22 88)) (Some (mkPtok 36 "repeat" 33 1 85)) (mkPtok 42 "Header" 34 4 86) None (Some (mkPtok 43 "`say ""hi""`" 34 11 87)) (mkPtok 40 "," 34 22 88))); (mkFieldWithAttr (mkSpan (mkPtok 42 "trueish" 35 0 89) (mkPtok 40 "," 35 14 91)) [] (ObjectField (mkSpan (mkPtok 42 "trueish" 35 0 89) (mkPtok 40 "," 35 14 91)) None (mkPtok 42 "trueish" 35 0 89) (Some (mkPtok 42 "zchar" 35 8 90)) None (mkPtok 40 "," 35 14 91))); (mkFieldWithAttr (mkSpan (mkPtok 32 "@leftPad" 35 16 92) (mkPtok 40 "," 43 0 105)) [(FAPadding (mkSpan (mkPtok 32 "@leftPad" 35 16 92) (mkPtok 6 ")" 38 4 96)) (mkPaddingAttr (mkSpan (mkPtok 32 "@leftPad" 35 16 92) (mkPtok 6 ")" 38 4 96)) (mkPtok 32 "@leftPad" 35 16 92) (mkPtok 8 "(" 35 24 93) (Some (mkPtok 33 "'\x00'" 37 4 95)) (mkPtok 6 ")" 38 4 96)))] (LengthField (mkSpan (mkPtok 42 "A" 39 0 98) (mkPtok 40 "," 43 0 105)) (mkLengthFieldDecl (mkSpan (mkPtok 42 "A" 39 0 98) (mkPtok 40 "," 43 0 105)) None (mkPtok 42 "A" 39 0 98) (mkLengthOf (mkSpan (mkPtok 7 "@lengthOf(" 40 0 100) (mkPtok 6 ")" 40 15 102)) (mkPtok 7 "@lengthOf(" 40 0 100) (mkPtok 42 "crc" 40 11 101) (mkPtok 6 ")" 40 15 102)) None (mkPtok 40 "," 43 0 105))))] (mkPtok 3 "}" 43 2 106))); (DPacket (mkPacketDef (mkSpan (mkPtok 34 "root" 44 4 107) (mkPtok 3 "}" 55 4 123)) (Some (mkPtok 34 "root" 44 4 107)) (mkPtok 35 "packet" 45 4 108) (mkPtok 42 "i64_" 46 4 109) (mkPtok 2 "{" 47 4 110) [(mkFieldWithAttr (mkSpan (mkPtok 42 "i64_" 47 6 111) (mkPtok 40 "," 50 0 114)) [] (ObjectField (mkSpan (mkPtok 42 "i64_" 47 6 111) (mkPtok 40 "," 50 0 114)) None (mkPtok 42 "i64_" 47 6 111) None (Some (mkPtok 43 "`// not a comment`" 49 4 113)) (mkPtok 40 "," 50 0 114))); (mkFieldWithAttr (mkSpan (mkPtok 15 "string" 51 0 115) (mkPtok 40 "," 54 7 122)) [] (CheckSumField (mkSpan (mkPtok 15 "string" 51 0 115) (mkPtok 40 "," 54 7 122)) (mkChecksumFieldDecl (mkSpan (mkPtok 15 "string" 51 0 115) (mkPtok 40 "," 54 7 122)) (Some (TyDynamic (mkSpan (mkPtok 15 "string" 51 0 115) (mkPtok 15 "string" 51 0 115)) (mkDynamicString (mkSpan (mkPtok 15 "string" 51 0 115) (mkPtok 15 "string" 51 0 115)) (mkPtok 15 "string" 51 0 115)))) (mkPtok 42 "i8i8" 52 4 116) (mkCalculatedFrom (mkSpan (mkPtok 5 "@calculatedFrom(" 52 9 117) (mkPtok 6 ")" 54 0 120)) (mkPtok 5 "@calculatedFrom(" 52 9 117) (mkPtok 31 (string_of_bytes [34; 92; 195; 169; 34]%N) 53 0 118) (mkPtok 6 ")" 54 0 120)) (Some (mkPtok 43 "`doc`" 54 1 121)) (mkPtok 40 "," 54 7 122))))] (mkPtok 3 "}" 55 4 123))); (DPacket (mkPacketDef (mkSpan (mkPtok 35 "packet" 56 4 124) (mkPtok 3 "}" 58 17 135)) None (mkPtok 35 "packet" 56 4 124) (mkPtok 42 "Logon" 56 11 125) (mkPtok 2 "{" 57 0 127) [(mkFieldWithAttr (mkSpan (mkPtok 7 "@lengthOf(" 57 2 128) (mkPtok 40 "," 58 15 134)) [(FALengthOf (mkSpan (mkPtok 7 "@lengthOf(" 57 2 128) (mkPtok 6 ")" 57 21 130)) (mkLengthOf (mkSpan (mkPtok 7 "@lengthOf(" 57 2 128) (mkPtok 6 ")" 57 21 130)) (mkPtok 7 "@lengthOf(" 57 2 128) (mkPtok 42 "leftPad" 57 13 129) (mkPtok 6 ")" 57 21 130)))] (MetaField (mkSpan (mkPtok 23 "u64" 58 0 131) (mkPtok 40 "," 58 15 134)) None (mkMetaDecl (mkSpan (mkPtok 23 "u64" 58 0 131) (mkPtok 40 "," 58 15 134)) (TyBasic (mkSpan (mkPtok 23 "u64" 58 0 131) (mkPtok 23 "u64" 58 0 131)) (mkBasicType (mkSpan (mkPtok 23 "u64" 58 0 131) (mkPtok 23 "u64" 58 0 131)) (mkPtok 23 "u64" 58 0 131))) (mkPtok 42 "u128" 58 4 132) (Some (mkPtok 43 (string_of_bytes [96; 230; 182; 136; 230; 129; 175; 231; 177; 187; 229; 158; 139; 96]%N) 58 8 133)) (mkPtok 40 "," 58 15 134))))] (mkPtok 3 "}" 58 17 135)))])).
Eval vm_compute in ("<<<M633>>>" ++ check (runes_of_ascii "packet calculatedFrom
{ }
    MetaData Z9_{
int8 Packet `100% of %d`
    ,
    }
    MetaData T {
i8i8
    u128 `crlf
line`
    ,
zchar[ 10
] asx `u8 x,` , }")).
Eval vm_compute in ("<<<M665>>>" ++ check (runes_of_ascii "
MetaData float  {int16 options1 , int8 u128
    `{ , }`, }")).
Eval vm_compute in ("<<<M697>>>" ++ check (runes_of_ascii "options { Foo
=zchar[ 42 ]	;
uint8x= i32 ;
_x= '\x00' // a // b
metadata=u32 ;// " ++ [27880; 37322]%N ++ runes_of_ascii "
}
")).
Eval vm_compute in ("<<<M729>>>" ++ check (@nil rune)).
Eval vm_compute in ("<<<M761>>>" ++ check (runes_of_ascii "packet falsey{ u16 // " ++ [128512]%N ++ runes_of_ascii " emoji
float
// trailing space 
//x
, string body@lengthOf( stringy
    ) `u8 x,` ,// " ++ [27880; 37322]%N ++ runes_of_ascii "
@calculatedFrom( ""a\""b""
//
//
)	MetaDataX @calculatedFrom( ""CRC32"" ) `it's` , @rightPad ( '0'
) @leftPad ( '0' )@lengthOf( Foo )i8i8  calculatedFrom , //
}
    //	t
    options
{  x_y_z
    //
    = '0'	; } packet string_ { @rightPad
(
'0' )
    repeat i8 // 50% %s
leftPad ,leftPad roots , zchar[ 7 //
] charz @calculatedFrom( ""1"" ) ,
match
Header as	leftPad { 10 :
    falsey ,
4294967296  : stringy 3: o[ 7 ,
4294967296 , 007 , ""`tick`"" , 0123456789// 50% %s
, 0123456789
/// triple
//x
,""1""
,""a\""b""
] : rootA // " ++ [128512]%N ++ runes_of_ascii " emoji
,""a\""b"" : MetaDataX
    , },	int16 u8x
@calculatedFrom(	""" ++ [233]%N ++ runes_of_ascii "t" ++ [233]%N ++ runes_of_ascii """ ) ,
char
//x
// " ++ [27880; 37322]%N ++ runes_of_ascii "
leftPad , zchar[
0123456789
] Packet  @calculatedFrom(	""\" ++ [233]%N ++ runes_of_ascii """) , f32a x	, // a // b
string i8i8  @lengthOf( len
    ) ,
    } MetaData // " ++ [128512]%N ++ runes_of_ascii " emoji
msg_type { len trueish, i16 msg_type`it's`, char[] falsey`` ,
    // trailing space 
    string
tag , }	packet trueish  { int32 Packet@lengthOf(
    chars ) `doc` , i8i8 { repeat //
packetx uint8x
    ,repeat uint64// 50% %s
Header `say ""hi""`, } , @calculatedFrom( ""packet""
) tag
    // 50% %s
    ,
    @lengthOf( rootA  )
@lengthOf(
trueish ) match	trueish
as options1 { 42
    : matchKey  ,} , i64 u8x
    ,@rightPad// packet A { u8 x, }
(
' ' ) char[	3 ] MetaDataX
@calculatedFrom(""" ++ [28040; 24687]%N ++ runes_of_ascii """ )
    , @lengthOf( len	)@tag( 10 )char[] As @lengthOf( Header
)
    // @lengthOf(
    `` ,@tag( 42	) Logon { repeat u32 a1, stringy @calculatedFrom(""" ++ [233]%N ++ runes_of_ascii "t" ++ [233]%N ++ runes_of_ascii """	) ,
repeat len, }
//x
// @lengthOf(
,
    u128 // trailing space 
u128  , }")).
Eval vm_compute in ("<<<M793>>>" ++ check (runes_of_ascii "packet As {}root packet f32a { }
")).
Eval vm_compute in ("<<<M825>>>" ++ check (runes_of_ascii "options { charz =
    false
    ; uint8x =	'0'
    ; } // " ++ [27880; 37322]%N)).
Eval vm_compute in ("<<<T825>>>" ++ terms [mkTok 1 "options" 1 0 false; mkTok 2 "{" 1 8 false; mkTok 42 "charz" 1 10 false; mkTok 4 "=" 1 16 false; mkTok 11 "false" 2 4 false; mkTok 41 ";" 3 4 false; mkTok 42 "uint8x" 3 6 false; mkTok 4 "=" 3 13 false; mkTok 33 "'0'" 3 15 false; mkTok 41 ";" 4 4 false; mkTok 3 "}" 4 6 false; mkTok 44 (string_of_bytes [47; 47; 32; 230; 179; 168; 233; 135; 138]%N) 4 8 true; mkTok 0 "<EOF>" 4 13 false] (mkPacket (mkPtok 1 "options" 1 0 0) (Some (mkPtok 3 "}" 4 6 10)) [(DOption (mkOptionDef (mkSpan (mkPtok 1 "options" 1 0 0) (mkPtok 3 "}" 4 6 10)) (mkPtok 1 "options" 1 0 0) (mkPtok 2 "{" 1 8 1) [(mkOptionDecl (mkSpan (mkPtok 42 "charz" 1 10 2) (mkPtok 41 ";" 3 4 5)) (mkPtok 42 "charz" 1 10 2) (mkPtok 4 "=" 1 16 3) (VFalse (mkSpan (mkPtok 11 "false" 2 4 4) (mkPtok 11 "false" 2 4 4)) (mkPtok 11 "false" 2 4 4)) (Some (mkPtok 41 ";" 3 4 5))); (mkOptionDecl (mkSpan (mkPtok 42 "uint8x" 3 6 6) (mkPtok 41 ";" 4 4 9)) (mkPtok 42 "uint8x" 3 6 6) (mkPtok 4 "=" 3 13 7) (VPaddingChar (mkSpan (mkPtok 33 "'0'" 3 15 8) (mkPtok 33 "'0'" 3 15 8)) (mkPtok 33 "'0'" 3 15 8)) (Some (mkPtok 41 ";" 4 4 9)))] (mkPtok 3 "}" 4 6 10)))])).
Eval vm_compute in ("<<<M857>>>" ++ check (runes_of_ascii "
packet
    options1{ zchar[ 255] leftPad	,
} packet
    repeatCount { }MetaData	pack
// " ++ [27880; 37322]%N ++ runes_of_ascii "
//x
{
char[ 00]BodyLength , zchar[//	t
0123456789
    ] metadata, zchar[ 65535 ] rootA
`a\`,
uint32 msg_type
, Foo f32a , }")).
Eval vm_compute in ("<<<M889>>>" ++ check (runes_of_ascii "root
packet repeatCount
{string chars
    // `tick` ""quote"" 'q'
    , } options	{ matchKey =	""a	b"";}root
packet repeatCount{ @tag( 0 ) char[ 00 ] T  `" ++ [233]%N ++ runes_of_ascii "` ,
x @lengthOf(
chars )
, @tag(
// a // b
// " ++ [27880; 37322]%N ++ runes_of_ascii "
007)A @calculatedFrom( ""{,}"" ) `line1
line2` , // @lengthOf(
@tag( 65535//
)
u,@lengthOf( f32a
)
char[]
    A `{ , }` , i64 u@lengthOf(
zchar
    //x
    ) , lengthOf {
string	chars
@lengthOf( Foo )
    `100% of %d`,
repeat
i8i8{
    rootA
    len	`crlf
line` , T  @lengthOf(
T
) ,// @lengthOf(
} , string msg_type @calculatedFrom(
""a	b"" ) , } ,	x_y_z{  char[] uint8x @calculatedFrom(""a\""b""	)  `it's` , x_y_z @lengthOf(
lengthOf	) , match
    //	t
    chars	as  Packet	{[""1"", 007
] :
    Header,
    255 :MetaDataX // " ++ [128512]%N ++ runes_of_ascii " emoji
,
    007
: pack , ""abc"" : As //	t
, } ,zchar[3]
tag
    @calculatedFrom(
    ""// no comment"" ) `two words` // a // b
,},}
")).
Eval vm_compute in ("<<<M921>>>" ++ check (runes_of_ascii "packet chars {	@calculatedFrom(
""// no comment"" )	Logon @lengthOf( //x
rootA )	, match
    // @lengthOf(
    T as
    calculatedFrom
{[ 0
]:
    metadata ,	}
, @lengthOf( // 50% %s
string_)
//
// packet A { u8 x, }
repeat
    uint8x // c
falsey , @rightPad
(	'\x00') trueish
@calculatedFrom(  """ ++ [28040; 24687]%N ++ runes_of_ascii """
/// triple
// " ++ [128512]%N ++ runes_of_ascii " emoji
)`{ , }`, }
")).
Eval vm_compute in ("<<<M953>>>" ++ check (runes_of_ascii "MetaData body
    //x
    { // c
} packet matchKey
{}
")).
Eval vm_compute in ("<<<M985>>>" ++ check (runes_of_ascii "packet
    // " ++ [128512]%N ++ runes_of_ascii " emoji
    Z9_ // c
{lengthOf{ char[] u128
,
    u32
o , }, } options
    {} MetaData len // c
{ char
//x
/// triple
Logon  ,	repeatCount lengthOf
    // a // b
    ,
Z9_ // `tick` ""quote"" 'q'
o ,  string MetaDataX `say ""hi""` , char[  1 //
]
    calculatedFrom
    `
` , u
//
/// triple
tag,
} //")).
Eval vm_compute in ("<<<M1017>>>" ++ check (runes_of_ascii "
options {metadata = 3 u8x
    =
    false repeatCount=
    i64 ;
Z9_
    = false}")).
Eval vm_compute in ("<<<M1049>>>" ++ check (runes_of_ascii "
packet Pad  {
    }packet packetx{ //x
repeatCount	, // packet A { u8 x, }
@leftPad
(
'\x00' ) tag	@lengthOf( u128 ) ,MetaDataX	@calculatedFrom( // a // b
""\" ++ [233]%N ++ runes_of_ascii """
    ) `tab	here`, // a // b
uint16 body
@calculatedFrom( ""abc"") `say ""hi""` , // trailing space 
}
    packet // packet A { u8 x, }
x{ u16 a1  `crlf
line` , }root packet Z9_ {
    @calculatedFrom(""CRC32"" ) repeat
string pack
`say ""hi""` ,
repeat
zchar[ 3] charz , //	t
i16 f32a @calculatedFrom(""{,}""
    )
, } packet
len {@lengthOf(//
crc ) zchar[ 00
//x
// packet A { u8 x, }
] f32a @calculatedFrom( ""it's"" // packet A { u8 x, }
)
, // " ++ [128512]%N ++ runes_of_ascii " emoji
} 	 ")).
Eval vm_compute in ("<<<T1049>>>" ++ terms [mkTok 35 "packet" 2 0 false; mkTok 42 "Pad" 2 7 false; mkTok 2 "{" 2 12 false; mkTok 3 "}" 3 4 false; mkTok 35 "packet" 3 5 false; mkTok 42 "packetx" 3 12 false; mkTok 2 "{" 3 19 false; mkTok 44 "//x" 3 21 true; mkTok 42 "repeatCount" 4 0 false; mkTok 40 "," 4 12 false; mkTok 44 "// packet A { u8 x, }" 4 14 true; mkTok 32 "@leftPad" 5 0 false; mkTok 8 "(" 6 0 false; mkTok 33 "'\x00'" 7 0 false; mkTok 6 ")" 7 7 false; mkTok 42 "tag" 7 9 false; mkTok 7 "@lengthOf(" 7 13 false; mkTok 42 "u128" 7 24 false; mkTok 6 ")" 7 29 false; mkTok 40 "," 7 31 false; mkTok 42 "MetaDataX" 7 32 false; mkTok 5 "@calculatedFrom(" 7 42 false; mkTok 44 "// a // b" 7 59 true; mkTok 31 (string_of_bytes [34; 92; 195; 169; 34]%N) 8 0 false; mkTok 6 ")" 9 4 false; mkTok 43 (string_of_bytes [96; 116; 97; 98; 9; 104; 101; 114; 101; 96]%N) 9 6 false; mkTok 40 "," 9 16 false; mkTok 44 "// a // b" 9 18 true; mkTok 21 "uint16" 10 0 false; mkTok 42 "body" 10 7 false; mkTok 5 "@calculatedFrom(" 11 0 false; mkTok 31 """abc""" 11 17 false; mkTok 6 ")" 11 22 false; mkTok 43 "`say ""hi""`" 11 24 false; mkTok 40 "," 11 35 false; mkTok 44 "// trailing space " 11 37 true; mkTok 3 "}" 12 0 false; mkTok 35 "packet" 13 4 false; mkTok 44 "// packet A { u8 x, }" 13 11 true; mkTok 42 "x" 14 0 false; mkTok 2 "{" 14 1 false; mkTok 21 "u16" 14 3 false; mkTok 42 "a1" 14 7 false; mkTok 43 (string_of_bytes [96; 99; 114; 108; 102; 13; 10; 108; 105; 110; 101; 96]%N) 14 11 false; mkTok 40 "," 15 6 false; mkTok 3 "}" 15 8 false; mkTok 34 "root" 15 9 false; mkTok 35 "packet" 15 14 false; mkTok 42 "Z9_" 15 21 false; mkTok 2 "{" 15 25 false; mkTok 5 "@calculatedFrom(" 16 4 false; mkTok 31 """CRC32""" 16 20 false; mkTok 6 ")" 16 28 false; mkTok 36 "repeat" 16 30 false; mkTok 15 "string" 17 0 false; mkTok 42 "pack" 17 7 false; mkTok 43 "`say ""hi""`" 18 0 false; mkTok 40 "," 18 11 false; mkTok 36 "repeat" 19 0 false; mkTok 14 "zchar[" 20 0 false; mkTok 30 "3" 20 7 false; mkTok 13 "]" 20 8 false; mkTok 42 "charz" 20 10 false; mkTok 40 "," 20 16 false; mkTok 44 (string_of_bytes [47; 47; 9; 116]%N) 20 18 true; mkTok 25 "i16" 21 0 false; mkTok 42 "f32a" 21 4 false; mkTok 5 "@calculatedFrom(" 21 9 false; mkTok 31 """{,}""" 21 25 false; mkTok 6 ")" 22 4 false; mkTok 40 "," 23 0 false; mkTok 3 "}" 23 2 false; mkTok 35 "packet" 23 4 false; mkTok 42 "len" 24 0 false; mkTok 2 "{" 24 4 false; mkTok 7 "@lengthOf(" 24 5 false; mkTok 44 "//" 24 15 true; mkTok 42 "crc" 25 0 false; mkTok 6 ")" 25 4 false; mkTok 14 "zchar[" 25 6 false; mkTok 30 "00" 25 13 false; mkTok 44 "//x" 26 0 true; mkTok 44 "// packet A { u8 x, }" 27 0 true; mkTok 13 "]" 28 0 false; mkTok 42 "f32a" 28 2 false; mkTok 5 "@calculatedFrom(" 28 7 false; mkTok 31 """it's""" 28 24 false; mkTok 44 "// packet A { u8 x, }" 28 31 true; mkTok 6 ")" 29 0 false; mkTok 40 "," 30 0 false; mkTok 44 (string_of_bytes [47; 47; 32; 240; 159; 152; 128; 32; 101; 109; 111; 106; 105]%N) 30 2 true; mkTok 3 "}" 31 0 false; mkTok 0 "<EOF>" 31 4 false] (mkPacket (mkPtok 35 "packet" 2 0 0) (Some (mkPtok 3 "}" 31 0 91)) [(DPacket (mkPacketDef (mkSpan (mkPtok 35 "packet" 2 0 0) (mkPtok 3 "}" 3 4 3)) None (mkPtok 35 "packet" 2 0 0) (mkPtok 42 "Pad" 2 7 1) (mkPtok 2 "{" 2 12 2) [] (mkPtok 3 "}" 3 4 3))); (DPacket (mkPacketDef (mkSpan (mkPtok 35 "packet" 3 5 4) (mkPtok 3 "}" 12 0 36)) None (mkPtok 35 "packet" 3 5 4) (mkPtok 42 "packetx" 3 12 5) (mkPtok 2 "{" 3 19 6) [(mkFieldWithAttr (mkSpan (mkPtok 42 "repeatCount" 4 0 8) (mkPtok 40 "," 4 12 9)) [] (ObjectField (mkSpan (mkPtok 42 "repeatCount" 4 0 8) (mkPtok 40 "," 4 12 9)) None (mkPtok 42 "repeatCount" 4 0 8) None None (mkPtok 40 "," 4 12 9))); (mkFieldWithAttr (mkSpan (mkPtok 32 "@leftPad" 5 0 11) (mkPtok 40 "," 7 31 19)) [(FAPadding (mkSpan (mkPtok 32 "@leftPad" 5 0 11) (mkPtok 6 ")" 7 7 14)) (mkPaddingAttr (mkSpan (mkPtok 32 "@leftPad" 5 0 11) (mkPtok 6 ")" 7 7 14)) (mkPtok 32 "@leftPad" 5 0 11) (mkPtok 8 "(" 6 0 12) (Some (mkPtok 33 "'\x00'" 7 0 13)) (mkPtok 6 ")" 7 7 14)))] (LengthField (mkSpan (mkPtok 42 "tag" 7 9 15) (mkPtok 40 "," 7 31 19)) (mkLengthFieldDecl (mkSpan (mkPtok 42 "tag" 7 9 15) (mkPtok 40 "," 7 31 19)) None (mkPtok 42 "tag" 7 9 15) (mkLengthOf (mkSpan (mkPtok 7 "@lengthOf(" 7 13 16) (mkPtok 6 ")" 7 29 18)) (mkPtok 7 "@lengthOf(" 7 13 16) (mkPtok 42 "u128" 7 24 17) (mkPtok 6 ")" 7 29 18)) None (mkPtok 40 "," 7 31 19)))); (mkFieldWithAttr (mkSpan (mkPtok 42 "MetaDataX" 7 32 20) (mkPtok 40 "," 9 16 26)) [] (CheckSumField (mkSpan (mkPtok 42 "MetaDataX" 7 32 20) (mkPtok 40 "," 9 16 26)) (mkChecksumFieldDecl (mkSpan (mkPtok 42 "MetaDataX" 7 32 20) (mkPtok 40 "," 9 16 26)) None (mkPtok 42 "MetaDataX" 7 32 20) (mkCalculatedFrom (mkSpan (mkPtok 5 "@calculatedFrom(" 7 42 21) (mkPtok 6 ")" 9 4 24)) (mkPtok 5 "@calculatedFrom(" 7 42 21) (mkPtok 31 (string_of_bytes [34; 92; 195; 169; 34]%N) 8 0 23) (mkPtok 6 ")" 9 4 24)) (Some (mkPtok 43 (string_of_bytes [96; 116; 97; 98; 9; 104; 101; 114; 101; 96]%N) 9 6 25)) (mkPtok 40 "," 9 16 26)))); (mkFieldWithAttr (mkSpan (mkPtok 21 "uint16" 10 0 28) (mkPtok 40 "," 11 35 34)) [] (CheckSumField (mkSpan (mkPtok 21 "uint16" 10 0 28) (mkPtok 40 "," 11 35 34)) (mkChecksumFieldDecl (mkSpan (mkPtok 21 "uint16" 10 0 28) (mkPtok 40 "," 11 35 34)) (Some (TyBasic (mkSpan (mkPtok 21 "uint16" 10 0 28) (mkPtok 21 "uint16" 10 0 28)) (mkBasicType (mkSpan (mkPtok 21 "uint16" 10 0 28) (mkPtok 21 "uint16" 10 0 28)) (mkPtok 21 "uint16" 10 0 28)))) (mkPtok 42 "body" 10 7 29) (mkCalculatedFrom (mkSpan (mkPtok 5 "@calculatedFrom(" 11 0 30) (mkPtok 6 ")" 11 22 32)) (mkPtok 5 "@calculatedFrom(" 11 0 30) (mkPtok 31 """abc""" 11 17 31) (mkPtok 6 ")" 11 22 32)) (Some (mkPtok 43 "`say ""hi""`" 11 24 33)) (mkPtok 40 "," 11 35 34))))] (mkPtok 3 "}" 12 0 36))); (DPacket (mkPacketDef (mkSpan (mkPtok 35 "packet" 13 4 37) (mkPtok 3 "}" 15 8 45)) None (mkPtok 35 "packet" 13 4 37) (mkPtok 42 "x" 14 0 39) (mkPtok 2 "{" 14 1 40) [(mkFieldWithAttr (mkSpan (mkPtok 21 "u16" 14 3 41) (mkPtok 40 "," 15 6 44)) [] (MetaField (mkSpan (mkPtok 21 "u16" 14 3 41) (mkPtok 40 "," 15 6 44)) None (mkMetaDecl (mkSpan (mkPtok 21 "u16" 14 3 41) (mkPtok 40 "," 15 6 44)) (TyBasic (mkSpan (mkPtok 21 "u16" 14 3 41) (mkPtok 21 "u16" 14 3 41)) (mkBasicType (mkSpan (mkPtok 21 "u16" 14 3 41) (mkPtok 21 "u16" 14 3 41)) (mkPtok 21 "u16" 14 3 41))) (mkPtok 42 "a1" 14 7 42) (Some (mkPtok 43 (string_of_bytes [96; 99; 114; 108; 102; 13; 10; 108; 105; 110; 101; 96]%N) 14 11 43)) (mkPtok 40 "," 15 6 44))))] (mkPtok 3 "}" 15 8 45))); (DPacket (mkPacketDef (mkSpan (mkPtok 34 "root" 15 9 46) (mkPtok 3 "}" 23 2 71)) (Some (mkPtok 34 "root" 15 9 46)) (mkPtok 35 "packet" 15 14 47) (mkPtok 42 "Z9_" 15 21 48) (mkPtok 2 "{" 15 25 49) [(mkFieldWithAttr (mkSpan (mkPtok 5 "@calculatedFrom(" 16 4 50) (mkPtok 40 "," 18 11 57)) [(FACalculatedFrom (mkSpan (mkPtok 5 "@calculatedFrom(" 16 4 50) (mkPtok 6 ")" 16 28 52)) (mkCalculatedFrom (mkSpan (mkPtok 5 "@calculatedFrom(" 16 4 50) (mkPtok 6 ")" 16 28 52)) (mkPtok 5 "@calculatedFrom(" 16 4 50) (mkPtok 31 """CRC32""" 16 20 51) (mkPtok 6 ")" 16 28 52)))] (MetaField (mkSpan (mkPtok 36 "repeat" 16 30 53) (mkPtok 40 "," 18 11 57)) (Some (mkPtok 36 "repeat" 16 30 53)) (mkMetaDecl (mkSpan (mkPtok 15 "string" 17 0 54) (mkPtok 40 "," 18 11 57)) (TyDynamic (mkSpan (mkPtok 15 "string" 17 0 54) (mkPtok 15 "string" 17 0 54)) (mkDynamicString (mkSpan (mkPtok 15 "string" 17 0 54) (mkPtok 15 "string" 17 0 54)) (mkPtok 15 "string" 17 0 54))) (mkPtok 42 "pack" 17 7 55) (Some (mkPtok 43 "`say ""hi""`" 18 0 56)) (mkPtok 40 "," 18 11 57)))); (mkFieldWithAttr (mkSpan (mkPtok 36 "repeat" 19 0 58) (mkPtok 40 "," 20 16 63)) [] (MetaField (mkSpan (mkPtok 36 "repeat" 19 0 58) (mkPtok 40 "," 20 16 63)) (Some (mkPtok 36 "repeat" 19 0 58)) (mkMetaDecl (mkSpan (mkPtok 14 "zchar[" 20 0 59) (mkPtok 40 "," 20 16 63)) (TyFixed (mkSpan (mkPtok 14 "zchar[" 20 0 59) (mkPtok 13 "]" 20 8 61)) (mkFixedString (mkSpan (mkPtok 14 "zchar[" 20 0 59) (mkPtok 13 "]" 20 8 61)) (mkPtok 14 "zchar[" 20 0 59) (mkPtok 30 "3" 20 7 60) (mkPtok 13 "]" 20 8 61))) (mkPtok 42 "charz" 20 10 62) None (mkPtok 40 "," 20 16 63)))); (mkFieldWithAttr (mkSpan (mkPtok 25 "i16" 21 0 65) (mkPtok 40 "," 23 0 70)) [] (CheckSumField (mkSpan (mkPtok 25 "i16" 21 0 65) (mkPtok 40 "," 23 0 70)) (mkChecksumFieldDecl (mkSpan (mkPtok 25 "i16" 21 0 65) (mkPtok 40 "," 23 0 70)) (Some (TyBasic (mkSpan (mkPtok 25 "i16" 21 0 65) (mkPtok 25 "i16" 21 0 65)) (mkBasicType (mkSpan (mkPtok 25 "i16" 21 0 65) (mkPtok 25 "i16" 21 0 65)) (mkPtok 25 "i16" 21 0 65)))) (mkPtok 42 "f32a" 21 4 66) (mkCalculatedFrom (mkSpan (mkPtok 5 "@calculatedFrom(" 21 9 67) (mkPtok 6 ")" 22 4 69)) (mkPtok 5 "@calculatedFrom(" 21 9 67) (mkPtok 31 """{,}""" 21 25 68) (mkPtok 6 ")" 22 4 69)) None (mkPtok 40 "," 23 0 70))))] (mkPtok 3 "}" 23 2 71))); (DPacket (mkPacketDef (mkSpan (mkPtok 35 "packet" 23 4 72) (mkPtok 3 "}" 31 0 91)) None (mkPtok 35 "packet" 23 4 72) (mkPtok 42 "len" 24 0 73) (mkPtok 2 "{" 24 4 74) [(mkFieldWithAttr (mkSpan (mkPtok 7 "@lengthOf(" 24 5 75) (mkPtok 40 "," 30 0 89)) [(FALengthOf (mkSpan (mkPtok 7 "@lengthOf(" 24 5 75) (mkPtok 6 ")" 25 4 78)) (mkLengthOf (mkSpan (mkPtok 7 "@lengthOf(" 24 5 75) (mkPtok 6 ")" 25 4 78)) (mkPtok 7 "@lengthOf(" 24 5 75) (mkPtok 42 "crc" 25 0 77) (mkPtok 6 ")" 25 4 78)))] (CheckSumField (mkSpan (mkPtok 14 "zchar[" 25 6 79) (mkPtok 40 "," 30 0 89)) (mkChecksumFieldDecl (mkSpan (mkPtok 14 "zchar[" 25 6 79) (mkPtok 40 "," 30 0 89)) (Some (TyFixed (mkSpan (mkPtok 14 "zchar[" 25 6 79) (mkPtok 13 "]" 28 0 83)) (mkFixedString (mkSpan (mkPtok 14 "zchar[" 25 6 79) (mkPtok 13 "]" 28 0 83)) (mkPtok 14 "zchar[" 25 6 79) (mkPtok 30 "00" 25 13 80) (mkPtok 13 "]" 28 0 83)))) (mkPtok 42 "f32a" 28 2 84) (mkCalculatedFrom (mkSpan (mkPtok 5 "@calculatedFrom(" 28 7 85) (mkPtok 6 ")" 29 0 88)) (mkPtok 5 "@calculatedFrom(" 28 7 85) (mkPtok 31 """it's""" 28 24 86) (mkPtok 6 ")" 29 0 88)) None (mkPtok 40 "," 30 0 89))))] (mkPtok 3 "}" 31 0 91)))])).
Eval vm_compute in ("<<<M1081>>>" ++ check (runes_of_ascii "// " ++ [27880; 37322]%N ++ runes_of_ascii "
root
packet trueish
{leftPad //x
x, stringy//
@lengthOf( leftPad )`a\`
    ,	@calculatedFrom( ""a	b"" ) As float , zchar[
7 ] Logon@lengthOf(
    u)
    `" ++ [28040; 24687; 31867; 22411]%N ++ runes_of_ascii "`
, @calculatedFrom( ""\n"")
    repeat Packet ,//x
match A as
i8i8 { 10: int
,[
//x
//
00 ,	4294967296 ,
//x
//	t
""1"" // trailing space 
, 007 ]
: asx
10
:u128  ,
},} options
    {
    u128
=//	t
'\x00'
}")).
Eval vm_compute in ("<<<M1113>>>" ++ check (runes_of_ascii "options {
string_= ' ' Header
=
    // c
    i8
;msg_type =
zchar[ 00// trailing space 
]
; float = true string_ = '\x00' ;
}
    MetaData zchar //x
{ zchar chars ,
} // `tick` ""quote"" 'q'")).
Eval vm_compute in ("<<<M1145>>>" ++ check (runes_of_ascii "packet A {
// trailing space 
// @lengthOf(
@rightPad ( )float64 crc
    @lengthOf( //
packetx )
    ,
@tag(
4294967296 )
char[	255 ]	f32a @calculatedFrom(""" ++ [28040; 24687]%N ++ runes_of_ascii """
)// @lengthOf(
``
,
packetx	{
repeat
    chars {
repeat	zchar[
3 ]charz, // @lengthOf(
char[ // 50% %s
007
]	falsey `u8 x,` , }, metadata `{ , }` , T{ char[]	uint8x
,
uint8
    MetaDataX`100% of %d`// c
, _x @calculatedFrom( ""a\\""  ) , }	, },
    // " ++ [27880; 37322]%N ++ runes_of_ascii "
    repeat i16 metadata `u8 x,`
    , u8
stringy
    @calculatedFrom(
    """ ++ [233]%N ++ runes_of_ascii "t" ++ [233]%N ++ runes_of_ascii """
    ) , string u128	@lengthOf(x_y_z  ) `doc`
    ,}")).
Eval vm_compute in ("<<<M1177>>>" ++ check (runes_of_ascii "
packet  stringy {
}
")).
Eval vm_compute in ("<<<M1209>>>" ++ check (runes_of_ascii "
 //")).
Eval vm_compute in ("<<<M1241>>>" ++ check (runes_of_ascii "  MetaData asx	{	char[
1]
    a1  ,
zchar[
0	]  msg_type //x
`it's`
    ,
    } packet a1
// packet A { u8 x, }
/// triple
{ @lengthOf(
options1) charz
{repeat matchKey  { i32 Logon `doc`  , string
options1
,falsey ,
    match
u128 as u{42: calculatedFrom // " ++ [27880; 37322]%N ++ runes_of_ascii "
, [ """"
, 0
    // `tick` ""quote"" 'q'
    , ""x y""
, //x
""1"" ,  4294967296 ]
/// triple
// trailing space 
: f32a
    , 0123456789
: metadata , }
,
    }
    // 50% %s
    , float32 /// triple
matchKey
@lengthOf(tag	)`it's`
,  }
    , @lengthOf( T ) @lengthOf(
    // c
    pack ) @lengthOf( options1
    ) match u8x
    // trailing space 
    as Packet
    {4294967296:BodyLength,} ,i8 metadata @lengthOf( msg_type	) `" ++ [233]%N ++ runes_of_ascii "`	, char[] lengthOf ,
string float ,
    x @calculatedFrom( ""\n""//x
) `
`  ,	rootA // a // b
{
    // a // b
    repeat i64_
    x_y_z	`{ , }`
    ,repeat uint8 packetx , },  @tag( 10 )@lengthOf( u128) match leftPad as MetaDataX
    // a // b
    { [
""a	b"", 0123456789 , ""x y""] :lengthOf ,
    """" :
u // @lengthOf(
3: lengthOf
    ,255 :// a // b
u8x ""packet"" :  metadata
/// triple
// " ++ [128512]%N ++ runes_of_ascii " emoji
,	""a\\""
:stringy } , @tag(1 ) @tag(
    3	) @leftPad ( ' '// c
)char[]
x, }")).
Eval vm_compute in ("<<<M1273>>>" ++ check (runes_of_ascii "packet i64_ {
    @calculatedFrom( """ ++ [128512]%N ++ runes_of_ascii """ ) leftPad
, }
packet
As
    {@rightPad ( ' '
    ) repeat	int o `say ""hi""` // " ++ [128512]%N ++ runes_of_ascii " emoji
, metadata{match crc as matchKey { [""CRC32"" ,	""// no comment"" , ""CRC32"" , 65535 ]
:
// " ++ [128512]%N ++ runes_of_ascii " emoji
// " ++ [128512]%N ++ runes_of_ascii " emoji
zchar 3
:
// " ++ [27880; 37322]%N ++ runes_of_ascii "
// `tick` ""quote"" 'q'
i64_ , }
    //
    , repeat
    stringy ,  } ,
@calculatedFrom( ""\" ++ [233]%N ++ runes_of_ascii """// 50% %s
) _x crc , i64_@calculatedFrom( ""// no comment"")
    // a // b
    ,
@rightPad (	' ' )i8
    float @lengthOf( tag ), @tag(
// " ++ [27880; 37322]%N ++ runes_of_ascii "
//x
255 ) match // trailing space 
rootA as
A { ""`tick`"" : asx ,
} ,
tag
    // " ++ [27880; 37322]%N ++ runes_of_ascii "
    { // a // b
zchar[
10
] asx , // trailing space 
} ,	Header {A @lengthOf(
len ) ,
string_ @lengthOf(Logon
)`tab	here` ,
i64_, } ,
    } options
    {matchKey =""1"" ; }
options { }
")).
Eval vm_compute in ("<<<T1273>>>" ++ terms [mkTok 35 "packet" 1 0 false; mkTok 42 "i64_" 1 7 false; mkTok 2 "{" 1 12 false; mkTok 5 "@calculatedFrom(" 2 4 false; mkTok 31 (string_of_bytes [34; 240; 159; 152; 128; 34]%N) 2 21 false; mkTok 6 ")" 2 25 false; mkTok 42 "leftPad" 2 27 false; mkTok 40 "," 3 0 false; mkTok 3 "}" 3 2 false; mkTok 35 "packet" 4 0 false; mkTok 42 "As" 5 0 false; mkTok 2 "{" 6 4 false; mkTok 32 "@rightPad" 6 5 false; mkTok 8 "(" 6 15 false; mkTok 33 "' '" 6 17 false; mkTok 6 ")" 7 4 false; mkTok 36 "repeat" 7 6 false; mkTok 42 "int" 7 13 false; mkTok 42 "o" 7 17 false; mkTok 43 "`say ""hi""`" 7 19 false; mkTok 44 (string_of_bytes [47; 47; 32; 240; 159; 152; 128; 32; 101; 109; 111; 106; 105]%N) 7 30 true; mkTok 40 "," 8 0 false; mkTok 42 "metadata" 8 2 false; mkTok 2 "{" 8 10 false; mkTok 38 "match" 8 11 false; mkTok 42 "crc" 8 17 false; mkTok 17 "as" 8 21 false; mkTok 42 "matchKey" 8 24 false; mkTok 2 "{" 8 33 false; mkTok 18 "[" 8 35 false; mkTok 31 """CRC32""" 8 36 false; mkTok 40 "," 8 44 false; mkTok 31 """// no comment""" 8 46 false; mkTok 40 "," 8 62 false; mkTok 31 """CRC32""" 8 64 false; mkTok 40 "," 8 72 false; mkTok 30 "65535" 8 74 false; mkTok 13 "]" 8 80 false; mkTok 39 ":" 9 0 false; mkTok 44 (string_of_bytes [47; 47; 32; 240; 159; 152; 128; 32; 101; 109; 111; 106; 105]%N) 10 0 true; mkTok 44 (string_of_bytes [47; 47; 32; 240; 159; 152; 128; 32; 101; 109; 111; 106; 105]%N) 11 0 true; mkTok 42 "zchar" 12 0 false; mkTok 30 "3" 12 6 false; mkTok 39 ":" 13 0 false; mkTok 44 (string_of_bytes [47; 47; 32; 230; 179; 168; 233; 135; 138]%N) 14 0 true; mkTok 44 "// `tick` ""quote"" 'q'" 15 0 true; mkTok 42 "i64_" 16 0 false; mkTok 40 "," 16 5 false; mkTok 3 "}" 16 7 false; mkTok 44 "//" 17 4 true; mkTok 40 "," 18 4 false; mkTok 36 "repeat" 18 6 false; mkTok 42 "stringy" 19 4 false; mkTok 40 "," 19 12 false; mkTok 3 "}" 19 15 false; mkTok 40 "," 19 17 false; mkTok 5 "@calculatedFrom(" 20 0 false; mkTok 31 (string_of_bytes [34; 92; 195; 169; 34]%N) 20 17 false; mkTok 44 "// 50% %s" 20 21 true; mkTok 6 ")" 21 0 false; mkTok 42 "_x" 21 2 false; mkTok 42 "crc" 21 5 false; mkTok 40 "," 21 9 false; mkTok 42 "i64_" 21 11 false; mkTok 5 "@calculatedFrom(" 21 15 false; mkTok 31 """// no comment""" 21 32 false; mkTok 6 ")" 21 47 false; mkTok 44 "// a // b" 22 4 true; mkTok 40 "," 23 4 false; mkTok 32 "@rightPad" 24 0 false; mkTok 8 "(" 24 10 false; mkTok 33 "' '" 24 12 false; mkTok 6 ")" 24 16 false; mkTok 24 "i8" 24 17 false; mkTok 42 "float" 25 4 false; mkTok 7 "@lengthOf(" 25 10 false; mkTok 42 "tag" 25 21 false; mkTok 6 ")" 25 25 false; mkTok 40 "," 25 26 false; mkTok 9 "@tag(" 25 28 false; mkTok 44 (string_of_bytes [47; 47; 32; 230; 179; 168; 233; 135; 138]%N) 26 0 true; mkTok 44 "//x" 27 0 true; mkTok 30 "255" 28 0 false; mkTok 6 ")" 28 4 false; mkTok 38 "match" 28 6 false; mkTok 44 "// trailing space " 28 12 true; mkTok 42 "rootA" 29 0 false; mkTok 17 "as" 29 6 false; mkTok 42 "A" 30 0 false; mkTok 2 "{" 30 2 false; mkTok 31 """`tick`""" 30 4 false; mkTok 39 ":" 30 13 false; mkTok 42 "asx" 30 15 false; mkTok 40 "," 30 19 false; mkTok 3 "}" 31 0 false; mkTok 40 "," 31 2 false; mkTok 42 "tag" 32 0 false; mkTok 44 (string_of_bytes [47; 47; 32; 230; 179; 168; 233; 135; 138]%N) 33 4 true; mkTok 2 "{" 34 4 false; mkTok 44 "// a // b" 34 6 true; mkTok 14 "zchar[" 35 0 false; mkTok 30 "10" 36 0 false; mkTok 13 "]" 37 0 false; mkTok 42 "asx" 37 2 false; mkTok 40 "," 37 6 false; mkTok 44 "// trailing space " 37 8 true; mkTok 3 "}" 38 0 false; mkTok 40 "," 38 2 false; mkTok 42 "Header" 38 4 false; mkTok 2 "{" 38 11 false; mkTok 42 "A" 38 12 false; mkTok 7 "@lengthOf(" 38 14 false; mkTok 42 "len" 39 0 false; mkTok 6 ")" 39 4 false; mkTok 40 "," 39 6 false; mkTok 42 "string_" 40 0 false; mkTok 7 "@lengthOf(" 40 8 false; mkTok 42 "Logon" 40 18 false; mkTok 6 ")" 41 0 false; mkTok 43 (string_of_bytes [96; 116; 97; 98; 9; 104; 101; 114; 101; 96]%N) 41 1 false; mkTok 40 "," 41 12 false; mkTok 42 "i64_" 42 0 false; mkTok 40 "," 42 4 false; mkTok 3 "}" 42 6 false; mkTok 40 "," 42 8 false; mkTok 3 "}" 43 4 false; mkTok 1 "options" 43 6 false; mkTok 2 "{" 44 4 false; mkTok 42 "matchKey" 44 5 false; mkTok 4 "=" 44 14 false; mkTok 31 """1""" 44 15 false; mkTok 41 ";" 44 19 false; mkTok 3 "}" 44 21 false; mkTok 1 "options" 45 0 false; mkTok 2 "{" 45 8 false; mkTok 3 "}" 45 10 false; mkTok 0 "<EOF>" 46 0 false] (mkPacket (mkPtok 35 "packet" 1 0 0) (Some (mkPtok 3 "}" 45 10 135)) [(DPacket (mkPacketDef (mkSpan (mkPtok 35 "packet" 1 0 0) (mkPtok 3 "}" 3 2 8)) None (mkPtok 35 "packet" 1 0 0) (mkPtok 42 "i64_" 1 7 1) (mkPtok 2 "{" 1 12 2) [(mkFieldWithAttr (mkSpan (mkPtok 5 "@calculatedFrom(" 2 4 3) (mkPtok 40 "," 3 0 7)) [(FACalculatedFrom (mkSpan (mkPtok 5 "@calculatedFrom(" 2 4 3) (mkPtok 6 ")" 2 25 5)) (mkCalculatedFrom (mkSpan (mkPtok 5 "@calculatedFrom(" 2 4 3) (mkPtok 6 ")" 2 25 5)) (mkPtok 5 "@calculatedFrom(" 2 4 3) (mkPtok 31 (string_of_bytes [34; 240; 159; 152; 128; 34]%N) 2 21 4) (mkPtok 6 ")" 2 25 5)))] (ObjectField (mkSpan (mkPtok 42 "leftPad" 2 27 6) (mkPtok 40 "," 3 0 7)) None (mkPtok 42 "leftPad" 2 27 6) None None (mkPtok 40 "," 3 0 7)))] (mkPtok 3 "}" 3 2 8))); (DPacket (mkPacketDef (mkSpan (mkPtok 35 "packet" 4 0 9) (mkPtok 3 "}" 43 4 125)) None (mkPtok 35 "packet" 4 0 9) (mkPtok 42 "As" 5 0 10) (mkPtok 2 "{" 6 4 11) [(mkFieldWithAttr (mkSpan (mkPtok 32 "@rightPad" 6 5 12) (mkPtok 40 "," 8 0 21)) [(FAPadding (mkSpan (mkPtok 32 "@rightPad" 6 5 12) (mkPtok 6 ")" 7 4 15)) (mkPaddingAttr (mkSpan (mkPtok 32 "@rightPad" 6 5 12) (mkPtok 6 ")" 7 4 15)) (mkPtok 32 "@rightPad" 6 5 12) (mkPtok 8 "(" 6 15 13) (Some (mkPtok 33 "' '" 6 17 14)) (mkPtok 6 ")" 7 4 15)))] (ObjectField (mkSpan (mkPtok 36 "repeat" 7 6 16) (mkPtok 40 "," 8 0 21)) (Some (mkPtok 36 "repeat" 7 6 16)) (mkPtok 42 "int" 7 13 17) (Some (mkPtok 42 "o" 7 17 18)) (Some (mkPtok 43 "`say ""hi""`" 7 19 19)) (mkPtok 40 "," 8 0 21))); (mkFieldWithAttr (mkSpan (mkPtok 42 "metadata" 8 2 22) (mkPtok 40 "," 19 17 55)) [] (InerObjectField (mkSpan (mkPtok 42 "metadata" 8 2 22) (mkPtok 40 "," 19 17 55)) None (InerObjectDecl (mkSpan (mkPtok 42 "metadata" 8 2 22) (mkPtok 3 "}" 19 15 54)) (mkPtok 42 "metadata" 8 2 22) (mkPtok 2 "{" 8 10 23) [(MatchField (mkSpan (mkPtok 38 "match" 8 11 24) (mkPtok 40 "," 18 4 50)) (mkMatchFieldDecl (mkSpan (mkPtok 38 "match" 8 11 24) (mkPtok 3 "}" 16 7 48)) (mkPtok 38 "match" 8 11 24) (mkPtok 42 "crc" 8 17 25) (mkPtok 17 "as" 8 21 26) (mkPtok 42 "matchKey" 8 24 27) (mkPtok 2 "{" 8 33 28) [(mkMatchPair (mkSpan (mkPtok 18 "[" 8 35 29) (mkPtok 42 "zchar" 12 0 41)) (MKList (mkKeyList (mkSpan (mkPtok 18 "[" 8 35 29) (mkPtok 13 "]" 8 80 37)) (mkPtok 18 "[" 8 35 29) (mkPtok 31 """CRC32""" 8 36 30) [((mkPtok 40 "," 8 44 31), (mkPtok 31 """// no comment""" 8 46 32)); ((mkPtok 40 "," 8 62 33), (mkPtok 31 """CRC32""" 8 64 34)); ((mkPtok 40 "," 8 72 35), (mkPtok 30 "65535" 8 74 36))] (mkPtok 13 "]" 8 80 37))) (mkPtok 39 ":" 9 0 38) (mkPtok 42 "zchar" 12 0 41) None); (mkMatchPair (mkSpan (mkPtok 30 "3" 12 6 42) (mkPtok 40 "," 16 5 47)) (MKDigits (mkPtok 30 "3" 12 6 42)) (mkPtok 39 ":" 13 0 43) (mkPtok 42 "i64_" 16 0 46) (Some (mkPtok 40 "," 16 5 47)))] (mkPtok 3 "}" 16 7 48)) (mkPtok 40 "," 18 4 50)); (ObjectField (mkSpan (mkPtok 36 "repeat" 18 6 51) (mkPtok 40 "," 19 12 53)) (Some (mkPtok 36 "repeat" 18 6 51)) (mkPtok 42 "stringy" 19 4 52) None None (mkPtok 40 "," 19 12 53))] (mkPtok 3 "}" 19 15 54)) (mkPtok 40 "," 19 17 55))); (mkFieldWithAttr (mkSpan (mkPtok 5 "@calculatedFrom(" 20 0 56) (mkPtok 40 "," 21 9 62)) [(FACalculatedFrom (mkSpan (mkPtok 5 "@calculatedFrom(" 20 0 56) (mkPtok 6 ")" 21 0 59)) (mkCalculatedFrom (mkSpan (mkPtok 5 "@calculatedFrom(" 20 0 56) (mkPtok 6 ")" 21 0 59)) (mkPtok 5 "@calculatedFrom(" 20 0 56) (mkPtok 31 (string_of_bytes [34; 92; 195; 169; 34]%N) 20 17 57) (mkPtok 6 ")" 21 0 59)))] (ObjectField (mkSpan (mkPtok 42 "_x" 21 2 60) (mkPtok 40 "," 21 9 62)) None (mkPtok 42 "_x" 21 2 60) (Some (mkPtok 42 "crc" 21 5 61)) None (mkPtok 40 "," 21 9 62))); (mkFieldWithAttr (mkSpan (mkPtok 42 "i64_" 21 11 63) (mkPtok 40 "," 23 4 68)) [] (CheckSumField (mkSpan (mkPtok 42 "i64_" 21 11 63) (mkPtok 40 "," 23 4 68)) (mkChecksumFieldDecl (mkSpan (mkPtok 42 "i64_" 21 11 63) (mkPtok 40 "," 23 4 68)) None (mkPtok 42 "i64_" 21 11 63) (mkCalculatedFrom (mkSpan (mkPtok 5 "@calculatedFrom(" 21 15 64) (mkPtok 6 ")" 21 47 66)) (mkPtok 5 "@calculatedFrom(" 21 15 64) (mkPtok 31 """// no comment""" 21 32 65) (mkPtok 6 ")" 21 47 66)) None (mkPtok 40 "," 23 4 68)))); (mkFieldWithAttr (mkSpan (mkPtok 32 "@rightPad" 24 0 69) (mkPtok 40 "," 25 26 78)) [(FAPadding (mkSpan (mkPtok 32 "@rightPad" 24 0 69) (mkPtok 6 ")" 24 16 72)) (mkPaddingAttr (mkSpan (mkPtok 32 "@rightPad" 24 0 69) (mkPtok 6 ")" 24 16 72)) (mkPtok 32 "@rightPad" 24 0 69) (mkPtok 8 "(" 24 10 70) (Some (mkPtok 33 "' '" 24 12 71)) (mkPtok 6 ")" 24 16 72)))] (LengthField (mkSpan (mkPtok 24 "i8" 24 17 73) (mkPtok 40 "," 25 26 78)) (mkLengthFieldDecl (mkSpan (mkPtok 24 "i8" 24 17 73) (mkPtok 40 "," 25 26 78)) (Some (TyBasic (mkSpan (mkPtok 24 "i8" 24 17 73) (mkPtok 24 "i8" 24 17 73)) (mkBasicType (mkSpan (mkPtok 24 "i8" 24 17 73) (mkPtok 24 "i8" 24 17 73)) (mkPtok 24 "i8" 24 17 73)))) (mkPtok 42 "float" 25 4 74) (mkLengthOf (mkSpan (mkPtok 7 "@lengthOf(" 25 10 75) (mkPtok 6 ")" 25 25 77)) (mkPtok 7 "@lengthOf(" 25 10 75) (mkPtok 42 "tag" 25 21 76) (mkPtok 6 ")" 25 25 77)) None (mkPtok 40 "," 25 26 78)))); (mkFieldWithAttr (mkSpan (mkPtok 9 "@tag(" 25 28 79) (mkPtok 40 "," 31 2 95)) [(FATag (mkSpan (mkPtok 9 "@tag(" 25 28 79) (mkPtok 6 ")" 28 4 83)) (mkTagAttr (mkSpan (mkPtok 9 "@tag(" 25 28 79) (mkPtok 6 ")" 28 4 83)) (mkPtok 9 "@tag(" 25 28 79) (mkPtok 30 "255" 28 0 82) (mkPtok 6 ")" 28 4 83)))] (MatchField (mkSpan (mkPtok 38 "match" 28 6 84) (mkPtok 40 "," 31 2 95)) (mkMatchFieldDecl (mkSpan (mkPtok 38 "match" 28 6 84) (mkPtok 3 "}" 31 0 94)) (mkPtok 38 "match" 28 6 84) (mkPtok 42 "rootA" 29 0 86) (mkPtok 17 "as" 29 6 87) (mkPtok 42 "A" 30 0 88) (mkPtok 2 "{" 30 2 89) [(mkMatchPair (mkSpan (mkPtok 31 """`tick`""" 30 4 90) (mkPtok 40 "," 30 19 93)) (MKString (mkPtok 31 """`tick`""" 30 4 90)) (mkPtok 39 ":" 30 13 91) (mkPtok 42 "asx" 30 15 92) (Some (mkPtok 40 "," 30 19 93)))] (mkPtok 3 "}" 31 0 94)) (mkPtok 40 "," 31 2 95))); (mkFieldWithAttr (mkSpan (mkPtok 42 "tag" 32 0 96) (mkPtok 40 "," 38 2 107)) [] (InerObjectField (mkSpan (mkPtok 42 "tag" 32 0 96) (mkPtok 40 "," 38 2 107)) None (InerObjectDecl (mkSpan (mkPtok 42 "tag" 32 0 96) (mkPtok 3 "}" 38 0 106)) (mkPtok 42 "tag" 32 0 96) (mkPtok 2 "{" 34 4 98) [(MetaField (mkSpan (mkPtok 14 "zchar[" 35 0 100) (mkPtok 40 "," 37 6 104)) None (mkMetaDecl (mkSpan (mkPtok 14 "zchar[" 35 0 100) (mkPtok 40 "," 37 6 104)) (TyFixed (mkSpan (mkPtok 14 "zchar[" 35 0 100) (mkPtok 13 "]" 37 0 102)) (mkFixedString (mkSpan (mkPtok 14 "zchar[" 35 0 100) (mkPtok 13 "]" 37 0 102)) (mkPtok 14 "zchar[" 35 0 100) (mkPtok 30 "10" 36 0 101) (mkPtok 13 "]" 37 0 102))) (mkPtok 42 "asx" 37 2 103) None (mkPtok 40 "," 37 6 104)))] (mkPtok 3 "}" 38 0 106)) (mkPtok 40 "," 38 2 107))); (mkFieldWithAttr (mkSpan (mkPtok 42 "Header" 38 4 108) (mkPtok 40 "," 42 8 124)) [] (InerObjectField (mkSpan (mkPtok 42 "Header" 38 4 108) (mkPtok 40 "," 42 8 124)) None (InerObjectDecl (mkSpan (mkPtok 42 "Header" 38 4 108) (mkPtok 3 "}" 42 6 123)) (mkPtok 42 "Header" 38 4 108) (mkPtok 2 "{" 38 11 109) [(LengthField (mkSpan (mkPtok 42 "A" 38 12 110) (mkPtok 40 "," 39 6 114)) (mkLengthFieldDecl (mkSpan (mkPtok 42 "A" 38 12 110) (mkPtok 40 "," 39 6 114)) None (mkPtok 42 "A" 38 12 110) (mkLengthOf (mkSpan (mkPtok 7 "@lengthOf(" 38 14 111) (mkPtok 6 ")" 39 4 113)) (mkPtok 7 "@lengthOf(" 38 14 111) (mkPtok 42 "len" 39 0 112) (mkPtok 6 ")" 39 4 113)) None (mkPtok 40 "," 39 6 114))); (LengthField (mkSpan (mkPtok 42 "string_" 40 0 115) (mkPtok 40 "," 41 12 120)) (mkLengthFieldDecl (mkSpan (mkPtok 42 "string_" 40 0 115) (mkPtok 40 "," 41 12 120)) None (mkPtok 42 "string_" 40 0 115) (mkLengthOf (mkSpan (mkPtok 7 "@lengthOf(" 40 8 116) (mkPtok 6 ")" 41 0 118)) (mkPtok 7 "@lengthOf(" 40 8 116) (mkPtok 42 "Logon" 40 18 117) (mkPtok 6 ")" 41 0 118)) (Some (mkPtok 43 (string_of_bytes [96; 116; 97; 98; 9; 104; 101; 114; 101; 96]%N) 41 1 119)) (mkPtok 40 "," 41 12 120))); (ObjectField (mkSpan (mkPtok 42 "i64_" 42 0 121) (mkPtok 40 "," 42 4 122)) None (mkPtok 42 "i64_" 42 0 121) None None (mkPtok 40 "," 42 4 122))] (mkPtok 3 "}" 42 6 123)) (mkPtok 40 "," 42 8 124)))] (mkPtok 3 "}" 43 4 125))); (DOption (mkOptionDef (mkSpan (mkPtok 1 "options" 43 6 126) (mkPtok 3 "}" 44 21 132)) (mkPtok 1 "options" 43 6 126) (mkPtok 2 "{" 44 4 127) [(mkOptionDecl (mkSpan (mkPtok 42 "matchKey" 44 5 128) (mkPtok 41 ";" 44 19 131)) (mkPtok 42 "matchKey" 44 5 128) (mkPtok 4 "=" 44 14 129) (VString (mkSpan (mkPtok 31 """1""" 44 15 130) (mkPtok 31 """1""" 44 15 130)) (mkPtok 31 """1""" 44 15 130)) (Some (mkPtok 41 ";" 44 19 131)))] (mkPtok 3 "}" 44 21 132))); (DOption (mkOptionDef (mkSpan (mkPtok 1 "options" 45 0 133) (mkPtok 3 "}" 45 10 135)) (mkPtok 1 "options" 45 0 133) (mkPtok 2 "{" 45 8 134) [] (mkPtok 3 "}" 45 10 135)))])).
Eval vm_compute in ("<<<M1305>>>" ++ check (runes_of_ascii "packet msg_type
{ @lengthOf(i64_
) @leftPad (
    ' '
)
    // a // b
    char[1
    ] float @lengthOf( matchKey
)
,} // " ++ [128512]%N ++ runes_of_ascii " emoji")).
Eval vm_compute in ("<<<M1337>>>" ++ check (runes_of_ascii "packet chars {@tag( //	t
007 ) roots
    zchar , } packet
MetaDataX  { }
// 50% %s
// packet A { u8 x, }
MetaData
int { }
")).
Eval vm_compute in ("<<<M1369>>>" ++ check (runes_of_ascii "packet stringy { } // c
MetaData rootA
{ zchar[
42 ]	rootA
`it's`  , Logon i64_  ,
char[] repeatCount
`two words`	,
    //
    int64 int
, float64 tag `line1
line2` , f32 Foo `" ++ [233]%N ++ runes_of_ascii "` , }
")).
Eval vm_compute in ("<<<M1401>>>" ++ check (runes_of_ascii "
root packet i8i8 { metadata `` , }root
packet zchar { // 50% %s
}
")).
Eval vm_compute in ("<<<M1433>>>" ++ check (runes_of_ascii "packet uint8x // @lengthOf(
{ match MetaDataX
    as T	{0123456789 : options1 , } , zchar[ //x
255
] x_y_z ,
    @lengthOf( Logon ) char[ 255 // a // b
]
    x `" ++ [233]%N ++ runes_of_ascii "` ,match Logon as
pack{
    ""packet""
: tag ,} , int@calculatedFrom(""" ++ [233]%N ++ runes_of_ascii "t" ++ [233]%N ++ runes_of_ascii """) `" ++ [28040; 24687; 31867; 22411]%N ++ runes_of_ascii "`, char[ 255 ]
    trueish
@calculatedFrom(""a\""b"" ) ,zchar , } options {a1 = zchar[
7
    ]
// @lengthOf(
// a // b
;
//	t
// packet A { u8 x, }
}
    options { }
options{ //x
matchKey = ""it's"" ; } packet calculatedFrom // " ++ [27880; 37322]%N ++ runes_of_ascii "
{ char[] u8x
    @calculatedFrom(
""" ++ [233]%N ++ runes_of_ascii "t" ++ [233]%N ++ runes_of_ascii """ ) ,
@tag( 0123456789
)	@tag(	4294967296 ) int64 a1
// trailing space 
//	t
, @lengthOf(	stringy //	t
)
As , @lengthOf(
pack )	u16 u128// 50% %s
@calculatedFrom( ""a	b"" )
`u8 x,`
, MetaDataX
// a // b
//
@lengthOf( u8x)	`crlf
line` ,
    @tag( // 50% %s
0 ) repeat
// 50% %s
//x
charz	,
    float@lengthOf( As
    )
    //
    `{ , }`
    , }
// 50% %s
")).
Eval vm_compute in ("<<<M1465>>>" ++ check (runes_of_ascii "
root packet chars{
@lengthOf(As ) @tag(4294967296 ) string tag
@calculatedFrom(
//x
// @lengthOf(
""{,}"" ) `tab	here`
,
} options { u128
=
    true
}packet trueish // a // b
{}MetaData len
{ int16 crc`100% of %d`,	}")).
Eval vm_compute in ("<<<M1497>>>" ++ check (runes_of_ascii "packet Header { }

")).
Eval vm_compute in ("<<<T1497>>>" ++ terms [mkTok 35 "packet" 1 0 false; mkTok 42 "Header" 1 7 false; mkTok 2 "{" 1 14 false; mkTok 3 "}" 1 16 false; mkTok 0 "<EOF>" 3 0 false] (mkPacket (mkPtok 35 "packet" 1 0 0) (Some (mkPtok 3 "}" 1 16 3)) [(DPacket (mkPacketDef (mkSpan (mkPtok 35 "packet" 1 0 0) (mkPtok 3 "}" 1 16 3)) None (mkPtok 35 "packet" 1 0 0) (mkPtok 42 "Header" 1 7 1) (mkPtok 2 "{" 1 14 2) [] (mkPtok 3 "}" 1 16 3)))])).
Eval vm_compute in ("<<<M1529>>>" ++ check (runes_of_ascii "MetaData crc
{ u64 Logon`it's` ,
} options  { metadata=float32
pack=00 ; len=
1;
x =
    ""abc"" ; } packet
// " ++ [128512]%N ++ runes_of_ascii " emoji
// packet A { u8 x, }
BodyLength { float32
Pad`` , repeat
zchar[ 007  ] matchKey ,// " ++ [128512]%N ++ runes_of_ascii " emoji
@calculatedFrom( ""{,}""
)
int8 metadata @calculatedFrom( """" )/// triple
`crlf
line`
, char	f32a , falsey ,// " ++ [27880; 37322]%N ++ runes_of_ascii "
x_y_z calculatedFrom `
` , string Foo , i8 repeatCount , Packet  msg_type `a\` , match packetx as
falsey
{	3: i64_ ,""packet"" : zchar  007
:
// " ++ [128512]%N ++ runes_of_ascii " emoji
//x
options1 , ""CRC32"":  metadata ,4294967296 : charz , [""x y"" ]:calculatedFrom , }
,
    } root packet metadata { @calculatedFrom(
    ""// no comment"")
    //
    repeat
    Packet,
@leftPad(
    '0' )	repeat metadata len ,	}
    MetaData
    MetaDataX
    {	falsey zchar `doc`
,
}")).
Eval vm_compute in ("<<<M1561>>>" ++ check (runes_of_ascii "packet
A{ }")).
Eval vm_compute in ("<<<M1593>>>" ++ check (runes_of_ascii "packet A
    { }
")).
Eval vm_compute in ("<<<M1625>>>" ++ check (runes_of_ascii "packet chars { @tag(
65535 // c
)repeat options1 ,
}
")).
Eval vm_compute in ("<<<M1657>>>" ++ check (runes_of_ascii "options { string_
    /// triple
    =
true; uint8x =10
    msg_type =// " ++ [128512]%N ++ runes_of_ascii " emoji
""x y"" ; // trailing space 
}
")).
Eval vm_compute in ("<<<M1689>>>" ++ check (runes_of_ascii "MetaData packetx { //	t
packetx // @lengthOf(
As `" ++ [233]%N ++ runes_of_ascii "` , zchar[ 1 ]
    // a // b
    _x `it's`, u64	x , } MetaData  Foo  { u64 leftPad  , int16 Pad`say ""hi""`
    ,	} packet
Foo {
    @tag( 0) u128 //x
,}")).
Eval vm_compute in ("<<<M1721>>>" ++ check (runes_of_ascii "
")).
Eval vm_compute in ("<<<T1721>>>" ++ terms [mkTok 0 "<EOF>" 2 0 false] (mkPacket (mkPtok 0 "<EOF>" 2 0 0) None [])).
Eval vm_compute in ("<<<M1753>>>" ++ check (runes_of_ascii "
")).
Eval vm_compute in ("<<<M1785>>>" ++ check (runes_of_ascii "MetaData float {
float32 A ,
}")).
Eval vm_compute in ("<<<M1817>>>" ++ check (runes_of_ascii "
packet
    int
// trailing space 
//	t
{ // `tick` ""quote"" 'q'
} packet
int	{
}")).
Eval vm_compute in ("<<<M1849>>>" ++ check (runes_of_ascii "MetaData msg_type{
    } options {
}")).
Eval vm_compute in ("<<<M1881>>>" ++ check (runes_of_ascii "options
{
    // trailing space 
    stringy  = 255
    Z9_
= // trailing space 
'0' options1 =007
;
    asx = ""CRC32""} MetaData	calculatedFrom{ zchar[
    0 ] //x
len ,options1 len ,
Packet Pad`two words`
,
string _x , rootA zchar
// @lengthOf(
//
`crlf
line` ,//	t
}
")).
Eval vm_compute in ("<<<M1913>>>" ++ check (runes_of_ascii "  MetaData int
{}
")).
Eval vm_compute in ("<<<M1945>>>" ++ check (runes_of_ascii "options { repeatCount
    = char[] len =
""`tick`"" ; roots
    =
    ""// no comment""; Foo= '\x00'; }
root //
packet
    roots	{ repeat
    // `tick` ""quote"" 'q'
    Foo trueish	,string repeatCount ,@tag(0 // " ++ [27880; 37322]%N ++ runes_of_ascii "
) string
    T
@lengthOf(
u)
    ,
    repeat uint16
f32a , x_y_z `doc` ,
i64 Pad // packet A { u8 x, }
, match rootA //
as Logon {
    [ 65535 ,
007] : trueish
    [ """ ++ [233]%N ++ runes_of_ascii "t" ++ [233]%N ++ runes_of_ascii """ , 1 ] /// triple
: len
} //x
,}")).
Eval vm_compute in ("<<<T1945>>>" ++ terms [mkTok 1 "options" 1 0 false; mkTok 2 "{" 1 8 false; mkTok 42 "repeatCount" 1 10 false; mkTok 4 "=" 2 4 false; mkTok 16 "char[]" 2 6 false; mkTok 42 "len" 2 13 false; mkTok 4 "=" 2 17 false; mkTok 31 """`tick`""" 3 0 false; mkTok 41 ";" 3 9 false; mkTok 42 "roots" 3 11 false; mkTok 4 "=" 4 4 false; mkTok 31 """// no comment""" 5 4 false; mkTok 41 ";" 5 19 false; mkTok 42 "Foo" 5 21 false; mkTok 4 "=" 5 24 false; mkTok 33 "'\x00'" 5 26 false; mkTok 41 ";" 5 32 false; mkTok 3 "}" 5 34 false; mkTok 34 "root" 6 0 false; mkTok 44 "//" 6 5 true; mkTok 35 "packet" 7 0 false; mkTok 42 "roots" 8 4 false; mkTok 2 "{" 8 10 false; mkTok 36 "repeat" 8 12 false; mkTok 44 "// `tick` ""quote"" 'q'" 9 4 true; mkTok 42 "Foo" 10 4 false; mkTok 42 "trueish" 10 8 false; mkTok 40 "," 10 16 false; mkTok 15 "string" 10 17 false; mkTok 42 "repeatCount" 10 24 false; mkTok 40 "," 10 36 false; mkTok 9 "@tag(" 10 37 false; mkTok 30 "0" 10 42 false; mkTok 44 (string_of_bytes [47; 47; 32; 230; 179; 168; 233; 135; 138]%N) 10 44 true; mkTok 6 ")" 11 0 false; mkTok 15 "string" 11 2 false; mkTok 42 "T" 12 4 false; mkTok 7 "@lengthOf(" 13 0 false; mkTok 42 "u" 14 0 false; mkTok 6 ")" 14 1 false; mkTok 40 "," 15 4 false; mkTok 36 "repeat" 16 4 false; mkTok 21 "uint16" 16 11 false; mkTok 42 "f32a" 17 0 false; mkTok 40 "," 17 5 false; mkTok 42 "x_y_z" 17 7 false; mkTok 43 "`doc`" 17 13 false; mkTok 40 "," 17 19 false; mkTok 27 "i64" 18 0 false; mkTok 42 "Pad" 18 4 false; mkTok 44 "// packet A { u8 x, }" 18 8 true; mkTok 40 "," 19 0 false; mkTok 38 "match" 19 2 false; mkTok 42 "rootA" 19 8 false; mkTok 44 "//" 19 14 true; mkTok 17 "as" 20 0 false; mkTok 42 "Logon" 20 3 false; mkTok 2 "{" 20 9 false; mkTok 18 "[" 21 4 false; mkTok 30 "65535" 21 6 false; mkTok 40 "," 21 12 false; mkTok 30 "007" 22 0 false; mkTok 13 "]" 22 3 false; mkTok 39 ":" 22 5 false; mkTok 42 "trueish" 22 7 false; mkTok 18 "[" 23 4 false; mkTok 31 (string_of_bytes [34; 195; 169; 116; 195; 169; 34]%N) 23 6 false; mkTok 40 "," 23 12 false; mkTok 30 "1" 23 14 false; mkTok 13 "]" 23 16 false; mkTok 44 "/// triple" 23 18 true; mkTok 39 ":" 24 0 false; mkTok 42 "len" 24 2 false; mkTok 3 "}" 25 0 false; mkTok 44 "//x" 25 2 true; mkTok 40 "," 26 0 false; mkTok 3 "}" 26 1 false; mkTok 0 "<EOF>" 26 2 false] (mkPacket (mkPtok 1 "options" 1 0 0) (Some (mkPtok 3 "}" 26 1 76)) [(DOption (mkOptionDef (mkSpan (mkPtok 1 "options" 1 0 0) (mkPtok 3 "}" 5 34 17)) (mkPtok 1 "options" 1 0 0) (mkPtok 2 "{" 1 8 1) [(mkOptionDecl (mkSpan (mkPtok 42 "repeatCount" 1 10 2) (mkPtok 16 "char[]" 2 6 4)) (mkPtok 42 "repeatCount" 1 10 2) (mkPtok 4 "=" 2 4 3) (VType (mkSpan (mkPtok 16 "char[]" 2 6 4) (mkPtok 16 "char[]" 2 6 4)) (TyDynamic (mkSpan (mkPtok 16 "char[]" 2 6 4) (mkPtok 16 "char[]" 2 6 4)) (mkDynamicString (mkSpan (mkPtok 16 "char[]" 2 6 4) (mkPtok 16 "char[]" 2 6 4)) (mkPtok 16 "char[]" 2 6 4)))) None); (mkOptionDecl (mkSpan (mkPtok 42 "len" 2 13 5) (mkPtok 41 ";" 3 9 8)) (mkPtok 42 "len" 2 13 5) (mkPtok 4 "=" 2 17 6) (VString (mkSpan (mkPtok 31 """`tick`""" 3 0 7) (mkPtok 31 """`tick`""" 3 0 7)) (mkPtok 31 """`tick`""" 3 0 7)) (Some (mkPtok 41 ";" 3 9 8))); (mkOptionDecl (mkSpan (mkPtok 42 "roots" 3 11 9) (mkPtok 41 ";" 5 19 12)) (mkPtok 42 "roots" 3 11 9) (mkPtok 4 "=" 4 4 10) (VString (mkSpan (mkPtok 31 """// no comment""" 5 4 11) (mkPtok 31 """// no comment""" 5 4 11)) (mkPtok 31 """// no comment""" 5 4 11)) (Some (mkPtok 41 ";" 5 19 12))); (mkOptionDecl (mkSpan (mkPtok 42 "Foo" 5 21 13) (mkPtok 41 ";" 5 32 16)) (mkPtok 42 "Foo" 5 21 13) (mkPtok 4 "=" 5 24 14) (VPaddingChar (mkSpan (mkPtok 33 "'\x00'" 5 26 15) (mkPtok 33 "'\x00'" 5 26 15)) (mkPtok 33 "'\x00'" 5 26 15)) (Some (mkPtok 41 ";" 5 32 16)))] (mkPtok 3 "}" 5 34 17))); (DPacket (mkPacketDef (mkSpan (mkPtok 34 "root" 6 0 18) (mkPtok 3 "}" 26 1 76)) (Some (mkPtok 34 "root" 6 0 18)) (mkPtok 35 "packet" 7 0 20) (mkPtok 42 "roots" 8 4 21) (mkPtok 2 "{" 8 10 22) [(mkFieldWithAttr (mkSpan (mkPtok 36 "repeat" 8 12 23) (mkPtok 40 "," 10 16 27)) [] (ObjectField (mkSpan (mkPtok 36 "repeat" 8 12 23) (mkPtok 40 "," 10 16 27)) (Some (mkPtok 36 "repeat" 8 12 23)) (mkPtok 42 "Foo" 10 4 25) (Some (mkPtok 42 "trueish" 10 8 26)) None (mkPtok 40 "," 10 16 27))); (mkFieldWithAttr (mkSpan (mkPtok 15 "string" 10 17 28) (mkPtok 40 "," 10 36 30)) [] (MetaField (mkSpan (mkPtok 15 "string" 10 17 28) (mkPtok 40 "," 10 36 30)) None (mkMetaDecl (mkSpan (mkPtok 15 "string" 10 17 28) (mkPtok 40 "," 10 36 30)) (TyDynamic (mkSpan (mkPtok 15 "string" 10 17 28) (mkPtok 15 "string" 10 17 28)) (mkDynamicString (mkSpan (mkPtok 15 "string" 10 17 28) (mkPtok 15 "string" 10 17 28)) (mkPtok 15 "string" 10 17 28))) (mkPtok 42 "repeatCount" 10 24 29) None (mkPtok 40 "," 10 36 30)))); (mkFieldWithAttr (mkSpan (mkPtok 9 "@tag(" 10 37 31) (mkPtok 40 "," 15 4 40)) [(FATag (mkSpan (mkPtok 9 "@tag(" 10 37 31) (mkPtok 6 ")" 11 0 34)) (mkTagAttr (mkSpan (mkPtok 9 "@tag(" 10 37 31) (mkPtok 6 ")" 11 0 34)) (mkPtok 9 "@tag(" 10 37 31) (mkPtok 30 "0" 10 42 32) (mkPtok 6 ")" 11 0 34)))] (LengthField (mkSpan (mkPtok 15 "string" 11 2 35) (mkPtok 40 "," 15 4 40)) (mkLengthFieldDecl (mkSpan (mkPtok 15 "string" 11 2 35) (mkPtok 40 "," 15 4 40)) (Some (TyDynamic (mkSpan (mkPtok 15 "string" 11 2 35) (mkPtok 15 "string" 11 2 35)) (mkDynamicString (mkSpan (mkPtok 15 "string" 11 2 35) (mkPtok 15 "string" 11 2 35)) (mkPtok 15 "string" 11 2 35)))) (mkPtok 42 "T" 12 4 36) (mkLengthOf (mkSpan (mkPtok 7 "@lengthOf(" 13 0 37) (mkPtok 6 ")" 14 1 39)) (mkPtok 7 "@lengthOf(" 13 0 37) (mkPtok 42 "u" 14 0 38) (mkPtok 6 ")" 14 1 39)) None (mkPtok 40 "," 15 4 40)))); (mkFieldWithAttr (mkSpan (mkPtok 36 "repeat" 16 4 41) (mkPtok 40 "," 17 5 44)) [] (MetaField (mkSpan (mkPtok 36 "repeat" 16 4 41) (mkPtok 40 "," 17 5 44)) (Some (mkPtok 36 "repeat" 16 4 41)) (mkMetaDecl (mkSpan (mkPtok 21 "uint16" 16 11 42) (mkPtok 40 "," 17 5 44)) (TyBasic (mkSpan (mkPtok 21 "uint16" 16 11 42) (mkPtok 21 "uint16" 16 11 42)) (mkBasicType (mkSpan (mkPtok 21 "uint16" 16 11 42) (mkPtok 21 "uint16" 16 11 42)) (mkPtok 21 "uint16" 16 11 42))) (mkPtok 42 "f32a" 17 0 43) None (mkPtok 40 "," 17 5 44)))); (mkFieldWithAttr (mkSpan (mkPtok 42 "x_y_z" 17 7 45) (mkPtok 40 "," 17 19 47)) [] (ObjectField (mkSpan (mkPtok 42 "x_y_z" 17 7 45) (mkPtok 40 "," 17 19 47)) None (mkPtok 42 "x_y_z" 17 7 45) None (Some (mkPtok 43 "`doc`" 17 13 46)) (mkPtok 40 "," 17 19 47))); (mkFieldWithAttr (mkSpan (mkPtok 27 "i64" 18 0 48) (mkPtok 40 "," 19 0 51)) [] (MetaField (mkSpan (mkPtok 27 "i64" 18 0 48) (mkPtok 40 "," 19 0 51)) None (mkMetaDecl (mkSpan (mkPtok 27 "i64" 18 0 48) (mkPtok 40 "," 19 0 51)) (TyBasic (mkSpan (mkPtok 27 "i64" 18 0 48) (mkPtok 27 "i64" 18 0 48)) (mkBasicType (mkSpan (mkPtok 27 "i64" 18 0 48) (mkPtok 27 "i64" 18 0 48)) (mkPtok 27 "i64" 18 0 48))) (mkPtok 42 "Pad" 18 4 49) None (mkPtok 40 "," 19 0 51)))); (mkFieldWithAttr (mkSpan (mkPtok 38 "match" 19 2 52) (mkPtok 40 "," 26 0 75)) [] (MatchField (mkSpan (mkPtok 38 "match" 19 2 52) (mkPtok 40 "," 26 0 75)) (mkMatchFieldDecl (mkSpan (mkPtok 38 "match" 19 2 52) (mkPtok 3 "}" 25 0 73)) (mkPtok 38 "match" 19 2 52) (mkPtok 42 "rootA" 19 8 53) (mkPtok 17 "as" 20 0 55) (mkPtok 42 "Logon" 20 3 56) (mkPtok 2 "{" 20 9 57) [(mkMatchPair (mkSpan (mkPtok 18 "[" 21 4 58) (mkPtok 42 "trueish" 22 7 64)) (MKList (mkKeyList (mkSpan (mkPtok 18 "[" 21 4 58) (mkPtok 13 "]" 22 3 62)) (mkPtok 18 "[" 21 4 58) (mkPtok 30 "65535" 21 6 59) [((mkPtok 40 "," 21 12 60), (mkPtok 30 "007" 22 0 61))] (mkPtok 13 "]" 22 3 62))) (mkPtok 39 ":" 22 5 63) (mkPtok 42 "trueish" 22 7 64) None); (mkMatchPair (mkSpan (mkPtok 18 "[" 23 4 65) (mkPtok 42 "len" 24 2 72)) (MKList (mkKeyList (mkSpan (mkPtok 18 "[" 23 4 65) (mkPtok 13 "]" 23 16 69)) (mkPtok 18 "[" 23 4 65) (mkPtok 31 (string_of_bytes [34; 195; 169; 116; 195; 169; 34]%N) 23 6 66) [((mkPtok 40 "," 23 12 67), (mkPtok 30 "1" 23 14 68))] (mkPtok 13 "]" 23 16 69))) (mkPtok 39 ":" 24 0 71) (mkPtok 42 "len" 24 2 72) None)] (mkPtok 3 "}" 25 0 73)) (mkPtok 40 "," 26 0 75)))] (mkPtok 3 "}" 26 1 76)))])).
Eval vm_compute in ("<<<M1977>>>" ++ check (@nil rune)).
Eval vm_compute in ("<<<M2009>>>" ++ check (runes_of_ascii " repeatCount { float64 packetx,
} root packet  metadata {
char _x @lengthOf( trueish ), @leftPad
( ' '// " ++ [27880; 37322]%N ++ runes_of_ascii "
)/// triple
char[] len`doc` , // packet A { u8 x, }
repeatCount , }
")).
Eval vm_compute in ("<<<M2041>>>" ++ check (runes_of_ascii "MetaData repeatCount { float64 packetx,
root } packet  metadata {
char _x @lengthOf( trueish ), @leftPad
( ' '// " ++ [27880; 37322]%N ++ runes_of_ascii "
)/// triple
char[] len`doc` , // packet A { u8 x, }
repeatCount , }
")).
Eval vm_compute in ("<<<M2073>>>" ++ check (runes_of_ascii "MetaData repeatCount { float64 packetx,
} root packet  metadata {
char")).
Eval vm_compute in ("<<<M2105>>>" ++ check (runes_of_ascii "MetaData repeatCount { float64 packetx,
} root packet  metadata {
char _x @lengthOf( trueish ), @leftPad
( ' ' ' '// " ++ [27880; 37322]%N ++ runes_of_ascii "
)/// triple
char[] len`doc` , // packet A { u8 x, }
repeatCount , }
")).
Eval vm_compute in ("<<<M2137>>>" ++ check (runes_of_ascii "MetaData repeatCount { float64 packetx,
} root packet  metadata {
char _x @lengthOf( trueish ), @leftPad
( ' '// " ++ [27880; 37322]%N ++ runes_of_ascii "
)/// triple
char[] len`doc` , // packet A { u8 x, }
true , }
")).
Eval vm_compute in ("<<<M2169>>>" ++ check (runes_of_ascii "MetaData repeatCount { float64 packetx,
} root packet  caf" ++ [233]%N ++ runes_of_ascii "_1 {
char _x @lengthOf( trueish ), @leftPad
( ' '// " ++ [27880; 37322]%N ++ runes_of_ascii "
)/// triple
char[] len`doc` , // packet A { u8 x, }
repeatCount , }
")).
Eval vm_compute in ("<<<M2201>>>" ++ check (runes_of_ascii "options{
leftPad
    =65535
;
a1 a1 = true ; packetx=  '\x00' ; packetx
=  """ ++ [28040; 24687]%N ++ runes_of_ascii """MetaDataX= // " ++ [27880; 37322]%N ++ runes_of_ascii "
false }root // c
packet // packet A { u8 x, }
Pad { repeat
u8 Header
// packet A { u8 x, }
//	t
`{ , }`
// a // b
//x
, }
")).
Eval vm_compute in ("<<<M2233>>>" ++ check (runes_of_ascii "options{
leftPad
    =65535
;
a1 = true ; packetx=  zchar[ ; packetx
=  """ ++ [28040; 24687]%N ++ runes_of_ascii """MetaDataX= // " ++ [27880; 37322]%N ++ runes_of_ascii "
false }root // c
packet // packet A { u8 x, }
Pad { repeat
u8 Header
// packet A { u8 x, }
//	t
`{ , }`
// a // b
//x
, }
")).
Eval vm_compute in ("<<<M2265>>>" ++ check (runes_of_ascii "options{
leftPad
    =65535
;
a1 = true ; packetx=  '\x00' ; packetx
=  """ ++ [28040; 24687]%N ++ runes_of_ascii """MetaDataX= // " ++ [27880; 37322]%N ++ runes_of_ascii "
 }root // c
packet // packet A { u8 x, }
Pad { repeat
u8 Header
// packet A { u8 x, }
//	t
`{ , }`
// a // b
//x
, }
")).
Eval vm_compute in ("<<<M2297>>>" ++ check (runes_of_ascii "options{
leftPad
    =65535
;
a1 = true ; packetx=  '\x00' ; packetx
=  """ ++ [28040; 24687]%N ++ runes_of_ascii """MetaDataX= // " ++ [27880; 37322]%N ++ runes_of_ascii "
false }root // c
packet // packet A { u8 x, }
Pad { u8
repeat Header
// packet A { u8 x, }
//	t
`{ , }`
// a // b
//x
, }
")).
Eval vm_compute in ("<<<M2329>>>" ++ check (runes_of_ascii "options{
leftPad
    =65535
;
a1 = true ; packetx=  '\x00' ; ` packetx
=  """ ++ [28040; 24687]%N ++ runes_of_ascii """MetaDataX= // " ++ [27880; 37322]%N ++ runes_of_ascii "
false }root // c
packet // packet A { u8 x, }
Pad { repeat
u8 Header
// packet A { u8 x, }
//	t
`{ , }`
// a // b
//x
, }
")).
Eval vm_compute in ("<<<M2361>>>" ++ check (runes_of_ascii "
packet float
{	 """ ++ [233]%N ++ runes_of_ascii "t" ++ [233]%N ++ runes_of_ascii """ )
@rightPad ( '\x00' )
    @calculatedFrom( ""x y"" ) string chars  ,
    // a // b
    char[0 ]
    u	@lengthOf( i8i8 ) `{ , }` ,repeat char[] o //x
`// not a comment`, } // c")).
Eval vm_compute in ("<<<M2393>>>" ++ check (runes_of_ascii "
packet float
{	@calculatedFrom( """ ++ [233]%N ++ runes_of_ascii "t" ++ [233]%N ++ runes_of_ascii """ )
@rightPad ( '\x00' @calculatedFrom(
    ) ""x y"" ) string chars  ,
    // a // b
    char[0 ]
    u	@lengthOf( i8i8 ) `{ , }` ,repeat char[] o //x
`// not a comment`, } // c")).
Eval vm_compute in ("<<<M2425>>>" ++ check (runes_of_ascii "
packet float
{	@calculatedFrom( """ ++ [233]%N ++ runes_of_ascii "t" ++ [233]%N ++ runes_of_ascii """ )
@rightPad ( '\x00' )
    @calculatedFrom( ""x y"" ) string chars")).
Eval vm_compute in ("<<<M2457>>>" ++ check (runes_of_ascii "
packet float
{	@calculatedFrom( """ ++ [233]%N ++ runes_of_ascii "t" ++ [233]%N ++ runes_of_ascii """ )
@rightPad ( '\x00' )
    @calculatedFrom( ""x y"" ) string chars  ,
    // a // b
    char[0 ]
    u	@lengthOf( i8i8 ) ) `{ , }` ,repeat char[] o //x
`// not a comment`, } // c")).
Eval vm_compute in ("<<<M2489>>>" ++ check (runes_of_ascii "
packet float
{	@calculatedFrom( """ ++ [233]%N ++ runes_of_ascii "t" ++ [233]%N ++ runes_of_ascii """ )
@rightPad ( '\x00' )
    @calculatedFrom( ""x y"" ) string chars  ,
    // a // b
    char[0 ]
    u	@lengthOf( i8i8 ) `{ , }` ,repeat char[] o //x
string, } // c")).
Eval vm_compute in ("<<<M2521>>>" ++ check (runes_of_ascii "
packet float
{	@calculatedFrom( """ ++ [233]%N ++ runes_of_ascii "t" ++ [233]%N ++ runes_of_ascii """ )
@rightPad ( '\x00' )
    @calculatedFrom( ""x y"" ) string chars  ,
    // a // b
    char[0 ]
    u	@lengthOf( i8i8 ) `{ , }` ,repeat char[] " ++ [252]%N ++ runes_of_ascii "ber //x
`// not a comment`, } // c")).
Eval vm_compute in ("<<<M2553>>>" ++ check (runes_of_ascii "root packet u128{
    repeat
    zchar[ 65535 65535 ] u `" ++ [28040; 24687; 31867; 22411]%N ++ runes_of_ascii "` ,// `tick` ""quote"" 'q'
} packet i64_ {repeatCount
    `
` ,	} // " ++ [128512]%N ++ runes_of_ascii " emoji")).
Eval vm_compute in ("<<<M2585>>>" ++ check (runes_of_ascii "root packet u128{
    repeat
    zchar[ 65535 ] u `" ++ [28040; 24687; 31867; 22411]%N ++ runes_of_ascii "` ,// `tick` ""quote"" 'q'
} match i64_ {repeatCount
    `
` ,	} // " ++ [128512]%N ++ runes_of_ascii " emoji")).
Eval vm_compute in ("<<<M2617>>>" ++ check (runes_of_ascii "root packet u128{
    repeat
    zchar[ 65535 ] u `" ++ [28040; 24687; 31867; 22411]%N ++ runes_of_ascii "` ,// `tick")).
Eval vm_compute in ("<<<M2649>>>" ++ check (runes_of_ascii "
MetaData
roots { { int8
    BodyLength ,//	t
}
")).
Eval vm_compute in ("<<<M2681>>>" ++ check (runes_of_ascii "
MetaData
roots \{ int8
    BodyLength ,//	t
}
")).
Eval vm_compute in ("<<<M2713>>>" ++ check (runes_of_ascii "options {Packet")).
Eval vm_compute in ("<<<M2745>>>" ++ check (runes_of_ascii "options {Packet = ""CRC32""i8i8 = false; leftPad = =
    '\x00'
    // `tick` ""quote"" 'q'
    ; o=255  ;
    // packet A { u8 x, }
    }")).
Eval vm_compute in ("<<<M2777>>>" ++ check (runes_of_ascii "options {Packet = ""CRC32""i8i8 = false; leftPad =
    '\x00'
    // `tick` ""quote"" 'q'
    ; o=255  @rightPad
    // packet A { u8 x, }
    }")).
Eval vm_compute in ("<<<M2809>>>" ++ check (runes_of_ascii "
")).
Eval vm_compute in ("<<<M2841>>>" ++ check (runes_of_ascii "
packet metadata { @rightPad (
    // packet A { u8 x, }
    ' ' ) repeat repeat u32	A
,matchKey ,
    @lengthOf( string_ ) @lengthOf( body )
    // a // b
    @lengthOf(float  )	repeat
int32 u8x
    // c
    `tab	here`
, } // a // b")).
Eval vm_compute in ("<<<M2873>>>" ++ check (runes_of_ascii "
packet metadata { @rightPad (
    // packet A { u8 x, }
    ' ' ) repeat u32	A
,matchKey ,
    zchar[ string_ ) @lengthOf( body )
    // a // b
    @lengthOf(float  )	repeat
int32 u8x
    // c
    `tab	here`
, } // a // b")).
Eval vm_compute in ("<<<M2905>>>" ++ check (runes_of_ascii "
packet metadata { @rightPad (
    // packet A { u8 x, }
    ' ' ) repeat u32	A
,matchKey ,
    @lengthOf( string_ ) @lengthOf( body )
    // a // b
    @lengthOf(  )	repeat
int32 u8x
    // c
    `tab	here`
, } // a // b")).
Eval vm_compute in ("<<<M2937>>>" ++ check (runes_of_ascii "
packet metadata { @rightPad (
    // packet A { u8 x, }
    ' ' ) repeat u32	A
,matchKey ,
    @lengthOf( string_ ) @lengthOf( body )
    // a // b
    @lengthOf(float  )	repeat
int32 u8x
    // c
    `tab	here`
} , // a // b")).
Eval vm_compute in ("<<<M2969>>>" ++ check (runes_of_ascii "= x{
string
zchar , //	t
}
")).
Eval vm_compute in ("<<<M3001>>>" ++ check (runes_of_ascii "p")).
Eval vm_compute in ("<<<M3033>>>" ++ check (runes_of_ascii "
MetaData Logon
{ { // c
}root packet
    Pad {
    } options
{
u
    =
    ""CRC32""
    // " ++ [128512]%N ++ runes_of_ascii " emoji
    i64_ = u16;
T =65535 x = ' '
    ; u128
= true ; }")).
Eval vm_compute in ("<<<M3065>>>" ++ check (runes_of_ascii "
MetaData Logon
{ // c
}root packet
    Pad {
    ] options
{
u
    =
    ""CRC32""
    // " ++ [128512]%N ++ runes_of_ascii " emoji
    i64_ = u16;
T =65535 x = ' '
    ; u128
= true ; }")).
Eval vm_compute in ("<<<M3097>>>" ++ check (runes_of_ascii "
MetaData Logon
{ // c
}root packet
    Pad {
    } options
{
u
    =
    ""CRC32""
    // " ++ [128512]%N ++ runes_of_ascii " emoji
    i64_  u16;
T =65535 x = ' '
    ; u128
= true ; }")).
Eval vm_compute in ("<<<M3129>>>" ++ check (runes_of_ascii "
MetaData Logon
{ // c
}root packet
    Pad {
    } options
{
u
    =
    ""CRC32""
    // " ++ [128512]%N ++ runes_of_ascii " emoji
    i64_ = u16;
T =65535 = x ' '
    ; u128
= true ; }")).
Eval vm_compute in ("<<<M3161>>>" ++ check (runes_of_ascii "
MetaData Logon
{ // c
}root packet
    Pad {
    } options
{
u
    =
    ""CRC32""
    // " ++ [128512]%N ++ runes_of_ascii " emoji
    i64_ = u16;
T =65535 x = ' '
    ; u128
=")).
Eval vm_compute in ("<<<M3193>>>" ++ check (runes_of_ascii " body{}
packet	Packet { x_y_z @calculatedFrom(  ""a\\"")// `tick` ""quote"" 'q'
, }
")).
Eval vm_compute in ("<<<M3225>>>" ++ check (runes_of_ascii "MetaData body{}
packet	Packet x_y_z { @calculatedFrom(  ""a\\"")// `tick` ""quote"" 'q'
, }
")).
Eval vm_compute in ("<<<M3257>>>" ++ check (runes_of_ascii "MetaData body{}
packet	Packe")).
Eval vm_compute in ("<<<M3289>>>" ++ check (runes_of_ascii "packet f32a } root packet len {repeat u // " ++ [128512]%N ++ runes_of_ascii " emoji
`{ , }` , }
")).
Eval vm_compute in ("<<<M3321>>>" ++ check (runes_of_ascii "packet f32a {} root packet len {u repeat // " ++ [128512]%N ++ runes_of_ascii " emoji
`{ , }` , }
")).
Eval vm_compute in ("<<<M3353>>>" ++ check (runes_of_ascii "`packet f32a {} root packet len {repeat u // " ++ [128512]%N ++ runes_of_ascii " emoji
`{ , }` , }
")).
Eval vm_compute in ("<<<M3385>>>" ++ check (runes_of_ascii "options{ _x=""\" ++ [233]%N ++ runes_of_ascii """;
    Logon = 10	; Foo= 7;
i64_= char[]} options {
matchKey = ""// no comment"" // a // b
 = string
; trueish =
    4294967296
options1=
    ""it's"" string_	= true } options {
    /// triple
    }")).
Eval vm_compute in ("<<<M3417>>>" ++ check (runes_of_ascii "options{ _x=""\" ++ [233]%N ++ runes_of_ascii """;
    Logon = ")).
Eval vm_compute in ("<<<M3449>>>" ++ check (runes_of_ascii "options{ _x=""\" ++ [233]%N ++ runes_of_ascii """;
    Logon = 10	; Foo= 7;
i64_= char[]} options {
matchKey = ""// no comment"" // a // b
falsey = string
; false =
    4294967296
options1=
    ""it's"" string_	= true } options {
    /// triple
    }")).
Eval vm_compute in ("<<<M3481>>>" ++ check (runes_of_ascii "options{ _x=""\" ++ [233]%N ++ runes_of_ascii """;
    Logon = 10	; Foo= 7;
i64_= char[]} options {
 = ""// no comment"" // a // b
falsey = string
; trueish =
    4294967296
options1=
    ""it's"" string_	= true } options {
    /// triple
    }")).
Eval vm_compute in ("<<<M3513>>>" ++ check (runes_of_ascii "true1")).
Eval vm_compute in ("<<<M3545>>>" ++ check (runes_of_ascii "'  '")).
Eval vm_compute in ("<<<M3577>>>" ++ check (runes_of_ascii """a\""""")).
Eval vm_compute in ("<<<M3609>>>" ++ check (runes_of_ascii "[[]]")).
Eval vm_compute in ("<<<M3641>>>" ++ check (runes_of_ascii "packet A { x y `d`, }")).
Eval vm_compute in ("<<<M3673>>>" ++ check (runes_of_ascii "packet A { match k as n { 1 : B,, }, }")).
Eval vm_compute in ("<<<M3705>>>" ++ check (runes_of_ascii "packet")).
Eval vm_compute in ("<<<M3737>>>" ++ check (runes_of_ascii "options { options = 1; }")).
Eval vm_compute in ("<<<M3769>>>" ++ check (runes_of_ascii ")w-I`ZWzC7 R")).
Eval vm_compute in ("<<<M3801>>>" ++ check (runes_of_ascii "j+sAFURb|Q3P\9o#5")).
Eval vm_compute in ("<<<M3833>>>" ++ check (runes_of_ascii "Uqc&!5o(3qo16SHn1,GI.is'q""VhDArQaX")).
Eval vm_compute in ("<<<M3865>>>" ++ check (runes_of_ascii "^")).
Eval vm_compute in ("<<<M3897>>>" ++ check (runes_of_ascii "ye_MpyZEI*5mPQg?W'n&KXH=0o6xDYFgJ#_")).
Eval vm_compute in ("<<<M3929>>>" ++ check (runes_of_ascii "s|MhSNAe{2NU>x|]%K4~470q:HbIbID5F|Jxg")).
Eval vm_compute in ("<<<M3961>>>" ++ check (runes_of_ascii "A)@ 0.]""w?[cG.8{A;bd'")).
Eval vm_compute in ("<<<M3993>>>" ++ check (runes_of_ascii "W_")).
