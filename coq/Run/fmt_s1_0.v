From FP Require Import Lexer Parser ShowPT Digest Formatter.
From Coq Require Import String List NArith.
Import ListNotations.
Open Scope string_scope.
Set Printing Width 100000000.
Set Printing Depth 100000000.
Definition show_fres (r : fres) : string :=
  match r with
  | FOk s => "OK:" ++ sh_escaped s ""
  | FErr s => "ERR:" ++ sh_escaped s ""
  | FPanic p => "PANIC:" ++ p
  end.
Definition check (rs : list rune) : string := digest (show_fres (format_res rs)).
Definition full (rs : list rune) : string := show_fres (format_res rs).
Eval vm_compute in ("<<<M3649>>>" ++ check (runes_of_ascii "// top
options // c0
{ ArrayPrefixLenType
    // c2
= u16 // c4
; // c5
FixedStringPadFromLeft
    // c6
= true
    // c8
; JavaPackage // c10
=
    // c11
""com.example.msg"" // c12a
  // c12b
; GoPackage = // c15a
  // c15b
""msg"" // c16a
  // c16b
;
    // c17
GoModule
    // c18
= // c19a
  // c19b
""example.com/msg""
    // c20
;
    // c21
} // c22
MetaData // c23a
  // c23b
Meta
    // c24
{ u32 // c26a
  // c26b
SeqNum `sequence number` , // c29a
  // c29b
char[ // c30
8 // c31
] // c32a
  // c32b
Symbol // c33a
  // c33b
`symbol` // c34a
  // c34b
, zchar[
    // c36
5
    // c37
] // c38
ZSym // c39a
  // c39b
`z symbol` // c40
, string Note , // c44a
  // c44b
Symbol AltSymbol `alias of symbol`
    // c47
,
    // c48
f64
    // c49
Price // c50a
  // c50b
, // c51
}
    // c52
packet // c53a
  // c53b
Inner // c54a
  // c54b
{
    // c55
u8 // c56a
  // c56b
a , // c58a
  // c58b
i16
    // c59
b // c60a
  // c60b
, // c61a
  // c61b
string // c62a
  // c62b
c // c63a
  // c63b
, // c64a
  // c64b
} // c65a
  // c65b
packet
    // c66
Inner2 // c67a
  // c67b
{ // c68
u8 // c69a
  // c69b
a2 , // c71
char[ 3 // c73
]
    // c74
c2 , // c76a
  // c76b
} // c77
packet
    // c78
Logon { u8 // c81
x // c82
, string
    // c84
user // c85
, // c86
repeat // c87a
  // c87b
u16 // c88
codes
    // c89
,
    // c90
} // c91a
  // c91b
packet // c92a
  // c92b
Logout { u16 reason
    // c96
,
    // c97
}
    // c98
packet Empty // c100
{
    // c101
} // c102
root // c103
packet
    // c104
Msg { // c106a
  // c106b
u8 // c107a
  // c107b
su8 ,
    // c109
uint8 luint8 // c111
, // c112a
  // c112b
u16 // c113
su16
    // c114
, // c115a
  // c115b
uint16 // c116
luint16 ,
    // c118
u32 su32
    // c120
, // c121a
  // c121b
uint32 // c122a
  // c122b
luint32
    // c123
, // c124
u64 su64
    // c126
, uint64 // c128
luint64
    // c129
, // c130
i8
    // c131
si8
    // c132
, // c133a
  // c133b
int8 lint8
    // c135
, i16
    // c137
si16 // c138
,
    // c139
int16 // c140a
  // c140b
lint16 // c141
, // c142a
  // c142b
i32 si32 // c144
, // c145
int32 // c146
lint32 // c147a
  // c147b
, // c148
i64 // c149
si64 , // c151a
  // c151b
int64
    // c152
lint64 // c153
, f32 // c155a
  // c155b
sf32 , float32 lfloat32 // c159a
  // c159b
, // c160a
  // c160b
f64
    // c161
sf64 // c162
, // c163
float64 // c164a
  // c164b
lfloat64 // c165a
  // c165b
, // c166
char[ // c167a
  // c167b
6 ]
    // c169
fsplain // c170a
  // c170b
,
    // c171
@leftPad
    // c172
( // c173
'0' // c174a
  // c174b
) char[
    // c176
4 // c177
]
    // c178
fs0 // c179a
  // c179b
, // c180
@rightPad (
    // c182
'0' ) // c184a
  // c184b
char[ // c185a
  // c185b
5
    // c186
] fs1 // c188
,
    // c189
@leftPad ( // c191a
  // c191b
' ' ) // c193a
  // c193b
char[ // c194
6 // c195
] // c196a
  // c196b
fs2 // c197
, // c198
@rightPad // c199
( // c200
' '
    // c201
)
    // c202
char[
    // c203
7
    // c204
] fs3
    // c206
,
    // c207
@leftPad ( // c209a
  // c209b
'\x00' ) // c211
char[ // c212a
  // c212b
8 // c213a
  // c213b
]
    // c214
fs4 // c215
, // c216a
  // c216b
@rightPad // c217
(
    // c218
'\x00' // c219
) char[ // c221a
  // c221b
9 ] // c223a
  // c223b
fs5
    // c224
,
    // c225
@leftPad
    // c226
( ) char[
    // c229
10 ]
    // c231
fs6 // c232
, // c233a
  // c233b
@rightPad ( )
    // c236
char[
    // c237
11
    // c238
] // c239
fs7 ,
    // c241
zchar[
    // c242
7 // c243a
  // c243b
] // c244
fz // c245
,
    // c246
@leftPad // c247a
  // c247b
( '0' // c249a
  // c249b
) // c250
zchar[
    // c251
3 // c252a
  // c252b
] fzl0 ,
    // c255
string
    // c256
s1
    // c257
`doc` // c258
,
    // c259
char[] s2 // c261
, // c262
Inner , // c264a
  // c264b
Sub // c265a
  // c265b
{
    // c266
u8 q , // c269
string w
    // c271
, // c272
Deep {
    // c274
u16 // c275
z // c276
, // c277
repeat i32 zs
    // c280
, // c281a
  // c281b
} // c282a
  // c282b
, } ,
    // c285
repeat u8 // c287
ru8 // c288
, // c289a
  // c289b
repeat // c290
u16 ru16 // c292a
  // c292b
, repeat
    // c294
u32 ru32
    // c296
, repeat // c298a
  // c298b
u64 ru64 // c300a
  // c300b
, // c301a
  // c301b
repeat // c302
i8
    // c303
ri8
    // c304
, // c305
repeat i16
    // c307
ri16 // c308
, repeat // c310a
  // c310b
i32 ri32 // c312
,
    // c313
repeat
    // c314
i64 // c315
ri64 , repeat
    // c318
f32 // c319a
  // c319b
rf32 , repeat // c322
f64 rf64 // c324a
  // c324b
, // c325
repeat // c326a
  // c326b
string rstr // c328a
  // c328b
, // c329
repeat // c330a
  // c330b
char[] // c331a
  // c331b
rstr2 // c332a
  // c332b
, repeat
    // c334
char[
    // c335
3 ] // c337a
  // c337b
rfs // c338a
  // c338b
, repeat // c340
zchar[ // c341a
  // c341b
3 ] // c343
rfz
    // c344
, // c345a
  // c345b
repeat // c346a
  // c346b
Inner2
    // c347
, // c348a
  // c348b
repeat
    // c349
Grp // c350a
  // c350b
{
    // c351
u8 k
    // c353
, // c354
char[ // c355a
  // c355b
2
    // c356
] // c357a
  // c357b
v // c358
, }
    // c360
, SeqNum // c362
, // c363a
  // c363b
SeqNum // c364a
  // c364b
seq2 // c365a
  // c365b
, repeat // c367
SeqNum // c368a
  // c368b
seqs , // c370
Symbol
    // c371
, AltSymbol // c373a
  // c373b
alt , ZSym // c376
, // c377
Note , // c379
repeat
    // c380
Symbol // c381a
  // c381b
syms // c382a
  // c382b
, // c383
Price // c384a
  // c384b
px // c385a
  // c385b
, u16 // c387a
  // c387b
MsgType // c388a
  // c388b
, // c389a
  // c389b
u32 // c390a
  // c390b
BodyLen
    // c391
@lengthOf( Body ) , // c395
match // c396
MsgType // c397
as
    // c398
Body // c399a
  // c399b
{ // c400a
  // c400b
1 // c401a
  // c401b
:
    // c402
Logon // c403
,
    // c404
[
    // c405
2
    // c406
, // c407a
  // c407b
3 ] // c409a
  // c409b
: // c410
Logout , // c412
7 // c413
: Logon
    // c415
,
    // c416
9 : Empty , } , // c422a
  // c422b
u32 Checksum @calculatedFrom( // c425a
  // c425b
""CRC32""
    // c426
) , // c428a
  // c428b
}
    // c429
")).
Eval vm_compute in ("<<<M4566>>>" ++ check (runes_of_ascii "

  packet
	metadata{
	zchar[
10	] i64_
`say ""hi""`
	, repeat// " ++ [27880; 37322]%N ++ runes_of_ascii "
    Header
        // a // b
    // " ++ [128512]%N ++ runes_of_ascii " emoji
    uint8x

    ,	@lengthOf(
	falsey	)

    int8  _x @calculatedFrom( ""x y""
) `{ , }`  // c
,
	stringy metadata `a\` // " ++ [128512]%N ++ runes_of_ascii " emoji
, 	 // " ++ [128512]%N ++ runes_of_ascii " emoji
    	@lengthOf(
	Packet
)
i64_{
	match

crc
	as 
Header  {
	[
0
,
	0123456789
]: // c
  Foo ,

    ""abc"" 
	// trailing space 

// @lengthOf(
: pack
,  }
    ,match

    int
	as
	charz
    { 1 
	    /// triple
  	: packetx

,  7

: MetaDataX
    ,  // " ++ [128512]%N ++ runes_of_ascii " emoji

	7

: a1  007 :zchar
, ""CRC32"" 
:
    stringy ,

[
""\" ++ [233]%N ++ runes_of_ascii """, ""CRC32"" 
]
:
i8i8  } 
  //
//x
      ,	pack
    /// triple
  	`doc` ,

tag {
	_x@calculatedFrom( ""CRC32""
	) `
`  ,
repeat  asx	`{ , }`/// triple

, i32
_x	//x
@calculatedFrom(

""\n""	)	`u8 x,`

, } ,

    }  ,
f32a

@lengthOf(
    chars	// trailing space 

	)
, 
string
Packet
,
    @leftPad	(
' ' ) 
@lengthOf( u8x)	// trailing space 
	a1// " ++ [128512]%N ++ runes_of_ascii " emoji
	@calculatedFrom(
    ""x y""
	)	`doc`
,	options1 ,body	`{ , }` ,

    }
    MetaData Foo
	{
uint8
	Z9_	`{ , }` 
,} 
packet
Header

    {pack

{	// trailing space 
	leftPad { u128
	i64_
	, 
zchar[ 
7
        // @lengthOf(
    // `tick` ""quote"" 'q'
    	]
i64_

    @calculatedFrom( ""packet""
)	// packet A { u8 x, }
	`line1
line2` 	 //x
, //

  metadata

    Logon ,
char[

    10	// packet A { u8 x, }
  ]asx 
@lengthOf( uint8x )

    `it's`, }/// triple
, }
,
    @calculatedFrom(

    ""a\\""
    )  Logon
    @lengthOf(
uint8x)	`
`

    ,

    int64 msg_type
    ,

    metadata _x
    // @lengthOf(
    /// triple
,@leftPad
() trueish
{
	Header
    { 
	//x
    // `tick` ""quote"" 'q'
    uint8x  { char[ 0123456789 
]leftPad  @calculatedFrom(  """ ++ [233]%N ++ runes_of_ascii "t" ++ [233]%N ++ runes_of_ascii """

)
`" ++ [28040; 24687; 31867; 22411]%N ++ runes_of_ascii "`

,
} ,	// " ++ [128512]%N ++ runes_of_ascii " emoji

  char[// a // b
1
    ] 
    // c
	// packet A { u8 x, }
    	asx  @calculatedFrom(
""it's"" ) , roots
,	}	,
    } ,
zchar[ 
// " ++ [128512]%N ++ runes_of_ascii " emoji
	255 ] Packet , // `tick` ""quote"" 'q'
    repeat	i8i8
	,

    repeat	float64

    u8x
    ,

    @calculatedFrom(	""" ++ [233]%N ++ runes_of_ascii "t" ++ [233]%N ++ runes_of_ascii """	)

asx @calculatedFrom(

    ""a\""b""

)	, 
}
MetaData 
    /// triple
  roots  // packet A { u8 x, }
    { }
")).
Eval vm_compute in ("<<<M911>>>" ++ check (runes_of_ascii "
root
packet
    u
{ @tag(
    4294967296	) // packet A { u8 x, }
@rightPad( '0' ) @tag(
    7 ) repeat x , char[ // packet A { u8 x, }
42	]
charz
    @lengthOf(Z9_) `line1
line2`,zchar[ 65535 ] // `tick` ""quote"" 'q'
crc @lengthOf( string_// a // b
),
    char[ 65535
]// trailing space 
trueish `crlf
line` ,repeat x_y_z leftPad `" ++ [233]%N ++ runes_of_ascii "` ,T
@calculatedFrom(
""\n"")
,  A ,
char[]  crc @lengthOf( matchKey ) , repeat
// @lengthOf(
/// triple
rootA // @lengthOf(
`tab	here` , @rightPad
//
//	t
( ' ' ) match roots as charz {
""{,}""	: len ,
    """" :
Z9_ ,// trailing space 
""abc""
    : roots
    ,
} ,} packet _x {	@leftPad(// a // b
'\x00' )
    match tag	as u8x { """ ++ [128512]%N ++ runes_of_ascii """ : asx // packet A { u8 x, }
, 4294967296
:
// a // b
// `tick` ""quote"" 'q'
u,
    [
""" ++ [28040; 24687]%N ++ runes_of_ascii """ , 7 , 7 ,
    ""{,}"" , ""a	b"" //x
]// `tick` ""quote"" 'q'
:
metadata
    ,} ,
match
uint8x	as // a // b
x_y_z // c
{	[ 3 //x
, 42
    , // @lengthOf(
""\" ++ [233]%N ++ runes_of_ascii """ ,""\" ++ [233]%N ++ runes_of_ascii """,
""a	b"",007 ,42// packet A { u8 x, }
, ""{,}"" // c
]
: u128
    // trailing space 
    , //	t
""a\\""
    : Foo
,} ,i16 metadata,@leftPad ( ' '	)  u8 Logon
// c
// @lengthOf(
`// not a comment` , Pad {
zchar[  0//x
] int @calculatedFrom( ""it's"" ) , } ,char[
65535
    // trailing space 
    ]
    //x
    i8i8`crlf
line` , string_
, } packet x_y_z {u8 uint8x, match pack as Pad
    { ""it's"" : asx ""`tick`"" :a1 , [  0
    ] : // `tick` ""quote"" 'q'
u128
    , 42 : o
    ,	""" ++ [128512]%N ++ runes_of_ascii """  :	tag // " ++ [27880; 37322]%N ++ runes_of_ascii "
,	} , repeat
i8
    // packet A { u8 x, }
    MetaDataX,@lengthOf( charz ) asx @lengthOf(
    A
) ,  @calculatedFrom(
""{,}"" )@lengthOf( leftPad )@rightPad (
) stringy
    // @lengthOf(
    Z9_ `` ,
calculatedFrom `" ++ [28040; 24687; 31867; 22411]%N ++ runes_of_ascii "`, }	packet // " ++ [27880; 37322]%N ++ runes_of_ascii "
matchKey {@calculatedFrom( ""\n"" ) f32 msg_type , zchar[	10	] chars ,}
")).
Eval vm_compute in ("<<<M1092>>>" ++ check (runes_of_ascii "packet	crc {Logon  {u64 Z9_
// " ++ [27880; 37322]%N ++ runes_of_ascii "
// c
@lengthOf(A
) , f64 int,//
match BodyLength as MetaDataX // a // b
{
""" ++ [28040; 24687]%N ++ runes_of_ascii """ :
msg_type ,00 :
falsey, 00 :
tag // @lengthOf(
,
""it's"": options1, 007
    //	t
    : len ,65535 :
    falsey , } ,	repeat char[] int  ,//x
}, }
root packet	repeatCount { }packet BodyLength{
stringy // trailing space 
{	len	`
`,
    }
    ,  repeat i32 int // a // b
,
match Foo as crc
// trailing space 
/// triple
{
0: i8i8, 3 : // " ++ [27880; 37322]%N ++ runes_of_ascii "
chars
,
}
,repeat  x  { zchar[
007 ]
    chars
,
    repeat chars
    // " ++ [27880; 37322]%N ++ runes_of_ascii "
    {
repeat stringy {x_y_z u128 , string options1 `two words`
, char[  0123456789
]body
    `crlf
line` ,  repeat int32 i64_
, } ,
char[ //x
42]
crc
, Pad
    `tab	here` , f32a
{lengthOf f32a ,} , } ,} ,
i8 stringy , f32a  {match body as body
{
""\" ++ [233]%N ++ runes_of_ascii """// packet A { u8 x, }
:	u128	} ,
    repeat
string len
    `a\`
    , repeat As
// c
//	t
asx `it's` , } , }	MetaData rootA {
//
//
metadata metadata , A _x , u T , char[ // " ++ [128512]%N ++ runes_of_ascii " emoji
3 ] a1 `line1
line2` // " ++ [128512]%N ++ runes_of_ascii " emoji
,
zchar[ 4294967296  ] packetx
    // @lengthOf(
    `{ , }` , string
Logon `" ++ [233]%N ++ runes_of_ascii "` ,  } packet BodyLength
    {@calculatedFrom( /// triple
""\n""
    )
int8
    a1
    @lengthOf( falsey
) , //
@calculatedFrom( ""\" ++ [233]%N ++ runes_of_ascii """)@tag(0123456789
    ) lengthOf , @tag( 007
    // c
    ) //
match Logon // " ++ [27880; 37322]%N ++ runes_of_ascii "
as f32a
// @lengthOf(
/// triple
{ 0 :
zchar // @lengthOf(
, } ,@lengthOf( i8i8 ) match options1
    //	t
    as string_ { [""a\""b"" , 00 , /// triple
4294967296, 4294967296
, ""a	b"",1 ] :
A
}
,}
")).
Eval vm_compute in ("<<<M896>>>" ++ check (runes_of_ascii "MetaData
falsey { char[] f32a
`" ++ [28040; 24687; 31867; 22411]%N ++ runes_of_ascii "` , u8x len
/// triple
// " ++ [128512]%N ++ runes_of_ascii " emoji
`" ++ [233]%N ++ runes_of_ascii "`, char[] uint8x , f32 trueish
, char[ 10 ] len `two words`,
    rootA  int
, }
root
packet
    A{ Z9_, repeat MetaDataX
    `it's` , @tag(
007 )	repeat options1 A//	t
,repeat x `line1
line2` ,  MetaDataX
    /// triple
    @lengthOf( options1 ) `say ""hi""`	,
}
// trailing space 
// " ++ [27880; 37322]%N ++ runes_of_ascii "
root packet rootA{ @tag( 255
) char[ 10 ]	Foo @lengthOf( metadata) ``
//
// " ++ [128512]%N ++ runes_of_ascii " emoji
,  @leftPad
    (
'\x00'
) msg_type {
//x
// a // b
float32 // packet A { u8 x, }
Pad
,
    repeat uint32 Logon , },
    @leftPad(
    )
stringy
@calculatedFrom(
""" ++ [128512]%N ++ runes_of_ascii """) `" ++ [28040; 24687; 31867; 22411]%N ++ runes_of_ascii "`  , @tag( 4294967296 )	@tag( 4294967296 ) @lengthOf( // trailing space 
i8i8 ) BodyLength { zchar[42 ] u128 , crc
    {char[
255] Z9_ @lengthOf( int	)
// packet A { u8 x, }
// " ++ [128512]%N ++ runes_of_ascii " emoji
, } ,
}
, @tag(//x
10	)zchar[ 3 ] //	t
stringy @calculatedFrom( ""\n""
) // " ++ [27880; 37322]%N ++ runes_of_ascii "
, a1
    calculatedFrom ,
} packet // packet A { u8 x, }
u8x {
x_y_z@lengthOf(lengthOf ) `crlf
line` , match	uint8x
    as  repeatCount { [
""a\""b""
,
""// no comment"" ] :
    Header [ ""a\\""
    ,// " ++ [27880; 37322]%N ++ runes_of_ascii "
4294967296 ]: roots
// " ++ [128512]%N ++ runes_of_ascii " emoji
// " ++ [128512]%N ++ runes_of_ascii " emoji
,
// " ++ [128512]%N ++ runes_of_ascii " emoji
// @lengthOf(
42 : rootA ,
    [
1 , """" /// triple
,""`tick`"" , ""a	b"" ] : tag
,  ""1""
    : u8x // a // b
,
    }, f32a`a\`
    //x
    ,
@lengthOf( u8x  ) pack asx
, uint64	leftPad , repeat char[ 0] Pad , }
")).
Eval vm_compute in ("<<<M3976>>>" ++ check (runes_of_ascii "
root
packet  i64_  
  // " ++ [27880; 37322]%N ++ runes_of_ascii "
  // a // b
      {	/// triple
	lengthOf
    { // c
  	T
{  /// triple
      zchar
tag	,
    match 
    //

	// `tick` ""quote"" 'q'
body 
	//	t
    as 
      //x
	  falsey {
00 :
	BodyLength

,  [10
, 0
    ,

""1""
	,
    0123456789
    , 
""a\\"",

    ""`tick`""

, """"  ,
    4294967296	] 
:
stringy // c

, // trailing space 
"""" :// " ++ [128512]%N ++ runes_of_ascii " emoji
    	trueish
, // packet A { u8 x, }
  [	""CRC32"" , 00 
,	10 , 1
] :int

    , } ,
    i8  T ,
	    // `tick` ""quote"" 'q'
}  /// triple
,
	msg_type
    {
int64
u
	,},
match rootA  //x
    as i64_

{7
:

    uint8x ,
}

,

    }
	,repeat  // `tick` ""quote"" 'q'
  	calculatedFrom//x
	{Pad
T ,  repeatCount int,
i16
crc@calculatedFrom(	""packet"" )
    ``	,match 
// `tick` ""quote"" 'q'
  // packet A { u8 x, }
  u128 
as
As {	""""

:	crc

    ,
[ 65535, 4294967296
	,	007,
""a	b"" ,10	// `tick` ""quote"" 'q'
	]	: 
rootA
    ,

},}

,zchar[	4294967296 ]u ,

    repeat
    uint16
	string_
    `a\`
,
    }
root 
packet
    A {

match	Logon	as

    asx{ 
[3 ,""a	b""  ] :  MetaDataX
,
0 
:
lengthOf
,

""packet""
:

    // packet A { u8 x, }
// " ++ [27880; 37322]%N ++ runes_of_ascii "
	u8x  , 255 :
repeatCount,
	[
00 , """" 
]

:

charz
    , 
[ """"  ] :	msg_type , 
} ,

    }

")).
Eval vm_compute in ("<<<M668>>>" ++ check (runes_of_ascii "options{// packet A { u8 x, }
uint8x =	'\x00' Foo  =
    65535 ; As
    =
""" ++ [28040; 24687]%N ++ runes_of_ascii """ } options{} // `tick` ""quote"" 'q'
root	packet i8i8
{// packet A { u8 x, }
repeat
calculatedFrom	body `" ++ [233]%N ++ runes_of_ascii "` ,	@tag( 1)
repeat lengthOf{match
asx as x// @lengthOf(
{ """ ++ [233]%N ++ runes_of_ascii "t" ++ [233]%N ++ runes_of_ascii """ : T	}
    //x
    ,	trueish @calculatedFrom( ""\n"") ,
    u32 x ,} , @rightPad ('\x00'	) i32 packetx //	t
@lengthOf(
// @lengthOf(
// " ++ [128512]%N ++ runes_of_ascii " emoji
trueish )
    , @tag( 10) repeat
asx
    { repeat int32 lengthOf , int8
repeatCount ``// a // b
,
repeatCount msg_type ,
msg_type{ Logon { charz u
    `it's` ,calculatedFrom
repeatCount `crlf
line`
    // `tick` ""quote"" 'q'
    ,
    }
, }
,
// " ++ [27880; 37322]%N ++ runes_of_ascii "
//	t
} // " ++ [128512]%N ++ runes_of_ascii " emoji
, _x { // trailing space 
match
    x_y_z
as packetx {""`tick`"" :
Pad ,
    """" : x, } , char[] T, int
,Z9_ falsey, } ,string  T
    `it's` ,@lengthOf(u128
)// @lengthOf(
u128 @calculatedFrom(""1""	)
    , u128 { float { zchar[ 00
] MetaDataX@lengthOf(// " ++ [128512]%N ++ runes_of_ascii " emoji
leftPad
) `it's` , } ,
repeat char[] tag // " ++ [128512]%N ++ runes_of_ascii " emoji
,
} ,
//x
// " ++ [128512]%N ++ runes_of_ascii " emoji
@leftPad
( '0') match A as lengthOf {""packet""
: Header 0123456789 :
leftPad ,
    ""a\""b""	: zchar ""a	b"": // `tick` ""quote"" 'q'
rootA ,
}
    ,
    string crc	, }")).
Eval vm_compute in ("<<<M278>>>" ++ check (runes_of_ascii "MetaData f32a { uint8
/// triple
//x
x ,
f64 As
`" ++ [233]%N ++ runes_of_ascii "`
    // packet A { u8 x, }
    , i64 f32a `u8 x,`  , uint32 // " ++ [128512]%N ++ runes_of_ascii " emoji
string_ `crlf
line` , char[ 10] pack
    `a\` /// triple
,Packet lengthOf	,}
    root
packet
    MetaDataX { i32	u8x`tab	here` ,
char[] stringy @lengthOf( repeatCount
    ) `crlf
line` , @rightPad ( )@lengthOf( Foo  ) char[
65535	] body  , repeat pack{
rootA `it's`
    , match msg_type as  x_y_z {
1:
i64_ , 0123456789
:Logon
    , [ ""CRC32""]
:
A 1
: _x , // a // b
[ 42
    // a // b
    ] //
:// @lengthOf(
repeatCount , ""a	b""
: pack
    ,
},
char[
    4294967296]lengthOf @lengthOf( options1//x
), } , @tag( 4294967296 ) // " ++ [128512]%N ++ runes_of_ascii " emoji
@calculatedFrom( //x
""" ++ [128512]%N ++ runes_of_ascii """ )
// " ++ [128512]%N ++ runes_of_ascii " emoji
// " ++ [27880; 37322]%N ++ runes_of_ascii "
repeat string	u, @lengthOf( // @lengthOf(
f32a	) @tag(
    007 ) @tag(
7  ) msg_type Pad  , }
    MetaData roots
    { u64 MetaDataX
,}
packet // " ++ [27880; 37322]%N ++ runes_of_ascii "
roots
{
@tag(
    255 )
    char[
0123456789
]  Logon`" ++ [28040; 24687; 31867; 22411]%N ++ runes_of_ascii "`
    ,
    body // packet A { u8 x, }
@lengthOf( // a // b
u8x) `two words`
// " ++ [27880; 37322]%N ++ runes_of_ascii "
/// triple
, @lengthOf( Z9_
)
    packetx @calculatedFrom( """ ++ [28040; 24687]%N ++ runes_of_ascii """ )// " ++ [27880; 37322]%N ++ runes_of_ascii "
,
    }
")).
Eval vm_compute in ("<<<M4003>>>" ++ check (runes_of_ascii "// " ++ [27880; 37322]%N ++ runes_of_ascii "
options {
    i8i8 = 007;
    Logon = 3;
}

packet u128 {
    BodyLength {
        char[7] int,
        u16 _x @lengthOf(u),
        i8 rootA `tab	here`,
        stringy MetaDataX `u8 x,`,
    },
    @tag(007)
    f32a @calculatedFrom(""" ++ [28040; 24687]%N ++ runes_of_ascii """) `it's`,
    @calculatedFrom(""x y"")
    char[007] string_ @calculatedFrom(""" ++ [128512]%N ++ runes_of_ascii """),// c
    @calculatedFrom(""// no comment"")
    @calculatedFrom(""a	b"")
    f64 As,// `tick` ""quote"" 'q'
    zchar[7] x `
    `,
    /// triple
    u16 o,
    repeat float32 roots `{ , }`,
    @leftPad()
    // c
    repeatCount {
        float64 u8x `a\`,
        rootA @lengthOf(chars),
        match u128 as roots {
            // a // b
            //
            [""" ++ [128512]%N ++ runes_of_ascii """] : msg_type,
            ""\n"" : u8x,
            00 : crc,
        },
    },
    //x
    /// triple
    u16 lengthOf @calculatedFrom(""" ++ [233]%N ++ runes_of_ascii "t" ++ [233]%N ++ runes_of_ascii """),
}

MetaData repeatCount {
    zchar[0123456789] Logon,
    char[42] int,
}

options {
}

options {
    repeatCount = ""1""
    Z9_ = 255
    string_ = ' ';
    trueish = 3;
    crc = ""packet"";
}")).
Eval vm_compute in ("<<<M841>>>" ++ check (runes_of_ascii "options
{ } packet Foo { string Header `doc` ,
    char[7] leftPad
    , match i64_ as o { 10 //x
: // `tick` ""quote"" 'q'
x	,[""x y"" ] : repeatCount // c
,
0123456789 //	t
:
// @lengthOf(
// `tick` ""quote"" 'q'
roots ,
    [0 ,
7
    ,00 ,
""" ++ [233]%N ++ runes_of_ascii "t" ++ [233]%N ++ runes_of_ascii """
,00 ,/// triple
10
, ""packet"" ] :  stringy ,
    /// triple
    [ 0123456789,
""{,}"" , """" , ""a	b"" ,""a\\"" , ""\n"" , 4294967296,1	] :  BodyLength, /// triple
4294967296: float , },
packetx`
`, zchar[  7 ] Foo ,  Logon ,
match o as calculatedFrom {3: uint8x
    //
    }
    , rootA repeatCount	, }
    root
packet f32a{@lengthOf(
float  ) crc
    `u8 x,`//
, @calculatedFrom(
""{,}"") repeat zchar[
3
    ]Header `` ,match len as pack { [ ""{,}"" , ""a\\""  ] :uint8x , [""packet"" , 42 ,""\n"", 4294967296// c
,  ""CRC32"" ,
    // `tick` ""quote"" 'q'
    007	]
    :Foo , """ ++ [233]%N ++ runes_of_ascii "t" ++ [233]%N ++ runes_of_ascii """
    // packet A { u8 x, }
    : BodyLength , 0123456789: crc , }
    , x As
`u8 x,`
,float64 Pad @lengthOf( repeatCount) ,	char[
00] Logon @lengthOf( tag )	,
    }")).
Eval vm_compute in ("<<<M3605>>>" ++ check (runes_of_ascii "// top
packet // c0a
  // c0b
P1 // c1
{ u8 a // c4
, // c5a
  // c5b
} packet // c7a
  // c7b
P2 // c8a
  // c8b
{ // c9
P1 // c10
, // c11a
  // c11b
}
    // c12
packet
    // c13
P3 // c14a
  // c14b
{ // c15
P2 // c16a
  // c16b
,
    // c17
P1
    // c18
, // c19
} // c20a
  // c20b
packet // c21a
  // c21b
P4 {
    // c23
repeat // c24a
  // c24b
P3
    // c25
,
    // c26
P2 // c27
,
    // c28
}
    // c29
root
    // c30
packet // c31a
  // c31b
P5 // c32
{ // c33a
  // c33b
P4 // c34a
  // c34b
, // c35a
  // c35b
P3 // c36
, // c37
P1 // c38
, // c39
u8 // c40
K , match // c43a
  // c43b
K // c44a
  // c44b
as
    // c45
Body // c46a
  // c46b
{ // c47a
  // c47b
4
    // c48
: // c49
P4 // c50
, // c51a
  // c51b
3 // c52a
  // c52b
: // c53a
  // c53b
P3 // c54a
  // c54b
, // c55a
  // c55b
2
    // c56
:
    // c57
P2 // c58
, 1
    // c60
: // c61
P1
    // c62
, // c63
} , }
    // c66
")).
Eval vm_compute in ("<<<M4286>>>" ++ check (runes_of_ascii "

  packet 
As{  // " ++ [27880; 37322]%N ++ runes_of_ascii "
@leftPad
('0' 
    /// triple

)	@lengthOf( i64_

) 
    // @lengthOf(
		/// triple
@leftPad  (

'\x00'

)
    calculatedFrom  f32a 
,
	match
x as
x_y_z {  """" 

    // c
  	:	body

    , 007: 
o 
,

    [	""{,}""	]

    : 
As
, 
""\n"" :
stringy
	, 4294967296:

    roots
,
	}
,
calculatedFrom ,match Pad
    as

    asx
{	[

""" ++ [28040; 24687]%N ++ runes_of_ascii """ 
,

""1"", ""a	b""
,

3 , 
""x y"",  00
    ,10 
,	""\" ++ [233]%N ++ runes_of_ascii """
]
:Pad  65535
:  x

7
:
x_y_z 3 :

    charz 
, 
""" ++ [233]%N ++ runes_of_ascii "t" ++ [233]%N ++ runes_of_ascii """
:lengthOf
    } 
,
    @calculatedFrom(
""{,}""
    )

    @calculatedFrom(""CRC32""
    )
    @calculatedFrom(

    ""a	b"")

/// triple

// trailing space 
  crc As	/// triple
    	,
calculatedFrom

{	char[]x

    ``,  } 
,
@rightPad 	 // `tick` ""quote"" 'q'
  (

'\x00'
) repeat 
char[]asx  /// triple
    `tab	here`

    ,

f32a 
{ repeat
char u,
    } 	 // `tick` ""quote"" 'q'

,
	}")).
Eval vm_compute in ("<<<M421>>>" ++ check (runes_of_ascii "// @lengthOf(
MetaData Pad
    { }
MetaData
msg_type { // packet A { u8 x, }
packetx i64_ , char[ 1 ] Foo
`" ++ [233]%N ++ runes_of_ascii "`	, } MetaData o  { }
    // `tick` ""quote"" 'q'
    options //x
{ MetaDataX =u32 ;
// @lengthOf(
//x
trueish
    //	t
    ='0'	options1 = 65535 ; Pad ='0'
; x_y_z =
    //x
    ""a\""b""
    } packet chars
// trailing space 
//	t
{ @calculatedFrom(
    ""a\\"" ) //	t
match
//x
// trailing space 
charz as  Foo { [4294967296 ,
    ""CRC32"" ,
// @lengthOf(
// c
3
, ""a\""b""
,
    // a // b
    ""CRC32""] :
// trailing space 
// c
i8i8
,
} , @calculatedFrom(""" ++ [233]%N ++ runes_of_ascii "t" ++ [233]%N ++ runes_of_ascii """
) char[] chars @calculatedFrom(""// no comment"" ) , char[]
    x_y_z//
,
@lengthOf(
trueish
) @lengthOf( packetx) @lengthOf( packetx  ) Logon
    @calculatedFrom( ""it's""	)
, string
_x  , uint32 packetx ,
    repeat MetaDataX`tab	here`
    ,
}
")).
Eval vm_compute in ("<<<M166>>>" ++ check (runes_of_ascii "packet A {
@lengthOf(
    lengthOf)int16 packetx // trailing space 
@calculatedFrom(""1"" )
    , repeat u64 Packet`
` , match trueish as /// triple
roots { 3
: A ,""x y""
// " ++ [27880; 37322]%N ++ runes_of_ascii "
//
:
BodyLength
    //
    ,
    42:Foo  , },
} packet As	{
    msg_type @lengthOf(
    /// triple
    u )
    , }root packet
    zchar
    {i8i8 i8i8
`
` ,zchar
    {int8	Foo
`a\`  , },
    f32 pack @lengthOf(
crc
// packet A { u8 x, }
// c
) , @calculatedFrom( ""{,}""	) // " ++ [27880; 37322]%N ++ runes_of_ascii "
match crc as
roots { 65535 : int ""packet""
:  float ,00 : zchar
// packet A { u8 x, }
// `tick` ""quote"" 'q'
, [ ""x y""] :
options1, ""it's""
:x, } , @lengthOf(
Packet)
    match x
    //	t
    as As{ //	t
0: lengthOf
,
    //	t
    3 : pack , ""it's""  : x_y_z ,
""a\""b"" : metadata
} , uint16
    i8i8, } // a // b")).
Eval vm_compute in ("<<<M3615>>>" ++ check (runes_of_ascii "options { // c1a
  // c1b
LittleEndian
    // c2
= // c3
true // c4a
  // c4b
; // c5
StringPrefixLenType // c6
= u8 // c8
; // c9a
  // c9b
ArrayPrefixLenType // c10
=
    // c11
u8
    // c12
;
    // c13
} // c14a
  // c14b
packet Ack // c16
{ // c17a
  // c17b
} // c18
root packet // c20a
  // c20b
Quote
    // c21
{ // c22a
  // c22b
Ack // c23a
  // c23b
, // c24
InSym94 // c25a
  // c25b
{ repeat Ack
    // c28
, // c29
} // c30
, u16 // c32
msgKind , u16 OrderId // c36a
  // c36b
@lengthOf( // c37a
  // c37b
Body
    // c38
) // c39a
  // c39b
, match // c41
msgKind
    // c42
as // c43a
  // c43b
Body
    // c44
{ // c45
[ 110 // c47
, // c48
48
    // c49
] : Ack // c52
, // c53a
  // c53b
}
    // c54
, } // c56
")).
Eval vm_compute in ("<<<M933>>>" ++ check (runes_of_ascii "packet //x
Foo
    {char _x ,
@calculatedFrom(
    // c
    ""`tick`"")uint8x , @calculatedFrom(""it's"" ) repeat metadata {int64 Pad  , // " ++ [128512]%N ++ runes_of_ascii " emoji
float , pack
    // c
    matchKey`" ++ [28040; 24687; 31867; 22411]%N ++ runes_of_ascii "`
, }, string lengthOf
//
/// triple
,
zchar[ 7 ]	chars ,i16 asx @calculatedFrom(
""{,}"" )`u8 x,` , @calculatedFrom(""a\\"" ) u32 o `tab	here`
//
// a // b
,match u8x as
    chars {[ ""// no comment"",""`tick`"", ""x y""
    ,0
,""\" ++ [233]%N ++ runes_of_ascii """, //	t
00 ,""" ++ [233]%N ++ runes_of_ascii "t" ++ [233]%N ++ runes_of_ascii """ ]	:
lengthOf ,
},  } options
{ crc// `tick` ""quote"" 'q'
=u64 }packet metadata { @rightPad () float len ,} options {  f32a =false
//	t
//
;
    calculatedFrom =  10;//	t
pack =
    char[  42
    ] trueish = ' '
}
    root  packet leftPad	{ i32
x
    `{ , }` ,
}
")).
Eval vm_compute in ("<<<M164>>>" ++ check (runes_of_ascii "MetaData
Packet {
    float	Pad ,u32 // " ++ [128512]%N ++ runes_of_ascii " emoji
Foo `it's`
    ,uint16 stringy
    , } packet
    stringy // @lengthOf(
{ @lengthOf(
    chars
) repeat f32 pack ,  @lengthOf(
rootA
)
    // @lengthOf(
    @calculatedFrom( ""CRC32""  ) char[] MetaDataX
    // a // b
    `" ++ [28040; 24687; 31867; 22411]%N ++ runes_of_ascii "` , @tag( 4294967296
    ) len	@calculatedFrom(""a	b"")
,
} packet
stringy { f32 leftPad/// triple
,
stringy { int	@calculatedFrom(""1"" ) `" ++ [233]%N ++ runes_of_ascii "`,	char[] o, zchar[ 0123456789  ]
    matchKey @lengthOf(	lengthOf )
`two words`
, }
,
@leftPad ('\x00'
) @lengthOf(
// " ++ [128512]%N ++ runes_of_ascii " emoji
/// triple
falsey) repeat string falsey
    `// not a comment` // trailing space 
, //	t
string Pad
    , }

")).
Eval vm_compute in ("<<<M106>>>" ++ check (runes_of_ascii "packet  matchKey
{
    } options{ int = ""a\\""
; lengthOf //	t
= ""it's"" } MetaData lengthOf { Pad  tag
    , } root packet
    x {int @lengthOf(	pack )
`a\` //
, string matchKey
@lengthOf( chars
    )  `" ++ [233]%N ++ runes_of_ascii "` , repeat repeatCount
//x
//
{
    // packet A { u8 x, }
    match x_y_z as A
    {""1"": o	,
// packet A { u8 x, }
// `tick` ""quote"" 'q'
7 :uint8x
// `tick` ""quote"" 'q'
//	t
, [
// `tick` ""quote"" 'q'
// " ++ [128512]%N ++ runes_of_ascii " emoji
65535 , """"
] ://
Header """ ++ [233]%N ++ runes_of_ascii "t" ++ [233]%N ++ runes_of_ascii """ :  u8x
    """ ++ [28040; 24687]%N ++ runes_of_ascii """ : charz 65535 :
stringy }// " ++ [128512]%N ++ runes_of_ascii " emoji
,	zchar[007]	uint8x ,f32 repeatCount @lengthOf( // c
float) `two words` , f64 A  `u8 x,`	,
}, }
    packet Header{ }
")).
Eval vm_compute in ("<<<M13>>>" ++ check (runes_of_ascii "
packet msg_type
    // packet A { u8 x, }
    {//	t
string	packetx @lengthOf( charz )	, @calculatedFrom( """"  )
repeat char[ 0123456789
    ]
    // c
    int `it's` ,
    @rightPad (// packet A { u8 x, }
)
@tag( 42 )
    @calculatedFrom( ""`tick`""
) repeat
uint16
falsey  `" ++ [233]%N ++ runes_of_ascii "`
, i32 Foo , @tag(7 ) u64
chars@lengthOf(  BodyLength ), i16
    Z9_@lengthOf(/// triple
a1 ) ,@lengthOf(leftPad ) lengthOf body ``	, @tag(
    007 )
char[
    10 //x
]
_x
// a // b
// " ++ [27880; 37322]%N ++ runes_of_ascii "
@lengthOf(
    roots )	`
` , // a // b
@calculatedFrom(""a\\"" )
    float64 //	t
rootA`doc` , string T @calculatedFrom( """" ) , }")).
Eval vm_compute in ("<<<M859>>>" ++ check (runes_of_ascii "  MetaData
a1{leftPad Foo `" ++ [233]%N ++ runes_of_ascii "` , u16
    BodyLength , } packet packetx
    { } options{ As
= """" string_=// c
true ; } //	t
packet	zchar  { u128 @lengthOf( stringy ) `" ++ [28040; 24687; 31867; 22411]%N ++ runes_of_ascii "` ,
Z9_
As `` ,
    // a // b
    repeat u128
body`" ++ [233]%N ++ runes_of_ascii "` , @rightPad	( ' ') @tag( 42 ) match charz
as a1 {""packet"" :
i64_	, } , int
    /// triple
    @lengthOf( As
)  `// not a comment`
//
//x
, string body,@calculatedFrom( ""\n"" ) u8 a1, @leftPad( '0'// a // b
)repeat i64_ `a\` , pack
    stringy  , zchar[	00 ] len @calculatedFrom(
//x
// `tick` ""quote"" 'q'
""packet"" ) `
`,// trailing space 
}
")).
Eval vm_compute in ("<<<M4537>>>" ++ check (runes_of_ascii "packet f32a {
    roots {
        chars calculatedFrom,
        u16 Header `" ++ [233]%N ++ runes_of_ascii "`,
        char[] repeatCount,//	t
    },
    @calculatedFrom(""x y"")
    i32 crc @calculatedFrom(""x y""),
    repeat uint64 lengthOf,
    repeat char[65535] u,
    @lengthOf(tag)
    @lengthOf(pack)
    @calculatedFrom(""packet"")
    // packet A { u8 x, }
    match A as f32a {
        // trailing space 
        // c
        ""`tick`"" : i8i8,
    },
    @tag(0123456789)
    repeat repeatCount crc,
    repeat u32 options1 `a\`,
}

options {
    matchKey = '0';
}")).
Eval vm_compute in ("<<<M126>>>" ++ check (runes_of_ascii "root packet pack { @calculatedFrom(	""`tick`"")
    @calculatedFrom(
    // " ++ [128512]%N ++ runes_of_ascii " emoji
    ""\n"" ) @tag( 0123456789 )match zchar as string_ {	[ ""packet"" ] //
:  i8i8 , [
0123456789 , 7	] :string_ ,
//x
// `tick` ""quote"" 'q'
0 : options1 ,
""\" ++ [233]%N ++ runes_of_ascii """
:// `tick` ""quote"" 'q'
Foo	,}
, @lengthOf(	calculatedFrom )
Foo	@lengthOf(
    x)
`crlf
line`
, lengthOf @lengthOf(int )  ,T , @lengthOf(  rootA) zchar[
007 ]
// " ++ [128512]%N ++ runes_of_ascii " emoji
// packet A { u8 x, }
x`crlf
line` , @calculatedFrom(
    ""\n""	) repeat f64	chars
, matchKey _x, }")).
Eval vm_compute in ("<<<M800>>>" ++ check (runes_of_ascii "options {  }packet Packet
    { repeat
zchar[ 0123456789 ]
    crc , repeat zchar[	4294967296
]Z9_ ,// packet A { u8 x, }
rootA ,repeat Packet
    { lengthOf{
u8x `{ , }` , zchar[ 0123456789 ] lengthOf
`{ , }` , // " ++ [27880; 37322]%N ++ runes_of_ascii "
Header { repeat
// c
//x
f32 As `line1
line2`	,
    charz
    @calculatedFrom( ""1""
) , } , },},
i8//	t
float
@lengthOf( T// packet A { u8 x, }
) ,@lengthOf(
    metadata )
@calculatedFrom( ""packet""
    // a // b
    ) @lengthOf( repeatCount ) repeat
f32 Foo	, } 	 ")).
Eval vm_compute in ("<<<M1354>>>" ++ check (runes_of_ascii "options { Packet = u8 ; }packet  metadata // @lengthOf(
{ charz {	match asx
    as
A
{
[ ""\n"",
    // " ++ [128512]%N ++ runes_of_ascii " emoji
    ""a\""b"" ]
:string_
""a\\"" :float
    // @lengthOf(
    , [ 10 ] :
// c
// a // b
leftPad ,
255:
Packet
,[ ""a	b"", ""a	b"" , """ ++ [28040; 24687]%N ++ runes_of_ascii """	, 42 ,
// " ++ [27880; 37322]%N ++ runes_of_ascii "
// packet A { u8 x, }
""a\\"" ] :
    repeatCount , [  255	, """ ++ [128512]%N ++ runes_of_ascii """ ,
0123456789 // trailing space 
,
""" ++ [233]%N ++ runes_of_ascii "t" ++ [233]%N ++ runes_of_ascii """ ]: a1} , } , }  packet o {@calculatedFrom( ""\n"" )
repeat len
    ,
// trailing space 
//
body Logon
,
    }")).
Eval vm_compute in ("<<<M401>>>" ++ check (runes_of_ascii "// " ++ [128512]%N ++ runes_of_ascii " emoji
packet
    roots
{x_y_z @lengthOf(
    u128
) ,
    @calculatedFrom( ""it's"")match
a1
as
    Pad
{ ""`tick`"" : x_y_z ,1
: leftPad 00
:
u8x
7 //x
:falsey , ""1"" :Packet ,
//x
// trailing space 
""`tick`""
    : As//x
}	, @tag(	007 )  char[]MetaDataX ,string chars @calculatedFrom( ""`tick`"" )
    , } root packet calculatedFrom
    { repeat zchar[ 255 ] matchKey `doc` , char[ 4294967296 ]  options1 @lengthOf(
stringy//	t
) , } // a // b")).
Eval vm_compute in ("<<<M1250>>>" ++ check (runes_of_ascii "  MetaData metadata	{repeatCount
asx, u16 trueish ,i8i8 Foo
`say ""hi""`// packet A { u8 x, }
, char[ 4294967296 ]
u,
} packet uint8x {
repeat char[]
    u, @tag(007 )  char[7 ]falsey@calculatedFrom(""" ++ [233]%N ++ runes_of_ascii "t" ++ [233]%N ++ runes_of_ascii """ ) , @leftPad (
    '\x00' )
@lengthOf(	leftPad )
Packet{
    repeat //	t
packetx Header ,tag `" ++ [233]%N ++ runes_of_ascii "` , i16 _x `a\` , },	repeat A {//	t
repeat Header
`doc` ,i64_  , char[ 10] asx
    `two words`
, }// `tick` ""quote"" 'q'
,} 	 ")).
Eval vm_compute in ("<<<M3901>>>" ++ check (runes_of_ascii "  packet int

    {	@tag(7
)  @tag(

    007 )
zchar[
    4294967296

    ]
	Logon
@calculatedFrom(
	""it's"" )

    `" ++ [233]%N ++ runes_of_ascii "`
	,	@leftPad ( ) @lengthOf(
falsey
) char
    x@lengthOf( 
	// `tick` ""quote"" 'q'
	// " ++ [27880; 37322]%N ++ runes_of_ascii "
	msg_type )
    `it's`	,
	match
	a1
as BodyLength
	{
    42
	: u

    }

    ,repeat

    float32

    packetx ,

    asx

`u8 x,`  // trailing space 
	,lengthOf 
,
roots
, }

")).
Eval vm_compute in ("<<<M4288>>>" ++ check (runes_of_ascii "packet stringy {
    Logon {
        match string_ as i64_ {
            ""x y"" : string_,
            // " ++ [27880; 37322]%N ++ runes_of_ascii "
            // `tick` ""quote"" 'q'
            ""`tick`"" : string_,
            1 : float,
            [""1""] : options1,
        },
        zchar[1] crc @calculatedFrom("""") `two words`,
        f32a,
        float32 lengthOf,
    },
    @tag(255)
    u8x @calculatedFrom(""abc"") `a\`,
}")).
Eval vm_compute in ("<<<M4309>>>" ++ check (runes_of_ascii "packet Z9_ {
    @lengthOf(pack)
    calculatedFrom u128,/// triple
    @tag(4294967296)
    u64 options1,
    uint16 uint8x @calculatedFrom(""\n""),//
}

packet pack {
    leftPad MetaDataX,
    @leftPad()
    @lengthOf(packetx)
    repeat lengthOf {
        f64 repeatCount @calculatedFrom(""a\""b"") `tab	here`,
    },
    repeat pack body,
}

options {
    u128 = true;
}")).
Eval vm_compute in ("<<<M525>>>" ++ check (runes_of_ascii "packet pack// @lengthOf(
{ repeat
As// " ++ [27880; 37322]%N ++ runes_of_ascii "
{ char[65535  ] u128 // a // b
@lengthOf( a1 )
`tab	here` ,i8 rootA `crlf
line`
,
    match //x
i8i8 as
    zchar { [""1""]
: tag ,""a	b"":
u8x
    ""a\""b""
: calculatedFrom, } , match leftPad //	t
as
    Pad
{
// `tick` ""quote"" 'q'
// trailing space 
65535 : options1
},}	,u32 crc
    , zchar[ 00]
roots, }

")).
Eval vm_compute in ("<<<M4037>>>" ++ check (runes_of_ascii "packet A {
    repeat lengthOf {
        len,
    },
    @tag(42)
    match Header as falsey {
        [4294967296, """ ++ [128512]%N ++ runes_of_ascii """, ""\n""] : Packet,
        1 : falsey,
        ""\" ++ [233]%N ++ runes_of_ascii """ : charz,
    },
    zchar[255] rootA,
    repeat char[10] f32a,
    @calculatedFrom(""// no comment"")
    char[00] trueish @calculatedFrom(""a\""b"") `line1
        line2`,
}")).
Eval vm_compute in ("<<<M3720>>>" ++ check (runes_of_ascii "
packet
A
{

    u8	a	,}
    packet

    B { u16 
b, }
    packet
	C  {	u32  c

,
} 
root

    packet  M 
{

    u16
Kc ,
	u16
Kb
,
u16	Ka

    ,
match
	Kc

as  X
    { 9
    : 
A,10 :

    B	,  }

    , match
	Kb as Y
{ 2 
:
C  ,1 : A
    ,  }
    , match
Ka	as	Z {
    1  :

    B
,

}
,	A

,
B
,C	,}
")).
Eval vm_compute in ("<<<M1916>>>" ++ check (runes_of_ascii "MetaData
    u { }  options {
// c
// @lengthOf(
float = int8 ;rootA =false false ; As =	int16 // `tick` ""quote"" 'q'
repeatCount
    // trailing space 
    =
    int16
; u8x =
    //	t
    '\x00' ; } options	{
    repeatCount
= 0
u128
    //
    = false ; i64_
// trailing space 
// `tick` ""quote"" 'q'
= '0' ; //	t
}
")).
Eval vm_compute in ("<<<M633>>>" ++ check (runes_of_ascii "root packet BodyLength {u16
    tag @calculatedFrom(""packet""
)// packet A { u8 x, }
, u8 i8i8 ,
repeat float64
    string_`u8 x,` , } MetaData
stringy
    {	repeatCount
    a1 ,
    // " ++ [27880; 37322]%N ++ runes_of_ascii "
    char[ 0123456789 ] u128 `doc` //	t
,
    u16 _x , i64
pack
    ,
i64
BodyLength `say ""hi""`, zchar[ 255
    ]
Z9_
    ,}
")).
Eval vm_compute in ("<<<M2072>>>" ++ check (runes_of_ascii "MetaData
    u { }  options {
// c
// @lengthOf(@x
float = int8 ;rootA =false ; As =	int16 // `tick` ""quote"" 'q'
repeatCount
    // trailing space 
    =
    int16
; u8x =
    //	t
    '\x00' ; } options	{
    repeatCount
= 0
u128
    //
    = false ; i64_
// trailing space 
// `tick` ""quote"" 'q'
= '0' ; //	t
}
")).
Eval vm_compute in ("<<<M1927>>>" ++ check (runes_of_ascii "MetaData
    u { }  options {
// c
// @lengthOf(
float = int8 ;rootA =false ; = As	int16 // `tick` ""quote"" 'q'
repeatCount
    // trailing space 
    =
    int16
; u8x =
    //	t
    '\x00' ; } options	{
    repeatCount
= 0
u128
    //
    = false ; i64_
// trailing space 
// `tick` ""quote"" 'q'
= '0' ; //	t
}
")).
Eval vm_compute in ("<<<M1860>>>" ++ check (runes_of_ascii "MetaData
     { }  options {
// c
// @lengthOf(
float = int8 ;rootA =false ; As =	int16 // `tick` ""quote"" 'q'
repeatCount
    // trailing space 
    =
    int16
; u8x =
    //	t
    '\x00' ; } options	{
    repeatCount
= 0
u128
    //
    = false ; i64_
// trailing space 
// `tick` ""quote"" 'q'
= '0' ; //	t
}
")).
Eval vm_compute in ("<<<M2040>>>" ++ check (runes_of_ascii "MetaData
    u { }  options {
// c
// @lengthOf(
float = int8 ;rootA =false ; As =	int16 // `tick` ""quote"" 'q'
repeatCount
    // trailing space 
    =
    int16
; u8x =
    //	t
    '\x00' ; } options	{
    repeatCount
= 0
u128
    //
    = false ; i64_
// trailing space 
// `tick` ""quote"" 'q'
=  ; //	t
}
")).
Eval vm_compute in ("<<<M822>>>" ++ check (runes_of_ascii "packet
packetx {
    match i64_ as roots
// trailing space 
// c
{ 7
:
x 42 :  asx
    // @lengthOf(
    , 65535 : i64_ [ 00 // `tick` ""quote"" 'q'
, 1 ] : Z9_ [ // c
""\n"",3,
007 ]
    :float ,
} , }MetaData metadata {	char[]Header `" ++ [28040; 24687; 31867; 22411]%N ++ runes_of_ascii "` ,Foo stringy
, uint64 body , f32	a1
    , } packet
    chars{ }")).
Eval vm_compute in ("<<<M3602>>>" ++ check (runes_of_ascii "// top
packet // c0
FooBar // c1a
  // c1b
{ // c2
u8 a , // c5a
  // c5b
} // c6a
  // c6b
packet // c7a
  // c7b
foo_bar
    // c8
{ // c9a
  // c9b
u16
    // c10
b // c11a
  // c11b
, }
    // c13
root // c14
packet // c15
R // c16
{
    // c17
FooBar // c18
, // c19
foo_bar
    // c20
, } ")).
Eval vm_compute in ("<<<M3616>>>" ++ check (runes_of_ascii "
options
	{

LittleEndian=

true;
StringPrefixLenType=

u8;

ArrayPrefixLenType=  u8;

} packet
Ack
    {
} root	packet Quote	{Ack,
	InSym94
	{  repeat
Ack,} 
,
u16
msgKind  , 
u16
OrderId @lengthOf(

Body ) ,match msgKind
    as 
Body {
[110
	,
48 
]	: Ack

    , }
	,
    }")).
Eval vm_compute in ("<<<M3549>>>" ++ check (runes_of_ascii "packet B { // c2
u8 a ,
    // c5
}
    // c6
root // c7
packet P { u8
    // c11
K // c12
, // c13
match K as Body
    // c17
{ // c18a
  // c18b
1 : B // c21
,
    // c22
} ,
    // c24
u16 // c25
L // c26
@lengthOf(
    // c27
Body // c28
)
    // c29
, }
    // c31
")).
Eval vm_compute in ("<<<M4369>>>" ++ check (runes_of_ascii "MetaData rootA

    {  }

    packet
BodyLength	{

    repeat 
int32
falsey
    `a\`
	, i64

rootA

@lengthOf(
	falsey)

, 
}
root

    packet

    x{	u64  A`" ++ [233]%N ++ runes_of_ascii "`
, }
	packet	// @lengthOf(
BodyLength
{ } 
	    //x
	options
{
    A= ""\n""

    ; }")).
Eval vm_compute in ("<<<M1528>>>" ++ check (runes_of_ascii "packet
//	t
// trailing space 
_x {
// packet A { u8 x, }
// c
char[
3
    ] u8x @lengthOf(
u8x u8x ) , @calculatedFrom(""" ++ [128512]%N ++ runes_of_ascii """ // @lengthOf(
)
i16	Foo
@lengthOf(	string_
    )`doc`	, repeat	i64 metadata , @lengthOf( string_
) i8 // c
u  `line1
line2`	,
}
")).
Eval vm_compute in ("<<<M1655>>>" ++ check (runes_of_ascii "packet
//	t
// trailing space 
_x {
// packet A { u8 x, }
// c
char[
3
    ] u8x @lengthOf(
u8x ) < , @calculatedFrom(""" ++ [128512]%N ++ runes_of_ascii """ // @lengthOf(
)
i16	Foo
@lengthOf(	string_
    )`doc`	, repeat	i64 metadata , @lengthOf( string_
) i8 // c
u  `line1
line2`	,
}
")).
Eval vm_compute in ("<<<M1519>>>" ++ check (runes_of_ascii "packet
//	t
// trailing space 
_x {
// packet A { u8 x, }
// c
char[
3
    ] @lengthOf( u8x
u8x ) , @calculatedFrom(""" ++ [128512]%N ++ runes_of_ascii """ // @lengthOf(
)
i16	Foo
@lengthOf(	string_
    )`doc`	, repeat	i64 metadata , @lengthOf( string_
) i8 // c
u  `line1
line2`	,
}
")).
Eval vm_compute in ("<<<M75>>>" ++ check (runes_of_ascii "MetaData calculatedFrom { // @lengthOf(
tag a1
, uint8 _x`crlf
line`,
// " ++ [27880; 37322]%N ++ runes_of_ascii "
// packet A { u8 x, }
string
    Z9_ ,uint8x A`line1
line2` ,char falsey , packetx Foo
,  }
MetaData body {
string x_y_z``
    , falsey zchar `line1
line2` , } options{ }
")).
Eval vm_compute in ("<<<M4391>>>" ++ check (runes_of_ascii "
packet roots
{
    @lengthOf(

pack)
    @tag(

    4294967296	// c
		) As i8i8 // @lengthOf(
    `line1
line2` ,  repeat  Header  A  ,
    @lengthOf(

    roots  ) 
@lengthOf(  packetx)	@tag(	// trailing space 
	42)

repeat int8 Logon 
,}
")).
Eval vm_compute in ("<<<M1522>>>" ++ check (runes_of_ascii "packet
//	t
// trailing space 
_x {
// packet A { u8 x, }
// c
char[
3
    ] u8x 
u8x ) , @calculatedFrom(""" ++ [128512]%N ++ runes_of_ascii """ // @lengthOf(
)
i16	Foo
@lengthOf(	string_
    )`doc`	, repeat	i64 metadata , @lengthOf( string_
) i8 // c
u  `line1
line2`	,
}
")).
Eval vm_compute in ("<<<M1230>>>" ++ check (runes_of_ascii "root packet roots { } // `tick` ""quote"" 'q'
MetaData As
{ string u
`{ , }` ,	zchar[ 3 ]
x_y_z, i32 roots ,
u16 rootA
    `line1
line2` ,
// `tick` ""quote"" 'q'
// a // b
i32// @lengthOf(
matchKey
    `doc`, u _x //	t
`{ , }` , }
")).
Eval vm_compute in ("<<<M3988>>>" ++ check (runes_of_ascii "packet _x {
    // packet A { u8 x, }
    // c
    char[3] u8x @lengthOf(u8x),
    @calculatedFrom(""" ++ [128512]%N ++ runes_of_ascii """)
    i16 Foo @lengthOf(string_) `doc`,
    repeat i64 metadata,
    @lengthOf(string_)
    i8 u `line1
        line2`,
}")).
Eval vm_compute in ("<<<M203>>>" ++ check (runes_of_ascii "packet u128  { @calculatedFrom(
""a	b"" ) repeat  uint8x u128
`line1
line2`  , }
    packet string_ { @calculatedFrom(
// `tick` ""quote"" 'q'
// packet A { u8 x, }
""" ++ [128512]%N ++ runes_of_ascii """ )
uint8 Pad
    @lengthOf(
    o )
`{ , }`, }")).
Eval vm_compute in ("<<<M9>>>" ++ check (runes_of_ascii "options
    {
As= ""1"" ; matchKey = 0123456789 options1
    =
0123456789 ;// a // b
asx// c
=
    ""CRC32"" ;
    tag =00;
}// trailing space 
packet
matchKey { @calculatedFrom(
    ""abc""	) int32 repeatCount ,
}
")).
Eval vm_compute in ("<<<M331>>>" ++ check (runes_of_ascii "options {
calculatedFrom =  '0'
    // c
    float= char[] ; Pad= 0	;//	t
_x
    // packet A { u8 x, }
    =007
    ;
}packet u
    { @lengthOf( u) repeat
string /// triple
o
,} root packet lengthOf { }

")).
Eval vm_compute in ("<<<M1829>>>" ++ check (runes_of_ascii "options { trueish = ""`tick`"" ; string_= """ ++ [233]%N ++ runes_of_ascii "t" ++ [233]%N ++ runes_of_ascii """
    // c
    } root
    packet body { stringy @calculatedFrom(
""a	b"" ) `line1
line2` , }
packet Logon {
    @leftPad(
    ' ' ) //	t
u16 string_ `u8 x,` as
}
")).
Eval vm_compute in ("<<<M1768>>>" ++ check (runes_of_ascii "options { trueish = ""`tick`"" ; string_= """ ++ [233]%N ++ runes_of_ascii "t" ++ [233]%N ++ runes_of_ascii """
    // c
    } root
    packet body { stringy @calculatedFrom(
""a	b"" ) `line1
line2` } ,
packet Logon {
    @leftPad(
    ' ' ) //	t
u16 string_ `u8 x,` ,
}
")).
Eval vm_compute in ("<<<M1806>>>" ++ check (runes_of_ascii "options { trueish = ""`tick`"" ; string_= """ ++ [233]%N ++ runes_of_ascii "t" ++ [233]%N ++ runes_of_ascii """
    // c
    } root
    packet body { stringy @calculatedFrom(
""a	b"" ) `line1
line2` , }
packet Logon {
    @leftPad(
    ' '  //	t
u16 string_ `u8 x,` ,
}
")).
Eval vm_compute in ("<<<M1749>>>" ++ check (runes_of_ascii "options { trueish = ""`tick`"" ; string_= """ ++ [233]%N ++ runes_of_ascii "t" ++ [233]%N ++ runes_of_ascii """
    // c
    } root
    packet body { stringy @lengthOf(
""a	b"" ) `line1
line2` , }
packet Logon {
    @leftPad(
    ' ' ) //	t
u16 string_ `u8 x,` ,
}
")).
Eval vm_compute in ("<<<M326>>>" ++ check (runes_of_ascii "// @lengthOf(
root packet
MetaDataX{
    repeat
i16
packetx, @tag( 007 )
x
    @lengthOf(
_x
)
,
@calculatedFrom(  """ ++ [28040; 24687]%N ++ runes_of_ascii """ ) repeat
Pad ,	@lengthOf(
falsey) @tag( 00 ) @tag( 3
    )string i8i8,}")).
Eval vm_compute in ("<<<M277>>>" ++ check (runes_of_ascii "// " ++ [128512]%N ++ runes_of_ascii " emoji
MetaData trueish {
    // @lengthOf(
    asx lengthOf
    // a // b
    , int8 // c
float`it's`
,}
MetaData
int{ int8
charz ,} packet asx { o @calculatedFrom(
""\" ++ [233]%N ++ runes_of_ascii """
    ) ,
}
")).
Eval vm_compute in ("<<<M295>>>" ++ check (runes_of_ascii "  MetaData x_y_z { string msg_type`" ++ [233]%N ++ runes_of_ascii "`, } packet chars{ repeat i32 metadata`say ""hi""` ,@leftPad ( ) @tag( 0123456789
)repeat zchar[
    // a // b
    007]
    //x
    lengthOf , }
")).
Eval vm_compute in ("<<<M1815>>>" ++ check (runes_of_ascii "options { trueish = ""`tick`"" ; string_= """ ++ [233]%N ++ runes_of_ascii "t" ++ [233]%N ++ runes_of_ascii """
    // c
    } root
    packet body { stringy @calculatedFrom(
""a	b"" ) `line1
line2` , }
packet Logon {
    @leftPad(
    ' ' )")).
Eval vm_compute in ("<<<M857>>>" ++ check (runes_of_ascii "packet  MetaDataX
{
char
    falsey,
    zchar[ 1
]a1 @calculatedFrom( ""a\\""
), }packet
calculatedFrom{ zchar[42 ]
_x `tab	here` , string roots@lengthOf( chars) , }")).
Eval vm_compute in ("<<<M1083>>>" ++ check (runes_of_ascii "// c
options
    //	t
    {
// `tick` ""quote"" 'q'
/// triple
repeatCount =
    00 tag
= ""{,}""MetaDataX = '0'o=
""`tick`""
//x
// `tick` ""quote"" 'q'
a1 = ""abc""
}
")).
Eval vm_compute in ("<<<M2137>>>" ++ check (runes_of_ascii "options{
_x
= true
} options
{ o	= /// triple
false
    ; `two words`
= ""\n"" } root packet	Pad
/// triple
// packet A { u8 x, }
{	chars
    // a // b
    ,}")).
Eval vm_compute in ("<<<M2322>>>" ++ check (runes_of_ascii "// c
packet x { @lengthOf( metadata "" ) repeat lengthOf
,a1{
trueish	,// c
repeat//	t
MetaDataX , } , zchar[
    42	] rootA // `tick` ""quote"" 'q'
,
    }
")).
Eval vm_compute in ("<<<M2081>>>" ++ check (runes_of_ascii "options{ {
_x
= true
} options
{ o	= /// triple
false
    ; chars
= ""\n"" } root packet	Pad
/// triple
// packet A { u8 x, }
{	chars
    // a // b
    ,}")).
Eval vm_compute in ("<<<M2415>>>" ++ check (runes_of_ascii "// c
packet x { @lengthOf( metadata ) repeat lengthOf
,{a1
trueish	,// c
repeat//	t
MetaDataX , } , zchar[
    42	] rootA // `tick` ""quote"" 'q'
,
    }
")).
Eval vm_compute in ("<<<M2086>>>" ++ check (runes_of_ascii "options{
=
_x true
} options
{ o	= /// triple
false
    ; chars
= ""\n"" } root packet	Pad
/// triple
// packet A { u8 x, }
{	chars
    // a // b
    ,}")).
Eval vm_compute in ("<<<M2089>>>" ++ check (runes_of_ascii "options{
_x
 true
} options
{ o	= /// triple
false
    ; chars
= ""\n"" } root packet	Pad
/// triple
// packet A { u8 x, }
{	chars
    // a // b
    ,}")).
Eval vm_compute in ("<<<M2318>>>" ++ check (runes_of_ascii "// c
packet x { @lengthOf( metadata ) repeat lengthOf
,a1{
trueish	,// c
repeat//	t
MetaDataX , } , zchar[
    42	]  // `tick` ""quote"" 'q'
,
    }
")).
Eval vm_compute in ("<<<M3585>>>" ++ check (runes_of_ascii "
packet A
    { 
u8	a
,	} packet
    B{  u16 b, } root	packet 
P
	{ u8  K , match  K
as M
	{

[

    1, 2	] :	A	,

3
    : B ,
7:
A  , }  , }
")).
Eval vm_compute in ("<<<M852>>>" ++ check (runes_of_ascii "MetaData calculatedFrom{
// @lengthOf(
// a // b
string Packet // a // b
,
zchar[
    42
    ] msg_type , char[
    3] u128
, i16 f32a , }

")).
Eval vm_compute in ("<<<M4249>>>" ++ check (runes_of_ascii "packet A {
    match k as n {
        [
            ""a"", ""bb"", ""c c"", ""d"", ""e"",
            ""f"", ""g""
        ] : B,
        2 : C,
    },
}")).
Eval vm_compute in ("<<<M1464>>>" ++ check (runes_of_ascii "
packet
    falsey { Header@calculatedFrom(""packet""  ) , char[
    0123456789 ] packetx
    , @calculatedFrom( // `tick` ""quote"" 'q'")).
Eval vm_compute in ("<<<M1443>>>" ++ check (runes_of_ascii "
packet
    falsey { Header@calculatedFrom(""packet""  ) , char[
    0123456789 0123456789 ] packetx
    , } // `tick` ""quote"" 'q'")).
Eval vm_compute in ("<<<M3021>>>" ++ check (runes_of_ascii "packet A {
    u16 len @lengthOf(body) `a
    b
  c`,
    u32 crc @calculatedFrom(""CRC32"") `a
    b
  c`,
    string body,
}")).
Eval vm_compute in ("<<<M3898>>>" ++ check (runes_of_ascii "packet rootA {
}

// `tick` ""quote"" 'q'
/// triple
options {
    stringy = 0123456789;
    T = 42;
    string_ = ""a\""b"";
}")).
Eval vm_compute in ("<<<M3337>>>" ++ check (runes_of_ascii "root packet matchKey { zchar[ 3 ] pack @calculatedFrom( ""a	b"" ) `doc` ,
// c
} options { } MetaData A { int8 msg_type , }")).
Eval vm_compute in ("<<<M1433>>>" ++ check (runes_of_ascii "
packet
    falsey { Header@calculatedFrom(""packet""  ) , , char[
    0123456789 ] packetx
    , } // `tick` ""quote"" 'q'")).
Eval vm_compute in ("<<<M1405>>>" ++ check (runes_of_ascii "
packet
    uint32 { Header@calculatedFrom(""packet""  ) , char[
    0123456789 ] packetx
    , } // `tick` ""quote"" 'q'")).
Eval vm_compute in ("<<<M1551>>>" ++ check (runes_of_ascii "packet
//	t
// trailing space 
_x {
// packet A { u8 x, }
// c
char[
3
    ] u8x @lengthOf(
u8x ) , @calculatedFrom(")).
Eval vm_compute in ("<<<M2424>>>" ++ check (runes_of_ascii "// c
packet x { @lengthOf( metadata ) repeat lengthOf
,a1{
trueish	,// c
repeat//	t
MetaDataX , } , zchar[
    ")).
Eval vm_compute in ("<<<M3027>>>" ++ check (runes_of_ascii "packet A {
    u16 len @lengthOf(body) `a

b`,
    u32 crc @calculatedFrom(""CRC32"") `a

b`,
    string body,
}")).
Eval vm_compute in ("<<<M4098>>>" ++ check (runes_of_ascii "
// trailing space 
		MetaData 
u8x {

i64_
i64_
	`doc`	,
i16
	Z9_
`say ""hi""` 
,
BodyLength
	roots 
,	}")).
Eval vm_compute in ("<<<M3569>>>" ++ check (runes_of_ascii "// top
root // c0a
  // c0b
packet P // c2a
  // c2b
{ // c3
string
    // c4
s
    // c5
,
    // c6
} ")).
Eval vm_compute in ("<<<M3004>>>" ++ check (runes_of_ascii "packet A {
    Inner {
        u8 x `a
b`,
        Deep {
            u8 y `a
b`,
        },
    },
}")).
Eval vm_compute in ("<<<M46>>>" ++ check (runes_of_ascii "packet rootA{ }
options
{ uint8x =//	t
u32 ; i64_
=	255 ;
len
    = ' '
    ;
    } // @lengthOf(")).
Eval vm_compute in ("<<<M2627>>>" ++ check (runes_of_ascii "packet A { @rightPad(' ') @lengthOf(b) @calculatedFrom(""c"") @tag(007) match k as n { 1 : B }, }")).
Eval vm_compute in ("<<<M3532>>>" ++ check (runes_of_ascii "

  options
{
	LittleEndian
    =	true
; }	root packet

P

    {repeat  char cs,u8
x	, 
}")).
Eval vm_compute in ("<<<M1063>>>" ++ check (runes_of_ascii "root packet
    calculatedFrom { uint8
pack  @lengthOf(
crc )//
`// not a comment`
    ,}
")).
Eval vm_compute in ("<<<M3273>>>" ++ check (runes_of_ascii "MetaData float { // c
float64 charz `
` , } root packet chars { @rightPad ( '0' ) Foo , }")).
Eval vm_compute in ("<<<M3483>>>" ++ check (runes_of_ascii "// c
packet chars { } packet MetaDataX { @tag( 42 ) i16 string_ , repeat x `say ""hi""` , }")).
Eval vm_compute in ("<<<M3516>>>" ++ check (runes_of_ascii "packet chars { } packet MetaDataX { @tag( 42 ) i16 string_ , repeat x `say ""hi""`
// c
, }")).
Eval vm_compute in ("<<<M1461>>>" ++ check (runes_of_ascii "
packet
    falsey { Header@calculatedFrom(""packet""  ) , char[
    0123456789 ] packetx")).
Eval vm_compute in ("<<<M1270>>>" ++ check (runes_of_ascii "MetaData
T { uint16
roots ,As lengthOf , As
trueish
    , char[]//
Packet ,
    } 	 ")).
Eval vm_compute in ("<<<M3223>>>" ++ check (runes_of_ascii "packet metadata { Logon { A // c
`" ++ [28040; 24687; 31867; 22411]%N ++ runes_of_ascii "` , tag o , } , zchar len `// not a comment` , }")).
Eval vm_compute in ("<<<M1015>>>" ++ check (runes_of_ascii "// trailing space 
packet Pad  {
@lengthOf( asx
    ) repeat
char[ 3
    ] u128 ,
}
")).
Eval vm_compute in ("<<<M3443>>>" ++ check (runes_of_ascii "packet o { repeat Logon uint8x , } // c
options { asx = zchar[ 3 ] stringy = '\x00' }")).
Eval vm_compute in ("<<<M2950>>>" ++ check (runes_of_ascii "packet A {
  match k as n {
    [1, 22, 007, 4, 5, 66, 7, 8, 9] : B
    2 : C
  },
}")).
Eval vm_compute in ("<<<M2276>>>" ++ check (runes_of_ascii "options
{ } options { BodyLength= u16 Header= f64 ; u128 =
    
    ; } // a // b")).
Eval vm_compute in ("<<<M3420>>>" ++ check (runes_of_ascii "MetaData body { i64 pack `it's` , } packet stringy { int16 calculatedFrom , // c
}")).
Eval vm_compute in ("<<<M1331>>>" ++ check (runes_of_ascii "MetaData  options1
    { i8 falsey ,
    int8  Foo `
` , }
root packet asx{} 	 ")).
Eval vm_compute in ("<<<M1521>>>" ++ check (runes_of_ascii "packet
//	t
// trailing space 
_x {
// packet A { u8 x, }
// c
char[
3
    ]")).
Eval vm_compute in ("<<<M2888>>>" ++ check (runes_of_ascii "packet A {
  match k as n {
    [1, ""bb"", 007, ""d""] : B,
    2 : C
  },
}")).
Eval vm_compute in ("<<<M2877>>>" ++ check (runes_of_ascii "packet A {
  match k as n {
    [""a"", 22, ""c c""] : B,
    2 : C
  },
}")).
Eval vm_compute in ("<<<M2948>>>" ++ check (runes_of_ascii "packet A { Inner { match k as n { [1,22,007,4,5,66,7,8] : B, }, }, }")).
Eval vm_compute in ("<<<M1388>>>" ++ check (runes_of_ascii "// trailing space 
MetaData body { int32
    MetaDataX
, As x ,}")).
Eval vm_compute in ("<<<M2866>>>" ++ check (runes_of_ascii "packet A {
  match k as n {
    [1, ""bb""] : B,
    2 : C
  },
}")).
Eval vm_compute in ("<<<M1725>>>" ++ check (runes_of_ascii "options { trueish = ""`tick`"" ; string_= """ ++ [233]%N ++ runes_of_ascii "t" ++ [233]%N ++ runes_of_ascii """
    // c
    }")).
Eval vm_compute in ("<<<M3249>>>" ++ check (runes_of_ascii "// top
root // c0
packet // c1
pack // c2
{ // c3
} // c4
")).
Eval vm_compute in ("<<<M2275>>>" ++ check (runes_of_ascii "options
{ } options { BodyLength= u16 Header= f64 ; u128")).
Eval vm_compute in ("<<<M2793>>>" ++ check (runes_of_ascii "zchar[ 0123456789 = string uint32 @lengthOf( options ;")).
Eval vm_compute in ("<<<M3733>>>" ++ check (runes_of_ascii "MetaData u {
}

packet Header {
    i64 Logon ``,
}")).
Eval vm_compute in ("<<<M827>>>" ++ check (runes_of_ascii "MetaData
zchar{zchar[
    // " ++ [27880; 37322]%N ++ runes_of_ascii "
    7 ] crc,
}
")).
Eval vm_compute in ("<<<M1123>>>" ++ check (runes_of_ascii "packet
    string_{  int64	calculatedFrom , }")).
Eval vm_compute in ("<<<M2562>>>" ++ check (runes_of_ascii "packet A { repeat match k as n { 1 : B }, }")).
Eval vm_compute in ("<<<M3024>>>" ++ check (runes_of_ascii "root packet A {
    u8 x `a
    b
  c`,
}")).
Eval vm_compute in ("<<<M3769>>>" ++ check (runes_of_ascii "options

    {  Header =  '\x00'
;}

")).
Eval vm_compute in ("<<<M2358>>>" ++ check (runes_of_ascii "// c
packet x { @lengthOf( metadata )")).
Eval vm_compute in ("<<<M244>>>" ++ check (runes_of_ascii "
packet/// triple
packetx {
} // " ++ [27880; 37322]%N)).
Eval vm_compute in ("<<<M2592>>>" ++ check (runes_of_ascii "packet A { x @calculatedFrom(c), }")).
Eval vm_compute in ("<<<M3926>>>" ++ check (runes_of_ascii "
options {

    u =

string  }
")).
Eval vm_compute in ("<<<M2735>>>" ++ check (runes_of_ascii ") char[] ] @leftPad ; f64 uint8")).
Eval vm_compute in ("<<<M3122>>>" ++ check (runes_of_ascii "packet A {
 u8 x `d" ++ [12]%N ++ runes_of_ascii "`, // c" ++ [12]%N ++ runes_of_ascii "
}")).
Eval vm_compute in ("<<<M4571>>>" ++ check (runes_of_ascii "options {
    Logon = ' ';
}")).
Eval vm_compute in ("<<<M2594>>>" ++ check (runes_of_ascii "packet A { u8 x @tag(1), }")).
Eval vm_compute in ("<<<M3260>>>" ++ check (runes_of_ascii "root packet pack { // c
}")).
Eval vm_compute in ("<<<M2782>>>" ++ check (runes_of_ascii ", char[] ) MetaData u32")).
Eval vm_compute in ("<<<M4514>>>" ++ check (runes_of_ascii "// top
MetaData o {
}")).
Eval vm_compute in ("<<<M2540>>>" ++ check (runes_of_ascii ": , ; = ( ) [ ] { }")).
Eval vm_compute in ("<<<M149>>>" ++ check (runes_of_ascii "packet	crc
    { }")).
Eval vm_compute in ("<<<M3111>>>" ++ check (runes_of_ascii "// c" ++ [8287]%N ++ runes_of_ascii "
packet A {
}")).
Eval vm_compute in ("<<<M2796>>>" ++ check (runes_of_ascii "p08:'V`g3?Q~EbZ,T")).
Eval vm_compute in ("<<<M2661>>>" ++ check (runes_of_ascii "options { = 1; }")).
Eval vm_compute in ("<<<M1129>>>" ++ check (runes_of_ascii "MetaData
o{ }")).
Eval vm_compute in ("<<<M2751>>>" ++ check ([65533; 65533]%N ++ runes_of_ascii "Q" ++ [65533; 65533; 2]%N ++ runes_of_ascii "l" ++ [65533]%N ++ runes_of_ascii "o" ++ [65533]%N ++ runes_of_ascii "Y")).
Eval vm_compute in ("<<<M2465>>>" ++ check (runes_of_ascii "Metadata")).
Eval vm_compute in ("<<<M4298>>>" ++ check (runes_of_ascii "// c" ++ [8232]%N ++ runes_of_ascii "
")).
Eval vm_compute in ("<<<M2433>>>" ++ check (runes_of_ascii "char1")).
Eval vm_compute in ("<<<M3139>>>" ++ check (runes_of_ascii "// c" ++ [6158]%N)).
Eval vm_compute in ("<<<M4178>>>" ++ check (runes_of_ascii "//	t")).
Eval vm_compute in ("<<<M2680>>>" ++ check (runes_of_ascii "`d`")).
Eval vm_compute in ("<<<M2477>>>" ++ check (runes_of_ascii "'")).
