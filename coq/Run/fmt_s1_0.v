From FP Require Import Lexer Parser ShowPT Digest Formatter.
From Coq Require Import String List NArith.
Import ListNotations.
Open Scope string_scope.
Set Printing Width 100000000.
Set Printing Depth 100000000.
Definition show_fres (r : fres) : string :=
  match r with
  | FOk s => "OK:" ++ sh_escaped s ""
  | FErr s => "ERR:" ++ sh_escaped s ""
  | FPanic p => "PANIC:" ++ p
  end.
Definition check (rs : list rune) : string := digest (show_fres (format_res rs)).
Definition full (rs : list rune) : string := show_fres (format_res rs).
Eval vm_compute in ("<<<M1712>>>" ++ check (runes_of_ascii "

  // top
  options  // c0a
    // c0b
	  {	// c1

ArrayPrefixLenType	// c2a
// c2b
= 
u16 // c4a
    // c4b
;// c5a
  // c5b
	FixedStringPadFromLeft 
  // c6
  =
	true 
;  // c9
      JavaPackage  // c10a
  // c10b
	= ""com.example.msg"" 	 // c12

;	// c13
      GoPackage 
// c14
	=  ""msg""
    // c16
  ;GoModule 
// c18
  	=

    ""example.com/msg"";
    }
    MetaData
Meta  // c24
		{  
  // c25

u32 SeqNum`sequence number` ,
	// c29

	char[ 8 // c31
  ]
	    // c32
	Symbol  // c33a

// c33b
      `symbol` 

    // c34
		,
    // c35
		zchar[// c36a
// c36b
5	// c37a
// c37b
      ]
	ZSym  // c39
    	`z symbol`
    // c40
,// c41a

// c41b
  string

    // c42
	Note

, // c44
Symbol
    // c45
    	AltSymbol 	 // c46a
	  // c46b
`alias of symbol`
        // c47
	  , 
  // c48

	f64 	 // c49
  Price 	 // c50a
// c50b

  ,

// c51

  } // c52a
	// c52b

	packet	// c53a
      // c53b
	Inner// c54
	{  
      // c55
    u8
    // c56
a 	 // c57a
    // c57b
,// c58a
	// c58b
i16
// c59
    	b  // c60
,// c61a
// c61b
    string 	 // c62
    c 
,  // c64a

// c64b
    	}

    // c65

	packet
Inner2 	 // c67a
  	// c67b
  { 	 // c68a
    	// c68b
u8

a2 
// c70
      ,  // c71a
	// c71b
	char[
	3 ] // c74
      c2 , 
  // c76
  }

    packet 
Logon 	 // c79
	{ 
	    // c80
u8 	 // c81
    x
	// c82

  ,
    // c83

	string  
  // c84
	user ,

repeat u16// c88a
// c88b
codes 
,	// c90
    } 
    // c91

  packet// c92
	Logout  // c93a
// c93b
  { 	 // c94

u16// c95a
    // c95b

	reason 

// c96
	,	// c97
    } // c98
  packet

// c99
  	Empty

{ 	 // c101a

// c101b
    }
        // c102

root// c103a
// c103b

  packet // c104a
  // c104b
	Msg

    // c105
{ // c106a
    	// c106b
	u8
        // c107
    su8 // c108

,
	uint8
        // c110
    luint8

// c111
  	,// c112
      u16 
    // c113
	  su16// c114
	, // c115a
	  // c115b
    uint16  // c116

  luint16

,  // c118
	u32  // c119a
    // c119b
  	su32

// c120
    	,// c121
    uint32
	    // c122
luint32 	 // c123a

// c123b
    ,	// c124
    	u64
    su64 // c126a
	// c126b
, uint64 luint64 ,

// c130
      i8

    // c131
si8// c132
	  ,// c133

  int8

// c134
	lint8 // c135a

// c135b
    	, 	 // c136a
		// c136b
    i16 
    // c137

si16// c138
	,	// c139a

// c139b

int16  // c140a
	  // c140b
	  lint16 
// c141
,	// c142a
  // c142b
	  i32  // c143a
    // c143b
    si32 	 // c144a
// c144b
	,
	// c145

int32 
    // c146
  lint32 , 
// c148
    i64 	 // c149a
  // c149b
si64 // c150a
	// c150b

, // c151a
  // c151b
int64
    lint64  // c153
  ,
// c154
    	f32 
// c155
sf32  // c156a
    // c156b
	, 	 // c157a

// c157b
    float32 
lfloat32 	 // c159a
	// c159b
, 
      // c160
    	f64 

// c161
sf64
// c162
	,
    // c163
	float64 lfloat64 
    // c165
,  // c166
	char[ 
// c167
	  6	// c168a
  	// c168b
	]
// c169
  fsplain 
    // c170
  ,  // c171
	@leftPad 	 // c172

( '0' // c174a
// c174b
    	) char[ 
4 
]fs0	// c179
,// c180a
  // c180b

@rightPad  
      // c181
    ( '0' // c183a

// c183b
) // c184a
  // c184b
char[	5 // c186
		] 	 // c187a
  // c187b
	  fs1,// c189a
		// c189b
  	@leftPad 
    // c190
    (	// c191
    	' ' 
// c192
    )  // c193
    char[	// c194
	6 	 // c195
  ] 	 // c196a

// c196b
  fs2// c197
      , 
    // c198

	@rightPad 	 // c199
		(
    // c200
' ' 

// c201
      ) // c202
	char[ 
  // c203
	7	// c204a
  // c204b
]fs3 	 // c206
,  // c207
  @leftPad  // c208a
	// c208b
    (
	'\x00'  // c210a
      // c210b
  )

    char[ 
8 
// c213
  ] // c214
  fs4

, @rightPad
(
// c218
  '\x00'// c219
	) 
  // c220
	char[// c221
9	// c222a
  	// c222b
	  ] 
	// c223
		fs5  // c224a
  // c224b
    	,  // c225
  @leftPad // c226a
	// c226b
(
        // c227
	)	// c228
	char[ 
// c229
  10
        // c230
    ] 	 // c231
  fs6 // c232a
  // c232b
  ,
	@rightPad	// c234a

  // c234b

	(// c235a
// c235b
  	)  // c236
  char[11 // c238a
	// c238b
  ]	// c239
    	fs7 ,	// c241a

// c241b
zchar[
	7 	 // c243

  ] fz 	 // c245
  , 
    // c246

@leftPad
    // c247

(

// c248
	'0'  // c249

) 
// c250

	zchar[// c251a
    // c251b
  3  // c252a
// c252b

] // c253
    	fzl0 // c254a
  // c254b
    , // c255

string// c256
	s1 
    // c257

  `doc`  // c258a

// c258b
  , 	 // c259a
	// c259b
  	char[]  
  // c260
	  s2	// c261
    , 	 // c262
	Inner
    // c263
	, Sub

    {// c266a
  	// c266b
	u8 
      // c267
	q// c268

,

string w  // c271a
// c271b
  , 
  // c272
    Deep 	 // c273a
		// c273b
      {
u16  // c275

	z// c276a
    // c276b
	, // c277
  repeat
    i32// c279a

	// c279b
  zs // c280a

// c280b
	, 

// c281
	} 
// c282
, 
    // c283
    } 

    // c284
		,  repeat	// c286
	u8
	ru8 
,  // c289

  repeat 
u16  // c291
	  ru16	// c292
, 	 // c293a
// c293b
		repeat 
    // c294
  u32

ru32 // c296a

// c296b
		,	// c297
  repeat 	 // c298a

// c298b

  u64 
      // c299
      ru64	,
repeat 
      // c302
  i8

    // c303

ri8 	 // c304a
// c304b

,  repeat	// c306
	i16 	 // c307a
// c307b
ri16 
	    // c308
  ,repeat i32 // c311a
	// c311b
  ri32// c312a
	// c312b
, 
    // c313

  repeat 
      // c314

i64 ri64// c316
    ,
	    // c317
  	repeat 	 // c318
    f32 
rf32,
        // c321
  repeat// c322
    	f64// c323

  rf64 
        // c324
,
    // c325
    repeat// c326a
	// c326b
	  string// c327
	rstr ,
	    // c329
    	repeat 

// c330
char[] 	 // c331
  rstr2 // c332
  ,  // c333a

  // c333b
      repeat
    char[	// c335a
// c335b
	3// c336a
  // c336b
	]// c337a

// c337b

  rfs 
, 	 // c339
repeat zchar[
	// c341
	3	// c342a
	// c342b
	] 	 // c343
rfz
,
    repeat // c346
	Inner2,	// c348
	repeat Grp
// c350
  {
u8 
        // c352
	k // c353a
  	// c353b
	,
	    // c354
    	char[	// c355
	2  
      // c356
    ]  
  // c357
	v// c358
		, 
    // c359
  	} 
        // c360
  ,  // c361a
    // c361b
    SeqNum
,  
  // c363

	SeqNum seq2  // c365a
  	// c365b
  ,

    repeat

SeqNum // c368a
    	// c368b

	seqs// c369a
	// c369b
    , // c370
  	Symbol // c371
  ,	// c372a
    // c372b
  AltSymbol
alt

, 	 // c375
    ZSym

    // c376
,  
  // c377
  Note 
    // c378
      ,	// c379a

// c379b
  	repeat// c380a

  // c380b
	  Symbol// c381a

  // c381b
	syms
// c382
  ,	// c383a
    	// c383b
  Price px
    // c385
  , 
// c386
  u16
	MsgType

    , u32

    // c390
  BodyLen // c391
		@lengthOf( 
Body 	 // c393a

// c393b
    )	// c394a
// c394b
		,

// c395
	match  MsgType  // c397
  as
    Body 
    // c399

{
// c400

	1	// c401a
	  // c401b

:
    // c402
  	Logon 
// c403
  ,	// c404a
	  // c404b
    	[	// c405a

// c405b
    2 	 // c406
  ,
3 	 // c408a
    // c408b
  ] 	 // c409
    : 

    // c410
      Logout

,// c412
  7  :	// c414
		Logon
	// c415
  , 	 // c416
9 
    // c417
  :	// c418
  Empty
, 	 // c420
  }// c421a
// c421b

  ,  
      // c422
u32
    Checksum  // c424

@calculatedFrom(// c425

	""CRC32""	// c426a
    	// c426b
) // c427
  	,// c428a
	// c428b

}

    // c429")).
Eval vm_compute in ("<<<M271>>>" ++ check (runes_of_ascii "// " ++ [27880; 37322]%N ++ runes_of_ascii "
options
    {
zchar // a // b
= ""x y""
; options1 = u16
;} packet
Pad{ Z9_@calculatedFrom(
"""")`
` , @tag( 42
    ) //
@tag( 00 ) @lengthOf( zchar	) match _x// packet A { u8 x, }
as metadata	{
007: As ""`tick`""// packet A { u8 x, }
: lengthOf,255 :lengthOf ""a	b""
// trailing space 
// " ++ [27880; 37322]%N ++ runes_of_ascii "
:
Packet 255: a1
    , // c
[ 00 ,
    0 , 10 ,	""a\\"" , ""it's"" ,
10, 7	]
: Foo , }
    , match Header
as  o{
[// packet A { u8 x, }
255 ]
    : zchar ,0123456789 :leftPad
    [	007	, 3 ] : leftPad , // c
0: packetx
, } , } MetaData
    Pad { // packet A { u8 x, }
} packet T
    // packet A { u8 x, }
    {
    // " ++ [27880; 37322]%N ++ runes_of_ascii "
    charz
    @lengthOf(asx) `` , }
packet
matchKey
{  @tag( 3
) @calculatedFrom( ""a	b""
/// triple
// c
)
@calculatedFrom("""" ) pack	rootA
    ,  repeat //	t
leftPad `` , repeat uint32 Foo `u8 x,` , @calculatedFrom(
""" ++ [233]%N ++ runes_of_ascii "t" ++ [233]%N ++ runes_of_ascii """) repeat char[ 65535 ] u , @lengthOf( _x )@lengthOf( u8x ) repeat zchar[ 0123456789 ] x
, match i64_ // " ++ [27880; 37322]%N ++ runes_of_ascii "
as falsey{ // trailing space 
255 :
f32a , ""{,}"" : x ,""\" ++ [233]%N ++ runes_of_ascii """	: matchKey
,
[	"""",
    // trailing space 
    ""{,}"" ,
    10 , """ ++ [128512]%N ++ runes_of_ascii """
// a // b
// packet A { u8 x, }
, ""a	b"", 0
,
""1"",65535
]: len , ""\" ++ [233]%N ++ runes_of_ascii """ :
    T
, [ ""CRC32"" ,
    // " ++ [128512]%N ++ runes_of_ascii " emoji
    1 , ""// no comment""
, 007,1 ,	""`tick`"", """ ++ [128512]%N ++ runes_of_ascii """
]// packet A { u8 x, }
: a1  },match
x as
As
{
    ""a	b"":	o , 007
:MetaDataX  ,  [
""a	b""
]:
falsey , ""// no comment""
    : Z9_""packet"":
    _x
    // " ++ [128512]%N ++ runes_of_ascii " emoji
    , },repeat rootA {	uint8 MetaDataX
    @calculatedFrom(
    ""abc""
    ) ,
    match // `tick` ""quote"" 'q'
int as// a // b
asx {	[10	,
10 , ""`tick`""  , 00 , 4294967296 ]
    :
    o ,
    ""CRC32"" :
string_ , [ 0
]
:	roots 65535 :
// " ++ [27880; 37322]%N ++ runes_of_ascii "
// trailing space 
_x //
, ""it's"" : Pad, 4294967296 : Pad , }
,	u16	chars
`line1
line2`
, //x
}
    ,
}")).
Eval vm_compute in ("<<<M376>>>" ++ check (runes_of_ascii "options {
	StringPrefixLenType = u16;
	ArrayPrefixLenType = u16;
}

packet SampleBinary {
    uint16 MsgType `" ++ [28040; 24687; 31867; 22411]%N ++ runes_of_ascii "`,
    u16 BodyLenght @lengthOf(Body) `" ++ [28040; 24687; 20307; 38271; 24230]%N ++ runes_of_ascii "`,
    match MsgType as Body {
        1 : Logon,
        2 : Logout,
        3 : Heartbeat,
        4 : RiskControlRequest,
        5 : RiskControlResponse,
    },
        @calculatedFrom(""CRC32"")
    u32 Ckecksum `" ++ [26657; 39564; 21644]%N ++ runes_of_ascii "`,
}

packet Logon {
     @leftPad('0')
    char[10] UserName `" ++ [29992; 25143; 21517]%N ++ runes_of_ascii "`,
    string Password `" ++ [23494; 30721]%N ++ runes_of_ascii "`,
    uint64 ClientId `" ++ [23458; 25143; 31471]%N ++ runes_of_ascii "ID`,
    u16 HeartbeatInterval `" ++ [24515; 36339; 38388; 38548]%N ++ runes_of_ascii "`,
}

packet Logout {
      @rightPad('0')
    char[10] UserName `" ++ [29992; 25143; 21517]%N ++ runes_of_ascii "`,
    uint64 ClientId `" ++ [23458; 25143; 31471]%N ++ runes_of_ascii "ID`,
}

packet Heartbeat {
}

packet RiskControlRequest {
    string UniqueOrderId `" ++ [21807; 19968; 35746; 21333; 21495]%N ++ runes_of_ascii "`,
    char[16] ClOrdID `" ++ [23458; 25143; 35746; 21333; 21495]%N ++ runes_of_ascii "`,
    char[3] MarketID `" ++ [24066; 22330]%N ++ runes_of_ascii "id`,
    char[12] SecurityID `" ++ [35777; 21048; 20195; 30721]%N ++ runes_of_ascii "`,
    char Side `" ++ [20080; 21334; 26041; 21521]%N ++ runes_of_ascii "`,
    char OrderType `" ++ [35746; 21333; 31867; 22411]%N ++ runes_of_ascii "`,
    u64 Price `" ++ [20215; 26684]%N ++ runes_of_ascii "`,
    u32 Qty `" ++ [25968; 37327]%N ++ runes_of_ascii "`,
    repeat string ExtraInfo `" ++ [38468; 21152; 20449; 24687]%N ++ runes_of_ascii "`,
    repeat SubOrder {
    		char[16] ClOrdID `" ++ [23376; 35746; 21333; 21495]%N ++ runes_of_ascii "`,
    		u64 Price `" ++ [23376; 35746; 21333; 20215; 26684]%N ++ runes_of_ascii "`,
    		u32 Qty `" ++ [23376; 35746; 21333; 25968; 37327]%N ++ runes_of_ascii "`,
    	},
}

packet RiskControlResponse {
    string UniqueOrderId `" ++ [21807; 19968; 35746; 21333; 21495]%N ++ runes_of_ascii "`,
    i32 Status `" ++ [29366; 24577]%N ++ runes_of_ascii "`,
    string Msg `" ++ [32467; 26524; 20449; 24687]%N ++ runes_of_ascii "`,
    repeat Detail,
}

packet Detail {
    string RuleName `" ++ [35268; 21017; 21517; 31216]%N ++ runes_of_ascii "`,
    u16 Code `" ++ [21407; 22240; 20195; 30721]%N ++ runes_of_ascii "`,
}")).
Eval vm_compute in ("<<<M125>>>" ++ check (runes_of_ascii "options {
// a // b
// trailing space 
Pad
    =
// " ++ [128512]%N ++ runes_of_ascii " emoji
// " ++ [128512]%N ++ runes_of_ascii " emoji
false Logon = uint32 ; // " ++ [128512]%N ++ runes_of_ascii " emoji
x_y_z =
    1 }
    MetaData
// `tick` ""quote"" 'q'
//	t
_x
    {
    uint32
stringy ,
zchar[ 42
    ] A,
} packet A {
    match As as string_/// triple
{ 0 :
/// triple
// `tick` ""quote"" 'q'
Z9_ ,}
,  @lengthOf(
    Z9_ )@lengthOf( x_y_z )As
    @lengthOf( As )
`doc` ,
u64 calculatedFrom	@calculatedFrom(
""abc"")
`// not a comment` , // c
Packet //	t
string_ ,
    // trailing space 
    @lengthOf(  Z9_
    ) Z9_ @lengthOf( body)// trailing space 
,
calculatedFrom
BodyLength , @lengthOf( msg_type
)repeat
char tag `it's` ,
}
    packet zchar { @leftPad (
//x
//
)
    repeat zchar[ 3 ]Z9_
, } // `tick` ""quote"" 'q'
packet chars { @lengthOf( Z9_ ) repeat string crc , string MetaDataX ,@calculatedFrom( """"
    )
x
    ,
u8x//
, @tag(10 ) match
    falsey as	tag {""CRC32""	: x
    , /// triple
} //	t
,
x_y_z`tab	here`
,
@rightPad(
'0'
)int16
Logon
    ,trueish
, @rightPad
( )
_x @calculatedFrom(
""packet""// c
), } // @lengthOf(")).
Eval vm_compute in ("<<<M261>>>" ++ check (runes_of_ascii "root packet pack { match MetaDataX as Packet { 7: trueish , /// triple
""" ++ [233]%N ++ runes_of_ascii "t" ++ [233]%N ++ runes_of_ascii """: MetaDataX
,4294967296
:msg_type  65535 : metadata ,3: x_y_z 42 :
//
/// triple
_x// trailing space 
,}	, } packet x_y_z
    {repeat crc	metadata,match A as u8x  { [""it's"" ,""\" ++ [233]%N ++ runes_of_ascii """ ,
0123456789  , ""1"" ,""abc""
,""// no comment"", 4294967296 ]
: pack ,007 : tag , } , } packet
// c
//x
repeatCount  { @lengthOf(stringy )
uint8 f32a , }options
{
BodyLength
    =  '\x00' ; body
    = ' ' ; } packet
    charz { repeat Z9_ rootA `two words` , //
@calculatedFrom( ""a\\""  ) f32a @lengthOf( msg_type
    )	`say ""hi""` ,int8 As , string	stringy
@lengthOf(options1 )
`crlf
line`,	i8 i8i8
, f32a options1,
@leftPad(
    '\x00' )
u
    @calculatedFrom( """ ++ [128512]%N ++ runes_of_ascii """
) ,
@calculatedFrom(
""\" ++ [233]%N ++ runes_of_ascii """ ) @tag(  00 ) @tag(
0)
int64 trueish@calculatedFrom(""`tick`"" // trailing space 
)
, @leftPad (
' ' )
    zchar@lengthOf( Z9_ )
,} // " ++ [27880; 37322]%N)).
Eval vm_compute in ("<<<M264>>>" ++ check (runes_of_ascii "
root packet u128 { @calculatedFrom( ""// no comment"" ) @tag(	10//	t
) @calculatedFrom( ""packet"" ) BodyLength ``
    , char BodyLength `two words`	, repeat uint32 f32a // trailing space 
, crc {	repeat
repeatCount Packet , MetaDataX@lengthOf(
    chars
),
options1 _x ,
repeat float64 T//x
,} ,@tag( 3 )
    @leftPad
( '\x00') @rightPad
(
// @lengthOf(
/// triple
)
    match string_ as MetaDataX { ""packet"" : float ,[
    ""abc"" // @lengthOf(
, """"
    // packet A { u8 x, }
    ,	3
,
    //x
    65535 ,
    ""a	b""
,//	t
42
    ,
    1 ,
    ""packet"" ]:
i64_
// `tick` ""quote"" 'q'
/// triple
,
// " ++ [27880; 37322]%N ++ runes_of_ascii "
// trailing space 
7 :lengthOf 0:
len
// trailing space 
// packet A { u8 x, }
,
10 :  len , [ //	t
0
] : A
    //	t
    , }, }")).
Eval vm_compute in ("<<<M325>>>" ++ check (runes_of_ascii "
root// packet A { u8 x, }
packet As
// c
// packet A { u8 x, }
{}	packet charz {metadata @calculatedFrom(
""{,}"" )
,repeat
zchar[	007
] T
`tab	here`, repeat tag
{
int8 crc `two words` , repeat o// @lengthOf(
{ repeat
// " ++ [128512]%N ++ runes_of_ascii " emoji
// trailing space 
f32a,
} , repeat i16 Z9_ `say ""hi""` , zchar[ // @lengthOf(
3] body @lengthOf( Packet )
,} , @lengthOf(
    o ) match uint8x as As
    {
255	:
T ,	},
f32a
    @lengthOf( leftPad )
    // `tick` ""quote"" 'q'
    ,BodyLength _x `u8 x,` ,
} packet BodyLength
{ }
packet
leftPad
{ @leftPad(
// " ++ [128512]%N ++ runes_of_ascii " emoji
// packet A { u8 x, }
' ') repeat zchar[ 10
]	_x ,}
    options{ int =65535 ;
    }
")).
Eval vm_compute in ("<<<M1801>>>" ++ check (runes_of_ascii "
packet

    a1 
        /// triple
    	{
uint8
    As

, // `tick` ""quote"" 'q'

char[
1  ]
chars @lengthOf(
    msg_type) ,
repeat
    char[
1  ]
x_y_z

`two words` 

//x

	, // c
@tag(
00 )
int32 i8i8	,u64 trueish,
    // @lengthOf(
  @lengthOf(

body

) 
int16

    float  @lengthOf(
    tag
) ,  // " ++ [128512]%N ++ runes_of_ascii " emoji
  	x	// trailing space 

@calculatedFrom(
	""`tick`"" ),  }
MetaData

x_y_z{
	char[
    10 ]chars,

    Z9_
	pack `
`,string
As,	//x
		len

int,  A

Z9_
    ,
	} options
{
o
=
	0123456789

    ;
_x
    = ' '
; }
")).
Eval vm_compute in ("<<<M152>>>" ++ check (runes_of_ascii "
options{	roots ='\x00' lengthOf
=
    true
; Packet = // `tick` ""quote"" 'q'
""packet"" ; o = // packet A { u8 x, }
""packet"" ; A// " ++ [27880; 37322]%N ++ runes_of_ascii "
=
    //
    true ; // trailing space 
} packet body
{ _x ,	zchar[
65535
]
Header @calculatedFrom( // trailing space 
""""  ) `u8 x,` , }
root packet
    //	t
    T // trailing space 
{ @tag(// trailing space 
7) @tag( 0
    )
@leftPad( '0' )// a // b
int64
x @lengthOf( Packet )
    , msg_type stringy
`" ++ [28040; 24687; 31867; 22411]%N ++ runes_of_ascii "`/// triple
, } /// triple")).
Eval vm_compute in ("<<<M218>>>" ++ check (runes_of_ascii "packet lengthOf {
f64 lengthOf
@lengthOf(a1
)
`" ++ [28040; 24687; 31867; 22411]%N ++ runes_of_ascii "`
, uint64 Logon `" ++ [233]%N ++ runes_of_ascii "`
,	string Pad@calculatedFrom( ""\n"" )
/// triple
// trailing space 
,zchar[ 0123456789
    ] Foo @lengthOf( charz )	`// not a comment` ,
@rightPad ()match falsey
    as Packet{ """"
    :
u ,
65535 :
float ,[  4294967296
] :	trueish // trailing space 
,	[10 ,0123456789 ]  :
Logon , 1 : roots [  7 ,
""\" ++ [233]%N ++ runes_of_ascii """ , 00
    //
    ]:
float , } ,}
")).
Eval vm_compute in ("<<<M230>>>" ++ check (runes_of_ascii "packet x { lengthOf rootA , @rightPad
( '0' )
i8 asx @lengthOf( calculatedFrom // a // b
),
@lengthOf( Pad ) repeat //x
int16 trueish // c
``// " ++ [27880; 37322]%N ++ runes_of_ascii "
, @calculatedFrom(
""" ++ [128512]%N ++ runes_of_ascii """) @tag(0
)
@lengthOf( // a // b
matchKey ) string MetaDataX`doc`
,
i16 // `tick` ""quote"" 'q'
options1 @lengthOf(
    // " ++ [27880; 37322]%N ++ runes_of_ascii "
    u8x
    // " ++ [128512]%N ++ runes_of_ascii " emoji
    ) `a\` ,
    u128
u128`line1
line2`,}")).
Eval vm_compute in ("<<<M65>>>" ++ check (runes_of_ascii "  options	{ string_
=true; } options
{ T
= false}
packet
u8x { @lengthOf( int
    //
    )
zchar[ 255 ] BodyLength , } // trailing space 
root
packet
    f32a  { }packet roots
{ Foo
    , repeat char[ 007 ] Pad
,repeat  int8
packetx
    ,
    match Z9_ as T	{
00 :A , ""a\""b"" :
    falsey  , //
""CRC32""
:a1
,
    }	, }
")).
Eval vm_compute in ("<<<M2057>>>" ++ check (runes_of_ascii "// packet A { u8 x, }
options {
    T = ""packet"";
}

MetaData x_y_z {
    char roots,
    T f32a `{ , }`,
}

root packet uint8x {
    @calculatedFrom(""// no comment"")
    repeat As {
        rootA @calculatedFrom(""" ++ [28040; 24687]%N ++ runes_of_ascii """) `{ , }`,
        u16 zchar `{ , }`,
        char[7] o `" ++ [233]%N ++ runes_of_ascii "`,
    },
}")).
Eval vm_compute in ("<<<M624>>>" ++ check (runes_of_ascii "root packet tag { }  packet MetaDataX{char[007	]
// c
/// triple
asx  @calculatedFrom( ""a\""b""
) `say ""hi""`// " ++ [27880; 37322]%N ++ runes_of_ascii "
,  @tag(4294967296 )
    char[1//x
] packetx @calculatedFrom(""a\""b""
    ) ,
// " ++ [128512]%N ++ runes_of_ascii " emoji
// a // b
@calculatedFrom(""" ++ [233]%N ++ runes_of_ascii "t" ++ [233]%N ++ runes_of_ascii """ """ ++ [233]%N ++ runes_of_ascii "t" ++ [233]%N ++ runes_of_ascii """  ) repeat pack // " ++ [27880; 37322]%N ++ runes_of_ascii "
,
    } // c")).
Eval vm_compute in ("<<<M589>>>" ++ check (runes_of_ascii "root packet tag { }  packet MetaDataX{char[007	]
// c
/// triple
asx  @calculatedFrom( ""a\""b""
) `say ""hi""`// " ++ [27880; 37322]%N ++ runes_of_ascii "
,  @tag(4294967296 )
    char[1//x
] ] packetx @calculatedFrom(""a\""b""
    ) ,
// " ++ [128512]%N ++ runes_of_ascii " emoji
// a // b
@calculatedFrom(""" ++ [233]%N ++ runes_of_ascii "t" ++ [233]%N ++ runes_of_ascii """  ) repeat pack // " ++ [27880; 37322]%N ++ runes_of_ascii "
,
    } // c")).
Eval vm_compute in ("<<<M72>>>" ++ check (runes_of_ascii "MetaData len //	t
{ f64 calculatedFrom , x_y_z	x
,} packet repeatCount { @lengthOf(pack ) match
x_y_z as o // " ++ [27880; 37322]%N ++ runes_of_ascii "
{ 7:
Header
// `tick` ""quote"" 'q'
// a // b
} , } options { lengthOf  = true; }
packet  leftPad
    {
    MetaDataX @lengthOf( T ) `two words` ,
    }")).
Eval vm_compute in ("<<<M640>>>" ++ check (runes_of_ascii "root packet tag { }  packet MetaDataX{char[007	]
// c
/// triple
asx  @calculatedFrom( ""a\""b""
) `say ""hi""`// " ++ [27880; 37322]%N ++ runes_of_ascii "
,  @tag(4294967296 )
    char[1//x
] packetx @calculatedFrom(""a\""b""
    ) ,
// " ++ [128512]%N ++ runes_of_ascii " emoji
// a // b
@calculatedFrom(""" ++ [233]%N ++ runes_of_ascii "t" ++ [233]%N ++ runes_of_ascii """  ) repeat , // " ++ [27880; 37322]%N ++ runes_of_ascii "
pack
    } // c")).
Eval vm_compute in ("<<<M533>>>" ++ check (runes_of_ascii "root packet tag { }  packet MetaDataX{char[007	]
// c
/// triple
  @calculatedFrom( ""a\""b""
) `say ""hi""`// " ++ [27880; 37322]%N ++ runes_of_ascii "
,  @tag(4294967296 )
    char[1//x
] packetx @calculatedFrom(""a\""b""
    ) ,
// " ++ [128512]%N ++ runes_of_ascii " emoji
// a // b
@calculatedFrom(""" ++ [233]%N ++ runes_of_ascii "t" ++ [233]%N ++ runes_of_ascii """  ) repeat pack // " ++ [27880; 37322]%N ++ runes_of_ascii "
,
    } // c")).
Eval vm_compute in ("<<<M2063>>>" ++ check (runes_of_ascii "options {
    LittleEndian = true;
}

packet Logon {
    u8 x,
    string user,
}

packet Logout {
    u16 reason,
}

packet Empty {
}

root packet Frame {
    u16 MsgType,
    u16 BodyLen @lengthOf(Body),
    u8 flags,
    Logon Body,
    u32 trailer,
}")).
Eval vm_compute in ("<<<M627>>>" ++ check (runes_of_ascii "root packet tag { }  packet MetaDataX{char[007	]
// c
/// triple
asx  @calculatedFrom( ""a\""b""
) `say ""hi""`// " ++ [27880; 37322]%N ++ runes_of_ascii "
,  @tag(4294967296 )
    char[1//x
] packetx @calculatedFrom(""a\""b""
    ) ,
// " ++ [128512]%N ++ runes_of_ascii " emoji
// a // b
@calculatedFrom(")).
Eval vm_compute in ("<<<M1521>>>" ++ check (runes_of_ascii "packet Logon {
    string user,
}
root packet Frame {
    u8 K,
    match K as Body {
        1 : Logon,
        2 : Logout,
    },
    Tail,
}
packet Logout {
    u16 reason,
}
packet Tail {
    u32 crc,
}
")).
Eval vm_compute in ("<<<M1121>>>" ++ check (runes_of_ascii "packet metadata // c1a
  // c1b
{ Logon // c3
{ // c4
A `" ++ [28040; 24687; 31867; 22411]%N ++ runes_of_ascii "`
    // c6
, // c7a
  // c7b
tag o , // c10a
  // c10b
} // c11a
  // c11b
, // c12
zchar len // c14
`// not a comment` , } ")).
Eval vm_compute in ("<<<M712>>>" ++ check (runes_of_ascii "root packet len // trailing space 
{
// " ++ [27880; 37322]%N ++ runes_of_ascii "
//	t
char[10
] metadata	@lengthOf( o ) `crlf
line`,
    @rightPad
( ' '
) string
    Header @calculatedFrom( ""a\\""
    options, }
")).
Eval vm_compute in ("<<<M462>>>" ++ check (runes_of_ascii "packet
    // `tick` ""quote"" 'q'
    crc
// packet A { u8 x, }
//	t
{
u32 a1 ,
    // trailing space 
    roots
charz //
`two words`,	}
    MetaData int ''{
} /// triple")).
Eval vm_compute in ("<<<M416>>>" ++ check (runes_of_ascii "packet
    // `tick` ""quote"" 'q'
    crc
// packet A { u8 x, }
//	t
{
u32 a1 ,
    // trailing space 
    charz
roots //
`two words`,	}
    MetaData int {
} /// triple")).
Eval vm_compute in ("<<<M675>>>" ++ check (runes_of_ascii "root packet len // trailing space 
{
// " ++ [27880; 37322]%N ++ runes_of_ascii "
//	t
char[10
] metadata	@lengthOf( o ) `crlf
line`,
    @rightPad
( ' '
 string
    Header @calculatedFrom( ""a\\""
    ), }
")).
Eval vm_compute in ("<<<M250>>>" ++ check (runes_of_ascii "packet tag
{@rightPad( )	zchar[ 00
    //x
    ] //x
MetaDataX `" ++ [233]%N ++ runes_of_ascii "` ,
    float32 Header `say ""hi""`
// " ++ [128512]%N ++ runes_of_ascii " emoji
// `tick` ""quote"" 'q'
, } MetaData
T{int lengthOf  ,}")).
Eval vm_compute in ("<<<M304>>>" ++ check (runes_of_ascii "  packet
    Packet { i8 MetaDataX , }
    root packet
    a1
{ rootA @lengthOf( uint8x )
    ,
    repeatCount
{
char[]u , u16
msg_type
`a\` ,
    }
, }
")).
Eval vm_compute in ("<<<M587>>>" ++ check (runes_of_ascii "root packet tag { }  packet MetaDataX{char[007	]
// c
/// triple
asx  @calculatedFrom( ""a\""b""
) `say ""hi""`// " ++ [27880; 37322]%N ++ runes_of_ascii "
,  @tag(4294967296 )
    char[")).
Eval vm_compute in ("<<<M1271>>>" ++ check (runes_of_ascii "// top
packet // c0
x // c1
{ // c2
@rightPad // c3
( // c4
) // c5
repeat // c6
roots // c7
Logon // c8
`doc` // c9
, // c10
} // c11
")).
Eval vm_compute in ("<<<M2071>>>" ++ check (runes_of_ascii "packet A {
    match k as n {
        [
            1, 22, ""c c"", 4, 5,
            ""f""
        ] : B,
        2 : C,
    },
}")).
Eval vm_compute in ("<<<M1234>>>" ++ check (runes_of_ascii "root packet matchKey { zchar[ 3
// c
] pack @calculatedFrom( ""a	b"" ) `doc` , } options { } MetaData A { int8 msg_type , }")).
Eval vm_compute in ("<<<M1266>>>" ++ check (runes_of_ascii "root packet matchKey { zchar[ 3 ] pack @calculatedFrom( ""a	b"" ) `doc` , } options { } MetaData A { int8 msg_type
// c
, }")).
Eval vm_compute in ("<<<M962>>>" ++ check (runes_of_ascii "packet A {
    match k as n {
        ""x\
y"" : B,
        [""x\
y"", 1] : C,
        [1,2,3,4,5,""x\
y""] : D,
    },
}")).
Eval vm_compute in ("<<<M1756>>>" ++ check (runes_of_ascii "
packet FooBar
	{ u8
	a  ,

    }  packet foo_bar{  u16 
b 
,	}root
    packet
    R	{FooBar ,	foo_bar
,}

")).
Eval vm_compute in ("<<<M897>>>" ++ check (runes_of_ascii "packet A {
  match k as n {
    [""a"", ""bb"", 007, ""d"", ""e"", 66, ""g"", ""h"", 9, ""j"", ""k""] : B
    2 : C
  },
}")).
Eval vm_compute in ("<<<M205>>>" ++ check (runes_of_ascii "  root packet// " ++ [128512]%N ++ runes_of_ascii " emoji
o
    {
    @calculatedFrom( ""a\""b"" //x
) repeat crc ,	@tag( 10  )
x_y_z, }
")).
Eval vm_compute in ("<<<M894>>>" ++ check (runes_of_ascii "packet A {
  match k as n {
    [1, 22, ""c c"", 4, 5, ""f"", 7, 8, ""i"", 10, 11] : B,
    2 : C
  },
}")).
Eval vm_compute in ("<<<M172>>>" ++ check (runes_of_ascii "
options
    // " ++ [128512]%N ++ runes_of_ascii " emoji
    {  roots= false ; f32a = ""// no comment""
// " ++ [128512]%N ++ runes_of_ascii " emoji
// a // b
;
}
")).
Eval vm_compute in ("<<<M868>>>" ++ check (runes_of_ascii "packet A {
  match k as n {
    [1, 22, ""c c"", 4, 5, ""f"", 7, 8, ""i""] : B,
    2 : C
  },
}")).
Eval vm_compute in ("<<<M1193>>>" ++ check (runes_of_ascii "MetaData float { float64 charz `
` ,
// c
} root packet chars { @rightPad ( '0' ) Foo , }")).
Eval vm_compute in ("<<<M1404>>>" ++ check (runes_of_ascii "packet chars { } packet // c
MetaDataX { @tag( 42 ) i16 string_ , repeat x `say ""hi""` , }")).
Eval vm_compute in ("<<<M852>>>" ++ check (runes_of_ascii "packet A {
  match k as n {
    [1, ""bb"", 007, ""d"", 5, ""f"", 7, ""h""] : B
    2 : C
  },
}")).
Eval vm_compute in ("<<<M1134>>>" ++ check (runes_of_ascii "packet metadata { Logon { A // c
`" ++ [28040; 24687; 31867; 22411]%N ++ runes_of_ascii "` , tag o , } , zchar len `// not a comment` , }")).
Eval vm_compute in ("<<<M1338>>>" ++ check (runes_of_ascii "// c
packet o { repeat Logon uint8x , } options { asx = zchar[ 3 ] stringy = '\x00' }")).
Eval vm_compute in ("<<<M1371>>>" ++ check (runes_of_ascii "packet o { repeat Logon uint8x , } options { asx = zchar[ 3 ] stringy
// c
= '\x00' }")).
Eval vm_compute in ("<<<M810>>>" ++ check (runes_of_ascii "packet A {
  match k as n {
    [""a"", ""bb"", ""c c"", ""d"", ""e""] : B,
    2 : C
  },
}")).
Eval vm_compute in ("<<<M1332>>>" ++ check (runes_of_ascii "MetaData body { i64 pack `it's` , } packet stringy { int16 calculatedFrom ,
// c
}")).
Eval vm_compute in ("<<<M1900>>>" ++ check (runes_of_ascii "packet A {
    match k as n {
        [1, 22, 007] : B,
        2 : C,
    },
}")).
Eval vm_compute in ("<<<M1673>>>" ++ check (runes_of_ascii "

  packet A
	{
match
    k
    as 
n  {  [""a"" ,22 ] : B
	2 : C
}
,  }

")).
Eval vm_compute in ("<<<M30>>>" ++ check (runes_of_ascii "MetaData
T {crc /// triple
u8x `say ""hi""` , } // `tick` ""quote"" 'q'")).
Eval vm_compute in ("<<<M776>>>" ++ check (runes_of_ascii "packet A {
  match k as n {
    [""a"", ""bb""] : B
    2 : C
  },
}")).
Eval vm_compute in ("<<<M770>>>" ++ check (runes_of_ascii "packet A {
  match k as n {
    [""a""] : B,
    2 : C
  },
}")).
Eval vm_compute in ("<<<M1292>>>" ++ check (runes_of_ascii "packet x { @rightPad ( ) repeat roots Logon // c
`doc` , }")).
Eval vm_compute in ("<<<M1658>>>" ++ check (runes_of_ascii "packet

A

{ u8
    x

    , // c
u8

    y
,} ")).
Eval vm_compute in ("<<<M346>>>" ++ check (runes_of_ascii "MetaData leftPad // `tick` ""quote"" 'q'
{
    }")).
Eval vm_compute in ("<<<M139>>>" ++ check (runes_of_ascii "MetaData
packetx {  zchar[7
]u128 , }
")).
Eval vm_compute in ("<<<M738>>>" ++ check (runes_of_ascii "0 char } uint16 MetaData @tag( As false")).
Eval vm_compute in ("<<<M923>>>" ++ check (runes_of_ascii "root packet A {
    u8 x `a
b`,
}")).
Eval vm_compute in ("<<<M973>>>" ++ check (runes_of_ascii "packet A {
 u8 x `d `, // c 
}")).
Eval vm_compute in ("<<<M1988>>>" ++ check (runes_of_ascii "// c
  root	packet	pack { 
}")).
Eval vm_compute in ("<<<M757>>>" ++ check (runes_of_ascii "\Rm'!k4-y+wos=3BJ?w?XzfT")).
Eval vm_compute in ("<<<M1384>>>" ++ check (runes_of_ascii "MetaData
// c
o { }")).
Eval vm_compute in ("<<<M1026>>>" ++ check (runes_of_ascii "packet A {
}
// c" ++ [11]%N)).
Eval vm_compute in ("<<<M1044>>>" ++ check (runes_of_ascii "packet A {
}// c" ++ [65279]%N)).
Eval vm_compute in ("<<<M744>>>" ++ check (runes_of_ascii "	" ++ [65533; 65533; 65533; 65533; 6; 65533; 65533]%N)).
Eval vm_compute in ("<<<M1050>>>" ++ check (runes_of_ascii "// c" ++ [6158]%N)).
