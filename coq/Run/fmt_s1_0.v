From FP Require Import Lexer Parser ShowPT Digest Formatter.
From Coq Require Import String List NArith.
Import ListNotations.
Open Scope string_scope.
Set Printing Width 100000000.
Set Printing Depth 100000000.
Definition show_fres (r : fres) : string :=
  match r with
  | FOk s => "OK:" ++ sh_escaped s ""
  | FErr s => "ERR:" ++ sh_escaped s ""
  | FPanic p => "PANIC:" ++ p
  end.
Definition check (rs : list rune) : string := digest (show_fres (format_res rs)).
Definition full (rs : list rune) : string := show_fres (format_res rs).
Eval vm_compute in ("<<<M3658>>>" ++ check (runes_of_ascii "// top
options // c0
{ // c1a
  // c1b
ArrayPrefixLenType // c2
= // c3a
  // c3b
u16
    // c4
; FixedStringPadFromLeft =
    // c7
true // c8a
  // c8b
; // c9a
  // c9b
JavaPackage = // c11
""com.example.msg""
    // c12
;
    // c13
GoPackage
    // c14
= ""msg""
    // c16
;
    // c17
GoModule // c18
= ""example.com/msg""
    // c20
; // c21a
  // c21b
}
    // c22
MetaData // c23
Meta
    // c24
{ // c25a
  // c25b
u32
    // c26
SeqNum
    // c27
`sequence number` , // c29a
  // c29b
char[ 8 ] // c32a
  // c32b
Symbol `symbol`
    // c34
, zchar[ // c36a
  // c36b
5 // c37a
  // c37b
] ZSym // c39
`z symbol` // c40
, string Note , // c44
Symbol
    // c45
AltSymbol
    // c46
`alias of symbol`
    // c47
, // c48a
  // c48b
f64 Price // c50
, // c51
} // c52
packet
    // c53
Inner // c54a
  // c54b
{
    // c55
u8 a
    // c57
, // c58
i16 // c59a
  // c59b
b , // c61a
  // c61b
string // c62a
  // c62b
c
    // c63
, } // c65
packet
    // c66
Inner2
    // c67
{ u8 // c69a
  // c69b
a2 // c70a
  // c70b
, // c71
char[ // c72
3 ] c2 // c75a
  // c75b
, } // c77
packet Logon // c79a
  // c79b
{
    // c80
u8 // c81
x , // c83
string // c84
user // c85a
  // c85b
, repeat // c87
u16 // c88a
  // c88b
codes , // c90a
  // c90b
} // c91a
  // c91b
packet
    // c92
Logout
    // c93
{ // c94a
  // c94b
u16 // c95
reason // c96a
  // c96b
, // c97a
  // c97b
} packet
    // c99
Empty {
    // c101
}
    // c102
root packet // c104a
  // c104b
Msg
    // c105
{
    // c106
u8 // c107a
  // c107b
su8 ,
    // c109
uint8 luint8 , // c112
u16 su16 ,
    // c115
uint16 luint16
    // c117
, // c118
u32 su32 // c120
, // c121a
  // c121b
uint32 // c122
luint32 // c123
, u64 su64 // c126a
  // c126b
, // c127a
  // c127b
uint64 // c128
luint64 // c129a
  // c129b
, i8 // c131a
  // c131b
si8 // c132a
  // c132b
,
    // c133
int8 lint8 , // c136
i16 // c137a
  // c137b
si16 , // c139
int16 // c140
lint16
    // c141
, i32
    // c143
si32 ,
    // c145
int32 lint32 , i64 si64 , // c151
int64
    // c152
lint64 , f32 sf32
    // c156
, float32 // c158
lfloat32
    // c159
, // c160a
  // c160b
f64
    // c161
sf64
    // c162
, // c163a
  // c163b
float64 // c164a
  // c164b
lfloat64 , // c166
char[
    // c167
6 // c168a
  // c168b
]
    // c169
fsplain , // c171
@leftPad
    // c172
( // c173a
  // c173b
'0'
    // c174
)
    // c175
char[ // c176
4 // c177a
  // c177b
]
    // c178
fs0 // c179a
  // c179b
, // c180a
  // c180b
@rightPad // c181
(
    // c182
'0'
    // c183
) // c184a
  // c184b
char[ // c185a
  // c185b
5
    // c186
] // c187
fs1 // c188a
  // c188b
, // c189
@leftPad ( // c191a
  // c191b
' '
    // c192
) char[ // c194a
  // c194b
6 // c195a
  // c195b
] fs2
    // c197
, // c198a
  // c198b
@rightPad ( ' ' // c201
) char[
    // c203
7 ] fs3 // c206
,
    // c207
@leftPad // c208
(
    // c209
'\x00'
    // c210
)
    // c211
char[ 8 ] fs4 // c215a
  // c215b
, @rightPad // c217
(
    // c218
'\x00' // c219
) // c220a
  // c220b
char[ // c221
9 // c222a
  // c222b
]
    // c223
fs5 // c224
, // c225
@leftPad
    // c226
( ) // c228a
  // c228b
char[
    // c229
10 // c230a
  // c230b
] // c231a
  // c231b
fs6
    // c232
, // c233a
  // c233b
@rightPad
    // c234
( // c235
) char[
    // c237
11
    // c238
] // c239
fs7
    // c240
, // c241
zchar[ // c242a
  // c242b
7 // c243
] fz // c245
, // c246a
  // c246b
@leftPad
    // c247
( // c248
'0'
    // c249
) // c250a
  // c250b
zchar[ // c251
3 ] // c253a
  // c253b
fzl0 , string s1
    // c257
`doc`
    // c258
, // c259
char[] // c260
s2
    // c261
, // c262a
  // c262b
Inner // c263a
  // c263b
,
    // c264
Sub // c265
{ // c266a
  // c266b
u8 // c267a
  // c267b
q
    // c268
, // c269a
  // c269b
string // c270a
  // c270b
w // c271a
  // c271b
,
    // c272
Deep
    // c273
{ u16
    // c275
z // c276a
  // c276b
, // c277a
  // c277b
repeat // c278a
  // c278b
i32 zs // c280
,
    // c281
}
    // c282
, // c283a
  // c283b
} // c284a
  // c284b
, repeat // c286a
  // c286b
u8
    // c287
ru8
    // c288
,
    // c289
repeat
    // c290
u16 ru16
    // c292
, // c293
repeat
    // c294
u32 // c295a
  // c295b
ru32
    // c296
,
    // c297
repeat // c298
u64 // c299
ru64 , // c301a
  // c301b
repeat i8 ri8 , repeat // c306
i16 // c307a
  // c307b
ri16
    // c308
, repeat // c310a
  // c310b
i32 // c311a
  // c311b
ri32 , // c313
repeat // c314a
  // c314b
i64 ri64 // c316a
  // c316b
,
    // c317
repeat // c318
f32
    // c319
rf32 // c320
, // c321
repeat // c322
f64 // c323a
  // c323b
rf64 // c324
,
    // c325
repeat // c326
string
    // c327
rstr
    // c328
, // c329
repeat
    // c330
char[] // c331a
  // c331b
rstr2 , // c333
repeat // c334
char[ // c335a
  // c335b
3 ] // c337a
  // c337b
rfs , repeat
    // c340
zchar[ // c341
3 ] rfz ,
    // c345
repeat // c346
Inner2
    // c347
, // c348
repeat // c349a
  // c349b
Grp
    // c350
{ // c351a
  // c351b
u8 // c352
k // c353a
  // c353b
,
    // c354
char[ // c355
2
    // c356
]
    // c357
v // c358
, // c359a
  // c359b
} , // c361a
  // c361b
SeqNum // c362a
  // c362b
, // c363
SeqNum seq2 // c365a
  // c365b
, // c366
repeat SeqNum // c368a
  // c368b
seqs , // c370
Symbol , // c372
AltSymbol
    // c373
alt
    // c374
,
    // c375
ZSym // c376
,
    // c377
Note // c378a
  // c378b
, // c379a
  // c379b
repeat // c380
Symbol // c381a
  // c381b
syms // c382
, // c383
Price
    // c384
px // c385a
  // c385b
, // c386a
  // c386b
u16
    // c387
MsgType // c388
, // c389
u32
    // c390
BodyLen @lengthOf( Body // c393a
  // c393b
)
    // c394
, // c395
match MsgType as // c398a
  // c398b
Body
    // c399
{ // c400a
  // c400b
1 : // c402
Logon // c403a
  // c403b
, // c404
[ 2 // c406a
  // c406b
, // c407a
  // c407b
3
    // c408
]
    // c409
:
    // c410
Logout
    // c411
, 7 // c413
: Logon , // c416
9 : // c418
Empty // c419
, // c420a
  // c420b
}
    // c421
, u32 // c423a
  // c423b
Checksum // c424
@calculatedFrom( // c425a
  // c425b
""CRC32""
    // c426
) , }
    // c429
")).
Eval vm_compute in ("<<<M3901>>>" ++ check (runes_of_ascii "packet Logon {
    repeat string a1 `crlf
        line`,
    @lengthOf(Pad)
    match Pad as u8x {
        4294967296 : i8i8,
    },
    asx a1,
    // a // b
    // @lengthOf(
    @lengthOf(body)
    //x
    msg_type int,
    tag `line1
        line2`,
    repeat Z9_ {
        u16 packetx @calculatedFrom(""it's""),
    },
    @lengthOf(Logon)
    // " ++ [128512]%N ++ runes_of_ascii " emoji
    @rightPad()
    @calculatedFrom(""" ++ [233]%N ++ runes_of_ascii "t" ++ [233]%N ++ runes_of_ascii """)
    repeat roots u128,
    @calculatedFrom(""{,}"")
    chars {
        match roots as Foo {
            10 : trueish,
        },
    },
    i8i8,
    @calculatedFrom(""x y"")
    @calculatedFrom(""a\""b"")
    repeat Z9_ {
        f32a msg_type,
        repeat o {
            // " ++ [128512]%N ++ runes_of_ascii " emoji
            // @lengthOf(
            zchar[0] charz @calculatedFrom(""CRC32""),
        },
    },
}

root packet BodyLength {
    calculatedFrom {
        char[] x @calculatedFrom(""\n""),// @lengthOf(
        _x @calculatedFrom(""`tick`""),
        repeat u128,
        float Packet `" ++ [28040; 24687; 31867; 22411]%N ++ runes_of_ascii "`,
    },
    repeat Foo {
        uint64 a1,
    },/// triple
    repeat char[42] matchKey `it's`,
    lengthOf {
        // " ++ [27880; 37322]%N ++ runes_of_ascii "
        u128 trueish `// not a comment`,
        match chars as MetaDataX {
            00 : x_y_z,
            1 : trueish,
            [0123456789] : calculatedFrom,
            [
                ""CRC32"", ""\" ++ [233]%N ++ runes_of_ascii """, ""// no comment"", ""it's"", ""packet"",
                007
            ] : Pad,
        },
    },
    repeat char[] Logon,
    @leftPad('0')
    f32 Pad @calculatedFrom(""CRC32""),
    @lengthOf(BodyLength)
    options1 @calculatedFrom(""`tick`""),
    A {
        // " ++ [27880; 37322]%N ++ runes_of_ascii "
        //	t
        uint8 charz `u8 x,`,
        falsey x `line1
                line2`,
        repeat int8 Packet,
        zchar[1] float,
    },
    char[65535] matchKey @calculatedFrom(""x y""),
    @lengthOf(o)
    match chars as As {
        1 : f32a,
    },
}

packet int {
    @calculatedFrom(""// no comment"")
    @rightPad()
    @calculatedFrom(""" ++ [233]%N ++ runes_of_ascii "t" ++ [233]%N ++ runes_of_ascii """)
    roots _x `say ""hi""`,// `tick` ""quote"" 'q'
}

options {
    o = ""{,}""
    Pad = 255;
}// " ++ [27880; 37322]%N)).
Eval vm_compute in ("<<<M4378>>>" ++ check (runes_of_ascii "root packet options1 {
    @rightPad('0')
    u64 string_ `a\`,
    @lengthOf(u128)
    @tag(7)
    i16 o,
    repeat uint8 a1,
    @lengthOf(msg_type)
    repeat float64 Z9_ `two words`,
    match metadata as Logon {
        [""" ++ [128512]%N ++ runes_of_ascii """, 42] : A,
    },
    BodyLength len,
    // a // b
}

packet zchar {
    string_ lengthOf,
    match x as Logon {
        """ ++ [28040; 24687]%N ++ runes_of_ascii """ : calculatedFrom,
        """ ++ [233]%N ++ runes_of_ascii "t" ++ [233]%N ++ runes_of_ascii """ : roots,
        [255] : falsey,
        255 : T,
        // packet A { u8 x, }
    },
    repeat charz,
    @calculatedFrom(""it's"")
    @calculatedFrom(""\n"")
    @rightPad(' ')
    int32 rootA,
    i64_ leftPad,
    roots,
    char[] msg_type `" ++ [233]%N ++ runes_of_ascii "`,
    pack @calculatedFrom(""// no comment""),
    @rightPad(' ')
    repeat leftPad,
    int64 lengthOf,
}// trailing space 

packet msg_type {
    @lengthOf(Z9_)
    repeat trueish {
        // trailing space 
        stringy `{ , }`,
        u64 calculatedFrom @calculatedFrom(""it's""),
        char[10] crc,
    },
    match f32a as Logon {
        // @lengthOf(
        ""abc"" : BodyLength,
        [0, 42] : Header,
        007 : Z9_,
        ""a\""b"" : chars,
    },
    @lengthOf(roots)
    options1 A `u8 x,`,
    char[1] u128,
    @lengthOf(x_y_z)
    //x
    //
    MetaDataX @calculatedFrom(""1"") `{ , }`,
    len {
        x_y_z Logon,
        matchKey repeatCount,
        T {
            i8 trueish @calculatedFrom(""\" ++ [233]%N ++ runes_of_ascii """) `tab	here`,
        },
        // a // b
        repeat float zchar `two words`,
    },
    repeat u8 metadata `crlf
    line`,
    @calculatedFrom(""\" ++ [233]%N ++ runes_of_ascii """)
    char[0] trueish @calculatedFrom(""""),//x
    uint8 charz,
}

MetaData a1 {
    f32 trueish `line1
    line2`,
    string uint8x `" ++ [28040; 24687; 31867; 22411]%N ++ runes_of_ascii "`,
    i32 tag,
    stringy zchar `" ++ [28040; 24687; 31867; 22411]%N ++ runes_of_ascii "`,
}")).
Eval vm_compute in ("<<<M120>>>" ++ check (runes_of_ascii "root packet // c
falsey { roots { repeat x_y_z ,
} , char[] T `
` , char[	3 ]T/// triple
,zchar { repeat
zchar[ 65535 ]
    rootA  `tab	here`
    , int32 leftPad , }
,
// packet A { u8 x, }
// `tick` ""quote"" 'q'
repeat
    Packet
    //	t
    ,repeat
char[ 00 ] body`" ++ [233]%N ++ runes_of_ascii "` , @tag(
00// @lengthOf(
) a1 i64_
, i8i8 BodyLength `{ , }`
    , match
    crc as u8x
// a // b
//	t
{ [
    // `tick` ""quote"" 'q'
    0 ]:
    matchKey , [ 0123456789,
""a\\""
,
""abc"" ]:As , """ ++ [128512]%N ++ runes_of_ascii """ : tag, 7 :
    u8x , 42 : f32a 00 :options1 } // trailing space 
,} packet// " ++ [27880; 37322]%N ++ runes_of_ascii "
MetaDataX{@tag( 42)@leftPad ( ) @leftPad
    //x
    ( )  body i64_ , } packet int{ @calculatedFrom(
// " ++ [27880; 37322]%N ++ runes_of_ascii "
//
""" ++ [233]%N ++ runes_of_ascii "t" ++ [233]%N ++ runes_of_ascii """)
@tag(42 ) @leftPad	( '\x00' ) repeat u8x ,  repeat len , @tag(	255	)match calculatedFrom as Z9_ {  ""CRC32"" :	len,""packet"" : falsey, [65535,
42//x
]// @lengthOf(
: charz ,
} // @lengthOf(
,i8i8 ,match
i8i8
    as Foo // trailing space 
{ ""a\\"" : x , } , @leftPad
( ) char crc `say ""hi""` ,
} options {	Pad =
    zchar[ // trailing space 
0
]; pack="""" // c
;
    } root
    packet lengthOf
{ @leftPad ('0' ) A
    // trailing space 
    @calculatedFrom(
// " ++ [27880; 37322]%N ++ runes_of_ascii "
//
""\" ++ [233]%N ++ runes_of_ascii """),@calculatedFrom( ""abc""// c
)  repeat// c
char[] a1 ,repeat int  trueish  , @rightPad(
    '\x00'
    )// a // b
zchar[4294967296 ] _x ,repeat
stringy //
x	,@tag( 00  ) @lengthOf( int )  @tag( 0) u8	T	,
@tag(1 ) @lengthOf(
a1 ) @calculatedFrom( ""it's"" ) char[ 10 ] body ,  @lengthOf( f32a )
    rootA
@calculatedFrom(""{,}"" ), // " ++ [128512]%N ++ runes_of_ascii " emoji
} 	 ")).
Eval vm_compute in ("<<<M105>>>" ++ check (runes_of_ascii "packet
uint8x {match Pad as// " ++ [128512]%N ++ runes_of_ascii " emoji
repeatCount{ [0 ] :
lengthOf ,[""// no comment"" ] :
metadata ,} , metadata
// trailing space 
//
, zchar[/// triple
1
] trueish//	t
, @calculatedFrom(""a\""b"" ) match//x
roots as f32a { 4294967296
: i64_ , ""it's""
: a1 , [
    // trailing space 
    00	,
    0123456789 ] : As ,
255 : Packet , ""{,}"" :
T/// triple
0
    :
falsey } ,
    body @calculatedFrom( ""\n""
    // trailing space 
    ) , @calculatedFrom( """ ++ [128512]%N ++ runes_of_ascii """ )	@tag(
10 ) char[ 10 ]
    trueish `doc` ,	@tag( 255 ) repeat
    Z9_ { asx chars`// not a comment` , } , @lengthOf(Packet ) u16
    crc , }
    // `tick` ""quote"" 'q'
    options
{ BodyLength =
    i32 ; x// " ++ [128512]%N ++ runes_of_ascii " emoji
=
255
    ; u= 3 } options
{ }
packet
    calculatedFrom {	}
    //x
    root
packet Header {
    Pad {
repeatCount ,  uint16 zchar , match msg_type
as
pack
    /// triple
    {	""abc"" : repeatCount , ""{,}"" : repeatCount""a	b""	: calculatedFrom},
repeat string
Logon `a\` , }
,@lengthOf( x_y_z
    ) match
tag as repeatCount { 007 :  BodyLength , [
    //	t
    """ ++ [28040; 24687]%N ++ runes_of_ascii """ ] :
BodyLength 42: string_ ""// no comment""
// trailing space 
/// triple
: //
Z9_ , 4294967296:
    // " ++ [128512]%N ++ runes_of_ascii " emoji
    _x
    } , f64 u `it's` , zchar[ 00] f32a `doc` ,match
    i64_
    as Logon
    { 4294967296// a // b
:
metadata ,
}
, char[1 ]Pad
, zchar[  0123456789 ] float // @lengthOf(
`` , }

")).
Eval vm_compute in ("<<<M134>>>" ++ check (runes_of_ascii "packet As { options1
    { i16 o , } , i64 roots ,repeat char[] o
    `a\` , @calculatedFrom( ""1""//x
)  repeatCount	@lengthOf(/// triple
falsey /// triple
)
// packet A { u8 x, }
// " ++ [128512]%N ++ runes_of_ascii " emoji
`a\` ,
@lengthOf( stringy ) char[]	As
`" ++ [233]%N ++ runes_of_ascii "` ,
asx {match msg_type as
chars { //	t
00: metadata
    // `tick` ""quote"" 'q'
    , }
    , i8 pack// c
@calculatedFrom(
    /// triple
    ""x y"" )
// trailing space 
// a // b
,//	t
match u8x as	rootA{
""1"": a1
, [
    // packet A { u8 x, }
    4294967296 ]
:msg_type
//
//x
,
}
, } // a // b
, @calculatedFrom(
""" ++ [233]%N ++ runes_of_ascii "t" ++ [233]%N ++ runes_of_ascii """ ) int16 roots ,
    @tag(1 )	@leftPad ( '0' ) @rightPad // " ++ [27880; 37322]%N ++ runes_of_ascii "
( '\x00'
)i32 asx `tab	here`	,char Logon `u8 x,` // trailing space 
,  }
root	packet string_ {// @lengthOf(
}packet Z9_ { int8 _x
, repeat u8 uint8x `" ++ [233]%N ++ runes_of_ascii "`
,
float64 x_y_z @calculatedFrom(	""x y"" )
    , @calculatedFrom(	""a\""b"" ) @calculatedFrom( ""a\""b"" )
    int
{zchar[255
] //
msg_type,  i64_
    // trailing space 
    {
    stringy @lengthOf(x_y_z )
    , u
    options1
    //
    `tab	here` ,
char[0123456789 ] msg_type ,float32
    Foo `{ , }`
    , } , } ,  @tag(	0
)
    @calculatedFrom( ""CRC32"" ) charz , @tag(
    // @lengthOf(
    4294967296 )
i64 packetx ,  } //	t")).
Eval vm_compute in ("<<<M4570>>>" ++ check (runes_of_ascii "// `tick` ""quote"" 'q'
packet Pad {
    pack {
        char repeatCount @lengthOf(a1),
        int16 Pad,
        int16 calculatedFrom,
    },
    @lengthOf(tag)
    uint16 repeatCount,
    @tag(10)
    char[007] trueish,
    Header @calculatedFrom(""\n"") `
    `,
    i8i8 a1 `" ++ [28040; 24687; 31867; 22411]%N ++ runes_of_ascii "`,
    u32 x @calculatedFrom(""abc""),
    @lengthOf(crc)
    //x
    // " ++ [27880; 37322]%N ++ runes_of_ascii "
    repeat char[3] charz `crlf
    line`,
}

MetaData MetaDataX {
    x As,
}//	t

root packet chars {
}

packet o {
    @lengthOf(msg_type)
    /// triple
    repeat uint64 float,
    a1,
    repeatCount {
        char[00] u8x @lengthOf(Header) `" ++ [28040; 24687; 31867; 22411]%N ++ runes_of_ascii "`,
        len @lengthOf(options1),
        x @lengthOf(pack) `two words`,
        char[] leftPad `" ++ [233]%N ++ runes_of_ascii "`,
    },
    char[] stringy @lengthOf(msg_type) `u8 x,`,
    @calculatedFrom(""it's"")
    Header A,
    char[1] f32a,
}

root packet packetx {
    // a // b
    repeat zchar[007] u8x,
    @leftPad('0')
    f64 stringy @lengthOf(lengthOf),
    match T as o {
        65535 : tag,
        255 : o,
        """" : stringy,
    },
    @lengthOf(calculatedFrom)
    @leftPad('0')
    @lengthOf(u)
    f64 Logon @lengthOf(_x),
}//	t")).
Eval vm_compute in ("<<<M4542>>>" ++ check (runes_of_ascii "  packet  
  // c
  // @lengthOf(
      int { 
@lengthOf(//
	pack
)f64  asx @calculatedFrom( ""abc""  )
,

    @calculatedFrom(

""\" ++ [233]%N ++ runes_of_ascii """	) f64//	t
u
`// not a comment`
, 	 // " ++ [128512]%N ++ runes_of_ascii " emoji
	@lengthOf(stringy )	@tag(

3
	)
@rightPad
(
)

repeat float32 rootA
, msg_type
@lengthOf( packetx
    // " ++ [27880; 37322]%N ++ runes_of_ascii "
    ) , @lengthOf(

    repeatCount
    )//x
	  @calculatedFrom( ""`tick`"" 
) 
float
lengthOf, 
}

packet 
Pad
	{ 
repeat	uint8x	body `u8 x,`	, zchar
	{

u8
trueish

,

float`
`
    ,} 
,
    @lengthOf( uint8x 
) @lengthOf(  //x

float 
)

    u64 
T	@calculatedFrom(""// no comment"" 
)
    , 
@rightPad(	)repeat	options1	//x
	int
,
@tag( 00
    // c
    	// c

)

@lengthOf(string_ 
        // c
    	/// triple
	)	@lengthOf(
    f32a) string 
/// triple
  	//	t
	u,
match
    // trailing space 
    	x

    as
	uint8x{
[

    ""it's"" ,""x y""
	,
    ""it's"" ] : 	 // " ++ [128512]%N ++ runes_of_ascii " emoji

  i64_

    ,  // c
	  }
, }

    root  packet trueish
{
    i8i8 
`line1
line2`, }	// " ++ [27880; 37322]%N ++ runes_of_ascii "
    packet tag{	//	t
	float64 // packet A { u8 x, }
  Foo ``

    ,
}

")).
Eval vm_compute in ("<<<M563>>>" ++ check (runes_of_ascii "packet
// `tick` ""quote"" 'q'
// `tick` ""quote"" 'q'
trueish {
    repeat packetx /// triple
zchar , // " ++ [128512]%N ++ runes_of_ascii " emoji
zchar[ 1
]
    /// triple
    stringy ,
    @lengthOf( u8x ) repeat
    f32 Logon,
repeat u8x {
zchar[	007
    ]crc
@calculatedFrom( ""a\\"" ) ,}
,@tag( 255
) @calculatedFrom(
""it's"" //	t
)	@tag( 65535 )repeat x
{
    repeat u8x metadata ,
zchar[
    //
    00 ]  stringy@lengthOf( float
    )
`two words` , }
, @lengthOf( A ) @calculatedFrom( ""packet"" )@rightPad ( '0'  )	Header ,msg_type charz , // packet A { u8 x, }
} packet x
{ @calculatedFrom( """ ++ [128512]%N ++ runes_of_ascii """ )
zchar[ 0123456789 ]A
    // c
    @calculatedFrom( ""a	b""
    )
, @calculatedFrom( // " ++ [128512]%N ++ runes_of_ascii " emoji
""""
) repeat BodyLength `
` ,
    }packet Foo{  char[
    7 ] crc // " ++ [27880; 37322]%N ++ runes_of_ascii "
@lengthOf(
charz )
    // @lengthOf(
    ,
@lengthOf( float
) charz ,repeat i8 Foo, uint64 leftPad /// triple
`{ , }`
    ,// `tick` ""quote"" 'q'
falsey
A,
repeat u128 x_y_z `// not a comment`
    // " ++ [128512]%N ++ runes_of_ascii " emoji
    ,/// triple
Logon @calculatedFrom( ""a	b"" )	, }
")).
Eval vm_compute in ("<<<M62>>>" ++ check (runes_of_ascii "MetaData Packet { // `tick` ""quote"" 'q'
Header
// " ++ [27880; 37322]%N ++ runes_of_ascii "
// c
uint8x
`{ , }`, x_y_z u8x `it's`
// packet A { u8 x, }
// packet A { u8 x, }
,
} // trailing space 
root packet packetx { repeat char[]  packetx , string zchar@lengthOf( a1
)	`tab	here`
    // @lengthOf(
    ,
match
    string_ as float { ""a\""b""  : Logon , 00
    :
    Foo 42 : stringy	[ 255
    , 0, ""a\\""] :f32a // @lengthOf(
[7 ,	""`tick`""
] : float , 0 : // c
len //	t
,} , @lengthOf( Header	)
    //
    len`doc`
, repeat
Pad { // " ++ [27880; 37322]%N ++ runes_of_ascii "
repeat	Pad `it's`,// @lengthOf(
char[ 65535
    ]i64_
    @calculatedFrom( //
""1"" )
    `a\` , crc
    // `tick` ""quote"" 'q'
    `two words` , match len
// a // b
/// triple
as
BodyLength { ""abc""
    // " ++ [27880; 37322]%N ++ runes_of_ascii "
    :a1, [ ""packet""
    /// triple
    ,
    7
    ]
    : crc
,
    // c
    3 :
    asx , }	,	} ,
int8 rootA @lengthOf(crc ),@lengthOf( chars)
    // trailing space 
    @tag( 7 ) @tag(7 ) repeat char[ 10 ] packetx	, }

")).
Eval vm_compute in ("<<<M604>>>" ++ check (runes_of_ascii "  packet MetaDataX
    { @calculatedFrom( """ ++ [233]%N ++ runes_of_ascii "t" ++ [233]%N ++ runes_of_ascii """ ) @calculatedFrom( ""x y"" ) match
    crc as A { 1 : As ,}
    ,
    }
options {  uint8x
    = false ;
} packet	Foo {@tag( 007 ) repeat	x repeatCount, match uint8x as	roots { ""{,}"":
Foo  , } , @tag( 10
    // " ++ [128512]%N ++ runes_of_ascii " emoji
    )int32	msg_type@lengthOf( rootA
    //	t
    ) , @calculatedFrom(	""a\""b"")@tag( 10 ) @lengthOf( msg_type )
A `// not a comment`
    , int64 asx @calculatedFrom(
""\" ++ [233]%N ++ runes_of_ascii """ ) , asx @calculatedFrom( ""a\\"" ) ,@calculatedFrom( ""\n""
) u64
// c
// " ++ [128512]%N ++ runes_of_ascii " emoji
stringy
    @calculatedFrom( ""CRC32"" ) `u8 x,`
    ,  @calculatedFrom(
""1"") @lengthOf(/// triple
string_ // `tick` ""quote"" 'q'
)//x
uint16 roots	@lengthOf(
u8x
) `" ++ [28040; 24687; 31867; 22411]%N ++ runes_of_ascii "` ,
}
    root packet //	t
len{ @calculatedFrom(
    // trailing space 
    ""CRC32"" ) @tag(
1)
repeat
    char[] Pad
,} options	{ Pad =
false ;
    string_ = uint16 ;
stringy //
=
string } // " ++ [128512]%N ++ runes_of_ascii " emoji")).
Eval vm_compute in ("<<<M3714>>>" ++ check (runes_of_ascii "  packet	Pad {}
	options 
{ _x	= false
/// triple
    // trailing space 
	;
	} MetaData repeatCount
	{char[ 10
	]As
    `it's`
    , 
T

metadata
    `say ""hi""` ,
    u16
matchKey ,  }packet
    u128 {f32	As	@calculatedFrom(
	""packet""
)`a\`
    , repeat
// packet A { u8 x, }
// " ++ [128512]%N ++ runes_of_ascii " emoji
    char[ 
7
    ]

    // packet A { u8 x, }
      // `tick` ""quote"" 'q'

T`say ""hi""` ,
	@lengthOf( 

    // c
    rootA	)
u64	//
  trueish  `{ , }` ,
    repeat

    char[ 
3

] MetaDataX ,repeat float64
i64_, 
i16
charz  ,	u8
trueish @lengthOf( int)

    `u8 x,` , @leftPad  ( '0' ) match

Header as
	f32a{  [007

    ]:
    i8i8, ""a	b"":  //x
    As  ,[ ""\n""

    ]	: zchar
,
007
    :a1 , 
0123456789 :
	falsey	,

}	,
repeat float64 stringy  `a\`
    ,	}

    packet 
MetaDataX 
{  roots

// @lengthOf(

leftPad `a\`
	,} ")).
Eval vm_compute in ("<<<M446>>>" ++ check (runes_of_ascii "// a // b
MetaData x{ i8 MetaDataX
`" ++ [233]%N ++ runes_of_ascii "`
,
string matchKey
//	t
// " ++ [27880; 37322]%N ++ runes_of_ascii "
, // packet A { u8 x, }
BodyLength
f32a,
char[ 7 ] u8x ,	char[] len , int16
msg_type
    , }packet o{ match roots as T{ [
    255 , 1 , 1 , """ ++ [28040; 24687]%N ++ runes_of_ascii """
, ""`tick`"",
    ""a\""b""
// c
//x
, 42	] :pack
, [ 0 //
,
""// no comment"" ] :
    Logon, [ ""1"", ""abc""
, 255 , 3 , ""\n""	, 255 , """ ++ [128512]%N ++ runes_of_ascii """
    ,
    ""{,}""
] // a // b
:
    x_y_z , }
,
    char[] len
    @lengthOf(Pad )
,
char[]
BodyLength ,trueish @calculatedFrom(""1"" )`" ++ [233]%N ++ runes_of_ascii "` , match
chars as x_y_z{ ""`tick`""
:calculatedFrom , } , @lengthOf( string_ ) char[
    3 ]f32a,falsey `" ++ [28040; 24687; 31867; 22411]%N ++ runes_of_ascii "` ,
repeat int64 //
u128 `tab	here`, uint8 msg_type @calculatedFrom( ""a\\"" )  `line1
line2`	, } options
{
    body =zchar[ 4294967296
] ;u128 = '\x00' BodyLength= float32 }
// @lengthOf(
")).
Eval vm_compute in ("<<<M1303>>>" ++ check (runes_of_ascii "  root packet // a // b
f32a{ zchar[0123456789] Foo , zchar @lengthOf(
a1 ),
    @rightPad// packet A { u8 x, }
( ) @tag( 3
    //
    ) match
int as stringy {
    [ 0]: chars,0  :
i8i8 42:	i64_
, [
// c
// packet A { u8 x, }
255
/// triple
// `tick` ""quote"" 'q'
,
7 ,""1"", ""a\\""] :
    leftPad,
""" ++ [233]%N ++ runes_of_ascii "t" ++ [233]%N ++ runes_of_ascii """
:
Header ,
    [ 7 ] : repeatCount ,
} , i32 falsey @lengthOf(
    u128 ) `two words` ,@tag( 0 )
char[]
// trailing space 
// " ++ [27880; 37322]%N ++ runes_of_ascii "
uint8x `{ , }`	, // " ++ [128512]%N ++ runes_of_ascii " emoji
repeat MetaDataX { string /// triple
len
    ,// `tick` ""quote"" 'q'
} ,
@leftPad (// a // b
'\x00'
    //x
    )
    zchar[
    0123456789	]o, f32 As
@calculatedFrom(
    ""a\\"" )
    , @lengthOf(string_ )repeat u128
    `` , pack/// triple
{
    crc stringy , repeat string asx , } , }
")).
Eval vm_compute in ("<<<M910>>>" ++ check (runes_of_ascii "//x
packet zchar { match a1 as
BodyLength
    {
    [// " ++ [128512]%N ++ runes_of_ascii " emoji
""a\\""] :trueish ,
} ,@leftPad (
    //	t
    '0' )	repeatCount @calculatedFrom( ""a	b"" )
`tab	here`
    ,int8 o @lengthOf(
i64_ )
    `u8 x,` ,
    u8 chars	,
} packet trueish {@lengthOf( crc )@calculatedFrom( """ ++ [128512]%N ++ runes_of_ascii """) @calculatedFrom(  ""`tick`""  )//x
match BodyLength as Z9_
    {
    3: falsey [ 42 , 00 , 3
, 10
]
    :
    packetx	,255:
metadata	,} // trailing space 
, repeat x_y_z
Header , @calculatedFrom( ""CRC32"" ) Z9_ // trailing space 
{	x
    // @lengthOf(
    @calculatedFrom( ""1""
// packet A { u8 x, }
//x
) `it's`	,
// packet A { u8 x, }
// trailing space 
string
Header, }
,
    @lengthOf( roots  ) i64_
    , }
// @lengthOf(
")).
Eval vm_compute in ("<<<M1282>>>" ++ check (runes_of_ascii "options { string_
=
0123456789 ; u=""" ++ [28040; 24687]%N ++ runes_of_ascii """ ; } options { f32a= 1
// " ++ [27880; 37322]%N ++ runes_of_ascii "
//x
;}packet u8x{	float32 A@calculatedFrom( ""`tick`""
    //x
    ) ,i16 o
    `" ++ [233]%N ++ runes_of_ascii "` ,int64 Logon	`
`,@calculatedFrom( ""`tick`"") @tag(
    //x
    42 ) @leftPad
    (	)
    int8
    // a // b
    len
    ,repeat char[3  ] // @lengthOf(
crc , char[] Packet	@lengthOf( pack ) // trailing space 
`" ++ [233]%N ++ runes_of_ascii "` // packet A { u8 x, }
, /// triple
}
// @lengthOf(
// @lengthOf(
packet MetaDataX{ match u8x as Header{0 : body
    //x
    , [  ""\n""
,""\n""
// @lengthOf(
/// triple
, """ ++ [128512]%N ++ runes_of_ascii """
, """ ++ [28040; 24687]%N ++ runes_of_ascii """	, 007// c
]	:
// `tick` ""quote"" 'q'
//x
leftPad, [ ""x y"" ] :
// trailing space 
//
chars[ //	t
10  ,3, ""`tick`"" ]: Header , }
    , }
")).
Eval vm_compute in ("<<<M325>>>" ++ check (runes_of_ascii "
root// packet A { u8 x, }
packet As
// c
// packet A { u8 x, }
{}	packet charz {metadata @calculatedFrom(
""{,}"" )
,repeat
zchar[	007
] T
`tab	here`, repeat tag
{
int8 crc `two words` , repeat o// @lengthOf(
{ repeat
// " ++ [128512]%N ++ runes_of_ascii " emoji
// trailing space 
f32a,
} , repeat i16 Z9_ `say ""hi""` , zchar[ // @lengthOf(
3] body @lengthOf( Packet )
,} , @lengthOf(
    o ) match uint8x as As
    {
255	:
T ,	},
f32a
    @lengthOf( leftPad )
    // `tick` ""quote"" 'q'
    ,BodyLength _x `u8 x,` ,
} packet BodyLength
{ }
packet
leftPad
{ @leftPad(
// " ++ [128512]%N ++ runes_of_ascii " emoji
// packet A { u8 x, }
' ') repeat zchar[ 10
]	_x ,}
    options{ int =65535 ;
    }
")).
Eval vm_compute in ("<<<M359>>>" ++ check (runes_of_ascii "  root
    packet o
{ a1 a1	, char[
3 ] i8i8 `
` , @calculatedFrom( ""a\""b"" )// packet A { u8 x, }
repeat /// triple
Pad
    , }
// `tick` ""quote"" 'q'
// `tick` ""quote"" 'q'
packet
    tag{ i8i8 @calculatedFrom( ""x y"" )
`it's`
, @lengthOf(x_y_z
) @calculatedFrom(
//
//	t
""a\""b""
    ) u {
match	a1 as
    Logon { ""\n"" : Pad
,3
:	body , """"
:// `tick` ""quote"" 'q'
Logon ,
""\n"" : T
, ""`tick`""
:
    tag ,
[ """ ++ [233]%N ++ runes_of_ascii "t" ++ [233]%N ++ runes_of_ascii """/// triple
,
7,
""a\""b""	, 0123456789
,""abc"" , """ ++ [28040; 24687]%N ++ runes_of_ascii """ ,0 ] : Z9_
    },
    char[ 00  ]//
string_@lengthOf( asx ), char[
    1 ]falsey , } ,match	crc
as
    lengthOf {
    4294967296 : a1
}, }
")).
Eval vm_compute in ("<<<M595>>>" ++ check (runes_of_ascii "
options
{asx =
    // " ++ [27880; 37322]%N ++ runes_of_ascii "
    string ;}options
// " ++ [27880; 37322]%N ++ runes_of_ascii "
// trailing space 
{ repeatCount = zchar[0
    ] ; leftPad
// packet A { u8 x, }
// @lengthOf(
=
    string
    ; uint8x
= '0'
    ; }
//x
//	t
root packet uint8x { trueish x_y_z , As
// a // b
//	t
, zchar[//
00 ] uint8x @lengthOf( a1 ) //
`say ""hi""`
    ,
    @leftPad
    (  )
zchar[ 4294967296 ]
    // @lengthOf(
    metadata
    `say ""hi""` ,float32 u128
`line1
line2`, char[ 10]
    // " ++ [27880; 37322]%N ++ runes_of_ascii "
    lengthOf@calculatedFrom( ""CRC32""
) `doc` ,a1@lengthOf( chars )
,
    char[ 10 ] calculatedFrom
, repeat
uint32 As
    ,	}")).
Eval vm_compute in ("<<<M4548>>>" ++ check (runes_of_ascii "packet body {
    @tag(00)
    zchar[255] zchar @calculatedFrom(""it's""),
    int8 i8i8,
    x_y_z @lengthOf(options1),
    // packet A { u8 x, }
    zchar[00] T,
    repeat float64 chars,
    f64 repeatCount `doc`,
    repeat i64_ repeatCount,
    repeat Header int,
    uint16 len `line1
    line2`,
    @lengthOf(Header)
    @tag(0123456789)
    float64 u8x @lengthOf(options1) `u8 x,`,
}

options {
    x = ""\" ++ [233]%N ++ runes_of_ascii """;
}

// " ++ [128512]%N ++ runes_of_ascii " emoji
MetaData trueish {
    options1 float ``,// a // b
    zchar[3] lengthOf,
}

options {
    rootA = ""1""
    T = """ ++ [128512]%N ++ runes_of_ascii """
}")).
Eval vm_compute in ("<<<M432>>>" ++ check (runes_of_ascii "packet A {Logon// @lengthOf(
o
,	u8x{ // @lengthOf(
asx // " ++ [27880; 37322]%N ++ runes_of_ascii "
chars, }
    , x o
,@leftPad
    ( )// trailing space 
As
// c
//x
@lengthOf(
u)	,}MetaData f32a{crc
    Logon ,}	root packet
    u128 {stringy Logon// " ++ [128512]%N ++ runes_of_ascii " emoji
`a\`, @calculatedFrom( // c
""1""
)	@leftPad
    // a // b
    ( '\x00' ) @tag(255 )int64 stringy @lengthOf(lengthOf //	t
) `line1
line2`, rootA `
`,@calculatedFrom( ""a	b""
    )// packet A { u8 x, }
o
@calculatedFrom(  ""`tick`"" ) // @lengthOf(
`a\`
, repeatCount @lengthOf(
    T ) // @lengthOf(
, }
")).
Eval vm_compute in ("<<<M4362>>>" ++ check (runes_of_ascii "
packet
    metadata
    {match trueish as  body

{0123456789  : A,
	1:
	rootA[ 	 //
	  ""packet""

    ,

65535, 65535

,

""a	b""  ,
42	, ""x y""
,

1 // @lengthOf(

,

    0	] : 
// packet A { u8 x, }
    // " ++ [128512]%N ++ runes_of_ascii " emoji
  u128
, //	t
	10	: As, 0123456789	:
stringy,
""x y"" :  BodyLength , }
,	i64_

    options1`a\`
    ,	}

    packet trueish{ 
        /// triple
  	}packet BodyLength

{i32
charz	,

@calculatedFrom( // @lengthOf(
      """ ++ [28040; 24687]%N ++ runes_of_ascii """ ) repeat float32
	asx`doc` ,
    }	// trailing space 
 
")).
Eval vm_compute in ("<<<M706>>>" ++ check (runes_of_ascii "packet  o
    { chars  {
// `tick` ""quote"" 'q'
//
repeat  options1 {repeat lengthOf packetx , }
, repeat
a1	,	} , repeat leftPad , } // packet A { u8 x, }
packet
float{ f64	string_ @lengthOf( float
) , repeat
f64
uint8x , @tag(1 )
    packetx{ i32 asx,}
// `tick` ""quote"" 'q'
// a // b
, i64_ @lengthOf(
    u128
) `u8 x,` ,
    asx // trailing space 
{ string calculatedFrom	`u8 x,`
, uint8 falsey @calculatedFrom( ""x y""
),
} , int32 Header
, }
//
/// triple
MetaData u8x { }
")).
Eval vm_compute in ("<<<M3884>>>" ++ check (runes_of_ascii "

  options
	{
x
=
    3

    matchKey

    =
""a\""b""	// @lengthOf(
	leftPad=

""packet""
	;
	T

    =

zchar[ 65535	] 
; }

MetaData
MetaDataX

{ }	MetaData  // " ++ [128512]%N ++ runes_of_ascii " emoji
repeatCount{
u8x
    Pad

, 
}
packet T
{  @tag(
    42 
) repeat

    MetaDataX `{ , }` 
// a // b
	,// @lengthOf(

float32
	x
@lengthOf(
u8x  )
`
`
,int16
matchKey  @calculatedFrom( ""\n""
	)`two words`,
}packet
	packetx  { _x

@calculatedFrom(""a\""b""
    )`a\`,}	// a // b
")).
Eval vm_compute in ("<<<M4558>>>" ++ check (runes_of_ascii "MetaData
	float { 
u8 Packet
,
string i64_ `" ++ [28040; 24687; 31867; 22411]%N ++ runes_of_ascii "`

,

    charz 
pack
	, char rootA ,char[

    0123456789 ]

    msg_type	,

    uint8	calculatedFrom 
, }packet

Pad
	{

}
root
	packet
len
    { // c
  matchKey@calculatedFrom( 
""a\""b""
) 
`u8 x,`  ,//x

  @leftPad  (

    )
match

    roots
as u128
{

    [ 4294967296  
  // packet A { u8 x, }
,  007]
:body  , 
}
    ,
    charz
    , 
    // trailing space 
	}
")).
Eval vm_compute in ("<<<M4395>>>" ++ check (runes_of_ascii "
packet
	u8x 
{	//
  asx 
// a // b
  // @lengthOf(
`say ""hi""`
	    //x

  ,

    }
    MetaData

Foo { 
packetx

    MetaDataX `" ++ [28040; 24687; 31867; 22411]%N ++ runes_of_ascii "` , }
	packet
a1

{

    @calculatedFrom(

    ""\" ++ [233]%N ++ runes_of_ascii """// trailing space 
	  ) len
    // " ++ [27880; 37322]%N ++ runes_of_ascii "

  // c
`` ,

    @calculatedFrom( ""a\\"" // trailing space 
  	)@lengthOf( calculatedFrom )	//	t
  string msg_type
        // trailing space 
	// c
  , }
        // packet A { u8 x, }
")).
Eval vm_compute in ("<<<M4163>>>" ++ check (runes_of_ascii "packet repeatCount {
    @rightPad(' ')
    char[42] Header @calculatedFrom(""a\\""),
    // packet A { u8 x, }
    // packet A { u8 x, }
    @tag(10)
    i64 options1 @calculatedFrom(""x y""),
    Packet {
        i64 lengthOf @calculatedFrom(""abc""),
        repeat zchar[00] i64_ `u8 x,`,
    },
    string tag,
    string o `" ++ [233]%N ++ runes_of_ascii "`,
    repeat char[42] a1 `doc`,
    string leftPad @calculatedFrom(""a\\""),
}")).
Eval vm_compute in ("<<<M122>>>" ++ check (runes_of_ascii "
packet  u
    //	t
    {uint32 metadata	,	@lengthOf( metadata // " ++ [27880; 37322]%N ++ runes_of_ascii "
)
// `tick` ""quote"" 'q'
// c
repeat Logon
    ,x_y_z// a // b
, @lengthOf(
    tag )
// " ++ [128512]%N ++ runes_of_ascii " emoji
// c
float msg_type	,}MetaData chars { u8x
    matchKey
// " ++ [27880; 37322]%N ++ runes_of_ascii "
//x
,
    uint8
    x_y_z `u8 x,`, zchar x_y_z `doc` ,	char i64_ `a\` ,f32 tag//	t
, } MetaData _x {
// trailing space 
// `tick` ""quote"" 'q'
} options { }
")).
Eval vm_compute in ("<<<M4474>>>" ++ check (runes_of_ascii "packet

f32a  { }

packet 
metadata{

    @calculatedFrom(""\" ++ [233]%N ++ runes_of_ascii """
	) repeat  _x
	{string
	    // a // b
    	falsey

, } ,

@calculatedFrom(
""it's""

) As 
leftPad`a\`  ,
@calculatedFrom(
	""abc""  ) 
char[  //	t
    0]  roots , @tag(
00) match Pad as
	roots {
10
:
    x_y_z 
,

    00 : 
len  [	""// no comment""
]// a // b
  :
T}	, 
a1 Header
`" ++ [233]%N ++ runes_of_ascii "`
    ,// " ++ [27880; 37322]%N ++ runes_of_ascii "

  }
")).
Eval vm_compute in ("<<<M542>>>" ++ check (runes_of_ascii "packet // a // b
chars { @leftPad (  )
char[ 42] asx
,
@tag( 007 ) matchKey
    As
,  @leftPad ( // a // b
'\x00' // " ++ [128512]%N ++ runes_of_ascii " emoji
) msg_type`u8 x,` ,
    repeat  charz// packet A { u8 x, }
{ int64 f32a ,Header { u32 MetaDataX ,
char[
3
] repeatCount @calculatedFrom(""packet""
)
`tab	here`
, repeat f64 Logon
`
`
, }
, }
//
// trailing space 
, } //	t")).
Eval vm_compute in ("<<<M44>>>" ++ check (runes_of_ascii "packet rootA { @rightPad( ' ') repeat
    Z9_ roots
``,	zchar
tag `two words` , @rightPad ( ' '
    )
len {
// trailing space 
//x
u128
`doc` ,u8x
    ,  char[ 0123456789 // a // b
]calculatedFrom  `" ++ [28040; 24687; 31867; 22411]%N ++ runes_of_ascii "`,msg_type
@lengthOf(
falsey)`u8 x,` , } ,
@calculatedFrom( """"	)	f64 charz
@lengthOf(msg_type) `it's`// trailing space 
,
    }
")).
Eval vm_compute in ("<<<M1883>>>" ++ check (runes_of_ascii "MetaData
    u { }  options @lengthOf(
// c
// @lengthOf(
float = int8 ;rootA =false ; As =	int16 // `tick` ""quote"" 'q'
repeatCount
    // trailing space 
    =
    int16
; u8x =
    //	t
    '\x00' ; } options	{
    repeatCount
= 0
u128
    //
    = false ; i64_
// trailing space 
// `tick` ""quote"" 'q'
= '0' ; //	t
}
")).
Eval vm_compute in ("<<<M2038>>>" ++ check (runes_of_ascii "MetaData
    u { }  options {
// c
// @lengthOf(
float = int8 ;rootA =false ; As =	int16 // `tick` ""quote"" 'q'
repeatCount
    // trailing space 
    =
    int16
; u8x =
    //	t
    '\x00' ; } options	{
    repeatCount
= 0
u128
    //
    = false ; i64_
// trailing space 
// `tick` ""quote"" 'q'
int16 '0' ; //	t
}
")).
Eval vm_compute in ("<<<M2016>>>" ++ check (runes_of_ascii "MetaData
    u { }  options {
// c
// @lengthOf(
float = int8 ;rootA =false ; As =	int16 // `tick` ""quote"" 'q'
repeatCount
    // trailing space 
    =
    int16
; u8x =
    //	t
    '\x00' ; } options	{
    repeatCount
= 0
u128
    //
    = = false ; i64_
// trailing space 
// `tick` ""quote"" 'q'
= '0' ; //	t
}
")).
Eval vm_compute in ("<<<M1862>>>" ++ check (runes_of_ascii "MetaData
    { u }  options {
// c
// @lengthOf(
float = int8 ;rootA =false ; As =	int16 // `tick` ""quote"" 'q'
repeatCount
    // trailing space 
    =
    int16
; u8x =
    //	t
    '\x00' ; } options	{
    repeatCount
= 0
u128
    //
    = false ; i64_
// trailing space 
// `tick` ""quote"" 'q'
= '0' ; //	t
}
")).
Eval vm_compute in ("<<<M2007>>>" ++ check (runes_of_ascii "MetaData
    u { }  options {
// c
// @lengthOf(
float = int8 ;rootA =false ; As =	int16 // `tick` ""quote"" 'q'
repeatCount
    // trailing space 
    =
    int16
; u8x =
    //	t
    '\x00' ; } options	{
    repeatCount
= u128
0
    //
    = false ; i64_
// trailing space 
// `tick` ""quote"" 'q'
= '0' ; //	t
}
")).
Eval vm_compute in ("<<<M2005>>>" ++ check (runes_of_ascii "MetaData
    u { }  options {
// c
// @lengthOf(
float = int8 ;rootA =false ; As =	int16 // `tick` ""quote"" 'q'
repeatCount
    // trailing space 
    =
    int16
; u8x =
    //	t
    '\x00' ; } options	{
    repeatCount
= 
u128
    //
    = false ; i64_
// trailing space 
// `tick` ""quote"" 'q'
= '0' ; //	t
}
")).
Eval vm_compute in ("<<<M1140>>>" ++ check (runes_of_ascii "
options  {Foo =
    true // trailing space 
;}
    packet
u128{ @calculatedFrom( ""x y"")  lengthOf@lengthOf(
msg_type)	`tab	here` ,
    asx
x
, zchar[ 10
    // c
    ] i64_ , repeat body ,
char[255 // @lengthOf(
]asx@calculatedFrom( """ ++ [128512]%N ++ runes_of_ascii """
    )
`crlf
line`,u128
    string_ ,
int { zchar[ 7
]_x , }  , }")).
Eval vm_compute in ("<<<M501>>>" ++ check (runes_of_ascii "packet Foo{
    char[ 10
]f32a
@lengthOf(
calculatedFrom )
    `crlf
line`
    , match pack as A// `tick` ""quote"" 'q'
{ """ ++ [233]%N ++ runes_of_ascii "t" ++ [233]%N ++ runes_of_ascii """ :	f32a /// triple
,[ ""x y"" , ""`tick`"" ] : falsey , ""x y""
    //x
    : Foo ,
    7 : chars// c
,""{,}""  :u128 , 255:
A , } ,string
//x
// trailing space 
T `
` ,} /// triple")).
Eval vm_compute in ("<<<M3710>>>" ++ check (runes_of_ascii "
packet
f32a{
	}	MetaData

x {	BodyLength
zchar ,// @lengthOf(
    }packet

    metadata

    {
    @tag(
7 ) @lengthOf(

uint8x )body	{
u8

    Z9_	@calculatedFrom(  /// triple
""it's"" )

`u8 x,` 
    // @lengthOf(
	,	},float32
	falsey 
@lengthOf( u  //	t
    ) `line1
line2`

,
	} ")).
Eval vm_compute in ("<<<M4453>>>" ++ check (runes_of_ascii "packet zchar {
    char[] i64_,
    // " ++ [128512]%N ++ runes_of_ascii " emoji
    @calculatedFrom(""// no comment"")
    match charz as tag {
        [
            ""it's"", 4294967296, ""a	b"", """ ++ [28040; 24687]%N ++ runes_of_ascii """, """ ++ [128512]%N ++ runes_of_ascii """,
            255, 007
        ] : i64_,
        [0123456789, 3, 00] : Packet,
        [""" ++ [233]%N ++ runes_of_ascii "t" ++ [233]%N ++ runes_of_ascii """] : a1,
    },
}")).
Eval vm_compute in ("<<<M932>>>" ++ check (runes_of_ascii "packet Packet { f32a// @lengthOf(
pack ,  @tag(00
)@tag( //	t
7  ) // @lengthOf(
A @calculatedFrom( ""\" ++ [233]%N ++ runes_of_ascii """
// " ++ [27880; 37322]%N ++ runes_of_ascii "
// " ++ [128512]%N ++ runes_of_ascii " emoji
) ,crc	stringy
    ,	}	packet Packet
{ i64 u8x `u8 x,`
    , // " ++ [27880; 37322]%N ++ runes_of_ascii "
@leftPad ( '\x00' )
@lengthOf( MetaDataX ) @lengthOf(As ) chars o `" ++ [28040; 24687; 31867; 22411]%N ++ runes_of_ascii "` , }")).
Eval vm_compute in ("<<<M1114>>>" ++ check (runes_of_ascii "
packet calculatedFrom
{
@lengthOf( rootA
    )
    @tag( 0 )  repeat  lengthOf
    // trailing space 
    Pad `doc`,
} // packet A { u8 x, }
options
    {
lengthOf	= false x_y_z= true  ;_x = u8; zchar=
    char[ 10 ] MetaDataX
    =
    true } packet	T { }")).
Eval vm_compute in ("<<<M1600>>>" ++ check (runes_of_ascii "packet
//	t
// trailing space 
_x {
// packet A { u8 x, }
// c
char[
3
    ] u8x @lengthOf(
u8x ) , @calculatedFrom(""" ++ [128512]%N ++ runes_of_ascii """ // @lengthOf(
)
i16	Foo
@lengthOf(	string_
    )`doc`	, repeat	repeat metadata , @lengthOf( string_
) i8 // c
u  `line1
line2`	,
}
")).
Eval vm_compute in ("<<<M1656>>>" ++ check (runes_of_ascii "packet
//	t
// trailing space 
_x {
// packet A { u8 x, }
// c
char[
3
    ] u8x @lengthOf(
u8x ) , @calculatedFrom(""" ++ [128512]%N ++ runes_of_ascii """ // @lengthOf(
)
i16	Foo
@lengthOf(	string_
    )`doc`	, repeat	i64 metadata , `@lengthOf( string_
) i8 // c
u  `line1
line2`	,
}
")).
Eval vm_compute in ("<<<M1574>>>" ++ check (runes_of_ascii "packet
//	t
// trailing space 
_x {
// packet A { u8 x, }
// c
char[
3
    ] u8x @lengthOf(
u8x ) , @calculatedFrom(""" ++ [128512]%N ++ runes_of_ascii """ // @lengthOf(
)
i16	Foo
@lengthOf(	)
    string_`doc`	, repeat	i64 metadata , @lengthOf( string_
) i8 // c
u  `line1
line2`	,
}
")).
Eval vm_compute in ("<<<M1607>>>" ++ check (runes_of_ascii "packet
//	t
// trailing space 
_x {
// packet A { u8 x, }
// c
char[
3
    ] u8x @lengthOf(
u8x ) , @calculatedFrom(""" ++ [128512]%N ++ runes_of_ascii """ // @lengthOf(
)
i16	Foo
@lengthOf(	string_
    )`doc`	, repeat	i64 metadata  @lengthOf( string_
) i8 // c
u  `line1
line2`	,
}
")).
Eval vm_compute in ("<<<M1488>>>" ++ check (runes_of_ascii "
//	t
// trailing space 
_x {
// packet A { u8 x, }
// c
char[
3
    ] u8x @lengthOf(
u8x ) , @calculatedFrom(""" ++ [128512]%N ++ runes_of_ascii """ // @lengthOf(
)
i16	Foo
@lengthOf(	string_
    )`doc`	, repeat	i64 metadata , @lengthOf( string_
) i8 // c
u  `line1
line2`	,
}
")).
Eval vm_compute in ("<<<M4182>>>" ++ check (runes_of_ascii "  // top
	root// c0
		packet

// c1
P// c2a
  // c2b
    {  // c3a
    // c3b
	hdr

    { 	 // c5a
// c5b
	u8 	 // c6a
  	// c6b
      a
	,
    // c8
	} 	 // c9a
	// c9b
    	, u8 // c11a
  // c11b
x
        // c12
	,
    // c13
}")).
Eval vm_compute in ("<<<M4014>>>" ++ check (runes_of_ascii "packet matchKey {
    // packet A { u8 x, }
    zchar[65535] Foo @calculatedFrom(""\n"") ``,
    @tag(10)
    repeat x Logon `
        `,
    @calculatedFrom(""it's"")
    @rightPad()
    zchar[255] lengthOf,
    repeat uint8x `" ++ [233]%N ++ runes_of_ascii "`,
}")).
Eval vm_compute in ("<<<M3587>>>" ++ check (runes_of_ascii "// top
packet // c0a
  // c0b
order_item
    // c1
{ u8 // c3a
  // c3b
a ,
    // c5
} // c6a
  // c6b
root
    // c7
packet // c8a
  // c8b
new_order // c9a
  // c9b
{ order_item
    // c11
,
    // c12
u8 x // c14
, } ")).
Eval vm_compute in ("<<<M718>>>" ++ check (runes_of_ascii "packet stringy {
    u @calculatedFrom(""" ++ [233]%N ++ runes_of_ascii "t" ++ [233]%N ++ runes_of_ascii """
), repeat
pack string_ , zchar[7
]x_y_z  , }
    options{ Pad
= false _x =
    ""\" ++ [233]%N ++ runes_of_ascii """ ;
}MetaData zchar {
    uint8 trueish `it's` ,char[ 65535]
uint8x ,  stringy tag ,}")).
Eval vm_compute in ("<<<M1804>>>" ++ check (runes_of_ascii "options { trueish = ""`tick`"" ; string_= """ ++ [233]%N ++ runes_of_ascii "t" ++ [233]%N ++ runes_of_ascii """
    // c
    } root
    packet body { stringy @calculatedFrom(
""a	b"" ) `line1
line2` , }
packet Logon {
    @leftPad(
    0123456789 ) //	t
u16 string_ `u8 x,` ,
}
")).
Eval vm_compute in ("<<<M331>>>" ++ check (runes_of_ascii "options {
calculatedFrom =  '0'
    // c
    float= char[] ; Pad= 0	;//	t
_x
    // packet A { u8 x, }
    =007
    ;
}packet u
    { @lengthOf( u) repeat
string /// triple
o
,} root packet lengthOf { }

")).
Eval vm_compute in ("<<<M1829>>>" ++ check (runes_of_ascii "options { trueish = ""`tick`"" ; string_= """ ++ [233]%N ++ runes_of_ascii "t" ++ [233]%N ++ runes_of_ascii """
    // c
    } root
    packet body { stringy @calculatedFrom(
""a	b"" ) `line1
line2` , }
packet Logon {
    @leftPad(
    ' ' ) //	t
u16 string_ `u8 x,` as
}
")).
Eval vm_compute in ("<<<M1768>>>" ++ check (runes_of_ascii "options { trueish = ""`tick`"" ; string_= """ ++ [233]%N ++ runes_of_ascii "t" ++ [233]%N ++ runes_of_ascii """
    // c
    } root
    packet body { stringy @calculatedFrom(
""a	b"" ) `line1
line2` } ,
packet Logon {
    @leftPad(
    ' ' ) //	t
u16 string_ `u8 x,` ,
}
")).
Eval vm_compute in ("<<<M1796>>>" ++ check (runes_of_ascii "options { trueish = ""`tick`"" ; string_= """ ++ [233]%N ++ runes_of_ascii "t" ++ [233]%N ++ runes_of_ascii """
    // c
    } root
    packet body { stringy @calculatedFrom(
""a	b"" ) `line1
line2` , }
packet Logon {
    @leftPad
    ' ' ) //	t
u16 string_ `u8 x,` ,
}
")).
Eval vm_compute in ("<<<M1726>>>" ++ check (runes_of_ascii "options { trueish = ""`tick`"" ; string_= """ ++ [233]%N ++ runes_of_ascii "t" ++ [233]%N ++ runes_of_ascii """
    // c
    } root
     body { stringy @calculatedFrom(
""a	b"" ) `line1
line2` , }
packet Logon {
    @leftPad(
    ' ' ) //	t
u16 string_ `u8 x,` ,
}
")).
Eval vm_compute in ("<<<M4003>>>" ++ check (runes_of_ascii "// top
packet metadata {
    // c2
    Logon {
        // c4
        A `" ++ [28040; 24687; 31867; 22411]%N ++ runes_of_ascii "`,
        // c7
        tag o,
        // c10
    },
    // c12
    zchar len `// not a comment`,
    // c16
}
// c17")).
Eval vm_compute in ("<<<M4223>>>" ++ check (runes_of_ascii "
packet  falsey

    {
}
    packet

    stringy 
{ repeatCount	//	t

	@calculatedFrom(
""a	b""	//x
    ) ,

@lengthOf( string_  )
    repeat 
i64_ metadata`
`  /// triple
      , }

")).
Eval vm_compute in ("<<<M4095>>>" ++ check (runes_of_ascii "packet Z9_ {
}// " ++ [27880; 37322]%N ++ runes_of_ascii "

MetaData packetx {
    u8 x_y_z `it's`,
}

packet options1 {
    uint16 rootA `" ++ [28040; 24687; 31867; 22411]%N ++ runes_of_ascii "`,// " ++ [128512]%N ++ runes_of_ascii " emoji
    repeat string stringy `" ++ [233]%N ++ runes_of_ascii "`,
    char[] repeatCount `" ++ [28040; 24687; 31867; 22411]%N ++ runes_of_ascii "`,
}")).
Eval vm_compute in ("<<<M1815>>>" ++ check (runes_of_ascii "options { trueish = ""`tick`"" ; string_= """ ++ [233]%N ++ runes_of_ascii "t" ++ [233]%N ++ runes_of_ascii """
    // c
    } root
    packet body { stringy @calculatedFrom(
""a	b"" ) `line1
line2` , }
packet Logon {
    @leftPad(
    ' ' )")).
Eval vm_compute in ("<<<M249>>>" ++ check (runes_of_ascii "
root packet /// triple
Foo { int32 tag
    `doc` , char[0
    ]
    u8x`u8 x,`
, charz charz
    , @rightPad(' ')@tag( 3 ) @rightPad	('0' )
repeat
int16	float ,}
")).
Eval vm_compute in ("<<<M1048>>>" ++ check (runes_of_ascii "packet falsey { }
    packet
    stringy
    { repeatCount //	t
@calculatedFrom(  ""a	b"" //x
) ,
@lengthOf( string_ )
    repeat i64_ metadata
`
` /// triple
, }
")).
Eval vm_compute in ("<<<M455>>>" ++ check (runes_of_ascii "root packet
repeatCount {  }
    MetaData // a // b
crc
{
float32 x ,	float64 falsey `
` , //x
u32 //
f32a`" ++ [233]%N ++ runes_of_ascii "` ,uint16 MetaDataX
,
}options	{ len
= 10
    }
")).
Eval vm_compute in ("<<<M1576>>>" ++ check (runes_of_ascii "packet
//	t
// trailing space 
_x {
// packet A { u8 x, }
// c
char[
3
    ] u8x @lengthOf(
u8x ) , @calculatedFrom(""" ++ [128512]%N ++ runes_of_ascii """ // @lengthOf(
)
i16	Foo
@lengthOf(")).
Eval vm_compute in ("<<<M2419>>>" ++ check (runes_of_ascii "// c
packe#t x { @lengthOf( metadata ) repeat lengthOf
,a1{
trueish	,// c
repeat//	t
MetaDataX , } , zchar[
    42	] rootA // `tick` ""quote"" 'q'
,
    }
")).
Eval vm_compute in ("<<<M2382>>>" ++ check (runes_of_ascii "// c
packet { x @lengthOf( metadata ) repeat lengthOf
,a1{
trueish	,// c
repeat//	t
MetaDataX , } , zchar[
    42	] rootA // `tick` ""quote"" 'q'
,
    }
")).
Eval vm_compute in ("<<<M4590>>>" ++ check (runes_of_ascii "
MetaData u { 
BodyLength
    repeatCount	// packet A { u8 x, }
  ,
} 
options {
	string_

= 
false;

i8i8  =  10  ; 
} root

packet float {
    }  //
 
")).
Eval vm_compute in ("<<<M2373>>>" ++ check (runes_of_ascii "// c
packet x { @lengthOf( metadata ) repeat lengthOf
,a1{
trueish	,// c
repeat//	t
MetaDataX , } , zchar[
    	] rootA // `tick` ""quote"" 'q'
,
    }
")).
Eval vm_compute in ("<<<M60>>>" ++ check (runes_of_ascii "MetaData crc // trailing space 
{}options
{ metadata = 10 ; u = 65535
repeatCount
    = char[ 0123456789 // packet A { u8 x, }
]  }MetaData i8i8{ }
")).
Eval vm_compute in ("<<<M15>>>" ++ check (runes_of_ascii "options { matchKey
    =
10 } MetaData options1{
    matchKey o `doc` , rootA tag
,uint32 _x /// triple
`line1
line2`, char[] chars `say ""hi""`,  }")).
Eval vm_compute in ("<<<M743>>>" ++ check (runes_of_ascii "
MetaData
    A{ calculatedFrom
falsey `line1
line2` , //x
char[ 255 ]T
    `
` , float32 Logon ,
    stringy
i8i8 ,
char[]rootA
`{ , }` , }
")).
Eval vm_compute in ("<<<M417>>>" ++ check (runes_of_ascii "  options {  }
root  packet i8i8 { } packet
asx {
    f64
pack,@calculatedFrom( ""a\\""	)zchar[	255	]rootA `it's`
    // c
    , // " ++ [27880; 37322]%N ++ runes_of_ascii "
} // " ++ [27880; 37322]%N)).
Eval vm_compute in ("<<<M1561>>>" ++ check (runes_of_ascii "packet
//	t
// trailing space 
_x {
// packet A { u8 x, }
// c
char[
3
    ] u8x @lengthOf(
u8x ) , @calculatedFrom(""" ++ [128512]%N ++ runes_of_ascii """ // @lengthOf(
)")).
Eval vm_compute in ("<<<M670>>>" ++ check (runes_of_ascii "//	t
MetaData asx
{
zchar Packet `" ++ [233]%N ++ runes_of_ascii "` ,	zchar[ 42 ]
f32a
    , } options {
    // packet A { u8 x, }
    tag=
    ""\n"" ;
    }
")).
Eval vm_compute in ("<<<M4360>>>" ++ check (runes_of_ascii "root packet matchKey {
    zchar[3] pack @calculatedFrom(""a	b"") `doc`,
}

options {
}

MetaData A {
    int8 msg_type,
}
// c")).
Eval vm_compute in ("<<<M3358>>>" ++ check (runes_of_ascii "root packet matchKey { zchar[ 3 ] pack @calculatedFrom( ""a	b"" ) `doc` , } options { } MetaData A { int8 msg_type , } // c
")).
Eval vm_compute in ("<<<M3331>>>" ++ check (runes_of_ascii "root packet matchKey { zchar[ 3 ] pack @calculatedFrom( ""a	b""
// c
) `doc` , } options { } MetaData A { int8 msg_type , }")).
Eval vm_compute in ("<<<M649>>>" ++ check (runes_of_ascii "root packet
string_{
@calculatedFrom( ""`tick`"" )
    uint8 stringy `a\` //
, int16 Packet @calculatedFrom( ""it's"" ), }")).
Eval vm_compute in ("<<<M3553>>>" ++ check (runes_of_ascii "

  packet B

{

u8
    a
    , string
s	,
}

root  packet P

{
	u16 
L
@lengthOf(B ) ,	B,

    u8
    t
    ,
}
")).
Eval vm_compute in ("<<<M629>>>" ++ check (runes_of_ascii "
options
{stringy= 7
    ;
    float = 0 ;tag //	t
=	42
    charz =
char[ 00
    ] msg_type = ""CRC32"" } /// triple")).
Eval vm_compute in ("<<<M6>>>" ++ check (runes_of_ascii "root	packet
    charz { // " ++ [128512]%N ++ runes_of_ascii " emoji
repeat char[65535
]
options1,} options  { As=
    //
    ""\n""
    } // a // b")).
Eval vm_compute in ("<<<M1420>>>" ++ check (runes_of_ascii "
packet
    falsey { Header MetaData""packet""  ) , char[
    0123456789 ] packetx
    , } // `tick` ""quote"" 'q'")).
Eval vm_compute in ("<<<M2995>>>" ++ check (runes_of_ascii "packet A {
  match k as n {
    [""a"", 22, ""c c"", 4, ""e"", 66, ""g"", 8, ""i"", 10, ""k"", 12] : B
    2 : C
  },
}")).
Eval vm_compute in ("<<<M3911>>>" ++ check (runes_of_ascii "packet chars	{
}
packet
MetaDataX
	{	@tag(
	42 )
    i16
string_, 
repeat// c
	  x `say ""hi""` 
,  }
")).
Eval vm_compute in ("<<<M4451>>>" ++ check (runes_of_ascii "
// " ++ [27880; 37322]%N ++ runes_of_ascii "
	  MetaData  msg_type {
}MetaData 
Pad
{ int64 Header ,}
    MetaData
matchKey	{

    } //
")).
Eval vm_compute in ("<<<M4230>>>" ++ check (runes_of_ascii "
MetaData  body { 	 // c
	  i64 pack 
`it's`  ,  }
	packet
    stringy	{	int16	calculatedFrom , }
")).
Eval vm_compute in ("<<<M3677>>>" ++ check (runes_of_ascii "
MetaData stringy	{
	zchar[4294967296	]	charz ,
string// `tick` ""quote"" 'q'
	x_y_z,

    }
")).
Eval vm_compute in ("<<<M2946>>>" ++ check (runes_of_ascii "packet A {
  match k as n {
    [""a"", ""bb"", 007, ""d"", ""e"", 66, ""g"", ""h""] : B,
    2 : C
  },
}")).
Eval vm_compute in ("<<<M2953>>>" ++ check (runes_of_ascii "packet A {
  match k as n {
    [1, ""bb"", 007, ""d"", 5, ""f"", 7, ""h"", 9] : B,
    2 : C
  },
}")).
Eval vm_compute in ("<<<M2957>>>" ++ check (runes_of_ascii "packet A {
  match k as n {
    [1, 22, ""c c"", 4, 5, ""f"", 7, 8, ""i""] : B,
    2 : C
  },
}")).
Eval vm_compute in ("<<<M3279>>>" ++ check (runes_of_ascii "MetaData float { float64 charz `
` // c
, } root packet chars { @rightPad ( '0' ) Foo , }")).
Eval vm_compute in ("<<<M3490>>>" ++ check (runes_of_ascii "packet chars {
// c
} packet MetaDataX { @tag( 42 ) i16 string_ , repeat x `say ""hi""` , }")).
Eval vm_compute in ("<<<M4070>>>" ++ check (runes_of_ascii "packet A {
    match k as n {
        [1, ""bb"", 007, ""d"", 5] : B,
        2 : C,
    },
}")).
Eval vm_compute in ("<<<M2296>>>" ++ check (runes_of_ascii "options
{ } options { ""BodyLength= u16 Header= f64 ; u128 =
    true
    ; } // a // b")).
Eval vm_compute in ("<<<M2223>>>" ++ check (runes_of_ascii "options
{ } { options BodyLength= u16 Header= f64 ; u128 =
    true
    ; } // a // b")).
Eval vm_compute in ("<<<M3230>>>" ++ check (runes_of_ascii "packet metadata { Logon { A `" ++ [28040; 24687; 31867; 22411]%N ++ runes_of_ascii "` , tag
// c
o , } , zchar len `// not a comment` , }")).
Eval vm_compute in ("<<<M2271>>>" ++ check (runes_of_ascii "options
{ } options { BodyLength= u16 Header= f64 ; u128 
    true
    ; } // a // b")).
Eval vm_compute in ("<<<M3453>>>" ++ check (runes_of_ascii "packet o { repeat Logon uint8x , } options { asx = zchar[ // c
3 ] stringy = '\x00' }")).
Eval vm_compute in ("<<<M832>>>" ++ check (runes_of_ascii "options
{A =
char ; } MetaData// @lengthOf(
metadata { crc matchKey `u8 x,` ,
    }")).
Eval vm_compute in ("<<<M3396>>>" ++ check (runes_of_ascii "MetaData body // c
{ i64 pack `it's` , } packet stringy { int16 calculatedFrom , }")).
Eval vm_compute in ("<<<M507>>>" ++ check (runes_of_ascii "packet packetx
    {
// trailing space 
/// triple
@calculatedFrom( """" ) Z9_ , }
")).
Eval vm_compute in ("<<<M2163>>>" ++ check (runes_of_ascii "options{
_x
= true
} options
{ o	= /// triple
false
    ; chars
= ""\n"" } root")).
Eval vm_compute in ("<<<M1521>>>" ++ check (runes_of_ascii "packet
//	t
// trailing space 
_x {
// packet A { u8 x, }
// c
char[
3
    ]")).
Eval vm_compute in ("<<<M2692>>>" ++ check (runes_of_ascii "match , char uint64 MetaData @tag( @tag( uint16 [ packet int16 MetaData )")).
Eval vm_compute in ("<<<M1119>>>" ++ check (runes_of_ascii "MetaData
    // a // b
    options1 { Pad
options1	,// " ++ [27880; 37322]%N ++ runes_of_ascii "
}
// " ++ [128512]%N ++ runes_of_ascii " emoji
")).
Eval vm_compute in ("<<<M1914>>>" ++ check (runes_of_ascii "MetaData
    u { }  options {
// c
// @lengthOf(
float = int8 ;rootA")).
Eval vm_compute in ("<<<M4459>>>" ++ check (runes_of_ascii "

  options

{
body  =
	false 
;  }
	    // `tick` ""quote"" 'q'
")).
Eval vm_compute in ("<<<M2708>>>" ++ check (runes_of_ascii "[ '0' packet Logon char @lengthOf( ) ; ) MetaData ; int16 f64 (")).
Eval vm_compute in ("<<<M3023>>>" ++ check (runes_of_ascii "MetaData M {
    u8 x `a
    b
  c`,
    T t `a
    b
  c`,
}")).
Eval vm_compute in ("<<<M2138>>>" ++ check (runes_of_ascii "options{
_x
= true
} options
{ o	= /// triple
false
    ;")).
Eval vm_compute in ("<<<M3686>>>" ++ check (runes_of_ascii "packet x {
    @rightPad()
    repeat roots Logon `doc`,
}")).
Eval vm_compute in ("<<<M509>>>" ++ check (runes_of_ascii "root packet i64_ {tag
Pad, } root packet
    charz {
}")).
Eval vm_compute in ("<<<M1431>>>" ++ check (runes_of_ascii "
packet
    falsey { Header@calculatedFrom(""packet""")).
Eval vm_compute in ("<<<M66>>>" ++ check (runes_of_ascii "// c
MetaData calculatedFrom {Foo msg_type ,
}
")).
Eval vm_compute in ("<<<M810>>>" ++ check (runes_of_ascii "options
//	t
// @lengthOf(
{
roots
=""" ++ [28040; 24687]%N ++ runes_of_ascii """
; }")).
Eval vm_compute in ("<<<M2713>>>" ++ check (runes_of_ascii "i32 @leftPad '0' f64 as root ; } root int64")).
Eval vm_compute in ("<<<M3844>>>" ++ check (runes_of_ascii "options {
    repeatCount = 3/// triple
}")).
Eval vm_compute in ("<<<M4260>>>" ++ check (runes_of_ascii "
//
  options{
    Z9_=
	65535
    ;
}
")).
Eval vm_compute in ("<<<M2672>>>" ++ check (runes_of_ascii "options { a = 1; } options { a = 1; }")).
Eval vm_compute in ("<<<M799>>>" ++ check (runes_of_ascii "//
options {
    Z9_  =	65535; } 	 ")).
Eval vm_compute in ("<<<M2789>>>" ++ check (runes_of_ascii "= packet = ) repeat repeat options")).
Eval vm_compute in ("<<<M2566>>>" ++ check (runes_of_ascii "packet A { repeat repeat u8 x, }")).
Eval vm_compute in ("<<<M41>>>" ++ check (runes_of_ascii "MetaData crc
{ } // @lengthOf(")).
Eval vm_compute in ("<<<M3965>>>" ++ check (runes_of_ascii "MetaData u8x {
    a1 float,
}")).
Eval vm_compute in ("<<<M314>>>" ++ check (runes_of_ascii "MetaData roots	{ u Logon ,}")).
Eval vm_compute in ("<<<M2595>>>" ++ check (runes_of_ascii "packet A { x @leftPad(), }")).
Eval vm_compute in ("<<<M3261>>>" ++ check (runes_of_ascii "root packet pack {
// c
}")).
Eval vm_compute in ("<<<M2593>>>" ++ check (runes_of_ascii "packet A { x @tag(1), }")).
Eval vm_compute in ("<<<M2772>>>" ++ check (runes_of_ascii "5rg/0~r2x>%:GDBld$X~A")).
Eval vm_compute in ("<<<M268>>>" ++ check (runes_of_ascii "  packet
chars	{ }
")).
Eval vm_compute in ("<<<M3477>>>" ++ check (runes_of_ascii "MetaData o {
// c
}")).
Eval vm_compute in ("<<<M3106>>>" ++ check (runes_of_ascii "// c" ++ [8239]%N ++ runes_of_ascii "
packet A {
}")).
Eval vm_compute in ("<<<M2685>>>" ++ check (runes_of_ascii "// only a comment")).
Eval vm_compute in ("<<<M2661>>>" ++ check (runes_of_ascii "options { = 1; }")).
Eval vm_compute in ("<<<M423>>>" ++ check (runes_of_ascii "
 /// triple")).
Eval vm_compute in ("<<<M2488>>>" ++ check (runes_of_ascii "@lengthOf (")).
Eval vm_compute in ("<<<M2480>>>" ++ check (runes_of_ascii "@leftPad")).
Eval vm_compute in ("<<<M2442>>>" ++ check (runes_of_ascii "uint88")).
Eval vm_compute in ("<<<M2485>>>" ++ check (runes_of_ascii "@left")).
Eval vm_compute in ("<<<M2445>>>" ++ check (runes_of_ascii "i8i8")).
Eval vm_compute in ("<<<M2475>>>" ++ check (runes_of_ascii "'1'")).
Eval vm_compute in ("<<<M2440>>>" ++ check (runes_of_ascii "u8")).
Eval vm_compute in ("<<<M2676>>>" ++ check (runes_of_ascii "x")).
