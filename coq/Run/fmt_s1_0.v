From FP Require Import Lexer Parser ShowPT Digest Formatter.
From Coq Require Import String List NArith.
Import ListNotations.
Open Scope string_scope.
Set Printing Width 100000000.
Set Printing Depth 100000000.
Definition show_fres (r : fres) : string :=
  match r with
  | FOk s => "OK:" ++ sh_escaped s ""
  | FErr s => "ERR:" ++ sh_escaped s ""
  | FPanic p => "PANIC:" ++ p
  end.
Definition check (rs : list rune) : string := digest (show_fres (format_res rs)).
Definition full (rs : list rune) : string := show_fres (format_res rs).
Eval vm_compute in ("<<<M3670>>>" ++ check (runes_of_ascii "// top
  options 	 // c0

{ 	 // c1
    StringPrefixLenType 	 // c2a
	// c2b
	=  u8  // c4
      ; // c5a
	// c5b
	ArrayPrefixLenType=  // c7a
// c7b
    u64 // c8a

// c8b

; 
    // c9
	FixedStringPadFromLeft 
	// c10
	=	// c11a
	  // c11b

  true  // c12
; 	 // c13a
    	// c13b

JavaPackage	// c14a
	// c14b
=""com.example.msg""
// c16
      ;GoPackage 

    // c18
= 
      // c19
	""msg"" 
;  // c21a
  // c21b
    GoModule
    // c22
		=
// c23
    ""example.com/msg"" 	 // c24a
  // c24b
  ;
    } 
// c26
  MetaData Meta
    { 	 // c29
u32  SeqNum`sequence number`
    // c32

  , char[
// c34
	8 	 // c35
	  ]	Symbol // c37
	  `symbol` 	 // c38a
    // c38b
  	, 	 // c39
    zchar[ // c40
    5 ] ZSym  // c43a
  // c43b
`z symbol` // c44a

  // c44b
	, // c45
  string // c46a

  // c46b
    Note
	,	// c48a
	// c48b
	Symbol	// c49a
    // c49b
AltSymbol 

// c50
    `alias of symbol` ,

f64 // c53
Price// c54a
      // c54b
  , 
}	// c56
  packet  // c57
Inner  
      // c58
{ 
u8 
      // c60
  a
	,
        // c62
	i16
b
,

    string
c
,// c68
  }

    // c69

  packet	Inner2
	{ u8
	    // c73
a2 
,  // c75

	char[

// c76

3	// c77a
	// c77b
  ] 
        // c78
c2 

// c79

  , // c80a
	// c80b
		}	// c81a
    // c81b

packet
Logon	// c83
  {  
  // c84

	u8	// c85a
		// c85b
x 
	    // c86
	,  string 	 // c88
    	user  
      // c89
  ,	// c90a
// c90b
repeat 
	    // c91
		u16 
// c92
  	codes  // c93

,	// c94a
	// c94b
}  
  // c95
packet // c96a

	// c96b
	Logout  // c97a

	// c97b

	{ // c98

u16 
	    // c99

	reason 
	    // c100
    , // c101a
	  // c101b
		} // c102a
    // c102b
	packet
    // c103

Empty 	 // c104
	  {  // c105a
// c105b
    	}// c106
	  root packet	// c108a
    	// c108b
	Msg
	// c109
{ u8 	 // c111a
    // c111b
	  su8// c112a

  // c112b

	,
	uint8
    // c114
    luint8 	 // c115a
	// c115b
    	,u16
	su16  // c118
		,
uint16 
    // c120

  luint16,  u32	// c123

su32 

    // c124
, 	 // c125
uint32
// c126
	luint32 
        // c127
		, 

    // c128
  u64

su64
	,
uint64 // c132a
    // c132b
    luint64
    , // c134

	i8
    // c135
    si8 // c136
		, // c137a
	  // c137b

int8  // c138
lint8 	 // c139a
    // c139b
  , 
    // c140
  i16 	 // c141
    si16 // c142
	  , 
    // c143
    int16
    lint16// c145a
// c145b
	, 
    // c146
	i32// c147a
	// c147b
si32  // c148a
// c148b
	,
    // c149

  int32// c150a
    // c150b
lint32
// c151
,// c152
    i64
    si64
        // c154
    , 

    // c155
	int64 	 // c156

lint64 
    // c157
	,  // c158
    f32 	 // c159a
  // c159b
  	sf32	// c160

,	float32// c162

lfloat32  // c163a
    // c163b
  , 
  // c164
  	f64	// c165
  sf64 

// c166
	,// c167a

  // c167b
    	float64// c168
		lfloat64,	// c170a
	// c170b
  char[ 6  ]fsplain
// c174
  ,  
  // c175
@leftPad	// c176
  	( // c177
  '0' 
	    // c178
)// c179a
    // c179b
	char[  // c180a
    // c180b
		4
    // c181
	]  // c182
		fs0  // c183a
  	// c183b
, // c184a

	// c184b

	@rightPad 

    // c185
    ( 	 // c186a
    // c186b
'0' // c187a
      // c187b
	)  // c188a

// c188b
		char[
	    // c189
5
// c190

	]fs1 

// c192

  , // c193a
    // c193b
	  @leftPad// c194a
// c194b
  (// c195a
	// c195b
    ' ' ) // c197

char[ 
// c198
    6 
        // c199
  ]	// c200a
	// c200b

fs2  // c201a
	// c201b
  ,

    @rightPad	// c203a
// c203b
(
        // c204
' ' 
	    // c205
	) 
      // c206
    char[ 
	    // c207
    7] 
  // c209

fs3// c210
	,

    // c211

	@leftPad // c212a
    // c212b
(  
  // c213
  '\x00' 
    // c214
)	// c215

char[  // c216

8 ] 	 // c218a
	// c218b
      fs4,  @rightPad(	'\x00'	// c223
  ) 	 // c224a
	// c224b

char[  
  // c225
	9
] 	 // c227a
    	// c227b
  fs5	// c228a
// c228b
  ,
	@leftPad// c230

(// c231a
	// c231b
      )	char[	// c233a
// c233b

  10

// c234
] 	 // c235
	fs6
// c236
    ,	// c237
    @rightPad 	 // c238
(  // c239
  ) // c240a
// c240b
  char[// c241
		11 
	// c242
	  ] 	 // c243
	fs7 

// c244
		, 
  // c245
  zchar[// c246
	7  
  // c247
  ] // c248a
    // c248b
	fz
	, 	 // c250
@leftPad // c251
    (  // c252a

// c252b
'0' )// c254a
  	// c254b
	zchar[ 
3 ]
	    // c257
  fzl0 // c258
,
    string

s1

`doc`
// c262
    , 	 // c263
  char[]
    // c264
s2  // c265
    ,// c266a
    // c266b
      Inner
    // c267
    	,  // c268a
    // c268b
      Sub 	 // c269

{ // c270a
	  // c270b
  	u8

// c271
q  // c272
,
    // c273
string 

// c274
		w 	 // c275
  , // c276a
  // c276b
    Deep	{	// c278a

// c278b
u16// c279a
    // c279b
z	// c280
  	,repeat 	 // c282a
  // c282b
	i32	// c283
  	zs  ,// c285a
  // c285b

	}
,	// c287
      } ,	// c289
    	repeat 
        // c290
u8
    // c291
	ru8 
  // c292
    , 	 // c293
  repeat  
  // c294
u16// c295a
  // c295b
    	ru16 	 // c296a
// c296b

  , 	 // c297
  repeat // c298a

  // c298b
  u32// c299
	ru32// c300
  	,

// c301

  repeat// c302a
// c302b
    u64 	 // c303a
	  // c303b
	ru64

// c304
    , 	 // c305
	repeat// c306
    i8 
    // c307
    ri8	,repeat  // c310a
		// c310b
		i16 
    // c311
	ri16// c312
,
    repeat i32  // c315a
    // c315b
ri32  
  // c316
	, // c317a
	// c317b
		repeat

    i64  // c319
  ri64// c320a

// c320b
    ,	// c321
  repeat

f32// c323a
	// c323b
    	rf32 	 // c324a
	// c324b

	,
    // c325
repeat
// c326

f64
// c327
rf64 
  // c328
  , repeat 	 // c330
		string	rstr  , 	 // c333
  repeat char[] // c335

rstr2 	 // c336
	, 	 // c337a
  // c337b
      repeat 

// c338
	char[ 
3 // c340a
    	// c340b

]// c341
      rfs  // c342a
  	// c342b
      ,  
      // c343
repeat
    zchar[ 3 
    // c346

]
    // c347
rfz// c348a
  // c348b
,

repeat 	 // c350
  Inner2	// c351a
  // c351b
	,  
  // c352

repeat
Grp	{ 	 // c355a
      // c355b
	  u8  // c356a
	// c356b

  k

// c357
    	,
	    // c358

  char[

    2 // c360
	] 
    // c361
  	v  // c362
	, 
}
    , 

    // c365

SeqNum // c366
,	// c367
  SeqNum 
    // c368
	seq2 
// c369
	  , // c370a
		// c370b
repeat// c371
	SeqNum 
seqs 
        // c373

	,
	    // c374
      Symbol  // c375
    	,// c376
  AltSymbol	// c377a
	// c377b
      alt	,	// c379a
  	// c379b
ZSym	// c380a
  // c380b
, 	 // c381a
		// c381b
Note

    ,  // c383
	repeat Symbol

// c385
syms // c386a
  // c386b
	,	// c387
      Price px
,  // c390
  u16
MsgType// c392
,u32 
// c394
	BodyLen@lengthOf(
	    // c396
Body  // c397a
	// c397b

) 
	// c398
    	, // c399
match
    // c400
    	MsgType 
    // c401
as	// c402

Body  
  // c403

	{ 
    // c404
  1 // c405a
	// c405b
      :

Logon 
	// c407
	,  [ // c409a
  // c409b

2
	,
    3	// c412a
	// c412b
	] 	 // c413a
  	// c413b
	: 	 // c414

Logout	// c415
  ,  // c416a
    // c416b
      7 :

    Logon 	 // c419
, 
        // c420
9 
        // c421
	: 

// c422
	  Empty	// c423a
  // c423b
  ,	// c424a
// c424b
  	} // c425a
    // c425b
    , 

// c426
u32// c427a
// c427b
  	Checksum
@calculatedFrom( 
    // c429
    ""CRC32""
// c430
	),
}
")).
Eval vm_compute in ("<<<M269>>>" ++ check (runes_of_ascii "// trailing space 
root packet
    matchKey {u128 // c
, uint8 x
@calculatedFrom( """ ++ [233]%N ++ runes_of_ascii "t" ++ [233]%N ++ runes_of_ascii """ // " ++ [27880; 37322]%N ++ runes_of_ascii "
)
,
i64
    f32a @calculatedFrom(
    """ ++ [28040; 24687]%N ++ runes_of_ascii """
)
`crlf
line`  ,}
    MetaData
    zchar // packet A { u8 x, }
{ // a // b
char[4294967296 ]
// " ++ [27880; 37322]%N ++ runes_of_ascii "
/// triple
string_ , x
i8i8
    , char[ 7 ]// " ++ [27880; 37322]%N ++ runes_of_ascii "
Z9_
    `tab	here`, }
    // trailing space 
    root packet
o{@leftPad
    ('\x00'
)
//x
// 50% %s
@tag( 10 ) @tag(
    10) string // " ++ [128512]%N ++ runes_of_ascii " emoji
u`doc` ,
    @leftPad( )char[65535
// trailing space 
// packet A { u8 x, }
]
    //	t
    body ,
/// triple
// 50% %s
repeat pack  {rootA ``,//	t
repeat body // packet A { u8 x, }
, string Packet// trailing space 
, }
    , @lengthOf( stringy )
    // trailing space 
    repeat _x { BodyLength// trailing space 
{
    repeatCount
// c
/// triple
{zchar[65535 ] As
,
// @lengthOf(
// c
options1  ,
float32
    len, zchar[7
// packet A { u8 x, }
// c
]
rootA
`u8 x,` // `tick` ""quote"" 'q'
,
}, i64  falsey @lengthOf(uint8x ) ,
char[
    00 ]
crc
,
}  , } , tag
@calculatedFrom(
""// no comment""
)	`100% of %d`, }
packet
Pad { f32
    Logon`
`, body
    @lengthOf(
u8x)
    `" ++ [28040; 24687; 31867; 22411]%N ++ runes_of_ascii "` , @lengthOf( Z9_// " ++ [128512]%N ++ runes_of_ascii " emoji
) packetx @calculatedFrom( """ ++ [28040; 24687]%N ++ runes_of_ascii """
)  ,x
{ zchar[
    3 ]
    body
,Header
@calculatedFrom(""a	b""), char[]	u128 `it's` // @lengthOf(
, i8 metadata ,}
    , match i64_ as string_ { [ 3 ,
255 // c
,
    007
    , ""packet""
    ,65535
// @lengthOf(
// 50% %s
,""// no comment"",
""a	b"" ,// packet A { u8 x, }
007] // trailing space 
:options1 4294967296
    // " ++ [27880; 37322]%N ++ runes_of_ascii "
    : len,
""CRC32""	:pack
""" ++ [28040; 24687]%N ++ runes_of_ascii """
    : options1
    , [0 // `tick` ""quote"" 'q'
]
    // `tick` ""quote"" 'q'
    : Header ,[ 00 ]
    : As // trailing space 
, }
,@lengthOf(
    // c
    tag ) metadata @calculatedFrom(
""CRC32"" )
    ,//	t
@tag( // packet A { u8 x, }
3)repeat //x
string pack , Pad ,@rightPad ( )  tag { leftPad @calculatedFrom(  """ ++ [233]%N ++ runes_of_ascii "t" ++ [233]%N ++ runes_of_ascii """	),
string chars ,
    char[
4294967296 ]
i64_
`" ++ [233]%N ++ runes_of_ascii "` , repeat charz
zchar,  }
    ,} options { pack
=""abc"" ;pack = i8// packet A { u8 x, }
; }")).
Eval vm_compute in ("<<<M147>>>" ++ check (runes_of_ascii "//	t
packet asx
{ repeat i32 u8x ,
    @calculatedFrom( ""it's""
)
    match uint8x as matchKey { 1  :
// packet A { u8 x, }
// " ++ [128512]%N ++ runes_of_ascii " emoji
chars ,
    // `tick` ""quote"" 'q'
    [255 ]
:
    matchKey
, ""a	b"":	pack ,
    """" :	trueish
}, @leftPad ( '\x00')
char[]	A@calculatedFrom(""a\\""
    ),
    // trailing space 
    match //	t
MetaDataX as uint8x {
    [ ""a	b""
] : As  } , uint8x
{ matchKey {int x_y_z
    // packet A { u8 x, }
    ,}
    , //
}// @lengthOf(
, u8 Logon @lengthOf(  matchKey
    ) , float64 msg_type
@lengthOf( zchar ) ,float x_y_z , @rightPad (  '\x00')match	matchKey	as	lengthOf { [ """ ++ [233]%N ++ runes_of_ascii "t" ++ [233]%N ++ runes_of_ascii """
// packet A { u8 x, }
// 50% %s
,	""{,}""	,3	,// @lengthOf(
""\n""
    , 0
, ""1"" ,""x y"" ] : u
, 10 : // 50% %s
f32a  , 1: chars // @lengthOf(
,42
: Foo 65535: Header
    ,["""" ] : //x
body , } ,
    //x
    match
metadata as trueish { """"
:metadata ,""`tick`""
    : float,	255 : x ,
    } ,
} packet trueish { @lengthOf( stringy ) zchar[ 7 ] x `crlf
line` ,
repeat MetaDataX { i16 Z9_ `two words` , },  @lengthOf( zchar//
) match metadata as	a1 {
    [ // " ++ [128512]%N ++ runes_of_ascii " emoji
""CRC32"" ] : i8i8 ,""a	b""
    :x_y_z ,[ ""1""
,""abc"" ,007 , // `tick` ""quote"" 'q'
4294967296 , 00	,
""// no comment"" ,
    // `tick` ""quote"" 'q'
    ""a\""b""  ]	:
chars , [ ""`tick`"" , ""\" ++ [233]%N ++ runes_of_ascii """ ,	""x y""
,
""a	b"" , ""a\""b""
, ""`tick`""
    //x
    ,
00	] : leftPad, 65535 : Z9_
    // " ++ [128512]%N ++ runes_of_ascii " emoji
    , } , @lengthOf(
falsey )
repeat
    i8i8 ,@calculatedFrom( ""\n"" )// a // b
char[ 42	] // `tick` ""quote"" 'q'
charz  @calculatedFrom( """ ++ [128512]%N ++ runes_of_ascii """)
    , repeat char[] stringy `tab	here`, Packet  @lengthOf( BodyLength )  `" ++ [28040; 24687; 31867; 22411]%N ++ runes_of_ascii "` ,
string u128, i8 o
// c
// 50% %s
`
` , // 50% %s
@leftPad (
'0'
    ) repeat
string Header, } options{ crc =char[007
] packetx=7 ;	} 	 ")).
Eval vm_compute in ("<<<M671>>>" ++ check (runes_of_ascii "MetaData float { u32 x,T body
    /// triple
    ,
    string msg_type , } root packet
options1	{ @lengthOf( chars) @calculatedFrom( ""\" ++ [233]%N ++ runes_of_ascii """ )
    @leftPad
('\x00')  zchar[ 0 ]a1 @calculatedFrom(""a\\""
    ) , @lengthOf( i8i8) int64// c
crc//	t
, @rightPad ('0'// 50% %s
)
    repeat
    char[ 4294967296]As , @rightPad (
'0' ) repeat pack
{ match u8x as stringy {""a\""b""
:
// trailing space 
// " ++ [27880; 37322]%N ++ runes_of_ascii "
lengthOf ,
    """ ++ [233]%N ++ runes_of_ascii "t" ++ [233]%N ++ runes_of_ascii """	: a1 , """ ++ [128512]%N ++ runes_of_ascii """	: Pad ,
    ""\" ++ [233]%N ++ runes_of_ascii """
    : metadata,
    [//	t
255 , 3 ] // trailing space 
:crc
// @lengthOf(
// `tick` ""quote"" 'q'
,
} , }  ,
    // " ++ [128512]%N ++ runes_of_ascii " emoji
    repeat falsey//x
, @calculatedFrom( ""// no comment""
) repeat float64 Logon , repeat //
zchar[ 4294967296	] Foo
//x
// @lengthOf(
,}MetaData stringy
    { char[ 65535 ] stringy `two words`
//
// " ++ [128512]%N ++ runes_of_ascii " emoji
, i64_ calculatedFrom `say ""hi""` ,stringy float , // 50% %s
i8
o  ,
i8 //	t
T	, }
MetaData roots { uint8x // " ++ [27880; 37322]%N ++ runes_of_ascii "
leftPad	`{ , }` , // " ++ [27880; 37322]%N ++ runes_of_ascii "
string
    options1
    ,char[]tag ,
    }
packet uint8x
{ @lengthOf(crc )
// " ++ [128512]%N ++ runes_of_ascii " emoji
/// triple
@tag( 255)//x
f32
metadata `// not a comment`// " ++ [27880; 37322]%N ++ runes_of_ascii "
,//	t
@rightPad
    // " ++ [128512]%N ++ runes_of_ascii " emoji
    ( ' ' )
repeat
f32a //	t
,	stringy // " ++ [128512]%N ++ runes_of_ascii " emoji
{ f32a calculatedFrom `crlf
line`,
crc @lengthOf( i64_ ) `crlf
line` ,	charz
// trailing space 
// packet A { u8 x, }
`doc` ,
    repeat  int16
    packetx	, } ,
    matchKey o ,
@calculatedFrom(""it's"" ) MetaDataX @lengthOf(tag) `100% of %d` ,}")).
Eval vm_compute in ("<<<M1254>>>" ++ check (runes_of_ascii "packet
Pad
{ int64 body //	t
`" ++ [28040; 24687; 31867; 22411]%N ++ runes_of_ascii "`
    , @rightPad ( // a // b
' '	)repeat
f32 calculatedFrom `` , match msg_type as
int// packet A { u8 x, }
{ ""1"" : As
,""a	b""
: A , ""x y""
:repeatCount
    ,""" ++ [128512]%N ++ runes_of_ascii """ :u8x [  7, 65535]:lengthOf , } , @tag(
    3 )
@lengthOf(	asx )
@rightPad(
    '\x00' //	t
) string_ body`line1
line2` , char[ 7 ] Foo @calculatedFrom( ""// no comment"")	,@lengthOf( Pad//	t
) trueish
pack `a\`,  @calculatedFrom( ""{,}"" )@tag( 3
    )
char[ 0123456789// `tick` ""quote"" 'q'
]roots
    @lengthOf( //	t
packetx )`tab	here`
// " ++ [27880; 37322]%N ++ runes_of_ascii "
//	t
,@calculatedFrom( ""a	b""
)
match
// " ++ [27880; 37322]%N ++ runes_of_ascii "
// @lengthOf(
f32a as asx { 42 :
    lengthOf ,[	0123456789 ,1] : asx
,
    [ //	t
42
    , 0123456789
// c
//x
, 00 ,
    ""1"" ,  3  ,65535 , // trailing space 
""it's"" , 3 ]:// packet A { u8 x, }
msg_type	,
    ""packet"" : repeatCount , """"
    :  chars },
zchar[0] u
, }// c
MetaData
    // " ++ [128512]%N ++ runes_of_ascii " emoji
    charz {
zchar[007]Logon	`{ , }`
,u8x
    a1  `
` ,
    f32a
i8i8
,
i32
int
,
packetx repeatCount `
`,
    //x
    } MetaData metadata{
matchKey
Header
    // a // b
    , string	o`a\`	, zchar[ 1 ]chars , i64 f32a  `100% of %d`,
uint64  crc `tab	here` , zchar[ //	t
10] matchKey ,  } root packet _x { @leftPad // trailing space 
( ) char[
00
] BodyLength
`" ++ [233]%N ++ runes_of_ascii "` ,}

")).
Eval vm_compute in ("<<<M998>>>" ++ check (runes_of_ascii "MetaData len
    {  tag
    o,
}options
    {	As =
true ;
lengthOf
=
    3 // `tick` ""quote"" 'q'
x =int8 } root
packet metadata { @calculatedFrom(""" ++ [128512]%N ++ runes_of_ascii """ )
i64_ Header`it's`, }packet zchar { }// a // b
packet
packetx
{
    char[3 ] packetx , @lengthOf( matchKey ) @calculatedFrom( // a // b
""1"" ) @calculatedFrom(""x y"") uint32 msg_type @calculatedFrom( """") `crlf
line` , @calculatedFrom(""" ++ [28040; 24687]%N ++ runes_of_ascii """
    ) @lengthOf(rootA) @leftPad
()
matchKey@lengthOf(	f32a) `100% of %d` //	t
, char[
    1 ]	repeatCount@calculatedFrom(
""" ++ [128512]%N ++ runes_of_ascii """ // 50% %s
)  , @lengthOf( i64_
    ) char[]
// trailing space 
// " ++ [128512]%N ++ runes_of_ascii " emoji
f32a @lengthOf(
Pad ) ,
@leftPad ( ) repeat tag { stringy
    @calculatedFrom(	""\n"")
, match
chars  as // " ++ [128512]%N ++ runes_of_ascii " emoji
x_y_z{ 42 : repeatCount """ ++ [28040; 24687]%N ++ runes_of_ascii """ : pack ,},	char[
    // 50% %s
    3 ] x_y_z@lengthOf(
    body
    )`crlf
line` ,o{	repeat
zchar[00 ] matchKey ,
// packet A { u8 x, }
// " ++ [128512]%N ++ runes_of_ascii " emoji
repeat // packet A { u8 x, }
char[
// 50% %s
// a // b
1]
//	t
// @lengthOf(
repeatCount`" ++ [28040; 24687; 31867; 22411]%N ++ runes_of_ascii "` , },
// 50% %s
// " ++ [128512]%N ++ runes_of_ascii " emoji
}  ,
    @calculatedFrom(	""{,}""
) packetx
    lengthOf`it's`
    , repeat string_ { lengthOf roots `u8 x,`	,repeat f64 // c
charz `// not a comment` , }  , }
")).
Eval vm_compute in ("<<<M1118>>>" ++ check (runes_of_ascii "root packet u8x { match packetx// " ++ [27880; 37322]%N ++ runes_of_ascii "
as
Z9_ {
    [ ""it's""
    // " ++ [27880; 37322]%N ++ runes_of_ascii "
    ,  ""{,}""	]
:_x // 50% %s
} , @calculatedFrom( ""\" ++ [233]%N ++ runes_of_ascii """
)
/// triple
// " ++ [27880; 37322]%N ++ runes_of_ascii "
char[ 10 ]
leftPad `doc`, uint16 metadata`{ , }`
    ,
a1@calculatedFrom(""" ++ [233]%N ++ runes_of_ascii "t" ++ [233]%N ++ runes_of_ascii """ )
    ,
@leftPad (
    ' ' ) repeat // trailing space 
pack	{
    char[]
chars
    //x
    `" ++ [233]%N ++ runes_of_ascii "`	, }
    ,} packet
    msg_type {
repeat char[ 10 ]
// trailing space 
//
Z9_`a\` , @lengthOf( As ) match
    i64_ as msg_type { 4294967296 :Header
    /// triple
    ,65535: options1 ,
//
//x
""1"": f32a
    , 0123456789
: x_y_z , 65535:
    Foo , }
,/// triple
repeat tag `" ++ [28040; 24687; 31867; 22411]%N ++ runes_of_ascii "` ,
    // @lengthOf(
    float32
body@lengthOf(
BodyLength
)
`it's`,f64
uint8x,
@lengthOf(
    asx )@rightPad('0' )	@calculatedFrom(""// no comment""  )i8
    options1  @lengthOf(
    charz
) , // trailing space 
zchar[	10 ] a1// c
@calculatedFrom(""a\""b"" ) , repeat
i8i8
{  msg_type {
    char[255 //x
] T , repeat
    i8 len
`" ++ [233]%N ++ runes_of_ascii "` ,
i64
matchKey@lengthOf(
// @lengthOf(
// " ++ [27880; 37322]%N ++ runes_of_ascii "
tag // 50% %s
) ,repeat char[ 10 ]// " ++ [128512]%N ++ runes_of_ascii " emoji
len`tab	here`	, } , }// `tick` ""quote"" 'q'
,} //
root packet Header
{ }
")).
Eval vm_compute in ("<<<M3641>>>" ++ check (runes_of_ascii "
root
packet rootA  // `tick` ""quote"" 'q'
      {  u8	//x

a1

    ,repeat	x_y_z	{ zchar[ 
65535 
]
    o//
	`it's`

,
	} , @tag(
    42 )

@calculatedFrom( ""{,}""// trailing space 
  	) @tag(42
) string// a // b

  lengthOf `u8 x,`

,
zchar[42 ] 
i64_
,
repeat  metadata {msg_type	@lengthOf( x )
	,
    }

, @tag(
	3) matchKey
	{ int32  matchKey
,  repeat	uint8x  falsey
	, roots
{u8x@calculatedFrom(""a\""b"" )
    ,
    // `tick` ""quote"" 'q'
	zchar[  42
]

i8i8
    `doc`
    ,

repeat
float64 
f32a
`say ""hi""`
, 
    // a // b

	repeat
zchar // 50% %s
  , 
}
    //	t
  , }
,
    u128
	{	char[] 
      // packet A { u8 x, }

A @calculatedFrom( """ ++ [233]%N ++ runes_of_ascii "t" ++ [233]%N ++ runes_of_ascii """	)
	// 50% %s

`
`
, repeat
	lengthOf	stringy 
,} 
,
@calculatedFrom(

    """ ++ [28040; 24687]%N ++ runes_of_ascii """ // " ++ [27880; 37322]%N ++ runes_of_ascii "

  )	float64 
MetaDataX ,
	}
	options 
{ 
Pad =//	t
	""" ++ [28040; 24687]%N ++ runes_of_ascii """
	;
a1

    = int32
o 
	// `tick` ""quote"" 'q'
	=255
    ;string_
=

    f64	falsey
        // 50% %s
=007	}  //	t
    packet BodyLength  { @tag(
7
    )

    repeat
    float  ,
    }
MetaData  MetaDataX	{

    } ")).
Eval vm_compute in ("<<<M167>>>" ++ check (runes_of_ascii "packet Foo {  @calculatedFrom( """"	)
@calculatedFrom( ""1"" ) @rightPad(
) int32
    As
@calculatedFrom( """" )
    `a\`
//x
//	t
,
@calculatedFrom( ""\n"" )
char[65535// @lengthOf(
] asx ,repeat // a // b
int8
    // packet A { u8 x, }
    trueish `` , } packet
A { @tag(4294967296 ) uint16 Logon @calculatedFrom(
    // `tick` ""quote"" 'q'
    """ ++ [233]%N ++ runes_of_ascii "t" ++ [233]%N ++ runes_of_ascii """ ), // `tick` ""quote"" 'q'
@lengthOf( As )
repeat MetaDataX
    falsey
`u8 x,` ,@calculatedFrom(""\n""
    )	match repeatCount
as
A {	4294967296 :
zchar
    } , match
crc
    // `tick` ""quote"" 'q'
    as float { 255
    :u , } ,} root
/// triple
//	t
packet matchKey { string MetaDataX `a\`
, BodyLength
{ match repeatCount as
len {//x
""" ++ [28040; 24687]%N ++ runes_of_ascii """ : asx 3  :
MetaDataX , """ ++ [28040; 24687]%N ++ runes_of_ascii """:// 50% %s
len
    ,  ""x y"":msg_type
,  [
    4294967296 ]
: asx ,
    ""it's""	: repeatCount ,}, zchar[ 0123456789
] Z9_ @calculatedFrom( ""a\\""  ) ,	repeat  zchar[10 ] lengthOf `
`,
uint16 tag `u8 x,` , } // " ++ [27880; 37322]%N ++ runes_of_ascii "
,@leftPad
    ( ) u128 trueish,
    // c
    }")).
Eval vm_compute in ("<<<M398>>>" ++ check (runes_of_ascii "root packet rootA // `tick` ""quote"" 'q'
{ u8 //x
a1 , repeat x_y_z { zchar[ 65535
]	o //
`it's`,} ,
@tag( 42	) @calculatedFrom( ""{,}"" // trailing space 
) @tag(42 ) string // a // b
lengthOf `u8 x,`
, zchar[ 42 ]
i64_,
    repeat metadata{msg_type
@lengthOf(x)
, },@tag( 3 )matchKey {
int32 matchKey
    , repeat
    uint8x falsey	, roots {u8x @calculatedFrom( ""a\""b"" )  ,
    // `tick` ""quote"" 'q'
    zchar[ 42 ] i8i8 `doc`, repeat	float64 f32a`say ""hi""`	,
    // a // b
    repeat	zchar // 50% %s
, }
    //	t
    ,
} , u128  {
    char[]
    // packet A { u8 x, }
    A @calculatedFrom(
""" ++ [233]%N ++ runes_of_ascii "t" ++ [233]%N ++ runes_of_ascii """)
    // 50% %s
    `
`, repeat lengthOf stringy , } , @calculatedFrom(
""" ++ [28040; 24687]%N ++ runes_of_ascii """// " ++ [27880; 37322]%N ++ runes_of_ascii "
)
    float64  MetaDataX
    , } options {
    Pad = //	t
""" ++ [28040; 24687]%N ++ runes_of_ascii """ ;
a1
=
    int32
o
    // `tick` ""quote"" 'q'
    =
255 ;string_ = f64 falsey
    // 50% %s
    = 007} //	t
packet BodyLength  {@tag( 7 ) repeat float ,} MetaData MetaDataX
{
}
")).
Eval vm_compute in ("<<<M184>>>" ++ check (runes_of_ascii "
MetaData
    //x
    float {u8 uint8x ,
// @lengthOf(
// packet A { u8 x, }
} options {}	root packet T /// triple
{ u , }
    packet
x_y_z // c
{@lengthOf( T
) asx lengthOf `
`, repeat
    f64
// c
// a // b
metadata
    ,char[
    4294967296
    ] u8x ,	repeat
    uint8 zchar, // a // b
@tag(
    0123456789)  repeat i64
_x,u16
u
    // `tick` ""quote"" 'q'
    ,match roots as
Header { 007 : zchar
    // packet A { u8 x, }
    ""it's""
: rootA , [""it's""
    ,""\n"", ""x y"" , 00 ,
    42  ,
""it's""
    ]
    : len , 0 :Z9_	, //x
},match Logon as falsey {4294967296 : T
    ""CRC32"" : u8x , [
""" ++ [28040; 24687]%N ++ runes_of_ascii """
    , ""1"" , ""it's"" , ""a\\"" , 3
    ,
4294967296 , """ ++ [128512]%N ++ runes_of_ascii """
// " ++ [27880; 37322]%N ++ runes_of_ascii "
// @lengthOf(
, ""CRC32"" ]
: _x ,
[
""// no comment"" ,// trailing space 
0123456789 ,
    10 , 65535 , """ ++ [128512]%N ++ runes_of_ascii """] : T , 42:
    lengthOf ,0 :x_y_z
    , } ,
    match crc as u8x {[
42]:repeatCount 0 : calculatedFrom , } , }

")).
Eval vm_compute in ("<<<M233>>>" ++ check (runes_of_ascii "
packet msg_type
{ match
    x_y_z as i8i8  { 0:As
// `tick` ""quote"" 'q'
//
,""packet"":
    // " ++ [27880; 37322]%N ++ runes_of_ascii "
    T
    , [
65535 , ""1"" ,00 , """ ++ [128512]%N ++ runes_of_ascii """
,  4294967296,
// " ++ [27880; 37322]%N ++ runes_of_ascii "
//	t
4294967296 ] : Logon// `tick` ""quote"" 'q'
,
[  ""\n"" ,// @lengthOf(
""packet"" ,
""// no comment""  ,1 , 1 ,
    ""`tick`""]  : rootA ,0123456789:falsey , } , As o , char[0 ]  float `// not a comment` , @calculatedFrom(""abc"")	@tag( 4294967296 ) repeat float32 BodyLength`crlf
line`
, msg_type @calculatedFrom(
""" ++ [128512]%N ++ runes_of_ascii """ )
// " ++ [27880; 37322]%N ++ runes_of_ascii "
// @lengthOf(
`a\` // `tick` ""quote"" 'q'
,
repeat int64 body , int16 a1 // trailing space 
@calculatedFrom( ""it's""
    // @lengthOf(
    ) , i16 //x
float `u8 x,`
    ,
    @leftPad // " ++ [27880; 37322]%N ++ runes_of_ascii "
(	'\x00' // " ++ [27880; 37322]%N ++ runes_of_ascii "
)// c
uint32 roots ,
    } packet Header { @calculatedFrom( ""`tick`"" ) char[
    00 ] packetx , @lengthOf( matchKey ) repeatCount
x_y_z
`{ , }` ,
}")).
Eval vm_compute in ("<<<M3864>>>" ++ check (runes_of_ascii "  MetaData  int
{

    int	zchar
,
}
packet  string_{	} packet len  {

    float @lengthOf( Z9_ 
)
,
    }root	packet int

    {uint64 
i64_ ,  @lengthOf(
Logon  )string
    float, 
Header
	o,

    @tag(

    7)

    match Pad
as
	u128
    // " ++ [27880; 37322]%N ++ runes_of_ascii "

{ 0 : BodyLength,
} ,
	int64
float 
@lengthOf(
i64_ ),
repeat
    //x
  // 50% %s
    string 	 // " ++ [128512]%N ++ runes_of_ascii " emoji

packetx	, 
@leftPad

(  ' ') @lengthOf(
stringy )
    @calculatedFrom(""CRC32""
)  repeat

metadata pack
	,
	// c

	@lengthOf(

Foo

) a1
        //	t
  	, }

    packet 
pack
	{
@tag( 	 // " ++ [128512]%N ++ runes_of_ascii " emoji
7 ) zchar[
255  ]
	body
	@calculatedFrom( 
""// no comment""
	) , repeat
zchar[

255 ]	metadata ,
char[ 42 
] i8i8

@calculatedFrom(
""packet"" 
)`two words`,

Foo @calculatedFrom(

    """ ++ [28040; 24687]%N ++ runes_of_ascii """

    )
	`tab	here` , 
}
")).
Eval vm_compute in ("<<<M3452>>>" ++ check (runes_of_ascii "
options { LittleEndian
=true  ;StringPrefixLenType

= u8
;
    FixedStringPadFromLeft
= false	; FixedStringPadChar	='0';
	}
	packet  Order
{repeat
    string 
Px
,
repeat  char[ 
2
] Qty

, string Tail, char[]
    OrderId 
, int8
tag7,
	int64
Flags 
,	} packet

    Party {
	Order
    , f32 lastPx ,
	f32 Note

    , 
string 
x
,

    }

    packet Logon
{uint8
    OrderId 
,	string
    msgKind

    ,

int32
lastPx	,	}  packet

Ack

    {

}packet
    Cancel {
    repeat
char[5	] Note
, repeat
    i32

x 
,
    Ack
, repeat  InF16{
repeat
i8
sym,
    } 
,	char[
	1 
]Acct
    ,

    }	root  packet 
Fill 
{i32

    price ,	@leftPad 
(' ' )

char[

    8  ]

msgKind
	, char[]
    Acct ,

    char[] Note 
,

uint64
venue,

}
")).
Eval vm_compute in ("<<<M808>>>" ++ check (runes_of_ascii "root packet chars
// 50% %s
/// triple
{ // a // b
repeat u , asx // c
@lengthOf( chars
)	, i32 rootA , @leftPad ( )
    msg_type
,i64 u128, @lengthOf(Logon ) // `tick` ""quote"" 'q'
@rightPad // trailing space 
(
    //x
    ) char[ 1]
roots//	t
,
@tag(	1 ) int @calculatedFrom(  ""CRC32"") `tab	here` ,repeat
repeatCount float,char[ 65535 ] Packet
    `// not a comment` , @lengthOf(Header)//x
repeat string Pad`u8 x,`,} packet
    // packet A { u8 x, }
    metadata
// packet A { u8 x, }
// `tick` ""quote"" 'q'
{x Packet ,
    repeat
u64 /// triple
string_ `doc` // `tick` ""quote"" 'q'
,
repeat/// triple
Packet , @tag(
65535) zchar[  1
] pack@lengthOf( zchar
    ) `a\` //
,rootA matchKey`two words` , @rightPad(
    )stringy o
, }
")).
Eval vm_compute in ("<<<M4086>>>" ++ check (runes_of_ascii "// top
packet 

    // c0
  A 

    // c1
    {  // c2
		match

    packetx
// c4
    	as BodyLength  {  
      // c7
    007
: // c9
    A // c10
    """ ++ [28040; 24687]%N ++ runes_of_ascii """	// c11
		:	x_y_z 
// c13
	,

    """ ++ [128512]%N ++ runes_of_ascii """ 	 // c15
      : 
	    // c16
	crc 
  // c17
	[	// c18
""{,}"" 	 // c19
, ""\n""  // c21a
  // c21b
      , // c22a
	// c22b
    	""" ++ [233]%N ++ runes_of_ascii "t" ++ [233]%N ++ runes_of_ascii """
        // c23
    ,	// c24
    	""x y"" // c25a
  // c25b
    ,

""a\""b""  ] 	 // c28a
      // c28b
	: 	 // c29a
// c29b

  stringy 
    // c30
  ,  // c31a
// c31b
} // c32a
	// c32b
, // c33a
    // c33b

} // c34a
  // c34b
root  
  // c35
	packet i64_ // c37
	{ // c38
repeat 	 // c39
  pack 
	// c40
    `100% of %d` ,// c42a
	  // c42b
}
")).
Eval vm_compute in ("<<<M326>>>" ++ check (runes_of_ascii "MetaData Foo/// triple
{ uint32
calculatedFrom `tab	here` ,//x
options1
//
//x
i64_ , // 50% %s
string packetx `it's` // " ++ [128512]%N ++ runes_of_ascii " emoji
, u32 Packet`
` ,
    zchar[
1  ]
int  `" ++ [233]%N ++ runes_of_ascii "` ,
}
    // `tick` ""quote"" 'q'
    packet x_y_z	{ T ,
    match BodyLength// @lengthOf(
as
    //
    charz { [
    ""// no comment"" , """ ++ [233]%N ++ runes_of_ascii "t" ++ [233]%N ++ runes_of_ascii """
    ,
""`tick`"" ,
0123456789 ]
    :
Z9_ ""1"" : MetaDataX [ ""\n""
    ]
    :
    matchKey , } ,
    stringy	{ repeat uint16 float
, zchar[ 1 ] Packet , }
    , //
match metadata
as	o // " ++ [27880; 37322]%N ++ runes_of_ascii "
{
10 : Header ,7 : crc
""it's"" // 50% %s
:falsey 3: leftPad , [ 00
, 1 // trailing space 
, 255  , 007 // " ++ [27880; 37322]%N ++ runes_of_ascii "
, 255
    ] :
    charz 4294967296 : metadata}
    ,
    }
")).
Eval vm_compute in ("<<<M745>>>" ++ check (runes_of_ascii "
root
    // packet A { u8 x, }
    packet A {
f64 chars @lengthOf( Z9_
) ,
@lengthOf(
    repeatCount // `tick` ""quote"" 'q'
) //
match falsey as  crc{	7:_x,  } , }
packet body{
    @lengthOf( BodyLength ) charz // @lengthOf(
@calculatedFrom( ""// no comment"" // " ++ [27880; 37322]%N ++ runes_of_ascii "
) `line1
line2` ,@calculatedFrom(  ""// no comment"" ) @leftPad ( ' ' ) @lengthOf(// `tick` ""quote"" 'q'
body)
options1  @lengthOf( // @lengthOf(
string_	) `
`
// 50% %s
// " ++ [128512]%N ++ runes_of_ascii " emoji
,	match _x as
// " ++ [128512]%N ++ runes_of_ascii " emoji
// packet A { u8 x, }
lengthOf { // `tick` ""quote"" 'q'
""`tick`""
:
u8x ,	""abc"" :	o ,
    // c
    1 :metadata, [ 3 ] :
// c
// @lengthOf(
uint8x,
65535 : charz /// triple
, } , }")).
Eval vm_compute in ("<<<M3458>>>" ++ check (runes_of_ascii "  options{ StringPrefixLenType
    =	u64
	;

    ArrayPrefixLenType
    =

u16
	;

    }
    packet
Heartbeat {	uint32
Side2
	,  u8 OrderId ,string Tail
	,  InPx95{

    char[3]

    Note
, char[ 2 ] count
, 
repeat InOrderid76{
	char[
12  ] f1

,}

,
	uint8 lastPx

    ,char[] seqNo ,}

, 
}

packet 
Leg{	zchar[
5 ]tag7 
,Heartbeat
, 
}
    root
packet	Reject{u8 Ref

,

    uint8 Flags
	,	repeat
	Leg
,
zchar[ 1 ]

    venue ,	zchar[ 9

    ]	clOrdID
,u8

Tail	,	u32

price  @lengthOf(  Body)

, match
Tail
	as Body	{84 
:
    Heartbeat ,
6:
    Leg
    , },

u32
Note 
@calculatedFrom( ""CRC32"") ,	}")).
Eval vm_compute in ("<<<M121>>>" ++ check (runes_of_ascii "packet stringy { @lengthOf(
chars) char calculatedFrom
,
repeat u8x
    calculatedFrom`two words` ,	@leftPad ( '\x00') repeat Packet
    {match Packet as	rootA
{
42 : repeatCount
, // " ++ [128512]%N ++ runes_of_ascii " emoji
""CRC32"" // packet A { u8 x, }
: Pad 65535: // trailing space 
Header, [ // `tick` ""quote"" 'q'
""// no comment"" ,	007  ]// packet A { u8 x, }
: Z9_, 00	:body
    // " ++ [128512]%N ++ runes_of_ascii " emoji
    , [ ""// no comment"" ,
    //
    """ ++ [28040; 24687]%N ++ runes_of_ascii """
    , 1
    , // a // b
42 ,""it's""] :	metadata, }
    ,zchar[
    1
    ] asx@calculatedFrom( ""// no comment"" ) , zchar[ 10 ] u8x
,
}, repeat char[ // " ++ [27880; 37322]%N ++ runes_of_ascii "
0 ] // `tick` ""quote"" 'q'
falsey,} 	 ")).
Eval vm_compute in ("<<<M140>>>" ++ check (runes_of_ascii "
packet T {
    f32a {
a1 , }// @lengthOf(
, zchar[ 7 ]stringy `100% of %d` // @lengthOf(
, // `tick` ""quote"" 'q'
}
    options {  } packet A
{
    @rightPad
( )
    @lengthOf( lengthOf// `tick` ""quote"" 'q'
)	@tag( 1)T
@calculatedFrom(
    ""a\""b"" )
`` , Header , @tag(
// `tick` ""quote"" 'q'
// trailing space 
4294967296
) options1
    {char[] A//
`{ , }` , match Z9_ // packet A { u8 x, }
as rootA {
[3, """ ++ [233]%N ++ runes_of_ascii "t" ++ [233]%N ++ runes_of_ascii """]
    // packet A { u8 x, }
    :Logon
,}, options1
Header`" ++ [233]%N ++ runes_of_ascii "`, repeat
f64 /// triple
MetaDataX `it's`
,
    },
    // trailing space 
    float64 BodyLength, }")).
Eval vm_compute in ("<<<M3322>>>" ++ check (runes_of_ascii "packet MetaDataX // c1
{
    // c2
} // c3
root
    // c4
packet // c5a
  // c5b
len // c6a
  // c6b
{ zchar[ // c8a
  // c8b
7 // c9a
  // c9b
]
    // c10
matchKey @lengthOf( BodyLength // c13a
  // c13b
) // c14
, // c15a
  // c15b
BodyLength // c16a
  // c16b
`// not a comment` // c17
, match
    // c19
u8x as
    // c21
i8i8 { // c23
""a\""b"" : stringy
    // c26
, [ // c28a
  // c28b
""`tick`"" ] : u8x // c32a
  // c32b
0123456789 // c33
: options1
    // c35
, [ // c37a
  // c37b
""`tick`"" // c38
] // c39a
  // c39b
: x_y_z } // c42
,
    // c43
} ")).
Eval vm_compute in ("<<<M3796>>>" ++ check (runes_of_ascii "packet crc {
}

packet pack {
    repeat _x Foo,
    @lengthOf(string_)
    @rightPad()
    @calculatedFrom(""\n"")
    charz {
        char[42] a1,//x
        repeat T {
            repeat zchar[3] T,
        },
        match i64_ as trueish {
            ""`tick`"" : trueish,
            [""" ++ [233]%N ++ runes_of_ascii "t" ++ [233]%N ++ runes_of_ascii """, 0123456789] : Foo,
            """" : x_y_z,
            [
                ""\" ++ [233]%N ++ runes_of_ascii """, 3, ""a	b"", ""\" ++ [233]%N ++ runes_of_ascii """, ""x y"",
                ""1"", ""a	b"", ""CRC32""
            ] : asx,
            [255] : leftPad,
            42 : u8x,
        },
    },
    o,
}")).
Eval vm_compute in ("<<<M4356>>>" ++ check (runes_of_ascii "options
{LittleEndian
=  false
;

    ArrayPrefixLenType =
u8 ;  }

    packet Reject {
int8
x 
,} packet
    Trade

    {

zchar[

    4  ] msgKind , }
    root

    packet Leg

{

repeat
i64 
Note ,  u8 
venue

,

    @leftPad (
    '0' )
    char[	6 ]Qty

,

    @rightPad ('\x00' 
)

    char[	12] count	,
	repeat
    Reject
	,

    repeat

    char[ 3

] Px 
,u16 lastPx
, u16 Acct@lengthOf(	Body) ,

match
    lastPx
as
Body
	{  104 
:
Reject
    ,61 
:
Trade  ,}
	,

    }
")).
Eval vm_compute in ("<<<M4112>>>" ++ check (runes_of_ascii "

  options{	}	packet

o
    { 
@tag( 007 )

    a1 /// triple
`two words`,

@lengthOf( BodyLength) trueish	// 50% %s

  { i64
x_y_z 
@calculatedFrom( ""`tick`"" )
        //x
    , 
T	{

int8	rootA 	 // c
	@lengthOf(  MetaDataX )

    ,
	zchar[

    0123456789	]
trueish	`" ++ [28040; 24687; 31867; 22411]%N ++ runes_of_ascii "`
,
    chars  body
    , 
    // @lengthOf(
  //	t
	}
    , 
uint16
	Pad  `{ , }`,  char[  // " ++ [27880; 37322]%N ++ runes_of_ascii "
	1// " ++ [128512]%N ++ runes_of_ascii " emoji
    ]
	matchKey	, 
},
repeat i64_

    T ,@lengthOf(
	charz  )repeat
    int8 i8i8, 
}
")).
Eval vm_compute in ("<<<M670>>>" ++ check (runes_of_ascii "root packet
    string_
{ @lengthOf( roots )char[ 007	]
zchar
    ``
, } packet
Logon
    {
    int64 Z9_
@calculatedFrom( ""a\\"" ),}
    MetaData options1 {
zchar[ 65535] i64_ , msg_type packetx`crlf
line`
    ,char[ 0123456789 ]Packet, options1 // packet A { u8 x, }
As ,f32
pack , } options { // " ++ [27880; 37322]%N ++ runes_of_ascii "
}root
packet uint8x {// trailing space 
lengthOf { f64 trueish`" ++ [233]%N ++ runes_of_ascii "`, } ,@rightPad ( '0'
)
match A as options1
//
//	t
{ ""CRC32"" :// " ++ [27880; 37322]%N ++ runes_of_ascii "
MetaDataX ,
}
    , }")).
Eval vm_compute in ("<<<M3471>>>" ++ check (runes_of_ascii "options{ LittleEndian =
false
; 
ArrayPrefixLenType  =	u8 ;
	}	packet Reject { int8	x
,} 
packet Trade
	{ zchar[ 4]
msgKind
,} root packet

    Leg
	{repeat i64

    Note
    ,u8	venue
,

@leftPad
('0')  char[6  ]
    Qty, @rightPad 
(
'\x00'
)
char[  12]
    count
    ,	repeat
	Reject,
	repeat
    char[ 3 ] Px
,
u16 lastPx	,u16 Acct

@lengthOf( 
Body)

,match
lastPx
	as

Body {

104
:Reject
,

    61	:

    Trade,}

,
}
")).
Eval vm_compute in ("<<<M3981>>>" ++ check (runes_of_ascii "  root

packet
matchKey
{	repeat x

    {  trueish	calculatedFrom  , match
leftPad
as

    _x  {1:
    i64_ , 
""" ++ [28040; 24687]%N ++ runes_of_ascii """
:
options1 

    // c
    } ,repeat  char[]uint8x
	,
    A 
{ repeat	metadata
roots `a\` 
,	//
  char[
    10
]
	x_y_z
@calculatedFrom( ""\" ++ [233]%N ++ runes_of_ascii """  )`tab	here`, leftPad

    , float32
	f32a @calculatedFrom(
	""" ++ [233]%N ++ runes_of_ascii "t" ++ [233]%N ++ runes_of_ascii """)

`{ , }`

,
    }  // `tick` ""quote"" 'q'
    	,
}, 
	// trailing space 

	// c

} ")).
Eval vm_compute in ("<<<M146>>>" ++ check (runes_of_ascii "packet u8x{ float32
roots `u8 x,`
,  repeat float32 crc
    `" ++ [28040; 24687; 31867; 22411]%N ++ runes_of_ascii "`
    ,u32
pack
// 50% %s
// " ++ [27880; 37322]%N ++ runes_of_ascii "
@lengthOf(f32a ) `100% of %d`,// " ++ [128512]%N ++ runes_of_ascii " emoji
match u128
as _x
// trailing space 
// packet A { u8 x, }
{[ 65535 ]
:MetaDataX ,//x
}
, }packet x_y_z {	@rightPad
( '\x00' )i64
    /// triple
    roots, @calculatedFrom(
// " ++ [27880; 37322]%N ++ runes_of_ascii "
//
""packet"" ) match o as
    trueish	{	[ 1
    ,
0123456789
] :  u8x	,
    //	t
    } , }
")).
Eval vm_compute in ("<<<M212>>>" ++ check (runes_of_ascii "packet
    // " ++ [27880; 37322]%N ++ runes_of_ascii "
    string_
    // " ++ [128512]%N ++ runes_of_ascii " emoji
    { f32 string_
    @calculatedFrom(
""" ++ [128512]%N ++ runes_of_ascii """),} packet int { }
root packet
    // trailing space 
    Header	{repeat
lengthOf {
    repeat int
{body Foo ,	}
    // trailing space 
    ,
match i8i8	as
Pad { [ 10 ]
    : options1
, ""abc"" :u8x
, """ ++ [128512]%N ++ runes_of_ascii """ // 50% %s
: f32a// 50% %s
00  :  metadata , },
// a // b
// " ++ [128512]%N ++ runes_of_ascii " emoji
lengthOf BodyLength ,
},
    }
")).
Eval vm_compute in ("<<<M4351>>>" ++ check (runes_of_ascii "options {
    uint8x = '\x00';
    a1 = zchar[4294967296];
    Packet = 007;
}

MetaData rootA {
    roots repeatCount `two words`,
    string f32a `u8 x,`,
    char[0] rootA `doc`,
    o stringy `tab	here`,
}

MetaData u128 {
    int16 asx `a\`,// " ++ [27880; 37322]%N ++ runes_of_ascii "
    string f32a,
    // " ++ [27880; 37322]%N ++ runes_of_ascii "
    // 50% %s
    i16 o `line1
        line2`,
    u64 Z9_ `u8 x,`,
    //x
    // 50% %s
}")).
Eval vm_compute in ("<<<M724>>>" ++ check (runes_of_ascii "// a // b
packet o { match rootA as
    matchKey {"""" ://
body ,
0 :
    i8i8 // trailing space 
65535 : x_y_z , [""" ++ [233]%N ++ runes_of_ascii "t" ++ [233]%N ++ runes_of_ascii """
, 00
] // packet A { u8 x, }
:charz ,//
}, /// triple
zchar[ 10  ] calculatedFrom
    `
`
,
@tag(	00 ) @calculatedFrom( ""\" ++ [233]%N ++ runes_of_ascii """ ) i16 stringy,}MetaData
    //
    string_ { uint8 u8x , u u8x
    ,
    string
    /// triple
    body ,	}
")).
Eval vm_compute in ("<<<M608>>>" ++ check (runes_of_ascii "packet  i8i8{ char[ 0 ]// " ++ [27880; 37322]%N ++ runes_of_ascii "
rootA
,	@calculatedFrom(// `tick` ""quote"" 'q'
""a\""b"") @tag(  10 ) @lengthOf(  msg_type /// triple
) A
`u8 x,`, int64 // packet A { u8 x, }
asx @calculatedFrom(
    ""\" ++ [233]%N ++ runes_of_ascii """ ) ,
    asx @calculatedFrom(	""a\\"" ), } options {
MetaDataX
=
    i16	; //	t
Logon =
    zchar[10 ] Foo = ""1"" ; string_=
    '0'
    }
")).
Eval vm_compute in ("<<<M1292>>>" ++ check (runes_of_ascii "packet MetaDataX {
    @tag(	10
) // " ++ [128512]%N ++ runes_of_ascii " emoji
@leftPad(
    ) string lengthOf // `tick` ""quote"" 'q'
@calculatedFrom(""packet"" )
, string
metadata`line1
line2` , @lengthOf( options1  ) _x { zchar[//
10 ]u128
// @lengthOf(
// @lengthOf(
`crlf
line` , } , a1 body , char[
007]MetaDataX
@calculatedFrom( ""it's"")
    //	t
    , }")).
Eval vm_compute in ("<<<M352>>>" ++ check (runes_of_ascii "root packet
len
{ // " ++ [27880; 37322]%N ++ runes_of_ascii "
@lengthOf( falsey ) @calculatedFrom( """ ++ [128512]%N ++ runes_of_ascii """
)	@tag(10 )
int32//	t
pack `// not a comment` , repeat char[]
crc, match u8x as
    asx
{ // c
7 :int// trailing space 
,	3 : repeatCount 10
: /// triple
a1 ,
""CRC32"" :msg_type} ,}
MetaData int {char[ 255
    ] metadata
    `100% of %d` , }")).
Eval vm_compute in ("<<<M274>>>" ++ check (runes_of_ascii "packet falsey { @calculatedFrom( ""\n"" ) pack T `
`, @rightPad /// triple
(
)char[] string_
/// triple
// " ++ [128512]%N ++ runes_of_ascii " emoji
,
    //
    } MetaData	string_ { u16 trueish
,
    float x_y_z `u8 x,` ,
zchar[ 65535 ]	float ,
lengthOf repeatCount`tab	here` ,
    metadata // trailing space 
chars`say ""hi""` , }
")).
Eval vm_compute in ("<<<M435>>>" ++ check (runes_of_ascii "root packet	u8x{ pack @calculatedFrom( ""it's"" )
, }
options	{
    } packet// a // b
trueish { repeat f32
charz
,
//x
// " ++ [128512]%N ++ runes_of_ascii " emoji
@rightPad // packet A { u8 x, }
(  '\x00' )A { uint8x@lengthOf( lengthOf ) , } ,int{ uint8
falsey	, } ,
@lengthOf( Z9_
) repeat	uint8 u
    , }
// 50% %s
")).
Eval vm_compute in ("<<<M589>>>" ++ check (runes_of_ascii "packet
_x  { char Packet ,
// `tick` ""quote"" 'q'
// a // b
}
MetaData string_
{ char[] string_ , string T , char u
, metadata stringy
    , zchar[ 42 ]u8x
    , } MetaData
calculatedFrom {
}
MetaData pack { i16 u128 `{ , }`	, float64 metadata `a\`,
}	options {
    } 	 ")).
Eval vm_compute in ("<<<M1684>>>" ++ check (runes_of_ascii "// 50% %s
packet	a1
    { zchar[
// a // b
// 50% %s
007]
T `it's`
    ,@rightPad
    // a // b
    (
'\x00')
    o repeatCount , }  packet Logon {  }packet	Logon //x
{ repeat // " ++ [128512]%N ++ runes_of_ascii " emoji
uint16 u128
    //
    `a\`,
falsey
@calculatedFrom(""packet"" ) options
    } 	 ")).
Eval vm_compute in ("<<<M1557>>>" ++ check (runes_of_ascii "// 50% %s
packet	a1
    { zchar[
// a // b
// 50% %s
007]
T `it's`
    , ,@rightPad
    // a // b
    (
'\x00')
    o repeatCount , }  packet Logon {  }packet	Logon //x
{ repeat // " ++ [128512]%N ++ runes_of_ascii " emoji
uint16 u128
    //
    `a\`,
falsey
@calculatedFrom(""packet"" ) ,
    } 	 ")).
Eval vm_compute in ("<<<M1709>>>" ++ check (runes_of_ascii "// 50% %s
packet	a1
    { zchar[
// a // b
// 50% %s
007]
T `it's`
    ,@rightPad
    // a // b
    (
'\x00')
    x" ++ [178]%N ++ runes_of_ascii " repeatCount , }  packet Logon {  }packet	Logon //x
{ repeat // " ++ [128512]%N ++ runes_of_ascii " emoji
uint16 u128
    //
    `a\`,
falsey
@calculatedFrom(""packet"" ) ,
    } 	 ")).
Eval vm_compute in ("<<<M1668>>>" ++ check (runes_of_ascii "// 50% %s
packet	a1
    { zchar[
// a // b
// 50% %s
007]
T `it's`
    ,@rightPad
    // a // b
    (
'\x00')
    o repeatCount , }  packet Logon {  }packet	Logon //x
{ repeat // " ++ [128512]%N ++ runes_of_ascii " emoji
uint16 u128
    //
    `a\`,
falsey
""packet""@calculatedFrom( ) ,
    } 	 ")).
Eval vm_compute in ("<<<M1536>>>" ++ check (runes_of_ascii "// 50% %s
packet	a1
    { zchar[
// a // b
// 50% %s
]
T `it's`
    ,@rightPad
    // a // b
    (
'\x00')
    o repeatCount , }  packet Logon {  }packet	Logon //x
{ repeat // " ++ [128512]%N ++ runes_of_ascii " emoji
uint16 u128
    //
    `a\`,
falsey
@calculatedFrom(""packet"" ) ,
    } 	 ")).
Eval vm_compute in ("<<<M1641>>>" ++ check (runes_of_ascii "// 50% %s
packet	a1
    { zchar[
// a // b
// 50% %s
007]
T `it's`
    ,@rightPad
    // a // b
    (
'\x00')
    o repeatCount , }  packet Logon {  }packet	Logon //x
{ repeat // " ++ [128512]%N ++ runes_of_ascii " emoji
 u128
    //
    `a\`,
falsey
@calculatedFrom(""packet"" ) ,
    } 	 ")).
Eval vm_compute in ("<<<M1122>>>" ++ check (runes_of_ascii "// `tick` ""quote"" 'q'
packet
    x {
    @calculatedFrom(
""\n"") repeat calculatedFrom _x
    // a // b
    `{ , }`, char[]	u128
    ,
stringy @calculatedFrom(
"""" ) , @lengthOf(x_y_z  )
    @tag( 42)
    @rightPad ( '0'
    ) char[]
    trueish , }
")).
Eval vm_compute in ("<<<M4245>>>" ++ check (runes_of_ascii "packet zchar {
    Logon a1,
    u128 `
        `,
    @lengthOf(charz)
    i64 u8x @lengthOf(msg_type) `// not a comment`,
    repeat roots a1,
    asx msg_type `crlf
        line`,
    @tag(42)
    /// triple
    u64 metadata `{ , }`,
}")).
Eval vm_compute in ("<<<M249>>>" ++ check (runes_of_ascii "
MetaData	f32a { uint8x  zchar`" ++ [28040; 24687; 31867; 22411]%N ++ runes_of_ascii "` ,i32 Logon
    , }
options{
    repeatCount= ""\n""; trueish=
    zchar[ 4294967296 ]
    ; }
    // c
    MetaData body { char[] T
, x_y_z
    Packet `crlf
line` , uint32 matchKey ,
x tag ,}")).
Eval vm_compute in ("<<<M381>>>" ++ check (runes_of_ascii "root packet
rootA {} packet u128 {@calculatedFrom(""\" ++ [233]%N ++ runes_of_ascii """ ) falsey@calculatedFrom( ""a\\"" ) ,
@lengthOf(// trailing space 
pack )repeat float64 packetx , @calculatedFrom(""packet"" ) charz
    , uint8 leftPad `crlf
line` ,
}")).
Eval vm_compute in ("<<<M115>>>" ++ check (runes_of_ascii "MetaData tag{
} MetaData tag
    { options1 metadata// " ++ [128512]%N ++ runes_of_ascii " emoji
,
}
    root packet Header { @lengthOf( body
) len
msg_type
    , repeat	string
    //x
    int
`{ , }`, u8
    rootA @lengthOf(
Z9_ )  `" ++ [233]%N ++ runes_of_ascii "` , }
")).
Eval vm_compute in ("<<<M4333>>>" ++ check (runes_of_ascii "
// packet A { u8 x, }
  MetaData

repeatCount{ 	 // @lengthOf(
    Z9_ int
`a\`
	,  }
options  { Pad
=  ' '  ;/// triple
A
	=

""\" ++ [233]%N ++ runes_of_ascii """

    ;

    As	= uint64
;	//	t
	}	root 
packet

    f32a{}
")).
Eval vm_compute in ("<<<M3365>>>" ++ check (runes_of_ascii "// top
packet
    // c0
Inner // c1
{ // c2
u8 // c3
a
    // c4
,
    // c5
} // c6a
  // c6b
root packet
    // c8
P {
    // c10
repeat
    // c11
Inner items , u8
    // c15
x // c16
, } ")).
Eval vm_compute in ("<<<M1125>>>" ++ check (runes_of_ascii "MetaData As {/// triple
zchar[ 7 // trailing space 
] As	``, }MetaData
float{ } packet calculatedFrom{
    a1
string_// c
, zchar[3 ]  f32a @calculatedFrom(
""abc"")`100% of %d`
,}")).
Eval vm_compute in ("<<<M1354>>>" ++ check (runes_of_ascii "options { //x
u
= u8 ;} MetaData u
{ }// packet A { u8 x, }
packet u
    { @lengthOf(leftPad
) @calculatedFrom( """ ++ [28040; 24687]%N ++ runes_of_ascii """ ) i64 int @calculatedFrom(""\n""
) , uint8x body	, }
")).
Eval vm_compute in ("<<<M690>>>" ++ check (runes_of_ascii "packet packetx {zchar[
// a // b
//	t
10
]options1 , } // " ++ [128512]%N ++ runes_of_ascii " emoji
options{ // a // b
a1=//
char[ 0123456789 ]	; f32a=
char[]} MetaData MetaDataX { zchar[65535 ]x,	}
")).
Eval vm_compute in ("<<<M1692>>>" ++ check (runes_of_ascii "// 50% %s
packet	a1
    { zchar[
// a // b
// 50% %s
007]
T `it's`
    ,@rightPad
    // a // b
    (
'\x00')
    o repeatCount , }  packet Logon {  }packet	")).
Eval vm_compute in ("<<<M188>>>" ++ check (runes_of_ascii "MetaData
Logon	{ chars
metadata `u8 x,` , uint64 x_y_z, u32
    Z9_ ,
    // 50% %s
    uint64
// packet A { u8 x, }
// a // b
pack
, body asx
,
    }")).
Eval vm_compute in ("<<<M2106>>>" ++ check (runes_of_ascii "MetaData BodyLength
{ int8 Foo
, string
    MetaDataX , float zchar ,pack pack options1
,asx string_, }
packet u8x {Foo@lengthOf(charz )
`" ++ [28040; 24687; 31867; 22411]%N ++ runes_of_ascii "`,  }
")).
Eval vm_compute in ("<<<M2136>>>" ++ check (runes_of_ascii "MetaData BodyLength
{ int8 Foo
, string
    MetaDataX , float zchar ,pack options1
,asx string_, } }
packet u8x {Foo@lengthOf(charz )
`" ++ [28040; 24687; 31867; 22411]%N ++ runes_of_ascii "`,  }
")).
Eval vm_compute in ("<<<M2206>>>" ++ check (runes_of_ascii "MetaData BodyLength
{ int8 Foo
, string
    MetaDataX , float zchar ,pack options1
,asx string_, }
packet u8x {Foo@lengthOf" ++ [233]%N ++ runes_of_ascii "(charz )
`" ++ [28040; 24687; 31867; 22411]%N ++ runes_of_ascii "`,  }
")).
Eval vm_compute in ("<<<M2152>>>" ++ check (runes_of_ascii "MetaData BodyLength
{ int8 Foo
, string
    MetaDataX , float zchar ,pack options1
,asx string_, }
packet u8x Foo{@lengthOf(charz )
`" ++ [28040; 24687; 31867; 22411]%N ++ runes_of_ascii "`,  }
")).
Eval vm_compute in ("<<<M2244>>>" ++ check (runes_of_ascii "options
    {
x_y_z// " ++ [27880; 37322]%N ++ runes_of_ascii "
= 10 ; }
packet packet body {
    @calculatedFrom(
// trailing space 
// " ++ [27880; 37322]%N ++ runes_of_ascii "
""1""
)	match T as Foo
    {
255 :T , }
,}")).
Eval vm_compute in ("<<<M2145>>>" ++ check (runes_of_ascii "MetaData BodyLength
{ int8 Foo
, string
    MetaDataX , float zchar ,pack options1
,asx string_, }
packet  {Foo@lengthOf(charz )
`" ++ [28040; 24687; 31867; 22411]%N ++ runes_of_ascii "`,  }
")).
Eval vm_compute in ("<<<M17>>>" ++ check (runes_of_ascii "MetaData
matchKey
    { trueish Packet `// not a comment` , stringy calculatedFrom`tab	here`
    //
    , matchKey  o `doc` , } // 50% %s")).
Eval vm_compute in ("<<<M2031>>>" ++ check (runes_of_ascii "
packet leftPad {
@leftPad( '0')
u32
i64_ `100% of %d` ,repeat// 50% %s
i8 chars
    ,
} $ MetaData
    f32a
{ // packet A { u8 x, }
}")).
Eval vm_compute in ("<<<M2032>>>" ++ check (runes_of_ascii "
packet leftPad {
@leftPad( '0')
u32
i64_ `1?00% of %d` ,repeat// 50% %s
i8 chars
    ,
} MetaData
    f32a
{ // packet A { u8 x, }
}")).
Eval vm_compute in ("<<<M1954>>>" ++ check (runes_of_ascii "
packet leftPad {
@leftPad( i64)
u32
i64_ `100% of %d` ,repeat// 50% %s
i8 chars
    ,
} MetaData
    f32a
{ // packet A { u8 x, }
}")).
Eval vm_compute in ("<<<M2270>>>" ++ check (runes_of_ascii "options
    {
x_y_z// " ++ [27880; 37322]%N ++ runes_of_ascii "
= 10 ; }
packet body {
    @calculatedFrom(
// trailing space 
// " ++ [27880; 37322]%N ++ runes_of_ascii "
""1""
match	) T as Foo
    {
255 :T , }
,}")).
Eval vm_compute in ("<<<M2214>>>" ++ check (runes_of_ascii "options
    
x_y_z// " ++ [27880; 37322]%N ++ runes_of_ascii "
= 10 ; }
packet body {
    @calculatedFrom(
// trailing space 
// " ++ [27880; 37322]%N ++ runes_of_ascii "
""1""
)	match T as Foo
    {
255 :T , }
,}")).
Eval vm_compute in ("<<<M3382>>>" ++ check (runes_of_ascii "options {
    LittleEndian = true;
}
packet B {
    u8 a,
    string s,
}
root packet P {
    u16 L @lengthOf(B),
    B,
    u8 t,
}
")).
Eval vm_compute in ("<<<M2426>>>" ++ check (runes_of_ascii "MetaData
    calculatedFrom
{ zchar[  10 ]
    As`tab	here`,
    }// trailing space 
options  { roots ='\x00' ; } packet " ++ [65279]%N ++ runes_of_ascii " A
{ }
")).
Eval vm_compute in ("<<<M1893>>>" ++ check (runes_of_ascii "packet o {
    roots `it's`
// trailing space 
//x
, char[ 42
    ]  A, // " ++ [27880; 37322]%N ++ runes_of_ascii "
f64
repeatCount
    `crlf
line` `crlf
line`
,}")).
Eval vm_compute in ("<<<M394>>>" ++ check (runes_of_ascii "MetaData lengthOf {len a1 `a\`
    , As
    x_y_z
`" ++ [28040; 24687; 31867; 22411]%N ++ runes_of_ascii "`,
    metadata x, calculatedFrom string_ `doc`	,} // trailing space ")).
Eval vm_compute in ("<<<M3370>>>" ++ check (runes_of_ascii "packet B {
    u8 a,
}
root packet P {
    u8 K,
    u8 L @lengthOf(Body),
    match K as Body {
        1 : B,
    },
}
")).
Eval vm_compute in ("<<<M1863>>>" ++ check (runes_of_ascii "packet o {
    roots `it's`
// trailing space 
//x
, char[ 42 42
    ]  A, // " ++ [27880; 37322]%N ++ runes_of_ascii "
f64
repeatCount
    `crlf
line`
,}")).
Eval vm_compute in ("<<<M4024>>>" ++ check (runes_of_ascii "
packet

    A { match 
k as n 
{

    [ 1  ,

""bb""
,007
,  ""d"" ,
5
, ""f""]

:
B 
2
    : 
C
}

    ,
	} ")).
Eval vm_compute in ("<<<M1859>>>" ++ check (runes_of_ascii "packet o {
    roots `it's`
// trailing space 
//x
, 42 char[
    ]  A, // " ++ [27880; 37322]%N ++ runes_of_ascii "
f64
repeatCount
    `crlf
line`
,}")).
Eval vm_compute in ("<<<M4198>>>" ++ check (runes_of_ascii "// a // b
packet matchKey {
    repeat Z9_ {
        a1 @calculatedFrom(""" ++ [28040; 24687]%N ++ runes_of_ascii """),
    },
}

root packet T {
    //
}")).
Eval vm_compute in ("<<<M1081>>>" ++ check (runes_of_ascii "MetaData Z9_ { } options	{ repeatCount  = '0'
crc
// " ++ [27880; 37322]%N ++ runes_of_ascii "
// " ++ [27880; 37322]%N ++ runes_of_ascii "
= 007
; rootA
=int8 ;_x	= 0 ;
}packet falsey{ }")).
Eval vm_compute in ("<<<M2287>>>" ++ check (runes_of_ascii "options
    {
x_y_z// " ++ [27880; 37322]%N ++ runes_of_ascii "
= 10 ; }
packet body {
    @calculatedFrom(
// trailing space 
// " ++ [27880; 37322]%N ++ runes_of_ascii "
""1""
)	match T")).
Eval vm_compute in ("<<<M1470>>>" ++ check (runes_of_ascii "packet
T
{ match repeatCount as	calculatedFrom
{ [65535 ]	""// no comment"" As	,
} ,}
// trailing space 
")).
Eval vm_compute in ("<<<M1251>>>" ++ check (runes_of_ascii "options	{x_y_z	= u8 ;
_x = 4294967296
asx =0123456789;
charz
=false ; x_y_z =
    // 50% %s
    10}
")).
Eval vm_compute in ("<<<M2980>>>" ++ check (runes_of_ascii "packet A {
  match k as n {
    [""a"", 22, ""c c"", 4, ""e"", 66, ""g"", 8, ""i"", 10] : B
    2 : C
  },
}")).
Eval vm_compute in ("<<<M3616>>>" ++ check (runes_of_ascii "packet A {
    B b `tab
        	x`,
    B `tab
        	x`,
    repeat B bs `tab
        	x`,
}")).
Eval vm_compute in ("<<<M4073>>>" ++ check (runes_of_ascii "options{ x

=string
x_y_z	='\x00'	; falsey
    =

1;
chars
    = 
true
    ;Logon=""packet""
} ")).
Eval vm_compute in ("<<<M1453>>>" ++ check (runes_of_ascii "packet
T
{ match repeatCount as	calculatedFrom
{ [ [65535 ]	: As	,
} ,}
// trailing space 
")).
Eval vm_compute in ("<<<M1511>>>" ++ check (runes_of_ascii "packet
T
{ match repeatCount as	calculatedFrom
{ [65535 ]	: As	#,
} ,}
// trailing space 
")).
Eval vm_compute in ("<<<M1485>>>" ++ check (runes_of_ascii "packet
T
{ match repeatCount as	calculatedFrom
{ [65535 ]	: As	,
) ,}
// trailing space 
")).
Eval vm_compute in ("<<<M2951>>>" ++ check (runes_of_ascii "packet A {
  match k as n {
    [1, ""bb"", 007, ""d"", 5, ""f"", 7, ""h""] : B,
    2 : C
  },
}")).
Eval vm_compute in ("<<<M2332>>>" ++ check (runes_of_ascii "options
    {
x_y_z// " ++ [27880; 37322]%N ++ runes_of_ascii "
= 10 ; }
packet body {
    @calculatedFrom(
// trailing space ")).
Eval vm_compute in ("<<<M3647>>>" ++ check (runes_of_ascii "packet A {
    repeat crc uint8x,
    @calculatedFrom(""it's"")
    uint64 Logon `a\`,
}")).
Eval vm_compute in ("<<<M1722>>>" ++ check (runes_of_ascii "options{  = lengthOf//x
i16;
    BodyLength = 0 ; pack
= false;
    A = char[ 3 ] }")).
Eval vm_compute in ("<<<M1745>>>" ++ check (runes_of_ascii "options{  lengthOf =//x
i16;
    BodyLength  0 ; pack
= false;
    A = char[ 3 ] }")).
Eval vm_compute in ("<<<M1187>>>" ++ check (runes_of_ascii "
options{ MetaDataX
= 4294967296 } MetaData
    body{zchar[ 00
]Logon , //	t
}
")).
Eval vm_compute in ("<<<M613>>>" ++ check (runes_of_ascii "root //x
packet  u{
    /// triple
    chars
// trailing space 
//x
u128
,
}

")).
Eval vm_compute in ("<<<M3261>>>" ++ check (runes_of_ascii "MetaData Foo { zchar[ 0 ] matchKey , } // c
options { lengthOf = i32 u = 00 ; }")).
Eval vm_compute in ("<<<M4364>>>" ++ check (runes_of_ascii "packet A {
    match k as n {
        [""a"", ""bb""] : B,
        2 : C,
    },
}")).
Eval vm_compute in ("<<<M3935>>>" ++ check (runes_of_ascii "packet A {
    B b `a
    b`,
    B `a
    b`,
    repeat B bs `a
    b`,
}")).
Eval vm_compute in ("<<<M2900>>>" ++ check (runes_of_ascii "packet A {
  match k as n {
    [1, ""bb"", 007, ""d""] : B
    2 : C
  },
}")).
Eval vm_compute in ("<<<M1881>>>" ++ check (runes_of_ascii "packet o {
    roots `it's`
// trailing space 
//x
, char[ 42
    ]  A")).
Eval vm_compute in ("<<<M3829>>>" ++ check (runes_of_ascii "packet u128 {
    @calculatedFrom(""\n"")
    a1 `// not a comment`,
}")).
Eval vm_compute in ("<<<M3369>>>" ++ check (runes_of_ascii "

  root 
packet

    P	{

    hdr
{
    u8 a,

},	u8	x,

}

")).
Eval vm_compute in ("<<<M1211>>>" ++ check (runes_of_ascii "root packet
    Foo {
@rightPad
// c
// " ++ [27880; 37322]%N ++ runes_of_ascii "
( )
u8 x_y_z `` ,}
")).
Eval vm_compute in ("<<<M2099>>>" ++ check (runes_of_ascii "MetaData BodyLength
{ int8 Foo
, string
    MetaDataX , float")).
Eval vm_compute in ("<<<M4255>>>" ++ check (runes_of_ascii "MetaData M {
    u8 x `a
        b`,
    T t `a
        b`,
}")).
Eval vm_compute in ("<<<M4315>>>" ++ check (runes_of_ascii "MetaData M {
    u8 x `
        x`,
    T t `
        x`,
}")).
Eval vm_compute in ("<<<M1466>>>" ++ check (runes_of_ascii "packet
T
{ match repeatCount as	calculatedFrom
{ [65535")).
Eval vm_compute in ("<<<M1497>>>" ++ check (runes_of_ascii "packet
T
{ match repeatCount as	calculatedFrom
{ [65")).
Eval vm_compute in ("<<<M3195>>>" ++ check (runes_of_ascii "packet A { u8 x, } // a
// b
packet B {} // c
// d")).
Eval vm_compute in ("<<<M960>>>" ++ check (runes_of_ascii "MetaData Pad { msg_type
x_y_z
`crlf
line` , }")).
Eval vm_compute in ("<<<M2657>>>" ++ check (runes_of_ascii "MetaData M { u8 x `d` , y z `e`, char[3] w, }")).
Eval vm_compute in ("<<<M2849>>>" ++ check (runes_of_ascii "] uint16 options repeat uint8 = u32 int64 }")).
Eval vm_compute in ("<<<M3182>>>" ++ check (runes_of_ascii "packet A {
    u8 x,    // c    u8 y,
}")).
Eval vm_compute in ("<<<M2084>>>" ++ check (runes_of_ascii "MetaData BodyLength
{ int8 Foo
, string")).
Eval vm_compute in ("<<<M2368>>>" ++ check (runes_of_ascii "MetaData
Foo {@rightPad //
pack ,	} 	 ")).
Eval vm_compute in ("<<<M3212>>>" ++ check (runes_of_ascii "packet A { u8 x,// a


// b

 u8 y, }")).
Eval vm_compute in ("<<<M4015>>>" ++ check (runes_of_ascii "packet packetx {
}

packet zchar {
}")).
Eval vm_compute in ("<<<M2589>>>" ++ check (runes_of_ascii "packet A { char[3] @lengthOf(y), }")).
Eval vm_compute in ("<<<M446>>>" ++ check (runes_of_ascii "
root
    packet metadata
{ }

")).
Eval vm_compute in ("<<<M2370>>>" ++ check (runes_of_ascii "MetaData
Foo {Header //
 ,	} 	 ")).
Eval vm_compute in ("<<<M3114>>>" ++ check (runes_of_ascii "packet A {
 u8 x `d" ++ [5760]%N ++ runes_of_ascii "`, // c" ++ [5760]%N ++ runes_of_ascii "
}")).
Eval vm_compute in ("<<<M4436>>>" ++ check (runes_of_ascii "

  root packet 
packetx {
	}")).
Eval vm_compute in ("<<<M1361>>>" ++ check (runes_of_ascii "packet
    //x
    i8i8{	}
")).
Eval vm_compute in ("<<<M2635>>>" ++ check (runes_of_ascii "packet A { u8 x, @tag(1) }")).
Eval vm_compute in ("<<<M2588>>>" ++ check (runes_of_ascii "packet A { char[ 3 ] , }")).
Eval vm_compute in ("<<<M307>>>" ++ check (runes_of_ascii " // `tick` ""quote"" 'q'")).
Eval vm_compute in ("<<<M2804>>>" ++ check (runes_of_ascii "y" ++ [7]%N ++ runes_of_ascii "MS7," ++ [65533]%N ++ runes_of_ascii "]" ++ [65533; 22]%N ++ runes_of_ascii "}" ++ [31]%N ++ runes_of_ascii "ePZ" ++ [65533]%N ++ runes_of_ascii "R" ++ [65533; 65533]%N ++ runes_of_ascii "R" ++ [65533]%N)).
Eval vm_compute in ("<<<M1530>>>" ++ check (runes_of_ascii "// 50% %s
packet	a1")).
Eval vm_compute in ("<<<M2707>>>" ++ check (runes_of_ascii "U,!W#@X%>&\/),5|OU")).
Eval vm_compute in ("<<<M3162>>>" ++ check (runes_of_ascii "packet A {
}
// c" ++ [8203]%N)).
Eval vm_compute in ("<<<M3105>>>" ++ check (runes_of_ascii "packet A {
}// c" ++ [133]%N)).
Eval vm_compute in ("<<<M2723>>>" ++ check (runes_of_ascii ",K>m\v$n2hKn]8.:")).
Eval vm_compute in ("<<<M2764>>>" ++ check (runes_of_ascii "255 char match")).
Eval vm_compute in ("<<<M351>>>" ++ check (runes_of_ascii "options{ }
")).
Eval vm_compute in ("<<<M2800>>>" ++ check ([21; 65533]%N ++ runes_of_ascii "$" ++ [5; 20]%N ++ runes_of_ascii "y" ++ [65533]%N ++ runes_of_ascii "2" ++ [65533]%N)).
Eval vm_compute in ("<<<M2703>>>" ++ check (runes_of_ascii "8pk}62I")).
Eval vm_compute in ("<<<M858>>>" ++ check (runes_of_ascii "//x

")).
Eval vm_compute in ("<<<M3121>>>" ++ check (runes_of_ascii "// c" ++ [8202]%N)).
Eval vm_compute in ("<<<M2554>>>" ++ check (runes_of_ascii "a
b")).
Eval vm_compute in ("<<<M2556>>>" ++ check (runes_of_ascii "a" ++ [11]%N ++ runes_of_ascii "b")).
Eval vm_compute in ("<<<M2807>>>" ++ check (runes_of_ascii "42")).
