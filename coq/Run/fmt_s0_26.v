From FP Require Import Lexer Parser ShowPT Digest Formatter.
From Coq Require Import String List NArith.
Import ListNotations.
Open Scope string_scope.
Set Printing Width 100000000.
Set Printing Depth 100000000.
Definition show_fres (r : fres) : string :=
  match r with
  | FOk s => "OK:" ++ sh_escaped s ""
  | FErr s => "ERR:" ++ sh_escaped s ""
  | FPanic p => "PANIC:" ++ p
  end.
Definition check (rs : list rune) : string := digest (show_fres (format_res rs)).
Definition full (rs : list rune) : string := show_fres (format_res rs).
Eval vm_compute in ("<<<M1861>>>" ++ check (runes_of_ascii "// top
  options// c0a
	// c0b
    {  // c1a
    	// c1b
	ArrayPrefixLenType// c2

=  
  // c3

  u64 
; 	 // c5
      FixedStringPadFromLeft  // c6
  	= 
      // c7
	  true;  FixedStringPadChar// c10a

  // c10b
=  // c11a
	// c11b
  '0' ;
    // c13
    	}
    // c14
  	packet 
// c15
	Quote
    // c16
    	{ }	// c18a

// c18b
	  packet
Ack	// c20

  {
repeat
// c22
    InNote66 // c23
{	u8 
        // c25
	  pad0  
      // c26
,
// c27
    	},// c29
  }

    packet  // c31a
// c31b
  Reject	{ // c33a
	// c33b
}

// c34
    	root  // c35
packet// c36a
// c36b
	Order // c37
    { // c38
    	Quote 	 // c39

	,  
  // c40
    repeat Reject  // c42a

// c42b
    	,// c43
	  string venue 	 // c45
	,
    // c46
string	// c47
  seqNo
        // c48
	,
    uint32// c50a
	// c50b
Ref 
  // c51
	,// c52
	  u16// c53
    lastPx	// c54a
	// c54b
  	,
u32

clOrdID @lengthOf(
Body // c59a
// c59b
    	)// c60
	,  // c61a
    // c61b
  match lastPx
    // c63

as 
    // c64

Body 	 // c65
    { 
    // c66
  190 :
    Reject// c69a
  // c69b
  ,  // c70
	186 
      // c71
  :
// c72

Quote 
        // c73
  , // c74
		22 // c75

: 	 // c76
Ack , 
      // c78

} 
    // c79
	,
u16  // c81a
  // c81b
		Flags// c82a

  // c82b

@calculatedFrom(
        // c83

  ""CRC32""
        // c84
  ) ,	// c86
	} 
    // c87
")).
Eval vm_compute in ("<<<M231>>>" ++ check (runes_of_ascii "root packet
    metadata {  @lengthOf(
options1
) int32 zchar @calculatedFrom(""// no comment"" ) `
` , repeat calculatedFrom `it's`, //
match
    BodyLength as lengthOf
{ 3 /// triple
:	leftPad , }, repeat
u128, char[ 10
] chars  ,// @lengthOf(
falsey
@calculatedFrom( ""x y"") // c
`{ , }` ,	@tag(42
)	float64
    i64_
    // packet A { u8 x, }
    , u8x@calculatedFrom(  ""{,}"" ) `two words`
//	t
// trailing space 
, @lengthOf(T)
char[	255]  pack `it's`
,match MetaDataX
as i64_{
    //
    """ ++ [28040; 24687]%N ++ runes_of_ascii """ // @lengthOf(
:Header , 0
    //
    : x_y_z 3 : // `tick` ""quote"" 'q'
int""abc""
    // @lengthOf(
    : u8x ,
    } , } packet i64_
{@rightPad ( ) /// triple
pack {
match MetaDataX
    as trueish { 1 // @lengthOf(
:
    len
00	: falsey // packet A { u8 x, }
,"""" :
x ,
}, } , @tag(1) char[]int @lengthOf(	metadata
) // packet A { u8 x, }
, a1 @lengthOf( calculatedFrom ) ,
    @tag( 7
    )tag@lengthOf(u ) , BodyLength /// triple
@calculatedFrom( ""it's""
) `say ""hi""` ,string
msg_type ,
    }
    MetaData
    Logon { BodyLength
_x `it's` , int32 body ,
    // trailing space 
    } root	packet body{  }
")).
Eval vm_compute in ("<<<M17>>>" ++ check (runes_of_ascii "
MetaData
    x{ len
    crc , float
    // " ++ [128512]%N ++ runes_of_ascii " emoji
    asx, i32 uint8x`line1
line2` ,u16
tag
// `tick` ""quote"" 'q'
//x
`it's` , As string_
    ,
}
packet metadata {@lengthOf(zchar )// c
i64_ @calculatedFrom(
""\" ++ [233]%N ++ runes_of_ascii """	) , //x
@leftPad
    ( '\x00' ) zchar[ 10
] zchar
    ,
    lengthOf //x
string_ ,int @lengthOf( pack
    ),
    zchar[ 00 ]
    Foo , @lengthOf( packetx )
    @leftPad (
'\x00'// " ++ [27880; 37322]%N ++ runes_of_ascii "
) @calculatedFrom(
    // @lengthOf(
    ""x y"" )uint16
len@calculatedFrom( """" )
`two words` , int8
    metadata @lengthOf( Foo )`two words`	, // @lengthOf(
}options
{ }
packet
pack{
// `tick` ""quote"" 'q'
//
f64
    o , T BodyLength  ,
    repeat
    uint8 chars  `" ++ [233]%N ++ runes_of_ascii "`
    ,repeat
    // c
    Logon
u
    // " ++ [128512]%N ++ runes_of_ascii " emoji
    ,@tag(
    0123456789 )
char[] repeatCount @lengthOf(// " ++ [27880; 37322]%N ++ runes_of_ascii "
_x )
    // c
    `
` ,//
@tag(
// packet A { u8 x, }
/// triple
7 )  repeatCount @calculatedFrom(""packet"" ) `{ , }` , }")).
Eval vm_compute in ("<<<M1321>>>" ++ check (runes_of_ascii "// top
packet // c0
P1
    // c1
{ // c2
u8
    // c3
a // c4a
  // c4b
,
    // c5
} // c6
packet
    // c7
P2 // c8
{ // c9a
  // c9b
P1 // c10
, } // c12a
  // c12b
packet // c13a
  // c13b
P3
    // c14
{
    // c15
P2
    // c16
, // c17
P1 , // c19
} // c20a
  // c20b
packet // c21
P4 // c22
{ // c23
repeat // c24a
  // c24b
P3
    // c25
, P2 , } root // c30a
  // c30b
packet // c31
P5 { // c33
P4
    // c34
,
    // c35
P3 // c36a
  // c36b
, P1
    // c38
,
    // c39
u8 K // c41
, // c42
match // c43
K // c44a
  // c44b
as
    // c45
Body // c46a
  // c46b
{ // c47a
  // c47b
4 : // c49a
  // c49b
P4 // c50
, // c51
3 :
    // c53
P3 // c54a
  // c54b
, // c55a
  // c55b
2 // c56a
  // c56b
:
    // c57
P2 ,
    // c59
1 : // c61a
  // c61b
P1 // c62
, // c63a
  // c63b
}
    // c64
, }
    // c66
")).
Eval vm_compute in ("<<<M1456>>>" ++ check (runes_of_ascii "packet float {
    char[] u8x @lengthOf(roots),
}

MetaData leftPad {
    string a1,
}

root packet pack {
    falsey,
    /// triple
    match Logon as trueish {
        ""packet"" : Foo,
        """" : len,
        0123456789 : i64_,
        ""it's"" : packetx,
        255 : len,
    },
    repeat As As `" ++ [233]%N ++ runes_of_ascii "`,
    @tag(3)
    uint32 a1,
    repeat zchar[4294967296] pack,
    @leftPad(' ')
    zchar @lengthOf(string_) `// not a comment`,
    repeat int,
    repeat i8i8 {
        u64 tag `say ""hi""`,
        u8x,
        char trueish,
        repeat float32 stringy `line1
                line2`,
    },
    match o as o {
        007 : float,
    },
    // packet A { u8 x, }
    // c
    repeat Pad,
    // " ++ [27880; 37322]%N ++ runes_of_ascii "
    // trailing space 
}")).
Eval vm_compute in ("<<<M1793>>>" ++ check (runes_of_ascii "// `tick` ""quote"" 'q'
packet As {
    @rightPad('0')
    stringy @lengthOf(calculatedFrom),
    @tag(10)
    string uint8x `
    `,
    match body as uint8x {
        ""it's"" : rootA,
        [00] : leftPad,
        42 : MetaDataX,
        ""a	b"" : calculatedFrom,
        255 : trueish,
    },
    repeat i64 Logon `tab	here`,
}

options {
    crc = '\x00';
}

packet x {
    @calculatedFrom(""a\\"")
    @tag(42)
    @leftPad('0')
    match o as x_y_z {
        // packet A { u8 x, }
        [
            """ ++ [128512]%N ++ runes_of_ascii """, ""x y"", 0123456789, ""CRC32"", ""it's"",
            007, 3, 007
        ] : Packet,
        // c
        [255, ""x y""] : x_y_z,
    },
}
// trailing space ")).
Eval vm_compute in ("<<<M1712>>>" ++ check (runes_of_ascii "// a // b
packet stringy {
    @tag(3)
    // trailing space 
    i64 len,
    @calculatedFrom(""1"")
    char[0] x @lengthOf(Foo),
    @calculatedFrom("""")
    body @lengthOf(calculatedFrom) `line1
        line2`,
    @calculatedFrom(""it's"")
    // packet A { u8 x, }
    match falsey as u8x {
        [""" ++ [128512]%N ++ runes_of_ascii """, 42, 1, 10] : Header,
    },
    // trailing space 
    // `tick` ""quote"" 'q'
}

MetaData stringy {
    f32a u128 `{ , }`,
    char[10] u128,
    chars _x,
    zchar[65535] falsey `{ , }`,
    _x i64_,
    int32 Packet `crlf
        line`,
}

MetaData lengthOf {
}
// trailing space ")).
Eval vm_compute in ("<<<M64>>>" ++ check (runes_of_ascii "
MetaData //	t
body { T
    calculatedFrom, string f32a `line1
line2`, leftPad BodyLength
`tab	here` ,
}options {
}
MetaData
    options1	{
char[ 3 ] MetaDataX
// " ++ [128512]%N ++ runes_of_ascii " emoji
/// triple
`" ++ [28040; 24687; 31867; 22411]%N ++ runes_of_ascii "` ,  BodyLength x	`
`,u16 tag	`say ""hi""`, u8
float ,float32 As `
`
    ,
    i8i8 Z9_ `
`, } packet u { @tag( 42
) options1 // c
o `crlf
line` ,@calculatedFrom( ""`tick`""
// packet A { u8 x, }
// a // b
) repeat
    char[]	a1
    //x
    ,	} options
    { uint8x=
true
    A
= // `tick` ""quote"" 'q'
7 ; // packet A { u8 x, }
len=	""" ++ [128512]%N ++ runes_of_ascii """
    }")).
Eval vm_compute in ("<<<M340>>>" ++ check (runes_of_ascii "packet leftPad//
{@rightPad () repeat chars	{crc /// triple
pack  ,
} ,
@calculatedFrom( """ ++ [28040; 24687]%N ++ runes_of_ascii """ )@lengthOf(options1  )@tag( 65535 ) Foo,match
matchKey
    as // " ++ [128512]%N ++ runes_of_ascii " emoji
tag	{
    // c
    [ ""{,}"",
""""
, ""`tick`"" ,
3 ,""it's"",  """ ++ [128512]%N ++ runes_of_ascii """	,
""it's""] :As
    , [
/// triple
//	t
""x y""]
    //x
    :
chars,""" ++ [233]%N ++ runes_of_ascii "t" ++ [233]%N ++ runes_of_ascii """	:uint8x,4294967296:	packetx
""// no comment""
:
calculatedFrom , }
,  @calculatedFrom( ""// no comment""// @lengthOf(
)
char[// trailing space 
007 ]	f32a ,} // a // b")).
Eval vm_compute in ("<<<M1863>>>" ++ check (runes_of_ascii "

  // top
  packet	// c0
  	B // c1
  {	// c2
u8	// c3
    	a  ,  // c5a
  	// c5b
	}	// c6

root	// c7

packet	P// c9a
    	// c9b
  { // c10a
// c10b
  u8 // c11
    K 
,	// c13a
  // c13b

match  K  // c15a
// c15b
      as// c16a
	  // c16b

  Body {	// c18
1

    :
	// c20

  B
	,  } 
// c23
    	,  // c24a
  // c24b
	u16 // c25a
  // c25b

L 	 // c26

@lengthOf(

    Body
	    // c28

) 
  // c29

  , 
    // c30
  } ")).
Eval vm_compute in ("<<<M101>>>" ++ check (runes_of_ascii "MetaData T {  a1 Packet,// " ++ [128512]%N ++ runes_of_ascii " emoji
uint8x
// @lengthOf(
//x
Pad `" ++ [233]%N ++ runes_of_ascii "` , a1
    // " ++ [27880; 37322]%N ++ runes_of_ascii "
    MetaDataX ,	zchar[00]metadata`u8 x,` ,Pad// trailing space 
x `
` ,
    i8
u8x ,
}  options { As =
    false;}root packet options1 { @calculatedFrom( ""// no comment"" ) @lengthOf( _x	)
    @tag(007 ) repeat
// trailing space 
// @lengthOf(
f32 i8i8
    `" ++ [233]%N ++ runes_of_ascii "` ,
    @rightPad	( ' '// " ++ [27880; 37322]%N ++ runes_of_ascii "
) repeat Pad , }
")).
Eval vm_compute in ("<<<M236>>>" ++ check (runes_of_ascii "packet metadata{ //	t
float64	body
    @lengthOf( calculatedFrom ) , // a // b
@tag(42
    ) rootA ,
    x_y_z u8x`// not a comment`
    ,  @lengthOf(Pad)  match // " ++ [27880; 37322]%N ++ runes_of_ascii "
packetx  as leftPad
    {
    //
    65535 : tag ,
""" ++ [128512]%N ++ runes_of_ascii """ :_x} , x_y_z  metadata , @tag(7 )int64 zchar @lengthOf(
repeatCount ) `" ++ [233]%N ++ runes_of_ascii "`,@tag( 0123456789 ) repeat float chars ,	f32  MetaDataX
,}")).
Eval vm_compute in ("<<<M1529>>>" ++ check (runes_of_ascii "packet a1 {
    @leftPad()
    float @lengthOf(uint8x),
}

packet Logon {
    char Logon @calculatedFrom(""a\\""),
    T stringy,
    //
    // c
    repeat uint8 stringy `two words`,
}

MetaData charz {
    u tag `
        `,
    a1 falsey,//x
    Z9_ matchKey,
    f64 lengthOf `a\`,
    f32a roots ``,
    float64 x_y_z,
}")).
Eval vm_compute in ("<<<M32>>>" ++ check (runes_of_ascii "packet int { T/// triple
{ repeat _x ,	} ,
    i64_ _x
    `
`, @calculatedFrom( ""x y"" )u32 A
,  match a1 as
    i8i8 { [ ""1""
,
4294967296
]:
    a1 ,"""":	a1
    , 007: a1 , [ ""CRC32"" ] :Header} , int64 As, int8 a1 , //
char[] float
`tab	here`/// triple
,
repeat zchar[ 1	]u8x,
} /// triple")).
Eval vm_compute in ("<<<M177>>>" ++ check (runes_of_ascii "root
packet Logon {
    @rightPad
(// @lengthOf(
'0' ) repeat
    charz // " ++ [27880; 37322]%N ++ runes_of_ascii "
{// " ++ [128512]%N ++ runes_of_ascii " emoji
Z9_ `{ , }` , string string_ `say ""hi""` , repeat int8  rootA ,	match Foo	as
pack {
[ 42
// c
/// triple
, 0 ] :u, ""a\""b"" : int
,
}
// c
// `tick` ""quote"" 'q'
,
} , }")).
Eval vm_compute in ("<<<M183>>>" ++ check (runes_of_ascii "root
packet tag {
@calculatedFrom(
""{,}""
    // `tick` ""quote"" 'q'
    )
@tag(
//x
// " ++ [27880; 37322]%N ++ runes_of_ascii "
42
    )
    i64_ @lengthOf( calculatedFrom ) , zchar[// " ++ [128512]%N ++ runes_of_ascii " emoji
3 // @lengthOf(
] int  , } root// c
packet Foo { }
// @lengthOf(
")).
Eval vm_compute in ("<<<M1616>>>" ++ check (runes_of_ascii "options {
    FixedStringPadChar = '0';
}

packet Q {
    zchar[4] z,
    @rightPad('\x00')
    char[3] n,
    char[5] d,
}

root packet R {
    Q,
    zchar[8] top,
    repeat zchar[2] zs,
}")).
Eval vm_compute in ("<<<M1281>>>" ++ check (runes_of_ascii "// top
root // c0a
  // c0b
packet P {
    // c3
u16
    // c4
a
    // c5
,
    // c6
u32 // c7a
  // c7b
Sum // c8
@calculatedFrom( // c9a
  // c9b
""CRC32"" ) , } // c13
")).
Eval vm_compute in ("<<<M355>>>" ++ check (runes_of_ascii "options  { As = true
    MetaDataX =true	}	packet A { repeat calculatedFrom `say ""hi""`
    ,} MetaData crc { u crc ,
    uint32 body , i16 stringy
`u8 x,`
, }
")).
Eval vm_compute in ("<<<M508>>>" ++ check (runes_of_ascii "packet uint8x
{ match pack
    as msg_type	{
    0123456789 :	float
}
,
} packet //	t
a1
    { } options {packetx
    = '\x00'	int16 u128= ""a	b""  ; }
")).
Eval vm_compute in ("<<<M544>>>" ++ check (runes_of_ascii "packet uint8x
{ match pack
    as msg_type	{
    0123456789 :	float
}
,
} packet //	t
a1
    { } options {packetx
    = " ++ [65279]%N ++ runes_of_ascii " '\x00'	; u128= ""a	b""  ; }
")).
Eval vm_compute in ("<<<M447>>>" ++ check (runes_of_ascii "packet uint8x
{ match pack
    as msg_type	{
    0123456789 :	float
,
}
} packet //	t
a1
    { } options {packetx
    = '\x00'	; u128= ""a	b""  ; }
")).
Eval vm_compute in ("<<<M485>>>" ++ check (runes_of_ascii "packet uint8x
{ match pack
    as msg_type	{
    0123456789 :	float
}
,
} packet //	t
a1
    { } options packetx
    = '\x00'	; u128= ""a	b""  ; }
")).
Eval vm_compute in ("<<<M667>>>" ++ check (runes_of_ascii "// @lengthOf(
packet i8i8 { u128 o char }
options { MetaDataX = true;
    BodyLength =""packet"" x_y_z= 007
crc //x
= ""abc"" ;
    msg_type =
i16 }")).
Eval vm_compute in ("<<<M1424>>>" ++ check (runes_of_ascii "  packet B {
u8
	a , }

    root  packet P
{
    u8
K

,
u64 L

    @lengthOf(
Body) 
,  match K as

    Body 
{  1 
:B
,
    }	,
    } ")).
Eval vm_compute in ("<<<M1434>>>" ++ check (runes_of_ascii "packet A {
    u16 len @lengthOf(body) `a
        
        b`,
    u32 crc @calculatedFrom(""CRC32"") `a
        
        b`,
    string body,
}")).
Eval vm_compute in ("<<<M1829>>>" ++ check (runes_of_ascii "
packet  A
{match
	k as
	n
{[	1	, 22
    ,  ""c c""  ,
4 ,

5
    , ""f"" 
, 7
, 
8 ,
""i"" ,
10 ,11
,
    ""l""

] :B
	, 
2

: C
}
, 
} ")).
Eval vm_compute in ("<<<M304>>>" ++ check (runes_of_ascii "packet
    // " ++ [27880; 37322]%N ++ runes_of_ascii "
    Logon {
repeatCount @lengthOf( roots ) , @tag(0) repeat zchar[007] crc , rootA a1 `{ , }` , string_ `" ++ [233]%N ++ runes_of_ascii "`
,  }
")).
Eval vm_compute in ("<<<M1720>>>" ++ check (runes_of_ascii "
packet	A	{

    match
k as
n 
{[	""a"" ,22

    ,

""c c"" 
,
4 ,
""e""

,
66
,  ""g""  , 8  ,""i"" 
] 
: B 2	:C
    }
	,}
")).
Eval vm_compute in ("<<<M1156>>>" ++ check (runes_of_ascii "MetaData leftPad { chars MetaDataX , }
// c
packet repeatCount { char[ 255 ] uint8x `" ++ [233]%N ++ runes_of_ascii "` , } MetaData pack { As Foo , }")).
Eval vm_compute in ("<<<M1188>>>" ++ check (runes_of_ascii "MetaData leftPad { chars MetaDataX , } packet repeatCount { char[ 255 ] uint8x `" ++ [233]%N ++ runes_of_ascii "` , } MetaData pack { As Foo ,
// c
}")).
Eval vm_compute in ("<<<M925>>>" ++ check (runes_of_ascii "packet A {
    u16 len @lengthOf(body) `a
b`,
    u32 crc @calculatedFrom(""CRC32"") `a
b`,
    string body,
}")).
Eval vm_compute in ("<<<M1788>>>" ++ check (runes_of_ascii "
packet
FooBar{ 
u8
a ,}
	packet

foo_bar
    { 
u16

b

,}
root

packet  R { FooBar

, foo_bar  ,  }
")).
Eval vm_compute in ("<<<M1406>>>" ++ check (runes_of_ascii "// top
packet body {
    // c2
    i32 f32a `{ , }`,
    // c6
}

// c7
options {
    // c9
}
// c10")).
Eval vm_compute in ("<<<M1267>>>" ++ check (runes_of_ascii "packet B {
    u8 a,
    string s,
}
root packet P {
    u16 L @lengthOf(B),
    B,
    u8 t,
}
")).
Eval vm_compute in ("<<<M635>>>" ++ check (runes_of_ascii "
packet
    asx {'1'match u128 as lengthOf
{
//	t
// `tick` ""quote"" 'q'
255 : x ,
    } ,	}")).
Eval vm_compute in ("<<<M388>>>" ++ check (runes_of_ascii "root packet SimpleMessage {
    uint16 MsgType `" ++ [28040; 24687; 31867; 22411]%N ++ runes_of_ascii "`,
    string JsonBody `Json" ++ [23383; 31526; 20018; 28040; 24687; 20307]%N ++ runes_of_ascii "`,
}")).
Eval vm_compute in ("<<<M878>>>" ++ check (runes_of_ascii "packet A {
  match k as n {
    [1, 22, 007, 4, 5, 66, 7, 8, 9, 10] : B,
    2 : C
  },
}")).
Eval vm_compute in ("<<<M771>>>" ++ check (runes_of_ascii "true @tag( root : repeat @calculatedFrom( match f64 int32 ] { zchar[ packet @lengthOf(")).
Eval vm_compute in ("<<<M1442>>>" ++ check (runes_of_ascii "packet A {
    match k as n {
        [""a"", 22, ""c c""] : B,
        2 : C,
    },
}")).
Eval vm_compute in ("<<<M972>>>" ++ check (runes_of_ascii "packet A {
    u32 crc @calculatedFrom(""\
""),
    @calculatedFrom(""\
"") u8 y,
}")).
Eval vm_compute in ("<<<M818>>>" ++ check (runes_of_ascii "packet A {
  match k as n {
    [1, ""bb"", 007, ""d"", 5] : B
    2 : C
  },
}")).
Eval vm_compute in ("<<<M814>>>" ++ check (runes_of_ascii "packet A {
  match k as n {
    [1, 22, 007, 4, 5] : B
    2 : C
  },
}")).
Eval vm_compute in ("<<<M1290>>>" ++ check (runes_of_ascii "root packet P {
    u8 s_u8,
    repeat u8 r_u8,
    u16 b_len,
}
")).
Eval vm_compute in ("<<<M189>>>" ++ check (runes_of_ascii "
packet
i64_ { @tag( 0123456789 ) repeat u16 stringy
,
    }")).
Eval vm_compute in ("<<<M1088>>>" ++ check (runes_of_ascii "packet A { @tag(1) // a
 @leftPad('0') // b
 char[4] x, }")).
Eval vm_compute in ("<<<M159>>>" ++ check (runes_of_ascii "root packet x  { roots @calculatedFrom(""a\""b"" ) , }")).
Eval vm_compute in ("<<<M333>>>" ++ check (runes_of_ascii "  MetaData
x_y_z{ }	packet chars	{	} options {}
")).
Eval vm_compute in ("<<<M957>>>" ++ check (runes_of_ascii "MetaData M {
    u8 x `
x`,
    T t `
x`,
}")).
Eval vm_compute in ("<<<M325>>>" ++ check (runes_of_ascii "packet charz { } // packet A { u8 x, }")).
Eval vm_compute in ("<<<M54>>>" ++ check (runes_of_ascii "options
{ T= '0' ;A= u8 ;
    } 	 ")).
Eval vm_compute in ("<<<M753>>>" ++ check (runes_of_ascii ":l" ++ [65533; 23]%N ++ runes_of_ascii "9" ++ [65533; 1549]%N ++ runes_of_ascii "F" ++ [65533; 65533; 65533; 65533]%N ++ runes_of_ascii "j)" ++ [65533; 65533; 27; 25; 65533; 65533; 261; 14; 65533]%N ++ runes_of_ascii "V" ++ [65533; 65533]%N ++ runes_of_ascii "4b-" ++ [65533; 65533]%N)).
Eval vm_compute in ("<<<M175>>>" ++ check (runes_of_ascii "
packet calculatedFrom { } 	 ")).
Eval vm_compute in ("<<<M713>>>" ++ check (runes_of_ascii "// @lengthOf(
packet i8i8")).
Eval vm_compute in ("<<<M1938>>>" ++ check (runes_of_ascii "
packet  A { }

// c" ++ [5760]%N ++ runes_of_ascii "
")).
Eval vm_compute in ("<<<M1061>>>" ++ check (runes_of_ascii "packet A {
}
// c x")).
Eval vm_compute in ("<<<M1012>>>" ++ check (runes_of_ascii "// c" ++ [8232]%N ++ runes_of_ascii "
packet A {
}")).
Eval vm_compute in ("<<<M984>>>" ++ check (runes_of_ascii "packet A {
}// c" ++ [160]%N)).
Eval vm_compute in ("<<<M378>>>" ++ check (runes_of_ascii "// @lengthOf(

")).
Eval vm_compute in ("<<<M29>>>" ++ check (runes_of_ascii "// " ++ [27880; 37322]%N ++ runes_of_ascii "

")).
Eval vm_compute in ("<<<M56>>>" ++ check (runes_of_ascii " 	 ")).
