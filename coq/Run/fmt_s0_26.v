From FP Require Import Lexer Parser ShowPT Digest Formatter.
From Coq Require Import String List NArith.
Import ListNotations.
Open Scope string_scope.
Set Printing Width 100000000.
Set Printing Depth 100000000.
Definition show_fres (r : fres) : string :=
  match r with
  | FOk s => "OK:" ++ sh_escaped s ""
  | FErr s => "ERR:" ++ sh_escaped s ""
  | FPanic p => "PANIC:" ++ p
  end.
Definition check (rs : list rune) : string := digest (show_fres (format_res rs)).
Definition full (rs : list rune) : string := show_fres (format_res rs).
Eval vm_compute in ("<<<M1688>>>" ++ check (runes_of_ascii "packet A {
    @rightPad('0')
    repeat i8i8 {
        zchar[007] packetx,
        metadata `" ++ [28040; 24687; 31867; 22411]%N ++ runes_of_ascii "`,
        repeat float64 T,
    },
    @tag(0)
    Z9_ {
        int @lengthOf(tag) `line1
        line2`,
        repeat i8i8 {
            zchar[00] stringy,
            repeat f32a {
                match i64_ as string_ {
                    [255, 0123456789, ""{,}""] : x_y_z,
                    """ ++ [233]%N ++ runes_of_ascii "t" ++ [233]%N ++ runes_of_ascii """ : A,
                    ""`tick`"" : len,
                },
            },
            //
            repeat u8x {
                u16 Z9_ @calculatedFrom(""" ++ [128512]%N ++ runes_of_ascii """) `line1
                line2`,
                f32 matchKey,
            },// " ++ [27880; 37322]%N ++ runes_of_ascii "
            float64 u8x `
            `,
        },//
    },// `tick` ""quote"" 'q'
    a1 {
        repeat zchar[007] Foo `two words`,
        f32a @calculatedFrom(""" ++ [28040; 24687]%N ++ runes_of_ascii """),
        int64 i64_ @calculatedFrom(""`tick`""),
    },
    @lengthOf(Header)
    f32 stringy @calculatedFrom(""x y"") `say ""hi""`,
    Foo,
    float64 BodyLength @calculatedFrom(""packet""),
    uint32 int,
}

packet string_ {
    @tag(4294967296)
    repeat u `two words`,
    repeat zchar[0] BodyLength,
    @tag(255)
    /// triple
    int `line1
    line2`,
    uint8x `it's`,
    @tag(65535)
    int8 metadata `" ++ [233]%N ++ runes_of_ascii "`,/// triple
    match options1 as float {
        3 : f32a,
        """ ++ [28040; 24687]%N ++ runes_of_ascii """ : charz,
    },
    match uint8x as string_ {
        ""CRC32"" : x,
    },
    uint8 packetx `crlf
    line`,
    @leftPad()
    zchar[0] Foo `say ""hi""`,
}")).
Eval vm_compute in ("<<<M143>>>" ++ check (runes_of_ascii "
packet  lengthOf
{  @tag( 65535
/// triple
//	t
)@tag( //	t
3 ) @tag( 0123456789) options1 @calculatedFrom(""abc""
    ) , @rightPad
( '0')falsey @lengthOf( a1  )
    ,
    @lengthOf(Pad
)body @calculatedFrom( // " ++ [128512]%N ++ runes_of_ascii " emoji
""packet"" ) // trailing space 
,
} packet int
{ string Foo @calculatedFrom(""CRC32"" ) ,}
root
// trailing space 
//	t
packet uint8x
    {}
root packet len { x_y_z
_x ,
    BodyLength rootA
/// triple
//
,
match f32a as Logon
    {[ ""a\""b"" ,
""" ++ [28040; 24687]%N ++ runes_of_ascii """
    ,
    """ ++ [128512]%N ++ runes_of_ascii """
,65535, 00 ,4294967296
    ,
"""" ,""abc"" ]
    : roots,[
    00 ] :
A ,  [
    65535
// a // b
// trailing space 
,
// trailing space 
// " ++ [128512]%N ++ runes_of_ascii " emoji
65535
, """" ]
// c
// packet A { u8 x, }
:
// " ++ [128512]%N ++ runes_of_ascii " emoji
// trailing space 
pack ,
    }
    // trailing space 
    ,repeat Pad `say ""hi""` ,
    /// triple
    a1 calculatedFrom
    ,
@lengthOf( stringy )char[] As @calculatedFrom( ""\" ++ [233]%N ++ runes_of_ascii """ )
, zchar[ 0123456789 ] Z9_
    @lengthOf( repeatCount ) // packet A { u8 x, }
`a\`
, repeat // `tick` ""quote"" 'q'
string lengthOf , //x
u8 falsey @calculatedFrom(
""a\\"" )  ,@calculatedFrom( ""it's"") string calculatedFrom @lengthOf( MetaDataX ) ,}")).
Eval vm_compute in ("<<<M1661>>>" ++ check (runes_of_ascii "options {
    FixedStringPadFromLeft = true;
    FixedStringPadChar = '0';
}

packet Leg {
    InPrice0 {
        repeat string clOrdID,
        int16 msgKind,
        zchar[5] Px,
    },
    i16 f1,
    repeat f64 Side2,
    string Acct,
}

packet Cancel {
    zchar[4] clOrdID,
    string seqNo,
    Leg,
    @leftPad('0')
    char[11] OrderId,
}

packet Quote {
    repeat char[4] sym,
    f64 OrderId,
    repeat Leg,
    repeat i64 f1,
    int16 Note,
    zchar[3] count,
}

root packet Ack {
    @leftPad(' ')
    char[10] sym,
    InPx60 {
        Cancel,
        repeat char[1] f1,
        string Tail,
        repeat InNote55 {
            int8 count,
            f64 f1,
            repeat Cancel,
        },
        char[] tag7,
        repeat string msgKind,
    },
    u8 lastPx,
    match lastPx as Body {
        152 : Quote,
        173 : Cancel,
        4 : Leg,
    },
    u16 Ref @calculatedFrom(""CRC32""),
}")).
Eval vm_compute in ("<<<M1551>>>" ++ check (runes_of_ascii "options {
    FixedStringPadFromLeft = true;
    FixedStringPadChar = '0';
}

packet Leg {
    repeat InSym93 {
        zchar[3] Acct,
        string Side2,
        i32 Flags,
        f32 Note,
        i32 msgKind,
    },
    f64 Note,
    uint16 Px,
}

packet Quote {
    zchar[2] OrderId,
}

packet Ack {
    repeat string lastPx,
    zchar[4] price,
    uint32 OrderId,
    Quote,
    int8 Acct,
}

packet Fill {
    repeat Leg,
    @rightPad('0')
    char[11] Note,
    f64 Px,
    @rightPad('\x00')
    char[5] Flags,
    zchar[9] x,
    string msgKind,
}

root packet Order {
    Leg,
    repeat Ack,
    @rightPad('\x00')
    char[3] Side2,
    repeat char[1] seqNo,
    u16 clOrdID,
    match clOrdID as Body {
        198 : Leg,
        23 : Quote,
        13 : Ack,
        159 : Fill,
    },
    u32 venue @calculatedFrom(""CR\
    C32""),
}")).
Eval vm_compute in ("<<<M1849>>>" ++ check (runes_of_ascii "options {
    StringPrefixLenType = u16;
    ArrayPrefixLenType = u32;
    FixedStringPadFromLeft = true;
    FixedStringPadChar = '0';
}

packet Cancel {
}

packet Party {
}

packet Logon {
}

packet Ack {
}

packet Logout {
    repeat InSym87 {
        InClordid94 {
            string clOrdID,
        },
        string Px,
        i16 Qty,
        repeat InCount71 {
            repeat Cancel,
            uint16 Tail,
            char[2] x,
            repeat string Ref,
        },
        Cancel,
    },
}

root packet Order {
    repeat string tag7,
    @leftPad(' ')
    char[3] Px,
    u8 Qty,
    match Qty as Body {
        [28, 62] : Logon,
        148 : Ack,
        88 : Party,
        184 : Cancel,
    },
    u16 Note @calculatedFrom(""CR\
        C32""),
}")).
Eval vm_compute in ("<<<M192>>>" ++ check (runes_of_ascii "// trailing space 
options { f32a=
false;	stringy=	true
;
u=  ""\" ++ [233]%N ++ runes_of_ascii """  ;
    stringy = false;
} packet options1 // " ++ [27880; 37322]%N ++ runes_of_ascii "
{
} MetaData
packetx { f32 uint8x  ,  } root packet zchar {
@tag( 4294967296
) @lengthOf(a1
)
i8
_x
`it's` ,//x
char[]	o , body
    ,
zchar[ 65535] msg_type
`crlf
line` , repeat
    BodyLength{ repeat char[ 65535
    ] stringy,
},
@calculatedFrom( """ ++ [128512]%N ++ runes_of_ascii """
) @tag( 10
    // a // b
    ) repeat f32
lengthOf`line1
line2` , repeat  u {
    uint32 Z9_, //
repeat body
`
` , }  , @tag( 4294967296
) i64_ @lengthOf( tag
    // packet A { u8 x, }
    ), @lengthOf(//	t
float) @lengthOf(
    // " ++ [128512]%N ++ runes_of_ascii " emoji
    packetx	) @calculatedFrom( """ ++ [128512]%N ++ runes_of_ascii """
)	repeat x_y_z u  ,@tag( 65535 )u8
A	,} //")).
Eval vm_compute in ("<<<M164>>>" ++ check (runes_of_ascii "//x
packet x { @lengthOf(
string_ )
// `tick` ""quote"" 'q'
// trailing space 
msg_type{
int // a // b
@lengthOf( chars
    )
//x
// " ++ [27880; 37322]%N ++ runes_of_ascii "
`" ++ [28040; 24687; 31867; 22411]%N ++ runes_of_ascii "` , int`a\`  , }
    ,uint32 chars  @calculatedFrom(
""`tick`""
    )
    `
` , @lengthOf( packetx // trailing space 
)
match
    metadata as x_y_z
{ 65535	: x ,007
// `tick` ""quote"" 'q'
// " ++ [128512]%N ++ runes_of_ascii " emoji
: u [ 7 ,
""// no comment""	,  """ ++ [28040; 24687]%N ++ runes_of_ascii """] :x ""a\\""
: MetaDataX,0123456789 : lengthOf
10 :
//
// `tick` ""quote"" 'q'
float  }
    ,
    u16 Logon@calculatedFrom(""x y"") `tab	here`
//	t
//
,@lengthOf(Foo ) zchar /// triple
, }  packet
    tag { } root packet
x_y_z{ } MetaData int {
    string
A `" ++ [233]%N ++ runes_of_ascii "` ,
}
")).
Eval vm_compute in ("<<<M1863>>>" ++ check (runes_of_ascii "packet pack {
    u8 a1 `say ""hi""`,
    @leftPad('\x00')
    uint8 Logon `
        `,
    char[] lengthOf `" ++ [233]%N ++ runes_of_ascii "`,
    //
    //x
    repeat char[] As,
    @lengthOf(string_)
    @calculatedFrom(""a\\"")
    repeat u8x o,
    char string_ @calculatedFrom(""a\""b"") `tab	here`,
    repeat As {
        char[0] i64_ @lengthOf(T) `" ++ [233]%N ++ runes_of_ascii "`,
        char[4294967296] T @calculatedFrom(""\" ++ [233]%N ++ runes_of_ascii """),
        trueish,
        repeat int {
            string Logon @calculatedFrom(""1""),
            metadata,
            uint32 Z9_,// " ++ [27880; 37322]%N ++ runes_of_ascii "
        },
    },
    @tag(00)
    //	t
    i16 a1 `a\`,
}")).
Eval vm_compute in ("<<<M163>>>" ++ check (runes_of_ascii "options { As = // trailing space 
zchar[ 4294967296] ; } //	t
packet len // packet A { u8 x, }
{ @lengthOf(
_x) match
    // c
    lengthOf
    as
//
// `tick` ""quote"" 'q'
string_// c
{
    [ 4294967296 ]: i64_ ""a	b"": o
,
}
, leftPad
    @calculatedFrom( ""`tick`""	)
// trailing space 
// `tick` ""quote"" 'q'
,@leftPad( '\x00' ) repeat charz /// triple
msg_type
,
repeat i8
Foo , }packet msg_type {
//x
// @lengthOf(
@leftPad (
'0'
)
u64 repeatCount @calculatedFrom(
""" ++ [28040; 24687]%N ++ runes_of_ascii """) ,// packet A { u8 x, }
}
")).
Eval vm_compute in ("<<<M253>>>" ++ check (runes_of_ascii "packet
u	{ @lengthOf( //
zchar )match Header as len  {
    42// trailing space 
:
    x_y_z ,
    // " ++ [27880; 37322]%N ++ runes_of_ascii "
    },rootA	`
`	,	match u8x as pack {[ 1 , """" ]
    : float , ""abc""  :
string_ ,42 :
    i64_/// triple
,
1:zchar
// trailing space 
// " ++ [128512]%N ++ runes_of_ascii " emoji
} ,char[ 3 ] int ,
match options1 as u128 { [ ""`tick`"" ] : u
// packet A { u8 x, }
/// triple
, } ,	}
options {	len	= //	t
i8 // " ++ [27880; 37322]%N ++ runes_of_ascii "
; zchar = true; } packet T{char[ 42 ] asx@calculatedFrom(""CRC32"" ) , }
")).
Eval vm_compute in ("<<<M1467>>>" ++ check (runes_of_ascii "root packet Packet {
    string o @calculatedFrom(""\" ++ [233]%N ++ runes_of_ascii """),
    @lengthOf(Packet)
    body @calculatedFrom(""x y"") `it's`,
    float64 As @calculatedFrom(""`tick`""),
    char[] stringy @calculatedFrom(""" ++ [28040; 24687]%N ++ runes_of_ascii """) `doc`,
    @calculatedFrom(""a	b"")
    match float as o {
        [007, """ ++ [128512]%N ++ runes_of_ascii """] : metadata,
    },
    f32a a1 `a\`,
}

MetaData repeatCount {
    packetx i64_ `" ++ [28040; 24687; 31867; 22411]%N ++ runes_of_ascii "`,
    zchar[3] tag,
    i8i8 int,
}")).
Eval vm_compute in ("<<<M106>>>" ++ check (runes_of_ascii "MetaData Pad
    {
    i16 repeatCount , // c
f32 pack `a\`,} packet//
f32a {@lengthOf( metadata // a // b
)match msg_type as matchKey
    {
00: rootA ,  }, @rightPad ( ) match repeatCount as len {
    [/// triple
""x y""
// c
//
,
10] : As , 42: i64_""" ++ [128512]%N ++ runes_of_ascii """	: BodyLength
, 7
: f32a  ,
    }
    ,	@lengthOf( BodyLength )	repeat Foo `line1
line2` , } // @lengthOf(")).
Eval vm_compute in ("<<<M1369>>>" ++ check (runes_of_ascii "
options { LittleEndian= 
true  ;  }
    packet 
Logon

{

u8
x
,

    }packet

    Logout 
{ u16	reason,} root  packet

Frame
{ u16 Kind  ,  u16
Kind2 ,  match
Kind as  Body
    {
    1 :

Logon  ,
    [	2 ,
	3 ,	4]
    :

Logout
, 100
:Logon ,},
    match	Kind2

    as	Trailer{
	0 
:
	Logout 
,  }
    ,	}")).
Eval vm_compute in ("<<<M262>>>" ++ check (runes_of_ascii "  packet  Logon
    { o Header ,	Header
, @lengthOf(
u )	char[ 255 ] tag `tab	here`, char[]falsey ,
    @lengthOf(	zchar )
    @rightPad (
) float roots// @lengthOf(
,
@calculatedFrom(	""// no comment"") i64
u8x,
} options { metadata = '0' ;_x = 4294967296 ; Packet
    =
    '0'
;
    }

")).
Eval vm_compute in ("<<<M177>>>" ++ check (runes_of_ascii "root
packet Logon {
    @rightPad
(// @lengthOf(
'0' ) repeat
    charz // " ++ [27880; 37322]%N ++ runes_of_ascii "
{// " ++ [128512]%N ++ runes_of_ascii " emoji
Z9_ `{ , }` , string string_ `say ""hi""` , repeat int8  rootA ,	match Foo	as
pack {
[ 42
// c
/// triple
, 0 ] :u, ""a\""b"" : int
,
}
// c
// `tick` ""quote"" 'q'
,
} , }")).
Eval vm_compute in ("<<<M1838>>>" ++ check (runes_of_ascii "root packet string_ {
    @leftPad(' ')
    chars {
        repeat zchar[0] tag,
        string falsey,// " ++ [128512]%N ++ runes_of_ascii " emoji
        repeat char[007] body `two words`,
    },
    @calculatedFrom(""// no comment"")
    Foo T,// " ++ [128512]%N ++ runes_of_ascii " emoji
}")).
Eval vm_compute in ("<<<M1422>>>" ++ check (runes_of_ascii "options {
    FixedStringPadChar = '0';
}

packet Q {
    zchar[4] z,
    @rightPad('\x00')
    char[3] n,
    char[5] d,
}

root packet R {
    Q,
    zchar[8] top,
    repeat zchar[2] zs,
}")).
Eval vm_compute in ("<<<M191>>>" ++ check (runes_of_ascii "options
{ Logon
=char[	00
]
;
zchar
    = false Logon =	i8
    ;}options { asx = '0' int = ""\" ++ [233]%N ++ runes_of_ascii """  calculatedFrom= '\x00'// packet A { u8 x, }
; // `tick` ""quote"" 'q'
}
")).
Eval vm_compute in ("<<<M250>>>" ++ check (runes_of_ascii "MetaData // a // b
o {string Foo
    , }
MetaData  msg_type { Header len `" ++ [28040; 24687; 31867; 22411]%N ++ runes_of_ascii "`
,
    }
options
{ tag
= '0' ;
    o=
""CRC32"" ; Logon = ""`tick`"" ;// a // b
}")).
Eval vm_compute in ("<<<M416>>>" ++ check (runes_of_ascii "packet uint8x
{ match pack
    as as msg_type	{
    0123456789 :	float
}
,
} packet //	t
a1
    { } options {packetx
    = '\x00'	; u128= ""a	b""  ; }
")).
Eval vm_compute in ("<<<M701>>>" ++ check (runes_of_ascii "// @lengthOf(
packet i8i8 { u128 o , }
options { MetaDataX = true;
    BodyLength =""packet"" ""packet"" x_y_z= 007
crc //x
= ""abc"" ;
    msg_type =
i16 }")).
Eval vm_compute in ("<<<M457>>>" ++ check (runes_of_ascii "packet uint8x
{ match pack
    as msg_type	{
    0123456789 :	float
}
,
packet } //	t
a1
    { } options {packetx
    = '\x00'	; u128= ""a	b""  ; }
")).
Eval vm_compute in ("<<<M495>>>" ++ check (runes_of_ascii "packet uint8x
{ match pack
    as msg_type	{
    0123456789 :	float
}
,
} packet //	t
a1
    { } options {packetx
     '\x00'	; u128= ""a	b""  ; }
")).
Eval vm_compute in ("<<<M1432>>>" ++ check (runes_of_ascii "  packet A{

    match
	k
    as

n 
{ [ 1 ,

    22

, 
""c c""

,
4  ,	5
    ,
    ""f""	,  7 
,8,	""i"" ,

10
,
11

] 
:B ,
	2 : 
C  }
,
	}

")).
Eval vm_compute in ("<<<M1759>>>" ++ check (runes_of_ascii "
packet
A
{match k

    as

    n
    {	[""a""

,""bb"",
    007 , ""d""

,

""e""

,

    66	,

    ""g"",	""h"" ,
    9 ]
    :B

2
: C}
, }

")).
Eval vm_compute in ("<<<M688>>>" ++ check (runes_of_ascii "// @lengthOf(
packet i8i8 { u128 o , }
options { MetaDataX = true;
    BodyLength =""packet"" x_y_z= 007
crc //x
= ""abc"" ;
    msg_type =
i16")).
Eval vm_compute in ("<<<M1410>>>" ++ check (runes_of_ascii "packet
	A 
{
    match
	k
	as
n
{
[
	""a"" ,  ""bb"",

""c c""	,	""d""

,

    ""e""
    ,
""f""  ,
""g""
    ]:

    B

, 
2
    :
C }
,
	}
")).
Eval vm_compute in ("<<<M1412>>>" ++ check (runes_of_ascii "

  packet 
A
{
    u16	len@lengthOf( body 
)	`a
b`
,
	u32
    crc
	@calculatedFrom(
    ""CRC32"" 
)	`a
b` ,  string  body , }")).
Eval vm_compute in ("<<<M970>>>" ++ check (runes_of_ascii "packet A {
    match k as n {
        ""x\
y"" : B,
        [""x\
y"", 1] : C,
        [1,2,3,4,5,""x\
y""] : D,
    },
}")).
Eval vm_compute in ("<<<M1173>>>" ++ check (runes_of_ascii "MetaData leftPad { chars MetaDataX , } packet repeatCount { char[ 255 ] uint8x `" ++ [233]%N ++ runes_of_ascii "` , // c
} MetaData pack { As Foo , }")).
Eval vm_compute in ("<<<M1420>>>" ++ check (runes_of_ascii "MetaData Packet {
    u lengthOf `say ""hi""`,
}

MetaData metadata {
    crc chars `crlf
    line`,
    asx f32a,
}")).
Eval vm_compute in ("<<<M880>>>" ++ check (runes_of_ascii "packet A {
  match k as n {
    [""a"", ""bb"", ""c c"", ""d"", ""e"", ""f"", ""g"", ""h"", ""i"", ""j""] : B,
    2 : C
  },
}")).
Eval vm_compute in ("<<<M944>>>" ++ check (runes_of_ascii "packet A {
    Inner {
        u8 x `a

b`,
        Deep {
            u8 y `a

b`,
        },
    },
}")).
Eval vm_compute in ("<<<M373>>>" ++ check (runes_of_ascii "  MetaData leftPad { /// triple
char[] body,  As options1
//
/// triple
,
o
    //x
    i64_
, }
")).
Eval vm_compute in ("<<<M610>>>" ++ check (runes_of_ascii "
packet
    asx {match u128 as lengthOf
{
//	t
// `tick` ""quote"" 'q'
255 : x repeat
    } ,	}")).
Eval vm_compute in ("<<<M585>>>" ++ check (runes_of_ascii "
packet
    asx {match u128 as @lengthOf(
{
//	t
// `tick` ""quote"" 'q'
255 : x ,
    } ,	}")).
Eval vm_compute in ("<<<M569>>>" ++ check (runes_of_ascii "
packet
    asx {u128 match as lengthOf
{
//	t
// `tick` ""quote"" 'q'
255 : x ,
    } ,	}")).
Eval vm_compute in ("<<<M1901>>>" ++ check (runes_of_ascii "
packet

A  {
B b`a
b`
	,

    B  `a
b`, repeat

    B

    bs
	`a
b`

    ,
	}")).
Eval vm_compute in ("<<<M556>>>" ++ check (runes_of_ascii "
,
    asx {match u128 as lengthOf
{
//	t
// `tick` ""quote"" 'q'
255 : x ,
    } ,	}")).
Eval vm_compute in ("<<<M848>>>" ++ check (runes_of_ascii "packet A {
  match k as n {
    [1, 22, ""c c"", 4, 5, ""f"", 7] : B
    2 : C
  },
}")).
Eval vm_compute in ("<<<M1666>>>" ++ check (runes_of_ascii "options {
    o = '\x00';
    T = u32;
    msg_type = ""a	b""
    a1 = '\x00'
}")).
Eval vm_compute in ("<<<M806>>>" ++ check (runes_of_ascii "packet A {
  match k as n {
    [""a"", 22, ""c c"", 4] : B,
    2 : C
  },
}")).
Eval vm_compute in ("<<<M794>>>" ++ check (runes_of_ascii "packet A {
  match k as n {
    [""a"", 22, ""c c""] : B
    2 : C
  },
}")).
Eval vm_compute in ("<<<M1680>>>" ++ check (runes_of_ascii "packet o {
}

packet Pad {
    BodyLength,
}

packet metadata {
}")).
Eval vm_compute in ("<<<M261>>>" ++ check (runes_of_ascii "options{ asx= ""1"" //	t
Pad =  0 stringy =
    '\x00'
    ; }")).
Eval vm_compute in ("<<<M760>>>" ++ check (runes_of_ascii "MetaData @rightPad 3 i32 int32 ; int8 body ""a	b"" `" ++ [28040; 24687; 31867; 22411]%N ++ runes_of_ascii "`")).
Eval vm_compute in ("<<<M1207>>>" ++ check (runes_of_ascii "packet body { i32 f32a // c
`{ , }` , } options { }")).
Eval vm_compute in ("<<<M945>>>" ++ check (runes_of_ascii "MetaData M {
    u8 x `a

b`,
    T t `a

b`,
}")).
Eval vm_compute in ("<<<M1917>>>" ++ check (runes_of_ascii "packet

    A
{u8
x`d" ++ [6158]%N ++ runes_of_ascii "` , 	 // c" ++ [6158]%N ++ runes_of_ascii "
	}

")).
Eval vm_compute in ("<<<M1801>>>" ++ check (runes_of_ascii "  root
	packet
    A
{ 
u8 x	`
x`  ,}")).
Eval vm_compute in ("<<<M1043>>>" ++ check (runes_of_ascii "packet A {
 u8 x `d 	`, // c 	
}")).
Eval vm_compute in ("<<<M1028>>>" ++ check (runes_of_ascii "packet A {
 u8 x `d" ++ [8287]%N ++ runes_of_ascii "`, // c" ++ [8287]%N ++ runes_of_ascii "
}")).
Eval vm_compute in ("<<<M217>>>" ++ check (runes_of_ascii "root	packet falsey
{
}
")).
Eval vm_compute in ("<<<M1718>>>" ++ check (runes_of_ascii "// c

MetaData
	u{
}
")).
Eval vm_compute in ("<<<M22>>>" ++ check (runes_of_ascii "packet leftPad {
}")).
Eval vm_compute in ("<<<M1001>>>" ++ check (runes_of_ascii "packet A {
}
// c" ++ [8192]%N)).
Eval vm_compute in ("<<<M172>>>" ++ check (runes_of_ascii "packet
len { }

")).
Eval vm_compute in ("<<<M409>>>" ++ check (runes_of_ascii "packet uint8x
{")).
Eval vm_compute in ("<<<M1577>>>" ++ check (runes_of_ascii "options {
}")).
Eval vm_compute in ("<<<M1529>>>" ++ check (runes_of_ascii "// " ++ [27880; 37322]%N)).
