From FP Require Import Lexer Parser ShowPT Digest Formatter.
From Coq Require Import String List NArith.
Import ListNotations.
Open Scope string_scope.
Set Printing Width 100000000.
Set Printing Depth 100000000.
Definition show_fres (r : fres) : string :=
  match r with
  | FOk s => "OK:" ++ sh_escaped s ""
  | FErr s => "ERR:" ++ sh_escaped s ""
  | FPanic p => "PANIC:" ++ p
  end.
Definition check (rs : list rune) : string := digest (show_fres (format_res rs)).
Definition full (rs : list rune) : string := show_fres (format_res rs).
Eval vm_compute in ("<<<M309>>>" ++ check (runes_of_ascii "
MetaData Logon{zchar[ 7
    ] BodyLength , char Header ,
    // @lengthOf(
    int8
    x_y_z// @lengthOf(
`u8 x,`
, i32 falsey , //
int16 lengthOf`two words`
, } root packet options1 { repeat	A BodyLength
,
metadata { u64 calculatedFrom `` , } ,
body { i16
    matchKey ,	uint16
packetx
    `// not a comment` ,
a1 // 50% %s
`` ,repeat packetx
    // " ++ [27880; 37322]%N ++ runes_of_ascii "
    ,
}  , body	u8x `a\`	, @tag(
10
    ) @tag(00 )
    // c
    @rightPad('\x00' ) repeat tag { i16 u
    `" ++ [233]%N ++ runes_of_ascii "`, }
,
// a // b
// c
@lengthOf(u )@calculatedFrom( """ ++ [128512]%N ++ runes_of_ascii """ ) i16 falsey  ,
    f32a	@lengthOf(
uint8x )
    `it's`, asx
    @lengthOf(// 50% %s
Header )`two words` ,
    // `tick` ""quote"" 'q'
    @lengthOf( A//
)@lengthOf( int ) @calculatedFrom(
    ""1"")
    char[] uint8x , x_y_z @lengthOf( Foo)
`crlf
line` ,
    } packet// @lengthOf(
stringy{ repeat  string len , @calculatedFrom(
    ""{,}"" )
    repeat
    o//
{ u64 float , } ,
    match	i64_ as
    Pad
{
[ 1 ] :	roots , ""it's""
    // packet A { u8 x, }
    : // @lengthOf(
uint8x 1 :
    MetaDataX ,[255 ,
""a\""b""  , // `tick` ""quote"" 'q'
""" ++ [233]%N ++ runes_of_ascii "t" ++ [233]%N ++ runes_of_ascii """ //	t
, 65535 ,4294967296 , 7 , 0123456789
] :len
, 255 : metadata
, ""it's"" :calculatedFrom ,
    // `tick` ""quote"" 'q'
    }, @lengthOf( msg_type )
falsey @calculatedFrom( """ ++ [28040; 24687]%N ++ runes_of_ascii """
) ,	repeat char[] trueish , zchar[ 1 ]A ,// `tick` ""quote"" 'q'
repeat metadata {zchar[
// c
//x
7 ]	Pad  , }	,
    @tag( 3//
) i32 body
`u8 x,` , } // trailing space ")).
Eval vm_compute in ("<<<M313>>>" ++ check (runes_of_ascii "root	packet packetx { /// triple
@tag(//
007	) int16
int``
    // `tick` ""quote"" 'q'
    ,@calculatedFrom( ""x y"" ) repeat string a1
`it's` ,@lengthOf(Header
    )
repeat
char[ 1
    ]
    string_ `` , uint64
falsey @lengthOf( i8i8 )
    ,
@lengthOf( u ) match
    roots
    as u128 {[ ""`tick`"" // " ++ [27880; 37322]%N ++ runes_of_ascii "
,
4294967296
, """" ,
65535 ,""" ++ [28040; 24687]%N ++ runes_of_ascii """ ,
    /// triple
    ""CRC32""
    , ""a	b"" , ""a	b""] : options1
,[ 007, ""abc"" , 65535  ] :
A, 7 : f32a ,""abc""
// " ++ [27880; 37322]%N ++ runes_of_ascii "
// packet A { u8 x, }
:
    i8i8 , ""it's""	:
o //	t
, [ ""{,}"" /// triple
, // `tick` ""quote"" 'q'
42
, 65535
    //
    ,"""" // `tick` ""quote"" 'q'
,
""a\""b"", 4294967296, 0
    ] :T
/// triple
//x
} ,
@tag( 7 )	char
o @calculatedFrom(  ""// no comment"")  , repeat f32
    float// packet A { u8 x, }
`line1
line2` , @lengthOf( f32a )
match rootA// c
as matchKey {007	:x // packet A { u8 x, }
,
    """ ++ [233]%N ++ runes_of_ascii "t" ++ [233]%N ++ runes_of_ascii """
:
    charz
,[ ""x y"" ,4294967296
, 255 , 00
// trailing space 
// a // b
]	: len} , @tag(
0123456789 )	repeat
    trueish
    // @lengthOf(
    i64_ , }packet
    lengthOf
{ }// a // b
packet len
{ @calculatedFrom(
    /// triple
    ""a	b"")  _x
    roots`a\`, }
//	t
")).
Eval vm_compute in ("<<<M1942>>>" ++ check (runes_of_ascii "// top
  options 	 // c0a
    // c0b
	{	// c1a
	// c1b
StringPrefixLenType=  // c3
  u16 	 // c4a
    // c4b
	  ;  // c5

	ArrayPrefixLenType// c6

  =
u64
	// c8
    	;  }

// c10
	packet// c11
	Order { // c13a
    // c13b
float64
    Ref // c15a
	// c15b
	,	// c16
repeat// c17a
  	// c17b
  i32
lastPx 	 // c19
    , 
	    // c20
    } 
  // c21
  	packet
	Fill 
// c23
  	{ 

    // c24
	zchar[ 9 // c26
] 	 // c27a
// c27b

Ref 

    // c28
    ,	// c29
  zchar[ // c30a
    // c30b

4
]

// c32

	Px  // c33
    ,	// c34
	Order 	 // c35a
  // c35b
    , 	 // c36
  int8	// c37
  count// c38

,// c39a
	  // c39b
  	}
// c40

packet 	 // c41a
  // c41b

	Cancel 
{// c43
    	i16
Side2// c45
	, 	 // c46
	  Order // c47a
      // c47b
	, // c48
		} root
packet 	 // c51
	Party  // c52
	{float64  // c54

	Px
    ,  // c56
  zchar[ 

    // c57
	  1 
      // c58
		]// c59
  	clOrdID 	 // c60
      , 	 // c61
	  }

")).
Eval vm_compute in ("<<<M1833>>>" ++ check (runes_of_ascii "root packet len {
    match x as metadata {
        [1, 0, """", ""a	b"", 00] : pack,
        [""// no comment"", ""x y"", """ ++ [233]%N ++ runes_of_ascii "t" ++ [233]%N ++ runes_of_ascii """] : Packet,
    },
    repeat lengthOf u128,
    @calculatedFrom(""it's"")
    @lengthOf(calculatedFrom)
    @lengthOf(u)
    metadata {
        int8 lengthOf `crlf
                line`,
    },
    @tag(4294967296)
    calculatedFrom {
        f32 i64_ `" ++ [233]%N ++ runes_of_ascii "`,
    },
    @lengthOf(BodyLength)
    repeat char[65535] float,
    @calculatedFrom(""\" ++ [233]%N ++ runes_of_ascii """)
    i64_ {
        match stringy as _x {
            //	t
            [4294967296, 3] : i8i8,
            [""a\""b""] : x_y_z,
            3 : len,
        },
    },
    @tag(0)
    zchar[7] x_y_z,
    @lengthOf(Header)
    repeat u64 As `
        `,// " ++ [27880; 37322]%N ++ runes_of_ascii "
    @rightPad( )
    /// triple
    @rightPad(  '\x00')
    u16 Header `{ , }`,
}")).
Eval vm_compute in ("<<<M1962>>>" ++ check (runes_of_ascii "
options {
ArrayPrefixLenType
=
u32
; 
FixedStringPadFromLeft
    =false  ;
FixedStringPadChar	=

'0'
; }
    packet Trade{ repeat

InVenue78{
u16
tag7 , repeat

InLastpx9	{  u8
	pad0
    ,
    } ,
    int64
Tail  ,repeat
InQty37 {
    char[2  ] OrderId ,
	zchar[
	6
] 
lastPx
    , int64	Qty
,
}, uint8
Side2 ,}
, }

packet
Logon { 
repeat
string
venue,@rightPad

(
'\x00'	)
char[ 3
	]
sym
,
    zchar[

    9  ] count , zchar[ 7

]	f1 ,
Trade  ,
	}	packet Logout

{ }	root packet
    Reject {
int32 sym
,u8
Px  ,  u32
Tail
    @lengthOf(
Body

    ),

match	Px 
as Body { 184:

Trade
	,
    173  : Logon

    ,12 :	Logout  , }
    ,
u32 tag7 @calculatedFrom( ""CRC32""	)
,
}
")).
Eval vm_compute in ("<<<M1153>>>" ++ check (runes_of_ascii "// top
options // c0
{ // c1
uint8x // c2
= // c3
007 // c4
; // c5
lengthOf // c6
= // c7
i8 // c8
; // c9
} // c10
packet // c11
i64_ // c12
{ // c13
@calculatedFrom( // c14
""1"" // c15
) // c16
@tag( // c17
3 // c18
) // c19
@lengthOf( // c20
rootA // c21
) // c22
repeat // c23
int8 // c24
Packet // c25
`tab	here` // c26
, // c27
} // c28
packet // c29
_x // c30
{ // c31
matchKey // c32
x // c33
`" ++ [28040; 24687; 31867; 22411]%N ++ runes_of_ascii "` // c34
, // c35
int32 // c36
calculatedFrom // c37
`100% of %d` // c38
, // c39
@lengthOf( // c40
trueish // c41
) // c42
Packet // c43
, // c44
repeat // c45
f32 // c46
o // c47
, // c48
} // c49
")).
Eval vm_compute in ("<<<M1587>>>" ++ check (runes_of_ascii "// top
  packet  // c0
  _x 	 // c1
		{ // c2

match// c3
  Foo  // c4
as  // c5
    Z9_  // c6
  	{  // c7
      ""a	b""// c8
      : 	 // c9

Pad // c10
    , 	 // c11
	} // c12
    , 	 // c13
  repeat// c14
	x	// c15

  `// not a comment`// c16
    ,	// c17
@rightPad	// c18
	( // c19
    ' ' // c20
  ) 	 // c21
    @calculatedFrom(	// c22
  ""a\\""	// c23
	) // c24
metadata 	 // c25

MetaDataX// c26
	, // c27
      @tag(  // c28
		0 // c29
	) 	 // c30
  	Logon// c31
	int // c32
	`two words` 	 // c33
	, // c34
  }	// c35")).
Eval vm_compute in ("<<<M1311>>>" ++ check (runes_of_ascii "packet A // c1
{ // c2
u8 a // c4a
  // c4b
,
    // c5
}
    // c6
packet
    // c7
B // c8
{
    // c9
u16 // c10
b , // c12
}
    // c13
root // c14a
  // c14b
packet P {
    // c17
u8 K ,
    // c20
match // c21
K // c22
as
    // c23
M // c24a
  // c24b
{ [
    // c26
1 // c27a
  // c27b
, // c28
2 // c29a
  // c29b
]
    // c30
:
    // c31
A // c32
, // c33
3 // c34
:
    // c35
B // c36a
  // c36b
, // c37
7 // c38
: // c39a
  // c39b
A // c40
,
    // c41
} // c42
, // c43
} ")).
Eval vm_compute in ("<<<M1911>>>" ++ check (runes_of_ascii "
MetaData 
o  //
{
    MetaDataX	As 
`crlf
line` ,
    string_
	T

    ,
    zchar[

    1
]
    Header, 	 //	t
}	packet packetx{// " ++ [128512]%N ++ runes_of_ascii " emoji
		repeat  //	t
  char[ 10
    // @lengthOf(
	//
	] crc `a\`

, @tag(42	) repeat char[]
	asx
    `// not a comment`
, 
zchar[
// a // b
	// " ++ [128512]%N ++ runes_of_ascii " emoji
    	007
]

len @lengthOf(
u )	`a\`
	,	@leftPad
    ( '\x00' ) @tag(

    3 )

    @calculatedFrom(  ""a\""b""

)

char[  //x
10
] As`
` ,  } ")).
Eval vm_compute in ("<<<M1348>>>" ++ check (runes_of_ascii "  packet

NewOrder
	{
u32 
qty , }
packet
Cancel

{	u64 id, } packet Business

{
	u8
Kind
, match

    Kind	as Detail
{ 1:	NewOrder ,

2 :	Cancel
    ,
    } 
,}packet

    TcpFrame {
    u8	T  ,
match
	T
    as
Body
{	1
:  Business  , }	,
} packet 
UdpFrame {

    u8  U,
match  U

    as
Body{1
: Business
, } ,	Business extra

    , }root
packet 
Wire 
{
TcpFrame ,	UdpFrame,

    }
")).
Eval vm_compute in ("<<<M1156>>>" ++ check (runes_of_ascii "// top
MetaData // c0
msg_type // c1
{ // c2
int32 // c3
As // c4
`crlf
line` // c5
, // c6
MetaDataX // c7
x // c8
`a\` // c9
, // c10
int8 // c11
_x // c12
, // c13
char[] // c14
As // c15
`u8 x,` // c16
, // c17
zchar[ // c18
3 // c19
] // c20
uint8x // c21
, // c22
As // c23
Foo // c24
, // c25
} // c26
root // c27
packet // c28
repeatCount // c29
{ // c30
} // c31
")).
Eval vm_compute in ("<<<M182>>>" ++ check (runes_of_ascii "options{ Logon='\x00';
    Foo
= ""// no comment""x
=""a\""b"" }
    packet rootA {	@tag( 007
    ) @calculatedFrom( ""a\\""	) // `tick` ""quote"" 'q'
u{ match
o as
    Foo { 255 : asx , ""a\""b"" : zchar, [  ""a	b""	,	""{,}"" , 10
] : _x } ,// a // b
char[42
    ]
As
`a\` , int32 i64_
    @calculatedFrom( """ ++ [28040; 24687]%N ++ runes_of_ascii """ ) // " ++ [27880; 37322]%N ++ runes_of_ascii "
, repeat chars
packetx
    ,} , }
")).
Eval vm_compute in ("<<<M1800>>>" ++ check (runes_of_ascii "// top
MetaData msg_type {
    int32 As `crlf
    line`,
    // c6
    MetaDataX x `a\`,// c10a
    // c10b
    int8 _x,// c13a
    // c13b
    char[] As `u8 x,`,
    // c17
    zchar[3] uint8x,// c22a
    // c22b
    As Foo,// c25a
    // c25b
}// c26

root packet repeatCount {
    // c30
}// c31")).
Eval vm_compute in ("<<<M1436>>>" ++ check (runes_of_ascii "
packet

    asx
	{
@calculatedFrom( 
"""")
	@tag(

255  )
        // packet A { u8 x, }
	  // trailing space 
    	int16 u8x  ,
	@tag(
	//

007

)

    @tag(

0

/// triple
    )	@tag( 
1 )
u@lengthOf(T
	) , 
    // `tick` ""quote"" 'q'
      //x

} // " ++ [128512]%N ++ runes_of_ascii " emoji
 
")).
Eval vm_compute in ("<<<M502>>>" ++ check (runes_of_ascii "packet
    asx { @calculatedFrom(
""""  ) @tag( 255 )repeat
// packet A { u8 x, }
// trailing space 
int16 u8x
,
@tag(
    //
    007 )
    @tag( 0
    /// triple
    ) @tag( 1) u
    @lengthOf( @lengthOf( T ),
// `tick` ""quote"" 'q'
//x
} // " ++ [128512]%N ++ runes_of_ascii " emoji")).
Eval vm_compute in ("<<<M1589>>>" ++ check (runes_of_ascii "  MetaData trueish
{
    string  // 50% %s
    u

,
    // @lengthOf(
	//x

pack
Pad

    `say ""hi""`
    , // a // b
	int32	tag,
    u8
	asx 
,// 50% %s
    	i32 len ,
int int
	`100% of %d` , }MetaData  falsey{
    } 
    // @lengthOf(
 
")).
Eval vm_compute in ("<<<M535>>>" ++ check (runes_of_ascii "packet
    asx { @calculatedFrom(
""""  ) @tag( 2@55 )repeat
// packet A { u8 x, }
// trailing space 
int16 u8x
,
@tag(
    //
    007 )
    @tag( 0
    /// triple
    ) @tag( 1) u
    @lengthOf( T ),
// `tick` ""quote"" 'q'
//x
} // " ++ [128512]%N ++ runes_of_ascii " emoji")).
Eval vm_compute in ("<<<M483>>>" ++ check (runes_of_ascii "packet
    asx { @calculatedFrom(
""""  ) @tag( 255 )repeat
// packet A { u8 x, }
// trailing space 
int16 u8x
,
@tag(
    //
    007 )
    @tag( 0
    /// triple
    ) 1 @tag() u
    @lengthOf( T ),
// `tick` ""quote"" 'q'
//x
} // " ++ [128512]%N ++ runes_of_ascii " emoji")).
Eval vm_compute in ("<<<M459>>>" ++ check (runes_of_ascii "packet
    asx { @calculatedFrom(
""""  ) @tag( 255 )repeat
// packet A { u8 x, }
// trailing space 
int16 u8x
,
@tag(
    //
    [ )
    @tag( 0
    /// triple
    ) @tag( 1) u
    @lengthOf( T ),
// `tick` ""quote"" 'q'
//x
} // " ++ [128512]%N ++ runes_of_ascii " emoji")).
Eval vm_compute in ("<<<M339>>>" ++ check (runes_of_ascii "packet len
    {
    @calculatedFrom( ""{,}"" )
zchar[ 10 ] packetx`line1
line2` , @lengthOf( metadata
) @calculatedFrom( ""a	b""
    ) matchKey@lengthOf( As
    ) , chars
// 50% %s
// a // b
uint8x `a\` ,  char[ 65535 ] Foo,	}")).
Eval vm_compute in ("<<<M191>>>" ++ check (runes_of_ascii "packet T { } MetaData lengthOf{  char[ 4294967296 ] a1	, float64
    body `100% of %d`,
asx Foo ,	u8x pack
// @lengthOf(
// " ++ [128512]%N ++ runes_of_ascii " emoji
, zchar[
    // @lengthOf(
    0123456789 ] Z9_
, char
As `crlf
line`
, }
")).
Eval vm_compute in ("<<<M1910>>>" ++ check (runes_of_ascii "

  options 
{i8i8

    =
	uint8
	pack
	=
	false

T=
	false
; 
msg_type
        // `tick` ""quote"" 'q'
// c
	=
0  falsey =
char[
    42  ]// trailing space 
  ;	} 

    // " ++ [128512]%N ++ runes_of_ascii " emoji
")).
Eval vm_compute in ("<<<M564>>>" ++ check (runes_of_ascii "MetaData u
    { @rightPad MetaData o
{ float uint8x
`100% of %d` ,repeatCount u8x, string_ leftPad
, i32
    Foo , int64 x `two words` , calculatedFrom
stringy `a\` ,
}
")).
Eval vm_compute in ("<<<M708>>>" ++ check (runes_of_ascii "MetaData u
    { } MetaData o
{ float uint8x
`100% of %d` ,repeatCount u8x, string_ leftPad
, i32
    Foo , int64 " ++ [252]%N ++ runes_of_ascii "ber `two words` , calculatedFrom
stringy `a\` ,
}
")).
Eval vm_compute in ("<<<M697>>>" ++ check (runes_of_ascii "MetaData u
    { } MetaData o
{ float uin\t8x
`100% of %d` ,repeatCount u8x, string_ leftPad
, i32
    Foo , int64 x `two words` , calculatedFrom
stringy `a\` ,
}
")).
Eval vm_compute in ("<<<M644>>>" ++ check (runes_of_ascii "MetaData u
    { } MetaData o
{ float uint8x
`100% of %d` ,repeatCount u8x, string_ leftPad
, i32
    Foo } int64 x `two words` , calculatedFrom
stringy `a\` ,
}
")).
Eval vm_compute in ("<<<M1491>>>" ++ check (runes_of_ascii "
options
{

    } 
options
    {
MetaDataX	=  char	;

    }
MetaData Pad {

    i8  // c

metadata , string stringy

    ,	int8 
As

    `{ , }`

,}
")).
Eval vm_compute in ("<<<M566>>>" ++ check (runes_of_ascii "MetaData u
    { }  o
{ float uint8x
`100% of %d` ,repeatCount u8x, string_ leftPad
, i32
    Foo , int64 x `two words` , calculatedFrom
stringy `a\` ,
}
")).
Eval vm_compute in ("<<<M1787>>>" ++ check (runes_of_ascii "packet Inner {
    // c2a
    // c2b
    u8 a,
    // c5
}// c6a

// c6b
root packet P {
    repeat Inner items,// c14a
    // c14b
    u8 x,
}
// c18")).
Eval vm_compute in ("<<<M1786>>>" ++ check (runes_of_ascii "options  {}
    options
	{ MetaDataX =
	char; }
MetaData
	Pad{
    i8
metadata

, string

    stringy// c
    	,
int8	As
	`{ , }`  ,
}
")).
Eval vm_compute in ("<<<M1307>>>" ++ check (runes_of_ascii "packet A {
    u8 a,
}
packet B {
    u16 b,
}
root packet P {
    u8 K,
    match K as M {
        1 : A,
        1 : B,
    },
}
")).
Eval vm_compute in ("<<<M1272>>>" ++ check (runes_of_ascii "packet B {
    u8 a,
}
root packet P {
    u8 K,
    u64 L @lengthOf(Body),
    match K as Body {
        1 : B,
    },
}
")).
Eval vm_compute in ("<<<M256>>>" ++ check (runes_of_ascii "  packet u8x { } MetaData Pad { //
trueish lengthOf // 50% %s
,
    }
    root packet
trueish {
//
// 50% %s
}
")).
Eval vm_compute in ("<<<M1224>>>" ++ check (runes_of_ascii "options { } options { MetaDataX = char ; } MetaData
// c
Pad { i8 metadata , string stringy , int8 As `{ , }` , }")).
Eval vm_compute in ("<<<M892>>>" ++ check (runes_of_ascii "packet A {
  match k as n {
    [""a"", ""bb"", ""c c"", ""d"", ""e"", ""f"", ""g"", ""h"", ""i"", ""j"", ""k""] : B
    2 : C
  },
}")).
Eval vm_compute in ("<<<M907>>>" ++ check (runes_of_ascii "packet A {
  match k as n {
    [1, ""bb"", 007, ""d"", 5, ""f"", 7, ""h"", 9, ""j"", 11, ""l""] : B
    2 : C
  },
}")).
Eval vm_compute in ("<<<M894>>>" ++ check (runes_of_ascii "packet A {
  match k as n {
    [1, ""bb"", 007, ""d"", 5, ""f"", 7, ""h"", 9, ""j"", 11] : B
    2 : C
  },
}")).
Eval vm_compute in ("<<<M223>>>" ++ check (runes_of_ascii "// trailing space 
packet tag	{
//
// 50% %s
@calculatedFrom(
""abc""
)char[ 0] crc
`u8 x,`
, }
")).
Eval vm_compute in ("<<<M140>>>" ++ check (runes_of_ascii "packet f32a
{
    @tag( 007	)
    // " ++ [27880; 37322]%N ++ runes_of_ascii "
    i8i8
Logon , }  options {} packet
stringy {} //")).
Eval vm_compute in ("<<<M1504>>>" ++ check (runes_of_ascii "packet
A	{
    @leftPad
	(
)
char[ 4
    ]
x , @rightPad
( )
zchar[

    2

] y , }")).
Eval vm_compute in ("<<<M841>>>" ++ check (runes_of_ascii "packet A {
  match k as n {
    [1, ""bb"", 007, ""d"", 5, ""f"", 7] : B,
    2 : C
  },
}")).
Eval vm_compute in ("<<<M1799>>>" ++ check (runes_of_ascii "packet orderItem {
    u8 a,
}

root packet newOrder {
    orderItem,
    u8 x,
}")).
Eval vm_compute in ("<<<M769>>>" ++ check (runes_of_ascii "'\x00' , root ] match int64 repeat } ] `line1
line2` @tag( @calculatedFrom(")).
Eval vm_compute in ("<<<M1118>>>" ++ check (runes_of_ascii "packet A {
    match k as n {
        1 : B // c
        , // d
    },
}")).
Eval vm_compute in ("<<<M29>>>" ++ check (runes_of_ascii "
packet options1{ @tag(
007 )repeat char[
0123456789] Logon`doc` ,
}")).
Eval vm_compute in ("<<<M1703>>>" ++ check (runes_of_ascii "MetaData float

{  packetx

    f32a

    `crlf
line`
,
	}
")).
Eval vm_compute in ("<<<M1266>>>" ++ check (runes_of_ascii "root packet P {
    hdr {
        u8 a,
    },
    u8 x,
}
")).
Eval vm_compute in ("<<<M230>>>" ++ check (runes_of_ascii "MetaData // " ++ [27880; 37322]%N ++ runes_of_ascii "
Foo {
rootA f32a
    //
    , }
//	t
")).
Eval vm_compute in ("<<<M1472>>>" ++ check (runes_of_ascii "packet

A {
    @tag( 	 // a

  1 )  u8 x
	,
}
")).
Eval vm_compute in ("<<<M1515>>>" ++ check (runes_of_ascii "// top
options {
    A = ""// no comment""
}")).
Eval vm_compute in ("<<<M1086>>>" ++ check (runes_of_ascii "packet A {    u8 x, // c    u8 y,}")).
Eval vm_compute in ("<<<M1649>>>" ++ check (runes_of_ascii "  // c
root

    packet
	a1

{ } ")).
Eval vm_compute in ("<<<M1062>>>" ++ check (runes_of_ascii "packet A {
 u8 x `d 	`, // c 	
}")).
Eval vm_compute in ("<<<M1057>>>" ++ check (runes_of_ascii "packet A {
 u8 x `d" ++ [12]%N ++ runes_of_ascii "`, // c" ++ [12]%N ++ runes_of_ascii "
}")).
Eval vm_compute in ("<<<M213>>>" ++ check (runes_of_ascii "  MetaData Packet
    { }
")).
Eval vm_compute in ("<<<M1147>>>" ++ check (runes_of_ascii "root packet a1 // c
{ }")).
Eval vm_compute in ("<<<M150>>>" ++ check (runes_of_ascii "options //	t
{
    }")).
Eval vm_compute in ("<<<M1045>>>" ++ check (runes_of_ascii "packet A {
}
// c" ++ [8287]%N)).
Eval vm_compute in ("<<<M1043>>>" ++ check (runes_of_ascii "packet A {
}// c" ++ [8287]%N)).
Eval vm_compute in ("<<<M735>>>" ++ check ([0]%N ++ runes_of_ascii "k" ++ [23; 65533; 21; 31; 65533; 65533; 15473; 65533; 65533; 127; 822; 65533]%N)).
Eval vm_compute in ("<<<M1029>>>" ++ check (runes_of_ascii "// c" ++ [8232]%N)).
