From FP Require Import Lexer Parser ShowPT Digest Formatter.
From Coq Require Import String List NArith.
Import ListNotations.
Open Scope string_scope.
Set Printing Width 100000000.
Set Printing Depth 100000000.
Definition show_fres (r : fres) : string :=
  match r with
  | FOk s => "OK:" ++ sh_escaped s ""
  | FErr s => "ERR:" ++ sh_escaped s ""
  | FPanic p => "PANIC:" ++ p
  end.
Definition check (rs : list rune) : string := digest (show_fres (format_res rs)).
Definition full (rs : list rune) : string := show_fres (format_res rs).
Eval vm_compute in ("<<<M198>>>" ++ check (runes_of_ascii "root packet int {
// @lengthOf(
// " ++ [27880; 37322]%N ++ runes_of_ascii "
@calculatedFrom( ""packet"")match repeatCount as asx {// packet A { u8 x, }
65535:int ,
"""":
    packetx
, [ 1, ""it's"", 007 , 3,
    ""a\\"" , 65535 ] : o,
[ 7 , 1 ]:
    len [ ""abc""	,""" ++ [28040; 24687]%N ++ runes_of_ascii """ ] : u
,} ,// packet A { u8 x, }
@rightPad ( ' ' ) // " ++ [27880; 37322]%N ++ runes_of_ascii "
len
    body `{ , }` , }packet repeatCount { string
trueish
,@tag(
0 )	repeat
tag/// triple
`{ , }` , // `tick` ""quote"" 'q'
@tag(255 // @lengthOf(
) match packetx as
string_
    {
10 :roots, }//
,
@leftPad
(
'\x00'	)
    @tag( 7 ) repeat i8 // packet A { u8 x, }
rootA
/// triple
// " ++ [128512]%N ++ runes_of_ascii " emoji
`it's` , uint8x tag`a\` ,
char[] Z9_ @calculatedFrom( //x
""" ++ [233]%N ++ runes_of_ascii "t" ++ [233]%N ++ runes_of_ascii """
    )
, repeat float32
trueish	, @leftPad ( /// triple
'\x00'	)	i64_
    @calculatedFrom( ""x y""
    ) //
, repeat f32 Packet ,  }
    packet u
    // c
    {int64 pack@lengthOf(metadata ) ,	repeat
    char[//	t
0123456789 ] int
    ``
    , @lengthOf(
    Header  )@calculatedFrom(""`tick`""
)	float
    trueish , @calculatedFrom(	""`tick`""
    // a // b
    ) stringy ,// " ++ [128512]%N ++ runes_of_ascii " emoji
repeat Logon  `it's`  ,
int32  Z9_ @calculatedFrom(
""\n""), match// c
u8x as falsey {
255 : f32a ,
00:packetx
, } ,
zchar[	0 ] roots , @tag( 00) Logon {
    i64_
@lengthOf( MetaDataX //
) ``
    , repeat body
MetaDataX `it's`, x { string rootA ``
    // a // b
    , repeat options1 f32a , }//
, Pad
, // `tick` ""quote"" 'q'
} , @calculatedFrom( ""1""
    // packet A { u8 x, }
    )@lengthOf(T ) char[
7 ]	pack	`{ , }`	, } MetaData u {
} /// triple")).
Eval vm_compute in ("<<<M1775>>>" ++ check (runes_of_ascii "
root  packet	// " ++ [27880; 37322]%N ++ runes_of_ascii "

crc
{
	@lengthOf(
    As	)

    @calculatedFrom( ""\" ++ [233]%N ++ runes_of_ascii """  ) 
zchar[4294967296 ] 
MetaDataX`doc` 
, 	 /// triple
	rootA @calculatedFrom(
	""it's""  )
,
	@tag(  65535
) @tag( // c
  	7
)
    @tag( 00 
	//
// c
)

len@lengthOf(
	A
    )	`two words`  ,
	// trailing space 
  	// " ++ [128512]%N ++ runes_of_ascii " emoji

string
rootA  @lengthOf(

pack
// trailing space 
  //	t
    ) ,  
      // " ++ [128512]%N ++ runes_of_ascii " emoji

  // trailing space 
  repeat 
zchar
, 
@calculatedFrom(

    ""abc""

)
@leftPad
('\x00'
)

    @rightPad  (
    )

match

    x_y_z
	as

    Z9_ 
{  ""it's""
    :
    Logon	//x

, ""x y"" : Packet,	""abc""  :

    trueish

    4294967296// @lengthOf(
  	:
repeatCount """ ++ [128512]%N ++ runes_of_ascii """ :
x_y_z
}

, char[  10// @lengthOf(
    ]  stringy
    `it's` ,

@leftPad ('\x00'

)
	rootA @lengthOf(
	i64_ ),
	}	MetaData
falsey
{ Packet repeatCount`tab	here`, 
} MetaData

string_{ float64 roots	`line1
line2`
,char
    As 	 //
`
`
,zchar[ 65535  ]  falsey
	`a\`	,
A T ,
	_x  metadata ,	}

packet
	_x 	 // packet A { u8 x, }
    	{
    zchar[

255	]string_ @lengthOf(  
  //	t
	// @lengthOf(

u128 
)
    `{ , }`  ,

    }
root
packet Packet

{

    repeat	// " ++ [128512]%N ++ runes_of_ascii " emoji
  lengthOf 
,

    }
")).
Eval vm_compute in ("<<<M1352>>>" ++ check (runes_of_ascii "  options
    { 
StringPrefixLenType 
=
    u64 ; ArrayPrefixLenType  =u32	;  FixedStringPadFromLeft	=false
    ; 
}
packet	Party
{ zchar[
	7

]
OrderId
    ,InTail6 { repeat

char[

1

] msgKind
	,
char[
    3 ] 
Tail
    ,
    char[  3
    ]
Flags 
, 
i16

tag7

, } , @rightPad(  '0'
	)
	char[ 12	] clOrdID
    ,  }

    packet
Quote
    {
	@leftPad 
(

    '0'	) char[
    11 
]

    price, repeat InCount7{ i32
x,	Party ,
u8 
Ref	, u8
    tag7 ,	},
	char[] seqNo

,  Party 
,

} packet

Logon
{
@rightPad

    ( '\x00'	)
	char[
5
]
Note
    , i16 sym  ,
    InPrice72 {  char[
	9
	]

Ref
, zchar[  1
    ]venue
	,
    }

    ,
	char[]
clOrdID ,

    }root  packet

Reject
    {repeat  Logon	,	@leftPad (
' '
)

char[4
]
    seqNo  , zchar[5
    ] 
Acct

    , 
u32 x ,
    u16
f1

    @lengthOf( 
Body)
,  match

    x

as 
Body	{

    [ 
169

, 
74	] 
:	Quote

    , 45:
Party
    ,

    7: Logon

    ,} ,
}")).
Eval vm_compute in ("<<<M1931>>>" ++ check (runes_of_ascii "options {
    FixedStringPadFromLeft = true;
    FixedStringPadChar = '0';
}

packet Leg {
    repeat InSym93 {
        zchar[3] Acct,
        string Side2,
        i32 Flags,
        f32 Note,
        i32 msgKind,
    },
    f64 Note,
    uint16 Px,
}

packet Quote {
    zchar[2] OrderId,
}

packet Ack {
    repeat string lastPx,
    zchar[4] price,
    uint32 OrderId,
    Quote,
    int8 Acct,
}

packet Fill {
    repeat Leg,
    @rightPad('0')
    char[11] Note,
    f64 Px,
    @rightPad('\x00')
    char[5] Flags,
    zchar[9] x,
    string msgKind,
}

root packet Order {
    Leg,
    repeat Ack,
    @rightPad('\x00')
    char[3] Side2,
    repeat char[1] seqNo,
    u16 clOrdID,
    match clOrdID as Body {
        198 : Leg,
        23 : Quote,
        13 : Ack,
        159 : Fill,
    },
    u32 venue @calculatedFrom(""CR\
        C32""),
}")).
Eval vm_compute in ("<<<M330>>>" ++ check (runes_of_ascii "root packet
As {
} MetaData Pad { string
    metadata  `// not a comment` ,
    }
packet metadata
    { string	charz
`a\` , @leftPad ( ' ' )pack@lengthOf(x_y_z ), @calculatedFrom( ""packet"")
match crc
    as chars { [ ""packet"" ,7 ]
    :  repeatCount }
, Pad @lengthOf( matchKey
    ),
@calculatedFrom( ""\n""
    )int64
    Z9_ @lengthOf(
    // a // b
    _x ),
@lengthOf(repeatCount// trailing space 
) repeat float
{ u128 @lengthOf( zchar) , u8 crc
, } ,
    int64 pack, u128
    `it's` , repeat
// a // b
// `tick` ""quote"" 'q'
i32 T , //	t
@tag(00 ) rootA  @lengthOf(
float
    )
,
} MetaData Header // @lengthOf(
{u32 u,	string A `crlf
line` ,
u16
    roots `a\` ,int16 chars , }
packet repeatCount { repeat char[
// trailing space 
//x
65535]
    x `line1
line2`
, }")).
Eval vm_compute in ("<<<M52>>>" ++ check (runes_of_ascii "  MetaData
    // " ++ [27880; 37322]%N ++ runes_of_ascii "
    packetx { zchar[ 7 ] leftPad
`// not a comment` ,	}	packet i64_{@calculatedFrom(
"""" )
// trailing space 
// c
@lengthOf(
x_y_z ) @tag( 00
)
repeatCount
    // packet A { u8 x, }
    @calculatedFrom(""1"" ), } packet falsey { int16
_x
@calculatedFrom(	""it's"") , } // @lengthOf(
root
packet matchKey
    {repeat u32  Pad  `" ++ [233]%N ++ runes_of_ascii "`, zchar[ 7 ]
    leftPad
,match chars as lengthOf
{ 1 :
o
    42 : chars
// trailing space 
// c
,
}//x
, repeat
zchar[
    255]
a1, matchKey //
Packet
    // `tick` ""quote"" 'q'
    ,
f32
    tag
    ,
// @lengthOf(
// trailing space 
@calculatedFrom(  ""a\""b"" ) @leftPad( ' ' ) @lengthOf(
T) stringy
@lengthOf( o) ,packetx  i64_ ,}
/// triple
")).
Eval vm_compute in ("<<<M342>>>" ++ check (runes_of_ascii "root packet Z9_	{  repeat i8i8 int`// not a comment`
,	uint8x
    // c
    , f64 i8i8  `tab	here` ,@tag(
3 ) @tag( 3 ) @tag( /// triple
10
// trailing space 
// trailing space 
) repeat int{ MetaDataX // " ++ [27880; 37322]%N ++ runes_of_ascii "
,} , @tag( 10
    ) int8
    pack@lengthOf(x
    ), Logon ,	@tag( 00
) repeat
rootA
uint8x ,  @calculatedFrom( ""\n"" // a // b
) // `tick` ""quote"" 'q'
@lengthOf( len )
// @lengthOf(
// `tick` ""quote"" 'q'
BodyLength  { matchKey f32a
//x
// `tick` ""quote"" 'q'
`say ""hi""` ,} ,  char[] leftPad `{ , }` ,
@lengthOf( float )match repeatCount as	o { 255 : matchKey ,
    // " ++ [128512]%N ++ runes_of_ascii " emoji
    00:	A 007 :
    options1 } , }
")).
Eval vm_compute in ("<<<M1825>>>" ++ check (runes_of_ascii "options {
    Header = u32;
}

options {
    i8i8 = f64;
    body = zchar[00];
}

//
MetaData BodyLength {
    // trailing space 
}// " ++ [27880; 37322]%N ++ runes_of_ascii "

options {
    Logon = u64
    As = true
    i64_ = '\x00';
}

root packet asx {
    @tag(4294967296)
    roots @lengthOf(A),
    repeat uint8 u128,
    int32 i64_,
    u8 u ``,
    @lengthOf(len)
    uint64 matchKey,
    match rootA as stringy {
        1 : string_,
        7 : charz,
        255 : u128,
        [0, 0123456789, 1, 007] : len,
        10 : trueish,
    },
    @rightPad()
    char[7] int @lengthOf(x) `two words`,
}")).
Eval vm_compute in ("<<<M1441>>>" ++ check (runes_of_ascii "
MetaData  BodyLength	{

zchar[65535	]  As
`crlf
line` ,  u16 
charz

    , 
body
len
,zchar
	msg_type,
    uint64 metadata ,
    }root

packet	//
	matchKey
{
	repeat

    i8i8  `{ , }`	,
}

    MetaData 
a1
	{i8i8 
Pad `it's` ,  
  // trailing space 
    // `tick` ""quote"" 'q'

int64

// " ++ [128512]%N ++ runes_of_ascii " emoji
roots
    `doc`,

    Foo BodyLength `u8 x,` , }packet
    _x
	{ lengthOf
	{  pack `" ++ [28040; 24687; 31867; 22411]%N ++ runes_of_ascii "`
    , string_ 	 // @lengthOf(
    	,
    repeat //
	rootA
    len

    ,zchar[

1 
] u8x	,
	}	,
	} ")).
Eval vm_compute in ("<<<M307>>>" ++ check (runes_of_ascii "  packet	charz	{
// " ++ [27880; 37322]%N ++ runes_of_ascii "
/// triple
repeat // c
string int `" ++ [28040; 24687; 31867; 22411]%N ++ runes_of_ascii "` , @calculatedFrom( ""it's"" ) @tag(
255 )  f64 // a // b
asx
,
string
T `doc` ,zchar[
007 ]tag @lengthOf( //
Z9_ )`// not a comment` , }
options{ u= u16; }
MetaData
    chars
    { i16 falsey , f64 pack,
    char[  1
    ]
asx
`it's`, char[] body ,
// `tick` ""quote"" 'q'
//x
}packet leftPad { @rightPad
(
// @lengthOf(
//x
)
repeat Pad float
    `{ , }`
,
    }	options {
    roots= true;  }
")).
Eval vm_compute in ("<<<M1329>>>" ++ check (runes_of_ascii "packet Frame {
    u8 HK,
    u8 BK,
    u8 TK,
    match HK as Hdr {
        1 : HdrA,
        2 : HdrB,
    },
    match BK as Body {
        1 : BodyA,
        2 : BodyB,
    },
    match TK as Trl {
        1 : TrlA,
    },
}
packet HdrA {
    u8 a,
}
packet HdrB {
    u16 b,
}
packet BodyA {
    u32 c,
}
packet BodyB {
    u64 d,
}
packet TrlA {
    u8 e,
}
root packet Msg {
    Frame,
    u8 x,
}
")).
Eval vm_compute in ("<<<M372>>>" ++ check (runes_of_ascii "// @lengthOf(
MetaData leftPad { string	options1`say ""hi""` ,
    //x
    int16 metadata`" ++ [233]%N ++ runes_of_ascii "`,f32 i64_
//	t
// c
, }  packet
trueish { // c
MetaDataX roots ,_x
    a1 , match
packetx as charz { 0
: // c
f32a ,
} //
, repeat body Logon , }	options { repeatCount=
    int8
charz // `tick` ""quote"" 'q'
=	char[];  msg_type =""it's""	u
=
    007 Z9_
    = uint32
    //
    }")).
Eval vm_compute in ("<<<M194>>>" ++ check (runes_of_ascii "// `tick` ""quote"" 'q'
options
    //	t
    { }  packet lengthOf // `tick` ""quote"" 'q'
{  } packet
// a // b
// " ++ [27880; 37322]%N ++ runes_of_ascii "
Foo {
@tag(
1
) string
uint8x ,_x { chars  , string uint8x , i64 _x //
`it's`
    , repeat uint8 As,	}
, float32
f32a , @leftPad( '\x00')
    @calculatedFrom( """ ++ [28040; 24687]%N ++ runes_of_ascii """
) // trailing space 
uint8 Logon
,
    }")).
Eval vm_compute in ("<<<M1308>>>" ++ check (runes_of_ascii "packet A {
    u8 a,
}
packet B {
    u16 b,
}
packet C {
    u32 c,
}
root packet M {
    u16 Kc, u16 Kb, u16 Ka,
    match Kc as X {
        9 : A,
        10 : B,
    },
    match Kb as Y {
        2 : C,
        1 : A,
    },
    match Ka as Z {
        1 : B,
    },
    A, B, C,
}
")).
Eval vm_compute in ("<<<M1274>>>" ++ check (runes_of_ascii "// top
options
    // c0
{ // c1a
  // c1b
FixedStringPadFromLeft
    // c2
= // c3
true
    // c4
; // c5a
  // c5b
}
    // c6
root // c7
packet P {
    // c10
char[ // c11a
  // c11b
4 // c12a
  // c12b
] z // c14
,
    // c15
} // c16a
  // c16b
")).
Eval vm_compute in ("<<<M1505>>>" ++ check (runes_of_ascii "// top
options {
    f32a = 0
}// c5

packet trueish {
    // c8
}

// c9
MetaData _x {
    char[0123456789] zchar,// c17a
    // c17b
    string crc,
    // c20
    char[1] options1,
    uint8 repeatCount,// c28
}// c29")).
Eval vm_compute in ("<<<M1634>>>" ++ check (runes_of_ascii "options {
    FixedStringPadChar = '0';
}

packet Q {
    zchar[4] z,
    @rightPad('\x00')
    char[3] n,
    char[5] d,
}

root packet R {
    Q,
    zchar[8] top,
    repeat zchar[2] zs,
}")).
Eval vm_compute in ("<<<M44>>>" ++ check (runes_of_ascii "
packet repeatCount
    {
trueish , } packet uint8x
{/// triple
match u8x as calculatedFrom
    { [ 4294967296 ]: len ,
[ """ ++ [128512]%N ++ runes_of_ascii """ ,	""" ++ [233]%N ++ runes_of_ascii "t" ++ [233]%N ++ runes_of_ascii """ , 255 , //
1
] : falsey , } , }
")).
Eval vm_compute in ("<<<M187>>>" ++ check (runes_of_ascii "
options// " ++ [27880; 37322]%N ++ runes_of_ascii "
{
f32a= ""a\""b""//x
; Z9_ = // " ++ [27880; 37322]%N ++ runes_of_ascii "
""`tick`""	Logon
    // " ++ [27880; 37322]%N ++ runes_of_ascii "
    =""CRC32""u128= f64 ;rootA	=
false ;} //	t
packet lengthOf {
} MetaData len { }
")).
Eval vm_compute in ("<<<M466>>>" ++ check (runes_of_ascii "packet uint8x
{ match pack
    as msg_type	{
    0123456789 :	float
}
,
} packet //	t
a1 a1
    { } options {packetx
    = '\x00'	; u128= ""a	b""  ; }
")).
Eval vm_compute in ("<<<M701>>>" ++ check (runes_of_ascii "// @lengthOf(
packet i8i8 { u128 o , }
options { MetaDataX = true;
    BodyLength =""packet"" ""packet"" x_y_z= 007
crc //x
= ""abc"" ;
    msg_type =
i16 }")).
Eval vm_compute in ("<<<M462>>>" ++ check (runes_of_ascii "packet uint8x
{ match pack
    as msg_type	{
    0123456789 :	float
}
,
} a1 //	t
packet
    { } options {packetx
    = '\x00'	; u128= ""a	b""  ; }
")).
Eval vm_compute in ("<<<M505>>>" ++ check (runes_of_ascii "packet uint8x
{ match pack
    as msg_type	{
    0123456789 :	float
}
,
} packet //	t
a1
    { } options {packetx
    = '\x00'	 u128= ""a	b""  ; }
")).
Eval vm_compute in ("<<<M1667>>>" ++ check (runes_of_ascii "options {
    body = """ ++ [28040; 24687]%N ++ runes_of_ascii """
}

packet matchKey {
    string_ @lengthOf(f32a),
    int32 int @lengthOf(u128),
    tag x_y_z,
}

packet BodyLength {
}")).
Eval vm_compute in ("<<<M120>>>" ++ check (runes_of_ascii "packet float {@calculatedFrom(
// " ++ [128512]%N ++ runes_of_ascii " emoji
// packet A { u8 x, }
""CRC32"" )Foo `" ++ [28040; 24687; 31867; 22411]%N ++ runes_of_ascii "`	,@calculatedFrom( ""a\\"" )
    zchar[ 0 ]	msg_type `doc` , }")).
Eval vm_compute in ("<<<M1664>>>" ++ check (runes_of_ascii "

  packet A
	{
	match

    k
    as 
n  { [""a""
,
    22
,	""c c"" , 4
	, 
""e""
,66  ,
    ""g""
,	8

,

    ""i""
	,10, ""k""
]:B	2 : C	}

,	}")).
Eval vm_compute in ("<<<M1436>>>" ++ check (runes_of_ascii "MetaData 
leftPad {chars 
	// c
MetaDataX  ,

    }packet	repeatCount {char[ 255 ]

uint8x
    `" ++ [233]%N ++ runes_of_ascii "`  ,}MetaData
pack { As  Foo

,}
")).
Eval vm_compute in ("<<<M1648>>>" ++ check (runes_of_ascii "packet A {
    match k as n {
        [
            1, 22, ""c c"", 4, 5,
            ""f"", 7
        ] : B,
        2 : C,
    },
}")).
Eval vm_compute in ("<<<M1258>>>" ++ check (runes_of_ascii "packet B {
    u8 a,
}
root packet P {
    u8 K,
    u8 L @lengthOf(Body),
    match K as Body {
        1 : B,
    },
}
")).
Eval vm_compute in ("<<<M1161>>>" ++ check (runes_of_ascii "MetaData leftPad { chars MetaDataX , } packet repeatCount { // c
char[ 255 ] uint8x `" ++ [233]%N ++ runes_of_ascii "` , } MetaData pack { As Foo , }")).
Eval vm_compute in ("<<<M39>>>" ++ check (runes_of_ascii "options { o =
    '\x00' // " ++ [128512]%N ++ runes_of_ascii " emoji
; T = u32 ; msg_type
// `tick` ""quote"" 'q'
//
= ""a	b""  a1 = '\x00'
}
// " ++ [128512]%N ++ runes_of_ascii " emoji
")).
Eval vm_compute in ("<<<M1244>>>" ++ check (runes_of_ascii "// top
root // c0
packet // c1
P { // c3
repeat // c4
char cs
    // c6
, u8 x // c9a
  // c9b
, }
    // c11
")).
Eval vm_compute in ("<<<M897>>>" ++ check (runes_of_ascii "packet A {
  match k as n {
    [""a"", 22, ""c c"", 4, ""e"", 66, ""g"", 8, ""i"", 10, ""k""] : B,
    2 : C
  },
}")).
Eval vm_compute in ("<<<M956>>>" ++ check (runes_of_ascii "packet A {
    Inner {
        u8 x `
x`,
        Deep {
            u8 y `
x`,
        },
    },
}")).
Eval vm_compute in ("<<<M1>>>" ++ check (runes_of_ascii "MetaData  crc {  Pad T
, zchar[
    0123456789
    ] a1 ,int8 trueish// c
, } packet float{ }
")).
Eval vm_compute in ("<<<M869>>>" ++ check (runes_of_ascii "packet A {
  match k as n {
    [1, ""bb"", 007, ""d"", 5, ""f"", 7, ""h"", 9] : B,
    2 : C
  },
}")).
Eval vm_compute in ("<<<M858>>>" ++ check (runes_of_ascii "packet A {
  match k as n {
    [""a"", 22, ""c c"", 4, ""e"", 66, ""g"", 8] : B,
    2 : C
  },
}")).
Eval vm_compute in ("<<<M612>>>" ++ check (runes_of_ascii "
packet
    asx {match u128 as lengthOf
{
//	t
// `tick` ""quote"" 'q'
255 : x ,
     ,	}")).
Eval vm_compute in ("<<<M1246>>>" ++ check (runes_of_ascii "options {
    LittleEndian = true;
}
root packet P {
    repeat char cs,
    u8 x,
}
")).
Eval vm_compute in ("<<<M816>>>" ++ check (runes_of_ascii "packet A {
  match k as n {
    [""a"", ""bb"", ""c c"", ""d"", ""e""] : B
    2 : C
  },
}")).
Eval vm_compute in ("<<<M269>>>" ++ check (runes_of_ascii "options
{ Z9_ ='\x00'  } packet trueish
{ // " ++ [128512]%N ++ runes_of_ascii " emoji
u16 calculatedFrom
, }")).
Eval vm_compute in ("<<<M822>>>" ++ check (runes_of_ascii "packet A {
  match k as n {
    [1, 22, ""c c"", 4, 5] : B
    2 : C
  },
}")).
Eval vm_compute in ("<<<M800>>>" ++ check (runes_of_ascii "packet A {
  match k as n {
    [1, 22, 007, 4] : B,
    2 : C
  },
}")).
Eval vm_compute in ("<<<M781>>>" ++ check (runes_of_ascii "packet A {
  match k as n {
    [""a"", ""bb""] : B
    2 : C
  },
}")).
Eval vm_compute in ("<<<M1222>>>" ++ check (runes_of_ascii "// top
packet
    // c0
x
    // c1
{
    // c2
}
    // c3
")).
Eval vm_compute in ("<<<M1406>>>" ++ check (runes_of_ascii "packet body {
    i32 f32a `{ , }`,
}

// c
options {
}")).
Eval vm_compute in ("<<<M1206>>>" ++ check (runes_of_ascii "packet body { i32
// c
f32a `{ , }` , } options { }")).
Eval vm_compute in ("<<<M1073>>>" ++ check (runes_of_ascii "packet A {} packet B {} MetaData M {} options {}")).
Eval vm_compute in ("<<<M1816>>>" ++ check (runes_of_ascii "root packet A {
    u8 x `tab
        	x`,
}")).
Eval vm_compute in ("<<<M1900>>>" ++ check (runes_of_ascii "
packet
A{
	u8
	x
	`d" ++ [8192]%N ++ runes_of_ascii "`, 	 // c" ++ [8192]%N ++ runes_of_ascii "

  }
")).
Eval vm_compute in ("<<<M1090>>>" ++ check (runes_of_ascii "packet A { @tag( // a
 1 ) u8 x, }")).
Eval vm_compute in ("<<<M1914>>>" ++ check (runes_of_ascii "packet A 
{  u8

x

`a

b` ,}
")).
Eval vm_compute in ("<<<M1945>>>" ++ check (runes_of_ascii "MetaData repeatCount {
}
//	t")).
Eval vm_compute in ("<<<M1595>>>" ++ check (runes_of_ascii "  packet

pack
    {
}

")).
Eval vm_compute in ("<<<M1395>>>" ++ check (runes_of_ascii "root packet chars {
}")).
Eval vm_compute in ("<<<M1839>>>" ++ check (runes_of_ascii "
packet falsey {}
")).
Eval vm_compute in ("<<<M1037>>>" ++ check (runes_of_ascii "// c" ++ [12]%N ++ runes_of_ascii "
packet A {
}")).
Eval vm_compute in ("<<<M1034>>>" ++ check (runes_of_ascii "packet A {
}// c" ++ [12]%N)).
Eval vm_compute in ("<<<M1738>>>" ++ check (runes_of_ascii "  options {	}
")).
Eval vm_compute in ("<<<M1040>>>" ++ check (runes_of_ascii "// c 	")).
Eval vm_compute in ("<<<M746>>>" ++ check (runes_of_ascii "UXk")).
