From FP Require Import Lexer Parser ShowPT Digest Formatter.
From Coq Require Import String List NArith.
Import ListNotations.
Open Scope string_scope.
Set Printing Width 100000000.
Set Printing Depth 100000000.
Definition show_fres (r : fres) : string :=
  match r with
  | FOk s => "OK:" ++ sh_escaped s ""
  | FErr s => "ERR:" ++ sh_escaped s ""
  | FPanic p => "PANIC:" ++ p
  end.
Definition check (rs : list rune) : string := digest (show_fres (format_res rs)).
Definition full (rs : list rune) : string := show_fres (format_res rs).
Eval vm_compute in ("<<<M1637>>>" ++ check (runes_of_ascii "options {
    matchKey = true;
    packetx = uint32;
    metadata = int64;
    Packet = float64
    _x = """ ++ [233]%N ++ runes_of_ascii "t" ++ [233]%N ++ runes_of_ascii """
}

root packet asx {
    @rightPad('\x00')
    @calculatedFrom("""")
    @tag(4294967296)
    msg_type {
        repeat zchar[65535] charz `{ , }`,
        char roots,
        T {
            rootA len,
        },
        repeat u128 `u8 x,`,
    },
}

root packet MetaDataX {
    // c
    char[4294967296] Z9_,
    lengthOf rootA `{ , }`,
    @rightPad('0')
    zchar[00] i8i8,
    char[1] a1,
    // c
    float32 crc `
        `,
    Z9_ {
        f32a {
            float32 len,
            f32a {
                char[0] pack @calculatedFrom(""it's""),
                T @lengthOf(f32a),
                i64 lengthOf @calculatedFrom(""x y""),
                zchar[4294967296] As @calculatedFrom(""x y""),
            },
        },
        repeat calculatedFrom {
            repeat Packet {
                x,
            },
        },
        u8x {
            metadata @calculatedFrom(""1""),
            repeat zchar[65535] Z9_,
            // " ++ [128512]%N ++ runes_of_ascii " emoji
            // a // b
        },
        match As as repeatCount {
            65535 : roots,
            ""packet"" : uint8x,
            3 : A,
            ""{,}"" : leftPad,
        },
    },
    @calculatedFrom(""// no comment"")
    repeat stringy asx,
    char[] MetaDataX @lengthOf(A),
    @rightPad('0')
    @leftPad(' ')
    Z9_ @calculatedFrom(""a\""b""),
    match o as repeatCount {
        [3, 0123456789] : string_,
        4294967296 : Logon,
        7 : o,
    },
}

packet body {
}")).
Eval vm_compute in ("<<<M378>>>" ++ check (runes_of_ascii "options {
	StringPrefixLenType = u16;
	ArrayPrefixLenType = u16;
}

packet SampleBinary {
    uint16 MsgType `" ++ [28040; 24687; 31867; 22411]%N ++ runes_of_ascii "`,
    u16 BodyLenght @lengthOf(Body) `" ++ [28040; 24687; 20307; 38271; 24230]%N ++ runes_of_ascii "`,
    match MsgType as Body {
        1 : Logon,
        2 : Logout,
        3 : Heartbeat,
        4 : RiskControlRequest,
        5 : RiskControlResponse,
    },
        @calculatedFrom(""CRC32"")
    u32 Ckecksum `" ++ [26657; 39564; 21644]%N ++ runes_of_ascii "`,
}

packet Logon {
     @leftPad('0')
    char[10] UserName `" ++ [29992; 25143; 21517]%N ++ runes_of_ascii "`,
    string Password `" ++ [23494; 30721]%N ++ runes_of_ascii "`,
    uint64 ClientId `" ++ [23458; 25143; 31471]%N ++ runes_of_ascii "ID`,
    u16 HeartbeatInterval `" ++ [24515; 36339; 38388; 38548]%N ++ runes_of_ascii "`,
}

packet Logout {
      @rightPad('0')
    char[10] UserName `" ++ [29992; 25143; 21517]%N ++ runes_of_ascii "`,
    uint64 ClientId `" ++ [23458; 25143; 31471]%N ++ runes_of_ascii "ID`,
}

packet Heartbeat {
}

packet RiskControlRequest {
    string UniqueOrderId `" ++ [21807; 19968; 35746; 21333; 21495]%N ++ runes_of_ascii "`,
    char[16] ClOrdID `" ++ [23458; 25143; 35746; 21333; 21495]%N ++ runes_of_ascii "`,
    char[3] MarketID `" ++ [24066; 22330]%N ++ runes_of_ascii "id`,
    char[12] SecurityID `" ++ [35777; 21048; 20195; 30721]%N ++ runes_of_ascii "`,
    char Side `" ++ [20080; 21334; 26041; 21521]%N ++ runes_of_ascii "`,
    char OrderType `" ++ [35746; 21333; 31867; 22411]%N ++ runes_of_ascii "`,
    u64 Price `" ++ [20215; 26684]%N ++ runes_of_ascii "`,
    u32 Qty `" ++ [25968; 37327]%N ++ runes_of_ascii "`,
    repeat string ExtraInfo `" ++ [38468; 21152; 20449; 24687]%N ++ runes_of_ascii "`,
    repeat SubOrder {
    		char[16] ClOrdID `" ++ [23376; 35746; 21333; 21495]%N ++ runes_of_ascii "`,
    		u64 Price `" ++ [23376; 35746; 21333; 20215; 26684]%N ++ runes_of_ascii "`,
    		u32 Qty `" ++ [23376; 35746; 21333; 25968; 37327]%N ++ runes_of_ascii "`,
    	},
}

packet RiskControlResponse {
    string UniqueOrderId `" ++ [21807; 19968; 35746; 21333; 21495]%N ++ runes_of_ascii "`,
    i32 Status `" ++ [29366; 24577]%N ++ runes_of_ascii "`,
    string Msg `" ++ [32467; 26524; 20449; 24687]%N ++ runes_of_ascii "`,
    repeat Detail,
}

packet Detail {
    string RuleName `" ++ [35268; 21017; 21517; 31216]%N ++ runes_of_ascii "`,
    u16 Code `" ++ [21407; 22240; 20195; 30721]%N ++ runes_of_ascii "`,
}")).
Eval vm_compute in ("<<<M1366>>>" ++ check (runes_of_ascii "options {
    LittleEndian = true;
    StringPrefixLenType = u16;
    ArrayPrefixLenType = u8;
    FixedStringPadChar = ' ';
}
packet Ack {
    @leftPad(' ') char[5] lastPx,
    zchar[4] count,
    repeat InVenue30 {
        char[9] Side2,
        char[12] venue,
    },
}
packet Order {
    int16 Note,
    repeat InAcct28 {
        InSym3 {
            Ack,
            char[4] lastPx,
            char[1] venue,
            f32 Ref,
        },
        repeat InTag729 {
            char[3] Side2,
            uint64 Acct,
            char[] price,
            zchar[9] Note,
            zchar[9] venue,
        },
        char[] count,
        Ack,
        char[] Px,
    },
    u8 f1,
    Ack,
}
packet Fill {
    zchar[7] x,
    Order,
    @leftPad(' ') char[9] venue,
    string count,
    char[] Flags,
}
packet Logon {
}
packet Reject {
    Order,
    char[] sym,
}
root packet Quote {
    string price,
    i64 Flags,
    repeat Fill,
    zchar[9] x,
    f32 lastPx,
    repeat Ack,
}
")).
Eval vm_compute in ("<<<M1361>>>" ++ check (runes_of_ascii "// top
options
    // c0
{ LittleEndian // c2a
  // c2b
= // c3
true // c4
;
    // c5
StringPrefixLenType =
    // c7
u16 // c8
; // c9a
  // c9b
ArrayPrefixLenType = u16 // c12a
  // c12b
;
    // c13
FixedStringPadFromLeft // c14
= // c15a
  // c15b
true
    // c16
; // c17a
  // c17b
FixedStringPadChar = // c19
'0' // c20
; // c21
}
    // c22
packet
    // c23
Leg { // c25a
  // c25b
u16 // c26
Flags // c27
,
    // c28
u8 price , } // c32
packet
    // c33
Quote // c34a
  // c34b
{ uint16
    // c36
count
    // c37
, // c38
InNote89 // c39a
  // c39b
{ repeat Leg // c42a
  // c42b
, // c43a
  // c43b
}
    // c44
, } root // c47
packet // c48a
  // c48b
Ack // c49a
  // c49b
{
    // c50
char[ 3 ]
    // c53
price // c54a
  // c54b
, // c55
u64 sym ,
    // c58
zchar[ // c59
1 // c60a
  // c60b
] // c61
Tail // c62a
  // c62b
, // c63
} // c64a
  // c64b
")).
Eval vm_compute in ("<<<M116>>>" ++ check (runes_of_ascii "packet crc {uint16
    // " ++ [128512]%N ++ runes_of_ascii " emoji
    MetaDataX @calculatedFrom( ""{,}""
)	`two words`
, @tag( 3
    //x
    )repeat roots { repeat string	f32a ,	} , @tag(	42 )
char[]//
a1  `" ++ [28040; 24687; 31867; 22411]%N ++ runes_of_ascii "` ,@calculatedFrom(// a // b
""packet"" // trailing space 
) i16
    // trailing space 
    float
    `tab	here` , match metadata as Logon	{
    """"
    :u , 42: MetaDataX
255:
roots,[ 3 ,10
//
// `tick` ""quote"" 'q'
]: _x 4294967296 :
chars
10 // " ++ [128512]%N ++ runes_of_ascii " emoji
: uint8x , }
,
@lengthOf(  trueish )
    repeat char[// 50% %s
007] roots ,}  options { roots  = int32 ; } root packet Logon
    { // packet A { u8 x, }
@leftPad
( '\x00')asx @calculatedFrom(
    ""// no comment"" ) `{ , }`
    , }
MetaData
    Packet {
    i32
// " ++ [128512]%N ++ runes_of_ascii " emoji
//
trueish `100% of %d`, }")).
Eval vm_compute in ("<<<M1501>>>" ++ check (runes_of_ascii "packet crc {
    uint16 MetaDataX @calculatedFrom(""{,}"") `two words`,
    @tag(3)
    repeat roots {
        repeat string f32a,
    },
    @tag(42)
    char[] a1 `" ++ [28040; 24687; 31867; 22411]%N ++ runes_of_ascii "`,
    @calculatedFrom(""packet"")
    i16 float `tab	here`,
    match metadata as Logon {
        """" : u,
        42 : MetaDataX,
        255 : roots,
        [3, 10] : _x,
        4294967296 : chars,
        10 : uint8x,
    },
    @lengthOf(trueish)
    repeat char[007] roots,
}

options {
    roots = int32;
}

root packet Logon {
    // packet A { u8 x, }
    @leftPad('\x00')
    asx @calculatedFrom(""// no comment"") `{ , }`,
}

MetaData Packet {
    i32 trueish `100% of %d`,
}")).
Eval vm_compute in ("<<<M1136>>>" ++ check (runes_of_ascii "// top
packet
    // c0
_x
    // c1
{
    // c2
match
    // c3
Foo
    // c4
as
    // c5
Z9_
    // c6
{
    // c7
""a	b""
    // c8
:
    // c9
Pad
    // c10
,
    // c11
}
    // c12
,
    // c13
repeat
    // c14
x
    // c15
`// not a comment`
    // c16
,
    // c17
@rightPad
    // c18
(
    // c19
' '
    // c20
)
    // c21
@calculatedFrom(
    // c22
""a\\""
    // c23
)
    // c24
metadata
    // c25
MetaDataX
    // c26
,
    // c27
@tag(
    // c28
0
    // c29
)
    // c30
Logon
    // c31
int
    // c32
`two words`
    // c33
,
    // c34
}
    // c35
")).
Eval vm_compute in ("<<<M1508>>>" ++ check (runes_of_ascii "
// @lengthOf(
packet
Pad{ string_

    @calculatedFrom( """ ++ [128512]%N ++ runes_of_ascii """) , 
	//	t
  // c
	char[	255 ]	metadata	@calculatedFrom(
""1"") 
	    // trailing space 
  // 50% %s
  `line1
line2`

,@rightPad

    ( '0')@lengthOf(metadata)@tag(007 ) repeat char[ 0

    ] MetaDataX
    , uint8x

,

    @tag(

    0
)  f32	uint8x

    @lengthOf(

    roots
), repeat
Packet 

    //x
  // " ++ [27880; 37322]%N ++ runes_of_ascii "
  	, MetaDataX`line1
line2`,

    @lengthOf(int 
)
	string
len  `// not a comment` ,
    char[ 
3// c
  	]
Pad , // " ++ [27880; 37322]%N ++ runes_of_ascii "
	}")).
Eval vm_compute in ("<<<M268>>>" ++ check (runes_of_ascii "packet x_y_z {repeat
asx { falsey	@lengthOf( u )`100% of %d`
    ,repeat
matchKey { x_y_z@calculatedFrom(""a\\""
// trailing space 
// trailing space 
)
, i64
// 50% %s
//
calculatedFrom @calculatedFrom( ""// no comment"" )  `{ , }` , }// 50% %s
,
// c
//	t
char[ // 50% %s
007 ] Foo @calculatedFrom( ""abc""
), }
    , repeat
    uint32 Pad, repeat Logon
{
Logon
    {
    char[] packetx @calculatedFrom(
// " ++ [128512]%N ++ runes_of_ascii " emoji
// `tick` ""quote"" 'q'
""it's"" )
`
` ,
}, i8 len, asx , } , }
")).
Eval vm_compute in ("<<<M1132>>>" ++ check (runes_of_ascii "// top
packet // c0
float // c1
{ // c2
@rightPad // c3
( // c4
) // c5
rootA // c6
@lengthOf( // c7
trueish // c8
) // c9
, // c10
stringy // c11
@lengthOf( // c12
matchKey // c13
) // c14
, // c15
char[ // c16
4294967296 // c17
] // c18
pack // c19
@lengthOf( // c20
uint8x // c21
) // c22
, // c23
} // c24
root // c25
packet // c26
trueish // c27
{ // c28
repeat // c29
uint64 // c30
u128 // c31
`say ""hi""` // c32
, // c33
} // c34
")).
Eval vm_compute in ("<<<M371>>>" ++ check (runes_of_ascii "MetaData msg_type {//
u8
    // `tick` ""quote"" 'q'
    Foo `// not a comment` ,char[
    007] Pad
`u8 x,`,f32
    o
    , char[0123456789]
falsey ,
    float64 metadata
, zchar[0123456789
] uint8x ,}
    packet // @lengthOf(
string_
{ i16 leftPad `// not a comment` ,
    }packet //
zchar {
MetaDataX @calculatedFrom(""a	b""
    //	t
    ) //	t
`tab	here` ,@tag(255 )string
    i64_
// 50% %s
// 50% %s
,	}")).
Eval vm_compute in ("<<<M1156>>>" ++ check (runes_of_ascii "// top
MetaData // c0
msg_type // c1
{ // c2
int32 // c3
As // c4
`crlf
line` // c5
, // c6
MetaDataX // c7
x // c8
`a\` // c9
, // c10
int8 // c11
_x // c12
, // c13
char[] // c14
As // c15
`u8 x,` // c16
, // c17
zchar[ // c18
3 // c19
] // c20
uint8x // c21
, // c22
As // c23
Foo // c24
, // c25
} // c26
root // c27
packet // c28
repeatCount // c29
{ // c30
} // c31
")).
Eval vm_compute in ("<<<M234>>>" ++ check (runes_of_ascii "MetaData Header /// triple
{ As
options1 `two words` ,u64
matchKey `100% of %d`
    ,
    }
    root packet _x
{ @lengthOf( i64_ )A @calculatedFrom(
    // trailing space 
    ""{,}"" )	, x matchKey  , o@calculatedFrom( //	t
""{,}"" )	, @rightPad( '0' )
@lengthOf(Z9_	)@calculatedFrom(
    ""a\\"")
zchar[ 65535
] Packet @lengthOf(
    Packet)	,}
")).
Eval vm_compute in ("<<<M1886>>>" ++ check (runes_of_ascii "options {
    LittleEndian

=

true
	;	}
    packet Sub
{
    u8 
a ,
    @calculatedFrom( ""CRC16"" 
)u64 
SubSum
	,
    }  root
packet  Frame	{
	u16
MsgType

    , u16 BodyLen 
@lengthOf(  Body
) ,	Sub
	Body
    , string note

    ,
@calculatedFrom(
""CRC16""

)
	u64 
Checksum 
,u8
tail ,

    }")).
Eval vm_compute in ("<<<M329>>>" ++ check (runes_of_ascii "packet roots {  pack  ``
, //	t
T @lengthOf( tag ) , x{ match len as
    packetx {	[10] : // c
rootA ,
    }, repeat
string
leftPad
`
` , //	t
char[ 7 ] Packet
@calculatedFrom(	""a	b""
    ) ,
    char[]
    uint8x  ``
// trailing space 
// a // b
,} ,
uint16
leftPad
,
}
")).
Eval vm_compute in ("<<<M542>>>" ++ check (runes_of_ascii "packet
    asx { @calculatedFrom(
""""  ) @tag( 255 )repeat
// packet A { u8 x, }
// trailing space 
int16 u8x
,
@tag(
    //
    007 )
    @tag( 0
    /// triple
    ) @tag( 1) u
    @lengthOf( T @lengthOf ),
// `tick` ""quote"" 'q'
//x
} // " ++ [128512]%N ++ runes_of_ascii " emoji")).
Eval vm_compute in ("<<<M1402>>>" ++ check (runes_of_ascii "packet Sub
    { u8

    a 
,@calculatedFrom( ""CRC16"" 
) 
i64

SubSum ,}

root	packet Frame

{

u16 MsgType
	,u16
BodyLen @lengthOf(	Body	),	Sub 
Body
    , string note

    ,  @calculatedFrom(
    ""CRC16""
)

i64 Checksum  ,u8 tail  ,}
")).
Eval vm_compute in ("<<<M543>>>" ++ check (runes_of_ascii "packet
    asx { @calculatedFrom(
""""  ) @tag( 255 )repeat
// packet A { u8 x, }
// trailing space 
int16 u8x
,
@tag(
    //
    007 )
    @tag( 0
    /// triple
    " ++ [65279]%N ++ runes_of_ascii ") @tag( 1) u
    @lengthOf( T ),
// `tick` ""quote"" 'q'
//x
} // " ++ [128512]%N ++ runes_of_ascii " emoji")).
Eval vm_compute in ("<<<M513>>>" ++ check (runes_of_ascii "packet
    asx { @calculatedFrom(
""""  ) @tag( 255 )repeat
// packet A { u8 x, }
// trailing space 
int16 u8x
,
@tag(
    //
    007 )
    @tag( 0
    /// triple
    ) @tag( 1) u
    @lengthOf( T ,)
// `tick` ""quote"" 'q'
//x
} // " ++ [128512]%N ++ runes_of_ascii " emoji")).
Eval vm_compute in ("<<<M451>>>" ++ check (runes_of_ascii "packet
    asx { @calculatedFrom(
""""  ) @tag( 255 )repeat
// packet A { u8 x, }
// trailing space 
int16 u8x
,

    //
    007 )
    @tag( 0
    /// triple
    ) @tag( 1) u
    @lengthOf( T ),
// `tick` ""quote"" 'q'
//x
} // " ++ [128512]%N ++ runes_of_ascii " emoji")).
Eval vm_compute in ("<<<M1339>>>" ++ check (runes_of_ascii "
packet
Logon
	{  string
user,	}
    root  packet
Frame
{u8 K ,match

K
as	Body
	{

1
:	Logon,  2
    : Logout
,

    }

,
    Tail,
    }
    packet
Logout {u16
reason

,
}
    packet  Tail

{  u32 crc  , }

")).
Eval vm_compute in ("<<<M279>>>" ++ check (runes_of_ascii "MetaData zchar { }
packet
i8i8
    { @calculatedFrom(""\n"") i8 tag@lengthOf(Packet)
    // " ++ [128512]%N ++ runes_of_ascii " emoji
    , lengthOf{	char[] leftPad
`{ , }`  , i32 crc @calculatedFrom(  ""a\\"" /// triple
)
, },
}
")).
Eval vm_compute in ("<<<M1267>>>" ++ check (runes_of_ascii "// top
root
    // c0
packet
    // c1
P // c2
{ // c3
hdr {
    // c5
u8 // c6
a // c7a
  // c7b
, } ,
    // c10
u8 // c11a
  // c11b
x // c12a
  // c12b
, // c13a
  // c13b
} ")).
Eval vm_compute in ("<<<M647>>>" ++ check (runes_of_ascii "MetaData u
    { } MetaData o
{ float uint8x
`100% of %d` ,repeatCount u8x, string_ leftPad
, i32
    Foo , int64 int64 x `two words` , calculatedFrom
stringy `a\` ,
}
")).
Eval vm_compute in ("<<<M642>>>" ++ check (runes_of_ascii "MetaData u
    { } MetaData o
{ float uint8x
`100% of %d` ,repeatCount u8x, string_ leftPad
, i32
    Foo , , int64 x `two words` , calculatedFrom
stringy `a\` ,
}
")).
Eval vm_compute in ("<<<M568>>>" ++ check (runes_of_ascii "MetaData u
    { } o MetaData
{ float uint8x
`100% of %d` ,repeatCount u8x, string_ leftPad
, i32
    Foo , int64 x `two words` , calculatedFrom
stringy `a\` ,
}
")).
Eval vm_compute in ("<<<M561>>>" ++ check (runes_of_ascii "MetaData u
    {  MetaData o
{ float uint8x
`100% of %d` ,repeatCount u8x, string_ leftPad
, i32
    Foo , int64 x `two words` , calculatedFrom
stringy `a\` ,
}
")).
Eval vm_compute in ("<<<M1562>>>" ++ check (runes_of_ascii "packet A {
    match k as n {
        [
            1, ""bb"", 007, ""d"", 5,
            ""f"", 7, ""h"", 9, ""j"",
            11
        ] : B,
        2 : C,
    },
}")).
Eval vm_compute in ("<<<M188>>>" ++ check (runes_of_ascii "// `tick` ""quote"" 'q'
options
    //	t
    { metadata  = ""abc"" // `tick` ""quote"" 'q'
a1  = true
// a // b
// " ++ [27880; 37322]%N ++ runes_of_ascii "
; }
MetaData
falsey
{ char[]
Logon ,}")).
Eval vm_compute in ("<<<M1820>>>" ++ check (runes_of_ascii "
packet 
A

{

match

    k

    as n{
[
1  , 22  ,
""c c""	, 
4

    ,
5	,

    ""f"" , 7 ,

8
,
	""i"" ]  :B

,	2	:

C

    }
    ,
}

")).
Eval vm_compute in ("<<<M1652>>>" ++ check (runes_of_ascii "

  packet
	A{
	match
k

as n
{ [

    ""a"" 
,

    22 ,
""c c""

    ,	4

, ""e"" , 66

,""g""
,
8  , ""i""
    ] :
	B ,
2  : C } ,}

")).
Eval vm_compute in ("<<<M1507>>>" ++ check (runes_of_ascii "// c
options {
}

options {
    MetaDataX = char;
}

MetaData Pad {
    i8 metadata,
    string stringy,
    int8 As `{ , }`,
}")).
Eval vm_compute in ("<<<M936>>>" ++ check (runes_of_ascii "packet A {
    Inner {
        u8 x `a
    b
  c`,
        Deep {
            u8 y `a
    b
  c`,
        },
    },
}")).
Eval vm_compute in ("<<<M1215>>>" ++ check (runes_of_ascii "options { } options { MetaDataX = // c
char ; } MetaData Pad { i8 metadata , string stringy , int8 As `{ , }` , }")).
Eval vm_compute in ("<<<M1247>>>" ++ check (runes_of_ascii "options { } options { MetaDataX = char ; } MetaData Pad { i8 metadata , string stringy , int8 As `{ , }` , // c
}")).
Eval vm_compute in ("<<<M879>>>" ++ check (runes_of_ascii "packet A {
  match k as n {
    [""a"", ""bb"", ""c c"", ""d"", ""e"", ""f"", ""g"", ""h"", ""i"", ""j""] : B
    2 : C
  },
}")).
Eval vm_compute in ("<<<M1804>>>" ++ check (runes_of_ascii "packet  A	{ 
Inner 
{

u8
    x  `100% of %s %d %v` 
, Deep
{  u8 y`100% of %s %d %v`  ,
	}  ,

}	,}
")).
Eval vm_compute in ("<<<M880>>>" ++ check (runes_of_ascii "packet A {
  match k as n {
    [1, ""bb"", 007, ""d"", 5, ""f"", 7, ""h"", 9, ""j""] : B,
    2 : C
  },
}")).
Eval vm_compute in ("<<<M885>>>" ++ check (runes_of_ascii "packet A {
  match k as n {
    [1, 22, ""c c"", 4, 5, ""f"", 7, 8, ""i"", 10] : B
    2 : C
  },
}")).
Eval vm_compute in ("<<<M1768>>>" ++ check (runes_of_ascii "
packet
	orderItem{

    u8 a
,

    }root  packet newOrder{	orderItem ,
u8 x , }
")).
Eval vm_compute in ("<<<M753>>>" ++ check (runes_of_ascii "} @tag( string zchar[ float32 f64 @calculatedFrom( i8 lengthOf ) u64 ' ' uint8 @tag(")).
Eval vm_compute in ("<<<M1316>>>" ++ check (runes_of_ascii "packet orderItem {
    u8 a,
}
root packet newOrder {
    orderItem,
    u8 x,
}
")).
Eval vm_compute in ("<<<M824>>>" ++ check (runes_of_ascii "packet A {
  match k as n {
    [1, 22, 007, 4, 5, 66] : B,
    2 : C
  },
}")).
Eval vm_compute in ("<<<M803>>>" ++ check (runes_of_ascii "packet A {
  match k as n {
    [1, ""bb"", 007, ""d""] : B
    2 : C
  },
}")).
Eval vm_compute in ("<<<M1617>>>" ++ check (runes_of_ascii "packet
	leftPad
	{	i16 charz// trailing space 
	,// @lengthOf(
  }
")).
Eval vm_compute in ("<<<M118>>>" ++ check (runes_of_ascii "MetaData i64_ { zchar[ // " ++ [27880; 37322]%N ++ runes_of_ascii "
0123456789 ]
    i8i8
    `" ++ [233]%N ++ runes_of_ascii "`,  }")).
Eval vm_compute in ("<<<M1266>>>" ++ check (runes_of_ascii "root packet P {
    hdr {
        u8 a,
    },
    u8 x,
}
")).
Eval vm_compute in ("<<<M64>>>" ++ check (runes_of_ascii "options	{
    BodyLength=
true ;string_= false ;	} 	 ")).
Eval vm_compute in ("<<<M925>>>" ++ check (runes_of_ascii "MetaData M {
    u8 x `a
b`,
    T t `a
b`,
}")).
Eval vm_compute in ("<<<M938>>>" ++ check (runes_of_ascii "root packet A {
    u8 x `a
    b
  c`,
}")).
Eval vm_compute in ("<<<M1094>>>" ++ check (runes_of_ascii "MetaData M {
}// c
MetaData N {
}// d")).
Eval vm_compute in ("<<<M30>>>" ++ check (runes_of_ascii "
root packet Pad
{
char[] i8i8 , }")).
Eval vm_compute in ("<<<M950>>>" ++ check (runes_of_ascii "root packet A {
    u8 x `x
`,
}")).
Eval vm_compute in ("<<<M1027>>>" ++ check (runes_of_ascii "packet A {
 u8 x `d" ++ [8202]%N ++ runes_of_ascii "`, // c" ++ [8202]%N ++ runes_of_ascii "
}")).
Eval vm_compute in ("<<<M945>>>" ++ check (runes_of_ascii "packet A {
    u8 x `x
`,
}")).
Eval vm_compute in ("<<<M1141>>>" ++ check (runes_of_ascii "// c
root packet a1 { }")).
Eval vm_compute in ("<<<M1665>>>" ++ check (runes_of_ascii "  packet  x // c
{}
")).
Eval vm_compute in ("<<<M1041>>>" ++ check (runes_of_ascii "// c" ++ [8239]%N ++ runes_of_ascii "
packet A {
}")).
Eval vm_compute in ("<<<M1033>>>" ++ check (runes_of_ascii "packet A {
}// c" ++ [8233]%N)).
Eval vm_compute in ("<<<M400>>>" ++ check (runes_of_ascii "packet
    asx")).
Eval vm_compute in ("<<<M1009>>>" ++ check (runes_of_ascii "// c" ++ [133]%N)).
Eval vm_compute in ("<<<M160>>>" ++ check (@nil rune)).
