From FP Require Import Lexer Parser ShowPT Digest Formatter.
From Coq Require Import String List NArith.
Import ListNotations.
Open Scope string_scope.
Set Printing Width 100000000.
Set Printing Depth 100000000.
Definition show_fres (r : fres) : string :=
  match r with
  | FOk s => "OK:" ++ sh_escaped s ""
  | FErr s => "ERR:" ++ sh_escaped s ""
  | FPanic p => "PANIC:" ++ p
  end.
Definition check (rs : list rune) : string := digest (show_fres (format_res rs)).
Definition full (rs : list rune) : string := show_fres (format_res rs).
Eval vm_compute in ("<<<M1397>>>" ++ check (runes_of_ascii "packet A {
    @rightPad('0')
    repeat i8i8 {
        zchar[007] packetx,
        metadata `" ++ [28040; 24687; 31867; 22411]%N ++ runes_of_ascii "`,
        repeat float64 T,
    },
    @tag(0)
    Z9_ {
        int @lengthOf(tag) `line1
        line2`,
        repeat i8i8 {
            zchar[00] stringy,
            repeat f32a {
                match i64_ as string_ {
                    [255, ""{,}"", 0123456789] : x_y_z,
                    """ ++ [233]%N ++ runes_of_ascii "t" ++ [233]%N ++ runes_of_ascii """ : A,
                    ""`tick`"" : len,
                },
            },
            //
            repeat u8x {
                u16 Z9_ @calculatedFrom(""" ++ [128512]%N ++ runes_of_ascii """) `line1
                line2`,
                f32 matchKey,
            },// " ++ [27880; 37322]%N ++ runes_of_ascii "
            float64 u8x `
            `,
        },//
    },// `tick` ""quote"" 'q'
    a1 {
        repeat zchar[007] Foo `two words`,
        f32a @calculatedFrom(""" ++ [28040; 24687]%N ++ runes_of_ascii """),
        int64 i64_ @calculatedFrom(""`tick`""),
    },
    @lengthOf(Header)
    f32 stringy @calculatedFrom(""x y"") `say ""hi""`,
    Foo,
    float64 BodyLength @calculatedFrom(""packet""),
    uint32 int,
}

packet string_ {
    @tag(4294967296)
    repeat u `two words`,
    repeat zchar[0] BodyLength,
    @tag(255)
    /// triple
    int `line1
    line2`,
    uint8x `it's`,
    @tag(65535)
    int8 metadata `" ++ [233]%N ++ runes_of_ascii "`,/// triple
    match options1 as float {
        3 : f32a,
        """ ++ [28040; 24687]%N ++ runes_of_ascii """ : charz,
    },
    match uint8x as string_ {
        ""CRC32"" : x,
    },
    uint8 packetx `crlf
    line`,
    @leftPad()
    zchar[0] Foo `say ""hi""`,
}")).
Eval vm_compute in ("<<<M1774>>>" ++ check (runes_of_ascii "
root  packet	// " ++ [27880; 37322]%N ++ runes_of_ascii "

crc
{
	@lengthOf(
    As	)

    @calculatedFrom( ""\" ++ [233]%N ++ runes_of_ascii """  ) 
zchar[4294967296 ] 
MetaDataX`doc` 
, 	 /// triple
	rootA @calculatedFrom(
	""it's""  )
,
	@tag(  65535
) @tag( // c
  	7
)
    @tag( 00 
	//
// c
)

len@lengthOf(
	A
    )	`two words`  ,
	// trailing space 
  	// " ++ [128512]%N ++ runes_of_ascii " emoji

string
rootA  @lengthOf(

pack
// trailing space 
  //	t
    ) ,  
      // " ++ [128512]%N ++ runes_of_ascii " emoji

  // trailing space 
  repeat 
zchar
, 
@calculatedFrom(

    ""abc""

)
@leftPad
('\x00'
)

    @rightPad  (
    )

match

    x_y_z
	as

    Z9_ 
{  ""it's""
    :
    Logon	//x

, ""x y"" : Packet,	""abc""  :

    trueish

    4294967296// @lengthOf(
  	:
repeatCount """ ++ [128512]%N ++ runes_of_ascii """ :
x_y_z
}

, char[  10// @lengthOf(
    ]  stringy
    `it's` ,

@leftPad ('\x00'

)
	rootA @lengthOf(
	i64_ ),
	}	MetaData
falsey
{ Packet repeatCount`tab	here`, 
} MetaData

string_{ float64 roots	`line1
line2`
,char
    As 	 //
`
`
,zchar[ 65535  ]  falsey
	`a\`	,
A T ,
	_x  metadata ,	}

packet
	_x 	 // packet A { u8 x, }
    	{
    zchar[

255	]string_ @lengthOf(  
  //	t
	// @lengthOf(

u128 
)
    `{ , }`  ,

    }
root
packet Packet

{

    repeat	// " ++ [128512]%N ++ runes_of_ascii " emoji
  lengthOf 
,

    }
")).
Eval vm_compute in ("<<<M1352>>>" ++ check (runes_of_ascii "  options
    { 
StringPrefixLenType 
=
    u64 ; ArrayPrefixLenType  =u32	;  FixedStringPadFromLeft	=false
    ; 
}
packet	Party
{ zchar[
	7

]
OrderId
    ,InTail6 { repeat

char[

1

] msgKind
	,
char[
    3 ] 
Tail
    ,
    char[  3
    ]
Flags 
, 
i16

tag7

, } , @rightPad(  '0'
	)
	char[ 12	] clOrdID
    ,  }

    packet
Quote
    {
	@leftPad 
(

    '0'	) char[
    11 
]

    price, repeat InCount7{ i32
x,	Party ,
u8 
Ref	, u8
    tag7 ,	},
	char[] seqNo

,  Party 
,

} packet

Logon
{
@rightPad

    ( '\x00'	)
	char[
5
]
Note
    , i16 sym  ,
    InPrice72 {  char[
	9
	]

Ref
, zchar[  1
    ]venue
	,
    }

    ,
	char[]
clOrdID ,

    }root  packet

Reject
    {repeat  Logon	,	@leftPad (
' '
)

char[4
]
    seqNo  , zchar[5
    ] 
Acct

    , 
u32 x ,
    u16
f1

    @lengthOf( 
Body)
,  match

    x

as 
Body	{

    [ 
169

, 
74	] 
:	Quote

    , 45:
Party
    ,

    7: Logon

    ,} ,
}")).
Eval vm_compute in ("<<<M1350>>>" ++ check (runes_of_ascii "options {
    StringPrefixLenType = u64;
    ArrayPrefixLenType = u32;
    FixedStringPadFromLeft = false;
}
packet Party {
    zchar[7] OrderId,
    InTail6 {
        repeat char[1] msgKind,
        char[3] Tail,
        char[3] Flags,
        i16 tag7,
    },
    @rightPad('0') char[12] clOrdID,
}
packet Quote {
    @leftPad('0') char[11] price,
    repeat InCount7 {
        i32 x,
        Party,
        u8 Ref,
        u8 tag7,
    },
    char[] seqNo,
    Party,
}
packet Logon {
    @rightPad('\x00') char[5] Note,
    i16 sym,
    InPrice72 {
        char[9] Ref,
        zchar[1] venue,
    },
    char[] clOrdID,
}
root packet Reject {
    repeat Logon,
    @leftPad(' ') char[4] seqNo,
    zchar[5] Acct,
    u32 x,
    u16 f1 @lengthOf(Body),
    match x as Body {
        [169, 74] : Quote,
        45 : Party,
        7 : Logon,
    },
}
")).
Eval vm_compute in ("<<<M1483>>>" ++ check (runes_of_ascii "packet 	 // packet A { u8 x, }
  tag	{

@calculatedFrom(	""x y""  )lengthOf{options1`
`, 
}	,

    @tag( 
7

    )
    int  { 
    //x

// " ++ [27880; 37322]%N ++ runes_of_ascii "
  char[  007 
] // `tick` ""quote"" 'q'
      calculatedFrom
@lengthOf(
metadata 
) ,

tag
@lengthOf(falsey) , f32 
// " ++ [128512]%N ++ runes_of_ascii " emoji
    calculatedFrom 
	// `tick` ""quote"" 'q'

	//

	`{ , }`
    ,  i8i8 {  string i64_	@lengthOf(
asx  )

`it's`	, 
u 
@calculatedFrom(

""\n""
)
, }

    ,
} 
,
@calculatedFrom(	""abc""  //
)
@leftPad( 
' '
	)  uint64  calculatedFrom	, 	 // " ++ [27880; 37322]%N ++ runes_of_ascii "

	}
packet
o  { Header,
@lengthOf(

i8i8 )

float32

Pad  // c
  ,

char[

42]leftPad
@calculatedFrom(
	"""" // " ++ [128512]%N ++ runes_of_ascii " emoji
    )	, 
@tag(255

)body u
,
    } 
packet lengthOf

{ 
    // packet A { u8 x, }
	// c
  @tag(
255 	 //x
      )char[ 0123456789	]
	o
`
`,  }
")).
Eval vm_compute in ("<<<M219>>>" ++ check (runes_of_ascii "
packet
falsey{ // `tick` ""quote"" 'q'
repeat charz
    /// triple
    float // a // b
`tab	here`
    ,
char[]stringy  , Logon
    f32a,
    char[] string_/// triple
,
int16
_x
`` ,
    match/// triple
crc as stringy { ""abc"" :Pad
    [ ""\n"" , 10, 4294967296, 0123456789 , ""abc"" ,	""" ++ [28040; 24687]%N ++ runes_of_ascii """
    ] :
i8i8 , 10 :
    //x
    Header , 10:// c
calculatedFrom
    , 0123456789: charz
10
    :
    repeatCount} ,
    leftPad @lengthOf(
u8x )  , @lengthOf(a1) repeat x body ,
} MetaData
string_
{ float64  f32a	, zchar[
255] T, u32 trueish, BodyLength roots
`two words` , }
// " ++ [128512]%N ++ runes_of_ascii " emoji
//	t
packet stringy{ zchar[
    255
    ]Foo ,
}
MetaData
leftPad {
    } //
options { x //x
=
true
    ;
zchar = """" } //")).
Eval vm_compute in ("<<<M23>>>" ++ check (runes_of_ascii "MetaData lengthOf
{ }
MetaData falsey { // " ++ [27880; 37322]%N ++ runes_of_ascii "
falsey i64_
`
`	, zchar[ 255	] u `two words` ,	BodyLength int , matchKey	i8i8 `crlf
line` ,uint8x	asx ,
char[]options1 ,	}packet
    asx  {	@lengthOf( o
)@calculatedFrom(//
""\n"" ) char[] lengthOf  `two words`// c
,
    BodyLength `" ++ [233]%N ++ runes_of_ascii "` ,repeat u8x len // " ++ [27880; 37322]%N ++ runes_of_ascii "
`doc`
, int
@calculatedFrom(
""a\\""
    ) `line1
line2`,@lengthOf( MetaDataX
)
Packet packetx
    // `tick` ""quote"" 'q'
    , a1 {
    match Logon	as
// " ++ [128512]%N ++ runes_of_ascii " emoji
/// triple
len {	4294967296
:matchKey , [
1  , 10 , 10 ,
""{,}"" , """ ++ [233]%N ++ runes_of_ascii "t" ++ [233]%N ++ runes_of_ascii """ , 0123456789]: leftPad ,  3
    :msg_type ,
//	t
//x
1 : As
,} ,
    chars , }
    ,}
")).
Eval vm_compute in ("<<<M348>>>" ++ check (runes_of_ascii "root // c
packet asx { @rightPad
    (
' ' ) @lengthOf(  int)@tag( 0 ) u64 uint8x @calculatedFrom( ""packet"")
    ,  uint32 i64_ ,
    // c
    repeat options1 o,match f32a as /// triple
falsey// " ++ [27880; 37322]%N ++ runes_of_ascii "
{ 42 : stringy 10 :
As, """" :
    Packet ,
} ,@calculatedFrom(""it's""
) // " ++ [128512]%N ++ runes_of_ascii " emoji
f64	a1 ,
    @lengthOf(
    tag )
    match roots as MetaDataX
{
""" ++ [128512]%N ++ runes_of_ascii """:  f32a
    , ""\n"" :
    As [ 255 ]: A ,  }, a1 @calculatedFrom(	""abc"" )
`` , @rightPad(
)
    @rightPad (
    '\x00'
)@calculatedFrom(
""CRC32"" )body As , }  root packet packetx
{
//x
//
repeat lengthOf Logon `" ++ [28040; 24687; 31867; 22411]%N ++ runes_of_ascii "` , //	t
}")).
Eval vm_compute in ("<<<M40>>>" ++ check (runes_of_ascii "packet stringy
//	t
//
{ repeat T// trailing space 
{ u64 lengthOf
`tab	here`  ,
repeat
_x { match calculatedFrom as Header { [""" ++ [233]%N ++ runes_of_ascii "t" ++ [233]%N ++ runes_of_ascii """
    ] : _x  ,// @lengthOf(
[""packet"" ] :
MetaDataX , 255 : u128,42 :
A
""// no comment"" : body
    , }
, repeat crc Foo, charz
    ,
}	,zchar[ 1
    ]i8i8@calculatedFrom( ""x y"" ),  uint8x
    // " ++ [27880; 37322]%N ++ runes_of_ascii "
    Pad
`line1
line2` , } ,
@lengthOf( u )
char[ //x
4294967296 ]crc, @tag(  007 //x
)repeatCount ,
repeat
    //x
    char[] Header, @rightPad ( )char[] string_ `a\` ,
    }
")).
Eval vm_compute in ("<<<M307>>>" ++ check (runes_of_ascii "  packet	charz	{
// " ++ [27880; 37322]%N ++ runes_of_ascii "
/// triple
repeat // c
string int `" ++ [28040; 24687; 31867; 22411]%N ++ runes_of_ascii "` , @calculatedFrom( ""it's"" ) @tag(
255 )  f64 // a // b
asx
,
string
T `doc` ,zchar[
007 ]tag @lengthOf( //
Z9_ )`// not a comment` , }
options{ u= u16; }
MetaData
    chars
    { i16 falsey , f64 pack,
    char[  1
    ]
asx
`it's`, char[] body ,
// `tick` ""quote"" 'q'
//x
}packet leftPad { @rightPad
(
// @lengthOf(
//x
)
repeat Pad float
    `{ , }`
,
    }	options {
    roots= true;  }
")).
Eval vm_compute in ("<<<M1654>>>" ++ check (runes_of_ascii "packet Frame {
    u8 HK,
    u8 BK,
    u8 TK,
    match HK as Hdr {
        1 : HdrA,
        2 : HdrB,
    },
    match BK as Body {
        1 : BodyA,
        2 : BodyB,
    },
    match TK as Trl {
        1 : TrlA,
    },
}

packet HdrA {
    u8 a,
}

packet HdrB {
    u16 b,
}

packet BodyA {
    u32 c,
}

packet BodyB {
    u64 d,
}

packet TrlA {
    u8 e,
}

root packet Msg {
    Frame,
    u8 x,
}")).
Eval vm_compute in ("<<<M1686>>>" ++ check (runes_of_ascii "packet

    a1 {

    @leftPad
    (
) float 
@lengthOf( 
uint8x )
,

}packet	Logon
	{ 
char Logon
@calculatedFrom(	""a\\""
)
    , T	stringy
,  
      //
		// c
  repeat uint8 stringy
	`two words`	,
} MetaData

    charz  {

u tag `
` 
,a1
falsey  ,  //x
Z9_
    matchKey, f64 lengthOf `a\`// @lengthOf(
	,  f32a roots

``
,

float64  x_y_z // @lengthOf(
,
	}")).
Eval vm_compute in ("<<<M1567>>>" ++ check (runes_of_ascii "
packet tag

    {

}
packet	falsey  {string
    charz
	@lengthOf(

    zchar)

,
string // trailing space 
    u@calculatedFrom(""" ++ [233]%N ++ runes_of_ascii "t" ++ [233]%N ++ runes_of_ascii """ )

`// not a comment` 
,@leftPad
    (  '0') 
char[]
leftPad 
@calculatedFrom( ""a	b""
    )
`// not a comment`, @calculatedFrom(	""`tick`""
)  @lengthOf( roots )repeat
MetaDataX
    ,}
")).
Eval vm_compute in ("<<<M370>>>" ++ check (runes_of_ascii "  root packet trueish // " ++ [128512]%N ++ runes_of_ascii " emoji
{ char[] MetaDataX , @leftPad (
    // trailing space 
    '0' )match float as
//x
// trailing space 
crc { 0123456789 :// " ++ [27880; 37322]%N ++ runes_of_ascii "
chars	, ""{,}"" : i8i8,
}
, f32a
    // " ++ [128512]%N ++ runes_of_ascii " emoji
    f32a `tab	here` ,// " ++ [128512]%N ++ runes_of_ascii " emoji
@lengthOf( Foo )
    Packet@calculatedFrom( """ ++ [28040; 24687]%N ++ runes_of_ascii """ ) `it's` , }
")).
Eval vm_compute in ("<<<M1250>>>" ++ check (runes_of_ascii "// top
packet
    // c0
Inner
    // c1
{ // c2a
  // c2b
u8
    // c3
a // c4a
  // c4b
, }
    // c6
root // c7
packet // c8
P // c9a
  // c9b
{
    // c10
Inner // c11a
  // c11b
ref_obj
    // c12
, // c13a
  // c13b
u8 x ,
    // c16
} // c17a
  // c17b
")).
Eval vm_compute in ("<<<M190>>>" ++ check (runes_of_ascii "packet // @lengthOf(
f32a
    {	@rightPad (
    '0' ) @lengthOf( BodyLength ) uint8 Foo ``,
    //x
    char[]
    options1 @calculatedFrom(
    ""it's"" ) ,@tag(255/// triple
) uint64
    Header @calculatedFrom( ""abc""
) `
`
,}

")).
Eval vm_compute in ("<<<M207>>>" ++ check (runes_of_ascii "
MetaData chars { } options
{ As
= true ;As // `tick` ""quote"" 'q'
= false; stringy
= true} packet repeatCount  {string
    float@lengthOf(
    matchKey )
// packet A { u8 x, }
//x
`say ""hi""` ,
}
")).
Eval vm_compute in ("<<<M62>>>" ++ check (runes_of_ascii "packet
crc { @leftPad //	t
( ) repeat
charz float
    ,} root packet
options1 {
@tag( 65535/// triple
)packetx
{ u128 , f32 /// triple
a1 ,
    } , }
// trailing space 
")).
Eval vm_compute in ("<<<M1440>>>" ++ check (runes_of_ascii "

  packet 
A {

    match

    k
    as n

    {
	[  ""a""

,
22 ,

""c c""

,
    4, ""e""

, 66 
,
    ""g""

,
    8  ,""i""

    ]
: B

    2:

C
} 
, }
")).
Eval vm_compute in ("<<<M1748>>>" ++ check (runes_of_ascii "
MetaData

    leftPad
{chars  MetaDataX 
,
	}
    packet  // c

repeatCount
{

    char[ 255]  uint8x
	`" ++ [233]%N ++ runes_of_ascii "` , } MetaData

pack

    { 
As	Foo , }
")).
Eval vm_compute in ("<<<M496>>>" ++ check (runes_of_ascii "packet uint8x
{ match pack
    as msg_type	{
    0123456789 :	float
}
,
} packet //	t
a1
    { } options {packetx
    = = '\x00'	; u128= ""a	b""  ; }
")).
Eval vm_compute in ("<<<M417>>>" ++ check (runes_of_ascii "packet uint8x
{ match pack
    msg_type as	{
    0123456789 :	float
}
,
} packet //	t
a1
    { } options {packetx
    = '\x00'	; u128= ""a	b""  ; }
")).
Eval vm_compute in ("<<<M400>>>" ++ check (runes_of_ascii "packet uint8x
 match pack
    as msg_type	{
    0123456789 :	float
}
,
} packet //	t
a1
    { } options {packetx
    = '\x00'	; u128= ""a	b""  ; }
")).
Eval vm_compute in ("<<<M1781>>>" ++ check (runes_of_ascii "

  packet 
A {  match
k
	as n{
	[ ""a""

, 22

,
""c c""  ,
	4
,
""e""  ,
	66
,

""g""	,
8
	,
	""i""
	,
10,

    ""k""
	,
12
]
    :B
	, 2

: C },

}
")).
Eval vm_compute in ("<<<M660>>>" ++ check (runes_of_ascii "/""/ @lengthOf(
packet i8i8 { u128 o , }
options { MetaDataX = true;
    BodyLength =""packet"" x_y_z= 007
crc //x
= ""abc"" ;
    msg_type =
i16 }")).
Eval vm_compute in ("<<<M692>>>" ++ check (runes_of_ascii "// @lengthOf(
packet i8i8 { u128 o , }
options { MetaDataX = true;
    BodyLength =""packet"" x_y_z= 007
u8 //x
= ""abc"" ;
    msg_type =
i16 }")).
Eval vm_compute in ("<<<M1900>>>" ++ check (runes_of_ascii "packet A {
    Inner {
        u8 x `
                `,
        Deep {
            u8 y `
                        `,
        },
    },
}")).
Eval vm_compute in ("<<<M1635>>>" ++ check (runes_of_ascii "root packet u8x {
}

options {
    o = zchar[1]
    Packet = u32;
    uint8x = ""a\\"";
    /// triple
    u8x = 0;
    crc = ""\n"";
}")).
Eval vm_compute in ("<<<M504>>>" ++ check (runes_of_ascii "packet uint8x
{ match pack
    as msg_type	{
    0123456789 :	float
}
,
} packet //	t
a1
    { } options {packetx
    =")).
Eval vm_compute in ("<<<M1155>>>" ++ check (runes_of_ascii "MetaData leftPad { chars MetaDataX , } // c
packet repeatCount { char[ 255 ] uint8x `" ++ [233]%N ++ runes_of_ascii "` , } MetaData pack { As Foo , }")).
Eval vm_compute in ("<<<M1187>>>" ++ check (runes_of_ascii "MetaData leftPad { chars MetaDataX , } packet repeatCount { char[ 255 ] uint8x `" ++ [233]%N ++ runes_of_ascii "` , } MetaData pack { As Foo , // c
}")).
Eval vm_compute in ("<<<M239>>>" ++ check (runes_of_ascii "options { lengthOf =3
trueish
// packet A { u8 x, }
// trailing space 
=
    true
; calculatedFrom =
007;} 	 ")).
Eval vm_compute in ("<<<M1279>>>" ++ check (runes_of_ascii "options {
    LittleEndian = true;
}
root packet P {
    u16 a,
    u32 Sum @calculatedFrom(""CR\
C32""),
}
")).
Eval vm_compute in ("<<<M1450>>>" ++ check (runes_of_ascii "

  packet
A { 
match k

as
n{
	[ ""a"", ""bb"" ,
	""c c""

,
""d""
	, ""e""

    ,
	""f"" 
] :B	2	:  C

}
, }
")).
Eval vm_compute in ("<<<M258>>>" ++ check (runes_of_ascii "packet
    metadata{ u32 // `tick` ""quote"" 'q'
Packet `say ""hi""`
,
    // trailing space 
    }")).
Eval vm_compute in ("<<<M891>>>" ++ check (runes_of_ascii "packet A {
  match k as n {
    [1, 22, 007, 4, 5, 66, 7, 8, 9, 10, 11] : B,
    2 : C
  },
}")).
Eval vm_compute in ("<<<M631>>>" ++ check (runes_of_ascii "
packet
    asx {match u128 as lengthOf
{
//	t
// `tick` ""quote"" 'q'
255 %: x ,
    } ,	}")).
Eval vm_compute in ("<<<M878>>>" ++ check (runes_of_ascii "packet A {
  match k as n {
    [1, 22, 007, 4, 5, 66, 7, 8, 9, 10] : B,
    2 : C
  },
}")).
Eval vm_compute in ("<<<M1512>>>" ++ check (runes_of_ascii "packet A {
    match k as n {
        [""a"", 22, ""c c"", 4] : B,
        2 : C,
    },
}")).
Eval vm_compute in ("<<<M815>>>" ++ check (runes_of_ascii "packet A {
  match k as n {
    [""a"", ""bb"", ""c c"", ""d"", ""e""] : B,
    2 : C
  },
}")).
Eval vm_compute in ("<<<M1432>>>" ++ check (runes_of_ascii "packet	A { 	 // a
	@tag(

1
	)
u8  x  ,	// b

// c
	  @tag(

2 
) u8	y  ,	}
")).
Eval vm_compute in ("<<<M1249>>>" ++ check (runes_of_ascii "packet Inner {
    u8 a,
}
root packet P {
    Inner ref_obj,
    u8 x,
}
")).
Eval vm_compute in ("<<<M108>>>" ++ check (runes_of_ascii "packet int {}
options {leftPad ='0' ;metadata= char[] Foo=
'0' ; }
")).
Eval vm_compute in ("<<<M653>>>" ++ check (runes_of_ascii "// @lengthOf(
packet i8i8 { u128 o , }
options { MetaDataX = true")).
Eval vm_compute in ("<<<M439>>>" ++ check (runes_of_ascii "packet uint8x
{ match pack
    as msg_type	{
    0123456789")).
Eval vm_compute in ("<<<M1552>>>" ++ check (runes_of_ascii "root packet A {
    u8 x `a
            b
          c`,
}")).
Eval vm_compute in ("<<<M1202>>>" ++ check (runes_of_ascii "packet body
// c
{ i32 f32a `{ , }` , } options { }")).
Eval vm_compute in ("<<<M251>>>" ++ check (runes_of_ascii "
root packet
chars
{
    i16 leftPad
    , }
")).
Eval vm_compute in ("<<<M1822>>>" ++ check (runes_of_ascii "

  root  packet A
{
u8

    x `a
b`

,} ")).
Eval vm_compute in ("<<<M1717>>>" ++ check (runes_of_ascii "
MetaData
repeatCount  {	} 

    //	t
")).
Eval vm_compute in ("<<<M1395>>>" ++ check (runes_of_ascii "packet A {
    u8 x `
        `,
}")).
Eval vm_compute in ("<<<M1784>>>" ++ check (runes_of_ascii "options {
    Packet = char[]
}")).
Eval vm_compute in ("<<<M1754>>>" ++ check (runes_of_ascii "

  packet A{ }
        // c" ++ [160]%N)).
Eval vm_compute in ("<<<M1571>>>" ++ check (runes_of_ascii "  // c
packet

x
{
} ")).
Eval vm_compute in ("<<<M1109>>>" ++ check (runes_of_ascii "MetaData tag { // c
}")).
Eval vm_compute in ("<<<M1132>>>" ++ check (runes_of_ascii "MetaData u // c
{ }")).
Eval vm_compute in ("<<<M1026>>>" ++ check (runes_of_ascii "packet A {
}
// c" ++ [8287]%N)).
Eval vm_compute in ("<<<M1014>>>" ++ check (runes_of_ascii "packet A {
}// c" ++ [8233]%N)).
Eval vm_compute in ("<<<M1072>>>" ++ check (runes_of_ascii "

  packet A {}")).
Eval vm_compute in ("<<<M1060>>>" ++ check (runes_of_ascii "// c x")).
Eval vm_compute in ("<<<M769>>>" ++ check ([12]%N ++ runes_of_ascii "7" ++ [30]%N)).
