From FP Require Import Lexer Parser ShowPT Digest Formatter.
From Coq Require Import String List NArith.
Import ListNotations.
Open Scope string_scope.
Set Printing Width 100000000.
Set Printing Depth 100000000.
Definition show_fres (r : fres) : string :=
  match r with
  | FOk s => "OK:" ++ sh_escaped s ""
  | FErr s => "ERR:" ++ sh_escaped s ""
  | FPanic p => "PANIC:" ++ p
  end.
Definition check (rs : list rune) : string := digest (show_fres (format_res rs)).
Definition full (rs : list rune) : string := show_fres (format_res rs).
Eval vm_compute in ("<<<M1830>>>" ++ check (runes_of_ascii "root packet u {
    match crc as leftPad {
        [00] : o,
        42 : crc,
        [
            0, 255, ""a	b"", ""CRC32"", ""a\""b"",
            ""\n""
        ] : zchar,
    },
    string stringy @lengthOf(matchKey),
    int,
    @tag(1)
    repeat zchar[4294967296] roots,
    @leftPad('\x00')
    x @lengthOf(crc),
}

packet repeatCount {
    zchar[255] f32a @calculatedFrom(""x y""),
    @tag(255)
    char[] asx @calculatedFrom(""" ++ [28040; 24687]%N ++ runes_of_ascii """),
    leftPad {
        /// triple
        // a // b
        repeat int u8x,
        i64 trueish @lengthOf(i8i8) `" ++ [28040; 24687; 31867; 22411]%N ++ runes_of_ascii "`,
        repeat int64 pack,
    },
    match float as o {
        //
        65535 : Pad,
        [0123456789, """ ++ [128512]%N ++ runes_of_ascii """, """ ++ [28040; 24687]%N ++ runes_of_ascii """] : i8i8,
        7 : asx,
        00 : stringy,
    },
    @calculatedFrom(""" ++ [233]%N ++ runes_of_ascii "t" ++ [233]%N ++ runes_of_ascii """)
    f32a u,
    repeat msg_type `" ++ [233]%N ++ runes_of_ascii "`,
    repeat zchar[42] crc,
    uint64 lengthOf,
    repeat As ``,
    zchar[007] tag `tab	here`,
}

root packet charz {
    string msg_type,
    @calculatedFrom("""")
    repeat string tag `tab	here`,
    repeat calculatedFrom,
    repeat Foo,
    uint64 Foo @lengthOf(packetx),
    @rightPad()
    match falsey as calculatedFrom {
        [0, 10, ""a\""b""] : metadata,
    },
    @calculatedFrom(""\" ++ [233]%N ++ runes_of_ascii """)
    i64 As ``,
    @lengthOf(rootA)
    u32 Logon @lengthOf(a1),
    @calculatedFrom("""")
    @leftPad(' ')
    uint16 i8i8 @calculatedFrom(""// no comment""),
}

root packet uint8x {
    repeat f32 chars `tab	here`,
}

MetaData calculatedFrom {
    metadata crc,
}")).
Eval vm_compute in ("<<<M231>>>" ++ check (runes_of_ascii "root packet
    metadata {  @lengthOf(
options1
) int32 zchar @calculatedFrom(""// no comment"" ) `
` , repeat calculatedFrom `it's`, //
match
    BodyLength as lengthOf
{ 3 /// triple
:	leftPad , }, repeat
u128, char[ 10
] chars  ,// @lengthOf(
falsey
@calculatedFrom( ""x y"") // c
`{ , }` ,	@tag(42
)	float64
    i64_
    // packet A { u8 x, }
    , u8x@calculatedFrom(  ""{,}"" ) `two words`
//	t
// trailing space 
, @lengthOf(T)
char[	255]  pack `it's`
,match MetaDataX
as i64_{
    //
    """ ++ [28040; 24687]%N ++ runes_of_ascii """ // @lengthOf(
:Header , 0
    //
    : x_y_z 3 : // `tick` ""quote"" 'q'
int""abc""
    // @lengthOf(
    : u8x ,
    } , } packet i64_
{@rightPad ( ) /// triple
pack {
match MetaDataX
    as trueish { 1 // @lengthOf(
:
    len
00	: falsey // packet A { u8 x, }
,"""" :
x ,
}, } , @tag(1) char[]int @lengthOf(	metadata
) // packet A { u8 x, }
, a1 @lengthOf( calculatedFrom ) ,
    @tag( 7
    )tag@lengthOf(u ) , BodyLength /// triple
@calculatedFrom( ""it's""
) `say ""hi""` ,string
msg_type ,
    }
    MetaData
    Logon { BodyLength
_x `it's` , int32 body ,
    // trailing space 
    } root	packet body{  }
")).
Eval vm_compute in ("<<<M289>>>" ++ check (runes_of_ascii "options  {
// " ++ [27880; 37322]%N ++ runes_of_ascii "
//x
float // packet A { u8 x, }
=char[]
    // @lengthOf(
    ; Header = false
//
/// triple
}
    // `tick` ""quote"" 'q'
    options {	x =char[] ; }	MetaData i64_{f64 As
    /// triple
    `
` , repeatCount MetaDataX
// `tick` ""quote"" 'q'
// `tick` ""quote"" 'q'
,
repeatCount u128 //x
,	metadata msg_type `tab	here`
    ,
    }
packet  options1
    {
    repeat char[0123456789] T  , @tag(  65535
)
    //x
    @calculatedFrom( ""CRC32""
) @calculatedFrom( """ ++ [28040; 24687]%N ++ runes_of_ascii """ ) repeat string
Logon
    ,	@lengthOf( u128 )
stringy  {string_ x ,
} , @tag( // " ++ [27880; 37322]%N ++ runes_of_ascii "
10) u64 tag @lengthOf(roots), Foo	@lengthOf(
Foo
)`// not a comment` ,
string pack `a\` , match A
    as charz {
[ 3 ] : x ,} ,@tag(42 ) f64 msg_type @lengthOf(
trueish )
,match	pack /// triple
as
options1 { """ ++ [28040; 24687]%N ++ runes_of_ascii """ : // packet A { u8 x, }
string_ ,	[ 65535, 7 ,
""a\""b""
    , 7]//	t
: f32a 4294967296: o ,  }	,
    char[] falsey ,
} // " ++ [128512]%N ++ runes_of_ascii " emoji")).
Eval vm_compute in ("<<<M104>>>" ++ check (runes_of_ascii "options{  matchKey = ""x y""
    ;	MetaDataX
= '0'
;
} packet // c
msg_type { @rightPad ( ' '  )repeat u128 body	, match body	as /// triple
pack{ [ ""\" ++ [233]%N ++ runes_of_ascii """ , ""1"" ]: BodyLength
, [ 255
, ""a	b"" , ""a\\"" , ""{,}""
,  007 , 007 ,
    0123456789
] : options1	,	} ,@leftPad
()@lengthOf(charz	)
@tag(	42
) o{	i32 msg_type @lengthOf( A )// " ++ [27880; 37322]%N ++ runes_of_ascii "
`doc` ,zchar[ 1] charz  , // c
i8 packetx`{ , }`,
msg_type `crlf
line`
    , }	,
@calculatedFrom( ""\" ++ [233]%N ++ runes_of_ascii """ ) Z9_ @calculatedFrom(
""" ++ [128512]%N ++ runes_of_ascii """ )`tab	here` ,
repeat char[] Foo ,
repeat zchar[ 0123456789]	u128
, }	packet f32a{
    f32a @lengthOf( matchKey )//x
, @rightPad (
    ' ' // " ++ [27880; 37322]%N ++ runes_of_ascii "
)@lengthOf( chars ) _x Foo  `` ,  match
    body // c
as
    body
    {	[4294967296
    , ""packet"", 3 , """ ++ [128512]%N ++ runes_of_ascii """
,
0123456789  ]
: T [ ""a\\"" ]// `tick` ""quote"" 'q'
: T
, ""\n""
:
u8x , }
//	t
//x
,} //x
root packet lengthOf
{ }
")).
Eval vm_compute in ("<<<M1347>>>" ++ check (runes_of_ascii "options {
    StringPrefixLenType = u16;
    ArrayPrefixLenType = u32;
    FixedStringPadFromLeft = true;
    FixedStringPadChar = '0';
}
packet Cancel {
}
packet Party {
}
packet Logon {
}
packet Ack {
}
packet Logout {
    repeat InSym87 {
        InClordid94 {
            string clOrdID,
        },
        string Px,
        i16 Qty,
        repeat InCount71 {
            repeat Cancel,
            uint16 Tail,
            char[2] x,
            repeat string Ref,
        },
        Cancel,
    },
}
root packet Order {
    repeat string tag7,
    @leftPad(' ') char[3] Px,
    u8 Qty,
    match Qty as Body {
        [28, 62] : Logon,
        148 : Ack,
        88 : Party,
        184 : Cancel,
    },
    u16 Note @calculatedFrom(""CR\
C32""),
}
")).
Eval vm_compute in ("<<<M1315>>>" ++ check (runes_of_ascii "// top
packet // c0
MDSnapshotZZ // c1a
  // c1b
{ // c2
u8 a // c4
, // c5a
  // c5b
} // c6
packet OrderACK // c8
{ // c9a
  // c9b
u16 b // c11
,
    // c12
} // c13a
  // c13b
packet
    // c14
HTTPServerInfo
    // c15
{ // c16
string s
    // c18
,
    // c19
}
    // c20
root // c21a
  // c21b
packet // c22
FIXMsg // c23
{ u8 // c25a
  // c25b
KType // c26a
  // c26b
, // c27a
  // c27b
MDSnapshotZZ
    // c28
, // c29a
  // c29b
repeat
    // c30
OrderACK , // c32a
  // c32b
match // c33
KType as // c35a
  // c35b
Body // c36
{
    // c37
1 :
    // c39
HTTPServerInfo , 2 // c42
:
    // c43
OrderACK
    // c44
, } // c46a
  // c46b
,
    // c47
} // c48a
  // c48b
")).
Eval vm_compute in ("<<<M366>>>" ++ check (runes_of_ascii "packet
// @lengthOf(
//	t
f32a { char[] Header`" ++ [233]%N ++ runes_of_ascii "` ,  @tag( 00
) zchar[ 255  ] int
    , @lengthOf(	trueish)
x @calculatedFrom( """ ++ [128512]%N ++ runes_of_ascii """
    )`say ""hi""` , @leftPad
    (	'\x00'
) @lengthOf( //	t
u128 )//	t
repeat BodyLength ,
falsey @lengthOf( uint8x ), //
@lengthOf( rootA) repeat uint8 T  `a\` , repeat  string
lengthOf
`it's` , @leftPad(
    '\x00' )
zchar[ 42
// packet A { u8 x, }
// a // b
] u`say ""hi""` ,// a // b
repeat packetx
// a // b
// packet A { u8 x, }
{
Pad  f32a
,// trailing space 
i8i8 msg_type `say ""hi""` , i64_ repeatCount , char[]chars , } ,}MetaData _x
{  x matchKey `" ++ [28040; 24687; 31867; 22411]%N ++ runes_of_ascii "`, }")).
Eval vm_compute in ("<<<M296>>>" ++ check (runes_of_ascii "MetaData u128
{  zchar[ 3 ] matchKey	`crlf
line` //
, } // packet A { u8 x, }
options
{ //x
} root	packet rootA
    { @calculatedFrom(
    ""{,}"" ) repeat u16 len ,repeat body,i8i8 @lengthOf( packetx),metadata int `line1
line2` ,  uint8x `two words` // c
, int16 //
x_y_z
, repeatCount , Logon {  repeat// trailing space 
i8 Packet `line1
line2`
, } ,}
options
{// " ++ [128512]%N ++ runes_of_ascii " emoji
lengthOf
//
// trailing space 
= ' ' ;
i64_ = ""{,}"" ; msg_type
= '0'
; u=
// packet A { u8 x, }
// " ++ [27880; 37322]%N ++ runes_of_ascii "
i32;_x = ""abc""
    // packet A { u8 x, }
    ; }
")).
Eval vm_compute in ("<<<M334>>>" ++ check (runes_of_ascii "MetaData pack {
int16 rootA `{ , }` ,
    //	t
    int16 // c
x,// " ++ [27880; 37322]%N ++ runes_of_ascii "
u32 msg_type,
    }
packet i64_
    {// trailing space 
@leftPad
    ( '0') @rightPad ( '\x00' // packet A { u8 x, }
)
@lengthOf(options1	)
    string body @lengthOf( asx) `" ++ [233]%N ++ runes_of_ascii "` ,
    }
options { msg_type
    //	t
    = 00//
;} MetaData
    stringy// c
{
    zchar MetaDataX `line1
line2` , char[255] len `it's` , f32 pack ,
    uint16 Foo
`it's` , int16 i64_`two words` ,
    // `tick` ""quote"" 'q'
    }")).
Eval vm_compute in ("<<<M1753>>>" ++ check (runes_of_ascii "packet
    rootA
    { repeat uint16

    stringy `" ++ [233]%N ++ runes_of_ascii "`
,
body
@lengthOf(
	stringy

    ),
    int32 matchKey 	 // " ++ [27880; 37322]%N ++ runes_of_ascii "
	, @lengthOf( 
roots
) @calculatedFrom(
    ""a\""b"" ) 
@leftPad( 
' ' )
	i64 leftPad @lengthOf(repeatCount	)	`u8 x,`
    , 	 //	t

f64 len	@lengthOf(	BodyLength	// trailing space 
      )`// not a comment`
    ,
@rightPad
    ( )@leftPad
( '0'
    ) 
repeat
string len , // c
char[] chars 
`two words`

, }  //	t")).
Eval vm_compute in ("<<<M1323>>>" ++ check (runes_of_ascii "options {
    LittleEndian = false;
    StringPrefixLenType = u8;
    ArrayPrefixLenType = u64;
    FixedStringPadFromLeft = false;
    FixedStringPadChar = ' ';
}
packet Reject {
    repeat char[4] seqNo,
    string Px,
}
root packet Trade {
    @rightPad('0') char[2] msgKind,
    repeat f64 price,
    InAcct79 {
        repeat Reject,
        zchar[7] OrderId,
    },
    Reject,
}
")).
Eval vm_compute in ("<<<M15>>>" ++ check (runes_of_ascii "MetaData // c
u128{
    }MetaData
    a1 {
}
    root packet	o {	char[
10 ]  stringy @lengthOf( Z9_) ,
match
x_y_z as stringy
{	3
: float ,
    } , @leftPad //	t
( ' '
    ) u128 {	repeat i32 msg_type `crlf
line` , x	, repeat char[	65535
] T, match
    A as
i8i8 { """ ++ [128512]%N ++ runes_of_ascii """ : Logon
, } //
, } ,
@rightPad (  '\x00') repeat x_y_z options1 `two words` , }
")).
Eval vm_compute in ("<<<M1483>>>" ++ check (runes_of_ascii "packet Logon {
    o
	Header
	,

    Header  ,

@lengthOf(u )char[	255	]
    tag	`tab	here`  ,	char[]
    falsey
,

@lengthOf(
	zchar
    )	@rightPad ( ) float
roots  // @lengthOf(
,@calculatedFrom(

    ""// no comment""
)	i64

u8x ,	}
options
{ 
metadata
	=  '0'

;  _x=
	4294967296
    ;
Packet	=
    '0'  ;
    } ")).
Eval vm_compute in ("<<<M232>>>" ++ check (runes_of_ascii "options {  A = i16
;
    }
    /// triple
    root
packet
    rootA{
    @tag( 7)int16 pack,Logon @calculatedFrom( ""a\""b"" ) `{ , }`
    , @rightPad ( '\x00' )
//
//
char[
7
    // `tick` ""quote"" 'q'
    ]options1
`tab	here`,@calculatedFrom(
""" ++ [233]%N ++ runes_of_ascii "t" ++ [233]%N ++ runes_of_ascii """ )int @lengthOf(
Packet
) `crlf
line`, }
")).
Eval vm_compute in ("<<<M177>>>" ++ check (runes_of_ascii "root
packet Logon {
    @rightPad
(// @lengthOf(
'0' ) repeat
    charz // " ++ [27880; 37322]%N ++ runes_of_ascii "
{// " ++ [128512]%N ++ runes_of_ascii " emoji
Z9_ `{ , }` , string string_ `say ""hi""` , repeat int8  rootA ,	match Foo	as
pack {
[ 42
// c
/// triple
, 0 ] :u, ""a\""b"" : int
,
}
// c
// `tick` ""quote"" 'q'
,
} , }")).
Eval vm_compute in ("<<<M190>>>" ++ check (runes_of_ascii "packet // @lengthOf(
f32a
    {	@rightPad (
    '0' ) @lengthOf( BodyLength ) uint8 Foo ``,
    //x
    char[]
    options1 @calculatedFrom(
    ""it's"" ) ,@tag(255/// triple
) uint64
    Header @calculatedFrom( ""abc""
) `
`
,}

")).
Eval vm_compute in ("<<<M26>>>" ++ check (runes_of_ascii "root packet body { repeat // c
i8i8
`it's`
,}
packet chars
{@rightPad
    (  '\x00' )
    // `tick` ""quote"" 'q'
    leftPad {
    char[ 10
]
    asx `" ++ [233]%N ++ runes_of_ascii "`, }
    // trailing space 
    ,
}
")).
Eval vm_compute in ("<<<M1195>>>" ++ check (runes_of_ascii "// top
packet
    // c0
body
    // c1
{
    // c2
i32
    // c3
f32a
    // c4
`{ , }`
    // c5
,
    // c6
}
    // c7
options
    // c8
{
    // c9
}
    // c10
")).
Eval vm_compute in ("<<<M392>>>" ++ check (runes_of_ascii "packet packet uint8x
{ match pack
    as msg_type	{
    0123456789 :	float
}
,
} packet //	t
a1
    { } options {packetx
    = '\x00'	; u128= ""a	b""  ; }
")).
Eval vm_compute in ("<<<M466>>>" ++ check (runes_of_ascii "packet uint8x
{ match pack
    as msg_type	{
    0123456789 :	float
}
,
} packet //	t
a1 a1
    { } options {packetx
    = '\x00'	; u128= ""a	b""  ; }
")).
Eval vm_compute in ("<<<M546>>>" ++ check (runes_of_ascii "packet uint8x
{ match pack
    as msg_type	{
    0123456789 :	float
}
,
} packet //	t
a1
    { } options {packetx
    = '\x00'	; @ u128= ""a	b""  ; }
")).
Eval vm_compute in ("<<<M442>>>" ++ check (runes_of_ascii "packet uint8x
{ match pack
    as msg_type	{
    0123456789 :	}
float
,
} packet //	t
a1
    { } options {packetx
    = '\x00'	; u128= ""a	b""  ; }
")).
Eval vm_compute in ("<<<M475>>>" ++ check (runes_of_ascii "packet uint8x
{ match pack
    as msg_type	{
    0123456789 :	float
}
,
} packet //	t
a1
    {  options {packetx
    = '\x00'	; u128= ""a	b""  ; }
")).
Eval vm_compute in ("<<<M510>>>" ++ check (runes_of_ascii "packet uint8x
{ match pack
    as msg_type	{
    0123456789 :	float
}
,
} packet //	t
a1
    { } options {packetx
    = '\x00'	; = ""a	b""  ; }
")).
Eval vm_compute in ("<<<M660>>>" ++ check (runes_of_ascii "/""/ @lengthOf(
packet i8i8 { u128 o , }
options { MetaDataX = true;
    BodyLength =""packet"" x_y_z= 007
crc //x
= ""abc"" ;
    msg_type =
i16 }")).
Eval vm_compute in ("<<<M663>>>" ++ check (runes_of_ascii "// @lengthOf(
packet i8i8 { u128 o , }
options { MetaDataX = true;
    BodyLength =""packet"" x_y_z= 007
crc //x
= ""abc"" ;
    msg_type =
i16 ")).
Eval vm_compute in ("<<<M61>>>" ++ check (runes_of_ascii "packet
    i64_ { }
MetaData uint8x {Packet tag , u8	repeatCount
, x_y_z
_x `" ++ [233]%N ++ runes_of_ascii "`
    , zchar[
    42
    ]
    crc
`a\` ,
} options	{ }")).
Eval vm_compute in ("<<<M1531>>>" ++ check (runes_of_ascii "MetaData leftPad {
    chars MetaDataX,
}

packet repeatCount {
    // c
    char[255] uint8x `" ++ [233]%N ++ runes_of_ascii "`,
}

MetaData pack {
    As Foo,
}")).
Eval vm_compute in ("<<<M1811>>>" ++ check (runes_of_ascii "packet

A
{
match	k  as
n  { [ 
""a""
,	22 ,	""c c""	,

4 , 
""e""  ,  66 ,""g""	,	8	,	""i""  ,

10
]
:
B
    2
    :
C
}

,}

")).
Eval vm_compute in ("<<<M1157>>>" ++ check (runes_of_ascii "MetaData leftPad { chars MetaDataX , } packet // c
repeatCount { char[ 255 ] uint8x `" ++ [233]%N ++ runes_of_ascii "` , } MetaData pack { As Foo , }")).
Eval vm_compute in ("<<<M39>>>" ++ check (runes_of_ascii "options { o =
    '\x00' // " ++ [128512]%N ++ runes_of_ascii " emoji
; T = u32 ; msg_type
// `tick` ""quote"" 'q'
//
= ""a	b""  a1 = '\x00'
}
// " ++ [128512]%N ++ runes_of_ascii " emoji
")).
Eval vm_compute in ("<<<M943>>>" ++ check (runes_of_ascii "packet A {
    u16 len @lengthOf(body) `a

b`,
    u32 crc @calculatedFrom(""CRC32"") `a

b`,
    string body,
}")).
Eval vm_compute in ("<<<M1276>>>" ++ check (runes_of_ascii "options {
    LittleEndian = true;
}
root packet P {
    u16 a,
    u32 Sum @calculatedFrom(""CRC32""),
}
")).
Eval vm_compute in ("<<<M1563>>>" ++ check (runes_of_ascii "packet A {
    u32 crc @calculatedFrom(""\
        ""),
    @calculatedFrom(""\
        "")
    u8 y,
}")).
Eval vm_compute in ("<<<M1254>>>" ++ check (runes_of_ascii "
packet
    Inner {
    u8 a

,
} root
	packet P

    {  repeat
    Inner items,	u8 
x	, } ")).
Eval vm_compute in ("<<<M474>>>" ++ check (runes_of_ascii "packet uint8x
{ match pack
    as msg_type	{
    0123456789 :	float
}
,
} packet //	t
a1")).
Eval vm_compute in ("<<<M1518>>>" ++ check (runes_of_ascii "
packet orderItem
{
u8  a
	,
}	root	packet newOrder
	{
orderItem
,
u8 
x

    ,
    } ")).
Eval vm_compute in ("<<<M857>>>" ++ check (runes_of_ascii "packet A {
  match k as n {
    [1, ""bb"", 007, ""d"", 5, ""f"", 7, ""h""] : B
    2 : C
  },
}")).
Eval vm_compute in ("<<<M1275>>>" ++ check (runes_of_ascii "

  options{ FixedStringPadFromLeft
= 
true 
; }root 
packet  P {char[
    4 ]
z,
	}")).
Eval vm_compute in ("<<<M830>>>" ++ check (runes_of_ascii "packet A {
  match k as n {
    [1, ""bb"", 007, ""d"", 5, ""f""] : B,
    2 : C
  },
}")).
Eval vm_compute in ("<<<M611>>>" ++ check (runes_of_ascii "
packet
    asx {match u128 as lengthOf
{
//	t
// `tick` ""quote"" 'q'
255 : x")).
Eval vm_compute in ("<<<M67>>>" ++ check (runes_of_ascii "options { charz =""1"" _x= """ ++ [128512]%N ++ runes_of_ascii """ u = string ; stringy=
""" ++ [28040; 24687]%N ++ runes_of_ascii """ }
// @lengthOf(
")).
Eval vm_compute in ("<<<M798>>>" ++ check (runes_of_ascii "packet A {
  match k as n {
    [""a"", ""bb"", 007] : B
    2 : C
  },
}")).
Eval vm_compute in ("<<<M653>>>" ++ check (runes_of_ascii "// @lengthOf(
packet i8i8 { u128 o , }
options { MetaDataX = true")).
Eval vm_compute in ("<<<M778>>>" ++ check (runes_of_ascii "packet A {
  match k as n {
    [1, 22] : B,
    2 : C
  },
}")).
Eval vm_compute in ("<<<M799>>>" ++ check (runes_of_ascii "packet A { Inner { match k as n { [1,22,007] : B, }, }, }")).
Eval vm_compute in ("<<<M1199>>>" ++ check (runes_of_ascii "packet // c
body { i32 f32a `{ , }` , } options { }")).
Eval vm_compute in ("<<<M1768>>>" ++ check (runes_of_ascii "root packet A {
    u8 x `a
        b
      c`,
}")).
Eval vm_compute in ("<<<M429>>>" ++ check (runes_of_ascii "packet uint8x
{ match pack
    as msg_type")).
Eval vm_compute in ("<<<M325>>>" ++ check (runes_of_ascii "packet charz { } // packet A { u8 x, }")).
Eval vm_compute in ("<<<M85>>>" ++ check (runes_of_ascii "options// c
{MetaDataX =int16 }
")).
Eval vm_compute in ("<<<M1003>>>" ++ check (runes_of_ascii "packet A {
 u8 x `d" ++ [8192]%N ++ runes_of_ascii "`, // c" ++ [8192]%N ++ runes_of_ascii "
}")).
Eval vm_compute in ("<<<M581>>>" ++ check (runes_of_ascii "
packet
    asx {match u128")).
Eval vm_compute in ("<<<M268>>>" ++ check (runes_of_ascii " // packet A { u8 x, }")).
Eval vm_compute in ("<<<M59>>>" ++ check (runes_of_ascii "packet
int {
}
//	t
")).
Eval vm_compute in ("<<<M982>>>" ++ check (runes_of_ascii "// c" ++ [12288]%N ++ runes_of_ascii "
packet A {
}")).
Eval vm_compute in ("<<<M1083>>>" ++ check (runes_of_ascii "packet A { // a
 }")).
Eval vm_compute in ("<<<M1229>>>" ++ check (runes_of_ascii "packet x
// c
{ }")).
Eval vm_compute in ("<<<M1527>>>" ++ check (runes_of_ascii "packet x {
}")).
Eval vm_compute in ("<<<M157>>>" ++ check (runes_of_ascii "//

")).
