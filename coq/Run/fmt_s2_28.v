From FP Require Import Lexer Parser ShowPT Digest Formatter.
From Coq Require Import String List NArith.
Import ListNotations.
Open Scope string_scope.
Set Printing Width 100000000.
Set Printing Depth 100000000.
Definition show_fres (r : fres) : string :=
  match r with
  | FOk s => "OK:" ++ sh_escaped s ""
  | FErr s => "ERR:" ++ sh_escaped s ""
  | FPanic p => "PANIC:" ++ p
  end.
Definition check (rs : list rune) : string := digest (show_fres (format_res rs)).
Definition full (rs : list rune) : string := show_fres (format_res rs).
Eval vm_compute in ("<<<M443>>>" ++ check (runes_of_ascii "// `tick` ""quote"" 'q'
packet A
{
@lengthOf(
msg_type )
repeat
int64	rootA
// " ++ [27880; 37322]%N ++ runes_of_ascii "
// `tick` ""quote"" 'q'
,x
    ,
@calculatedFrom( """"
) //x
x @lengthOf(// @lengthOf(
trueish )
, match
    x
as x_y_z
{
""a\""b"": // trailing space 
packetx}
    , packetx @calculatedFrom("""" )
`u8 x,` ,
float32
u128 `crlf
line` , match x
    as
T { [ ""packet""
    ]
: body} , x_y_z
@calculatedFrom( """" ) ,
    rootA
tag ,
    } root packet
    body
// " ++ [27880; 37322]%N ++ runes_of_ascii "
/// triple
{@calculatedFrom( ""a\\""
)
    repeat i8
metadata ,	@calculatedFrom( """ ++ [128512]%N ++ runes_of_ascii """
    )
    repeat	pack string_,@rightPad
    (//x
' ') char[ 10 ]
calculatedFrom@lengthOf(  pack)`doc`	,	@calculatedFrom(
    ""it's"" //	t
) repeat Packet
{// " ++ [27880; 37322]%N ++ runes_of_ascii "
match options1 as
body
{ ""\n""
: Foo,
3 : //
asx , }
    ,} , @lengthOf( As
)float64 Logon @calculatedFrom( """" )
    /// triple
    ,	i64_ {match  x_y_z
as string_  { 42: pack ""\" ++ [233]%N ++ runes_of_ascii """ // " ++ [128512]%N ++ runes_of_ascii " emoji
: rootA , 255
    :lengthOf 4294967296
:tag ,
} , }  , @tag( 3 )
    @tag( 7  )	@rightPad ()repeat
//x
//x
uint64 u128, int16
    packetx // " ++ [27880; 37322]%N ++ runes_of_ascii "
`" ++ [233]%N ++ runes_of_ascii "`
// " ++ [27880; 37322]%N ++ runes_of_ascii "
// c
,
repeat
metadata
//
/// triple
len
//x
// trailing space 
,
} packet rootA{ repeat A{
    repeat T {roots @lengthOf( i64_ )
    ,
u16
    tag @calculatedFrom( ""packet"" )  ,  string falsey @calculatedFrom(
    ""\n"" ) ,
match x as u8x
//	t
// " ++ [27880; 37322]%N ++ runes_of_ascii "
{ 0 // trailing space 
: string_
,
"""" :  _x""\" ++ [233]%N ++ runes_of_ascii """/// triple
:
    MetaDataX , } , },}	,
    @calculatedFrom(	""a\""b"") repeat
    i16 i8i8  ,
repeat
float32 BodyLength `two words` , @leftPad
(
    ) u32 _x // packet A { u8 x, }
@calculatedFrom( ""CRC32"" ), @leftPad (
' '	) crc @lengthOf( o )
`u8 x,`  , @lengthOf(Packet )	msg_type
Z9_  , u { repeat o, }
, }
packet rootA
{ repeat T uint8x,
}
    //	t
    packet x_y_z { @tag( 255 // " ++ [128512]%N ++ runes_of_ascii " emoji
)  float64
lengthOf ,@rightPad
    // " ++ [128512]%N ++ runes_of_ascii " emoji
    ( '0' )
    len
@calculatedFrom( ""a\\""
) ,
uint32 Logon	@calculatedFrom(  ""`tick`"" //	t
) `it's`
, @rightPad (
    ) zchar[ 00
    ]  len ,	@tag( // packet A { u8 x, }
3)char[ 255 ] Header//x
`{ , }` ,  match Logon	as
metadata { ""{,}""
    : pack , } , }")).
Eval vm_compute in ("<<<M4300>>>" ++ check (runes_of_ascii "  MetaData stringy { 
} packet 
Packet
    //	t
  // c

  {

char[
007
]o @calculatedFrom( ""1"" 
)//	t
  ,	// @lengthOf(
		}
    packet  o	{u128
    {
    u8 crc  ,  zchar[
    1]	_x 
@lengthOf(
Z9_ ) 
	    /// triple
	`doc`

,char[

    7
] 
falsey 
,}	, @lengthOf(int 
)

match
	chars as
asx

    { 
[
    255
]	:x_y_z ,
255
:	o
0123456789:	a1  ,
""// no comment"":	trueish
,
	} ,

    }packet
	Z9_ 
{
	@rightPad
    ( 
'0' ) @tag(	00)

    f32 
uint8x

    @calculatedFrom( 	 //	t

""" ++ [128512]%N ++ runes_of_ascii """ )
	, } packet
	leftPad  {

match
roots	as
    trueish

    {
[
    ""{,}"" ,
0 	 // " ++ [128512]%N ++ runes_of_ascii " emoji
    ]
:  BodyLength 
, 
65535

    :

    As 
65535 
:

    zchar  ,

    3  :rootA, 255
:
x_y_z,
    },
@leftPad ()
	float32
x_y_z, repeat T

    { u128
	@calculatedFrom(
	""CRC32""
)
    ,

    char[] 
tag
    @lengthOf(MetaDataX  )	, float
rootA
,
Foo

    @calculatedFrom(
""packet""  ) , 
} 
// `tick` ""quote"" 'q'

//x
      , match

    x 
as
msg_type	{
    3:
u 
}
	,  @lengthOf(
tag 
    /// triple
	/// triple

) string
	a1 
,	@rightPad (
    '0'	)	@tag( 
  // a // b
  // a // b
      7
)
match Logon
    // a // b
      //	t
      as 

    /// triple
falsey {  ""CRC32""  // c
  : 

    // " ++ [27880; 37322]%N ++ runes_of_ascii "
  x  //
    ,4294967296 :
    Header

    ,

    ""// no comment""
    // " ++ [128512]%N ++ runes_of_ascii " emoji
	:
	charz 
00
    :	// trailing space 
u128
    } ,  @calculatedFrom( ""a\""b""
)
@calculatedFrom(
""a\""b""
)
    @tag(
	    // " ++ [128512]%N ++ runes_of_ascii " emoji
	42 
	    //x
	)
	repeat zchar[ 
00 ]

falsey  ,
// " ++ [27880; 37322]%N ++ runes_of_ascii "
	@tag(  // a // b
4294967296

)	@calculatedFrom(""abc""
)

    @rightPad (' '
)
	crc

@calculatedFrom( ""\" ++ [233]%N ++ runes_of_ascii """ // " ++ [128512]%N ++ runes_of_ascii " emoji
	)	,
u16
metadata
,
	} ")).
Eval vm_compute in ("<<<M4015>>>" ++ check (runes_of_ascii "packet zchar {
    char[] string_,
    // @lengthOf(
    msg_type,
    match roots as metadata {
        3 : Logon,
        [
            3, 00, 7, 65535, 3,
            ""a\\"", ""1"", ""a\\""
        ] : x_y_z,
        0123456789 : o,
        ""\" ++ [233]%N ++ runes_of_ascii """ : x,
        ""CRC32"" : Foo,
    },
    char Header `u8 x,`,
}//	t

options {
}

packet As {
    zchar[10] roots,
    char[7] calculatedFrom @lengthOf(body),
    char stringy @lengthOf(metadata),
    Pad u128,
    @calculatedFrom(""it's"")
    Z9_,
    match falsey as MetaDataX {
        4294967296 : float,
        //x
        3 : Pad,
        1 : T,
    },
    @tag(3)
    char[] A @calculatedFrom(""it's""),
    o tag,
    @lengthOf(x)
    zchar[4294967296] rootA `
        `,
}

root packet Logon {
    repeat _x {
        leftPad `crlf
                line`,
    },
    repeat i8 Packet,
    MetaDataX `// not a comment`,
    asx `two words`,
    repeat lengthOf tag,
    @calculatedFrom(""CRC32"")
    // @lengthOf(
    match repeatCount as BodyLength {
        """ ++ [128512]%N ++ runes_of_ascii """ : len,
        [
            255, 0123456789, 7, 42, ""a\\"",
            ""CRC32""
        ] : repeatCount,
    },
    i64_ msg_type `crlf
        line`,
}

packet repeatCount {
    @calculatedFrom(""a\""b"")
    match a1 as matchKey {
        00 : options1,
        4294967296 : x_y_z,
        [3, 0123456789, ""a	b""] : i64_,
        0 : leftPad,
        ""`tick`"" : int,
        [""" ++ [28040; 24687]%N ++ runes_of_ascii """] : Z9_,
    },
}")).
Eval vm_compute in ("<<<M4355>>>" ++ check (runes_of_ascii "  MetaData  roots
	{
//
    // " ++ [27880; 37322]%N ++ runes_of_ascii "
    char[  //x
00 ] i8i8  // @lengthOf(
	,

    uint32

    metadata`tab	here`  // a // b
	  ,
}
options  {

Header
/// triple
    // a // b
  =	true
metadata = false  Logon  //x

  = 42
    ; 
T=
    // c
	  '\x00'
    Header	=// packet A { u8 x, }
  ""\" ++ [233]%N ++ runes_of_ascii """  }
    root  // trailing space 
      packet 	 // c
uint8x {
	char[]	// @lengthOf(
A

    `" ++ [233]%N ++ runes_of_ascii "`
	,	@tag(65535) uint32 
i8i8 , @rightPad 
(  '0'  )zchar[
    // c
      // " ++ [27880; 37322]%N ++ runes_of_ascii "
0123456789 ] leftPad , 
float32  leftPad  ,

@tag(
        // a // b
	// `tick` ""quote"" 'q'
      42 
)

    @leftPad ( )
	/// triple
    @tag(0  ) string
f32a
    ,@tag(
    3
    )

char[

42
]
MetaDataX
, 
string  repeatCount

@lengthOf( 
Foo
)  `tab	here`  ,	@lengthOf( A

    )  repeat
    roots
    {
repeat len  stringy  `it's` ,
A {
	zchar[42
] u128

@calculatedFrom(	""CRC32""	)	, 
},	char[] u128 , 	 // " ++ [128512]%N ++ runes_of_ascii " emoji
  	},@lengthOf(  Z9_  )
	u
	, 
	    // c
    // " ++ [128512]%N ++ runes_of_ascii " emoji
  }  MetaData 

/// triple
      //
len
    {float64 u8x  ,char[]
    //
Header
    , 
char[ 
65535
]

    chars 
`{ , }`
,}
MetaData

Pad{ 
roots
a1

, i64 // `tick` ""quote"" 'q'
  u128 ,char[
    255	] rootA
    , u16
packetx ,
	i32

    MetaDataX
    ,u8	stringy
	,

    }
")).
Eval vm_compute in ("<<<M4309>>>" ++ check (runes_of_ascii "packet options1 {
    /// triple
    string falsey `doc`,
    float BodyLength,
    @tag(65535)
    Logon @calculatedFrom(""a	b""),
    repeat matchKey _x `u8 x,`,// `tick` ""quote"" 'q'
    repeat tag {
        repeat u8 trueish `a\`,
        char[] u8x @calculatedFrom(""it's""),
    },
    match i64_ as BodyLength {
        """ ++ [28040; 24687]%N ++ runes_of_ascii """ : T,
        [""packet""] : x_y_z,
        ""a\""b"" : A,
        65535 : asx,
        [0123456789, 0, 0123456789, ""\n""] : charz,
        //
        [
            255, 10, 1, 10, ""{,}"",
            ""a\\"", ""\" ++ [233]%N ++ runes_of_ascii """
        ] : metadata,
    },
    repeat string x_y_z,
    //
    /// triple
    match i8i8 as len {
        ""\n"" : u8x,
        0123456789 : int,
        10 : roots,
    },
    rootA,
    @tag(3)
    rootA @lengthOf(f32a),
}

packet options1 {
    @calculatedFrom(""" ++ [128512]%N ++ runes_of_ascii """)
    i8i8 @lengthOf(Logon),
    // @lengthOf(
    // `tick` ""quote"" 'q'
    float32 chars `tab	here`,
    @leftPad('0')
    @tag(3)
    @calculatedFrom("""")
    matchKey @calculatedFrom(""" ++ [233]%N ++ runes_of_ascii "t" ++ [233]%N ++ runes_of_ascii """),
    repeat uint16 u ``,
    @rightPad()
    rootA,
    @leftPad('0')
    // @lengthOf(
    _x Z9_,
    char[0123456789] packetx `crlf
        line`,
}")).
Eval vm_compute in ("<<<M4368>>>" ++ check (runes_of_ascii "packet i8i8 {
    @lengthOf(body)
    @lengthOf(T)
    calculatedFrom @calculatedFrom(""""),
    uint32 x `crlf
    line`,
    uint64 string_ `{ , }`,
    i64 _x @calculatedFrom(""a	b"") `doc`,
    @lengthOf(len)
    asx `doc`,
    charz `two words`,
}

packet u {
    @rightPad()
    repeat u128 u8x,// trailing space 
    float64 stringy @calculatedFrom(""" ++ [128512]%N ++ runes_of_ascii """) `crlf
    line`,
    @rightPad()
    @tag(10)
    repeat options1 `crlf
    line`,
    zchar[0] i8i8,
    int16 matchKey @calculatedFrom(""CRC32""),
}

packet string_ {
    zchar @calculatedFrom(""packet""),
    repeat asx chars `tab	here`,
}

packet falsey {
    body BodyLength `two words`,
    match Z9_ as lengthOf {
        4294967296 : roots,
        // " ++ [27880; 37322]%N ++ runes_of_ascii "
    },
    char[3] asx `crlf
    line`,
}

root packet float {
    repeat i8i8,
    @lengthOf(options1)
    roots roots,
    repeat zchar[1] pack,
    i64_,
    falsey ``,
    match options1 as x_y_z {
        0 : int,
    },
    zchar[007] A @calculatedFrom(""a	b""),
    trueish {
        repeat char[] i8i8 `doc`,
    },
    i8i8 `
    `,
    uint8 roots `two words`,
}")).
Eval vm_compute in ("<<<M210>>>" ++ check (runes_of_ascii "packet chars
    {
int32 trueish ,match Pad
as repeatCount { [0] :// " ++ [27880; 37322]%N ++ runes_of_ascii "
Pad
    , /// triple
3
: Foo , ""abc""
    :
i64_ //	t
, [255
    ,	3 ]
    :
Packet ,[
0123456789 // @lengthOf(
,""// no comment"" ]
: Packet , }
    , // c
match  a1 as u {[// `tick` ""quote"" 'q'
""abc""
, """ ++ [233]%N ++ runes_of_ascii "t" ++ [233]%N ++ runes_of_ascii """
, """" ,  0
    ,
    //	t
    255 ]
:u
    //	t
    ,
    } ,@tag(  10
    ) match a1
    as a1
{
    [42
    ]//
:packetx ,
    } ,@lengthOf(As ) repeat	char[0123456789] repeatCount`tab	here` ,string o `crlf
line` ,
//x
// a // b
As
    @lengthOf(//x
i8i8 )
    , string repeatCount @lengthOf( u128 ) ,
    //
    @tag( 00 ) repeat pack Logon , }	root packet Foo {@tag( 1)char[ // packet A { u8 x, }
3
]
i64_ ,
f32
// packet A { u8 x, }
// " ++ [27880; 37322]%N ++ runes_of_ascii "
charz , // `tick` ""quote"" 'q'
i8 zchar
    @lengthOf(// `tick` ""quote"" 'q'
MetaDataX ) /// triple
,@tag( 007 )u8 _x ,@tag(  255 ) msg_type@calculatedFrom(""`tick`"") `doc` ,  @calculatedFrom( """ ++ [233]%N ++ runes_of_ascii "t" ++ [233]%N ++ runes_of_ascii """ ) match len as /// triple
As {""// no comment"" : falsey ,
    }  , } MetaData leftPad{ x i8i8 , } //")).
Eval vm_compute in ("<<<M3523>>>" ++ check (runes_of_ascii "options {
    StringPrefixLenType = u32;
    ArrayPrefixLenType = u8;
    FixedStringPadFromLeft = false;
}
packet Logon {
    i8 venue,
    int16 f1,
    zchar[8] Acct,
    repeat InNote16 {
        InQty73 {
            float32 tag7,
        },
        f32 Acct,
        zchar[5] sym,
    },
    uint16 Side2,
    i32 lastPx,
}
packet Fill {
    repeat InOrderid15 {
        zchar[8] sym,
        repeat char[2] OrderId,
        repeat Logon,
        InQty82 {
            char[] Tail,
            repeat Logon,
            float64 price,
            f64 Side2,
        },
        char[12] venue,
        char[4] Px,
    },
    @rightPad('0') char[2] venue,
    InPrice99 {
        InAcct72 {
            u8 pad0,
        },
        u32 OrderId,
        Logon,
    },
}
root packet Reject {
    zchar[9] msgKind,
    u32 venue,
    u16 seqNo @lengthOf(Body),
    match venue as Body {
        57 : Fill,
        8 : Logon,
    },
    u16 Tail @calculatedFrom(""CRC32""),
}
")).
Eval vm_compute in ("<<<M4322>>>" ++ check (runes_of_ascii "packet 
len  {
	@tag(	007

) @lengthOf( 
calculatedFrom
    // @lengthOf(
	)
@rightPad  (	'0' 
)
	roots
asx
	`
`

    ,
@calculatedFrom(	""\" ++ [233]%N ++ runes_of_ascii """ )  
  //
		repeatCount
@lengthOf(  matchKey

    )  `it's`
,

    @lengthOf( 
int)
	match

repeatCount

    as rootA {	""packet"" 
  // `tick` ""quote"" 'q'
	// " ++ [27880; 37322]%N ++ runes_of_ascii "
      :

x_y_z
    [
	""1"" 

    // `tick` ""quote"" 'q'
,
    65535,  3

,""{,}""
	, 	 //x

""""  ] : 
Logon 
} 
,

    repeat 
options1
,  stringy
    @lengthOf(
	/// triple

//	t
  Header
	) `
`,
repeat zchar[7] 
msg_type
`tab	here` ,	/// triple
  zchar[

10
]u8x ,

Pad

    {  u8x

    @calculatedFrom(""packet""
    )	,

} 
, i8i8 { 
repeat uint8x 
lengthOf 
,
    match  Z9_	as	A 
    // " ++ [128512]%N ++ runes_of_ascii " emoji

{
0	:trueish ,
} , } ,match

    u128 as 
lengthOf//	t
  { 
3
	://	t
Pad  }
	    // c
		//	t
    ,
}

    packet

    calculatedFrom { 
zchar[ // `tick` ""quote"" 'q'
10	]	repeatCount ,
    }
")).
Eval vm_compute in ("<<<M570>>>" ++ check (runes_of_ascii "MetaData charz{ }	packet
tag // " ++ [27880; 37322]%N ++ runes_of_ascii "
{
    @tag( 00) i64 i8i8
    `// not a comment`  , repeat options1, char[]  float , string a1
,
i8 asx ,
// @lengthOf(
// c
match
u as // " ++ [27880; 37322]%N ++ runes_of_ascii "
BodyLength
{ 65535: A ,} , } packet msg_type {@calculatedFrom( """ ++ [28040; 24687]%N ++ runes_of_ascii """ )Foo , @calculatedFrom( ""a\""b"" ) char[ 0123456789]
    lengthOf	@lengthOf( a1	)	,  repeat stringy Header `
`  , match	o as float{
    ""// no comment"" : Pad
, ""a\\"" :string_ , } , @leftPad
// @lengthOf(
//
( ) match tag as body
{0 : o,// " ++ [128512]%N ++ runes_of_ascii " emoji
10 :
charz ,7
:u
,
    65535 // trailing space 
:Header
    ,
    255 : body , }, } options //	t
{ } root packet leftPad {
@rightPad( ' ' ) i8 zchar ,
    @calculatedFrom(
""abc"" )metadata @lengthOf(
    // c
    packetx
    ) , @tag(
65535 ) string crc  @lengthOf(Z9_ /// triple
) , @rightPad (' ') uint32 u8x
// `tick` ""quote"" 'q'
// c
`say ""hi""`,@tag( //x
255)
    @lengthOf(x_y_z ) As , }")).
Eval vm_compute in ("<<<M4279>>>" ++ check (runes_of_ascii "packet a1 {
    @tag(00)
    charz {
        // @lengthOf(
        char[007] i8i8 @calculatedFrom(""// no comment""),
        float {
            char[1] Packet @lengthOf(len) `crlf
            line`,
        },
    },
    @rightPad(' ')
    match x_y_z as repeatCount {
        // c
        //	t
        ""`tick`"" : pack,
        ""`tick`"" : u,
        ""abc"" : u128,
        [""" ++ [233]%N ++ runes_of_ascii "t" ++ [233]%N ++ runes_of_ascii """, ""x y""] : float,
        0123456789 : calculatedFrom,
    },
    repeat zchar[1] zchar,
    char[255] matchKey,
    repeat float {
        match chars as asx {
            [0, 0, """"] : i64_,
            00 : BodyLength,
            //
            // " ++ [27880; 37322]%N ++ runes_of_ascii "
            ""// no comment"" : a1,
        },
        repeat T i64_,
        // packet A { u8 x, }
        // c
        repeat char[0] len,
    },
    zchar[42] uint8x @calculatedFrom(""// no comment""),
}")).
Eval vm_compute in ("<<<M679>>>" ++ check (runes_of_ascii "root packet
body { @tag( 255) chars calculatedFrom ,
    //	t
    @rightPad ( '0' )
    @calculatedFrom(
    ""a	b"" // " ++ [128512]%N ++ runes_of_ascii " emoji
) @rightPad ( )
stringy @calculatedFrom( ""it's""  )// " ++ [128512]%N ++ runes_of_ascii " emoji
, repeat string trueish /// triple
,  @calculatedFrom(
    // `tick` ""quote"" 'q'
    """"
    ) asx
@lengthOf(	options1 ) `doc`  , u32 Logon ,float64// packet A { u8 x, }
i64_
    @lengthOf( metadata ) , @calculatedFrom( ""`tick`"") chars @lengthOf(len ) `line1
line2`
,f32a
    /// triple
    {match trueish
as roots{ ""1"" :
    body""// no comment"" : Packet,[ 42 , ""it's"" ,
    0, // " ++ [128512]%N ++ runes_of_ascii " emoji
""it's"" ] : charz,""a\""b"" : stringy,
// a // b
//x
}
    , } ,
uint8x { zchar[ 10 ]
    As ,}// trailing space 
, @tag( 0123456789) @rightPad (
    '0' ) @calculatedFrom("""") asx@lengthOf(	trueish ) ,} root
packet trueish{ }
")).
Eval vm_compute in ("<<<M4188>>>" ++ check (runes_of_ascii "packet chars {
}// c

packet len {
    repeat char[] Foo,
    @rightPad('0')
    zchar[007] a1 `say ""hi""`,
    repeat BodyLength leftPad,
}

root packet u8x {
    f64 lengthOf @calculatedFrom(""CRC32""),
    string zchar @lengthOf(int) `crlf
        line`,
    int calculatedFrom,
    @lengthOf(As)
    match falsey as asx {
        65535 : _x,
        [1] : u,
        007 : uint8x,
        00 : f32a,
        """ ++ [233]%N ++ runes_of_ascii "t" ++ [233]%N ++ runes_of_ascii """ : Packet,
        [42, ""a\""b""] : len,
    },
    @lengthOf(stringy)
    @calculatedFrom(""1"")
    repeat A {
        char[] lengthOf `it's`,
    },
    _x `" ++ [28040; 24687; 31867; 22411]%N ++ runes_of_ascii "`,
    @leftPad('0')
    match Foo as crc {
        10 : trueish,
        42 : Pad,
        [4294967296, ""// no comment"", ""{,}""] : float,
    },
    @lengthOf(u8x)
    a1 @calculatedFrom(""\" ++ [233]%N ++ runes_of_ascii """),
}")).
Eval vm_compute in ("<<<M3823>>>" ++ check (runes_of_ascii "packet roots {
    @calculatedFrom(""CRC32"")
    @tag(42)
    Z9_ leftPad `line1
        line2`,
    @lengthOf(string_)
    @lengthOf(Packet)
    @calculatedFrom(""// no comment"")
    repeat chars len,
    @tag(42)
    @tag(3)
    u8 u128 @lengthOf(A),
    char T,
    @lengthOf(charz)
    // `tick` ""quote"" 'q'
    zchar lengthOf,
    repeat zchar[00] A,
    char[4294967296] leftPad `u8 x,`,
    @tag(4294967296)
    @tag(007)
    repeat char[65535] float `two words`,
}

packet crc {
    msg_type @lengthOf(chars),
    string chars @lengthOf(u128),
    int64 Header,
    match lengthOf as pack {
        [255, ""packet""] : i64_,
        //x
        1 : u,
    },
    trueish @lengthOf(packetx),
    charz @lengthOf(packetx),
}")).
Eval vm_compute in ("<<<M4239>>>" ++ check (runes_of_ascii "

  MetaData
o

    {uint8 
asx
	,	// " ++ [27880; 37322]%N ++ runes_of_ascii "
	} MetaData
	_x
    { A

Z9_`a\`

,}
    packet string_	{
	repeat

    x_y_z f32a
, charz 

    //x
	// " ++ [27880; 37322]%N ++ runes_of_ascii "
{
    msg_type@lengthOf(

A
    ),} , uint16 
stringy, @calculatedFrom(

""" ++ [233]%N ++ runes_of_ascii "t" ++ [233]%N ++ runes_of_ascii """ )
leftPad
msg_type  ,	@tag(
	7 )
@calculatedFrom(
	//	t
  """ ++ [28040; 24687]%N ++ runes_of_ascii """	)

    i64_
	,
    repeat

trueish

    x 
`doc` ,
uint16
	metadata 	 //	t
@lengthOf(
i8i8
) `tab	here`

    ,

repeat

tag
    Logon, repeat repeatCount metadata ``// a // b
,  // trailing space 
	} packet roots

{repeat 
x_y_z
    { 

// `tick` ""quote"" 'q'

char[4294967296  ] stringy

    `line1
line2`
	,
uint16 body
	,
} 
,
@leftPad(	' '
    )
MetaDataX

    stringy 
, }
")).
Eval vm_compute in ("<<<M4320>>>" ++ check (runes_of_ascii "packet
    rootA {	}  // " ++ [27880; 37322]%N ++ runes_of_ascii "

  packet
MetaDataX
	    // packet A { u8 x, }

  {  @leftPad 
(
	'0'

)
@calculatedFrom(

    ""`tick`""

    )

pack
@calculatedFrom(	""1"")

,
    f32a
{
	a1
{ lengthOf

{
	repeat 
uint8
charz

    `crlf
line`

,

} ,
    match
    roots

as

    Packet {
7 : Foo, ""\" ++ [233]%N ++ runes_of_ascii """ 

    // c
:	metadata ,

    ""a	b""	://
  trueish 

    // @lengthOf(
  //x

  ,  0123456789 :
Z9_  , 
[  4294967296 ,
""packet""

    ,

"""" /// triple
,
3

    ,

""" ++ [233]%N ++ runes_of_ascii "t" ++ [233]%N ++ runes_of_ascii """
	]:	pack
	10
    :
a1, } ,

    u16  u128	// " ++ [128512]%N ++ runes_of_ascii " emoji
		`" ++ [28040; 24687; 31867; 22411]%N ++ runes_of_ascii "` , }
,  }  ,
zchar[ 
00 
]
    _x@calculatedFrom(  ""x y""
	)

`doc`	,

    }

packet
pack	{ }
")).
Eval vm_compute in ("<<<M113>>>" ++ check (runes_of_ascii "root packet Pad{ @lengthOf( _x) As i8i8 ,f32 lengthOf
`a\`	,
    // " ++ [27880; 37322]%N ++ runes_of_ascii "
    repeat len  `tab	here` , zchar[ //	t
3 ] body, int8 matchKey
    `crlf
line` ,}
    MetaData metadata { matchKey  packetx
    ,
}
    packet options1	{ repeat charz `line1
line2`, int8 options1
    // " ++ [27880; 37322]%N ++ runes_of_ascii "
    ,
    repeat	roots
{
repeat	float32	x_y_z `say ""hi""`,	}
// c
// a // b
,int64 options1 // `tick` ""quote"" 'q'
`line1
line2` , match  falsey
as falsey
    {
    [ ""// no comment""// packet A { u8 x, }
, """"]:_x  , 42 : // @lengthOf(
crc ""packet"" : repeatCount, """ ++ [128512]%N ++ runes_of_ascii """
    //	t
    :u8x , ""abc""
: falsey, } , repeat	float64
x_y_z `a\`,
}")).
Eval vm_compute in ("<<<M897>>>" ++ check (runes_of_ascii "packet
leftPad
    {
    @tag(
    00
) As chars  , u8
i8i8
    , match o
as chars
{	[""{,}""
,
    ""1"" , ""abc""
,
42 ,
    // " ++ [27880; 37322]%N ++ runes_of_ascii "
    ""packet"" ,00 ,
"""",//
""a\""b""
    ]: uint8x ,
""// no comment"" : calculatedFrom  ,  0 : int""packet"" :u
//	t
//x
, /// triple
""CRC32""
    : As , 0 : len
    , } ,char[ 0123456789] float
@calculatedFrom(""CRC32"" ) ,
    Pad chars`two words`
,  string
    stringy
@calculatedFrom(""""// packet A { u8 x, }
)
,  @calculatedFrom(""`tick`""
)// packet A { u8 x, }
roots @lengthOf(
    MetaDataX  )
    ,
@tag(	4294967296)u32
A
    `` , Foo ,
    f32
matchKey , }
")).
Eval vm_compute in ("<<<M761>>>" ++ check (runes_of_ascii "packet packetx { @lengthOf( charz)lengthOf { u64	x_y_z @calculatedFrom( ""abc""
)
`tab	here` , }, char zchar @lengthOf(lengthOf
    ) `two words`, chars Logon
//
// @lengthOf(
`line1
line2` ,match int	as u128 // " ++ [128512]%N ++ runes_of_ascii " emoji
{
1 : asx ,// a // b
""CRC32"" : Header ,	}
,
string_
,Header{ match u128 as
    len {  [ 255
    ,10
    ,255 ,
255 , 00 , ""x y""
, // @lengthOf(
""" ++ [28040; 24687]%N ++ runes_of_ascii """ ]: len ,[ ""{,}"", 1 ] : _x""1"": o ,
    ""{,}""
    //
    : x ,
007
    : stringy
    ,} // a // b
, repeat f32a	{ stringy `
` ,
    } ,zchar[ 65535 ] charz ,
    o  , // a // b
} ,}
")).
Eval vm_compute in ("<<<M1040>>>" ++ check (runes_of_ascii "
options	{ zchar =	false ; Packet = ""`tick`"" ;	a1 =
    // c
    char[]
    ; Packet =0123456789 ; }	packet msg_type  { /// triple
@lengthOf( u128
) body	@lengthOf( len ) ,@calculatedFrom( ""CRC32""
)
zchar[
    /// triple
    007 ]// packet A { u8 x, }
repeatCount@lengthOf(
Foo)  `it's` , i16 leftPad @calculatedFrom(""a\\"")
`u8 x,` ,
    /// triple
    float ,
@lengthOf(a1 )As @lengthOf( rootA ) `doc` // @lengthOf(
, // " ++ [128512]%N ++ runes_of_ascii " emoji
f32 o
@calculatedFrom(""a	b"" )  `tab	here` ,
    } options
// @lengthOf(
// " ++ [27880; 37322]%N ++ runes_of_ascii "
{ } options { }

")).
Eval vm_compute in ("<<<M3803>>>" ++ check (runes_of_ascii "packet leftPad {
    @calculatedFrom(""\" ++ [233]%N ++ runes_of_ascii """)
    @rightPad('0')
    @lengthOf(asx)
    BodyLength trueish `it's`,
    @leftPad('\x00')
    A i8i8 `
        `,
    @tag(0)
    matchKey {
        int16 falsey `line1
                line2`,/// triple
    },// " ++ [128512]%N ++ runes_of_ascii " emoji
    match tag as falsey {
        [""packet""] : i64_,
        3 : leftPad,
    },
    @calculatedFrom(""// no comment"")
    string a1,
    @leftPad('\x00')
    @calculatedFrom(""" ++ [28040; 24687]%N ++ runes_of_ascii """)
    @calculatedFrom(""`tick`"")
    repeat chars As,
}")).
Eval vm_compute in ("<<<M4377>>>" ++ check (runes_of_ascii "
options{
    }packet
calculatedFrom {}packet
    T
{@tag(  42

    ) match
len
	as  matchKey  {007 : 
o  ,

""a\""b""  :
calculatedFrom
    [

00//
    , 42,
	0 , 00, 7
    ]	:trueish
    ,	""packet"" 	 // @lengthOf(

:MetaDataX,
}

,  int @calculatedFrom( ""a\""b"" )

    `" ++ [233]%N ++ runes_of_ascii "` , @lengthOf(
zchar ) @tag( 65535 ) repeat string // c
		uint8x ,
    } 
MetaData

    leftPad 
    // `tick` ""quote"" 'q'
    { 
}
    //
    packet
	tag { repeat Z9_

    x_y_z `a\` ,

}")).
Eval vm_compute in ("<<<M898>>>" ++ check (runes_of_ascii "
packet Packet { int16 f32a,	match //	t
string_ as u8x { """ ++ [128512]%N ++ runes_of_ascii """ :
msg_type
, [
""{,}""
    ,4294967296 ]
    // " ++ [27880; 37322]%N ++ runes_of_ascii "
    :
metadata	0123456789 : matchKey
, 3 :
    zchar,  }// `tick` ""quote"" 'q'
,uint16
As @calculatedFrom( ""a	b"")  ,
    @rightPad ( ) repeat zchar[3 ]u128 ,
} root packet
    u8x { // `tick` ""quote"" 'q'
o
    , @calculatedFrom(  ""{,}""
    ) f32 x_y_z@lengthOf( A ) //
,@lengthOf( uint8x  )// `tick` ""quote"" 'q'
repeat
zchar[ 7 ]  uint8x , }")).
Eval vm_compute in ("<<<M3570>>>" ++ check (runes_of_ascii "options	{ LittleEndian = false 
;	StringPrefixLenType
=  u32
; ArrayPrefixLenType =

u16 
;} 
packet

Party	{ 
@leftPad
(  '0'

    )
    char[ 12	]Ref
    ,
    repeat 
char[
    6

    ]
x

    ,
    }  packet
    Logon

    {	uint32 clOrdID , Party

,} root

    packet Ack
{ 
zchar[ 2 ]
f1
, u32 
seqNo
,
u32 
Side2
	@lengthOf( Body
) ,

    match 
seqNo
	as
	Body{
    43  :
	Logon
    ,

    93	:

Party ,} , 
}

")).
Eval vm_compute in ("<<<M3788>>>" ++ check (runes_of_ascii "
options

{len
    =255
tag 
=
    """ ++ [233]%N ++ runes_of_ascii "t" ++ [233]%N ++ runes_of_ascii """ }

packet 
packetx{
} 
options
{ 
repeatCount = '\x00'
    ;
	x=  4294967296
len=
    false

    ;A

    = false;Packet =
""""// " ++ [27880; 37322]%N ++ runes_of_ascii "
		;}
MetaData x

    {
        //
	  // `tick` ""quote"" 'q'
uint32 roots

,
    lengthOf	o `
` ,	u32 x_y_z
`line1
line2`

    , 
int64  msg_type 
// a // b
  //
    `crlf
line` ,
string repeatCount

`line1
line2`

    , u128
stringy,
	} ")).
Eval vm_compute in ("<<<M3446>>>" ++ check (runes_of_ascii "// top
options // c0a
  // c0b
{
    // c1
LittleEndian =
    // c3
true // c4
; }
    // c6
packet
    // c7
B // c8
{ // c9a
  // c9b
u8 // c10
a // c11a
  // c11b
, // c12
string s // c14
, // c15a
  // c15b
} // c16a
  // c16b
root
    // c17
packet // c18a
  // c18b
P { u16 // c21
L // c22a
  // c22b
@lengthOf( B ) // c25a
  // c25b
,
    // c26
B // c27a
  // c27b
, // c28
u8 // c29
t , // c31
} ")).
Eval vm_compute in ("<<<M1288>>>" ++ check (runes_of_ascii "packet
int // @lengthOf(
{ string crc `{ , }` , repeat	uint8
roots `doc` ,u32 Logon `
` ,	}packet
// " ++ [27880; 37322]%N ++ runes_of_ascii "
//
x_y_z
{metadata {Pad @calculatedFrom( ""it's""
) `crlf
line` , char[]asx
    , Z9_ @lengthOf( x
    ) `two words` , },tag
    x_y_z `it's` , @calculatedFrom( ""a	b"" )
@calculatedFrom(""{,}""
    ) @rightPad
    // trailing space 
    (
    '\x00'
    )
int64 packetx //x
`` , }")).
Eval vm_compute in ("<<<M991>>>" ++ check (runes_of_ascii "packet // packet A { u8 x, }
Pad { repeat u8 f32a ,
string_ { char[ 42 ] // a // b
As
    , repeat uint16 asx , repeat
    zchar[ 65535 ]
    a1
    , }
, }
// trailing space 
// @lengthOf(
MetaData
    rootA { }MetaData _x {
    char[]
body ,
f64 // c
len ,rootA
uint8x
    `
` ,
    float f32a , }options{  metadata = char ;
    //x
    msg_type = zchar[ 0 ] ;}
// " ++ [27880; 37322]%N ++ runes_of_ascii "
")).
Eval vm_compute in ("<<<M1168>>>" ++ check (runes_of_ascii "
packet
    // `tick` ""quote"" 'q'
    asx	{	@lengthOf( calculatedFrom
)
x float `line1
line2` ,
    // " ++ [128512]%N ++ runes_of_ascii " emoji
    Logon @calculatedFrom(
/// triple
// @lengthOf(
""it's"" )`say ""hi""` ,u16 crc , f64// `tick` ""quote"" 'q'
a1 ,} packet
matchKey { @calculatedFrom( """ ++ [28040; 24687]%N ++ runes_of_ascii """ )  asx {
Header packetx// c
`doc` , } , repeat Header _x // packet A { u8 x, }
, Logon , }")).
Eval vm_compute in ("<<<M709>>>" ++ check (runes_of_ascii "packet
    calculatedFrom
    {int16 asx @calculatedFrom( """"
    )
    , @calculatedFrom( ""1"" )
i8i8 { i32 stringy	@calculatedFrom(
    ""a	b""
    )`say ""hi""`
, i32//x
uint8x
, match Header as	Logon {
00 :
    A ,} ,match
    // `tick` ""quote"" 'q'
    repeatCount
as Packet { ""packet""
:
    // trailing space 
    MetaDataX """ ++ [28040; 24687]%N ++ runes_of_ascii """: u,} ,},	}
")).
Eval vm_compute in ("<<<M3608>>>" ++ check (runes_of_ascii "packet Foo {
    @lengthOf(metadata)
    // " ++ [128512]%N ++ runes_of_ascii " emoji
    repeat len {
        matchKey lengthOf,
        repeat body {
            int8 Header,
            zchar @lengthOf(x),
        },
    },
    char[4294967296] _x,
}

MetaData T {
    repeatCount trueish,
    char[65535] Pad `" ++ [233]%N ++ runes_of_ascii "`,
}

options {
}

options {
    u8x = ""1"";
}")).
Eval vm_compute in ("<<<M842>>>" ++ check (runes_of_ascii "// @lengthOf(
packet
    _x {  @calculatedFrom( ""a	b"" )
T rootA ``, u64 body	@calculatedFrom(""a	b""  )
    //x
    `two words` ,	zchar[
7 ] MetaDataX @calculatedFrom( ""it's"")`say ""hi""` /// triple
,
// trailing space 
// `tick` ""quote"" 'q'
f32a {repeat zchar[
    00
    ]
roots`" ++ [233]%N ++ runes_of_ascii "` ,}	, } // `tick` ""quote"" 'q'")).
Eval vm_compute in ("<<<M1054>>>" ++ check (runes_of_ascii "root packet f32a
{
u16 trueish
, o { o
    @calculatedFrom( """" ), roots@calculatedFrom(  ""1"" ) , // a // b
float32
    T , } , @calculatedFrom(""// no comment"") As , @leftPad(
'\x00'
)@lengthOf( uint8x ) @lengthOf( lengthOf ) repeatCount@calculatedFrom(
    """ ++ [128512]%N ++ runes_of_ascii """ )
, @calculatedFrom(
""1""  )repeat
x
,
}")).
Eval vm_compute in ("<<<M1420>>>" ++ check (runes_of_ascii "root packet Foo Foo // " ++ [128512]%N ++ runes_of_ascii " emoji
{ } options {
    // a // b
    tag // `tick` ""quote"" 'q'
= //	t
""""
    ; u8x = zchar[0  ] }
MetaData
    int {zchar[ 10]
lengthOf	`` , i64 u8x`// not a comment` ,MetaDataX pack// `tick` ""quote"" 'q'
`crlf
line`
, Logon charz `crlf
line`
    ,
    // a // b
    }
")).
Eval vm_compute in ("<<<M1440>>>" ++ check (runes_of_ascii "root packet Foo // " ++ [128512]%N ++ runes_of_ascii " emoji
{ } options { {
    // a // b
    tag // `tick` ""quote"" 'q'
= //	t
""""
    ; u8x = zchar[0  ] }
MetaData
    int {zchar[ 10]
lengthOf	`` , i64 u8x`// not a comment` ,MetaDataX pack// `tick` ""quote"" 'q'
`crlf
line`
, Logon charz `crlf
line`
    ,
    // a // b
    }
")).
Eval vm_compute in ("<<<M1620>>>" ++ check (runes_of_ascii "root packet Foo // " ++ [128512]%N ++ runes_of_ascii " emoji
{ } options {
    // a // b
    tag // `tick` ""quote"" 'q'
= //	t
""""
    ; u8x = zchar[0  ] }
MetaData
    int {zchar[ 10]
lengthOf	`` , i64 u8x`// not a comment` ,MetaDataX pack// `tick` ""quote"" 'q'
`crlf
line`
, Logon charz `crlf
line`
    ,
    // a // b
    ?}
")).
Eval vm_compute in ("<<<M1551>>>" ++ check (runes_of_ascii "root packet Foo // " ++ [128512]%N ++ runes_of_ascii " emoji
{ } options {
    // a // b
    tag // `tick` ""quote"" 'q'
= //	t
""""
    ; u8x = zchar[0  ] }
MetaData
    int {zchar[ 10]
lengthOf	`` , i64 u8x, `// not a comment`MetaDataX pack// `tick` ""quote"" 'q'
`crlf
line`
, Logon charz `crlf
line`
    ,
    // a // b
    }
")).
Eval vm_compute in ("<<<M1624>>>" ++ check (runes_of_ascii "root packet Foo // " ++ [128512]%N ++ runes_of_ascii " emoji
{ } options {
    // a // b
    tag // `tick` ""quote"" 'q'
= //	t
""""
    ; u8x = zchar[0  ] }
MetaData
    " ++ [21517; 23383]%N ++ runes_of_ascii " {zchar[ 10]
lengthOf	`` , i64 u8x`// not a comment` ,MetaDataX pack// `tick` ""quote"" 'q'
`crlf
line`
, Logon charz `crlf
line`
    ,
    // a // b
    }
")).
Eval vm_compute in ("<<<M3483>>>" ++ check (runes_of_ascii "packet A {
    u8 a,
}
packet B {
    u16 b,
}
packet C {
    u32 c,
}
root packet M {
    u16 Kc, u16 Kb, u16 Ka,
    match Kc as X {
        9 : A,
        10 : B,
    },
    match Kb as Y {
        2 : C,
        1 : A,
    },
    match Ka as Z {
        1 : B,
    },
    A, B, C,
}
")).
Eval vm_compute in ("<<<M559>>>" ++ check (runes_of_ascii "packet
msg_type	{ charz
`` , Logon @lengthOf( As
    ) // " ++ [128512]%N ++ runes_of_ascii " emoji
, zchar[ 10]  Packet ,@rightPad (
' ' // " ++ [128512]%N ++ runes_of_ascii " emoji
)
repeat As{char[ 007]
int@lengthOf( roots//	t
),
    int64
u8x `" ++ [233]%N ++ runes_of_ascii "` ,zchar
    // `tick` ""quote"" 'q'
    @calculatedFrom( """ ++ [233]%N ++ runes_of_ascii "t" ++ [233]%N ++ runes_of_ascii """
    ) , } // a // b
,/// triple
}
")).
Eval vm_compute in ("<<<M1113>>>" ++ check (runes_of_ascii "  packet
i64_ {  @leftPad ( )
char[]u8x//x
, float
`line1
line2`, // " ++ [27880; 37322]%N ++ runes_of_ascii "
@leftPad() match	roots  as charz {
[// @lengthOf(
""abc"" ] :	MetaDataX  ,
    // trailing space 
    42 :
    u128 } , } MetaData
    i8i8 {char[ 0 ]
    // " ++ [128512]%N ++ runes_of_ascii " emoji
    matchKey `it's`
,
    }
")).
Eval vm_compute in ("<<<M243>>>" ++ check (runes_of_ascii "packet leftPad{
    trueish { char[] charz	@calculatedFrom(  ""\n"" )
// @lengthOf(
//x
,
    } , @rightPad
    ( '0' ) @tag( 255 )len {
    zchar[
65535
] f32a , }
,f64
    i8i8	`` , } options {chars = 00 Pad =
    false // a // b
stringy =
string
    }
")).
Eval vm_compute in ("<<<M4004>>>" ++ check (runes_of_ascii "MetaData i8i8 {
    int8 charz `doc`,
}

packet Header {
    repeat int32 lengthOf `line1
    line2`,
}

options {
    float = char[];
}

packet i8i8 {
    uint8 u128 @lengthOf(repeatCount) `crlf
    line`,
}

options {
    Packet = char[007]
}")).
Eval vm_compute in ("<<<M1314>>>" ++ check (runes_of_ascii "// " ++ [27880; 37322]%N ++ runes_of_ascii "
root packet rootA {  @calculatedFrom( ""\" ++ [233]%N ++ runes_of_ascii """
) uint32 calculatedFrom ,
    // trailing space 
    }  MetaData
stringy{ f32a charz ,// packet A { u8 x, }
uint32 repeatCount
    , i64_ u128 `say ""hi""`,
    string calculatedFrom , }
")).
Eval vm_compute in ("<<<M2351>>>" ++ check (runes_of_ascii "MetaData Packet { }packet	asx  { @lengthOf( asx) falsey`crlf
line`
,
    }
    packet x	{uint32// @lengthOf(
rootA	,u32 options1 `say ""hi""` , @tag( 7
    )// packet A { u8 x, }
msg_type @lengthOf( @lengthOf(
stringy	)	, }

")).
Eval vm_compute in ("<<<M3882>>>" ++ check (runes_of_ascii "packet

    zchar{ @rightPad 
( )
repeat

char[]  leftPad	,  @calculatedFrom(	""{,}""
	) u , i64_@calculatedFrom(
""// no comment""
    )
	, 
    // c
	}

    // packet A { u8 x, }

// " ++ [128512]%N ++ runes_of_ascii " emoji
    packet  lengthOf 
{

}
")).
Eval vm_compute in ("<<<M2221>>>" ++ check (runes_of_ascii "MetaData Packet { { }packet	asx  { @lengthOf( asx) falsey`crlf
line`
,
    }
    packet x	{uint32// @lengthOf(
rootA	,u32 options1 `say ""hi""` , @tag( 7
    )// packet A { u8 x, }
msg_type @lengthOf(
stringy	)	, }

")).
Eval vm_compute in ("<<<M2386>>>" ++ check (runes_of_ascii "MetaData Packet { }packet	asx  { @lengthOf( asx) falsey`crlf
line`
,
    }
    pac?ket x	{uint32// @lengthOf(
rootA	,u32 options1 `say ""hi""` , @tag( 7
    )// packet A { u8 x, }
msg_type @lengthOf(
stringy	)	, }

")).
Eval vm_compute in ("<<<M2342>>>" ++ check (runes_of_ascii "MetaData Packet { }packet	asx  { @lengthOf( asx) falsey`crlf
line`
,
    }
    packet x	{uint32// @lengthOf(
rootA	,u32 options1 `say ""hi""` , @tag( 7
    msg_type// packet A { u8 x, }
) @lengthOf(
stringy	)	, }

")).
Eval vm_compute in ("<<<M4073>>>" ++ check (runes_of_ascii "packet repeatCount {
    @rightPad()
    @rightPad('\x00')
    matchKey @lengthOf(zchar),
    match int as int {
        00 : Header,
    },
    @leftPad('\x00')
    // @lengthOf(
    repeat o options1 `u8 x,`,
}")).
Eval vm_compute in ("<<<M3961>>>" ++ check (runes_of_ascii "
packet As
    {
u128	MetaDataX,

char[ 3

    ]falsey , }
options {falsey
        /// triple
	=	""it's""	;  }

    MetaData
a1 
{
    u8x

    A

    ,  matchKey
_x  `" ++ [28040; 24687; 31867; 22411]%N ++ runes_of_ascii "`
    ,
    string  T
	,
}
")).
Eval vm_compute in ("<<<M221>>>" ++ check (runes_of_ascii "options{ len = // " ++ [27880; 37322]%N ++ runes_of_ascii "
true
    ;
MetaDataX = zchar[ 00//
] lengthOf =  '0'; Pad	=""packet""  ; x_y_z
    // a // b
    = ""a\""b""; } packet calculatedFrom{
repeat
matchKey // packet A { u8 x, }
Foo
,
    }
")).
Eval vm_compute in ("<<<M3428>>>" ++ check (runes_of_ascii "packet Inner { u8 a
    // c4
,
    // c5
}
    // c6
root // c7a
  // c7b
packet // c8a
  // c8b
P // c9a
  // c9b
{
    // c10
repeat Inner items ,
    // c14
u8 // c15
x
    // c16
, // c17
} ")).
Eval vm_compute in ("<<<M1352>>>" ++ check (runes_of_ascii "// packet A { u8 x, }
MetaData T {
rootA MetaDataX , rootA pack
    // `tick` ""quote"" 'q'
    ,
    int8 zchar ,string trueish  `line1
line2`	, u16 metadata `say ""hi""`
, matchKey
f32a ,  }
")).
Eval vm_compute in ("<<<M3674>>>" ++ check (runes_of_ascii "packet MetaDataX {
    match Header as zchar {
        0 : pack,
        [42, 65535] : crc,
    },// @lengthOf(
    @tag(1)
    @rightPad(' ')
    int64 Foo,
}// packet A { u8 x, }")).
Eval vm_compute in ("<<<M605>>>" ++ check (runes_of_ascii "packet lengthOf { @leftPad
('\x00'
    ) char[
4294967296]f32a , repeat char[] zchar ,
_x,// " ++ [27880; 37322]%N ++ runes_of_ascii "
leftPad zchar ,	A,	char[
// `tick` ""quote"" 'q'
// a // b
3]
u ,T `it's`	,}")).
Eval vm_compute in ("<<<M693>>>" ++ check (runes_of_ascii "
options
    {a1
=char[ 1]// " ++ [27880; 37322]%N ++ runes_of_ascii "
; x=f64; Z9_ =
//x
//
char[
3 ]
; Z9_= '\x00' x_y_z
    = zchar[ 10 ]
; }
    packet x_y_z { chars trueish `it's`
// " ++ [128512]%N ++ runes_of_ascii " emoji
//x
, }")).
Eval vm_compute in ("<<<M553>>>" ++ check (runes_of_ascii "MetaData
i64_ { float32 BodyLength
    // a // b
    , int8
tag
`two words` , roots
a1 `crlf
line` ,}  MetaData f32a { int64 o
    `tab	here`, i32
    A, }")).
Eval vm_compute in ("<<<M492>>>" ++ check (runes_of_ascii "
root
packet chars
    {
repeat
a1 { trueish x `" ++ [28040; 24687; 31867; 22411]%N ++ runes_of_ascii "` ,	},
}
MetaData metadata { int32
int
, f64 uint8x `say ""hi""` //
, i64 rootA `crlf
line` ,}
")).
Eval vm_compute in ("<<<M4399>>>" ++ check (runes_of_ascii "MetaData o {
    char[] i64_ `{ , }`,
    u16 tag,
    char[] lengthOf `u8 x,`,
    Z9_ rootA `
        `,
    zchar[3] u,
    float T `{ , }`,
}")).
Eval vm_compute in ("<<<M4155>>>" ++ check (runes_of_ascii "packet A {
    match k as n {
        [
            ""a"", ""bb"", ""c c"", ""d"", ""e"",
            ""f"", ""g""
        ] : B,
        2 : C,
    },
}")).
Eval vm_compute in ("<<<M845>>>" ++ check (runes_of_ascii "root
    packet
charz
{ @calculatedFrom( ""a	b""
) repeat f32a options1
`u8 x,` ,} options{ // " ++ [27880; 37322]%N ++ runes_of_ascii "
zchar=
    char[3 ] ;
    }
/// triple
")).
Eval vm_compute in ("<<<M4457>>>" ++ check (runes_of_ascii "

  packet
    calculatedFrom	{
@tag( 4294967296  // c
    )
u msg_type

,char[	3

    ]crc

@lengthOf(	len )	`u8 x,`	,

    }

")).
Eval vm_compute in ("<<<M1713>>>" ++ check (runes_of_ascii "root packet /// triple
rootA {	i32
MetaDataX@calculatedFrom( ""CRC32"" ) `line1
line2` , } MetaData BodyLength {
u8
rootA, } } // c")).
Eval vm_compute in ("<<<M1689>>>" ++ check (runes_of_ascii "root packet /// triple
rootA {	i32
MetaDataX@calculatedFrom( ""CRC32"" ) `line1
line2` , } MetaData { BodyLength
u8
rootA, } // c")).
Eval vm_compute in ("<<<M1882>>>" ++ check (runes_of_ascii "packet
    Pad // a // b
{@lengthOf i8i8 @calculatedFrom( ""a	b"") `u8 x,` ,
} options{ float// " ++ [128512]%N ++ runes_of_ascii " emoji
= f64 i64_
=//	t
00 }
")).
Eval vm_compute in ("<<<M3022>>>" ++ check (runes_of_ascii "packet A {
    u16 len @lengthOf(body) `a
    b
  c`,
    u32 crc @calculatedFrom(""CRC32"") `a
    b
  c`,
    string body,
}")).
Eval vm_compute in ("<<<M1737>>>" ++ check (runes_of_ascii "root packet /// triple
rootA {	i32
MetaDataX@calculatedFrom( ""CRC32"" ) `line1
line2` , } MetaData a" ++ [769]%N ++ runes_of_ascii "b {
u8
rootA, } // c")).
Eval vm_compute in ("<<<M1836>>>" ++ check (runes_of_ascii "packet
    Pad // a // b
{ i8i8 @calculatedFrom( ""a	b"") `u8 x,` ,
} options{ { float// " ++ [128512]%N ++ runes_of_ascii " emoji
= f64 i64_
=//	t
00 }
")).
Eval vm_compute in ("<<<M4424>>>" ++ check (runes_of_ascii "packet A {
    u16 len @lengthOf(body) `a
    b`,
    u32 crc @calculatedFrom(""CRC32"") `a
    b`,
    string body,
}")).
Eval vm_compute in ("<<<M1655>>>" ++ check (runes_of_ascii "root packet /// triple
rootA {	i32
MetaDataX tag ""CRC32"" ) `line1
line2` , } MetaData BodyLength {
u8
rootA, } // c")).
Eval vm_compute in ("<<<M111>>>" ++ check (runes_of_ascii "root packet Pad {@tag(  3
)
    @calculatedFrom(
""a\""b""
    )repeat zchar[
    // " ++ [128512]%N ++ runes_of_ascii " emoji
    00 ] repeatCount , }")).
Eval vm_compute in ("<<<M4190>>>" ++ check (runes_of_ascii "packet 
A
    {
match 
k	as

    n{	[

    1  , 22
    ,
007
	, 4	,
5 ,66 ,  7,  8 
] :
B  2

:
C
}	, }
")).
Eval vm_compute in ("<<<M3058>>>" ++ check (runes_of_ascii "packet A {
    match k as n {
        ""\
"" : B,
        [""\
"", 1] : C,
        [1,2,3,4,5,""\
""] : D,
    },
}")).
Eval vm_compute in ("<<<M2993>>>" ++ check (runes_of_ascii "packet A {
  match k as n {
    [1, ""bb"", 007, ""d"", 5, ""f"", 7, ""h"", 9, ""j"", 11, ""l""] : B,
    2 : C
  },
}")).
Eval vm_compute in ("<<<M3337>>>" ++ check (runes_of_ascii "// c
packet calculatedFrom { @tag( 4294967296 ) u msg_type , char[ 3 ] crc @lengthOf( len ) `u8 x,` , }")).
Eval vm_compute in ("<<<M3370>>>" ++ check (runes_of_ascii "packet calculatedFrom { @tag( 4294967296 ) u msg_type , char[ 3 ] crc @lengthOf( len )
// c
`u8 x,` , }")).
Eval vm_compute in ("<<<M3870>>>" ++ check (runes_of_ascii "
packet

    A {match
    k	as n  { [ ""a"" ,22  , 
""c c"",

    4 
,

""e""

    ]  :
B
2:C } , 
}")).
Eval vm_compute in ("<<<M3185>>>" ++ check (runes_of_ascii "// top
MetaData // c0
zchar // c1
{ // c2
zchar[ // c3
3 // c4
] // c5
Pad // c6
, // c7
} // c8
")).
Eval vm_compute in ("<<<M3220>>>" ++ check (runes_of_ascii "packet Logon { // c
@tag( 42 ) @rightPad ( ' ' ) @leftPad ( ) repeat trueish { string T , } , }")).
Eval vm_compute in ("<<<M3252>>>" ++ check (runes_of_ascii "packet Logon { @tag( 42 ) @rightPad ( ' ' ) @leftPad ( ) repeat trueish { string T , // c
} , }")).
Eval vm_compute in ("<<<M4122>>>" ++ check (runes_of_ascii "root packet lengthOf {
    @tag(4294967296)
    @calculatedFrom(""" ++ [128512]%N ++ runes_of_ascii """)
    i32 msg_type `a\`,
}")).
Eval vm_compute in ("<<<M4310>>>" ++ check (runes_of_ascii "options {
    // a // b
    //
    Z9_ = char[1]
    Foo = '0';// `tick` ""quote"" 'q'
}//	t")).
Eval vm_compute in ("<<<M1992>>>" ++ check (runes_of_ascii "root
packet crc
    { f32a @calculatedFrom( """ ++ [233]%N ++ runes_of_ascii "t" ++ [233]%N ++ runes_of_ascii """ ) )
    `say ""hi""`, lengthOf `` ,  }")).
Eval vm_compute in ("<<<M4246>>>" ++ check (runes_of_ascii "options {
    len = char[10]
    asx = false;
    string_ = """";
}// `tick` ""quote"" 'q'")).
Eval vm_compute in ("<<<M2016>>>" ++ check (runes_of_ascii "root
packet crc
    { f32a @calculatedFrom( """ ++ [233]%N ++ runes_of_ascii "t" ++ [233]%N ++ runes_of_ascii """ )
    `say ""hi""`, lengthOf ``   }")).
Eval vm_compute in ("<<<M3593>>>" ++ check (runes_of_ascii "packet i8i8 {
    int16 stringy @calculatedFrom(""// no comment""),
}

packet _x {
}")).
Eval vm_compute in ("<<<M3311>>>" ++ check (runes_of_ascii "packet o { @tag( 42 ) repeat x {
// c
char[ 0123456789 ] i64_ , } , } options { }")).
Eval vm_compute in ("<<<M2046>>>" ++ check (runes_of_ascii "root
packet crc
    { f32a @calculatedFrom( """ ++ [233]%N ++ runes_of_ascii "t" ++ [233]%N ++ runes_of_ascii """ )
    `say ""hi""`, a" ++ [769]%N ++ runes_of_ascii "b `` ,  }")).
Eval vm_compute in ("<<<M2920>>>" ++ check (runes_of_ascii "packet A {
  match k as n {
    [1, 22, ""c c"", 4, 5, ""f""] : B
    2 : C
  },
}")).
Eval vm_compute in ("<<<M1996>>>" ++ check (runes_of_ascii "root
packet crc
    { f32a @calculatedFrom( """ ++ [233]%N ++ runes_of_ascii "t" ++ [233]%N ++ runes_of_ascii """ )
    , lengthOf `` ,  }")).
Eval vm_compute in ("<<<M2907>>>" ++ check (runes_of_ascii "packet A {
  match k as n {
    [1, 22, ""c c"", 4, 5] : B
    2 : C
  },
}")).
Eval vm_compute in ("<<<M1272>>>" ++ check (runes_of_ascii "  options{
calculatedFrom //x
= true i8i8 = ""a	b"";  f32a
= false
; }
")).
Eval vm_compute in ("<<<M4478>>>" ++ check (runes_of_ascii "  MetaData string_
	{

Header 
roots	,
    } MetaData

MetaDataX {	}
")).
Eval vm_compute in ("<<<M2204>>>" ++ check (runes_of_ascii "root
 @x   // `tick` ""quote"" 'q'
    packet As { trueish Packet , }
")).
Eval vm_compute in ("<<<M1377>>>" ++ check (runes_of_ascii "options
{ trueish// @lengthOf(
= // @lengthOf(
zchar[65535 ]; }
")).
Eval vm_compute in ("<<<M2865>>>" ++ check (runes_of_ascii "packet A {
  match k as n {
    [""a"", ""bb""] : B,
    2 : C
  },
}")).
Eval vm_compute in ("<<<M4166>>>" ++ check (runes_of_ascii "MetaData M {
    u8 x `a
        b`,
    T t `a
        b`,
}")).
Eval vm_compute in ("<<<M1227>>>" ++ check (runes_of_ascii "
MetaData metadata { uint8 metadata
`a\` ,
    char len	, }")).
Eval vm_compute in ("<<<M223>>>" ++ check (runes_of_ascii "options //	t
{  MetaDataX = // " ++ [128512]%N ++ runes_of_ascii " emoji
'0';  } /// triple")).
Eval vm_compute in ("<<<M3173>>>" ++ check (runes_of_ascii "packet A { @tag(1) // a
 @leftPad('0') // b
 char[4] x, }")).
Eval vm_compute in ("<<<M1922>>>" ++ check (runes_of_ascii "
packet	As { @calculatedFrom(//x
""{,}""	lengthOf) , } 	 ")).
Eval vm_compute in ("<<<M4482>>>" ++ check (runes_of_ascii "  MetaData // c
zchar
{ zchar[3 ]

    Pad
, }
")).
Eval vm_compute in ("<<<M1955>>>" ++ check (runes_of_ascii "
packet	As { @calculatedFrom(//x
""{,}""	)a" ++ [769]%N ++ runes_of_ascii "b , } 	 ")).
Eval vm_compute in ("<<<M3916>>>" ++ check (runes_of_ascii "options {
    float = ' ';
    _x = 4294967296;
}")).
Eval vm_compute in ("<<<M1771>>>" ++ check (runes_of_ascii "options " ++ [65279]%N ++ runes_of_ascii " { }options {  } // `tick` ""quote"" 'q'")).
Eval vm_compute in ("<<<M4091>>>" ++ check (runes_of_ascii "
MetaData
    // c
    // @lengthOf(

  T{  } ")).
Eval vm_compute in ("<<<M2597>>>" ++ check (runes_of_ascii "packet A { repeat B { C { u8 x, }, D d, }, }")).
Eval vm_compute in ("<<<M1226>>>" ++ check (runes_of_ascii "packet lengthOf { }
// packet A { u8 x, }
")).
Eval vm_compute in ("<<<M3417>>>" ++ check (runes_of_ascii "
root packet	P {
char  c
, u8 x 
, 
} ")).
Eval vm_compute in ("<<<M3188>>>" ++ check (runes_of_ascii "// c
MetaData zchar { zchar[ 3 ] Pad , }")).
Eval vm_compute in ("<<<M2146>>>" ++ check (runes_of_ascii "MetaData x
{// " ++ [128512]%N ++ runes_of_ascii " emoji
i1%6 stringy , }")).
Eval vm_compute in ("<<<M2748>>>" ++ check (runes_of_ascii "rD(M@OeK<d_*ItH)vbF,tM+2&sK)bFfhRUIF6y")).
Eval vm_compute in ("<<<M2104>>>" ++ check (runes_of_ascii "uint64 x
{// " ++ [128512]%N ++ runes_of_ascii " emoji
i16 stringy , }")).
Eval vm_compute in ("<<<M3177>>>" ++ check (runes_of_ascii "root // a
 packet // b
 A // c
 { }")).
Eval vm_compute in ("<<<M2649>>>" ++ check (runes_of_ascii "MetaData M { u8 x @lengthOf(y), }")).
Eval vm_compute in ("<<<M4007>>>" ++ check (runes_of_ascii "packet A {
    u8 x `d" ++ [8287]%N ++ runes_of_ascii "`,// c" ++ [8287]%N ++ runes_of_ascii "
}")).
Eval vm_compute in ("<<<M3063>>>" ++ check (runes_of_ascii "packet A {
 u8 x `d `, // c 
}")).
Eval vm_compute in ("<<<M3008>>>" ++ check (runes_of_ascii "packet A {
    u8 x `a
b`,
}")).
Eval vm_compute in ("<<<M1202>>>" ++ check (runes_of_ascii "options {tag = ""it's"" ;
}
")).
Eval vm_compute in ("<<<M2090>>>" ++ check (runes_of_ascii "MetaData A { u64 pack, }# ")).
Eval vm_compute in ("<<<M2595>>>" ++ check (runes_of_ascii "packet A { B { u8 x, }, }")).
Eval vm_compute in ("<<<M2594>>>" ++ check (runes_of_ascii "packet A { B { u8 x, } }")).
Eval vm_compute in ("<<<M2136>>>" ++ check (runes_of_ascii "MetaData x
{// " ++ [128512]%N ++ runes_of_ascii " emoji
")).
Eval vm_compute in ("<<<M2728>>>" ++ check (runes_of_ascii "zJCp5x,_`*Ps&{Uwa3JY4N")).
Eval vm_compute in ("<<<M4194>>>" ++ check (runes_of_ascii "// packet A { u8 x, }")).
Eval vm_compute in ("<<<M2562>>>" ++ check (runes_of_ascii "packet A { repeat }")).
Eval vm_compute in ("<<<M2738>>>" ++ check (runes_of_ascii """{,}"" char [ match")).
Eval vm_compute in ("<<<M3122>>>" ++ check (runes_of_ascii "// c" ++ [12]%N ++ runes_of_ascii "
packet A {
}")).
Eval vm_compute in ("<<<M2855>>>" ++ check (runes_of_ascii "65535 65535 false")).
Eval vm_compute in ("<<<M2834>>>" ++ check (runes_of_ascii "lUfoS)U1$-NNWF,V")).
Eval vm_compute in ("<<<M2628>>>" ++ check (runes_of_ascii "packet A { } ;")).
Eval vm_compute in ("<<<M151>>>" ++ check (runes_of_ascii "options { }")).
Eval vm_compute in ("<<<M2479>>>" ++ check (runes_of_ascii "@leftPad(")).
Eval vm_compute in ("<<<M2465>>>" ++ check (runes_of_ascii "matches")).
Eval vm_compute in ("<<<M38>>>" ++ check (runes_of_ascii "
 	 ")).
Eval vm_compute in ("<<<M3080>>>" ++ check (runes_of_ascii "// c" ++ [5760]%N)).
Eval vm_compute in ("<<<M2536>>>" ++ check (runes_of_ascii "A1b2")).
Eval vm_compute in ("<<<M2541>>>" ++ check (runes_of_ascii "a	b")).
Eval vm_compute in ("<<<M2681>>>" ++ check (runes_of_ascii "		")).
