From FP Require Import Lexer Parser ShowPT Digest Formatter.
From Coq Require Import String List NArith.
Import ListNotations.
Open Scope string_scope.
Set Printing Width 100000000.
Set Printing Depth 100000000.
Definition show_fres (r : fres) : string :=
  match r with
  | FOk s => "OK:" ++ sh_escaped s ""
  | FErr s => "ERR:" ++ sh_escaped s ""
  | FPanic p => "PANIC:" ++ p
  end.
Definition check (rs : list rune) : string := digest (show_fres (format_res rs)).
Definition full (rs : list rune) : string := show_fres (format_res rs).
Eval vm_compute in ("<<<M502>>>" ++ check (runes_of_ascii "packet
    o {  options1 ,@tag(	1// c
)
    i16 chars // `tick` ""quote"" 'q'
`say ""hi""`
    , // `tick` ""quote"" 'q'
f32a
@lengthOf( u ),@lengthOf(lengthOf) repeat
    zchar[ 1 ] i64_
`" ++ [28040; 24687; 31867; 22411]%N ++ runes_of_ascii "` , repeat
u64 string_//
,
@lengthOf( // @lengthOf(
o
)	@lengthOf(
    x_y_z ) @rightPad (
    ' ' ) char[]// @lengthOf(
i8i8
    @calculatedFrom(
""{,}"" // a // b
)
`tab	here` , uint32  Logon`line1
line2` ,  match Pad as leftPad { 42 :
// " ++ [27880; 37322]%N ++ runes_of_ascii "
// c
uint8x
    [ 65535 ,
1 ,
    ""\n""
// a // b
// " ++ [27880; 37322]%N ++ runes_of_ascii "
, ""a\""b""
    ] : // trailing space 
u128 //x
,""packet"":i8i8
,
    [ ""CRC32"" ] : u128  ,
} //
,
match chars as packetx{ ""x y""
    :  i8i8
// packet A { u8 x, }
//
""a\\"" // a // b
:  u128 , ""a\\"" : Pad
    , [ // `tick` ""quote"" 'q'
""a\\""
, 42 ,007
    ,
    """ ++ [28040; 24687]%N ++ runes_of_ascii """ ,1 , ""abc"" ] :
    Pad ,0
    :
u8x,
    00:
    i64_ , } , msg_type @lengthOf(int )  `line1
line2`
    , }root	packet falsey
    { // trailing space 
zchar[
    007
] /// triple
o `two words`, @tag(
    42 )
    repeat float
// a // b
// trailing space 
len , i16 roots @lengthOf(A
    ),
@rightPad	(  )Pad{
    // packet A { u8 x, }
    int32 rootA	@calculatedFrom(""1""
    )
,repeat int float `" ++ [233]%N ++ runes_of_ascii "`
,
zchar[
    65535 ] i8i8 @calculatedFrom(
    ""a\\""
) ,
},@calculatedFrom( ""1"" ) i8i8@lengthOf( x )//
,
@tag( 7
)
    match T as repeatCount { ""a\\"" : o [
// @lengthOf(
// " ++ [27880; 37322]%N ++ runes_of_ascii "
"""" , ""it's""
    //	t
    ] :i64_ , 10
    :trueish
, },
    Z9_
    , @calculatedFrom( """" )
@leftPad ( ' '
)
    f32 zchar @lengthOf(charz
) ,
    @leftPad(
// " ++ [27880; 37322]%N ++ runes_of_ascii "
// @lengthOf(
) falsey
@lengthOf(
BodyLength
) , } packet leftPad { u8
    msg_type @calculatedFrom( ""packet"" ) `u8 x,`, asx //	t
,stringy
    @calculatedFrom( ""// no comment"" /// triple
)	`` , Header @calculatedFrom(
    ""CRC32"" )`line1
line2`,zchar[ 00 ]Packet
    @calculatedFrom( // a // b
""abc"" )
`say ""hi""` ,
    } options
    //	t
    {Z9_	=
    char[
7] ; roots = ' ' ; u = true; o
// " ++ [27880; 37322]%N ++ runes_of_ascii "
//
= 0123456789 } root
    packet Header
    // packet A { u8 x, }
    {
@tag(
0 ) @leftPad (
    '\x00' ) @tag(
1// c
) u8x
//x
//
`` // c
,}
// " ++ [128512]%N ++ runes_of_ascii " emoji
")).
Eval vm_compute in ("<<<M1085>>>" ++ check (runes_of_ascii "packet calculatedFrom {  o
,char[ 65535
] lengthOf
`crlf
line`
,
/// triple
// " ++ [27880; 37322]%N ++ runes_of_ascii "
a1 @calculatedFrom( ""abc"" )	,
    // " ++ [128512]%N ++ runes_of_ascii " emoji
    @leftPad
(
    // packet A { u8 x, }
    )int32
crc /// triple
@lengthOf(
    falsey ) ,	char[] pack
    @calculatedFrom( ""\" ++ [233]%N ++ runes_of_ascii """  )
, // packet A { u8 x, }
repeat calculatedFrom{ repeat float64 calculatedFrom
    , } , chars
    {  i32  _x , // @lengthOf(
char[] roots //
, } ,@leftPad ( // packet A { u8 x, }
' '
    ) @tag( 7
) match
falsey // a // b
as x
//x
// trailing space 
{ [ ""// no comment"" ,
""CRC32"" , 4294967296 , ""// no comment"" ,
42
,
    // " ++ [27880; 37322]%N ++ runes_of_ascii "
    ""{,}""	] :
    options1,} ,
    repeat
crc ,
match asx
    as metadata	{
    // `tick` ""quote"" 'q'
    [ 42 ] :
leftPad
,
    [ 65535]  : tag ,255 : matchKey
, ""packet"" : repeatCount  , ""\" ++ [233]%N ++ runes_of_ascii """ : roots
    , [""packet"" , 3 ]: string_ , }
// " ++ [128512]%N ++ runes_of_ascii " emoji
// " ++ [128512]%N ++ runes_of_ascii " emoji
, }
packet zchar {
    }packet f32a{ Packet@calculatedFrom(  ""a\\""
// a // b
// 50% %s
),	BodyLength@lengthOf( MetaDataX// packet A { u8 x, }
) `crlf
line`,// c
match _x as
repeatCount  {
[ 0123456789
,""x y""
]: BodyLength /// triple
0 : chars
    ,
""" ++ [233]%N ++ runes_of_ascii "t" ++ [233]%N ++ runes_of_ascii """ : a1 , [ ""x y""	,
    """ ++ [28040; 24687]%N ++ runes_of_ascii """ ]
: Header
, },
@lengthOf( msg_type
)
    u32 x_y_z `
` , } packet
    a1
{ i32 MetaDataX,
    @calculatedFrom( ""\" ++ [233]%N ++ runes_of_ascii """
// c
// @lengthOf(
)
match MetaDataX
    // a // b
    as
    Foo{
""a	b"":leftPad ,	""// no comment""
:zchar [
""// no comment""] : u8x , [ ""it's"" ,
    4294967296,
7 , ""it's"" ] // trailing space 
:
    // 50% %s
    o , 007	: o
, }
,
    @calculatedFrom(// a // b
""`tick`"") @tag(00 ) @calculatedFrom(
    ""CRC32""  )
// packet A { u8 x, }
// @lengthOf(
u32 f32a `say ""hi""` , // @lengthOf(
}")).
Eval vm_compute in ("<<<M221>>>" ++ check (runes_of_ascii "MetaData
repeatCount { } MetaData crc  { } packet lengthOf { // 50% %s
@leftPad (
    ' ' ) @calculatedFrom( ""\n"" ) string u128 @lengthOf( _x ) // @lengthOf(
, @tag( 00) u32
i8i8 , Packet
    // c
    o ,
    @tag( // a // b
0 )
    repeat// 50% %s
char[  7] u8x `
`
,
u128 options1 , @lengthOf( asx)@calculatedFrom(
    """ ++ [128512]%N ++ runes_of_ascii """
) // 50% %s
@lengthOf(	MetaDataX ) MetaDataX
`say ""hi""`
,
// `tick` ""quote"" 'q'
// `tick` ""quote"" 'q'
repeat	roots `a\`, }	packet	A {
    i32 int@calculatedFrom( ""a\\""
) `line1
line2` ,
    // `tick` ""quote"" 'q'
    uint8
Header	`it's`
    ,  falsey @calculatedFrom(
    ""a\\"" ) //x
,
@calculatedFrom(
""x y"" )  Z9_ @lengthOf(
crc
) , @lengthOf(// 50% %s
stringy) uint32 leftPad, match  calculatedFrom
as matchKey{ [007 ,
0
    , 65535,
00
    ,42
, 0 // packet A { u8 x, }
, 42
    // `tick` ""quote"" 'q'
    ] // " ++ [27880; 37322]%N ++ runes_of_ascii "
:
stringy
,
} , //
@rightPad  ( '\x00'
    // " ++ [128512]%N ++ runes_of_ascii " emoji
    ) len{
    match Packet
as  u128 { [1] :
    crc  ,} ,}, char charz,falsey  {
int8 Foo
@lengthOf( Packet )
, Pad @calculatedFrom(""{,}"") `say ""hi""`
,
    }
,	zchar[
    10]
// packet A { u8 x, }
//	t
zchar
@calculatedFrom(
    // trailing space 
    ""a\\"" ) `two words`,	} packet Pad{ @rightPad( '0'
// @lengthOf(
// " ++ [27880; 37322]%N ++ runes_of_ascii "
)
repeat falsey
    string_ `// not a comment` ,  As , repeat
// @lengthOf(
// " ++ [128512]%N ++ runes_of_ascii " emoji
o chars `doc` , @rightPad//
(
'0' ) Z9_{ f64 Z9_, T/// triple
charz `line1
line2` , x, u32 u ``,
}
    ,
i64_ , }
")).
Eval vm_compute in ("<<<M568>>>" ++ check (runes_of_ascii "root packet crc{
string
u`two words` , @leftPad(
)
//	t
// " ++ [128512]%N ++ runes_of_ascii " emoji
zchar { int8 f32a
    //x
    `100% of %d` ,} // @lengthOf(
, options1{ string roots @calculatedFrom( """ ++ [233]%N ++ runes_of_ascii "t" ++ [233]%N ++ runes_of_ascii """ )
    `100% of %d`  , } , Header Packet
// a // b
/// triple
, @calculatedFrom(
    """ ++ [233]%N ++ runes_of_ascii "t" ++ [233]%N ++ runes_of_ascii """ ) Z9_{ float {char[] pack@calculatedFrom(
""a\""b"" ) `" ++ [28040; 24687; 31867; 22411]%N ++ runes_of_ascii "` ,match Pad
    as
body  {	0123456789
//	t
// a // b
: body// " ++ [128512]%N ++ runes_of_ascii " emoji
, [ //	t
""it's"" , ""x y"", """ ++ [128512]%N ++ runes_of_ascii """	, 65535
    , """" ] : crc,""abc"": msg_type ,""" ++ [233]%N ++ runes_of_ascii "t" ++ [233]%N ++ runes_of_ascii """: lengthOf ,
3
    : Logon ,[ ""a\\""
//x
//
] :u128
    ,}
    // 50% %s
    ,
} ,  MetaDataX { rootA{ repeat char[ 1 ] Pad ,
}
,
}
// " ++ [27880; 37322]%N ++ runes_of_ascii "
// trailing space 
, x , } ,repeat chars
, u16 As, @lengthOf(float ) repeat
A
    { repeat	Pad{ repeat matchKey `
` , // c
} ,
}, } root
// a // b
/// triple
packet options1
    {
u32 A// @lengthOf(
@calculatedFrom( ""1"" ) , Foo {match
metadata as
packetx{ ""1""
: i64_
,
    0:lengthOf	,  0123456789 : pack
,
""`tick`""
    : len
""a\""b""// @lengthOf(
:asx ,
    }
    , //	t
} , }
    MetaData options1{ }	MetaData len
    // @lengthOf(
    { f32 Header ,
    // `tick` ""quote"" 'q'
    }
packet  x_y_z {@tag(
    3 ) zchar[0] f32a `doc` // trailing space 
, @rightPad ( '0') //x
string options1 ,
    repeat A {
char[ 10 ]
    _x `tab	here` , } ,matchKey f32a ,} // " ++ [128512]%N ++ runes_of_ascii " emoji")).
Eval vm_compute in ("<<<M1074>>>" ++ check (runes_of_ascii "packet i64_	{@tag(
    1  )
@calculatedFrom( ""`tick`"" ) @lengthOf( f32a) match zchar as u
// @lengthOf(
// packet A { u8 x, }
{
0123456789: leftPad
""\" ++ [233]%N ++ runes_of_ascii """: _x ,
7: MetaDataX , // `tick` ""quote"" 'q'
[ 4294967296	] : stringy , 7 : uint8x } , @leftPad (	)string
    Foo	@lengthOf(MetaDataX) `two words` ,
match calculatedFrom
as A{[ 255  ,
    7 , 1
,// a // b
1 , 42 , 007
    ,007	]
: A, [ ""a\\"", ""it's""
,""1"" ,00 , """ ++ [128512]%N ++ runes_of_ascii """  , ""{,}"" , 42] :
calculatedFrom, ""it's"":f32a ,	},  repeat  char[] i8i8 , }
packet lengthOf { repeat
u8x	,char[] Z9_,int64 options1 @calculatedFrom("""" )
    `// not a comment` ,match
tag as roots {[ //
""abc"" ]:options1
65535 : o
, ""// no comment"" :
f32a
, //x
""packet""
    : uint8x,} ,
}
    packet u8x { repeat int64// `tick` ""quote"" 'q'
x,	zchar[65535]
float	`// not a comment` ,
    i16 uint8x
, zchar[
10]
uint8x
    ,	@calculatedFrom( ""abc""	)
    repeat x
{trueish
`it's` ,
},  @calculatedFrom(
    ""a\""b""
) o `two words` , repeat f64  body
`it's` ,
    @lengthOf( body// trailing space 
)char[
0123456789
    // `tick` ""quote"" 'q'
    ] f32a @calculatedFrom( ""1"")
    ,repeat uint8x o // packet A { u8 x, }
`{ , }` , } MetaData	falsey{ f32a float	, }")).
Eval vm_compute in ("<<<M810>>>" ++ check (runes_of_ascii "packet metadata
    { float32 len@calculatedFrom(""\n""
    )`doc`	,	}options { u128 = char[ 65535 ]} root packet stringy { @lengthOf( _x ) // @lengthOf(
uint64 pack
// packet A { u8 x, }
// trailing space 
@calculatedFrom( """ ++ [28040; 24687]%N ++ runes_of_ascii """ ) , repeat x
    //
    charz`u8 x,`, char[]
As `{ , }` ,
    body , match tag as zchar { 10 :
lengthOf,	10	: i64_ , 65535:
len
    ,
1
:msg_type, ""\n""// `tick` ""quote"" 'q'
: Foo ,10 : zchar
    , }
    , repeat lengthOf{ int64
lengthOf
    @calculatedFrom(	""packet""	)
    // " ++ [128512]%N ++ runes_of_ascii " emoji
    , repeat	calculatedFrom A , // trailing space 
repeat
    //x
    char uint8x
,As
{ stringy  `" ++ [233]%N ++ runes_of_ascii "`	, } , } ,
    // " ++ [128512]%N ++ runes_of_ascii " emoji
    @tag( // c
0123456789)	@rightPad (
' ' )repeat string_ {
    int32 stringy
    , } ,
    u8x
    @calculatedFrom( // " ++ [27880; 37322]%N ++ runes_of_ascii "
""packet"" /// triple
) // packet A { u8 x, }
,
/// triple
// 50% %s
} packet len
    { @lengthOf(	lengthOf )
//
// packet A { u8 x, }
repeat leftPad,len @lengthOf( i64_
) `two words` ,	match
rootA as i8i8
{ ""packet"" :f32a
    ,[""it's""// trailing space 
] :Packet/// triple
,[	""a\\""]
:uint8x ,0123456789 : a1 , ""CRC32""  : Logon ,
    } , } //	t")).
Eval vm_compute in ("<<<M4142>>>" ++ check (runes_of_ascii "root packet MetaDataX {
    @tag(1)
    @leftPad('0')
    char i8i8 @calculatedFrom(""\n""),
}

root packet T {
    repeat o {
        match f32a as a1 {
            [""x y"", 00, 65535, ""\n""] : packetx,
            ""`tick`"" : float,
            65535 : Packet,
            ""{,}"" : repeatCount,
        },
        repeat u128,
    },
    @tag(0)
    //	t
    char[7] BodyLength,
    f32a `doc`,
    char[] roots,
    repeat msg_type,
    @rightPad()
    char[] x,
    body @lengthOf(zchar),
    matchKey {
        char[7] falsey,
    },
}

packet i8i8 {
    @tag(007)
    repeat char[] Packet,// a // b
    @lengthOf(MetaDataX)
    @calculatedFrom("""")
    @tag(0123456789)
    f32 As,
    string_ crc,
    int16 stringy,
    @lengthOf(Packet)
    roots @lengthOf(falsey),
    string rootA,// packet A { u8 x, }
    char[] string_ `// not a comment`,
    trueish {
        uint64 zchar @calculatedFrom(""abc"") `// not a comment`,
    },// c
    @lengthOf(Pad)
    zchar[1] _x `
    `,
    // packet A { u8 x, }
    /// triple
    string o `two words`,
}")).
Eval vm_compute in ("<<<M301>>>" ++ check (runes_of_ascii "root packet u128 { metadata zchar, } MetaData Packet
{u64 x_y_z `it's` ,}options
    {  } packet o
{
    repeat // a // b
int64 lengthOf ,
string uint8x // 50% %s
, repeat uint64
    trueish
`a\` ,@leftPad	( '0' )char[] i8i8 @calculatedFrom(	""CRC32"" )
,@calculatedFrom(""" ++ [128512]%N ++ runes_of_ascii """ )repeat
    zchar  {  int	, repeat float32// trailing space 
stringy , stringy  ,  match// c
packetx as x_y_z {4294967296
    : rootA [ 7
    ,3 ] :
A ,
    """ ++ [233]%N ++ runes_of_ascii "t" ++ [233]%N ++ runes_of_ascii """ :
zchar , [1, ""packet""
// packet A { u8 x, }
// " ++ [27880; 37322]%N ++ runes_of_ascii "
,
    // trailing space 
    10	, """ ++ [28040; 24687]%N ++ runes_of_ascii """ , ""a	b""  ]:  a1,
    0123456789 :tag
    // `tick` ""quote"" 'q'
    , }
    , } , @tag(
// c
/// triple
00 ) int16 BodyLength
@lengthOf(
A
// a // b
//	t
) ,	u8 leftPad @lengthOf(  asx) `crlf
line` ,@leftPad  (
) int32 lengthOf @calculatedFrom(""a\""b""
) `tab	here`
, @lengthOf( i8i8  ) repeat uint64 trueish , @calculatedFrom( ""\n"" ) repeat matchKey
{ char[ 7]falsey `tab	here` // " ++ [27880; 37322]%N ++ runes_of_ascii "
,} ,
} MetaData calculatedFrom// `tick` ""quote"" 'q'
{}")).
Eval vm_compute in ("<<<M1159>>>" ++ check (runes_of_ascii "// @lengthOf(
MetaData pack{char[
    00
// " ++ [27880; 37322]%N ++ runes_of_ascii "
//x
]u8x  , }
options{u8x
// @lengthOf(
//
=
    zchar[ 3	] lengthOf
    =
//
// packet A { u8 x, }
10 ; asx = char[ 1 ]
repeatCount// c
=
false ; lengthOf//x
=  1 } options // @lengthOf(
{	options1
= uint16 // @lengthOf(
leftPad=
    ""a	b""	;
    _x
= '\x00' ; u128=
    '\x00'
;
} packet
// a // b
// `tick` ""quote"" 'q'
metadata// trailing space 
{ body
    { pack@calculatedFrom( ""it's"" ),} , @rightPad ('\x00'
// " ++ [128512]%N ++ runes_of_ascii " emoji
// 50% %s
) @calculatedFrom(""" ++ [28040; 24687]%N ++ runes_of_ascii """ )  As `it's`
// 50% %s
//	t
,pack
@lengthOf(  options1
),
@lengthOf(i8i8
) @calculatedFrom( ""CRC32"") @lengthOf(
tag )
    // c
    repeat u { match // c
string_ as u8x {	3 : leftPad, ""x y""
    : calculatedFrom
    , ""CRC32"" : A , ""x y"":
    zchar 0123456789 // @lengthOf(
: o ,
//
// @lengthOf(
[ ""it's"" ]
: u ,
// @lengthOf(
//
},i16 A	,
    len crc
    , }
    // " ++ [27880; 37322]%N ++ runes_of_ascii "
    ,
// `tick` ""quote"" 'q'
// @lengthOf(
}
")).
Eval vm_compute in ("<<<M4499>>>" ++ check (runes_of_ascii "  packet
    o
{

@lengthOf(metadata

)
	match repeatCount  //	t
  	as repeatCount {

    """ ++ [233]%N ++ runes_of_ascii "t" ++ [233]%N ++ runes_of_ascii """

:  options1 
	// " ++ [27880; 37322]%N ++ runes_of_ascii "
// `tick` ""quote"" 'q'
	} ,
@calculatedFrom(""abc""

)@lengthOf(  string_
    )  @leftPad

(  ' '// c
)
match
    u128

as
calculatedFrom { 255	:  // " ++ [27880; 37322]%N ++ runes_of_ascii "
	a1 
""packet"" : BodyLength	,  
  // " ++ [27880; 37322]%N ++ runes_of_ascii "
  //x
  """"  : Pad ,  [ ""CRC32""
,
3// a // b

,65535

    , 1 
,
255,  
  // a // b
	// 50% %s
  ""packet""
	, ""\" ++ [233]%N ++ runes_of_ascii """
,

""a	b""  ] :  
      // a // b
  // @lengthOf(
	len
	,
7
:
	asx  // " ++ [27880; 37322]%N ++ runes_of_ascii "
	,

255 :crc
,
    } , 
} MetaData  stringy
    // trailing space 
{  }	// @lengthOf(
	root 
	    // " ++ [128512]%N ++ runes_of_ascii " emoji
    packet
metadata 
{@calculatedFrom(
	"""")string
	calculatedFrom, Pad 
@calculatedFrom(  // @lengthOf(
	""" ++ [128512]%N ++ runes_of_ascii """ ) 
// `tick` ""quote"" 'q'
		// " ++ [27880; 37322]%N ++ runes_of_ascii "
, u64 
roots
	,char[ 255
    ] 
    // 50% %s
// " ++ [128512]%N ++ runes_of_ascii " emoji
u@calculatedFrom(
    ""// no comment""	) ,  } 
    //	t
")).
Eval vm_compute in ("<<<M1259>>>" ++ check (runes_of_ascii "root packet tag {  repeat string charz
    `crlf
line`, }
    MetaData  roots {// packet A { u8 x, }
char[4294967296
]
    x_y_z `100% of %d`
    ,  }
MetaData
crc { // " ++ [27880; 37322]%N ++ runes_of_ascii "
o A ,	leftPad u , Header
    Z9_
    ,string calculatedFrom
    ,char[]	int , // " ++ [27880; 37322]%N ++ runes_of_ascii "
} // a // b
MetaData uint8x
    {
body Packet
,
    i32 i8i8 ,
uint8
Z9_,
    string chars ,
zchar[ 00
]
roots `u8 x,`, int32
    Foo ,} root packet
zchar {
    //	t
    @calculatedFrom(""packet""
    ) match
a1 as//	t
T {""`tick`""
    //
    : // a // b
repeatCount
, [""packet"" // 50% %s
,4294967296
    ,
    //x
    ""\n"" ,
3 , ""\n"" ,
""CRC32"" ,""CRC32"" , """ ++ [28040; 24687]%N ++ runes_of_ascii """  ] : BodyLength ,
    [ """ ++ [128512]%N ++ runes_of_ascii """ ]
    : x_y_z
    ,[ """ ++ [233]%N ++ runes_of_ascii "t" ++ [233]%N ++ runes_of_ascii """
, ""a	b""
    ] :
    // a // b
    uint8x ,} ,int16 falsey @calculatedFrom(""x y"" )/// triple
,
    match
    lengthOf  as Z9_ { 00: // a // b
Header ,	}
    , }
")).
Eval vm_compute in ("<<<M398>>>" ++ check (runes_of_ascii "options
    { metadata =false
trueish  = char[] ; u8x// packet A { u8 x, }
= false ;} packet MetaDataX {f64 // `tick` ""quote"" 'q'
_x @lengthOf(//x
T
), Z9_ { x @calculatedFrom(""x y"" ) , } ,
u8 i8i8 @lengthOf(Z9_ ) `two words`	, @tag( 007 ) string Z9_ @calculatedFrom(""{,}""  ) `two words` // `tick` ""quote"" 'q'
,
// 50% %s
// `tick` ""quote"" 'q'
@leftPad ('\x00')@lengthOf( falsey
    )  @lengthOf(  Pad)
    // `tick` ""quote"" 'q'
    zchar[ 00 ] msg_type @lengthOf( asx )`say ""hi""`
    ,	match
string_ as u
    {42 :
pack , ""it's"" :trueish, 7 // c
: rootA , """"	: falsey ,}
    , repeat	u8 a1 , len `line1
line2` //x
,
    int32
Z9_@lengthOf(int )
    ,repeat charz	{ match
chars as T {
    ""// no comment"" :	float
,42//	t
:string_ ,	}, }, } MetaData
msg_type{
    // @lengthOf(
    x trueish
, }
")).
Eval vm_compute in ("<<<M4437>>>" ++ check (runes_of_ascii "packet i64_ {
    char[65535] _x,
    Logon @lengthOf(roots),
    char[7] len,
    @calculatedFrom(""packet"")
    @tag(00)
    match zchar as leftPad {
        255 : MetaDataX,
        """" : x,
        [0123456789, ""x y""] : _x,
    },
    uint64 chars @lengthOf(roots),
    @calculatedFrom(""it's"")
    @leftPad()
    @lengthOf(leftPad)
    match int as zchar {
        [4294967296] : len,
        1 : _x,
        255 : A,
    },
    @lengthOf(int)
    char[] rootA,
    repeat _x _x `{ , }`,
    // @lengthOf(
    @lengthOf(Z9_)
    float64 string_ @lengthOf(crc),
    zchar[0] T `u8 x,`,
}

root packet x {
    T,
}

MetaData calculatedFrom {
    char[] stringy,
}

options {
    tag = ""// no comment""
    Packet = zchar[7];
    // a // b
    // a // b
    f32a = '0';
}")).
Eval vm_compute in ("<<<M661>>>" ++ check (runes_of_ascii "packet x {	repeat packetx `
`
, Pad @calculatedFrom(	""\" ++ [233]%N ++ runes_of_ascii """ ), @lengthOf(
    falsey )
repeat u64 o , @tag(
    0123456789 ) Logon
    {match
A as u
{ [ //x
1
,""" ++ [233]%N ++ runes_of_ascii "t" ++ [233]%N ++ runes_of_ascii """ ,4294967296 , ""a	b"", 42 , """ ++ [233]%N ++ runes_of_ascii "t" ++ [233]%N ++ runes_of_ascii """,
// @lengthOf(
// " ++ [27880; 37322]%N ++ runes_of_ascii "
""" ++ [233]%N ++ runes_of_ascii "t" ++ [233]%N ++ runes_of_ascii """ ,
    """ ++ [28040; 24687]%N ++ runes_of_ascii """ ]:crc// trailing space 
, },  char[ 42] metadata `{ , }` ,falsey, BodyLength
    `crlf
line`	, }
, @tag( 65535)
    repeat zchar[
// trailing space 
// " ++ [128512]%N ++ runes_of_ascii " emoji
1 ]
Packet ,
@lengthOf(_x ) uint64	o
,}
// 50% %s
//
options{
    asx= float64 ; } packet i8i8{ /// triple
@calculatedFrom( ""`tick`""
    )// a // b
body {
    zchar[ 0 ]  BodyLength `doc`
    ,
u
`
` , } , }
    MetaData chars { char[42 ]
o
, // " ++ [27880; 37322]%N ++ runes_of_ascii "
string_ As  `" ++ [233]%N ++ runes_of_ascii "`
, }
MetaData Header
    { i64 matchKey ,
    zchar[ 7 ] len, }

")).
Eval vm_compute in ("<<<M3251>>>" ++ check (runes_of_ascii "// top
root // c0
packet // c1
msg_type // c2
{ // c3
i64 // c4
options1 // c5
, // c6
@lengthOf( // c7
f32a // c8
) // c9
repeat // c10
uint16 // c11
Foo // c12
, // c13
@calculatedFrom( // c14
""x y"" // c15
) // c16
repeat // c17
int64 // c18
pack // c19
, // c20
@leftPad // c21
( // c22
' ' // c23
) // c24
uint8 // c25
Foo // c26
, // c27
} // c28
packet // c29
rootA // c30
{ // c31
f32a // c32
x // c33
`" ++ [28040; 24687; 31867; 22411]%N ++ runes_of_ascii "` // c34
, // c35
char // c36
asx // c37
@lengthOf( // c38
falsey // c39
) // c40
`` // c41
, // c42
uint16 // c43
chars // c44
, // c45
@tag( // c46
0 // c47
) // c48
string // c49
_x // c50
@calculatedFrom( // c51
""abc"" // c52
) // c53
`100% of %d` // c54
, // c55
} // c56
")).
Eval vm_compute in ("<<<M771>>>" ++ check (runes_of_ascii "options	{ } options
    {
    A
    = ' ' ;
    } options	{
    // trailing space 
    chars
= ' '
// c
// packet A { u8 x, }
i64_
=
    //x
    ' ' chars = string	} // 50% %s
packet msg_type	{
    int32 leftPad
    `say ""hi""` , @rightPad
(
' ')
@lengthOf(o // @lengthOf(
)@calculatedFrom( ""abc"" ) f64 zchar @calculatedFrom( ""it's"" )
    `crlf
line`
,leftPad {	match
stringy
    as  f32a{ [ 7	,
    3 ,42
    , """ ++ [128512]%N ++ runes_of_ascii """ ,
""{,}"" ] : f32a , 4294967296 : int // trailing space 
,
    1 :string_ , }	, match matchKey as i8i8 { [ //
1 ,
""`tick`""] : u8x  ,
    007 :// `tick` ""quote"" 'q'
_x
    , [
    0123456789]: _x // c
, }, }, f64
Pad
    @lengthOf( trueish) ,  }
")).
Eval vm_compute in ("<<<M1255>>>" ++ check (runes_of_ascii "MetaData
repeatCount{  int16
f32a , uint16 lengthOf,
zchar[255 ] leftPad , charz msg_type // @lengthOf(
,
    lengthOf msg_type , } root // @lengthOf(
packet body
    {
repeat uint16 A `two words` , @lengthOf(
    u128
)
    char[10
] body @lengthOf(
    options1) , body @calculatedFrom( //x
""abc""
    ) , // `tick` ""quote"" 'q'
string zchar
, o
uint8x ,@calculatedFrom( """ ++ [128512]%N ++ runes_of_ascii """ ) @lengthOf( int)  @tag(
1 ) repeat int16// `tick` ""quote"" 'q'
Logon`u8 x,` ,repeat//x
char[] stringy `two words`
,  uint16 calculatedFrom`{ , }`
, } MetaData u128{ int32 i8i8 `it's`, float32 u8x`line1
line2`// " ++ [27880; 37322]%N ++ runes_of_ascii "
, i16 Packet,
uint8 u	, int8 Logon , }

")).
Eval vm_compute in ("<<<M244>>>" ++ check (runes_of_ascii "MetaData
i8i8 { u16
string_ ,
char[] x `it's`,char[ 00
    ] charz `line1
line2` ,
// trailing space 
// @lengthOf(
packetx rootA
`crlf
line`
    , }packet
    crc //
{ // packet A { u8 x, }
u64 len `// not a comment`
    ,	@rightPad  ( )
i32 Pad @lengthOf(
    msg_type)
    ,
@leftPad
(
' '
    )
@tag( 00)@leftPad(// packet A { u8 x, }
'\x00'	) float64
    // @lengthOf(
    Packet ,  repeat roots //x
, match int as msg_type { 0123456789 :o, 42 : o, ""// no comment""
: o
    , },	} options {x_y_z =	string
    zchar =
    zchar[ 255
] ; x_y_z
    = // trailing space 
uint32 ; } options { }

")).
Eval vm_compute in ("<<<M5>>>" ++ check (runes_of_ascii "  MetaData  options1 { }	options{ }options { options1	=
    '\x00' // packet A { u8 x, }
}//x
root packet	packetx
{ @rightPad (
    '\x00' ) asx leftPad  ,repeat Foo MetaDataX `// not a comment`
    , @lengthOf( u128 ) zchar[
3 ]//x
BodyLength  @lengthOf(metadata) ,
uint16
    // " ++ [128512]%N ++ runes_of_ascii " emoji
    matchKey `
`
    , rootA u8x `// not a comment` // a // b
, } root packet Logon
    { f32a repeatCount `line1
line2`
, @calculatedFrom(
""// no comment"" )
u16 len @calculatedFrom( // @lengthOf(
""it's"" /// triple
)  , @rightPad( ' ' ) MetaDataX
,zchar[00 ]
metadata
    `doc`
, }")).
Eval vm_compute in ("<<<M580>>>" ++ check (runes_of_ascii "packet o	{match
roots
as
    chars{
    """ ++ [28040; 24687]%N ++ runes_of_ascii """ : len , } , }packet
chars { repeat
float64
options1 , BodyLength
    // a // b
    {Pad @lengthOf(Foo ) `" ++ [233]%N ++ runes_of_ascii "` ,// `tick` ""quote"" 'q'
repeat uint16
lengthOf`tab	here` // 50% %s
, } ,
uint8 leftPad ,
uint8	pack	`a\`,
crc ,@tag(
    10)
// trailing space 
//	t
char[]
    o`say ""hi""` // `tick` ""quote"" 'q'
, @calculatedFrom( ""a\""b"") // " ++ [27880; 37322]%N ++ runes_of_ascii "
u128 @calculatedFrom( ""it's"" ) `" ++ [28040; 24687; 31867; 22411]%N ++ runes_of_ascii "`, tag
, } MetaData
string_ {int8 zchar ,	A
stringy
    ,
    A u8x , BodyLength o,
    /// triple
    Foo chars  `line1
line2`
, }

")).
Eval vm_compute in ("<<<M3683>>>" ++ check (runes_of_ascii "
MetaData
i64_{  uint8x  // c

As

`say ""hi""`

,body options1
`
`,
    // packet A { u8 x, }

string_
    chars, u64 f32a

,

    } root
packet T

    {
    @tag(

    00

    ) pack

@calculatedFrom( ""// no comment"" 
      // `tick` ""quote"" 'q'
	),lengthOf
rootA
`" ++ [233]%N ++ runes_of_ascii "`  ,@lengthOf( 
i64_ )

repeat
	falsey

{repeat
    BodyLength
    {
len 

    // packet A { u8 x, }
  // @lengthOf(

	,	}  // " ++ [128512]%N ++ runes_of_ascii " emoji
  ,

uint32
crc @lengthOf(
stringy
// @lengthOf(
  // " ++ [27880; 37322]%N ++ runes_of_ascii "
  )
`" ++ [28040; 24687; 31867; 22411]%N ++ runes_of_ascii "`,

}	,  // " ++ [128512]%N ++ runes_of_ascii " emoji

u8
i64_ @lengthOf(  rootA)
,	}")).
Eval vm_compute in ("<<<M4496>>>" ++ check (runes_of_ascii "

  options
{
	Header
='\x00'

}
	root
packet MetaDataX  { char[
0123456789 ] leftPad
`tab	here` , @lengthOf(
    rootA  )

uint8
	u ``
,  match
string_  //
	  as	Pad 
{ 255
: a1
    , // a // b

  [ 
// 50% %s
  4294967296	]	:msg_type
,

[ 
3 
	// c
	//	t
	]:  
  //	t

	u128 
,
	255 :

    crc,[  
  // trailing space 
	//
0123456789  ,
    ""a\""b"" ,""a\""b""	,

"""" 	 // trailing space 
  , """" ,
	""CRC32""
	,""CRC32"" 
] 
:  crc 	 // `tick` ""quote"" 'q'
    , 	 // " ++ [27880; 37322]%N ++ runes_of_ascii "
	}

    ,  }

packet asx{
    }
")).
Eval vm_compute in ("<<<M974>>>" ++ check (runes_of_ascii "
MetaData repeatCount
    // packet A { u8 x, }
    {
    string
lengthOf ,leftPad falsey , string u ,
// " ++ [128512]%N ++ runes_of_ascii " emoji
//	t
zchar[ 42// a // b
]
    msg_type, uint8 pack
`
`
,}
    packet x{
    repeat	char[255
// c
// trailing space 
]
    Foo
    ,
} packet Header
{ } // `tick` ""quote"" 'q'
options { // packet A { u8 x, }
options1 =false len =  zchar[4294967296 ] i8i8 =
// packet A { u8 x, }
// trailing space 
float32 ;}
// @lengthOf(
// `tick` ""quote"" 'q'
MetaData
    BodyLength{
}
")).
Eval vm_compute in ("<<<M3550>>>" ++ check (runes_of_ascii "
options

{ 
StringPrefixLenType
=	u8 ;
    ArrayPrefixLenType= u16 ;
FixedStringPadChar = 
'0' ;
    }	packet Fill{
	char[6
] Acct 
, u64

venue ,
}  root

packet Logout {char[]	Tail, repeat i8
	f1 , 
float64
    msgKind
, zchar[
3
    ]	Note  ,
    uint64
count
    ,

    @leftPad (
' ' 
) char[
12

] Px,

    u32 OrderId  , u16 
tag7@lengthOf( Body)
	,match OrderId as
Body { [
35	,  107
	]	:Fill
    , }
	, u32 Ref
@calculatedFrom(
""CRC32"" ),} ")).
Eval vm_compute in ("<<<M475>>>" ++ check (runes_of_ascii "
packet
calculatedFrom	{/// triple
@calculatedFrom(	""" ++ [28040; 24687]%N ++ runes_of_ascii """	) rootA {int16 //	t
string_
    , Logon // `tick` ""quote"" 'q'
MetaDataX, repeat zchar[// trailing space 
7 ]trueish
    `say ""hi""`,}, char[00
]
    pack `a\` , u32 repeatCount
// @lengthOf(
// 50% %s
,
    string crc `" ++ [28040; 24687; 31867; 22411]%N ++ runes_of_ascii "`
    , }options{
    A =
    3 /// triple
zchar
    // " ++ [128512]%N ++ runes_of_ascii " emoji
    = ' '; calculatedFrom=""abc"" ; // packet A { u8 x, }
charz
    = zchar[ 1];body =
    int64 }
")).
Eval vm_compute in ("<<<M251>>>" ++ check (runes_of_ascii "root packet
    tag  { repeat string_{lengthOf	{ //	t
int64 int @lengthOf(  uint8x
    )
`
`
, // trailing space 
repeat
zchar[
    7 ] u
    // c
    , zchar[ 0 //	t
]
    BodyLength ,// `tick` ""quote"" 'q'
}
, } , repeat u8 Pad
    `line1
line2`
    // 50% %s
    ,
// `tick` ""quote"" 'q'
//x
@leftPad (' '
) zchar[4294967296  ]// @lengthOf(
repeatCount
    , repeat options1
{float64 rootA @lengthOf( _x) , } ,
    } // c")).
Eval vm_compute in ("<<<M1131>>>" ++ check (runes_of_ascii "options {	string_ = ""a\\"" body = zchar[ 10]int = ""abc"" _x =
""CRC32""
//
// packet A { u8 x, }
; Header =
i16 ; } options //x
{} packet A
{ @lengthOf( // 50% %s
i8i8 )zchar[ 00
]options1 // " ++ [128512]%N ++ runes_of_ascii " emoji
, @calculatedFrom(	""{,}"" ) pack  Z9_ `{ , }`
    //
    ,zchar[ 65535	] _x @calculatedFrom(
    //
    ""packet""	)`100% of %d`,
//x
// `tick` ""quote"" 'q'
@rightPad( )
@calculatedFrom(	""abc"" )
@tag( 10)uint16 i8i8	, }")).
Eval vm_compute in ("<<<M3531>>>" ++ check (runes_of_ascii "
packet
NewOrder {u32 qty

,}  packet
Cancel 
{
u64 id	,	}  packet Business

{	u8 Kind  ,	match

Kind

as Detail
    {1

    : 
NewOrder , 2:
Cancel
,
} ,	}
    packet  TcpFrame  {
u8
T	, match T
as
	Body 
{ 1

    :
    Business,

}	, }
    packet	UdpFrame
{

u8 U	, match	U
	as Body{
	1
: Business ,}, Business

extra
    , } 
root
    packet
	Wire  {

    TcpFrame
,
    UdpFrame,
	}

")).
Eval vm_compute in ("<<<M3258>>>" ++ check (runes_of_ascii "// top
MetaData
    // c0
metadata
    // c1
{
    // c2
}
    // c3
MetaData
    // c4
rootA
    // c5
{
    // c6
i8
    // c7
i64_
    // c8
,
    // c9
roots
    // c10
options1
    // c11
`a\`
    // c12
,
    // c13
lengthOf
    // c14
Header
    // c15
,
    // c16
Z9_
    // c17
Foo
    // c18
,
    // c19
int16
    // c20
BodyLength
    // c21
,
    // c22
}
    // c23
")).
Eval vm_compute in ("<<<M597>>>" ++ check (runes_of_ascii "
root packet metadata { char[007] _x `a\` , match
// " ++ [128512]%N ++ runes_of_ascii " emoji
/// triple
_x as Packet{
[ // a // b
4294967296,	""a\""b"" ,	""{,}"" , 0 , """" ,
65535 // trailing space 
]:
    options1, [
    ""abc"" ] :options1 , [
    // trailing space 
    ""it's"" , """ ++ [233]%N ++ runes_of_ascii "t" ++ [233]%N ++ runes_of_ascii """ ,""" ++ [233]%N ++ runes_of_ascii "t" ++ [233]%N ++ runes_of_ascii """ ,""a\\""
] // a // b
:	len , } ,
    uint8 Z9_ , As @calculatedFrom(""""
    ) `" ++ [28040; 24687; 31867; 22411]%N ++ runes_of_ascii "`,// @lengthOf(
i64 As
`" ++ [233]%N ++ runes_of_ascii "`, }")).
Eval vm_compute in ("<<<M569>>>" ++ check (runes_of_ascii "root packet
// packet A { u8 x, }
// trailing space 
f32a
{ char[ 0123456789	] rootA @calculatedFrom(
""packet""//
)
, float32 tag @lengthOf( metadata )
    ,	uint32 BodyLength `{ , }` , // @lengthOf(
Foo @calculatedFrom( ""`tick`"" ) , @rightPad (
    ' ' ) repeat int16 u  ,} packet T
    {@lengthOf(int
    ) Pad	, @leftPad ('\x00' )	int32  roots
    , }")).
Eval vm_compute in ("<<<M699>>>" ++ check (runes_of_ascii "MetaData x {i64 /// triple
Z9_
    `a\`, //
char[ 7
    ] f32a
`{ , }`
    , len a1 , u64
    repeatCount ,
    string BodyLength , crc
Pad `tab	here`
, } packet T
{char[ 42
]	repeatCount `line1
line2`
,
    } root packet i64_
{ @lengthOf( u128
// `tick` ""quote"" 'q'
/// triple
)
@lengthOf(	As	)
    @leftPad ( )
    uint32 f32a ,
}")).
Eval vm_compute in ("<<<M3614>>>" ++ check (runes_of_ascii "  MetaData	stringy
	{ tag  // c
      Z9_ `{ , }`

    , 
        // packet A { u8 x, }
	// trailing space 
  crc	_x

    `two words` 
, 
i64_
    trueish	`say ""hi""` ,  float32 
trueish
	// @lengthOf(
	// packet A { u8 x, }
	,  
      /// triple
  	char[
	0123456789 ] 
tag, uint8
Packet

    , } MetaData x_y_z  { }")).
Eval vm_compute in ("<<<M262>>>" ++ check (runes_of_ascii "packet  T{
repeat float // a // b
`say ""hi""` , asx asx
,
    uint32 Foo ,	repeat string f32a  , // " ++ [128512]%N ++ runes_of_ascii " emoji
char[ 0123456789 ]
chars, @tag( 255 ) repeat  packetx int`crlf
line` , repeat  char[]  _x `two words`/// triple
,  repeat char[ // " ++ [128512]%N ++ runes_of_ascii " emoji
255 ] A  ,zchar[
10 ]	o `doc` ,repeat  uint16 Foo``
, } //x")).
Eval vm_compute in ("<<<M669>>>" ++ check (runes_of_ascii "MetaData  MetaDataX { uint16 stringy	, Pad
Pad
, MetaDataX falsey `say ""hi""`,
falsey Z9_ `say ""hi""` , string
/// triple
// 50% %s
Header	,int8 stringy ,
} root packet calculatedFrom {
//
// `tick` ""quote"" 'q'
} packet
    int
    { char[] A , zchar[0
// 50% %s
/// triple
] leftPad `{ , }`
    ,}
")).
Eval vm_compute in ("<<<M112>>>" ++ check (runes_of_ascii "packet MetaDataX// 50% %s
{ @rightPad
(
' ')
T
{
match T as crc // packet A { u8 x, }
{ ""abc"" :Header
    ,
[ 65535,
7 ] : MetaDataX
    , // a // b
0: a1,
[
    4294967296 , 7
,255
    ,
    //
    ""it's"" ] : i8i8 , 0
: rootA ,} , // c
} ,  @tag( 007 )
    char[] _x ,
repeat o ,}
")).
Eval vm_compute in ("<<<M1877>>>" ++ check (runes_of_ascii "packet	packetx { // trailing space 
x_y_z
{
string
charz charz ,
string x// @lengthOf(
`two words`
    ,  u8x { // `tick` ""quote"" 'q'
charz `100% of %d` // packet A { u8 x, }
,}// " ++ [27880; 37322]%N ++ runes_of_ascii "
,} , }
    // a // b
    packet metadata {  @leftPad ( '0') repeat i32 options1 ,u64 uint8x , }
")).
Eval vm_compute in ("<<<M1867>>>" ++ check (runes_of_ascii "packet	packetx { // trailing space 
x_y_z
{ {
string
charz ,
string x// @lengthOf(
`two words`
    ,  u8x { // `tick` ""quote"" 'q'
charz `100% of %d` // packet A { u8 x, }
,}// " ++ [27880; 37322]%N ++ runes_of_ascii "
,} , }
    // a // b
    packet metadata {  @leftPad ( '0') repeat i32 options1 ,u64 uint8x , }
")).
Eval vm_compute in ("<<<M18>>>" ++ check (runes_of_ascii "options { } packet stringy{@rightPad
    ( '\x00')chars //x
@lengthOf( float )
,	@lengthOf( Packet	) // " ++ [128512]%N ++ runes_of_ascii " emoji
zchar @calculatedFrom(
//
// `tick` ""quote"" 'q'
""a\""b"" ), @leftPad ( ) x_y_z rootA `100% of %d`,} // trailing space 
options	{lengthOf ='\x00'	; charz = true ; }
")).
Eval vm_compute in ("<<<M1988>>>" ++ check (runes_of_ascii "packet	packetx { // trailing space 
x_y_z
{
string
charz ,
string x// @lengthOf(
`two words`
    ,  u8x { // `tick` ""quote"" 'q'
charz `100% of %d` // packet A { u8 x, }
,}// " ++ [27880; 37322]%N ++ runes_of_ascii "
,} , }
    // a // b
    packet metadata {  @leftPad ( '0'repeat ) i32 options1 ,u64 uint8x , }
")).
Eval vm_compute in ("<<<M3766>>>" ++ check (runes_of_ascii "MetaData MetaDataX {
    uint16 stringy,
    Pad Pad,
    MetaDataX falsey `say ""hi""`,
    falsey Z9_ `say ""hi""`,
    string Header,
    int8 stringy,
}

root packet calculatedFrom {
    //
    // `tick` ""quote"" 'q'
}

packet int {
    char[] A,
    zchar[0] leftPad `{ , }`,
}")).
Eval vm_compute in ("<<<M1876>>>" ++ check (runes_of_ascii "packet	packetx { // trailing space 
x_y_z
{
string
 ,
string x// @lengthOf(
`two words`
    ,  u8x { // `tick` ""quote"" 'q'
charz `100% of %d` // packet A { u8 x, }
,}// " ++ [27880; 37322]%N ++ runes_of_ascii "
,} , }
    // a // b
    packet metadata {  @leftPad ( '0') repeat i32 options1 ,u64 uint8x , }
")).
Eval vm_compute in ("<<<M2065>>>" ++ check (runes_of_ascii "packet// packet A { u8 x, }
repeatCount	{// packet A { u8 x, }
@leftPad @leftPad ( '\x00'
) repeat u8x MetaDataX `crlf
line`,
    repeat
    char[] MetaDataX
    ,
u64	uint8x@calculatedFrom(""a\""b""
// c
// packet A { u8 x, }
) `tab	here`
,//
}MetaData pack
    {
    }
")).
Eval vm_compute in ("<<<M3512>>>" ++ check (runes_of_ascii "// top
packet // c0
FooBar { // c2
u8 a
    // c4
, // c5
} packet // c7a
  // c7b
foo_bar
    // c8
{ u16 // c10
b // c11
, // c12a
  // c12b
} // c13
root // c14a
  // c14b
packet
    // c15
R { FooBar // c18a
  // c18b
,
    // c19
foo_bar
    // c20
, } // c22
")).
Eval vm_compute in ("<<<M2127>>>" ++ check (runes_of_ascii "packet// packet A { u8 x, }
repeatCount	{// packet A { u8 x, }
@leftPad ( '\x00'
) repeat u8x MetaDataX `crlf
line`,
    repeat
    char[] MetaDataX
    i64
u64	uint8x@calculatedFrom(""a\""b""
// c
// packet A { u8 x, }
) `tab	here`
,//
}MetaData pack
    {
    }
")).
Eval vm_compute in ("<<<M2061>>>" ++ check (runes_of_ascii "packet// packet A { u8 x, }
repeatCount	@leftPad// packet A { u8 x, }
{ ( '\x00'
) repeat u8x MetaDataX `crlf
line`,
    repeat
    char[] MetaDataX
    ,
u64	uint8x@calculatedFrom(""a\""b""
// c
// packet A { u8 x, }
) `tab	here`
,//
}MetaData pack
    {
    }
")).
Eval vm_compute in ("<<<M2186>>>" ++ check (runes_of_ascii "packet// packet A { u8 x, }
repeatCount	{// packet A { u8 x, }
@leftPad ( '\x00'
) repeat u8x MetaDataX `crlf
line`,
    repeat
    char[] MetaDataX
    ,
u64	uint8x@calculatedFrom(""a\""b""
// c
// packet A { u8 x, }
) `tab	here`
,//
}MetaData pack
    {
    :
")).
Eval vm_compute in ("<<<M2174>>>" ++ check (runes_of_ascii "packet// packet A { u8 x, }
repeatCount	{// packet A { u8 x, }
@leftPad ( '\x00'
) repeat u8x MetaDataX `crlf
line`,
    repeat
    char[] MetaDataX
    ,
u64	uint8x@calculatedFrom(""a\""b""
// c
// packet A { u8 x, }
) `tab	here`
,//
}MetaData 
    {
    }
")).
Eval vm_compute in ("<<<M926>>>" ++ check (runes_of_ascii "
root packet
//x
//
T { repeat int32
    T `a\` , } root	packet chars {string
uint8x//	t
, match Foo as Header {
1 :
charz [ 65535,4294967296
//	t
//
, 10 // " ++ [128512]%N ++ runes_of_ascii " emoji
, ""a	b"" ] : float ""x y""	: Pad , //
65535 :trueish	, }
, } // " ++ [27880; 37322]%N ++ runes_of_ascii "
root packet a1 { }
")).
Eval vm_compute in ("<<<M225>>>" ++ check (runes_of_ascii "root	packet Z9_{@calculatedFrom(""a\\"" ) zchar[1
]
    a1@lengthOf( Z9_  )
    ,	@tag(0123456789 ) @lengthOf( Header /// triple
)/// triple
@tag( 4294967296
) uint8
    u128 ,
    i16 msg_type , // packet A { u8 x, }
tag matchKey, } packet
u8x {  }
")).
Eval vm_compute in ("<<<M1490>>>" ++ check (runes_of_ascii "packet calculatedFrom
{ @calculatedFrom( ""a\\"" ) zchar[ 4294967296 ]
calculatedFrom@lengthOf( pack )	`100% of %d` ,body char[]@calculatedFrom( ""// no comment"" )  ,
@tag( 007) //x
int8
leftPad`it's` , repeat pack
    { repeat char[ 3] body
,},
}")).
Eval vm_compute in ("<<<M1470>>>" ++ check (runes_of_ascii "packet calculatedFrom
{ @calculatedFrom( ""a\\"" ) zchar[ 4294967296 ]
calculatedFrom@lengthOf( ) pack	`100% of %d` ,char[]body@calculatedFrom( ""// no comment"" )  ,
@tag( 007) //x
int8
leftPad`it's` , repeat pack
    { repeat char[ 3] body
,},
}")).
Eval vm_compute in ("<<<M665>>>" ++ check (runes_of_ascii "  packet
msg_type{
@leftPad (' '
) @lengthOf(calculatedFrom ) match zchar as u{[""packet"" ,
""a	b"" ,	10
    //x
    ,
255 ]// packet A { u8 x, }
: // `tick` ""quote"" 'q'
Pad  ,
// " ++ [128512]%N ++ runes_of_ascii " emoji
// c
65535
:	MetaDataX // trailing space 
,	255 :
o
,}
,
}
")).
Eval vm_compute in ("<<<M1468>>>" ++ check (runes_of_ascii "packet calculatedFrom
{ @calculatedFrom( ""a\\"" ) zchar[ 4294967296 ]
calculatedFrom@lengthOf(  )	`100% of %d` ,char[]body@calculatedFrom( ""// no comment"" )  ,
@tag( 007) //x
int8
leftPad`it's` , repeat pack
    { repeat char[ 3] body
,},
}")).
Eval vm_compute in ("<<<M4051>>>" ++ check (runes_of_ascii "// top
options {
    // c1
    u = 00// c4
    stringy = '0'// c7
}// c8

packet stringy {
    // c11
}// c12

MetaData repeatCount {
    // c15
    MetaDataX leftPad,// c18
    string body `
    `,// c22
    metadata options1,// c25
}// c26")).
Eval vm_compute in ("<<<M824>>>" ++ check (runes_of_ascii "packet falsey { @lengthOf(// `tick` ""quote"" 'q'
metadata)  @lengthOf(
    u128) @calculatedFrom( ""x y"" ) match trueish as crc
    { """ ++ [233]%N ++ runes_of_ascii "t" ++ [233]%N ++ runes_of_ascii """: msg_type ,[65535 // `tick` ""quote"" 'q'
,3
    ]
: int , 7 :
Z9_ ,""x y"": options1,
}  ,	}
")).
Eval vm_compute in ("<<<M3685>>>" ++ check (runes_of_ascii "
packet
	Packet  {
u64 
MetaDataX
,

    @lengthOf(

    u128  )
    @calculatedFrom( """ ++ [28040; 24687]%N ++ runes_of_ascii """
	)
@tag(1

    )  // c
repeat Z9_

u128 ,
} root packet

chars{
@tag( 255) 
char[
007 ]chars@lengthOf(
    i64_  ) 
, 
}")).
Eval vm_compute in ("<<<M1056>>>" ++ check (runes_of_ascii "
root packet/// triple
chars {
repeat// @lengthOf(
int16
    string_ , } MetaData msg_type { zchar[	00] Pad, trueish uint8x , float32 matchKey	`two words`
// " ++ [128512]%N ++ runes_of_ascii " emoji
// " ++ [128512]%N ++ runes_of_ascii " emoji
, int32
    /// triple
    a1 , }")).
Eval vm_compute in ("<<<M237>>>" ++ check (runes_of_ascii "root packet
msg_type { @leftPad	(
'\x00' )
// trailing space 
//x
o@lengthOf( x_y_z )
    , repeat
// 50% %s
// c
f64 matchKey `it's` , @calculatedFrom( ""1""
    ) uint16 // trailing space 
matchKey ,}")).
Eval vm_compute in ("<<<M3598>>>" ++ check (runes_of_ascii "options {
}

packet Packet {
    i64_,
    @tag(255)
    match crc as i8i8 {
        ""{,}"" : trueish,
        """" : Pad,
        ""a\\"" : Foo,
        1 : packetx,
        """ ++ [128512]%N ++ runes_of_ascii """ : trueish,
    },
}")).
Eval vm_compute in ("<<<M3505>>>" ++ check (runes_of_ascii "options {
    FixedStringPadChar = '0';
}
packet Q {
    zchar[4] z,
    @rightPad('\x00') char[3] n,
    char[5] d,
}
root packet R {
    Q,
    zchar[8] top,
    repeat zchar[2] zs,
}
")).
Eval vm_compute in ("<<<M372>>>" ++ check (runes_of_ascii "options { u
    = false	} //
options {}	options {
x_y_z =
    false ; } MetaData a1 //
{ }
options { // 50% %s
u8x= // " ++ [128512]%N ++ runes_of_ascii " emoji
true ; metadata=
    ""it's"";MetaDataX =	007 ;
}
")).
Eval vm_compute in ("<<<M3435>>>" ++ check (runes_of_ascii "// top
root // c0a
  // c0b
packet // c1
P
    // c2
{ // c3a
  // c3b
char
    // c4
c
    // c5
, // c6
u8 // c7a
  // c7b
x // c8
, // c9a
  // c9b
} // c10a
  // c10b
")).
Eval vm_compute in ("<<<M645>>>" ++ check (runes_of_ascii "options{ f32a
=
""{,}""
;
    // " ++ [27880; 37322]%N ++ runes_of_ascii "
    }
packet lengthOf  { repeat zchar`" ++ [233]%N ++ runes_of_ascii "`
, }MetaData u8x{ uint32
MetaDataX `crlf
line` ,
} MetaData //
zchar
    {
float64 T	,	}")).
Eval vm_compute in ("<<<M611>>>" ++ check (runes_of_ascii "MetaData metadata
    { float
    packetx `" ++ [233]%N ++ runes_of_ascii "` ,
// " ++ [128512]%N ++ runes_of_ascii " emoji
// @lengthOf(
T // `tick` ""quote"" 'q'
u8x, //
asx	stringy	`" ++ [28040; 24687; 31867; 22411]%N ++ runes_of_ascii "` , i8i8 f32a, char[
255 ] As
    , }
")).
Eval vm_compute in ("<<<M1725>>>" ++ check (runes_of_ascii "options { } packet Packet{char[] i64_ ,
@tag(
    255) match
crc as i8i8{""{,}"" zchar[ trueish """" : Pad , ""a\\"" :
Foo ,
    1 :packetx
, """ ++ [128512]%N ++ runes_of_ascii """ : trueish , } , }")).
Eval vm_compute in ("<<<M1763>>>" ++ check (runes_of_ascii "options { } packet Packet{char[] i64_ ,
@tag(
    255) match
crc as i8i8{""{,}"" : trueish """" : Pad , ""a\\"" :
Foo Foo ,
    1 :packetx
, """ ++ [128512]%N ++ runes_of_ascii """ : trueish , } , }")).
Eval vm_compute in ("<<<M2409>>>" ++ check (runes_of_ascii "
packet MetaDataX
{
    @leftPad
( // a // b
'0'
) i8 u @lengthOf(
MetaDataX
    ) `say ""hi""` ,	} MetaData BodyLength {
    a" ++ [769]%N ++ runes_of_ascii "b
x_y_z `" ++ [233]%N ++ runes_of_ascii "`
, uint64 u128 , }
")).
Eval vm_compute in ("<<<M1839>>>" ++ check (runes_of_ascii "options { } packet Packet{char[] i64_ ,
@tag(
    ' 255) match
crc as i8i8{""{,}"" : trueish """" : Pad , ""a\\"" :
Foo ,
    1 :packetx
, """ ++ [128512]%N ++ runes_of_ascii """ : trueish , } , }")).
Eval vm_compute in ("<<<M1840>>>" ++ check (runes_of_ascii "options { } packet Packet{char[] i64_ ~,
@tag(
    255) match
crc as i8i8{""{,}"" : trueish """" : Pad , ""a\\"" :
Foo ,
    1 :packetx
, """ ++ [128512]%N ++ runes_of_ascii """ : trueish , } , }")).
Eval vm_compute in ("<<<M1750>>>" ++ check (runes_of_ascii "options { } packet Packet{char[] i64_ ,
@tag(
    255) match
crc as i8i8{""{,}"" : trueish """" : Pad ( ""a\\"" :
Foo ,
    1 :packetx
, """ ++ [128512]%N ++ runes_of_ascii """ : trueish , } , }")).
Eval vm_compute in ("<<<M1712>>>" ++ check (runes_of_ascii "options { } packet Packet{char[] i64_ ,
@tag(
    255) match
crc as i8i8""{,}"" : trueish """" : Pad , ""a\\"" :
Foo ,
    1 :packetx
, """ ++ [128512]%N ++ runes_of_ascii """ : trueish , } , }")).
Eval vm_compute in ("<<<M2422>>>" ++ check (runes_of_ascii "
packet MetaDataX
{
    @leftPad
( // a // b
'0'
) i8 u @tag(
MetaDataX
    ) `say ""hi""` ,	} MetaData BodyLength {
    asx
x_y_z `" ++ [233]%N ++ runes_of_ascii "`
, uint64 u128 , }
")).
Eval vm_compute in ("<<<M1930>>>" ++ check (runes_of_ascii "packet	packetx { // trailing space 
x_y_z
{
string
charz ,
string x// @lengthOf(
`two words`
    ,  u8x { // `tick` ""quote"" 'q'
charz `100% of %d`")).
Eval vm_compute in ("<<<M1802>>>" ++ check (runes_of_ascii "options { } packet Packet{char[] i64_ ,
@tag(
    255) match
crc as i8i8{""{,}"" : trueish """" : Pad , ""a\\"" :
Foo ,
    1 :packetx
, """ ++ [128512]%N ++ runes_of_ascii """ :  , } , }")).
Eval vm_compute in ("<<<M1270>>>" ++ check (runes_of_ascii "options {
// trailing space 
// `tick` ""quote"" 'q'
u128= false ;
Pad
= false;
BodyLength = char[] body
=
true u =' ' } // packet A { u8 x, }")).
Eval vm_compute in ("<<<M4449>>>" ++ check (runes_of_ascii "
options
// `tick` ""quote"" 'q'

// a // b
  { crc
=// trailing space 
	""// no comment"" ;

    }

MetaData o{
i32

    zchar
``
, }
")).
Eval vm_compute in ("<<<M3723>>>" ++ check (runes_of_ascii "
options

{ 
// `tick` ""quote"" 'q'
	/// triple
      x  // " ++ [128512]%N ++ runes_of_ascii " emoji
	=
	'\x00'; asx
=
    char[ 42// 50% %s
] 
} 
    // @lengthOf(
")).
Eval vm_compute in ("<<<M445>>>" ++ check (runes_of_ascii "// c
root packet repeatCount { //	t
@tag( 42
) roots ,
    } MetaData As
    {  } MetaData	repeatCount // packet A { u8 x, }
{}
")).
Eval vm_compute in ("<<<M3044>>>" ++ check (runes_of_ascii "packet A {
    u16 len @lengthOf(body) `a
    b
  c`,
    u32 crc @calculatedFrom(""CRC32"") `a
    b
  c`,
    string body,
}")).
Eval vm_compute in ("<<<M3292>>>" ++ check (runes_of_ascii "MetaData metadata { } MetaData rootA { i8 i64_ , roots options1 `a\` , lengthOf Header // c
, Z9_ Foo , int16 BodyLength , }")).
Eval vm_compute in ("<<<M3452>>>" ++ check (runes_of_ascii "packet B {
    u8 a,
}
root packet P {
    u8 K,
    u8 L @lengthOf(Body),
    match K as Body {
        1 : B,
    },
}
")).
Eval vm_compute in ("<<<M268>>>" ++ check (runes_of_ascii "MetaData
    falsey { char[ 7 ]T
, u8 stringy
    , i64  x // `tick` ""quote"" 'q'
,
    char[ 0 ]
    i8i8  `doc`
,}")).
Eval vm_compute in ("<<<M870>>>" ++ check (runes_of_ascii "// " ++ [27880; 37322]%N ++ runes_of_ascii "
options
    {  } packet
    Foo/// triple
{match charz
    as body {4294967296 : int
    ,
} ,// 50% %s
}")).
Eval vm_compute in ("<<<M3331>>>" ++ check (runes_of_ascii "MetaData float { uint8 BodyLength , }
// c
MetaData charz { float32 trueish `a\` , i16 metadata `say ""hi""` , }")).
Eval vm_compute in ("<<<M988>>>" ++ check (runes_of_ascii "packet
    zchar  {
@calculatedFrom(  """ ++ [233]%N ++ runes_of_ascii "t" ++ [233]%N ++ runes_of_ascii """ )char[ // `tick` ""quote"" 'q'
7 ]
string_
@lengthOf( charz) , }
")).
Eval vm_compute in ("<<<M3062>>>" ++ check (runes_of_ascii "packet A {
    u16 len @lengthOf(body) `
x`,
    u32 crc @calculatedFrom(""CRC32"") `
x`,
    string body,
}")).
Eval vm_compute in ("<<<M3020>>>" ++ check (runes_of_ascii "packet A {
  match k as n {
    [1, 22, ""c c"", 4, 5, ""f"", 7, 8, ""i"", 10, 11, ""l""] : B
    2 : C
  },
}")).
Eval vm_compute in ("<<<M901>>>" ++ check (runes_of_ascii "
options{ packetx	=  ""a\""b""; _x
= ""CRC32""len// @lengthOf(
= uint64 ; crc	= """" ; uint8x= ""a	b""
    }")).
Eval vm_compute in ("<<<M37>>>" ++ check (runes_of_ascii "root
packet msg_type // packet A { u8 x, }
{ @lengthOf(
u8x	)	string
pack @lengthOf( pack )
, }")).
Eval vm_compute in ("<<<M878>>>" ++ check (runes_of_ascii "packet repeatCount
    { @lengthOf(
x
    )@calculatedFrom(
""// no comment"" )
f64 options1 ,}")).
Eval vm_compute in ("<<<M3974>>>" ++ check (runes_of_ascii "
packet
A {u16	// a
len // b
@lengthOf(  // c
  body // d
) // e
  `d`  // f

	,

    } ")).
Eval vm_compute in ("<<<M3608>>>" ++ check (runes_of_ascii "packet A {
    B b `a
        b`,
    B `a
        b`,
    repeat B bs `a
        b`,
}")).
Eval vm_compute in ("<<<M2221>>>" ++ check (runes_of_ascii "MetaData _x string{ x `// not a comment` , string
i64_ // trailing space 
`a\` ,
    }
")).
Eval vm_compute in ("<<<M4042>>>" ++ check (runes_of_ascii "packet

    o{ 
	    // c

@tag(
4294967296
    ) 
options1 
@lengthOf( u8x
)`" ++ [233]%N ++ runes_of_ascii "`
,}")).
Eval vm_compute in ("<<<M1467>>>" ++ check (runes_of_ascii "packet calculatedFrom
{ @calculatedFrom( ""a\\"" ) zchar[ 4294967296 ]
calculatedFrom")).
Eval vm_compute in ("<<<M2954>>>" ++ check (runes_of_ascii "packet A {
  match k as n {
    [1, 22, ""c c"", 4, 5, ""f"", 7] : B,
    2 : C
  },
}")).
Eval vm_compute in ("<<<M2746>>>" ++ check (runes_of_ascii "options char string int64 i8 @lengthOf( u64 = uint8 @rightPad ; @rightPad } char")).
Eval vm_compute in ("<<<M3448>>>" ++ check (runes_of_ascii "  packet Inner 
{u8 a,	} 
root	packet P
	{
	repeat	Inner items  , u8
    x	,	}")).
Eval vm_compute in ("<<<M3364>>>" ++ check (runes_of_ascii "MetaData // c
_x { f64 charz `tab	here` , } options { BodyLength = """ ++ [233]%N ++ runes_of_ascii "t" ++ [233]%N ++ runes_of_ascii """ ; }")).
Eval vm_compute in ("<<<M680>>>" ++ check (runes_of_ascii "options
{
Packet= f64 T = '\x00'
    //x
    ;Header = 42 ; stringy = 1;
}")).
Eval vm_compute in ("<<<M2912>>>" ++ check (runes_of_ascii "packet A {
  match k as n {
    [1, ""bb"", 007, ""d""] : B
    2 : C
  },
}")).
Eval vm_compute in ("<<<M345>>>" ++ check (runes_of_ascii "// trailing space 
MetaData
repeatCount  { u32 i64_
`100% of %d`
,}
")).
Eval vm_compute in ("<<<M3410>>>" ++ check (runes_of_ascii "packet o { @tag( 4294967296 // c
) options1 @lengthOf( u8x ) `" ++ [233]%N ++ runes_of_ascii "` , }")).
Eval vm_compute in ("<<<M3695>>>" ++ check (runes_of_ascii "
packet charz{ u8 
    //	t
//	t
	_x 
`
`

    ,// 50% %s
	} ")).
Eval vm_compute in ("<<<M3920>>>" ++ check (runes_of_ascii "
MetaData M
    {

u8
    x

    `a
b` 
, T 
t
`a
b` 
,  }

")).
Eval vm_compute in ("<<<M2892>>>" ++ check (runes_of_ascii "packet A {
  match k as n {
    [""a"", 22] : B
    2 : C
  },
}")).
Eval vm_compute in ("<<<M1885>>>" ++ check (runes_of_ascii "packet	packetx { // trailing space 
x_y_z
{
string
charz")).
Eval vm_compute in ("<<<M3216>>>" ++ check (runes_of_ascii "packet A { @tag(1) // a
 @leftPad('0') // b
 char[4] x, }")).
Eval vm_compute in ("<<<M1343>>>" ++ check (runes_of_ascii "MetaData metadata
{ matchKey chars
    ,
}
// 50% %s
")).
Eval vm_compute in ("<<<M2735>>>" ++ check (runes_of_ascii "i64 as i32 repeat `tab	here` { repeat zchar[ options")).
Eval vm_compute in ("<<<M2884>>>" ++ check (runes_of_ascii "packet A { Inner { match k as n { [1] : B, }, }, }")).
Eval vm_compute in ("<<<M691>>>" ++ check (runes_of_ascii "packet
    u8x
{
// " ++ [27880; 37322]%N ++ runes_of_ascii "
// packet A { u8 x, }
}
")).
Eval vm_compute in ("<<<M1686>>>" ++ check (runes_of_ascii "options { } packet Packet{char[] i64_ ,
@tag(")).
Eval vm_compute in ("<<<M2619>>>" ++ check (runes_of_ascii "packet A { repeat B { C { u8 x, }, D d, }, }")).
Eval vm_compute in ("<<<M3099>>>" ++ check (runes_of_ascii "options {
    a = ""%d%s"";
    b = ""%d%s""
}")).
Eval vm_compute in ("<<<M3231>>>" ++ check (runes_of_ascii "// c
MetaData zchar { zchar[ 3 ] Pad , }")).
Eval vm_compute in ("<<<M2674>>>" ++ check (runes_of_ascii "MetaData M { match k as n { 1 : B }, }")).
Eval vm_compute in ("<<<M28>>>" ++ check (runes_of_ascii "packet
Z9_{ zchar[ 7]//x
falsey  , }")).
Eval vm_compute in ("<<<M2765>>>" ++ check (runes_of_ascii "=)GWW.K%I""*GRuKBA`>Z3#V@hF`wP=H/<KF")).
Eval vm_compute in ("<<<M551>>>" ++ check (runes_of_ascii "MetaData _x
    { // @lengthOf(
}")).
Eval vm_compute in ("<<<M3065>>>" ++ check (runes_of_ascii "root packet A {
    u8 x `
x`,
}")).
Eval vm_compute in ("<<<M3156>>>" ++ check (runes_of_ascii "packet A {
 u8 x `d" ++ [8287]%N ++ runes_of_ascii "`, // c" ++ [8287]%N ++ runes_of_ascii "
}")).
Eval vm_compute in ("<<<M3790>>>" ++ check (runes_of_ascii "packet 
// 50% %s
  u128{}
")).
Eval vm_compute in ("<<<M1357>>>" ++ check (runes_of_ascii "packet BodyLength { }
//x
")).
Eval vm_compute in ("<<<M3208>>>" ++ check (runes_of_ascii "options { a = 1 // a
 ; }")).
Eval vm_compute in ("<<<M2599>>>" ++ check (runes_of_ascii "packet A { char[ 3 y, }")).
Eval vm_compute in ("<<<M3726>>>" ++ check (runes_of_ascii "// c" ++ [8232]%N ++ runes_of_ascii "

packet 
A {}

")).
Eval vm_compute in ("<<<M2592>>>" ++ check (runes_of_ascii "packet A { x y z, }")).
Eval vm_compute in ("<<<M3124>>>" ++ check (runes_of_ascii "packet A {
}
// c" ++ [5760]%N)).
Eval vm_compute in ("<<<M4364>>>" ++ check (runes_of_ascii "  MetaData 
x{  }
")).
Eval vm_compute in ("<<<M3177>>>" ++ check (runes_of_ascii "packet A {
}// c" ++ [65279]%N)).
Eval vm_compute in ("<<<M2876>>>" ++ check (runes_of_ascii ",5s`>:r(Jb{*/[(")).
Eval vm_compute in ("<<<M296>>>" ++ check (runes_of_ascii "// a // b

")).
Eval vm_compute in ("<<<M2505>>>" ++ check (runes_of_ascii "@centerPad")).
Eval vm_compute in ("<<<M2736>>>" ++ check ([28]%N ++ runes_of_ascii "Kk" ++ [7; 65533]%N ++ runes_of_ascii "/" ++ [65533; 65533]%N)).
Eval vm_compute in ("<<<M1422>>>" ++ check (runes_of_ascii "packet")).
Eval vm_compute in ("<<<M2493>>>" ++ check (runes_of_ascii "'\x0'")).
Eval vm_compute in ("<<<M2464>>>" ++ check (runes_of_ascii "i8i8")).
Eval vm_compute in ("<<<M2473>>>" ++ check (runes_of_ascii "asx")).
Eval vm_compute in ("<<<M2472>>>" ++ check (runes_of_ascii "as")).
Eval vm_compute in ("<<<M2576>>>" ++ check ([21517]%N)).
