From FP Require Import Lexer Parser ShowPT Digest Formatter.
From Coq Require Import String List NArith.
Import ListNotations.
Open Scope string_scope.
Set Printing Width 100000000.
Set Printing Depth 100000000.
Definition show_fres (r : fres) : string :=
  match r with
  | FOk s => "OK:" ++ sh_escaped s ""
  | FErr s => "ERR:" ++ sh_escaped s ""
  | FPanic p => "PANIC:" ++ p
  end.
Definition check (rs : list rune) : string := digest (show_fres (format_res rs)).
Definition full (rs : list rune) : string := show_fres (format_res rs).
Eval vm_compute in ("<<<M1971>>>" ++ check (runes_of_ascii "packet trueish {
    @calculatedFrom("""")
    u @lengthOf(a1),
}

options {
    trueish = 42
}

options {
    //	t
}

packet Foo {
    match matchKey as body {
        // `tick` ""quote"" 'q'
        [4294967296] : Packet,
        00 : A,
    },
    @calculatedFrom(""x y"")
    // " ++ [27880; 37322]%N ++ runes_of_ascii "
    @lengthOf(a1)
    repeat f64 rootA,
}

packet len {
    @calculatedFrom(""// no comment"")
    string T @lengthOf(f32a),
    float32 chars,
    @rightPad(' ')
    repeat chars {
        string A,
        string i64_ `line1
        line2`,
        float32 i8i8,
        uint64 matchKey @calculatedFrom(""abc"") `" ++ [233]%N ++ runes_of_ascii "`,
    },
    A `a\`,
    @tag(00)
    @tag(0123456789)
    @tag(1)
    u128 {
        i64_ {
            // c
            // trailing space 
            BodyLength,
            i64 u `{ , }`,
            match Z9_ as chars {
                [""""] : float,
                [0123456789, 42, 3, 10, 10] : stringy,
                ""1"" : trueish,
                // packet A { u8 x, }
                ""packet"" : u128,
                [""x y"", 7] : A,
            },
            int32 a1,
        },
        rootA `doc`,
        //x
        // `tick` ""quote"" 'q'
    },
    @rightPad(' ')
    repeat options1 {
        int @calculatedFrom(""packet""),// " ++ [128512]%N ++ runes_of_ascii " emoji
    },
    repeat char[65535] falsey,
    @rightPad()
    repeat char[] i8i8,
    repeat calculatedFrom msg_type,
    @rightPad()
    @tag(65535)
    repeat calculatedFrom crc,
}")).
Eval vm_compute in ("<<<M1503>>>" ++ check (runes_of_ascii "root packet msg_type {
    u128,
    @calculatedFrom(""" ++ [233]%N ++ runes_of_ascii "t" ++ [233]%N ++ runes_of_ascii """)
    repeat char[3] metadata `crlf
        line`,
    char[255] Pad,
    asx @calculatedFrom(""packet""),
    repeat stringy `tab	here`,
    //x
    //	t
    repeat As `two words`,
    @leftPad('\x00')
    repeat matchKey `a\`,
    @rightPad(' ')
    repeat Pad {
        repeat u,
        // trailing space 
        // packet A { u8 x, }
        repeat char[] uint8x,
    },
    u128 {
        repeat As `u8 x,`,
        pack msg_type,
        uint32 lengthOf @calculatedFrom(""1""),
        match roots as x {
            ""{,}"" : Pad,
        },
    },
}

root packet tag {
    string pack,
}

root packet u8x {
    string pack `doc`,
    @lengthOf(options1)
    f32 matchKey @calculatedFrom(""`tick`"") `two words`,
    @leftPad('\x00')
    @lengthOf(Packet)
    @tag(007)
    int32 Pad @calculatedFrom(""a\\""),
    @calculatedFrom("""")
    string a1 @lengthOf(metadata),
    match u128 as Foo {
        [""`tick`""] : msg_type,
        10 : msg_type,
        00 : len,
        ""`tick`"" : _x,
        1 : repeatCount,
        [1, 1] : pack,
    },
    @leftPad()
    float64 pack `
        `,
}")).
Eval vm_compute in ("<<<M375>>>" ++ check (runes_of_ascii "
options{ MetaDataX= ' '
//	t
// trailing space 
; trueish = """ ++ [233]%N ++ runes_of_ascii "t" ++ [233]%N ++ runes_of_ascii """ ;
    /// triple
    } packet BodyLength{@lengthOf( repeatCount ) char[65535 ]
    crc @calculatedFrom(
    """"
),zchar[0 ]
x_y_z @calculatedFrom( ""packet"" )`a\` , } packet Header	{	repeat
    // " ++ [128512]%N ++ runes_of_ascii " emoji
    T
{
//x
//x
u128 chars , }, match Pad as
    crc{ ""a\""b"" :	x , }
    ,
    @lengthOf(	rootA
) @lengthOf(
stringy )
i32
    // a // b
    x
,
    @calculatedFrom( """ ++ [128512]%N ++ runes_of_ascii """
) int8	u @lengthOf(
    Pad
) `doc` , @tag(
65535)charz { a1
_x,
repeat	float32 Header `say ""hi""` ,char u , } ,
    //x
    @leftPad ( )
@leftPad (
    '0' ) @rightPad( '\x00'
    )
    match falsey as As { // " ++ [128512]%N ++ runes_of_ascii " emoji
""a\\"": pack } /// triple
,repeat metadata , match i8i8 as u {
[ 4294967296 ,
    42 ] // @lengthOf(
: uint8x ,}  , repeat uint16
    chars
// " ++ [27880; 37322]%N ++ runes_of_ascii "
// @lengthOf(
`u8 x,` ,
u16 repeatCount`crlf
line` ,
} packet
    tag {
    char[ 7 ]// `tick` ""quote"" 'q'
trueish  , int8
    string_ ``
// @lengthOf(
// @lengthOf(
,
    } 	 ")).
Eval vm_compute in ("<<<M149>>>" ++ check (runes_of_ascii "MetaData As{
    u//
matchKey	, char[] T	, char[] Foo// @lengthOf(
`{ , }`,
    }root
packet
    T { @lengthOf(
tag ) @tag( 0123456789 ) match repeatCount as
    BodyLength { """ ++ [233]%N ++ runes_of_ascii "t" ++ [233]%N ++ runes_of_ascii """  :o ,
65535 : float,
    ""a	b""	: _x , [ ""x y"" , 65535
// packet A { u8 x, }
//x
] : string_ ,}
,}
    root packet
_x { match msg_type
    // trailing space 
    as
    f32a {""\" ++ [233]%N ++ runes_of_ascii """ : Header 3	:
repeatCount [7, ""a	b"" ] :
_x
, ""it's"":
stringy 10
:
//	t
/// triple
As ,""it's"" :lengthOf }
, @calculatedFrom(""packet"" ) int64// `tick` ""quote"" 'q'
falsey ,	@leftPad// packet A { u8 x, }
( )
//	t
//
char[ 1 ]len// @lengthOf(
@lengthOf( Foo ) ,	chars
T ,
    zchar[
007	]	options1
,
match f32a as
asx
{[ ""1"" ] :matchKey, """ ++ [28040; 24687]%N ++ runes_of_ascii """: As ,
    // c
    4294967296 : options1 ,
}
    , }	MetaData o
    {	zchar[ 42] repeatCount ,packetx falsey,Packet options1
`{ , }` ,} options { falsey = ""a\\""	} // " ++ [128512]%N ++ runes_of_ascii " emoji")).
Eval vm_compute in ("<<<M63>>>" ++ check (runes_of_ascii "// trailing space 
options{
    asx = """ ++ [233]%N ++ runes_of_ascii "t" ++ [233]%N ++ runes_of_ascii """ zchar = 7 i8i8=65535 ;	Pad =i8
; } // a // b
MetaData
    string_  { //	t
char[ 0 // packet A { u8 x, }
]zchar ,// `tick` ""quote"" 'q'
char[ 4294967296] msg_type ,
u16
MetaDataX `" ++ [233]%N ++ runes_of_ascii "`,} root packet Foo{	f64
BodyLength
@lengthOf(
repeatCount ) ,
repeat asx {
char[ 00] stringy // `tick` ""quote"" 'q'
@lengthOf( Foo)
    ,  i8 string_,}
    ,
float64 i8i8 `say ""hi""` ,  @tag( 0 ) MetaDataX
    {// " ++ [27880; 37322]%N ++ runes_of_ascii "
repeat uint16 stringy
,	repeat x_y_z , asx, } ,
    @rightPad( '\x00' ) repeat
    char[7
] metadata
// a // b
// " ++ [27880; 37322]%N ++ runes_of_ascii "
, i16 x
, match falsey
    as
asx	{""a\""b""
:
    u ,} // @lengthOf(
,// trailing space 
@calculatedFrom(  """"//
)
match f32a
as
u8x {
//x
//
""a\""b"":matchKey , } //
,
x `" ++ [233]%N ++ runes_of_ascii "`  ,char[
65535 ]
string_ `u8 x,` , }
// c
")).
Eval vm_compute in ("<<<M1456>>>" ++ check (runes_of_ascii "options {
    StringPrefixLenType = u16;
    ArrayPrefixLenType = u32;
    FixedStringPadFromLeft = false;
    FixedStringPadChar = '0';
}
packet Logout {
    f64 f1,
    i16 Note,
    @rightPad('\x00') char[11] Flags,
}
packet Cancel {
    float64 msgKind,
}
packet Reject {
    InQty43 {
        float32 sym,
        char[10] Tail,
        uint8 venue,
        uint16 f1,
        char[9] Acct,
    },
}
packet Trade {
    char[] x,
    zchar[6] Note,
    repeat Reject,
}
root packet Order {
    Cancel,
    Logout,
    u64 Acct,
    u32 OrderId,
    match OrderId as Body {
        [127, 70] : Reject,
        177 : Trade,
        58 : Logout,
        75 : Cancel,
    },
    u32 Tail @calculatedFrom(""CR\
C32""),
}
")).
Eval vm_compute in ("<<<M1459>>>" ++ check (runes_of_ascii "
options
	{	LittleEndian 
=true	;
    FixedStringPadFromLeft=  true
    ;  FixedStringPadChar ='0'	; 
} packet
    Trade {
string 
clOrdID,	char[]
Px 
,u32
x ,}	packet	Reject 
{

    int32

    Side2 ,
	repeat char[ 
3

    ] clOrdID ,
    i32

tag7,}

    packet
Leg{ 
} root packet	Quote

{string
    Side2

    , 
string lastPx	,
InSym58  {
    int16  OrderId
, Reject
	,

    i8  Qty
,

    i64  venue
	,f32 Note , } ,char[] count,
zchar[
9

] 
price
,u16
Qty
,  match Qty

as
Body {	69

    :
    Leg
,
48  :Trade
	,
	51
    :
	Reject

    ,
	}

, u16	Acct@calculatedFrom(
    ""CRC32""
) , 
}")).
Eval vm_compute in ("<<<M208>>>" ++ check (runes_of_ascii "packet i64_
    {} packet
    crc {
} options
{ }root packet
charz {} packet //
trueish{ repeat char[
    255] lengthOf `" ++ [28040; 24687; 31867; 22411]%N ++ runes_of_ascii "` , zchar[
//	t
/// triple
00 // a // b
]x`it's` ,/// triple
repeat	char[]
    // `tick` ""quote"" 'q'
    Packet `say ""hi""` , @calculatedFrom(
""x y"" // " ++ [27880; 37322]%N ++ runes_of_ascii "
) char[ 1] lengthOf, lengthOf`crlf
line` ,	match charz as MetaDataX { ""a	b""
// " ++ [27880; 37322]%N ++ runes_of_ascii "
// `tick` ""quote"" 'q'
: uint8x
    ""\n"" : calculatedFrom } , @tag(	10
) float64 i8i8 @calculatedFrom( """ ++ [128512]%N ++ runes_of_ascii """ ) `say ""hi""` ,
@rightPad(
'\x00' )
i32
Foo`it's`	,
}
")).
Eval vm_compute in ("<<<M179>>>" ++ check (runes_of_ascii "  packet
    body
//x
/// triple
{ } packet Foo {int @lengthOf( x
    ) , float32 len
    `" ++ [28040; 24687; 31867; 22411]%N ++ runes_of_ascii "`, repeat f32a Packet ,	i8 // @lengthOf(
stringy
/// triple
// trailing space 
@calculatedFrom(""// no comment"" )
`line1
line2`
    ,
@tag( 0
    // a // b
    ) match  u
    as
    falsey
    //
    { [ 10 , 3, ""`tick`"" , 42	, 3// `tick` ""quote"" 'q'
]
    : Pad  ,
7 : repeatCount// c
, 0 :
    Foo}, }MetaData Packet { string// c
u , }options { uint8x = true
; }
")).
Eval vm_compute in ("<<<M1420>>>" ++ check (runes_of_ascii "  packet
Frame
{

    u8

HK
,

    u8	BK,	u8  TK

    ,  match HK
as  Hdr {

    1 :
HdrA

    ,
2
:  HdrB
	,  },match
BK as Body{	1: BodyA,2 :
BodyB  ,
    } 
, match TK
as
	Trl 
{1 :	TrlA,	}
    ,}
	packet HdrA
    {
	u8

a,
	}packet	HdrB {
u16

b  ,

}

packet BodyA 
{ 
u32  c ,
} packet

    BodyB  {

    u64	d , }packet
TrlA { u8

e
,  }  root packet  Msg {	Frame	, u8 x , }")).
Eval vm_compute in ("<<<M304>>>" ++ check (runes_of_ascii "
MetaData
a1 {
u128// @lengthOf(
As ,char[
4294967296] lengthOf ,
uint64 msg_type	, x_y_z f32a
, float32	o // " ++ [27880; 37322]%N ++ runes_of_ascii "
,	} options
// " ++ [27880; 37322]%N ++ runes_of_ascii "
// " ++ [128512]%N ++ runes_of_ascii " emoji
{
//x
// @lengthOf(
}MetaData string_
    {
}
packet roots {
repeat f32 As `" ++ [28040; 24687; 31867; 22411]%N ++ runes_of_ascii "` , } options {
    // " ++ [128512]%N ++ runes_of_ascii " emoji
    uint8x = ""a	b""Packet//
=42
;pack =
    10
    ;
    tag= string	; repeatCount = // " ++ [27880; 37322]%N ++ runes_of_ascii "
char[ 0	] ; }")).
Eval vm_compute in ("<<<M1497>>>" ++ check (runes_of_ascii "
packet
A{ u8 a

,

    } packet
B {

    u16
    b

    ,

    } packet

C { u32
    c  ,
} root
packet  M{ 
u16 Kc

,
	u16

Kb,
    u16
    Ka
,

    match
    Kc 
as  X	{ 
9 : 
A	, 10 :
B , }
    , match Kb 
as
    Y	{ 2:  C,
1	:A
,}	, match 
Ka
    as Z	{
    1

    : 
B ,

}
    , A,

B 
,
C 
,
}

")).
Eval vm_compute in ("<<<M1591>>>" ++ check (runes_of_ascii "packet charz {
    @lengthOf(Pad)
    match rootA as string_ {
        [0123456789] : repeatCount,
        [00, ""it's""] : T,
        0 : stringy,
        4294967296 : msg_type,
        /// triple
    },
}

packet lengthOf {
    @tag(7)
    char[255] float @calculatedFrom(""packet""),
}")).
Eval vm_compute in ("<<<M1963>>>" ++ check (runes_of_ascii "packet leftPad {
    trueish {
        char[] charz @calculatedFrom(""\n""),
    },
    @rightPad('0')
    @tag(255)
    len {
        zchar[65535] f32a,
    },
    f64 i8i8 ``,
}

options {
    chars = 00
    Pad = false// a // b
    stringy = string
}")).
Eval vm_compute in ("<<<M1248>>>" ++ check (runes_of_ascii "// top
packet // c0
calculatedFrom // c1
{ // c2
@tag( // c3
4294967296 // c4
) // c5
u // c6
msg_type // c7
, // c8
char[ // c9
3 // c10
] // c11
crc // c12
@lengthOf( // c13
len // c14
) // c15
`u8 x,` // c16
, // c17
} // c18
")).
Eval vm_compute in ("<<<M12>>>" ++ check (runes_of_ascii "  MetaData	calculatedFrom
{char[]
lengthOf
    , } // trailing space 
root // " ++ [27880; 37322]%N ++ runes_of_ascii "
packet _x { @calculatedFrom(""" ++ [28040; 24687]%N ++ runes_of_ascii """) repeat zchar _x ,
    // packet A { u8 x, }
    repeat zchar[42//x
]
Pad , @tag(42	)char[ 42] u8x
    ,}
")).
Eval vm_compute in ("<<<M527>>>" ++ check (runes_of_ascii "options
{
matchKey = 42/// triple
x='0' ;
// packet A { u8 x, }
//
charz
=
// packet A { u8 x, }
// trailing space 
true  ; } MetaData BodyLength
{
uint8
pack,zchar[ 1]float ,  float32 x_y_z `` , ,u32
_x,i16 body  , }
")).
Eval vm_compute in ("<<<M403>>>" ++ check (runes_of_ascii "options
{
matchKey 42 =/// triple
x='0' ;
// packet A { u8 x, }
//
charz
=
// packet A { u8 x, }
// trailing space 
true  ; } MetaData BodyLength
{
uint8
pack,zchar[ 1]float ,  float32 x_y_z `` ,u32
_x,i16 body  , }
")).
Eval vm_compute in ("<<<M553>>>" ++ check (runes_of_ascii "options
{
matchKey = 42/// triple
x='0' ;
// packet A { u8 x, }
//
charz
=
// packet A { u8 x, }
// trailing space 
true  ; } MetaData BodyLength
{
uint8
pack,zchar[ 1]float ,  float32 x_y_z `` ,u32
_x,i16 ,  body }
")).
Eval vm_compute in ("<<<M399>>>" ++ check (runes_of_ascii "options
{
true = 42/// triple
x='0' ;
// packet A { u8 x, }
//
charz
=
// packet A { u8 x, }
// trailing space 
true  ; } MetaData BodyLength
{
uint8
pack,zchar[ 1]float ,  float32 x_y_z `` ,u32
_x,i16 body  , }
")).
Eval vm_compute in ("<<<M26>>>" ++ check (runes_of_ascii "  packet lengthOf// " ++ [27880; 37322]%N ++ runes_of_ascii "
{ @leftPad(
)
    // a // b
    @tag( 7
//x
/// triple
)
u8 BodyLength ,
    char[ 1
] chars
`
`,
@tag( 00 )char[ 0]
    // packet A { u8 x, }
    Z9_ @lengthOf(
float) `u8 x,` ,
}")).
Eval vm_compute in ("<<<M520>>>" ++ check (runes_of_ascii "options
{
matchKey = 42/// triple
x='0' ;
// packet A { u8 x, }
//
charz
=
// packet A { u8 x, }
// trailing space 
true  ; } MetaData BodyLength
{
uint8
pack,zchar[ 1]float ,  float32")).
Eval vm_compute in ("<<<M715>>>" ++ check (runes_of_ascii "// c
packet i64_ {	char[] calculatedFrom , } packet
trueish  {@calculatedFrom(
""a\\"" ) o { i32 falsey@lengthOf( uint8x ),
} , , } // `tick` ""quote"" 'q'
options {// c
Z9_ = ' '//
}
")).
Eval vm_compute in ("<<<M668>>>" ++ check (runes_of_ascii "// c
packet i64_ {	char[] calculatedFrom , } packet
trueish  {@calculatedFrom(
""a\\"" ) o {  falsey@lengthOf( uint8x ),
} , } // `tick` ""quote"" 'q'
options {// c
Z9_ = ' '//
}
")).
Eval vm_compute in ("<<<M1750>>>" ++ check (runes_of_ascii "options {
    As = false;
}

root packet calculatedFrom {
    zchar[255] Z9_,
}

MetaData metadata {
    int8 chars,
    char[] charz `two words`,
    char[0] rootA,
}")).
Eval vm_compute in ("<<<M72>>>" ++ check (runes_of_ascii "packet
Header//	t
{ float32
repeatCount @lengthOf(
f32a
/// triple
// a // b
) , }options{ As	= true; } packet Pad
{ @rightPad
( ' ' ) leftPad
    , }
")).
Eval vm_compute in ("<<<M1647>>>" ++ check (runes_of_ascii "packet A {
    match k as n {
        [
            ""a"", 22, ""c c"", 4, ""e"",
            66, ""g"", 8, ""i""
        ] : B,
        2 : C,
    },
}")).
Eval vm_compute in ("<<<M1359>>>" ++ check (runes_of_ascii "options {
    LittleEndian = true;
}
packet B {
    u8 a,
    string s,
}
root packet P {
    u16 L @lengthOf(B),
    B,
    u8 t,
}
")).
Eval vm_compute in ("<<<M638>>>" ++ check (runes_of_ascii "MetaData
    // trailing space 
    matchKey
{ u64 chars // a // b
,char[] lengthOf `// not a comment`
    , //	t
@lengthOf(")).
Eval vm_compute in ("<<<M148>>>" ++ check (runes_of_ascii "packet i8i8 //x
{int16 // trailing space 
stringy // " ++ [128512]%N ++ runes_of_ascii " emoji
@calculatedFrom(
""// no comment"" ),
} packet
_x {
    }
")).
Eval vm_compute in ("<<<M656>>>" ++ check (runes_of_ascii "MetaData
    // trailing space 
    matchKey
<{ u64 chars // a // b
,char[] lengthOf `// not a comment`
    , //	t
}")).
Eval vm_compute in ("<<<M631>>>" ++ check (runes_of_ascii "MetaData
    // trailing space 
    matchKey
{ u64 chars // a // b
,char[] lengthOf `// not a comment`
     //	t
}")).
Eval vm_compute in ("<<<M1637>>>" ++ check (runes_of_ascii "// c
	  packet Logon {@tag( 42 
)@rightPad 
( 
' ' )	@leftPad ( 
)repeat
trueish

    {
	string T
,
}

, }

")).
Eval vm_compute in ("<<<M4>>>" ++ check (runes_of_ascii "packet // a // b
tag {
    char[ 7]
body
@calculatedFrom( ""a	b"")
// trailing space 
// trailing space 
,
}")).
Eval vm_compute in ("<<<M1365>>>" ++ check (runes_of_ascii "options {
    LittleEndian = true;
}
root packet P {
    u16 a,
    u32 Sum @calculatedFrom(""CRC32""),
}
")).
Eval vm_compute in ("<<<M1276>>>" ++ check (runes_of_ascii "packet calculatedFrom { @tag( 4294967296 ) u msg_type , char[ 3 ]
// c
crc @lengthOf( len ) `u8 x,` , }")).
Eval vm_compute in ("<<<M1491>>>" ++ check (runes_of_ascii "packet o {
    @tag(42)
    // c
    repeat x {
        char[0123456789] i64_,
    },
}

options {
}")).
Eval vm_compute in ("<<<M1173>>>" ++ check (runes_of_ascii "packet Logon { @tag( 42 ) @rightPad ( ' ' ) @leftPad ( ) repeat trueish { string T , } , }
// c
")).
Eval vm_compute in ("<<<M1154>>>" ++ check (runes_of_ascii "packet Logon { @tag( 42 ) @rightPad ( ' ' ) @leftPad ( ) // c
repeat trueish { string T , } , }")).
Eval vm_compute in ("<<<M890>>>" ++ check (runes_of_ascii "packet A {
  match k as n {
    [1, 22, 007, 4, 5, 66, 7, 8, 9, 10, 11] : B,
    2 : C
  },
}")).
Eval vm_compute in ("<<<M1597>>>" ++ check (runes_of_ascii "
root 
packet

SimpleMessage{
	uint16	MsgType
`" ++ [28040; 24687; 31867; 22411]%N ++ runes_of_ascii "` ,string
JsonBody `Json" ++ [23383; 31526; 20018; 28040; 24687; 20307]%N ++ runes_of_ascii "`	,

}")).
Eval vm_compute in ("<<<M1335>>>" ++ check (runes_of_ascii "options {
    LittleEndian = true;
}
root packet P {
    repeat char cs,
    u8 x,
}
")).
Eval vm_compute in ("<<<M847>>>" ++ check (runes_of_ascii "packet A {
  match k as n {
    [1, 22, ""c c"", 4, 5, ""f"", 7] : B
    2 : C
  },
}")).
Eval vm_compute in ("<<<M1237>>>" ++ check (runes_of_ascii "packet o { @tag( 42 ) repeat x { char[ 0123456789 ] i64_ , }
// c
, } options { }")).
Eval vm_compute in ("<<<M971>>>" ++ check (runes_of_ascii "packet A {
    u32 crc @calculatedFrom(""\
""),
    @calculatedFrom(""\
"") u8 y,
}")).
Eval vm_compute in ("<<<M2005>>>" ++ check (runes_of_ascii "root packet P {
    u16 a,
    u32 Sum @calculatedFrom(""CR\
        C32""),
}")).
Eval vm_compute in ("<<<M1795>>>" ++ check (runes_of_ascii "packet A {
    B b `
    x`,
    B `
    x`,
    repeat B bs `
    x`,
}")).
Eval vm_compute in ("<<<M1319>>>" ++ check (runes_of_ascii "MetaData _x { zchar[ 4294967296 ] // c
lengthOf `// not a comment` , }")).
Eval vm_compute in ("<<<M923>>>" ++ check (runes_of_ascii "packet A {
    B b `a
b`,
    B `a
b`,
    repeat B bs `a
b`,
}")).
Eval vm_compute in ("<<<M824>>>" ++ check (runes_of_ascii "packet A { Inner { match k as n { [1,22,007,4,5] : B, }, }, }")).
Eval vm_compute in ("<<<M1087>>>" ++ check (runes_of_ascii "packet A { @tag(1) // a
 @leftPad('0') // b
 char[4] x, }")).
Eval vm_compute in ("<<<M1332>>>" ++ check (runes_of_ascii "root packet P {
    repeat char cs,
    u8 x,
}
")).
Eval vm_compute in ("<<<M1120>>>" ++ check (runes_of_ascii "MetaData zchar { zchar[ 3 ] Pad , } // c
")).
Eval vm_compute in ("<<<M970>>>" ++ check (runes_of_ascii "options {
    a = ""\
"";
    b = ""\
""
}")).
Eval vm_compute in ("<<<M1517>>>" ++ check (runes_of_ascii "packet A {
    @tag(1)
    u8 x,
}")).
Eval vm_compute in ("<<<M78>>>" ++ check (runes_of_ascii "options { zchar=
    false ; }")).
Eval vm_compute in ("<<<M1584>>>" ++ check (runes_of_ascii "options {
    u8x = 3
}
// c")).
Eval vm_compute in ("<<<M1185>>>" ++ check (runes_of_ascii "options // c
{ u8x = 3 }")).
Eval vm_compute in ("<<<M1063>>>" ++ check (runes_of_ascii "packet A {
}// a// b")).
Eval vm_compute in ("<<<M991>>>" ++ check (runes_of_ascii "// c" ++ [133]%N ++ runes_of_ascii "
packet A {
}")).
Eval vm_compute in ("<<<M743>>>" ++ check (runes_of_ascii ", , `u8 x,` u32 (")).
Eval vm_compute in ("<<<M290>>>" ++ check (runes_of_ascii "options{  }
")).
Eval vm_compute in ("<<<M989>>>" ++ check (runes_of_ascii "// c" ++ [133]%N)).
