From FP Require Import Lexer Parser ShowPT Digest Formatter.
From Coq Require Import String List NArith.
Import ListNotations.
Open Scope string_scope.
Set Printing Width 100000000.
Set Printing Depth 100000000.
Definition show_fres (r : fres) : string :=
  match r with
  | FOk s => "OK:" ++ sh_escaped s ""
  | FErr s => "ERR:" ++ sh_escaped s ""
  | FPanic p => "PANIC:" ++ p
  end.
Definition check (rs : list rune) : string := digest (show_fres (format_res rs)).
Definition full (rs : list rune) : string := show_fres (format_res rs).
Eval vm_compute in ("<<<M8>>>" ++ check (runes_of_ascii "MetaData string_{
} packet
    Packet
// c
// c
{
    // @lengthOf(
    zchar[ 65535 ]	metadata  ,} MetaData  body { u
    packetx ,
char[] roots `" ++ [233]%N ++ runes_of_ascii "`,
i32 Header , uint32
    packetx /// triple
,	} packet Foo  { @rightPad ()
match crc
    as u128{ // c
""it's"":	As , 0
    :x_y_z , """"
:
msg_type } // @lengthOf(
, match pack
as	x_y_z {255: msg_type , } , i8 A , int8 BodyLength
@lengthOf( tag ) , @calculatedFrom( ""CRC32""
) match int as Header {
4294967296	: x_y_z ,
    // @lengthOf(
    }	, match
chars	as // a // b
calculatedFrom {  [0 ,
0
, // c
1 , 0123456789 , 00 // c
, ""a\""b""	,// `tick` ""quote"" 'q'
4294967296 ]:
stringy
    ,""`tick`"" : T }, @tag( 0 )@tag(
    1 )
@lengthOf(u8x ) u8x {  body
    , repeat// trailing space 
calculatedFrom x_y_z `two words` ,  } , match  falsey
as leftPad {	007	:  A, [""" ++ [28040; 24687]%N ++ runes_of_ascii """ ] : tag ,
1:
    //
    Pad ,}
    , // c
float64
repeatCount , @tag(10 ) match stringy
    as
Logon {7:
Pad, }	, }
    packet Packet {
@calculatedFrom( ""\n"" ) @calculatedFrom( ""`tick`"" ) matchKey
, @lengthOf( zchar )
roots	{repeat i16 Z9_, match
    repeatCount as
stringy { [ ""x y""
    ]:packetx	, [""" ++ [128512]%N ++ runes_of_ascii """ , ""x y""	, ""\n"" ] : crc , },}
// `tick` ""quote"" 'q'
//x
, // packet A { u8 x, }
match // trailing space 
tag as
a1 // " ++ [128512]%N ++ runes_of_ascii " emoji
{ ""abc"": packetx 1
: u8x 1 : body
007 : leftPad
0123456789
    :Header} ,
i16 x_y_z
    ,@calculatedFrom( ""{,}""
    )o `it's` , string_@calculatedFrom( ""it's"" ) `crlf
line` , match i8i8 as lengthOf
    { [ 1 , ""a\\"" ,
    42 ,""""  ,
""a\\"" ]
    // " ++ [128512]%N ++ runes_of_ascii " emoji
    : o , 10
    :
Foo //x
[7 ]:// trailing space 
lengthOf , } ,repeat
    A { repeat T { char[
    007
    //x
    ] i64_ @lengthOf( Packet
    // a // b
    ) ,
    match T as repeatCount // " ++ [27880; 37322]%N ++ runes_of_ascii "
{  ""x y"" :
As
,
    } , repeat metadata, msg_type
{
float64//
float , i8 o`u8 x,` // " ++ [27880; 37322]%N ++ runes_of_ascii "
,char[
0 ]	A @calculatedFrom(
""1""
    )
    `two words` //	t
, i8 body
    @lengthOf( Packet), } ,//
} ,rootA{
f32a
@lengthOf( pack
    ), }, repeat char[] u , }
, }
")).
Eval vm_compute in ("<<<M1006>>>" ++ check (runes_of_ascii "root packet len
    { @lengthOf(
// " ++ [128512]%N ++ runes_of_ascii " emoji
//	t
A ) repeat u64 packetx
,@calculatedFrom( ""a	b"" ) repeat charz { BodyLength calculatedFrom,
    leftPad // " ++ [128512]%N ++ runes_of_ascii " emoji
`it's` ,
int32 // `tick` ""quote"" 'q'
msg_type// " ++ [27880; 37322]%N ++ runes_of_ascii "
, float64 i64_ , } ,
    // c
    string
    MetaDataX
@lengthOf(roots )
, @lengthOf( len )
@lengthOf( Logon )
// " ++ [128512]%N ++ runes_of_ascii " emoji
// @lengthOf(
calculatedFrom @calculatedFrom( ""// no comment"" ) , zchar[3
// a // b
//	t
] MetaDataX@calculatedFrom( ""it's""
    ) `a\`
,@leftPad//
('0' )match//
Foo as
As { [ ""{,}"" , 255
] : metadata , ""{,}"":
Header,
    // trailing space 
    [""\n"" ] : stringy , ""a	b"" : x ,} // `tick` ""quote"" 'q'
, @tag( 0123456789
    // packet A { u8 x, }
    ) Foo  {	char[ 0 ]// @lengthOf(
rootA
, },
    // packet A { u8 x, }
    i64_
leftPad
`a\` ,string A , match BodyLength as float  {
7 : MetaDataX , 007:
    int,  }
,
    } MetaData
    crc{ u8 o `crlf
line` ,	} // " ++ [128512]%N ++ runes_of_ascii " emoji
packet crc
{repeat
    uint32 Foo`a\` , /// triple
a1 ,
@rightPad (' '
    )repeat roots
    ,
@calculatedFrom(
    """ ++ [233]%N ++ runes_of_ascii "t" ++ [233]%N ++ runes_of_ascii """ )  @rightPad ( ) BodyLength ,  repeat x_y_z ``,@rightPad ( ) repeat string pack  `
` , @calculatedFrom( """ ++ [128512]%N ++ runes_of_ascii """ )
    int64 Foo//x
,
char[ 65535 ] Foo // trailing space 
@lengthOf( BodyLength )
, @lengthOf(charz) //
trueish // trailing space 
charz
, } packet msg_type
    {u32
Foo `line1
line2` , T
{
pack ,  char[]
    int , zchar[ 1 ]
    _x @lengthOf( Pad) `it's` , }  ,
msg_type ,
    falsey lengthOf ,
    char[
    4294967296 ]
string_
@lengthOf(Pad) , @calculatedFrom( ""\n"" ) //
o @lengthOf( options1	) , }
    // c
    packet u	{
}
")).
Eval vm_compute in ("<<<M25>>>" ++ check (runes_of_ascii "root
    packet u128{pack @lengthOf(MetaDataX)	`say ""hi""` ,repeat lengthOf {
    int8 o
    `crlf
line` ,
    } // " ++ [27880; 37322]%N ++ runes_of_ascii "
, @lengthOf( tag
    ) char[
    007
    ] chars @lengthOf(MetaDataX ) , u
    @calculatedFrom( ""\n"" )// `tick` ""quote"" 'q'
, @lengthOf(  Z9_
    ) u32 A
@lengthOf( charz ) ,u16 float@lengthOf(
    As ) ,A u128
// packet A { u8 x, }
// packet A { u8 x, }
`a\` /// triple
, x_y_z@lengthOf(stringy  )
`a\` ,
}
    root packet x_y_z
    {@lengthOf( crc	)  i64 pack // " ++ [27880; 37322]%N ++ runes_of_ascii "
@lengthOf(
    float ) `say ""hi""`
, }MetaData  uint8x{ }
    root packet  trueish {  zchar[ 4294967296  ] float@lengthOf( matchKey
    )/// triple
,@lengthOf( o
    ) repeat float rootA
    , @tag(  7	) int64 // " ++ [128512]%N ++ runes_of_ascii " emoji
falsey@lengthOf( options1 ) ,Logon// @lengthOf(
{ tag
@lengthOf(a1 ) , asx `// not a comment` , float32 zchar
    ,Pad @calculatedFrom( ""`tick`"" )// @lengthOf(
,
    } , // trailing space 
@lengthOf( int
    ) repeat // a // b
rootA// trailing space 
u128 ,
    repeat char[] leftPad , int8 _x // a // b
,
    Packet `` ,
    // " ++ [27880; 37322]%N ++ runes_of_ascii "
    match
len	as uint8x { ""a	b""
:
lengthOf
,""\" ++ [233]%N ++ runes_of_ascii """ :pack
[ // a // b
""x y""  ,""packet""
, """ ++ [128512]%N ++ runes_of_ascii """
    // " ++ [27880; 37322]%N ++ runes_of_ascii "
    ,	""\" ++ [233]%N ++ runes_of_ascii """ , 255 , ""{,}""
    ]:
lengthOf
    , [ ""abc"", 00  ,
    ""a\\"" , ""// no comment""
, 00 , 007, 0 , ""packet""]: Packet  }
    // " ++ [27880; 37322]%N ++ runes_of_ascii "
    , @leftPad()
    u i64_ ,
}
packet trueish { }
")).
Eval vm_compute in ("<<<M4255>>>" ++ check (runes_of_ascii "root packet As {
    @calculatedFrom(""{,}"")
    // packet A { u8 x, }
    // @lengthOf(
    Header {
        repeat uint8 uint8x `// not a comment`,
    },
    @tag(3)
    repeat i64 i64_ `it's`,
    @lengthOf(i8i8)
    repeat i64 metadata,
    repeat i8 chars `a\`,
    repeat zchar[4294967296] x_y_z,
    @leftPad('0')
    char[42] options1,
    repeat o,
}

root packet float {
}

packet Packet {
    uint8x roots,
    zchar[0123456789] msg_type `a\`,
    @calculatedFrom(""" ++ [233]%N ++ runes_of_ascii "t" ++ [233]%N ++ runes_of_ascii """)
    //
    // trailing space 
    repeat Packet {
        repeat int64 T,
        repeat zchar[1] falsey `it's`,
        match leftPad as f32a {
            // " ++ [128512]%N ++ runes_of_ascii " emoji
            ""a\""b"" : MetaDataX,
            [65535] : rootA,
        },
    },
    @tag(007)
    repeat char[4294967296] Z9_,
    string Packet @calculatedFrom(""CRC32"") `u8 x,`,
}

root packet x {
    pack tag ``,// `tick` ""quote"" 'q'
}

packet Z9_ {
    char[] BodyLength,
    zchar @lengthOf(x) `" ++ [28040; 24687; 31867; 22411]%N ++ runes_of_ascii "`,
    uint8 float,
    i64 u8x,
    @lengthOf(leftPad)
    //
    int @lengthOf(lengthOf),
    zchar {
        zchar[0] Z9_,
    },
    float `crlf
    line`,
    repeat Z9_ {
        repeat options1,
        i32 As,
        string stringy @lengthOf(leftPad) `" ++ [28040; 24687; 31867; 22411]%N ++ runes_of_ascii "`,
    },
    char[10] x,
    int,
}// c")).
Eval vm_compute in ("<<<M3920>>>" ++ check (runes_of_ascii "options {
    asx = true;
    matchKey = ' ';
    Z9_ = int8
    BodyLength = char[]
}

MetaData calculatedFrom {
    float32 tag,
    char[] Header,
    float64 charz,
    falsey Z9_,
    string A,
    char[65535] leftPad,
}

packet BodyLength {
    i16 Foo,
    @tag(65535)
    @lengthOf(lengthOf)
    @tag(007)
    x @calculatedFrom(""packet"") `u8 x,`,
    Logon @calculatedFrom(""1"") `two words`,
}

MetaData options1 {
}

packet Packet {
    pack,
    repeat char[] o,
    @lengthOf(uint8x)
    string_ @calculatedFrom(""a\""b""),
    @tag(0)
    u16 repeatCount `
        `,
    string Packet,
    @tag(0123456789)
    match x as zchar {
        42 : msg_type,
        [3, ""{,}""] : u,
        //
        4294967296 : repeatCount,
        [
            ""a\\"", ""`tick`"", ""// no comment"", 3, """",
            ""a\\""
        ] : i64_,
        ""`tick`"" : zchar,
        [""// no comment""] : MetaDataX,
    },
    Foo @lengthOf(A),
    char[65535] Pad `it's`,
    match matchKey as x {
        [
            """ ++ [128512]%N ++ runes_of_ascii """, ""\" ++ [233]%N ++ runes_of_ascii """, 0123456789, ""CRC32"", ""`tick`"",
            ""a\""b"", ""a	b""
        ] : stringy,
    },
    // " ++ [128512]%N ++ runes_of_ascii " emoji
    //	t
    repeat uint16 Logon,
}")).
Eval vm_compute in ("<<<M922>>>" ++ check (runes_of_ascii "root packet o {	@leftPad
// " ++ [128512]%N ++ runes_of_ascii " emoji
//x
( '0' ) u16 Pad , }  packet string_ { match o as
    // c
    chars{ [ 3 , """ ++ [128512]%N ++ runes_of_ascii """ // trailing space 
] : _x  , }
,
char[]
    rootA @lengthOf( f32a ) `it's` , @leftPad (
// " ++ [128512]%N ++ runes_of_ascii " emoji
// a // b
) // packet A { u8 x, }
repeat metadata//x
,@calculatedFrom(	""it's""
// trailing space 
// `tick` ""quote"" 'q'
)zchar[
    // trailing space 
    3 ]i8i8 @lengthOf(	options1)`line1
line2`
    , }
root packet	metadata{
    match MetaDataX as falsey{ 42 :
Header ""1"":Z9_
    , } ,
    As { uint8
// `tick` ""quote"" 'q'
// a // b
pack
    `" ++ [28040; 24687; 31867; 22411]%N ++ runes_of_ascii "` ,	char[
    // " ++ [27880; 37322]%N ++ runes_of_ascii "
    4294967296
]stringy@calculatedFrom(
""`tick`""
)
    ,  i16//x
rootA @lengthOf(  Foo )`u8 x,` //
,
//
//	t
}, @leftPad (
    ) match charz
as f32a { [ ""\n"" , 0123456789] :	x_y_z, """ ++ [28040; 24687]%N ++ runes_of_ascii """
    //
    : string_ }, @lengthOf( Packet )  match
Packet as
asx { [ // a // b
42
,
""\" ++ [233]%N ++ runes_of_ascii """ ] : lengthOf  ,65535:falsey } , body leftPad
    ,
char[
0 ]
o @calculatedFrom(
    // " ++ [27880; 37322]%N ++ runes_of_ascii "
    ""a\""b""
) `it's` , @rightPad ( ' ')char[ 65535 /// triple
] a1`crlf
line` , T @lengthOf(	pack
)
    `" ++ [28040; 24687; 31867; 22411]%N ++ runes_of_ascii "` ,
}
")).
Eval vm_compute in ("<<<M365>>>" ++ check (runes_of_ascii "
packet
    trueish
    // @lengthOf(
    {
    char[ 7
]chars @calculatedFrom( """ ++ [128512]%N ++ runes_of_ascii """) , char[] uint8x@calculatedFrom( ""`tick`"" )// c
`
` ,  int16 // a // b
metadata @calculatedFrom( """ ++ [128512]%N ++ runes_of_ascii """// @lengthOf(
) `doc`, pack @lengthOf( stringy	) , u8
float @lengthOf( leftPad ) , @lengthOf(
chars ) f32a
    trueish, repeat
    zchar[ //	t
4294967296 ]
u  , @leftPad(
    //
    ' ' // trailing space 
)@lengthOf( leftPad ) @tag(
    7 ) repeat string	u128
,
    }
    packet Header { u64 leftPad
,	@lengthOf( u128	) repeat uint32
T
,@tag( 4294967296
)repeat uint32
    x_y_z ``
    , T	,
@tag( 1 ) zchar[7]	Packet@lengthOf( f32a  )
// @lengthOf(
//x
, // trailing space 
float32
    lengthOf
, // packet A { u8 x, }
i32 // " ++ [128512]%N ++ runes_of_ascii " emoji
calculatedFrom `crlf
line` ,@tag(0123456789	)
@tag( 1// trailing space 
)
//
// `tick` ""quote"" 'q'
@calculatedFrom( """ ++ [128512]%N ++ runes_of_ascii """ ) float32
lengthOf@calculatedFrom( ""\n"" )
    `" ++ [233]%N ++ runes_of_ascii "`
, zchar[ 007 ] zchar @calculatedFrom(
// a // b
// packet A { u8 x, }
""abc""	) `" ++ [28040; 24687; 31867; 22411]%N ++ runes_of_ascii "` /// triple
,
int32
    roots
,
}
")).
Eval vm_compute in ("<<<M3723>>>" ++ check (runes_of_ascii "packet Packet {
    u128 @calculatedFrom(""// no comment""),
    zchar[255] repeatCount @lengthOf(Z9_) `doc`,
    repeat matchKey {
        char[10] msg_type @calculatedFrom(""a\\""),
        zchar[255] o @calculatedFrom(""CRC32""),
        repeat zchar[00] Header `it's`,
        repeat asx {
            BodyLength @lengthOf(matchKey) `{ , }`,
            match metadata as a1 {
                255 : calculatedFrom,
                7 : u8x,
                // @lengthOf(
            },
            char[007] float,
            match charz as u8x {
                ""a\""b"" : Logon,
            },
        },
    },
    repeat Foo `crlf
        line`,
    @tag(10)
    rootA charz,
    int @lengthOf(a1),
}

MetaData lengthOf {
    zchar[0] uint8x,
}

packet len {
}// @lengthOf(

packet u {
    match f32a as BodyLength {
        0 : float,
    },
}

MetaData leftPad {
    u32 f32a `doc`,
    zchar[255] i64_,
    char[] zchar,
    // `tick` ""quote"" 'q'
    T i64_ `" ++ [233]%N ++ runes_of_ascii "`,
}")).
Eval vm_compute in ("<<<M4198>>>" ++ check (runes_of_ascii "packet Packet {
    match a1 as calculatedFrom {
        // `tick` ""quote"" 'q'
        00 : falsey,
        """ ++ [233]%N ++ runes_of_ascii "t" ++ [233]%N ++ runes_of_ascii """ : string_,
        [00] : o,
        ""it's"" : u,
        //	t
        10 : BodyLength,
        ""1"" : BodyLength,
    },
}

root packet calculatedFrom {
    repeat uint64 int `line1
    line2`,
    string rootA ``,
    @lengthOf(i64_)
    leftPad @calculatedFrom(""\" ++ [233]%N ++ runes_of_ascii """) `line1
    line2`,
    uint8 x_y_z `" ++ [28040; 24687; 31867; 22411]%N ++ runes_of_ascii "`,
}

options {
}

MetaData crc {
    pack asx `" ++ [233]%N ++ runes_of_ascii "`,
}

packet rootA {
    @lengthOf(x_y_z)
    repeat T Pad,
    string len,
    match float as matchKey {
        ""a\""b"" : x,
        007 : calculatedFrom,
        255 : crc,
    },
    int32 float,
    @leftPad(' ')
    @lengthOf(stringy)
    @calculatedFrom(""`tick`"")
    repeat float {
        zchar[00] crc @calculatedFrom(""1"") `// not a comment`,
        //x
        string stringy `doc`,
    },
    i16 asx `doc`,
    // `tick` ""quote"" 'q'
}")).
Eval vm_compute in ("<<<M4367>>>" ++ check (runes_of_ascii "
root packet
	stringy
{
    repeat u16
falsey `
`
    ,

u16 
Pad

, @lengthOf(// packet A { u8 x, }
  x )
	Logon
{ repeat

    zchar[ 65535]

Packet`it's`

,},}

packet	len
{
@leftPad
	( )
	repeat 
metadata

{ match	asx
    as  asx{ ""a\\""	:
	f32a  ,}
,
}  // " ++ [128512]%N ++ runes_of_ascii " emoji
    ,	uint16	falsey, body	,

repeat
	// a // b
	string lengthOf `say ""hi""`
	,}

    packet
    i64_
	{

x, @lengthOf(i64_
)@tag(
    7  // a // b

  ) 
      // `tick` ""quote"" 'q'
		@calculatedFrom(
""""	)

    repeat zchar[ 1 ] i8i8,
i64
	i64_

    @calculatedFrom(
""\" ++ [233]%N ++ runes_of_ascii """

    ) `line1
line2` ,
float//x
	`tab	here`,

    @calculatedFrom( """ ++ [128512]%N ++ runes_of_ascii """
	)
	char[]
Logon// @lengthOf(

	``  ,

match leftPad	as	stringy
    {0 : 
float
	,
""\n""  : 	 // trailing space 
Pad
,}  , 
i8i8
    @lengthOf( roots )	,
}  root packet  i8i8
{
tag

@lengthOf(T
    ) 
`" ++ [28040; 24687; 31867; 22411]%N ++ runes_of_ascii "`// " ++ [128512]%N ++ runes_of_ascii " emoji
  ,
	} ")).
Eval vm_compute in ("<<<M17>>>" ++ check (runes_of_ascii "  root
//
// `tick` ""quote"" 'q'
packet lengthOf {repeat char[]asx`// not a comment` // trailing space 
,	lengthOf{ string options1	, char[] A @calculatedFrom( ""\n"" )
    ,	int16 trueish , },repeat  int16	stringy  , string Logon `{ , }`
, @lengthOf(	metadata )
match trueish	as
    Foo { 00
:
T , 7
: Z9_ , } ,
string_ a1
`" ++ [28040; 24687; 31867; 22411]%N ++ runes_of_ascii "`// packet A { u8 x, }
, } packet zchar { @calculatedFrom(
    ""x y"" //x
) repeatCount`
`, match
    //
    stringy as u {255 // `tick` ""quote"" 'q'
:charz } , zchar[ 0123456789]
    // a // b
    Z9_
@lengthOf(
    crc )
`it's` , @leftPad
    ( '\x00' )zchar[
    0 ]rootA @calculatedFrom( ""CRC32"" ) , @lengthOf( leftPad )
    // packet A { u8 x, }
    Foo @calculatedFrom(
""{,}"" ) ,
uint32 Foo
`// not a comment` , f32 float , repeat matchKey ,
Logon @lengthOf(
    rootA
) `" ++ [28040; 24687; 31867; 22411]%N ++ runes_of_ascii "` ,
    }
")).
Eval vm_compute in ("<<<M1025>>>" ++ check (runes_of_ascii "  packet f32a {
    @leftPad
(/// triple
)
i32 repeatCount
@calculatedFrom(
    ""`tick`""	) `two words`
,	repeat
i32
int
    //x
    ,
char[ 00 ] Header
    , repeat
    zchar[ 10 ]	a1
    ,string_ @calculatedFrom( ""// no comment""
    ) , @leftPad
    ( // `tick` ""quote"" 'q'
)
// trailing space 
// c
@tag(00	) @lengthOf( // packet A { u8 x, }
string_
)
repeat
    zchar[ 3]
    x_y_z , repeat
uint16 rootA`line1
line2`, u8 roots @lengthOf( tag ) ,T@lengthOf(	A) `// not a comment`	,// a // b
} MetaData
    rootA//	t
{
pack
    calculatedFrom , trueish packetx `` , Packet
msg_type `it's` //x
,	u64 repeatCount
, uint8
Z9_
    `" ++ [28040; 24687; 31867; 22411]%N ++ runes_of_ascii "` , } options { chars  = u8 falsey
=
'\x00' MetaDataX
=
    char[] ; repeatCount =char[]
} MetaData string_
{ // @lengthOf(
string chars , } 	 ")).
Eval vm_compute in ("<<<M678>>>" ++ check (runes_of_ascii "packet
    msg_type {  @rightPad
( '\x00')	calculatedFrom
chars,
} packet
// " ++ [128512]%N ++ runes_of_ascii " emoji
// " ++ [27880; 37322]%N ++ runes_of_ascii "
string_ { }
MetaData o{ zchar[ 65535
] a1
, } root
packet Foo {	f32a{ // " ++ [128512]%N ++ runes_of_ascii " emoji
match len
as
Packet { [ 3
    ] : body ,
7: o  [ 00 ,
    0 ,""x y"" // trailing space 
,
    // trailing space 
    42 ]: u , """ ++ [28040; 24687]%N ++ runes_of_ascii """
: Pad , }, i64
A, string u8x, match stringy as As {65535 : i8i8 // " ++ [27880; 37322]%N ++ runes_of_ascii "
, //x
""CRC32"":u8x [ ""a\""b""
    ,// @lengthOf(
7 , ""\n""
    , ""{,}"" , 0
,
// `tick` ""quote"" 'q'
// a // b
42, ""a\""b"" ]
: MetaDataX // trailing space 
,[ ""abc""] :
    falsey
, // @lengthOf(
[ ""`tick`"" ]
: calculatedFrom //
, }
,
    } //x
, } // " ++ [128512]%N ++ runes_of_ascii " emoji
options
{body = ""CRC32""
    ; body =
""a\""b""	u128
= true ;
    BodyLength  = // " ++ [128512]%N ++ runes_of_ascii " emoji
10;
leftPad=
false ;}

")).
Eval vm_compute in ("<<<M3539>>>" ++ check (runes_of_ascii "options {
    StringPrefixLenType = u16;
    ArrayPrefixLenType = u32;
    FixedStringPadFromLeft = false;
    FixedStringPadChar = '0';
}
packet Logout {
    f64 f1,
    i16 Note,
    @rightPad('\x00') char[11] Flags,
}
packet Cancel {
    float64 msgKind,
}
packet Reject {
    InQty43 {
        float32 sym,
        char[10] Tail,
        uint8 venue,
        uint16 f1,
        char[9] Acct,
    },
}
packet Trade {
    char[] x,
    zchar[6] Note,
    repeat Reject,
}
root packet Order {
    Cancel,
    Logout,
    u64 Acct,
    u32 OrderId,
    match OrderId as Body {
        [127, 70] : Reject,
        177 : Trade,
        58 : Logout,
        75 : Cancel,
    },
    u32 Tail @calculatedFrom(""CR\
C32""),
}
")).
Eval vm_compute in ("<<<M942>>>" ++ check (runes_of_ascii "MetaData
    body
    {
i64 msg_type ,
// trailing space 
/// triple
} packet MetaDataX {	zchar[65535 ] As @lengthOf(
    matchKey ) `{ , }`,}packet Pad { match
//x
// c
chars as // @lengthOf(
matchKey
    //	t
    { 0123456789 :MetaDataX , 0123456789
    :
i8i8 ,[
"""",
    // packet A { u8 x, }
    1 ,  ""x y"" /// triple
, ""// no comment"" ,
3
,
//x
// c
""// no comment"" ,  ""a\""b"" ,
    65535 ]
    :  As ,
    //x
    [
255
, ""1"" , 0, ""packet""]
: float , ""{,}"" : stringy , ""`tick`"" :
    Logon,
} ,
    repeat
    //	t
    Z9_ _x , @leftPad('\x00' )
/// triple
// " ++ [27880; 37322]%N ++ runes_of_ascii "
uint8 charz`// not a comment`
, //x
@tag(// " ++ [27880; 37322]%N ++ runes_of_ascii "
0123456789
) @rightPad ( '\x00' )
@tag(
1 )	stringy	,
    }")).
Eval vm_compute in ("<<<M710>>>" ++ check (runes_of_ascii "packet
leftPad { char[
42  ]falsey , }
    options{ x_y_z
= ""a	b"" ; zchar= zchar[ 255]
    options1 = false ;
    BodyLength =
'0'
    ; i8i8 =char[] ; }packet crc
{
char[ 007 // `tick` ""quote"" 'q'
] stringy @calculatedFrom(""a\""b""
    )`say ""hi""`
, match  tag as matchKey{ [ """ ++ [128512]%N ++ runes_of_ascii """ ,
    3	,// " ++ [27880; 37322]%N ++ runes_of_ascii "
""" ++ [28040; 24687]%N ++ runes_of_ascii """] :
    trueish,} , uint32 i64_
    ,@rightPad (' '
) @calculatedFrom( ""{,}"" )	@calculatedFrom(
""a	b"" ) Foo tag `" ++ [233]%N ++ runes_of_ascii "`
    , repeat zchar[
    // " ++ [27880; 37322]%N ++ runes_of_ascii "
    0 ] Logon
`say ""hi""`
,i8i8
u8x ,zchar @calculatedFrom(
    ""\" ++ [233]%N ++ runes_of_ascii """ ),	} options {_x =
    false ;
    Foo =  ""abc"" o
    = uint32  ; f32a
= """ ++ [28040; 24687]%N ++ runes_of_ascii """
charz // " ++ [27880; 37322]%N ++ runes_of_ascii "
='\x00' ;
    } MetaData x_y_z
    {// c
}")).
Eval vm_compute in ("<<<M349>>>" ++ check (runes_of_ascii "root
packet packetx{ match x
as repeatCount // " ++ [128512]%N ++ runes_of_ascii " emoji
{ 65535 //x
: i8i8 10 :
x_y_z 42// @lengthOf(
: packetx 0123456789
:metadata[ ""\" ++ [233]%N ++ runes_of_ascii """]
    :
    x_y_z
,
""a\\""
:i8i8
, } , stringy { // c
stringy
    i64_ , repeat Header As
    `two words` ,
    } , repeat char[ 007// `tick` ""quote"" 'q'
] u8x
    `line1
line2` , @lengthOf( charz )
    // packet A { u8 x, }
    @leftPad (
'0' ) int16 BodyLength ,  repeat
float32 repeatCount	, match trueish as MetaDataX
    { ""a	b""
    // a // b
    :
    x	,	}
,char[ 0 ] matchKey @lengthOf( float ) , @lengthOf( i64_)@lengthOf( repeatCount
) // " ++ [27880; 37322]%N ++ runes_of_ascii "
@lengthOf(
float )f32 Z9_ , }")).
Eval vm_compute in ("<<<M1278>>>" ++ check (runes_of_ascii "MetaData
o
{
uint8 asx ,// " ++ [27880; 37322]%N ++ runes_of_ascii "
}
MetaData _x { A Z9_
`a\` , } packet string_
{ repeat
x_y_z f32a,
charz
//x
// " ++ [27880; 37322]%N ++ runes_of_ascii "
{ msg_type @lengthOf( A
)
    ,} ,
uint16
stringy, @calculatedFrom(
""" ++ [233]%N ++ runes_of_ascii "t" ++ [233]%N ++ runes_of_ascii """)	leftPad msg_type , @tag(
7 ) @calculatedFrom(
    //	t
    """ ++ [28040; 24687]%N ++ runes_of_ascii """)
    i64_ , repeat trueish
x	`doc`  ,uint16 metadata//	t
@lengthOf(
i8i8 )`tab	here` ,repeat tag Logon , repeat repeatCount metadata
`` // a // b
, // trailing space 
} packet roots
{
repeat x_y_z  {
    // `tick` ""quote"" 'q'
    char[4294967296] stringy`line1
line2`
,uint16
    body
    , }, @leftPad (' ')
    MetaDataX
stringy
,}
")).
Eval vm_compute in ("<<<M3802>>>" ++ check (runes_of_ascii "
// a // b
  MetaData crc  {
uint8x
len ,

string 
BodyLength , asx body 
      // packet A { u8 x, }
		`" ++ [233]%N ++ runes_of_ascii "`,  calculatedFrom i8i8	,}

packet
Header
	{ @tag(
    3 ) int64

    uint8x
,repeat 
lengthOf
	{

match 
x  as body
{
""" ++ [128512]%N ++ runes_of_ascii """  //	t
	  :trueish
	3 :  MetaDataX

    , [ ""it's""
,""""	] :
o
, ""CRC32"":
    i8i8	,
    }// trailing space 
    ,
} , i64
lengthOf
    `u8 x,`,} 
packet pack{ @rightPad  // trailing space 
	(
) @tag(

    255 )

repeat
string 
leftPad

`crlf
line` , 
}

    options {
}

    packet Packet {

lengthOf 
,

} ")).
Eval vm_compute in ("<<<M769>>>" ++ check (runes_of_ascii "packet// packet A { u8 x, }
MetaDataX{ zchar[ 00
] // `tick` ""quote"" 'q'
_x `" ++ [233]%N ++ runes_of_ascii "`	, @lengthOf(
T )  uint32
    asx @lengthOf(
x ) ,
float32 tag @lengthOf( Z9_), match uint8x
as options1 {
""" ++ [28040; 24687]%N ++ runes_of_ascii """ // " ++ [27880; 37322]%N ++ runes_of_ascii "
:
    len , 4294967296 :
As , [  0
, """ ++ [233]%N ++ runes_of_ascii "t" ++ [233]%N ++ runes_of_ascii """  ,00
,""" ++ [233]%N ++ runes_of_ascii "t" ++ [233]%N ++ runes_of_ascii """ , ""\n""  ,
0 , 0123456789
    //
    ] :
int } , zchar[
007 ]
    rootA @lengthOf( asx ) ,char[] Packet@calculatedFrom( ""it's"" ) ,
@lengthOf(
x )
    @tag( 3 )
@tag(7 )
    repeat zchar[//
007 ]
    As// " ++ [27880; 37322]%N ++ runes_of_ascii "
`" ++ [28040; 24687; 31867; 22411]%N ++ runes_of_ascii "` , @lengthOf(
packetx  ) Pad
    // @lengthOf(
    ,}
")).
Eval vm_compute in ("<<<M3469>>>" ++ check (runes_of_ascii "packet A // c1
{ // c2
u8 // c3
a
    // c4
,
    // c5
}
    // c6
packet
    // c7
B { // c9
u16 // c10
b , // c12
}
    // c13
root
    // c14
packet // c15
P { u8 // c18
K1 // c19a
  // c19b
, // c20a
  // c20b
u8 K2 , // c23a
  // c23b
match K1
    // c25
as
    // c26
M1 // c27
{ 1 // c29
: // c30
A // c31
, // c32a
  // c32b
} // c33
, // c34
match // c35
K2 // c36a
  // c36b
as
    // c37
M2 // c38
{ // c39
1 : // c41a
  // c41b
B // c42a
  // c42b
, // c43
} // c44a
  // c44b
, } ")).
Eval vm_compute in ("<<<M899>>>" ++ check (runes_of_ascii "packet u8x
    { @lengthOf( trueish )
// trailing space 
/// triple
@lengthOf( matchKey ) repeat
Packet{ packetx @calculatedFrom(
    ""a\""b"" )  `` ,
}  ,@calculatedFrom(
""1"" ) f32
o
    ,char[ // a // b
0123456789 // `tick` ""quote"" 'q'
] crc
,char[]charz
    ,rootA
A
    ,repeat char[]  _x,
@calculatedFrom(""{,}""
)
leftPad , char[ 65535 ] rootA// c
,//	t
@lengthOf( charz // c
)@lengthOf(u8x
) @lengthOf(float
    )
repeat zchar[// trailing space 
0123456789 ] u8x ,	}
")).
Eval vm_compute in ("<<<M898>>>" ++ check (runes_of_ascii "
packet Packet { int16 f32a,	match //	t
string_ as u8x { """ ++ [128512]%N ++ runes_of_ascii """ :
msg_type
, [
""{,}""
    ,4294967296 ]
    // " ++ [27880; 37322]%N ++ runes_of_ascii "
    :
metadata	0123456789 : matchKey
, 3 :
    zchar,  }// `tick` ""quote"" 'q'
,uint16
As @calculatedFrom( ""a	b"")  ,
    @rightPad ( ) repeat zchar[3 ]u128 ,
} root packet
    u8x { // `tick` ""quote"" 'q'
o
    , @calculatedFrom(  ""{,}""
    ) f32 x_y_z@lengthOf( A ) //
,@lengthOf( uint8x  )// `tick` ""quote"" 'q'
repeat
zchar[ 7 ]  uint8x , }")).
Eval vm_compute in ("<<<M598>>>" ++ check (runes_of_ascii "// a // b
MetaData	options1 { //
Z9_
    calculatedFrom , } root packet Z9_{ int falsey `tab	here` ,	@lengthOf( a1
) @tag(
    007
    // trailing space 
    ) match trueish
as string_ {""a\""b""
:	Pad , ""`tick`"":a1
, [ ""// no comment"" ,7,0 , // " ++ [128512]%N ++ runes_of_ascii " emoji
0 , ""a\""b""
, 10
    , 4294967296 , 007 ] : packetx , [ 00 , // trailing space 
""a\\""] :// c
a1 ""CRC32""
:
    //
    string_,
    3
    :uint8x,} , } packet //
x_y_z{
char//
Logon , }
")).
Eval vm_compute in ("<<<M770>>>" ++ check (runes_of_ascii "
packet
T //x
{ matchKey Header
,
//
/// triple
zchar[
3 ]
a1,
// packet A { u8 x, }
// trailing space 
} MetaData
matchKey
{
    // " ++ [27880; 37322]%N ++ runes_of_ascii "
    f64 f32a`two words`
, zchar[
    255
    ] Logon
// `tick` ""quote"" 'q'
// packet A { u8 x, }
`{ , }` , zchar[ // `tick` ""quote"" 'q'
1 ] calculatedFrom , msg_type
// `tick` ""quote"" 'q'
// a // b
MetaDataX
`{ , }` //x
, a1 lengthOf `say ""hi""` ,
    }root
    packet pack{x	int , }
")).
Eval vm_compute in ("<<<M762>>>" ++ check (runes_of_ascii "options {} packet u {u @lengthOf( // @lengthOf(
crc ),  @tag( 65535
) T @calculatedFrom(
""// no comment"" ) , // packet A { u8 x, }
pack MetaDataX
,	repeat float , @lengthOf( chars
)//	t
char[] charz	,
    match // packet A { u8 x, }
T	as Z9_{//
7 :
    asx }
,zchar[ 65535 ] a1 @lengthOf( T	)
    ,	match A as tag
{ ""x y"" :
repeatCount 0
:
u8x ,
[ ""a	b"" ] :matchKey ,
    42: repeatCount , } , }
")).
Eval vm_compute in ("<<<M3796>>>" ++ check (runes_of_ascii "  // trailing space 
	packet
	i64_ {  uint8  body  ,
@calculatedFrom(
	""\n"" 
)	repeat

    BodyLength { repeat 
        // trailing space 
    // packet A { u8 x, }
crc
len `" ++ [233]%N ++ runes_of_ascii "` ,As
    ,	repeat
    char[]

Header, } 
, match T

as 
T

    {

    3:repeatCount
	, } ,	match  tag
as 
pack
{

""a	b""	:	//
	string_ ,

} ,zchar[

    10] a1  ``	,
    @tag( 
3 //	t
)

string int
, }")).
Eval vm_compute in ("<<<M4082>>>" ++ check (runes_of_ascii "MetaData o {
    u32 string_,
    char[] a1 `crlf
    line`,
    int8 options1,
}

packet Foo {
    @lengthOf(matchKey)
    f32 f32a,
    @tag(0)
    // @lengthOf(
    match MetaDataX as trueish {
        //	t
        255 : T,
        4294967296 : pack,
        3 : falsey,
        ""1"" : uint8x,
        7 : u128,
        4294967296 : MetaDataX,
    },
    i32 roots,
}")).
Eval vm_compute in ("<<<M4102>>>" ++ check (runes_of_ascii "options  {
	roots
=

3 leftPad
	    /// triple
	// c
=

string

;

    packetx
=	false 
;
zchar

=
	true

options1

    =
    false ;
    } MetaData
string_  {

    i32 x_y_z,
    char[
    4294967296

    ] zchar  `two words` ,  // c
  	char[
	42

]
metadata,}
packet
_x
{
	int8 rootA 
`doc`,

} options
    {  lengthOf =	""// no comment"" } ")).
Eval vm_compute in ("<<<M541>>>" ++ check (runes_of_ascii "//x
packet Header{// " ++ [27880; 37322]%N ++ runes_of_ascii "
i64 trueish ,	string lengthOf ,match u128 as charz {// packet A { u8 x, }
""" ++ [128512]%N ++ runes_of_ascii """	: body
    } ,trueish `` // packet A { u8 x, }
,
    tag
int
, Foo { //
match asx  as options1  {65535 :
x_y_z // `tick` ""quote"" 'q'
,} ,	zchar trueish, } ,string Foo
    ,@leftPad
(
)
As @calculatedFrom(""" ++ [28040; 24687]%N ++ runes_of_ascii """ )
,
}
MetaData u8x {} 	 ")).
Eval vm_compute in ("<<<M3991>>>" ++ check (runes_of_ascii "options
{}  packet 
repeatCount {
	Foo// " ++ [128512]%N ++ runes_of_ascii " emoji
  T

    , _x
	`// not a comment`

    ,@calculatedFrom( //	t
  ""x y""  )repeat	float32
uint8x  `doc`,
    char
msg_type
@lengthOf( 	 // " ++ [27880; 37322]%N ++ runes_of_ascii "
    stringy) ,
    @lengthOf( int

    )

    repeat
float
`two words`

    ,
} MetaData u8x

    // " ++ [27880; 37322]%N ++ runes_of_ascii "
  	// a // b
{  }")).
Eval vm_compute in ("<<<M141>>>" ++ check (runes_of_ascii "packet u  { @calculatedFrom( ""CRC32"" ) repeat zchar[ 1] x_y_z`crlf
line` ,
@leftPad
    ( // `tick` ""quote"" 'q'
)
zchar[ // `tick` ""quote"" 'q'
255
]crc// c
, } root
    packet MetaDataX{@tag( 255 )
rootA//x
, }packet f32a {@lengthOf( packetx	) uint8 Z9_ @calculatedFrom(
""CRC32"" )
    /// triple
    ,
    }
")).
Eval vm_compute in ("<<<M212>>>" ++ check (runes_of_ascii "/// triple
packet A
{@calculatedFrom(""a\""b"" ) Logon`u8 x,` , metadata BodyLength
, } // trailing space 
packet	As{ @rightPad (
) repeat
uint8
chars , i64
/// triple
// a // b
zchar `say ""hi""` ,@rightPad
( '\x00' )
@leftPad (
'0')@lengthOf( int
) char[
    65535  ] rootA , } root packet trueish
{}
")).
Eval vm_compute in ("<<<M265>>>" ++ check (runes_of_ascii "MetaData x { char[]crc , char[7 ]float, u64 //	t
f32a	,}
    packet
int
    {Pad/// triple
@lengthOf(Pad )
`{ , }`, }
    MetaData
/// triple
//
T {
A
i8i8`it's` ,
u8x options1 , roots zchar // `tick` ""quote"" 'q'
,	int16 u8x , char[] a1
`say ""hi""`, char
//	t
/// triple
Pad ,
    } // a // b")).
Eval vm_compute in ("<<<M1575>>>" ++ check (runes_of_ascii "root packet Foo // " ++ [128512]%N ++ runes_of_ascii " emoji
{ } options {
    // a // b
    tag // `tick` ""quote"" 'q'
= //	t
""""
    ; u8x = zchar[0  ] }
MetaData
    int {zchar[ 10]
lengthOf	`` , i64 u8x`// not a comment` ,MetaDataX pack// `tick` ""quote"" 'q'
`crlf
line`
, , Logon charz `crlf
line`
    ,
    // a // b
    }
")).
Eval vm_compute in ("<<<M1441>>>" ++ check (runes_of_ascii "root packet Foo // " ++ [128512]%N ++ runes_of_ascii " emoji
{ } options tag
    // a // b
    { // `tick` ""quote"" 'q'
= //	t
""""
    ; u8x = zchar[0  ] }
MetaData
    int {zchar[ 10]
lengthOf	`` , i64 u8x`// not a comment` ,MetaDataX pack// `tick` ""quote"" 'q'
`crlf
line`
, Logon charz `crlf
line`
    ,
    // a // b
    }
")).
Eval vm_compute in ("<<<M1601>>>" ++ check (runes_of_ascii "root packet Foo // " ++ [128512]%N ++ runes_of_ascii " emoji
{ } options {
    // a // b
    tag // `tick` ""quote"" 'q'
= //	t
""""
    ; u8x = zchar[0  ] }
MetaData
    int {zchar[ 10]
lengthOf	`` , i64 u8x`// not a comment` ,MetaDataX pack// `tick` ""quote"" 'q'
`crlf
line`
, Logon charz `crlf
line`
    ,
    // a // b
    =
")).
Eval vm_compute in ("<<<M1529>>>" ++ check (runes_of_ascii "root packet Foo // " ++ [128512]%N ++ runes_of_ascii " emoji
{ } options {
    // a // b
    tag // `tick` ""quote"" 'q'
= //	t
""""
    ; u8x = zchar[0  ] }
MetaData
    int {zchar[ 10]
lengthOf	 , i64 u8x`// not a comment` ,MetaDataX pack// `tick` ""quote"" 'q'
`crlf
line`
, Logon charz `crlf
line`
    ,
    // a // b
    }
")).
Eval vm_compute in ("<<<M625>>>" ++ check (runes_of_ascii "
options { u128 = u32 ;Z9_
=""`tick`"" trueish= ""`tick`"" ;
    // @lengthOf(
    tag
    = '0'
} options
    { metadata = ""a	b"" ;
packetx =//	t
'\x00' // " ++ [128512]%N ++ runes_of_ascii " emoji
} options {charz
    = 65535}
options {
    msg_type // trailing space 
=zchar[
10 ] ;
    asx	= false
    tag
= char[] ;
}")).
Eval vm_compute in ("<<<M4175>>>" ++ check (runes_of_ascii "  options{ 
LittleEndian 
= true
	;
	ArrayPrefixLenType
    =
	u64;  FixedStringPadFromLeft
=	false
    ;}packet Quote {
    }
root

packet Order

    { i64  Side2 ,Quote	,u32 Px
	,	match Px  as Body{[ 119 ,

147  ]
: Quote
,
	}, u16
Flags @calculatedFrom(
""CRC32"" ), }

")).
Eval vm_compute in ("<<<M3489>>>" ++ check (runes_of_ascii "packet MDSnapshotZZ {
    u8 a,
}
packet OrderACK {
    u16 b,
}
packet HTTPServerInfo {
    string s,
}
root packet FIXMsg {
    u8 KType,
    MDSnapshotZZ,
    repeat OrderACK,
    match KType as Body {
        1 : HTTPServerInfo,
        2 : OrderACK,
    },
}
")).
Eval vm_compute in ("<<<M3923>>>" ++ check (runes_of_ascii "packet u {
    @calculatedFrom(""CRC32"")
    repeat zchar[1] x_y_z `crlf
    line`,
    @leftPad()
    zchar[255] crc,
}

root packet MetaDataX {
    @tag(255)
    rootA,
}

packet f32a {
    @lengthOf(packetx)
    uint8 Z9_ @calculatedFrom(""CRC32""),
}")).
Eval vm_compute in ("<<<M3556>>>" ++ check (runes_of_ascii "

  packet
Sub{ u8
	a
    , @calculatedFrom( ""CRC16""
    )

i16
SubSum , }	root	packet

Frame{ u16
	MsgType  ,
u16

    BodyLen@lengthOf(
    Body
    ) 
,Sub
Body
,	string
note

,
@calculatedFrom(
""CRC16""	)i16 
Checksum
,
u8 
tail	, } ")).
Eval vm_compute in ("<<<M1320>>>" ++ check (runes_of_ascii "root
packet stringy { match uint8x as roots
    {
[ ""a\""b""] :rootA
, 42
:
    int
    , ""a\\"" : Logon,
[ 7 ] : o , 65535
: x	}
// `tick` ""quote"" 'q'
// a // b
,
@tag( // " ++ [128512]%N ++ runes_of_ascii " emoji
65535 ) string options1 @lengthOf( Logon
    ) ,
    }")).
Eval vm_compute in ("<<<M240>>>" ++ check (runes_of_ascii "packet T {}  MetaData i8i8{
    calculatedFrom	u128
`u8 x,` , string_
a1	`" ++ [233]%N ++ runes_of_ascii "`
    ,	Foo
    int ,
    zchar[007 ]chars , pack x , crc repeatCount , }packet options1
{ @tag(1 )char[1]
f32a ,_x@lengthOf(_x ) ``, } // " ++ [128512]%N ++ runes_of_ascii " emoji")).
Eval vm_compute in ("<<<M890>>>" ++ check (runes_of_ascii "MetaData pack
{
    f64 msg_type ,
    zchar[4294967296
    ] Z9_
, repeatCount chars `two words`, // " ++ [27880; 37322]%N ++ runes_of_ascii "
} packet options1 {}
packet options1// " ++ [128512]%N ++ runes_of_ascii " emoji
{ u128
// trailing space 
/// triple
A
    ,  repeatCount tag , }
")).
Eval vm_compute in ("<<<M2336>>>" ++ check (runes_of_ascii "MetaData Packet { }packet	asx  { @lengthOf( asx) falsey`crlf
line`
,
    }
    packet x	{uint32// @lengthOf(
rootA	,u32 options1 `say ""hi""` , @tag( 7 7
    )// packet A { u8 x, }
msg_type @lengthOf(
stringy	)	, }

")).
Eval vm_compute in ("<<<M2237>>>" ++ check (runes_of_ascii "MetaData Packet { }packet	{  asx @lengthOf( asx) falsey`crlf
line`
,
    }
    packet x	{uint32// @lengthOf(
rootA	,u32 options1 `say ""hi""` , @tag( 7
    )// packet A { u8 x, }
msg_type @lengthOf(
stringy	)	, }

")).
Eval vm_compute in ("<<<M2233>>>" ++ check (runes_of_ascii "MetaData Packet { }@tag(	asx  { @lengthOf( asx) falsey`crlf
line`
,
    }
    packet x	{uint32// @lengthOf(
rootA	,u32 options1 `say ""hi""` , @tag( 7
    )// packet A { u8 x, }
msg_type @lengthOf(
stringy	)	, }

")).
Eval vm_compute in ("<<<M2358>>>" ++ check (runes_of_ascii "MetaData Packet { }packet	asx  { @lengthOf( asx) falsey`crlf
line`
,
    }
    packet x	{uint32// @lengthOf(
rootA	,u32 options1 `say ""hi""` , @tag( 7
    )// packet A { u8 x, }
msg_type @lengthOf(
u64	)	, }

")).
Eval vm_compute in ("<<<M2364>>>" ++ check (runes_of_ascii "MetaData Packet { }packet	asx  { @lengthOf( asx) falsey`crlf
line`
,
    }
    packet x	{uint32// @lengthOf(
rootA	,u32 options1 `say ""hi""` , @tag( 7
    )// packet A { u8 x, }
msg_type @lengthOf(
stringy")).
Eval vm_compute in ("<<<M936>>>" ++ check (runes_of_ascii "packet As {	_x  @lengthOf( f32a)
    `tab	here`
    , match chars as chars
// " ++ [27880; 37322]%N ++ runes_of_ascii "
//	t
{ """ ++ [233]%N ++ runes_of_ascii "t" ++ [233]%N ++ runes_of_ascii """ :stringy , ""1"" :
options1
    , 255: repeatCount, ""CRC32""
:float , },
Logon int `` , uint8x metadata , }
")).
Eval vm_compute in ("<<<M3975>>>" ++ check (runes_of_ascii "packet As {
}

MetaData Logon {
    i16 falsey `a\`,
}

MetaData T {
    f64 uint8x `u8 x,`,// " ++ [128512]%N ++ runes_of_ascii " emoji
    char[00] T,
    char[0] Pad `crlf
    line`,
    char[] f32a,
    char[] asx,
}//	t")).
Eval vm_compute in ("<<<M3498>>>" ++ check (runes_of_ascii "root packet Frame {
    u8 K,
    Logon first,
    match K as Body {
        1 : Logon,
        2 : Logout,
    },
}
packet Logon {
    string user,
}
packet Logout {
    u16 reason,
}
")).
Eval vm_compute in ("<<<M4512>>>" ++ check (runes_of_ascii "packet A {
    match k as n {
        ""\
        "" : B,
        [""\
        "", 1] : C,
        [
            1, 2, 3, 4, 5,
            ""\
            ""
        ] : D,
    },
}")).
Eval vm_compute in ("<<<M4406>>>" ++ check (runes_of_ascii "root packet BodyLength {
    lengthOf {
        char[42] Foo ``,
        u64 Foo @calculatedFrom(""x y""),
    },
    rootA @lengthOf(Packet),
}

options {
    Pad = 00
}")).
Eval vm_compute in ("<<<M386>>>" ++ check (runes_of_ascii "packet float
{  zchar[ 65535
]
string_
`doc` , @rightPad (
    '\x00' )
    @calculatedFrom(
    """ ++ [128512]%N ++ runes_of_ascii """ ) i16
    repeatCount , zchar[
    65535
]_x `crlf
line`
,}")).
Eval vm_compute in ("<<<M4335>>>" ++ check (runes_of_ascii "options {
    // trailing space 
    A = ' ';
    calculatedFrom = ""a\""b"";
    msg_type = char[4294967296];
    //
    rootA = '\x00'
    msg_type = false
}")).
Eval vm_compute in ("<<<M1528>>>" ++ check (runes_of_ascii "root packet Foo // " ++ [128512]%N ++ runes_of_ascii " emoji
{ } options {
    // a // b
    tag // `tick` ""quote"" 'q'
= //	t
""""
    ; u8x = zchar[0  ] }
MetaData
    int {zchar[ 10]")).
Eval vm_compute in ("<<<M623>>>" ++ check (runes_of_ascii "packet uint8x
    // c
    {
char[
    7]stringy
    @calculatedFrom(""a\""b""  )
`tab	here` , // c
@calculatedFrom(
    ""abc""
) Logon roots ,}
")).
Eval vm_compute in ("<<<M660>>>" ++ check (runes_of_ascii "MetaData tag {
} MetaData
pack
{// packet A { u8 x, }
} options	{
MetaDataX='\x00' ;
leftPad
// `tick` ""quote"" 'q'
//x
= ""{,}"" ; }
// c
")).
Eval vm_compute in ("<<<M1634>>>" ++ check (runes_of_ascii "root packet /// triple
rootA rootA {	i32
MetaDataX@calculatedFrom( ""CRC32"" ) `line1
line2` , } MetaData BodyLength {
u8
rootA, } // c")).
Eval vm_compute in ("<<<M3919>>>" ++ check (runes_of_ascii "

  MetaData
crc {MetaDataX
    pack
    //x
  , 
    /// triple
	// c
} 
MetaData	repeatCount { 
        // " ++ [128512]%N ++ runes_of_ascii " emoji

//
    }

")).
Eval vm_compute in ("<<<M1503>>>" ++ check (runes_of_ascii "root packet Foo // " ++ [128512]%N ++ runes_of_ascii " emoji
{ } options {
    // a // b
    tag // `tick` ""quote"" 'q'
= //	t
""""
    ; u8x = zchar[0  ] }
MetaData")).
Eval vm_compute in ("<<<M3984>>>" ++ check (runes_of_ascii "

  packet rootA
    {

int
	@lengthOf(

Packet  // packet A { u8 x, }
  ) 	 // `tick` ""quote"" 'q'
	`// not a comment`
	,
}

")).
Eval vm_compute in ("<<<M368>>>" ++ check (runes_of_ascii "MetaData Header
    {
    f64 lengthOf,zchar[ 7 ] zchar
// `tick` ""quote"" 'q'
// `tick` ""quote"" 'q'
`doc` ,
len
x_y_z
, } 	 ")).
Eval vm_compute in ("<<<M1047>>>" ++ check (runes_of_ascii "options{
//	t
// " ++ [27880; 37322]%N ++ runes_of_ascii "
falsey
    // c
    =7 u128
    =""" ++ [233]%N ++ runes_of_ascii "t" ++ [233]%N ++ runes_of_ascii """ calculatedFrom
// c
// c
= ""// no comment"" // trailing space 
}")).
Eval vm_compute in ("<<<M1798>>>" ++ check (runes_of_ascii "packet
    Pad // a // b
{ options @calculatedFrom( ""a	b"") `u8 x,` ,
} options{ float// " ++ [128512]%N ++ runes_of_ascii " emoji
= f64 i64_
=//	t
00 }
")).
Eval vm_compute in ("<<<M4523>>>" ++ check (runes_of_ascii "
packet	calculatedFrom {
	@tag( 4294967296// c

)
	u

    msg_type ,
char[
3	]
    crc @lengthOf(len ) `u8 x,` , 
} ")).
Eval vm_compute in ("<<<M1802>>>" ++ check (runes_of_ascii "packet
    Pad // a // b
{ i8i8 ""a	b"" @calculatedFrom() `u8 x,` ,
} options{ float// " ++ [128512]%N ++ runes_of_ascii " emoji
= f64 i64_
=//	t
00 }
")).
Eval vm_compute in ("<<<M1870>>>" ++ check (runes_of_ascii "packet
    Pad // a // b
{ i8i8 @calculatedFrom( ""a	b"") `u8 x,` ,
} options{ float// " ++ [128512]%N ++ runes_of_ascii " emoji
= f64 i64_
=//	t
00 
")).
Eval vm_compute in ("<<<M3046>>>" ++ check (runes_of_ascii "packet A {
    u16 len @lengthOf(body) `tab
	x`,
    u32 crc @calculatedFrom(""CRC32"") `tab
	x`,
    string body,
}")).
Eval vm_compute in ("<<<M2979>>>" ++ check (runes_of_ascii "packet A {
  match k as n {
    [""a"", ""bb"", ""c c"", ""d"", ""e"", ""f"", ""g"", ""h"", ""i"", ""j"", ""k""] : B
    2 : C
  },
}")).
Eval vm_compute in ("<<<M2995>>>" ++ check (runes_of_ascii "packet A {
  match k as n {
    [""a"", 22, ""c c"", 4, ""e"", 66, ""g"", 8, ""i"", 10, ""k"", 12] : B,
    2 : C
  },
}")).
Eval vm_compute in ("<<<M4092>>>" ++ check (runes_of_ascii "
packet
	A  {

    Inner  {
match k  as n {
	[
1 
,	22	, 007	,
	4
	]
    : B

    ,
    }
	,
}
,}

")).
Eval vm_compute in ("<<<M3345>>>" ++ check (runes_of_ascii "packet calculatedFrom { @tag( // c
4294967296 ) u msg_type , char[ 3 ] crc @lengthOf( len ) `u8 x,` , }")).
Eval vm_compute in ("<<<M3853>>>" ++ check (runes_of_ascii "
packet 
o{
@tag(
42
    ) repeat// c
	  x 
{

    char[
0123456789 ] 
i64_ ,
}	,}
	options

{
}
")).
Eval vm_compute in ("<<<M3041>>>" ++ check (runes_of_ascii "packet A {
    Inner {
        u8 x `
x`,
        Deep {
            u8 y `
x`,
        },
    },
}")).
Eval vm_compute in ("<<<M1718>>>" ++ check (runes_of_ascii "root packet /// triple
rootA {	i32
MetaDataX@calculatedFrom( ""CRC32"" ) `line1
line2` , } MetaDa")).
Eval vm_compute in ("<<<M3221>>>" ++ check (runes_of_ascii "packet Logon {
// c
@tag( 42 ) @rightPad ( ' ' ) @leftPad ( ) repeat trueish { string T , } , }")).
Eval vm_compute in ("<<<M3253>>>" ++ check (runes_of_ascii "packet Logon { @tag( 42 ) @rightPad ( ' ' ) @leftPad ( ) repeat trueish { string T ,
// c
} , }")).
Eval vm_compute in ("<<<M4313>>>" ++ check (runes_of_ascii "
options  {
	packetx = ' ';
    } options	{
	falsey =  
      // " ++ [128512]%N ++ runes_of_ascii " emoji
// c

  00
;
    } ")).
Eval vm_compute in ("<<<M3759>>>" ++ check (runes_of_ascii "packet Pad {
    i8i8 @calculatedFrom(""a	b""),
}

options {
    float = f64
    i64_ = 00
}")).
Eval vm_compute in ("<<<M653>>>" ++ check (runes_of_ascii "packet lengthOf {} root packet
    i64_ { char[] BodyLength @lengthOf(Header )`doc` , }")).
Eval vm_compute in ("<<<M2014>>>" ++ check (runes_of_ascii "root
packet crc
    { f32a @calculatedFrom( """ ++ [233]%N ++ runes_of_ascii "t" ++ [233]%N ++ runes_of_ascii """ )
    `say ""hi""`, lengthOf i64 ,  }")).
Eval vm_compute in ("<<<M2003>>>" ++ check (runes_of_ascii "root
packet crc
    { f32a @calculatedFrom( """ ++ [233]%N ++ runes_of_ascii "t" ++ [233]%N ++ runes_of_ascii """ )
    `say ""hi""`lengthOf , `` ,  }")).
Eval vm_compute in ("<<<M908>>>" ++ check (runes_of_ascii "packet T {
    @lengthOf(As )
u8x `tab	here` ,	} MetaData f32a {
uint64 trueish , }")).
Eval vm_compute in ("<<<M2901>>>" ++ check (runes_of_ascii "packet A {
  match k as n {
    [""a"", ""bb"", ""c c"", ""d"", ""e""] : B
    2 : C
  },
}")).
Eval vm_compute in ("<<<M3320>>>" ++ check (runes_of_ascii "packet o { @tag( 42 ) repeat x { char[ 0123456789 ] i64_ , // c
} , } options { }")).
Eval vm_compute in ("<<<M125>>>" ++ check (runes_of_ascii "root
packet x_y_z{
// a // b
// packet A { u8 x, }
repeat falsey // " ++ [27880; 37322]%N ++ runes_of_ascii "
`" ++ [233]%N ++ runes_of_ascii "` , }")).
Eval vm_compute in ("<<<M4432>>>" ++ check (runes_of_ascii "  // `tick` ""quote"" 'q'
    packet
zchar { repeat
char[1 ] 
f32a
``

    ,	}")).
Eval vm_compute in ("<<<M332>>>" ++ check (runes_of_ascii "options
    { packetx =
    ' ' ;}options {	falsey =
// " ++ [128512]%N ++ runes_of_ascii " emoji
// c
00 ; }")).
Eval vm_compute in ("<<<M2177>>>" ++ check (runes_of_ascii "root
    // `tick` ""quote"" 'q'
    packet As { trueish Packet Packet , }
")).
Eval vm_compute in ("<<<M3849>>>" ++ check (runes_of_ascii "packet Inner
	{u8	a
,
} root

packet	P
	{
Inner ref_obj ,u8
x  ,  }

")).
Eval vm_compute in ("<<<M3412>>>" ++ check (runes_of_ascii "MetaData _x { zchar[ 4294967296 ] lengthOf `// not a comment` ,
// c
}")).
Eval vm_compute in ("<<<M2188>>>" ++ check (runes_of_ascii "root
    // `tick` ""quote"" 'q'
    packet As { trueish Packet , i32
")).
Eval vm_compute in ("<<<M918>>>" ++ check (runes_of_ascii "MetaData u128 {options1 // a // b
falsey ,
zchar[ 007 //
] x
, }
")).
Eval vm_compute in ("<<<M2166>>>" ++ check (runes_of_ascii "root
    // `tick` ""quote"" 'q'
    packet As  trueish Packet , }
")).
Eval vm_compute in ("<<<M3266>>>" ++ check (runes_of_ascii "// top
options // c0
{ // c1
u8x // c2
= // c3
3 // c4
} // c5
")).
Eval vm_compute in ("<<<M497>>>" ++ check (runes_of_ascii "packet T { u64
asx @calculatedFrom( ""// no comment"" ) ,	} 	 ")).
Eval vm_compute in ("<<<M223>>>" ++ check (runes_of_ascii "options //	t
{  MetaDataX = // " ++ [128512]%N ++ runes_of_ascii " emoji
'0';  } /// triple")).
Eval vm_compute in ("<<<M3173>>>" ++ check (runes_of_ascii "packet A { @tag(1) // a
 @leftPad('0') // b
 char[4] x, }")).
Eval vm_compute in ("<<<M1912>>>" ++ check (runes_of_ascii "
packet	As { ""{,}""//x
@calculatedFrom(	)lengthOf , } 	 ")).
Eval vm_compute in ("<<<M1235>>>" ++ check (runes_of_ascii "root packet Pad { zchar[7 ]
    float // a // b
, }
")).
Eval vm_compute in ("<<<M2406>>>" ++ check (runes_of_ascii "MetaData A
{
i64
options	, } // `tick` ""quote"" 'q'")).
Eval vm_compute in ("<<<M4517>>>" ++ check (runes_of_ascii "
MetaData zchar  // c
	{  zchar[ 3 
] 
Pad,	}
")).
Eval vm_compute in ("<<<M1925>>>" ++ check (runes_of_ascii "
packet	As { @calculatedFrom(//x
""{,}""	) , } 	 ")).
Eval vm_compute in ("<<<M2414>>>" ++ check (runes_of_ascii "MetaData A
{
i64
a" ++ [769]%N ++ runes_of_ascii "b	, } // `tick` ""quote"" 'q'")).
Eval vm_compute in ("<<<M1761>>>" ++ check (runes_of_ascii "options { }options {   // `tick` ""quote"" 'q'")).
Eval vm_compute in ("<<<M355>>>" ++ check (runes_of_ascii "root
    packet repeatCount {	A	,
    } 	 ")).
Eval vm_compute in ("<<<M3151>>>" ++ check (runes_of_ascii "packet A {
    u8 x,    // c    u8 y,
}")).
Eval vm_compute in ("<<<M2781>>>" ++ check (runes_of_ascii "} char[] uint64 @calculatedFrom( ""a	b"" :")).
Eval vm_compute in ("<<<M2141>>>" ++ check (runes_of_ascii "`MetaData x
{// " ++ [128512]%N ++ runes_of_ascii " emoji
i16 stringy , }")).
Eval vm_compute in ("<<<M2748>>>" ++ check (runes_of_ascii "rD(M@OeK<d_*ItH)vbF,tM+2&sK)bFfhRUIF6y")).
Eval vm_compute in ("<<<M3181>>>" ++ check (runes_of_ascii "packet A { u8 x,// a


// b

 u8 y, }")).
Eval vm_compute in ("<<<M1136>>>" ++ check (runes_of_ascii "root packet //	t
packetx { //x
}")).
Eval vm_compute in ("<<<M3007>>>" ++ check (runes_of_ascii "root packet A {
    u8 x `a
b`,
}")).
Eval vm_compute in ("<<<M2622>>>" ++ check (runes_of_ascii "packet A { @leftPad('0' u8 x, }")).
Eval vm_compute in ("<<<M3093>>>" ++ check (runes_of_ascii "packet A {
 u8 x `d" ++ [8202]%N ++ runes_of_ascii "`, // c" ++ [8202]%N ++ runes_of_ascii "
}")).
Eval vm_compute in ("<<<M161>>>" ++ check (runes_of_ascii "packet u {A
    trueish , }
")).
Eval vm_compute in ("<<<M2596>>>" ++ check (runes_of_ascii "packet A { B { u8 x, } C, }")).
Eval vm_compute in ("<<<M2445>>>" ++ check (runes_of_ascii "int8 int16 int32 int64 int")).
Eval vm_compute in ("<<<M2745>>>" ++ check (runes_of_ascii "{ [ as uint64 @tag( char[")).
Eval vm_compute in ("<<<M3169>>>" ++ check (runes_of_ascii "packet A { // a
 u8 x, }")).
Eval vm_compute in ("<<<M2136>>>" ++ check (runes_of_ascii "MetaData x
{// " ++ [128512]%N ++ runes_of_ascii " emoji
")).
Eval vm_compute in ("<<<M2636>>>" ++ check (runes_of_ascii "root root packet A { }")).
Eval vm_compute in ("<<<M4299>>>" ++ check (runes_of_ascii "packet A {
    // a
}")).
Eval vm_compute in ("<<<M2571>>>" ++ check (runes_of_ascii "packet A { x `d`, }")).
Eval vm_compute in ("<<<M2080>>>" ++ check (runes_of_ascii "MetaData A { u64 p")).
Eval vm_compute in ("<<<M3112>>>" ++ check (runes_of_ascii "// c" ++ [8287]%N ++ runes_of_ascii "
packet A {
}")).
Eval vm_compute in ("<<<M2794>>>" ++ check (runes_of_ascii "?" ++ [65533]%N ++ runes_of_ascii "c" ++ [65533; 65533; 65533; 65533; 65533; 15; 65533; 65533]%N ++ runes_of_ascii "g" ++ [65533; 65533; 1439; 26]%N ++ runes_of_ascii "'")).
Eval vm_compute in ("<<<M2658>>>" ++ check (runes_of_ascii "options { = 1; }")).
Eval vm_compute in ("<<<M2631>>>" ++ check (runes_of_ascii "packet A { } 1")).
Eval vm_compute in ("<<<M545>>>" ++ check (runes_of_ascii "options
{}")).
Eval vm_compute in ("<<<M2486>>>" ++ check (runes_of_ascii "@lengthOf")).
Eval vm_compute in ("<<<M4306>>>" ++ check (runes_of_ascii "  // c
")).
Eval vm_compute in ("<<<M2431>>>" ++ check (runes_of_ascii "char1")).
Eval vm_compute in ("<<<M3120>>>" ++ check (runes_of_ascii "// c" ++ [12]%N)).
Eval vm_compute in ("<<<M3564>>>" ++ check (runes_of_ascii "// c")).
Eval vm_compute in ("<<<M2676>>>" ++ check (runes_of_ascii """s""")).
Eval vm_compute in ("<<<M2474>>>" ++ check (runes_of_ascii "'")).
