From FP Require Import Lexer Parser ShowPT Digest Formatter.
From Coq Require Import String List NArith.
Import ListNotations.
Open Scope string_scope.
Set Printing Width 100000000.
Set Printing Depth 100000000.
Definition show_fres (r : fres) : string :=
  match r with
  | FOk s => "OK:" ++ sh_escaped s ""
  | FErr s => "ERR:" ++ sh_escaped s ""
  | FPanic p => "PANIC:" ++ p
  end.
Definition check (rs : list rune) : string := digest (show_fres (format_res rs)).
Definition full (rs : list rune) : string := show_fres (format_res rs).
Eval vm_compute in ("<<<M968>>>" ++ check (runes_of_ascii "packet float  { repeat matchKey , char[] // " ++ [128512]%N ++ runes_of_ascii " emoji
repeatCount
`{ , }`
, char[	00] a1 , char[] roots`" ++ [28040; 24687; 31867; 22411]%N ++ runes_of_ascii "` ,@rightPad
    ( '0') repeatCount ,match
MetaDataX as tag { ""`tick`"":
tag , [	""it's"" ,42
] :asx
    // packet A { u8 x, }
    , ""a	b"" :As 65535 : calculatedFrom 007:
stringy , 007: Packet // " ++ [128512]%N ++ runes_of_ascii " emoji
,} ,char[// " ++ [27880; 37322]%N ++ runes_of_ascii "
0]//	t
i8i8
`a\`,
} root packet chars { @calculatedFrom( ""packet""
) // " ++ [27880; 37322]%N ++ runes_of_ascii "
i64_ string_ , match Pad // " ++ [128512]%N ++ runes_of_ascii " emoji
as MetaDataX {
    0123456789  :repeatCount ,	[
""" ++ [128512]%N ++ runes_of_ascii """] :a1  ,[ """ ++ [233]%N ++ runes_of_ascii "t" ++ [233]%N ++ runes_of_ascii """ ,
7
, //	t
""x y""	, 00	]
:
//
// a // b
int, } ,repeat
Foo`say ""hi""`,@lengthOf(	As
) u32 leftPad
    @lengthOf( zchar	)// a // b
,
    // " ++ [128512]%N ++ runes_of_ascii " emoji
    }// c
packet u128	{@calculatedFrom(
""`tick`""
    // packet A { u8 x, }
    ) float Z9_ ``
,string packetx ,
// @lengthOf(
// packet A { u8 x, }
@leftPad ( '\x00'
)
uint8
metadata , @leftPad
()
    uint32 a1 `two words` ,
@tag(
    0123456789
// packet A { u8 x, }
// packet A { u8 x, }
)  repeat zchar[ 42	] pack`two words` , repeat stringy
    `line1
line2`
    , uint8x `" ++ [233]%N ++ runes_of_ascii "`, falsey `say ""hi""` ,
} packet a1{ uint16
float , @lengthOf( string_)	char[ 0123456789 ] BodyLength @lengthOf( charz /// triple
)
    // `tick` ""quote"" 'q'
    `say ""hi""`, @rightPad	( '\x00'
)	Z9_ @lengthOf(zchar
)  , calculatedFrom @lengthOf(pack
)
`tab	here`
    ,
    @lengthOf( MetaDataX)@calculatedFrom( ""abc"" )
@calculatedFrom( ""a\\"" ) match
falsey //
as
body  {// " ++ [27880; 37322]%N ++ runes_of_ascii "
""a\""b"" : o //x
,255:uint8x , [ // `tick` ""quote"" 'q'
65535 ]: BodyLength } , /// triple
char[]
x_y_z
,// trailing space 
@tag(
// trailing space 
/// triple
0
)
int16	x `crlf
line`
,match Foo as zchar {""" ++ [233]%N ++ runes_of_ascii "t" ++ [233]%N ++ runes_of_ascii """	:
u128 , }, @lengthOf(	x_y_z) As @calculatedFrom(""packet""),repeat
Header{string_ `{ , }` , match	chars as
    uint8x {
""it's"" : lengthOf ,[ ""\n""  ,	3 , ""CRC32""
,// a // b
10
    // " ++ [27880; 37322]%N ++ runes_of_ascii "
    , """ ++ [28040; 24687]%N ++ runes_of_ascii """ ]
: falsey } ,
repeat char[] o
`
`
    ,
i32 len@calculatedFrom(""" ++ [233]%N ++ runes_of_ascii "t" ++ [233]%N ++ runes_of_ascii """ ) `" ++ [28040; 24687; 31867; 22411]%N ++ runes_of_ascii "` ,
    } // trailing space 
, // " ++ [27880; 37322]%N ++ runes_of_ascii "
}
")).
Eval vm_compute in ("<<<M4020>>>" ++ check (runes_of_ascii "
packet// " ++ [27880; 37322]%N ++ runes_of_ascii "
	o	//x
    {@tag(
	0

)match
    leftPad
	as  // @lengthOf(
    	metadata
	{
	1
:calculatedFrom

,
	7
:i64_  , ""it's""
: i64_ 0123456789
: repeatCount ,
    0 
	    // packet A { u8 x, }
	  :
	Foo }
,  lengthOf
{ A	`doc` 
, }
, char[
    3 ]

matchKey
`{ , }` ,
leftPad	// `tick` ""quote"" 'q'
{

    repeat 
	    // a // b
u8 
options1 
,
body@calculatedFrom( """ ++ [128512]%N ++ runes_of_ascii """
)	, 
zchar
	{  // `tick` ""quote"" 'q'
	u64 Logon @lengthOf(u8x

    ) ,  char[
    007 ]packetx	@lengthOf(

zchar

    )`
`

    ,
}
	,repeat 
metadata 
x  ,

    } , u32  repeatCount	,
@tag( 
    // c
10 ) 
@lengthOf(T
	)u16

repeatCount
`say ""hi""`, 	 /// triple
    repeat

u128 {
//
// packet A { u8 x, }
	zchar[
	4294967296
	]BodyLength
,	}
	, 
i32 
x
`doc`  , 
}
packet MetaDataX

    {// a // b
      @tag( 	 // c
  7)

repeat lengthOf
        // a // b
	//

,
}
    root packet
As 
{

    @lengthOf( 
lengthOf)  match 
_x	as

    T {

""packet"" :

string_ , 3
	: 	 // @lengthOf(
	BodyLength
, 
""" ++ [128512]%N ++ runes_of_ascii """// trailing space 
    :
    i64_ ,

    0
:lengthOf  // trailing space 

, 	 /// triple

7 :

Logon 
} ,Z9_	@calculatedFrom(
    ""\" ++ [233]%N ++ runes_of_ascii """ //	t
    ) ,float32 int
@lengthOf(msg_type)
`// not a comment`
    // packet A { u8 x, }
    	// `tick` ""quote"" 'q'
,

char[]

    A
@calculatedFrom(""\n""
)	,

@tag(
4294967296

) i8i8

{
uint32 
u8x , } ,zchar[
00
// c

// c
	]uint8x
, 
repeat
msg_type string_ ,repeat

zchar[ 007 	 //x
]

Pad  // " ++ [27880; 37322]%N ++ runes_of_ascii "
	`doc`  ,

    match	rootA

as
stringy  {	007 :
    leftPad ,

[
""" ++ [233]%N ++ runes_of_ascii "t" ++ [233]%N ++ runes_of_ascii """
    ,	7

    ]
:  x  }
, }")).
Eval vm_compute in ("<<<M4085>>>" ++ check (runes_of_ascii "options {
    msg_type = ""{,}"";
    asx = true;
    trueish = ""// no comment""
    Pad = ""\n"";
    metadata = uint64;
}

root packet int {
    @tag(0123456789)
    @tag(00)
    @calculatedFrom(""packet"")
    zchar[4294967296] leftPad `line1
        line2`,
    @calculatedFrom(""x y"")
    falsey @calculatedFrom(""x y""),
    repeat uint8 Packet,
    @tag(4294967296)
    u8x,
    repeat char[42] Logon `it's`,
    int16 falsey @calculatedFrom(""it's""),
    msg_type @lengthOf(leftPad) `" ++ [28040; 24687; 31867; 22411]%N ++ runes_of_ascii "`,
    match string_ as charz {
        //
        ""it's"" : Foo,
        0123456789 : calculatedFrom,
        ""// no comment"" : T,
        [
            ""// no comment"", 65535, ""a\\"", ""abc"", 007,
            ""// no comment"", 4294967296
        ] : Z9_,
    },
    float64 charz @lengthOf(Z9_) `a\`,
}

packet a1 {
}

packet T {
}

packet i64_ {
    repeat zchar[65535] Logon,
    @calculatedFrom(""CRC32"")
    repeat string stringy `crlf
        line`,
    repeat char[007] leftPad,
    @calculatedFrom(""abc"")
    string calculatedFrom `two words`,
    len {
        // `tick` ""quote"" 'q'
        float64 lengthOf `" ++ [28040; 24687; 31867; 22411]%N ++ runes_of_ascii "`,
    },
    A @calculatedFrom(""abc"") `line1
        line2`,
    zchar[10] charz `" ++ [28040; 24687; 31867; 22411]%N ++ runes_of_ascii "`,
    repeat Packet,
    // packet A { u8 x, }
    string As @lengthOf(roots),
    @tag(7)
    Packet chars,
    //x
    // trailing space 
}")).
Eval vm_compute in ("<<<M531>>>" ++ check (runes_of_ascii "root packet
    uint8x// packet A { u8 x, }
{ match trueish
    as body
{
[
    007, ""packet"" ] : metadata
42 : metadata , }
    , }
    MetaData roots{ i64 MetaDataX`a\` // a // b
,
    uint8	float,char[42
]
    u8x , i64 a1 // @lengthOf(
,
o Pad`line1
line2` ,	}
options
{ Foo
= true //	t
;
f32a
    =""a	b"" ; falsey =
true ; } packet //x
float { @calculatedFrom(	""packet"" )repeat
    len , lengthOf
BodyLength ,@lengthOf(charz ) // @lengthOf(
@calculatedFrom( ""{,}"") A
,@tag( 0123456789
//
// @lengthOf(
)
crc,
/// triple
//x
zchar[  1] leftPad`it's` , // @lengthOf(
@lengthOf( metadata ) //x
@lengthOf(matchKey)// trailing space 
@lengthOf( As
    )int16 packetx `// not a comment` //x
, A // " ++ [128512]%N ++ runes_of_ascii " emoji
string_ `{ , }` ,} root
    packet
    roots { @tag(
4294967296)
@lengthOf(
chars  ) repeat tag
//
// packet A { u8 x, }
`// not a comment` ,//	t
@leftPad
    (//	t
' ' )uint16 falsey `say ""hi""` , @tag( 10
    ) leftPad	{
    int8	len `a\`, // a // b
f32a i8i8 , // " ++ [128512]%N ++ runes_of_ascii " emoji
u16 i8i8 ,  uint8
options1
, }
    ,
    @lengthOf( falsey )@tag(
255
) // @lengthOf(
@leftPad (
' ' // " ++ [27880; 37322]%N ++ runes_of_ascii "
)
    repeat float
Foo , zchar[ 3 ]  rootA `tab	here`, @lengthOf(
    uint8x )
packetx Z9_,
    @tag(7) // " ++ [27880; 37322]%N ++ runes_of_ascii "
repeat char[// " ++ [128512]%N ++ runes_of_ascii " emoji
10]calculatedFrom
, }")).
Eval vm_compute in ("<<<M3895>>>" ++ check (runes_of_ascii "packet repeatCount {
    match falsey as string_ {
        65535 : crc,
        [007, 65535, 65535] : i8i8,
    },
    @lengthOf(float)
    T {
        // " ++ [128512]%N ++ runes_of_ascii " emoji
        char[] Packet @lengthOf(trueish),
    },
    uint64 Logon `doc`,
    zchar[0] trueish @calculatedFrom(""// no comment""),
    @lengthOf(a1)
    repeat rootA i64_ `// not a comment`,
    u64 u,
}

packet i64_ {
    //
    @rightPad(' ')
    f64 float,// `tick` ""quote"" 'q'
    match rootA as i8i8 {
        [""\n"", 007, """ ++ [128512]%N ++ runes_of_ascii """, """ ++ [128512]%N ++ runes_of_ascii """] : lengthOf,
    },
    i16 Packet,
    int16 lengthOf @calculatedFrom(""" ++ [28040; 24687]%N ++ runes_of_ascii """) `line1
        line2`,
    @calculatedFrom("""")
    @calculatedFrom(""it's"")
    zchar[007] As,
    char[] i8i8 @lengthOf(zchar),
    u16 packetx @lengthOf(falsey),
    repeat len {
        // c
        u32 lengthOf,
    },
    match MetaDataX as u128 {
        1 : u,
        ""x y"" : u,
        255 : i64_,
        ""x y"" : falsey,
        [""1"", 1] : repeatCount,
        // packet A { u8 x, }
    },
}

options {
    asx = uint8;
    matchKey = true
    i64_ = false
    Logon = char[];
    A = 00
}

packet Packet {
    // packet A { u8 x, }
    uint32 float `it's`,
}")).
Eval vm_compute in ("<<<M1115>>>" ++ check (runes_of_ascii "packet tag { zchar[
65535]
    T
, match
    i64_
    as chars { 007 :asx	,
    [ ""a\""b""
,  ""a\""b"" ,
    7 // a // b
,0,
    ""\" ++ [233]%N ++ runes_of_ascii """ , ""abc"", ""x y"" // trailing space 
, 0
] : u8x 7
    :// c
leftPad 7
    : body
    , ""`tick`""
:// `tick` ""quote"" 'q'
lengthOf ,} ,
@leftPad(
)
@rightPad(
)
repeat
    //
    i64_ charz
, repeat //	t
charz u8x ,  repeat float32 uint8x , } packet falsey { } packet // trailing space 
Z9_ { repeat u { int32 i8i8 , // " ++ [128512]%N ++ runes_of_ascii " emoji
repeat BodyLength { match string_ as charz{""\" ++ [233]%N ++ runes_of_ascii """
//
/// triple
:  As}, //x
i64_
    @calculatedFrom( ""packet"" ) ,} ,
    //x
    } ,asx {//x
char[4294967296]
    pack , // @lengthOf(
}, @rightPad ( '0'
)
falsey repeatCount
// c
// " ++ [27880; 37322]%N ++ runes_of_ascii "
,
    @tag(
    // packet A { u8 x, }
    0	)uint16 chars `" ++ [233]%N ++ runes_of_ascii "`
,
x@lengthOf( asx
/// triple
// a // b
) `line1
line2`, repeat options1
a1 ,
    @tag(
    // @lengthOf(
    42
/// triple
// packet A { u8 x, }
)	@leftPad
    ( '\x00')match T as x { [ ""a\\"" ] : falsey
} // `tick` ""quote"" 'q'
, x ,
trueish i8i8
,}
MetaData T
{ MetaDataX i8i8 `it's` ,
    } // `tick` ""quote"" 'q'")).
Eval vm_compute in ("<<<M4258>>>" ++ check (runes_of_ascii "// @lengthOf(
packet chars {
    repeat leftPad {
        i64_,/// triple
    },
    BodyLength {
        //	t
        char[1] _x `line1
        line2`,
    },
    @calculatedFrom(""" ++ [233]%N ++ runes_of_ascii "t" ++ [233]%N ++ runes_of_ascii """)
    repeat zchar body,
    char[65535] Foo,
    repeat zchar[7] repeatCount,
    @lengthOf(Logon)
    @calculatedFrom(""{,}"")
    //
    string float,
    u8x,
    uint8x @calculatedFrom(""packet""),
}//x

MetaData T {
    u16 zchar `tab	here`,
    float64 x,// packet A { u8 x, }
    i32 Packet ``,// `tick` ""quote"" 'q'
    zchar[255] crc,
    calculatedFrom u128,
    zchar[1] metadata `
    `,
}

packet uint8x {
    Header {
        uint16 metadata @lengthOf(MetaDataX) `line1
        line2`,
    },
    // " ++ [27880; 37322]%N ++ runes_of_ascii "
    // @lengthOf(
    metadata repeatCount,
    repeat x_y_z,
    chars A,
    packetx @calculatedFrom(""a\\"") ``,
    char[007] a1 @lengthOf(A) `" ++ [28040; 24687; 31867; 22411]%N ++ runes_of_ascii "`,/// triple
}

options {
    matchKey = float32;
}

packet f32a {
    @lengthOf(repeatCount)
    // @lengthOf(
    @tag(42)
    // `tick` ""quote"" 'q'
    float32 u128,
}")).
Eval vm_compute in ("<<<M3548>>>" ++ check (runes_of_ascii "options {
    StringPrefixLenType = u8;
    ArrayPrefixLenType = u32;
    FixedStringPadFromLeft = false;
    FixedStringPadChar = ' ';
}
packet Party {
    repeat i16 Qty,
    repeat string Tail,
    i8 OrderId,
    i8 msgKind,
}
packet Ack {
    Party,
    repeat InRef20 {
        Party,
        int8 tag7,
        char[5] OrderId,
        zchar[7] Tail,
        char[] count,
        InPrice45 {
            Party,
            char[1] Px,
        },
    },
    char[12] price,
    int8 sym,
}
packet Reject {
    repeat InPrice47 {
        Party,
    },
    zchar[4] x,
    repeat Ack,
    zchar[2] Ref,
    repeat Party,
}
packet Cancel {
    Reject,
    repeat string f1,
    uint16 OrderId,
    u8 Acct,
    int8 msgKind,
}
root packet Fill {
    u8 count,
    char[] tag7,
    zchar[7] Acct,
    u32 OrderId,
    u32 Note @lengthOf(Body),
    match OrderId as Body {
        106 : Cancel,
        196 : Reject,
        74 : Party,
        75 : Ack,
    },
}
")).
Eval vm_compute in ("<<<M3770>>>" ++ check (runes_of_ascii "root packet matchKey {
    match uint8x as x_y_z {
        1 : falsey,
    },
}

packet MetaDataX {
    /// triple
    float @calculatedFrom(""a\\"") `// not a comment`,
    repeat stringy {
        match repeatCount as a1 {
            [""// no comment""] : metadata,
            //	t
            [4294967296, """ ++ [233]%N ++ runes_of_ascii "t" ++ [233]%N ++ runes_of_ascii """] : len,
            [
                ""a\\"", 4294967296, ""packet"", """ ++ [233]%N ++ runes_of_ascii "t" ++ [233]%N ++ runes_of_ascii """, 10,
                0
            ] : charz,
            00 : i64_,
            [7] : tag,
            00 : falsey,
        },
    },
    roots @calculatedFrom(""1"") `
        `,
    msg_type @lengthOf(stringy) `a\`,
    int MetaDataX `doc`,
    @calculatedFrom(""" ++ [128512]%N ++ runes_of_ascii """)
    u64 int `say ""hi""`,
}

packet rootA {
    asx @lengthOf(Foo) `a\`,
    @leftPad(' ')
    string Z9_,
    crc @lengthOf(leftPad) `doc`,
    repeat calculatedFrom u128 `{ , }`,//x
    @calculatedFrom(""packet"")
    @calculatedFrom(""\" ++ [233]%N ++ runes_of_ascii """)
    i16 roots `doc`,
}")).
Eval vm_compute in ("<<<M1381>>>" ++ check (runes_of_ascii "packet
chars{ @lengthOf(
zchar )@tag( 42) match	roots as As {
255 : x
    ,
    0123456789
    : charz
, 3	:
T}
// @lengthOf(
// @lengthOf(
, match body as Logon
    {
    ""packet"" : metadata , },  match
As
as i64_ { 7
:metadata ,00: i64_ , [ ""a\""b"", ""\n"" , """ ++ [28040; 24687]%N ++ runes_of_ascii """
    ] // a // b
:// c
falsey  ""abc"" : i8i8 , 7	: u128  , } , //
BodyLength  @lengthOf(//x
stringy )
`// not a comment`, repeat f64
    // trailing space 
    BodyLength,
int64  Z9_
    ,
    @calculatedFrom( ""// no comment""
    // `tick` ""quote"" 'q'
    ) @leftPad( '0' )	@tag(	3 )repeat char[	007 ]	chars, f64 x_y_z , stringy
`u8 x,` ,@lengthOf( // a // b
i8i8) // trailing space 
roots rootA
, } options { matchKey =
float32
    ;Z9_ = u8 f32a= true } root packet u128 { @rightPad (
'\x00' ) Pad falsey`// not a comment` , //x
int32 Z9_ @lengthOf( falsey ) ,
//
// @lengthOf(
}
")).
Eval vm_compute in ("<<<M688>>>" ++ check (runes_of_ascii "packet
Header
{
    @lengthOf( o)
zchar[
255
    ] pack	@lengthOf( len) `a\`
, @calculatedFrom( """ ++ [128512]%N ++ runes_of_ascii """
) repeat Foo {
float @lengthOf(
    asx ) // packet A { u8 x, }
, repeat body ,repeat x{	As @lengthOf(
// packet A { u8 x, }
// a // b
Foo	) // a // b
`doc` ,	string uint8x
// packet A { u8 x, }
// packet A { u8 x, }
@lengthOf(msg_type) , } ,
    // `tick` ""quote"" 'q'
    },@leftPad ('0'
)
    @rightPad
    //x
    (
'0'
    ) x@calculatedFrom(	""" ++ [233]%N ++ runes_of_ascii "t" ++ [233]%N ++ runes_of_ascii """ ) ,@tag( // " ++ [27880; 37322]%N ++ runes_of_ascii "
00 ) msg_type
    @calculatedFrom( """ ++ [128512]%N ++ runes_of_ascii """ ), @tag(65535 ) repeat
// " ++ [128512]%N ++ runes_of_ascii " emoji
//	t
x_y_z ,@tag( 1 )
// c
// " ++ [27880; 37322]%N ++ runes_of_ascii "
zchar[4294967296] matchKey
    , packetx , repeat charz packetx
    `line1
line2`  ,
int32 x  @calculatedFrom(
""\n"") ,	} root
    packet int { @leftPad(
/// triple
// trailing space 
) char zchar	@lengthOf(Pad
    )
`// not a comment`
,} //x")).
Eval vm_compute in ("<<<M1039>>>" ++ check (runes_of_ascii "packet a1 { chars { len{ Logon len , string string_ , u8x @calculatedFrom(
    ""a\\""
// a // b
// c
) ,  repeat
    float{ body int `" ++ [233]%N ++ runes_of_ascii "`
, }
    ,	}, repeat As { repeat i64_
    f32a `{ , }` , A@calculatedFrom( ""\" ++ [233]%N ++ runes_of_ascii """
) , int64	float
    //	t
    ,
    }
,match x as chars {[
    """ ++ [128512]%N ++ runes_of_ascii """
    ,
007	, ""x y"" ,
00 , ""x y"",
10 ] :  string_ 10 : float , 4294967296:	x_y_z , [ """ ++ [233]%N ++ runes_of_ascii "t" ++ [233]%N ++ runes_of_ascii """ //	t
, 10 , 42  ,""" ++ [28040; 24687]%N ++ runes_of_ascii """ ,
0123456789 ,	42
    ,10]  : T 00
: leftPad// trailing space 
,  }, crc @lengthOf( u128
// " ++ [128512]%N ++ runes_of_ascii " emoji
// trailing space 
) //x
,  } ,
    char[] packetx@calculatedFrom( ""abc"" )`line1
line2`
,	int32 repeatCount @lengthOf(
Foo ) `it's` //	t
, match Packet /// triple
as string_  {
42
/// triple
// trailing space 
:f32a , 255 :
    MetaDataX
1: i8i8
"""" : a1  ,//	t
} , _x@lengthOf( chars) ,	}")).
Eval vm_compute in ("<<<M145>>>" ++ check (runes_of_ascii "
packet
// `tick` ""quote"" 'q'
// `tick` ""quote"" 'q'
rootA{ @tag( 3  ) zchar[
00 ] // trailing space 
x_y_z
    `" ++ [28040; 24687; 31867; 22411]%N ++ runes_of_ascii "`  , _x ,
    // a // b
    float64
    A
@lengthOf( //
u8x ) , u8 rootA`line1
line2`	, zchar[ 7
    ] // c
stringy,
match Header as f32a { ""\" ++ [233]%N ++ runes_of_ascii """:	o ,[
    // `tick` ""quote"" 'q'
    4294967296
, 7 ,// c
4294967296
, ""packet"" , ""a	b"" , ""CRC32"" ,	7 ,
""a	b""// trailing space 
]	: // packet A { u8 x, }
repeatCount, ""a\""b"" :
    Header  [""a\""b"" ] :
crc  ,	[  007
,
007, ""abc"" ] :
    metadata, 4294967296 : chars ,
} // " ++ [128512]%N ++ runes_of_ascii " emoji
, @tag( 1 ) i8 matchKey	`a\` ,
// @lengthOf(
// " ++ [128512]%N ++ runes_of_ascii " emoji
@lengthOf(
    body ) tag ,@lengthOf( matchKey
)
    @lengthOf(  o	)  @lengthOf( pack
    ) repeat u {
calculatedFrom @lengthOf( falsey  ), } , }
")).
Eval vm_compute in ("<<<M628>>>" ++ check (runes_of_ascii "root packet _x { //	t
uint16
_x, @tag( 7 ) repeat uint32 crc `line1
line2`,match stringy as packetx
{  255 : len , 255 //x
:A ,
    1 :
    //
    Z9_,
""it's""
    // trailing space 
    :
body[
""{,}"" , ""packet"" // trailing space 
, 0, ""\n"" ]:
// `tick` ""quote"" 'q'
// `tick` ""quote"" 'q'
x , }
,repeat
    uint32
Logon `tab	here` ,} packet string_
    { string asx @lengthOf( float )
// c
// packet A { u8 x, }
,@calculatedFrom(	""a\\""
) match	chars as x { 42 : A
    , """ ++ [28040; 24687]%N ++ runes_of_ascii """
    : T ""a\\"" : tag //
, 3 // trailing space 
: i8i8
[ 255 ] :MetaDataX /// triple
,} ,
float64 zchar	,@lengthOf( calculatedFrom )int
falsey ,
i16 Packet @calculatedFrom(
    ""// no comment"") `say ""hi""`
    ,@lengthOf( rootA
)trueish ,}")).
Eval vm_compute in ("<<<M4461>>>" ++ check (runes_of_ascii "options {
    trueish = 4294967296;
}

root packet float {
}

packet Header {
    repeat Logon,
    @tag(0123456789)
    uint8 asx `say ""hi""`,
    int @calculatedFrom(""a	b""),
    repeat Logon,
}

packet i64_ {
    /// triple
    repeat char[0123456789] metadata `u8 x,`,
    repeat f32 Packet,
    repeat crc {
        int16 body `" ++ [28040; 24687; 31867; 22411]%N ++ runes_of_ascii "`,
        int32 stringy,
        // @lengthOf(
        repeat char[65535] int,
        u64 zchar,
    },
    @rightPad('\x00')
    @calculatedFrom(""abc"")
    @rightPad(' ')
    rootA o,
    repeat string msg_type,
    //x
    /// triple
    char[3] i8i8 `two words`,
    @calculatedFrom(""// no comment"")
    /// triple
    f32a @lengthOf(Z9_),
}")).
Eval vm_compute in ("<<<M4251>>>" ++ check (runes_of_ascii "root packet packetx {
    match x as repeatCount {
        65535 : i8i8,
        10 : x_y_z,
        42 : packetx,
        0123456789 : metadata,
        [""\" ++ [233]%N ++ runes_of_ascii """] : x_y_z,
        ""a\\"" : i8i8,
    },
    stringy {
        // c
        stringy i64_,
        repeat Header As `two words`,
    },
    repeat char[007] u8x `line1
        line2`,
    @lengthOf(charz)
    // packet A { u8 x, }
    @leftPad('0')
    int16 BodyLength,
    repeat float32 repeatCount,
    match trueish as MetaDataX {
        ""a	b"" : x,
    },
    char[0] matchKey @lengthOf(float),
    @lengthOf(i64_)
    @lengthOf(repeatCount)
    // " ++ [27880; 37322]%N ++ runes_of_ascii "
    @lengthOf(float)
    f32 Z9_,
}")).
Eval vm_compute in ("<<<M4273>>>" ++ check (runes_of_ascii "
options

{ LittleEndian
=

true  ;
FixedStringPadFromLeft = true;
FixedStringPadChar=
'0' ;

    } packet Trade  {

string
    clOrdID  , char[]	Px  ,

    u32
	x

    ,

    }	packet	Reject {int32  Side2 ,	repeat
	char[  3]clOrdID 
,
i32 tag7 , }  packet

Leg  {  } root
	packet
	Quote

    {string

    Side2
	, 
string

lastPx
,

InSym58 {
int16
OrderId , Reject	,
    i8	Qty,
	i64
    venue
,f32
Note
    , }

    ,

    char[]count

,
zchar[ 
9
]price

, 
u16 Qty ,	match
Qty
as 
Body
{	69 : 
Leg
	,
48

: Trade 
, 51  :
Reject

,

    }
,u16
Acct 
@calculatedFrom(
""CRC32""

    )
, 
}
")).
Eval vm_compute in ("<<<M897>>>" ++ check (runes_of_ascii "packet
leftPad
    {
    @tag(
    00
) As chars  , u8
i8i8
    , match o
as chars
{	[""{,}""
,
    ""1"" , ""abc""
,
42 ,
    // " ++ [27880; 37322]%N ++ runes_of_ascii "
    ""packet"" ,00 ,
"""",//
""a\""b""
    ]: uint8x ,
""// no comment"" : calculatedFrom  ,  0 : int""packet"" :u
//	t
//x
, /// triple
""CRC32""
    : As , 0 : len
    , } ,char[ 0123456789] float
@calculatedFrom(""CRC32"" ) ,
    Pad chars`two words`
,  string
    stringy
@calculatedFrom(""""// packet A { u8 x, }
)
,  @calculatedFrom(""`tick`""
)// packet A { u8 x, }
roots @lengthOf(
    MetaDataX  )
    ,
@tag(	4294967296)u32
A
    `` , Foo ,
    f32
matchKey , }
")).
Eval vm_compute in ("<<<M4144>>>" ++ check (runes_of_ascii "  root packet  
  /// triple
  stringy{

    stringy  pack	,
	char[
	1	]T// @lengthOf(
  @calculatedFrom(""// no comment""

)
	,
zchar[
    4294967296

    ]

    stringy
	@calculatedFrom(
""CRC32""
)`doc`
	,
    zchar[	1
    ]
	body  @lengthOf(
A
)	,

    asx 
@lengthOf(

Packet

    )
	`two words`// packet A { u8 x, }
	,
    leftPad

    @calculatedFrom(
""\n"")`it's`

, i16 f32a 
// @lengthOf(
	, 
} MetaData
	metadata
    {

char[

    7
	]crc

,
options1
u128`two words` ,
    falsey calculatedFrom
, string_

As	//x
    , }")).
Eval vm_compute in ("<<<M3475>>>" ++ check (runes_of_ascii "packet A // c1a
  // c1b
{
    // c2
u8 // c3a
  // c3b
a
    // c4
,
    // c5
} // c6a
  // c6b
packet
    // c7
B // c8
{
    // c9
u16
    // c10
b // c11a
  // c11b
, } root
    // c14
packet P
    // c16
{ // c17
u8 K , // c20
match
    // c21
K // c22
as // c23
M
    // c24
{
    // c25
[
    // c26
1 // c27a
  // c27b
, 2 ] // c30
:
    // c31
A
    // c32
, // c33a
  // c33b
3
    // c34
: // c35a
  // c35b
B , // c37
7 : // c39a
  // c39b
A // c40
,
    // c41
}
    // c42
, // c43a
  // c43b
}
    // c44
")).
Eval vm_compute in ("<<<M3749>>>" ++ check (runes_of_ascii "root packet a1 {
    int16 u8x,
    match pack as i8i8 {
        ""packet"" : i64_,
        [
            1, 7, 007, 0123456789, """ ++ [233]%N ++ runes_of_ascii "t" ++ [233]%N ++ runes_of_ascii """,
            0
        ] : chars,
        [
            7, ""a\\"", ""a\""b"", 007, 0,
            ""// no comment""
        ] : A,
    },
    int64 metadata,
    @lengthOf(roots)
    len,
    repeat As `it's`,//	t
    repeat calculatedFrom {
        repeat options1 stringy,
        calculatedFrom matchKey `" ++ [28040; 24687; 31867; 22411]%N ++ runes_of_ascii "`,
        float32 options1 @lengthOf(float),
    },
}")).
Eval vm_compute in ("<<<M187>>>" ++ check (runes_of_ascii "root packet A
{  match
u8x as body {
7:
    BodyLength // trailing space 
, 007 : _x , 10 :
    Header},// `tick` ""quote"" 'q'
@lengthOf( pack ) tag @lengthOf( rootA  )
,match a1 as  calculatedFrom
{ 1 :
string_
, } ,  @lengthOf( x_y_z
) a1,
    @lengthOf(	MetaDataX
) int ,} packet
repeatCount { uint64 string_ `two words` , } options	{chars
    = false; float
//	t
// " ++ [27880; 37322]%N ++ runes_of_ascii "
= """ ++ [28040; 24687]%N ++ runes_of_ascii """ crc=u8 a1 = 1;
} MetaData // a // b
leftPad {
    u128 Header , } options {
    }

")).
Eval vm_compute in ("<<<M1176>>>" ++ check (runes_of_ascii "
MetaData
roots	{	char[
42 ] // @lengthOf(
packetx`u8 x,`
    ,	}
    MetaData
len { u128 rootA`
`
    ,
roots
trueish `doc`
// a // b
// `tick` ""quote"" 'q'
,// trailing space 
uint64 x_y_z
    , u32 string_ , options1 int, i8 charz `it's`,
// " ++ [128512]%N ++ runes_of_ascii " emoji
//
} MetaData int {
// trailing space 
// " ++ [27880; 37322]%N ++ runes_of_ascii "
}
    packet len
{  @calculatedFrom(
""a\\"")
string Header
`doc` , }packet o
{ @leftPad
    // c
    (' ' ) char[] // c
crc@calculatedFrom(""{,}"" )	, }
")).
Eval vm_compute in ("<<<M3669>>>" ++ check (runes_of_ascii "MetaData Logon {
    zchar[3] a1 `" ++ [28040; 24687; 31867; 22411]%N ++ runes_of_ascii "`,
    char[007] MetaDataX `a\`,
}

root packet pack {
}

packet i64_ {
    @lengthOf(chars)
    len {
        uint8 rootA `doc`,
        string_ `crlf
        line`,//	t
        match charz as Foo {
            42 : options1,
            [255] : charz,
        },
    },
    roots repeatCount `two words`,
    //	t
    string Logon @calculatedFrom(""a\""b""),
    @calculatedFrom(""a\\"")
    Z9_,
}//x")).
Eval vm_compute in ("<<<M1033>>>" ++ check (runes_of_ascii "packet Pad /// triple
{i16  A @calculatedFrom(
""a\""b"" ) ,}
    packet roots{ @tag(// trailing space 
65535 )repeat f32a{
    char[ 00] a1 @calculatedFrom( ""a\\"" ) , float32
x_y_z , len // packet A { u8 x, }
{
// `tick` ""quote"" 'q'
// c
stringy
    u8x `
`
    ,
    }
//
// packet A { u8 x, }
, f32 Foo@calculatedFrom(
""a\""b""
) ,
} ,
@calculatedFrom(""1""
) u64	calculatedFrom	,
    u32 u8x , u32	calculatedFrom
`` , }
")).
Eval vm_compute in ("<<<M784>>>" ++ check (runes_of_ascii "packet Header
{stringy@calculatedFrom( ""x y"" ) ,
    @tag(0	) uint64 trueish
    //	t
    ,
    uint8x , trueish BodyLength,crc chars , } MetaData
As { char[]A ,u8x trueish
//	t
//
`
` , uint16
// trailing space 
// " ++ [27880; 37322]%N ++ runes_of_ascii "
leftPad`" ++ [233]%N ++ runes_of_ascii "` , i16 u8x // c
,
// trailing space 
// @lengthOf(
f64
    f32a  `tab	here` ,}
    packet i8i8
{repeat int `line1
line2` ,} MetaData
    len {
crc string_`crlf
line`, }
")).
Eval vm_compute in ("<<<M3917>>>" ++ check (runes_of_ascii "
packet body 
{ @rightPad ('0'	) Packet  a1
	,
asx ,repeatCount
	// trailing space 
	// packet A { u8 x, }
{ // trailing space 
	repeat  int64

falsey ,

    }
    ,@rightPad
    // c
    // a // b
(	'0'
)
	match int
    // " ++ [27880; 37322]%N ++ runes_of_ascii "

  as
    T  { 4294967296 
: _x
    ,
    00

:
	string_ 	 // c
  ,
[ 
""x y""
]	: stringy

,}

    ,// packet A { u8 x, }
  uint32
x_y_z	,

    }
")).
Eval vm_compute in ("<<<M190>>>" ++ check (runes_of_ascii "packet x_y_z
    {@calculatedFrom( """"
) repeat
// `tick` ""quote"" 'q'
// `tick` ""quote"" 'q'
_x f32a , @calculatedFrom(
    ""it's"")chars
// c
// `tick` ""quote"" 'q'
,
    int32 u8x// `tick` ""quote"" 'q'
, // c
}options
    // " ++ [128512]%N ++ runes_of_ascii " emoji
    {crc	= """ ++ [233]%N ++ runes_of_ascii "t" ++ [233]%N ++ runes_of_ascii """ }root packet  string_{ } packet x  { u8x
    Packet
    ,
i32 float, } options
    {Pad =  4294967296 ; leftPad
= """ ++ [233]%N ++ runes_of_ascii "t" ++ [233]%N ++ runes_of_ascii """}
")).
Eval vm_compute in ("<<<M4032>>>" ++ check (runes_of_ascii "root packet asx {
    @calculatedFrom(""CRC32"")
    match chars as trueish {
        """" : T,
        42 : f32a,
        ""{,}"" : calculatedFrom,
        255 : A,
    },
}

root packet matchKey {
    u16 len @lengthOf(metadata) `// not a comment`,
}

options {
    Z9_ = ""it's""
    packetx = """ ++ [28040; 24687]%N ++ runes_of_ascii """;
    falsey = char[0];
    MetaDataX = ""a\\""
    A = true;
}")).
Eval vm_compute in ("<<<M495>>>" ++ check (runes_of_ascii "root packet BodyLength{ // " ++ [27880; 37322]%N ++ runes_of_ascii "
repeat metadata msg_type
`" ++ [28040; 24687; 31867; 22411]%N ++ runes_of_ascii "`
, string roots	@calculatedFrom(""\n""
    // a // b
    ) , repeat u8	repeatCount
`" ++ [233]%N ++ runes_of_ascii "`
,
match x  as metadata {
""`tick`"": roots 1 :x_y_z , """ ++ [128512]%N ++ runes_of_ascii """:
Logon	, 7:falsey , }
    , }
packet Header // packet A { u8 x, }
{ crc u,
}
    MetaData Logon { char[ 65535
    ]	lengthOf ,} //")).
Eval vm_compute in ("<<<M64>>>" ++ check (runes_of_ascii "MetaData chars {
char[] // " ++ [128512]%N ++ runes_of_ascii " emoji
As `a\` , } packet repeatCount {repeat
    //x
    charz
{ char[ 00 ]	Pad,
} , @calculatedFrom( ""// no comment"" )
char[] matchKey //x
`doc` ,u64 T@lengthOf(
int
) , }
packet Header /// triple
{  @calculatedFrom(""a\""b"") char[65535 ]
// trailing space 
// `tick` ""quote"" 'q'
falsey , }
")).
Eval vm_compute in ("<<<M1550>>>" ++ check (runes_of_ascii "root packet Foo // " ++ [128512]%N ++ runes_of_ascii " emoji
{ } options {
    // a // b
    tag // `tick` ""quote"" 'q'
= //	t
""""
    ; u8x = zchar[0  ] }
MetaData
    int {zchar[ 10]
lengthOf	`` , i64 u8x`// not a comment` `// not a comment` ,MetaDataX pack// `tick` ""quote"" 'q'
`crlf
line`
, Logon charz `crlf
line`
    ,
    // a // b
    }
")).
Eval vm_compute in ("<<<M1184>>>" ++ check (runes_of_ascii "/// triple
MetaData body { zchar[ 65535 ]
    //	t
    _x , zchar[ 10 ]
o	, i8i8 trueish ,
Header
u128
`doc` ,// `tick` ""quote"" 'q'
} packet matchKey { zchar `" ++ [233]%N ++ runes_of_ascii "` , }
packet
    metadata
    {int16
    len@lengthOf(
// trailing space 
// `tick` ""quote"" 'q'
charz ) `two words` , // trailing space 
}
")).
Eval vm_compute in ("<<<M1442>>>" ++ check (runes_of_ascii "root packet Foo // " ++ [128512]%N ++ runes_of_ascii " emoji
{ } options char
    // a // b
    tag // `tick` ""quote"" 'q'
= //	t
""""
    ; u8x = zchar[0  ] }
MetaData
    int {zchar[ 10]
lengthOf	`` , i64 u8x`// not a comment` ,MetaDataX pack// `tick` ""quote"" 'q'
`crlf
line`
, Logon charz `crlf
line`
    ,
    // a // b
    }
")).
Eval vm_compute in ("<<<M1597>>>" ++ check (runes_of_ascii "root packet Foo // " ++ [128512]%N ++ runes_of_ascii " emoji
{ } options {
    // a // b
    tag // `tick` ""quote"" 'q'
= //	t
""""
    ; u8x = zchar[0  ] }
MetaData
    int {zchar[ 10]
lengthOf	`` , i64 u8x`// not a comment` ,MetaDataX pack// `tick` ""quote"" 'q'
`crlf
line`
, Logon charz `crlf
line`
    u64
    // a // b
    }
")).
Eval vm_compute in ("<<<M1451>>>" ++ check (runes_of_ascii "root packet Foo // " ++ [128512]%N ++ runes_of_ascii " emoji
{ } options {
    // a // b
    tag // `tick` ""quote"" 'q'
"""" //	t
=
    ; u8x = zchar[0  ] }
MetaData
    int {zchar[ 10]
lengthOf	`` , i64 u8x`// not a comment` ,MetaDataX pack// `tick` ""quote"" 'q'
`crlf
line`
, Logon charz `crlf
line`
    ,
    // a // b
    }
")).
Eval vm_compute in ("<<<M4395>>>" ++ check (runes_of_ascii "options {
    roots = 3
    leftPad = string;
    packetx = false;
    zchar = true
    options1 = false;
}

MetaData string_ {
    i32 x_y_z,
    char[4294967296] zchar `two words`,// c
    char[42] metadata,
}

packet _x {
    int8 rootA `doc`,
}

options {
    lengthOf = ""// no comment""
}")).
Eval vm_compute in ("<<<M338>>>" ++ check (runes_of_ascii "
MetaData u8x
{
stringy x_y_z , }
root packet MetaDataX
{
len
    @calculatedFrom(""`tick`"")// trailing space 
`tab	here`
    ,repeat
falsey{
T@calculatedFrom( ""\" ++ [233]%N ++ runes_of_ascii """
) ,/// triple
float32 options1 `tab	here` , // a // b
},	@lengthOf( T
)repeat
float64// trailing space 
a1
`{ , }` ,}
")).
Eval vm_compute in ("<<<M1122>>>" ++ check (runes_of_ascii "root packet u8x { Packet	{
    repeat i32 tag , } , match  A
    as Logon {00: _x
, } , int8 i8i8
@lengthOf( metadata
) ,	string
lengthOf `
`	,
float32	calculatedFrom
`two words`,}packet a1
{
Pad rootA , }  MetaData crc { char[ 007	] As`a\` ,
u8x
metadata  , roots lengthOf
    ,	}
")).
Eval vm_compute in ("<<<M745>>>" ++ check (runes_of_ascii "  packet roots  {
match
// packet A { u8 x, }
// " ++ [27880; 37322]%N ++ runes_of_ascii "
u as repeatCount{4294967296	: repeatCount ,
    1
    : T, ""CRC32"" : matchKey , } , @rightPad // @lengthOf(
(
) @lengthOf( A	) @lengthOf(
/// triple
//x
lengthOf // " ++ [27880; 37322]%N ++ runes_of_ascii "
) repeat Pad {	zchar[ 4294967296] T  `tab	here`,} , }
")).
Eval vm_compute in ("<<<M1108>>>" ++ check (runes_of_ascii "MetaData lengthOf
    {
float rootA `
`
,  i16 // " ++ [128512]%N ++ runes_of_ascii " emoji
x	,
float32 msg_type, lengthOf
// a // b
// " ++ [27880; 37322]%N ++ runes_of_ascii "
u8x `" ++ [28040; 24687; 31867; 22411]%N ++ runes_of_ascii "` ,}
    options {  packetx= 3 ;options1=  zchar[255 ]
;  Pad =false
    ; repeatCount =	42 // @lengthOf(
;
    chars
/// triple
// a // b
= ' '; }")).
Eval vm_compute in ("<<<M664>>>" ++ check (runes_of_ascii "MetaData i64_ {
char[
255 ]tag
    //
    , uint32 Z9_ , T options1 `a\` ,
    options1 Pad  , f32
leftPad `line1
line2` ,
}
options {	}
    root
    packet uint8x { // `tick` ""quote"" 'q'
@lengthOf(float) falsey int `
`, } MetaData A { u8 Packet ,}")).
Eval vm_compute in ("<<<M4427>>>" ++ check (runes_of_ascii "
MetaData 
x{
Foo
    Header

    ,

char[
0123456789  ] len 
, int64
    i64_,	char[ 
42
]

    i8i8
	,	i16  /// triple
	pack, int64 
u8x `it's` , 
}  packet  pack 	 // @lengthOf(
{ @calculatedFrom(  ""// no comment"" ) len matchKey , 
}

")).
Eval vm_compute in ("<<<M4253>>>" ++ check (runes_of_ascii "packet 
u128// packet A { u8 x, }

{ @tag(
00 )
// trailing space 
  i64

    msg_type 
@calculatedFrom( ""x y"")	,
repeat 	 //
    calculatedFrom u 	 //
,@rightPad(
    '0'

) 
repeat string  chars ``

, int8

    metadata, 
}
")).
Eval vm_compute in ("<<<M2213>>>" ++ check (runes_of_ascii "MetaData MetaData Packet { }packet	asx  { @lengthOf( asx) falsey`crlf
line`
,
    }
    packet x	{uint32// @lengthOf(
rootA	,u32 options1 `say ""hi""` , @tag( 7
    )// packet A { u8 x, }
msg_type @lengthOf(
stringy	)	, }

")).
Eval vm_compute in ("<<<M2288>>>" ++ check (runes_of_ascii "MetaData Packet { }packet	asx  { @lengthOf( asx) falsey`crlf
line`
,
    }
    packet zchar[	{uint32// @lengthOf(
rootA	,u32 options1 `say ""hi""` , @tag( 7
    )// packet A { u8 x, }
msg_type @lengthOf(
stringy	)	, }

")).
Eval vm_compute in ("<<<M2361>>>" ++ check (runes_of_ascii "MetaData Packet { }packet	asx  { @lengthOf( asx) falsey`crlf
line`
,
    }
    packet x	{uint32// @lengthOf(
rootA	,u32 options1 `say ""hi""` , @tag( 7
    )// packet A { u8 x, }
msg_type @lengthOf(
stringy	) )	, }

")).
Eval vm_compute in ("<<<M2247>>>" ++ check (runes_of_ascii "MetaData Packet { }packet	asx  { asx @lengthOf() falsey`crlf
line`
,
    }
    packet x	{uint32// @lengthOf(
rootA	,u32 options1 `say ""hi""` , @tag( 7
    )// packet A { u8 x, }
msg_type @lengthOf(
stringy	)	, }

")).
Eval vm_compute in ("<<<M2255>>>" ++ check (runes_of_ascii "MetaData Packet { }packet	asx  { @lengthOf( asx falsey`crlf
line`
,
    }
    packet x	{uint32// @lengthOf(
rootA	,u32 options1 `say ""hi""` , @tag( 7
    )// packet A { u8 x, }
msg_type @lengthOf(
stringy	)	, }

")).
Eval vm_compute in ("<<<M3728>>>" ++ check (runes_of_ascii "packet A {
    match k as n {
        ""x\
                y"" : B,
        [""x\
                y"", 1] : C,
        [
            1, 2, 3, 4, 5,
            ""x\
                        y""
        ] : D,
    },
}")).
Eval vm_compute in ("<<<M7>>>" ++ check (runes_of_ascii "MetaData trueish {	tag Foo `say ""hi""` , zchar[ 4294967296 ]
    charz // packet A { u8 x, }
,
/// triple
// a // b
Z9_ _x ,
char[	0123456789 ] lengthOf
    , i64 u8x `// not a comment` , f32a a1 `doc`,	}
")).
Eval vm_compute in ("<<<M701>>>" ++ check (runes_of_ascii "// @lengthOf(
MetaData pack { char[
255
    ]
    options1
,uint64
    lengthOf,	int32 roots, }root packet Packet // @lengthOf(
{// c
@calculatedFrom( ""{,}"" ) string
// " ++ [27880; 37322]%N ++ runes_of_ascii "
// " ++ [128512]%N ++ runes_of_ascii " emoji
zchar `" ++ [28040; 24687; 31867; 22411]%N ++ runes_of_ascii "`,	}")).
Eval vm_compute in ("<<<M401>>>" ++ check (runes_of_ascii "MetaData// " ++ [27880; 37322]%N ++ runes_of_ascii "
Z9_ {
}root
    packet leftPad{	@lengthOf( Pad ) @lengthOf(lengthOf
)
    @tag( 4294967296 ) o @lengthOf( i64_ )// a // b
,
}
options
// `tick` ""quote"" 'q'
//x
{
    //
    }")).
Eval vm_compute in ("<<<M1162>>>" ++ check (runes_of_ascii "options { A = false
    ;Packet = false ; Packet =
zchar[0123456789 ]
; charz
= true
    ; } MetaData	float
{ u8x
    Header
    `" ++ [28040; 24687; 31867; 22411]%N ++ runes_of_ascii "`	,}packet
    Header {Pad @lengthOf(u8x ) ,  }")).
Eval vm_compute in ("<<<M351>>>" ++ check (runes_of_ascii "root packet
stringy { charz T// " ++ [128512]%N ++ runes_of_ascii " emoji
`u8 x,` ,	char tag , uint64 u128 ,}
options { x
=
    '0' // `tick` ""quote"" 'q'
rootA =""CRC32"" ; // " ++ [27880; 37322]%N ++ runes_of_ascii "
i64_=""a\\"" ; } options{
}
// " ++ [27880; 37322]%N ++ runes_of_ascii "
")).
Eval vm_compute in ("<<<M1074>>>" ++ check (runes_of_ascii "packet
f32a {
    }
    options { metadata = ' ' ; }
options { }packet a1
{ Foo { // " ++ [128512]%N ++ runes_of_ascii " emoji
repeat zchar[00	]
_x
,
}  ,
    }
MetaData Pad  {
u16 u `tab	here`,	}")).
Eval vm_compute in ("<<<M1543>>>" ++ check (runes_of_ascii "root packet Foo // " ++ [128512]%N ++ runes_of_ascii " emoji
{ } options {
    // a // b
    tag // `tick` ""quote"" 'q'
= //	t
""""
    ; u8x = zchar[0  ] }
MetaData
    int {zchar[ 10]
lengthOf	`` ,")).
Eval vm_compute in ("<<<M963>>>" ++ check (runes_of_ascii "root packet int
{  trueish @calculatedFrom(  ""it's"" )
    `doc` , string T
`crlf
line`, repeat rootA {match chars as tag{ [  """ ++ [233]%N ++ runes_of_ascii "t" ++ [233]%N ++ runes_of_ascii """
] :	uint8x,
} , } , }
")).
Eval vm_compute in ("<<<M4065>>>" ++ check (runes_of_ascii "  MetaData Pad

    { int64
	roots
    ,

    body u128
//x
	  ,
float64 x 	 // trailing space 
      ,int32 chars	,
A options1

    `
`,

} ")).
Eval vm_compute in ("<<<M1061>>>" ++ check (runes_of_ascii "MetaData //
u128 { x_y_z x_y_z `tab	here`, string
// c
/// triple
charz// a // b
, i64 roots`{ , }`
    ,/// triple
Logon//	t
packetx ,
    }
")).
Eval vm_compute in ("<<<M1078>>>" ++ check (runes_of_ascii "MetaData u128 { char[ 3
] leftPad
, char[] u8x	`{ , }` ,Header i8i8 , } options {
    //
    crc	= ""// no comment""asx
= ""CRC32"" ;
    }
")).
Eval vm_compute in ("<<<M1801>>>" ++ check (runes_of_ascii "packet
    Pad // a // b
{ i8i8 @calculatedFrom( @calculatedFrom( ""a	b"") `u8 x,` ,
} options{ float// " ++ [128512]%N ++ runes_of_ascii " emoji
= f64 i64_
=//	t
00 }
")).
Eval vm_compute in ("<<<M4483>>>" ++ check (runes_of_ascii "  options{ // c

stringy
=""1"" 
;float	=
i64	; 	 // a // b
calculatedFrom
	=  ""it's"";// c
		Z9_
= 
""// no comment""  ;  // " ++ [27880; 37322]%N ++ runes_of_ascii "
    }")).
Eval vm_compute in ("<<<M1631>>>" ++ check (runes_of_ascii "root rootA /// triple
packet {	i32
MetaDataX@calculatedFrom( ""CRC32"" ) `line1
line2` , } MetaData BodyLength {
u8
rootA, } // c")).
Eval vm_compute in ("<<<M152>>>" ++ check (runes_of_ascii "options
    {
matchKey
= ' '
tag  = '\x00' ;
    metadata
// `tick` ""quote"" 'q'
// @lengthOf(
=  string ; charz
= 65535
; }
")).
Eval vm_compute in ("<<<M703>>>" ++ check (runes_of_ascii "options { matchKey = // @lengthOf(
1 x
= ""\" ++ [233]%N ++ runes_of_ascii """
//	t
/// triple
MetaDataX =""a\""b"" ; u128
// c
/// triple
=""\" ++ [233]%N ++ runes_of_ascii """
} packet	As{ }")).
Eval vm_compute in ("<<<M1629>>>" ++ check (runes_of_ascii "root  /// triple
rootA {	i32
MetaDataX@calculatedFrom( ""CRC32"" ) `line1
line2` , } MetaData BodyLength {
u8
rootA, } // c")).
Eval vm_compute in ("<<<M1866>>>" ++ check (runes_of_ascii "packet
    Pad // a // b
{ i8i8 @calculatedFrom( ""a	b"") `u8 x,` ,
} options{ float// " ++ [128512]%N ++ runes_of_ascii " emoji
= f64 i64_
=//	t
00 00 }
")).
Eval vm_compute in ("<<<M1793>>>" ++ check (runes_of_ascii "packet
    Pad // a // b
42 i8i8 @calculatedFrom( ""a	b"") `u8 x,` ,
} options{ float// " ++ [128512]%N ++ runes_of_ascii " emoji
= f64 i64_
=//	t
00 }
")).
Eval vm_compute in ("<<<M1812>>>" ++ check (runes_of_ascii "packet
    Pad // a // b
{ i8i8 @calculatedFrom( ""a	b""`u8 x,` ) ,
} options{ float// " ++ [128512]%N ++ runes_of_ascii " emoji
= f64 i64_
=//	t
00 }
")).
Eval vm_compute in ("<<<M2309>>>" ++ check (runes_of_ascii "MetaData Packet { }packet	asx  { @lengthOf( asx) falsey`crlf
line`
,
    }
    packet x	{uint32// @lengthOf(
rootA")).
Eval vm_compute in ("<<<M501>>>" ++ check (runes_of_ascii "options { u128 =  zchar[	255 ] ;  Pad=
00 x_y_z= i16 Header  = ""\n""  ;  }
    root packet
BodyLength {//x
}
//x
")).
Eval vm_compute in ("<<<M3583>>>" ++ check (runes_of_ascii "packet A {
    B b `a
        b
      c`,
    B `a
        b
      c`,
    repeat B bs `a
        b
      c`,
}")).
Eval vm_compute in ("<<<M3416>>>" ++ check (runes_of_ascii "// top
root
    // c0
packet P {
    // c3
char // c4
c // c5
,
    // c6
u8 // c7
x // c8
, // c9
} // c10
")).
Eval vm_compute in ("<<<M4215>>>" ++ check (runes_of_ascii "packet lengthOf {
    @calculatedFrom(""packet"")
    @lengthOf(options1)
    char[] int,
}

packet u8x {
}")).
Eval vm_compute in ("<<<M3347>>>" ++ check (runes_of_ascii "packet calculatedFrom { @tag( 4294967296 // c
) u msg_type , char[ 3 ] crc @lengthOf( len ) `u8 x,` , }")).
Eval vm_compute in ("<<<M750>>>" ++ check (runes_of_ascii "  packet i64_{ @leftPad (
'0'
//x
// @lengthOf(
)	u8 MetaDataX ,
    i16
// trailing space 
//x
Pad,
}")).
Eval vm_compute in ("<<<M3965>>>" ++ check (runes_of_ascii "// top
MetaData _x {
    // c2
    zchar[4294967296] lengthOf `// not a comment`,
    // c8
}
// c9")).
Eval vm_compute in ("<<<M2940>>>" ++ check (runes_of_ascii "packet A {
  match k as n {
    [""a"", ""bb"", ""c c"", ""d"", ""e"", ""f"", ""g"", ""h""] : B
    2 : C
  },
}")).
Eval vm_compute in ("<<<M3223>>>" ++ check (runes_of_ascii "packet Logon { @tag(
// c
42 ) @rightPad ( ' ' ) @leftPad ( ) repeat trueish { string T , } , }")).
Eval vm_compute in ("<<<M3255>>>" ++ check (runes_of_ascii "packet Logon { @tag( 42 ) @rightPad ( ' ' ) @leftPad ( ) repeat trueish { string T , }
// c
, }")).
Eval vm_compute in ("<<<M270>>>" ++ check (runes_of_ascii "packet Pad { @calculatedFrom( ""CRC32"" ) @tag( 7 ) float32 u128 @calculatedFrom(""\n"")
    , }")).
Eval vm_compute in ("<<<M3921>>>" ++ check (runes_of_ascii "options {
    tag = char[00];
}

root packet Header {
    /// triple
    repeat packetx,
}")).
Eval vm_compute in ("<<<M1030>>>" ++ check (runes_of_ascii "packet i8i8 { } options
    { MetaDataX =
""it's""  asx = char[
    65535
    ]  ;
    }")).
Eval vm_compute in ("<<<M2031>>>" ++ check (runes_of_ascii "root
packet crc
    { f32a @calculatedFrom( """ ++ [233]%N ++ runes_of_ascii "t" ++ [233]%N ++ runes_of_ascii """ )
 $   `say ""hi""`, lengthOf `` ,  }")).
Eval vm_compute in ("<<<M2008>>>" ++ check (runes_of_ascii "root
packet crc
    { f32a @calculatedFrom( """ ++ [233]%N ++ runes_of_ascii "t" ++ [233]%N ++ runes_of_ascii """ )
    `say ""hi""`, `` lengthOf ,  }")).
Eval vm_compute in ("<<<M1233>>>" ++ check (runes_of_ascii "
MetaData
    u128 {
a1 Header , u
i64_,
    char[]
    Logon ,
    int64 crc , }
")).
Eval vm_compute in ("<<<M2918>>>" ++ check (runes_of_ascii "packet A {
  match k as n {
    [""a"", 22, ""c c"", 4, ""e"", 66] : B
    2 : C
  },
}")).
Eval vm_compute in ("<<<M3322>>>" ++ check (runes_of_ascii "packet o { @tag( 42 ) repeat x { char[ 0123456789 ] i64_ , } // c
, } options { }")).
Eval vm_compute in ("<<<M411>>>" ++ check (runes_of_ascii "
packet
msg_type{ char[// trailing space 
00 ] x_y_z@lengthOf(
msg_type	) , }
")).
Eval vm_compute in ("<<<M2006>>>" ++ check (runes_of_ascii "root
packet crc
    { f32a @calculatedFrom( """ ++ [233]%N ++ runes_of_ascii "t" ++ [233]%N ++ runes_of_ascii """ )
    `say ""hi""`,  `` ,  }")).
Eval vm_compute in ("<<<M1211>>>" ++ check (runes_of_ascii "packet
uint8x{ options1 @lengthOf(calculatedFrom
)`crlf
line`, // " ++ [27880; 37322]%N ++ runes_of_ascii "
}
")).
Eval vm_compute in ("<<<M2891>>>" ++ check (runes_of_ascii "packet A {
  match k as n {
    [""a"", 22, ""c c"", 4] : B,
    2 : C
  },
}")).
Eval vm_compute in ("<<<M617>>>" ++ check (runes_of_ascii "  packet	Packet { repeat int16
charz // a // b
,zchar[	65535 ]	tag , }")).
Eval vm_compute in ("<<<M3743>>>" ++ check (runes_of_ascii "options {
    roots = ""packet"";
    len = 0;
    crc = zchar[65535];
}")).
Eval vm_compute in ("<<<M2201>>>" ++ check (runes_of_ascii "root
    // `tick` ""quote"" 'q'
    packet ` As { trueish Packet , }
")).
Eval vm_compute in ("<<<M1327>>>" ++ check (runes_of_ascii "MetaData Foo{ lengthOf tag /// triple
,
}
// packet A { u8 x, }
")).
Eval vm_compute in ("<<<M2186>>>" ++ check (runes_of_ascii "root
    // `tick` ""quote"" 'q'
    packet As { trueish Packet , 
")).
Eval vm_compute in ("<<<M4026>>>" ++ check (runes_of_ascii "packet As {
    @calculatedFrom(""{,}"")
    lengthOf lengthOf,
}")).
Eval vm_compute in ("<<<M1763>>>" ++ check (runes_of_ascii "options { }options {  @calculatedFrom( // `tick` ""quote"" 'q'")).
Eval vm_compute in ("<<<M1251>>>" ++ check (runes_of_ascii "MetaData stringy{
    // " ++ [128512]%N ++ runes_of_ascii " emoji
    options1 Header//
,
}")).
Eval vm_compute in ("<<<M4110>>>" ++ check (runes_of_ascii "packet options1 {
    @lengthOf(x_y_z)
    falsey,
}
// c")).
Eval vm_compute in ("<<<M1922>>>" ++ check (runes_of_ascii "
packet	As { @calculatedFrom(//x
""{,}""	lengthOf) , } 	 ")).
Eval vm_compute in ("<<<M2407>>>" ++ check (runes_of_ascii "MetaData A
{
i64
chars	, match // `tick` ""quote"" 'q'")).
Eval vm_compute in ("<<<M2412>>>" ++ check (runes_of_ascii "MetaData A
{
< i64
chars	, } // `tick` ""quote"" 'q'")).
Eval vm_compute in ("<<<M503>>>" ++ check (runes_of_ascii "options{Foo
    =
    int8 ; As =
    007 } //	t")).
Eval vm_compute in ("<<<M2148>>>" ++ check (runes_of_ascii "MetaData x
@lengthOf{// " ++ [128512]%N ++ runes_of_ascii " emoji
i16 stringy , }")).
Eval vm_compute in ("<<<M4221>>>" ++ check (runes_of_ascii "options {
    a = 1;
}

options {
    a = 1;
}")).
Eval vm_compute in ("<<<M2143>>>" ++ check (runes_of_ascii "MetaData x
{// " ++ [128512]%N ++ runes_of_ascii " emoji
i16 '\x01'stringy , }")).
Eval vm_compute in ("<<<M780>>>" ++ check (runes_of_ascii "packet
    trueish { matchKey  leftPad,
}")).
Eval vm_compute in ("<<<M3206>>>" ++ check (runes_of_ascii "MetaData zchar { zchar[ 3 ] Pad , } // c
")).
Eval vm_compute in ("<<<M3190>>>" ++ check (runes_of_ascii "MetaData // c
zchar { zchar[ 3 ] Pad , }")).
Eval vm_compute in ("<<<M2145>>>" ++ check (runes_of_ascii "MetaData x
{// " ++ [128512]%N ++ runes_of_ascii " emoji
i16 " ++ [233]%N ++ runes_of_ascii "stringy , }")).
Eval vm_compute in ("<<<M3056>>>" ++ check (runes_of_ascii "options {
    a = ""\
"";
    b = ""\
""
}")).
Eval vm_compute in ("<<<M2122>>>" ++ check (runes_of_ascii "MetaData x
{// " ++ [128512]%N ++ runes_of_ascii " emoji
i16 ""x y"" , }")).
Eval vm_compute in ("<<<M2128>>>" ++ check (runes_of_ascii "MetaData x
{// " ++ [128512]%N ++ runes_of_ascii " emoji
i16 stringy")).
Eval vm_compute in ("<<<M4495>>>" ++ check (runes_of_ascii "packet A {
    u8 x `a
    b`,
}")).
Eval vm_compute in ("<<<M3044>>>" ++ check (runes_of_ascii "packet A {
    u8 x `tab
	x`,
}")).
Eval vm_compute in ("<<<M3103>>>" ++ check (runes_of_ascii "packet A {
 u8 x `d" ++ [8233]%N ++ runes_of_ascii "`, // c" ++ [8233]%N ++ runes_of_ascii "
}")).
Eval vm_compute in ("<<<M1064>>>" ++ check (runes_of_ascii "
root packet x_y_z	{ } //	t")).
Eval vm_compute in ("<<<M2640>>>" ++ check (runes_of_ascii "packet A { } x packet B { }")).
Eval vm_compute in ("<<<M2591>>>" ++ check (runes_of_ascii "packet A { u8 x @tag(1), }")).
Eval vm_compute in ("<<<M3165>>>" ++ check (runes_of_ascii "options { a = 1 // a
 ; }")).
Eval vm_compute in ("<<<M3271>>>" ++ check (runes_of_ascii "options // c
{ u8x = 3 }")).
Eval vm_compute in ("<<<M2577>>>" ++ check (runes_of_ascii "packet A { char[ 3 y, }")).
Eval vm_compute in ("<<<M2728>>>" ++ check (runes_of_ascii "zJCp5x,_`*Ps&{Uwa3JY4N")).
Eval vm_compute in ("<<<M182>>>" ++ check (runes_of_ascii "root packet As { }

")).
Eval vm_compute in ("<<<M2629>>>" ++ check (runes_of_ascii "packet A { } packet")).
Eval vm_compute in ("<<<M2659>>>" ++ check (runes_of_ascii "options { a = 1, }")).
Eval vm_compute in ("<<<M3117>>>" ++ check (runes_of_ascii "// c" ++ [11]%N ++ runes_of_ascii "
packet A {
}")).
Eval vm_compute in ("<<<M2819>>>" ++ check (runes_of_ascii "1c9fP,9u8%sQZ4{.)")).
Eval vm_compute in ("<<<M2834>>>" ++ check (runes_of_ascii "lUfoS)U1$-NNWF,V")).
Eval vm_compute in ("<<<M2730>>>" ++ check (runes_of_ascii "@tag( ) uint64")).
Eval vm_compute in ("<<<M1423>>>" ++ check (runes_of_ascii "root packet")).
Eval vm_compute in ("<<<M4454>>>" ++ check (runes_of_ascii "
// c" ++ [12]%N ++ runes_of_ascii "
 
")).
Eval vm_compute in ("<<<M984>>>" ++ check (runes_of_ascii "
 // c")).
Eval vm_compute in ("<<<M2439>>>" ++ check (runes_of_ascii "uint8")).
Eval vm_compute in ("<<<M3135>>>" ++ check (runes_of_ascii "// c" ++ [65279]%N)).
Eval vm_compute in ("<<<M454>>>" ++ check (runes_of_ascii "  
")).
Eval vm_compute in ("<<<M2686>>>" ++ check (runes_of_ascii " " ++ [12]%N ++ runes_of_ascii " ")).
Eval vm_compute in ("<<<M2494>>>" ++ check (runes_of_ascii "/")).
