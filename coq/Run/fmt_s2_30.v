From FP Require Import Lexer Parser ShowPT Digest Formatter.
From Coq Require Import String List NArith.
Import ListNotations.
Open Scope string_scope.
Set Printing Width 100000000.
Set Printing Depth 100000000.
Definition show_fres (r : fres) : string :=
  match r with
  | FOk s => "OK:" ++ sh_escaped s ""
  | FErr s => "ERR:" ++ sh_escaped s ""
  | FPanic p => "PANIC:" ++ p
  end.
Definition check (rs : list rune) : string := digest (show_fres (format_res rs)).
Definition full (rs : list rune) : string := show_fres (format_res rs).
Eval vm_compute in ("<<<M279>>>" ++ check (runes_of_ascii "//x
root packet
// `tick` ""quote"" 'q'
// `tick` ""quote"" 'q'
i8i8 { u128{ repeat lengthOf Foo //
`u8 x,`
,MetaDataX	falsey
`two words` ,Pad{	u8 a1 @lengthOf( leftPad )
, }
    , int @calculatedFrom( // " ++ [128512]%N ++ runes_of_ascii " emoji
""a\\""
    ) `
`
    ,	}
    , Header
Logon , match rootA// c
as
    BodyLength
    // " ++ [27880; 37322]%N ++ runes_of_ascii "
    { """ ++ [28040; 24687]%N ++ runes_of_ascii """ :	Pad [ """ ++ [233]%N ++ runes_of_ascii "t" ++ [233]%N ++ runes_of_ascii """
    ,
1
] : _x , }, options1 `crlf
line` , repeat u	{ match	i8i8 as falsey
{// `tick` ""quote"" 'q'
[ 42 , 4294967296 ]: x_y_z ,42
:
    float ,
// `tick` ""quote"" 'q'
// c
3
    : packetx
, } , }
, charz ,
    }
    // a // b
    root packet float
// @lengthOf(
// c
{ repeat _x body `say ""hi""` , charz`// not a comment`,repeat lengthOf{
repeatCount { repeat
tag { zchar[ 42  ]
// a // b
// " ++ [27880; 37322]%N ++ runes_of_ascii "
leftPad
,repeat
    zchar[0123456789  ]T `crlf
line`,  char[]
trueish , zchar[ 007 // " ++ [128512]%N ++ runes_of_ascii " emoji
]	lengthOf @lengthOf(string_
)`" ++ [233]%N ++ runes_of_ascii "` ,
} ,repeat int32 As
,int8 chars	, i32 calculatedFrom`it's`, } /// triple
, zchar[ 00 ] chars ``
, }	,char[255
] charz @calculatedFrom(""1"" ) `doc` , // packet A { u8 x, }
match body
as rootA { ""CRC32"" :	A , [ 007
    , ""{,}""
    ,
    0 // `tick` ""quote"" 'q'
,""1""
    ,0123456789 ,""// no comment""// " ++ [27880; 37322]%N ++ runes_of_ascii "
, ""it's"", 1] :
    BodyLength 65535 : x_y_z [""`tick`""]  : a1 }, repeat	asx{ char[ 0123456789 ]
    i64_ `" ++ [28040; 24687; 31867; 22411]%N ++ runes_of_ascii "` ,
    } , @lengthOf(  x_y_z )
pack
@calculatedFrom(""" ++ [233]%N ++ runes_of_ascii "t" ++ [233]%N ++ runes_of_ascii """) ,@tag( 3
// trailing space 
//
) repeat uint64 o
    ,// @lengthOf(
}")).
Eval vm_compute in ("<<<M1535>>>" ++ check (runes_of_ascii "packet a1 {
    @lengthOf(f32a)
    repeat u64 string_,
    @calculatedFrom("""")
    repeat i16 tag `u8 x,`,
    @tag(42)
    @calculatedFrom(""a\\"")
    @calculatedFrom(""\" ++ [233]%N ++ runes_of_ascii """)
    zchar[10] Foo,
    char[42] body `// not a comment`,
}

MetaData roots {
    uint64 Z9_ `{ , }`,
    char[] charz `doc`,
    uint16 u128 `u8 x,`,
    zchar[4294967296] len,
    float32 stringy,
}

packet Z9_ {
    @leftPad('\x00')
    @tag(42)
    @tag(7)
    roots x,
    @lengthOf(int)
    crc zchar,
}

packet string_ {
    u8 Pad,
    u64 chars,
    @lengthOf(Logon)
    pack,
    @leftPad()
    @rightPad(' ')
    @calculatedFrom(""a	b"")
    i8 x `crlf
        line`,
    char[0123456789] options1 @calculatedFrom(""{,}"") `two words`,
    uint64 charz `doc`,
    char[] u128,
    @calculatedFrom(""1"")
    repeat matchKey {
        repeat int o,
    },
    @lengthOf(calculatedFrom)
    @rightPad('\x00')
    @tag(00)
    MetaDataX {
        uint32 BodyLength,
    },
    // trailing space 
    //
}

packet lengthOf {
    @calculatedFrom(""" ++ [28040; 24687]%N ++ runes_of_ascii """)
    // trailing space 
    // " ++ [27880; 37322]%N ++ runes_of_ascii "
    repeat repeatCount {
        repeat char[7] pack `// not a comment`,
    },
}")).
Eval vm_compute in ("<<<M1490>>>" ++ check (runes_of_ascii "options {
    StringPrefixLenType = u32;
    ArrayPrefixLenType = u8;
    FixedStringPadFromLeft = false;
}

packet Logon {
    i8 venue,
    int16 f1,
    zchar[8] Acct,
    repeat InNote16 {
        InQty73 {
            float32 tag7,
        },
        f32 Acct,
        zchar[5] sym,
    },
    uint16 Side2,
    i32 lastPx,
}

packet Fill {
    repeat InOrderid15 {
        zchar[8] sym,
        repeat char[2] OrderId,
        repeat Logon,
        InQty82 {
            char[] Tail,
            repeat Logon,
            float64 price,
            f64 Side2,
        },
        char[12] venue,
        char[4] Px,
    },
    @rightPad('0')
    char[2] venue,
    InPrice99 {
        InAcct72 {
            u8 pad0,
        },
        u32 OrderId,
        Logon,
    },
}

root packet Reject {
    zchar[9] msgKind,
    u32 venue,
    u16 seqNo @lengthOf(Body),
    match venue as Body {
        57 : Fill,
        8 : Logon,
    },
    u16 Tail @calculatedFrom(""CR\
    C32""),
}")).
Eval vm_compute in ("<<<M1569>>>" ++ check (runes_of_ascii "root packet pack {
    zchar[255] T `a\`,
    char[] Z9_ @lengthOf(u8x) `two words`,
    A {
        repeat char[] x ``,
        // @lengthOf(
        /// triple
        repeat zchar[007] i64_,
    },
    uint8x @lengthOf(i64_) ``,
}

packet calculatedFrom {
    @leftPad()
    u32 calculatedFrom ``,
    @tag(0123456789)
    @leftPad()
    int8 _x ``,
    match rootA as u {
        // c
        10 : Z9_,
        0123456789 : float,
        //
        // c
        0 : float,
        [""it's""] : packetx,
    },// `tick` ""quote"" 'q'
    @lengthOf(string_)
    zchar[0123456789] body @lengthOf(repeatCount),
    @calculatedFrom(""\n"")
    match body as u8x {
        ""a\""b"" : T,
        [
            ""\n"", """ ++ [233]%N ++ runes_of_ascii "t" ++ [233]%N ++ runes_of_ascii """, ""CRC32"", 255, 7,
            ""// no comment"", """ ++ [28040; 24687]%N ++ runes_of_ascii """
        ] : x,
        255 : packetx,
    },
    @tag(65535)
    repeat Header zchar,
}

MetaData Logon {
}")).
Eval vm_compute in ("<<<M85>>>" ++ check (runes_of_ascii "packet chars
{}// c
packet
len
{
    repeat char[] Foo
, @rightPad ('0' ) zchar[ 007 ]/// triple
a1`say ""hi""` , repeat BodyLength  leftPad ,}
root	packet u8x { f64 lengthOf
    @calculatedFrom(
""CRC32""	)
    ,
    string
zchar @lengthOf( int)
    `crlf
line` , int calculatedFrom , @lengthOf(As ) match falsey as asx {
65535: _x
    [ 1 ] :
    u 007:	uint8x
00:	f32a
, """ ++ [233]%N ++ runes_of_ascii "t" ++ [233]%N ++ runes_of_ascii """ :	Packet ,[ 42 ,""a\""b"" ] : len
    //x
    , } , @lengthOf(stringy
    // " ++ [128512]%N ++ runes_of_ascii " emoji
    )@calculatedFrom(  ""1"" )repeat A { char[]lengthOf  `it's` , }
, _x `" ++ [28040; 24687; 31867; 22411]%N ++ runes_of_ascii "` ,
    @leftPad ('0'
    ) match Foo as
crc {10 :
    trueish
// " ++ [27880; 37322]%N ++ runes_of_ascii "
//
, 42
:// " ++ [128512]%N ++ runes_of_ascii " emoji
Pad
, [4294967296
,  ""// no comment"" , ""{,}"" ]:
float
    ,  } , @lengthOf( u8x ) a1
// c
// trailing space 
@calculatedFrom( ""\" ++ [233]%N ++ runes_of_ascii """ ) // c
,} 	 ")).
Eval vm_compute in ("<<<M1894>>>" ++ check (runes_of_ascii "

  root 
packet packetx { match

x as
    repeatCount  // " ++ [128512]%N ++ runes_of_ascii " emoji
{ 65535	//x

:  i8i8  10
    :
    x_y_z 
42	// @lengthOf(
    	:

    packetx 0123456789

    :metadata [
""\" ++ [233]%N ++ runes_of_ascii """

]
:
	x_y_z

,  ""a\\""  : i8i8 
, }
    ,

stringy

{	// c
  stringy

    i64_ 
,
    repeat
    Header As

    `two words`,	}
,  repeat char[ 007	// `tick` ""quote"" 'q'
  ]
u8x `line1
line2`

, @lengthOf(
    charz

    )

// packet A { u8 x, }

@leftPad

(
	'0'

)	int16
	BodyLength ,

    repeat
float32  repeatCount , 
match 
trueish

    as
	MetaDataX {

    ""a	b""
    // a // b
:	x
	,
} , char[ 0]matchKey  @lengthOf(float  ), 
@lengthOf(
i64_
)
@lengthOf( 
repeatCount) // " ++ [27880; 37322]%N ++ runes_of_ascii "
    @lengthOf(float
)	f32 
Z9_ , } ")).
Eval vm_compute in ("<<<M1555>>>" ++ check (runes_of_ascii "packet A {
    repeat o Z9_,
    @calculatedFrom(""" ++ [233]%N ++ runes_of_ascii "t" ++ [233]%N ++ runes_of_ascii """)
    @calculatedFrom(""a\\"")
    @tag(42)
    match Header as tag {
        ""`tick`"" : As,
        [""\" ++ [233]%N ++ runes_of_ascii """] : asx,
        [3, ""1"", ""\n"", 007, ""\n""] : options1,
        ""abc"" : falsey,
        4294967296 : metadata,
    },
    @tag(4294967296)
    tag @calculatedFrom(""" ++ [128512]%N ++ runes_of_ascii """),
}

// `tick` ""quote"" 'q'
packet stringy {
    char[] packetx `
    `,
    string leftPad @lengthOf(float),
    @tag(65535)
    @lengthOf(packetx)
    @lengthOf(Pad)
    // trailing space 
    // " ++ [27880; 37322]%N ++ runes_of_ascii "
    repeatCount BodyLength,// a // b
    char[] A @lengthOf(a1) `two words`,
}

packet falsey {
}")).
Eval vm_compute in ("<<<M1389>>>" ++ check (runes_of_ascii "packet A // c1a
  // c1b
{
    // c2
u8 // c3a
  // c3b
a
    // c4
,
    // c5
} // c6a
  // c6b
packet
    // c7
B // c8
{
    // c9
u16
    // c10
b // c11a
  // c11b
, } root
    // c14
packet P
    // c16
{ // c17
u8 K , // c20
match
    // c21
K // c22
as // c23
M
    // c24
{
    // c25
[
    // c26
1 // c27a
  // c27b
, 2 ] // c30
:
    // c31
A
    // c32
, // c33a
  // c33b
3
    // c34
: // c35a
  // c35b
B , // c37
7 : // c39a
  // c39b
A // c40
,
    // c41
}
    // c42
, // c43a
  // c43b
}
    // c44
")).
Eval vm_compute in ("<<<M1783>>>" ++ check (runes_of_ascii "root

    packet
    u128
{
    } 
root

    packet	charz  {  // packet A { u8 x, }
  @tag(
7	)
MetaDataX
    ,  _x 
{
	uint32 As

,
    charz
, }
, len
    {

    int64
	u128,
    repeat 
falsey
	{
	x_y_z@lengthOf(asx

    ) 
  //	t
    // c
    ,  // c
  }
	,
repeatCount
	{metadata@calculatedFrom(
    ""\n"")
`doc` ,
Logon
	Foo
    // trailing space 
  	// " ++ [128512]%N ++ runes_of_ascii " emoji
    	,} // " ++ [27880; 37322]%N ++ runes_of_ascii "
		,
	float  rootA ,

    } 
,

    } 
// a // b
")).
Eval vm_compute in ("<<<M300>>>" ++ check (runes_of_ascii "
root
    packet pack
{
repeat u8x
    `a\`
    , char[ 3 ]MetaDataX `two words` ,
    @leftPad ( ' '  ) zchar[ 4294967296 ]crc
@calculatedFrom( """ ++ [128512]%N ++ runes_of_ascii """
)
    // c
    ,  @lengthOf(
    // " ++ [27880; 37322]%N ++ runes_of_ascii "
    options1 )
// " ++ [128512]%N ++ runes_of_ascii " emoji
// " ++ [27880; 37322]%N ++ runes_of_ascii "
@calculatedFrom( ""x y"" )repeat u{ repeat	x_y_z options1
`two words` , zchar[3	]
charz ,
    Logon { u8	pack ,
repeat zchar , i8i8{ repeat
    u8
    matchKey , }, } ,
}, }")).
Eval vm_compute in ("<<<M1886>>>" ++ check (runes_of_ascii "
options{

    As  =
    char[

    007  ]

    ;

_x // a // b
		=

1 ;
	matchKey  = true ; 
Logon // trailing space 
	=  ' '  ; 
stringy = /// triple
	zchar[
    007
] 
;
    }root
    packet
MetaDataX

{ //x
match 
leftPad
as
Logon
{  255	:packetx[

0123456789

]  :
	x_y_z , 10 
// `tick` ""quote"" 'q'

// a // b
	:

rootA }
    ,

    } ")).
Eval vm_compute in ("<<<M96>>>" ++ check (runes_of_ascii "options{
} packet /// triple
chars {
int64 i8i8
    /// triple
    @calculatedFrom( ""// no comment"" ) `line1
line2` ,
@calculatedFrom(
""`tick`"" )
    _x
    `" ++ [28040; 24687; 31867; 22411]%N ++ runes_of_ascii "` , match
float /// triple
as BodyLength  {//
""" ++ [28040; 24687]%N ++ runes_of_ascii """:
    x_y_z [ 7 , 10
    , """ ++ [233]%N ++ runes_of_ascii "t" ++ [233]%N ++ runes_of_ascii """	, 1 ,""x y"" , 3 ] :	i64_	,
} , // a // b
} packet
uint8x { } // " ++ [27880; 37322]%N)).
Eval vm_compute in ("<<<M92>>>" ++ check (runes_of_ascii "root
    packet packetx {	uint32
x_y_z@calculatedFrom( """ ++ [233]%N ++ runes_of_ascii "t" ++ [233]%N ++ runes_of_ascii """ ) ,@calculatedFrom(
    ""{,}"" // trailing space 
)	float calculatedFrom
`line1
line2` ,u16 Packet @lengthOf( f32a ) ,
char[] o `tab	here`, @calculatedFrom( ""x y""  )T {
repeat i64 chars , } ,
i16  roots	,
} // @lengthOf(")).
Eval vm_compute in ("<<<M1477>>>" ++ check (runes_of_ascii "options {
    LittleEndian = true;
}
packet Logon {
    u8 x,
    string user,
}
packet Logout {
    u16 reason,
}
packet Empty {
}
root packet Frame {
    u16 MsgType,
    @lengthOf(Body) u8 BodyLen,
    u8 flags,
    Logon Body,
    u32 trailer,
}
")).
Eval vm_compute in ("<<<M1588>>>" ++ check (runes_of_ascii "packet float {
    f64 float `u8 x,`,
    // " ++ [27880; 37322]%N ++ runes_of_ascii "
    //	t
    @tag(1)
    len tag `crlf
        line`,
}

root packet u {
    o x `it's`,
    @rightPad()
    repeat zchar[00] Foo,
    // trailing space 
}

root packet string_ {
}")).
Eval vm_compute in ("<<<M484>>>" ++ check (runes_of_ascii "options
{
matchKey = 42/// triple
x='0' ;
// packet A { u8 x, }
//
charz
=
// packet A { u8 x, }
// trailing space 
true  ; } MetaData BodyLength
{
uint8
pack`doc`zchar[ 1]float ,  float32 x_y_z `` ,u32
_x,i16 body  , }
")).
Eval vm_compute in ("<<<M549>>>" ++ check (runes_of_ascii "options
{
matchKey = 42/// triple
x='0' ;
// packet A { u8 x, }
//
charz
=
// packet A { u8 x, }
// trailing space 
true  ; } MetaData BodyLength
{
uint8
pack,zchar[ 1]float ,  float32 x_y_z `` ,u32
_x,match body  , }
")).
Eval vm_compute in ("<<<M413>>>" ++ check (runes_of_ascii "options
{
matchKey = 42/// triple
=x'0' ;
// packet A { u8 x, }
//
charz
=
// packet A { u8 x, }
// trailing space 
true  ; } MetaData BodyLength
{
uint8
pack,zchar[ 1]float ,  float32 x_y_z `` ,u32
_x,i16 body  , }
")).
Eval vm_compute in ("<<<M391>>>" ++ check (runes_of_ascii "options

matchKey = 42/// triple
x='0' ;
// packet A { u8 x, }
//
charz
=
// packet A { u8 x, }
// trailing space 
true  ; } MetaData BodyLength
{
uint8
pack,zchar[ 1]float ,  float32 x_y_z `` ,u32
_x,i16 body  , }
")).
Eval vm_compute in ("<<<M464>>>" ++ check (runes_of_ascii "options
{
matchKey = 42/// triple
x='0' ;
// packet A { u8 x, }
//
charz
=
// packet A { u8 x, }
// trailing space 
true  ; } MetaData uint64
{
uint8
pack,zchar[ 1]float ,  float32 x_y_z `` ,u32
_x,i16 body  , }
")).
Eval vm_compute in ("<<<M169>>>" ++ check (runes_of_ascii "packet u128 {
string
T
, }
packet
A { Pad { metadata f32a, match  i8i8
    as //x
crc { 7:a1,[ ""1"" ] :Foo	, 7
    : metadata
    // c
    , 65535 : pack
    ,	} , repeat char[] string_, }/// triple
,
}
")).
Eval vm_compute in ("<<<M697>>>" ++ check (runes_of_ascii "// c
packet i64_ {	char[] calculatedFrom , MetaData packet
trueish  {@calculatedFrom(
""a\\"" ) o { i32 falsey@lengthOf( uint8x ),
} , } // `tick` ""quote"" 'q'
options {// c
Z9_ = ' '//
}
")).
Eval vm_compute in ("<<<M688>>>" ++ check (runes_of_ascii "// c
packet i64_ \{	char[] calculatedFrom , } packet
trueish  {@calculatedFrom(
""a\\"" ) o { i32 falsey@lengthOf( uint8x ),
} , } // `tick` ""quote"" 'q'
options {// c
Z9_ = ' '//
}
")).
Eval vm_compute in ("<<<M714>>>" ++ check (runes_of_ascii "// c
packet i64_ {	char[] calculatedFrom , } packet
root  {@calculatedFrom(
""a\\"" ) o { i32 falsey@lengthOf( uint8x ),
} , } // `tick` ""quote"" 'q'
options {// c
Z9_ = ' '//
}
")).
Eval vm_compute in ("<<<M370>>>" ++ check (runes_of_ascii "packet
    rootA // packet A { u8 x, }
{ tag
`u8 x,`
, char[]	o	,
    i8i8	@lengthOf(
    // @lengthOf(
    stringy ) `// not a comment`
    ,
    // " ++ [128512]%N ++ runes_of_ascii " emoji
    }
")).
Eval vm_compute in ("<<<M1799>>>" ++ check (runes_of_ascii "
packet

A
{ u8
    a,
	}

    packet B
    {

u16 
b

, } root
packet
    P
{
u8
K
    ,
match
	K as
M  {
1
: 
A,

    1 :
	B

    , }
,
}")).
Eval vm_compute in ("<<<M1735>>>" ++ check (runes_of_ascii "

  packet
A
    { 
match  k
as 
n	{

    [

""a"" , 
22	, ""c c"" ,
    4
    , ""e""
, 
66 
,
""g"" , 8 ,""i"" ]
:

    B

2

    : C}
,
	}

")).
Eval vm_compute in ("<<<M1527>>>" ++ check (runes_of_ascii "

  packet
    A {
	match
k

as
    n {  [""a"" 
,
	""bb"",
    007 ,""d""
, ""e"" ,

66 ,
    ""g"" , 
""h"",  9  ]

    :
	B 2 :

C  },
	} ")).
Eval vm_compute in ("<<<M1800>>>" ++ check (runes_of_ascii "packet
    Logon
	{ @tag( 42 
)
	@rightPad  ( ' '

    )

@leftPad
(

)  repeat
    trueish

    {string
T 
, // c

}
	,} ")).
Eval vm_compute in ("<<<M682>>>" ++ check (runes_of_ascii "// c
packet i64_ {	char[] calculatedFrom , } packet
trueish  {@calculatedFrom(
""a\\"" ) o { i32 falsey@lengthOf( uint8x )")).
Eval vm_compute in ("<<<M1543>>>" ++ check (runes_of_ascii "MetaData float {
}

options {
    msg_type = ""a	b""
    i8i8 = true
    stringy = ""CRC32""
}

options {
    len = ""\" ++ [233]%N ++ runes_of_ascii """
}")).
Eval vm_compute in ("<<<M906>>>" ++ check (runes_of_ascii "packet A {
  match k as n {
    [""a"", ""bb"", ""c c"", ""d"", ""e"", ""f"", ""g"", ""h"", ""i"", ""j"", ""k"", ""l""] : B
    2 : C
  },
}")).
Eval vm_compute in ("<<<M606>>>" ++ check (runes_of_ascii "MetaData
    // trailing space 
    matchKey
{ u64  // a // b
,char[] lengthOf `// not a comment`
    , //	t
}")).
Eval vm_compute in ("<<<M909>>>" ++ check (runes_of_ascii "packet A {
  match k as n {
    [""a"", 22, ""c c"", 4, ""e"", 66, ""g"", 8, ""i"", 10, ""k"", 12] : B,
    2 : C
  },
}")).
Eval vm_compute in ("<<<M1905>>>" ++ check (runes_of_ascii "packet o {
    @tag(42)
    repeat x {
        // c
        char[0123456789] i64_,
    },
}

options {
}")).
Eval vm_compute in ("<<<M1278>>>" ++ check (runes_of_ascii "packet calculatedFrom { @tag( 4294967296 ) u msg_type , char[ 3 ] crc
// c
@lengthOf( len ) `u8 x,` , }")).
Eval vm_compute in ("<<<M2036>>>" ++ check (runes_of_ascii "
packet A
	{
match
k as  n  {[
	1, 
22
    , 007,

4  ,5
    ,

66]
    :

    B
    2
:  C 
},}")).
Eval vm_compute in ("<<<M1898>>>" ++ check (runes_of_ascii "// c
packet o {
    @tag(42)
    repeat x {
        char[0123456789] i64_,
    },
}

options {
}")).
Eval vm_compute in ("<<<M1156>>>" ++ check (runes_of_ascii "packet Logon { @tag( 42 ) @rightPad ( ' ' ) @leftPad ( ) repeat // c
trueish { string T , } , }")).
Eval vm_compute in ("<<<M270>>>" ++ check (runes_of_ascii "packet Pad { @calculatedFrom( ""CRC32"" ) @tag( 7 ) float32 u128 @calculatedFrom(""\n"")
    , }")).
Eval vm_compute in ("<<<M1700>>>" ++ check (runes_of_ascii "packet
A 
{Inner  {
u8	x
    `a
b` ,
    Deep
{

    u8
y
`a
b`

,

    },
	}	, }")).
Eval vm_compute in ("<<<M386>>>" ++ check (runes_of_ascii "root packet SimpleMessage {
	uint16 MsgType `" ++ [28040; 24687; 31867; 22411]%N ++ runes_of_ascii "`,
	string JsonBody `Json" ++ [23383; 31526; 20018; 28040; 24687; 20307]%N ++ runes_of_ascii "`,
}")).
Eval vm_compute in ("<<<M1206>>>" ++ check (runes_of_ascii "// c
packet o { @tag( 42 ) repeat x { char[ 0123456789 ] i64_ , } , } options { }")).
Eval vm_compute in ("<<<M1239>>>" ++ check (runes_of_ascii "packet o { @tag( 42 ) repeat x { char[ 0123456789 ] i64_ , } ,
// c
} options { }")).
Eval vm_compute in ("<<<M1378>>>" ++ check (runes_of_ascii "root

    packet P  { 
repeat
string

    ss

    ,	repeat 
u16	ns

,}
")).
Eval vm_compute in ("<<<M809>>>" ++ check (runes_of_ascii "packet A {
  match k as n {
    [""a"", ""bb"", 007, ""d""] : B,
    2 : C
  },
}")).
Eval vm_compute in ("<<<M263>>>" ++ check (runes_of_ascii "packet zchar
{
    roots
{ i64 f32a
    `" ++ [28040; 24687; 31867; 22411]%N ++ runes_of_ascii "`	, float32 zchar , }
, }")).
Eval vm_compute in ("<<<M1321>>>" ++ check (runes_of_ascii "MetaData _x { zchar[ 4294967296 ] lengthOf // c
`// not a comment` , }")).
Eval vm_compute in ("<<<M1097>>>" ++ check (runes_of_ascii "packet A {
    match k as n {
        1 : B,
        // c
    },
}")).
Eval vm_compute in ("<<<M1346>>>" ++ check (runes_of_ascii "root 
packet 
P

{

    hdr
{ 
u8
a  ,}
    ,
u8
x ,

}

")).
Eval vm_compute in ("<<<M1844>>>" ++ check (runes_of_ascii "root packet A {
    u8 x `a
            b
          c`,
}")).
Eval vm_compute in ("<<<M605>>>" ++ check (runes_of_ascii "MetaData
    // trailing space 
    matchKey
{")).
Eval vm_compute in ("<<<M1331>>>" ++ check (runes_of_ascii "
root packet	P {
char  c
, u8 x 
, 
} ")).
Eval vm_compute in ("<<<M1562>>>" ++ check (runes_of_ascii "packet
	A	{

u8

    x 
`a
b`, 
}

")).
Eval vm_compute in ("<<<M1780>>>" ++ check (runes_of_ascii "  root
packet P  { string 
s
	,}
")).
Eval vm_compute in ("<<<M328>>>" ++ check (runes_of_ascii "root packet roots
//x
// " ++ [27880; 37322]%N ++ runes_of_ascii "
{}")).
Eval vm_compute in ("<<<M1906>>>" ++ check (runes_of_ascii "
options

{zchar= false

;}")).
Eval vm_compute in ("<<<M1187>>>" ++ check (runes_of_ascii "options { // c
u8x = 3 }")).
Eval vm_compute in ("<<<M1567>>>" ++ check (runes_of_ascii "packet A {
    // a
}")).
Eval vm_compute in ("<<<M996>>>" ++ check (runes_of_ascii "// c" ++ [5760]%N ++ runes_of_ascii "
packet A {
}")).
Eval vm_compute in ("<<<M768>>>" ++ check ([65533; 65533]%N ++ runes_of_ascii "Oa" ++ [65533]%N ++ runes_of_ascii "?" ++ [65533; 65533; 65533; 65533]%N ++ runes_of_ascii "B" ++ [65533]%N ++ runes_of_ascii "'" ++ [65533]%N ++ runes_of_ascii "f" ++ [65533]%N ++ runes_of_ascii "l")).
Eval vm_compute in ("<<<M749>>>" ++ check (runes_of_ascii ":9,Tf#g ""r%g_")).
Eval vm_compute in ("<<<M999>>>" ++ check (runes_of_ascii "// c" ++ [8192]%N)).
