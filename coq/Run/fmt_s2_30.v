From FP Require Import Lexer Parser ShowPT Digest Formatter.
From Coq Require Import String List NArith.
Import ListNotations.
Open Scope string_scope.
Set Printing Width 100000000.
Set Printing Depth 100000000.
Definition show_fres (r : fres) : string :=
  match r with
  | FOk s => "OK:" ++ sh_escaped s ""
  | FErr s => "ERR:" ++ sh_escaped s ""
  | FPanic p => "PANIC:" ++ p
  end.
Definition check (rs : list rune) : string := digest (show_fres (format_res rs)).
Definition full (rs : list rune) : string := show_fres (format_res rs).
Eval vm_compute in ("<<<M689>>>" ++ check (runes_of_ascii "packet  lengthOf {
@leftPad (' ' ) match len
    // c
    as
As { ""1"" /// triple
:	leftPad , 255:
Pad ""1"" //	t
:  x ,  4294967296 : u128 ,
// c
// packet A { u8 x, }
} ,@rightPad ( )
crc
`say ""hi""` ,
@lengthOf(leftPad
) @calculatedFrom(	""a\\"" )
repeat // a // b
char[]_x`100% of %d`  ,
repeatCount // " ++ [27880; 37322]%N ++ runes_of_ascii "
asx
    , repeat u { match  falsey as i8i8 {
    """ ++ [233]%N ++ runes_of_ascii "t" ++ [233]%N ++ runes_of_ascii """
: float , [ ""\n"" ]:	_x, ""CRC32"" : roots ,	7: matchKey""packet"" :
    Foo
    //x
    , ""1"" :  int
, }, } ,
    i8 x// a // b
`
`
,
MetaDataX @lengthOf( f32a	)
, charz {
tag @calculatedFrom(""a\\""
) , MetaDataX @lengthOf(
matchKey
    )
    , int16 msg_type	,} ,
    @calculatedFrom( ""x y"" )
    match
    x_y_z as
    // 50% %s
    Z9_  {1
/// triple
// " ++ [128512]%N ++ runes_of_ascii " emoji
: lengthOf	,255 :	u128
    ,""it's"":// @lengthOf(
Z9_ ,
// @lengthOf(
// 50% %s
42  : //	t
len } ,
    //
    match calculatedFrom as crc
    { [ 0123456789
, 255
, ""packet"" , ""it's""  ,
    // @lengthOf(
    0,
""\n"" ,
    1 ,
0123456789 ] :  calculatedFrom	, 65535 : _x ""CRC32"" :tag, [
""`tick`""] : T,
    [
    ""it's""
, ""it's"" ,0123456789 ,""" ++ [128512]%N ++ runes_of_ascii """ , 4294967296
    // a // b
    ,
""`tick`"" ]://	t
pack
    // 50% %s
    ,} , } packet u8x
    {
} root packet string_ { @tag( 3// " ++ [128512]%N ++ runes_of_ascii " emoji
)
char[]crc , @rightPad (
'\x00' )
@leftPad ( ' '
    )
//x
// packet A { u8 x, }
repeat char[ // 50% %s
42] Foo ,
@calculatedFrom(
    ""{,}"" )
string stringy @lengthOf( chars) ,@tag(1 )
    zchar[ 007 ]charz// @lengthOf(
`" ++ [28040; 24687; 31867; 22411]%N ++ runes_of_ascii "` , repeat msg_type { char uint8x`say ""hi""`  ,
    char[ //
00
]
    options1
@calculatedFrom( """ ++ [233]%N ++ runes_of_ascii "t" ++ [233]%N ++ runes_of_ascii """ )	`" ++ [233]%N ++ runes_of_ascii "`  ,matchKey
@calculatedFrom( // packet A { u8 x, }
""1""// " ++ [128512]%N ++ runes_of_ascii " emoji
) , } ,@tag(0123456789
    )
    zchar[
00 ]lengthOf
    , @tag( 3 /// triple
) falsey // trailing space 
As , } packet lengthOf {
    chars {Packet
    `two words`, //
char[ //x
7 ] a1
    @calculatedFrom(
    //	t
    ""\" ++ [233]%N ++ runes_of_ascii """
)
//
// a // b
`doc`
    // packet A { u8 x, }
    , charz @calculatedFrom( """ ++ [233]%N ++ runes_of_ascii "t" ++ [233]%N ++ runes_of_ascii """ )
    , } , @lengthOf( body
)match	metadata as BodyLength
{""abc"" : chars
    , 255 :	o ,},  leftPad , repeat uint32 Logon  , }")).
Eval vm_compute in ("<<<M894>>>" ++ check (runes_of_ascii "// " ++ [27880; 37322]%N ++ runes_of_ascii "
packet	rootA { u128@lengthOf(
Packet// trailing space 
) , _x
    // a // b
    @lengthOf( f32a//
)`" ++ [28040; 24687; 31867; 22411]%N ++ runes_of_ascii "` ,calculatedFrom , @rightPad ( '0' ) // " ++ [27880; 37322]%N ++ runes_of_ascii "
float{matchKey matchKey ,
    f32
Header // c
@calculatedFrom( ""// no comment"" ) `doc`// a // b
,uint8x
    metadata , }// `tick` ""quote"" 'q'
,
    repeat
string_
    `" ++ [233]%N ++ runes_of_ascii "`,
u32 charz
, }
    packet i64_ { Z9_ asx
,
f32a // c
`// not a comment`// trailing space 
,
    char[] Packet @calculatedFrom(
""\" ++ [233]%N ++ runes_of_ascii """	)
// " ++ [128512]%N ++ runes_of_ascii " emoji
//x
`100% of %d` ,char[	007 ]u128  @calculatedFrom(
    """"), crc`a\`
// " ++ [128512]%N ++ runes_of_ascii " emoji
//
, @calculatedFrom( ""{,}"" // " ++ [128512]%N ++ runes_of_ascii " emoji
) //
@calculatedFrom(  ""it's""
) float64 chars , zchar @lengthOf(// packet A { u8 x, }
roots )``
, u8	lengthOf // " ++ [128512]%N ++ runes_of_ascii " emoji
@lengthOf(	x_y_z)
,
    @tag(// " ++ [27880; 37322]%N ++ runes_of_ascii "
65535 )
@tag(	1	) @calculatedFrom(""abc"" )
    repeat uint8	u // packet A { u8 x, }
`// not a comment`, } options{ i64_
    = '0'  zchar
    // c
    =
""" ++ [233]%N ++ runes_of_ascii "t" ++ [233]%N ++ runes_of_ascii """ ; lengthOf= ""\" ++ [233]%N ++ runes_of_ascii """ // 50% %s
body
    =
' '	; // trailing space 
i8i8= string
;}
    //x
    packet lengthOf
    {
@calculatedFrom( ""`tick`""
) @lengthOf( float ) // packet A { u8 x, }
repeat o , i32 A
`a\`
, i8i8 @calculatedFrom(""CRC32"" ) `it's`,@leftPad ( ' ') @tag(
10
) // 50% %s
char[] o	@lengthOf( MetaDataX// a // b
) `` ,uint64 Z9_
    @calculatedFrom( ""// no comment""
)
`// not a comment`, @rightPad( ) f32a { char[] stringy ,} ,
@leftPad () zchar[
10 ]
trueish , char
    calculatedFrom `it's` // `tick` ""quote"" 'q'
,
} MetaData
i64_{
    // @lengthOf(
    i8
roots ,
    lengthOf	pack  , // trailing space 
string
    Foo
`100% of %d` , f32 u8x `two words`,char[] chars, zchar[ 10 ]
u ,
//x
// `tick` ""quote"" 'q'
}
")).
Eval vm_compute in ("<<<M4312>>>" ++ check (runes_of_ascii "packet rootA {
    msg_type {
        calculatedFrom Foo,// " ++ [128512]%N ++ runes_of_ascii " emoji
        Logon {
            o,
            // " ++ [128512]%N ++ runes_of_ascii " emoji
            repeat As {
                crc,
                zchar[1] roots @lengthOf(tag),
            },
            _x o,
        },
        zchar[007] x_y_z,
        uint16 trueish,
    },
    zchar[42] Packet @calculatedFrom(""" ++ [28040; 24687]%N ++ runes_of_ascii """) `doc`,
    float BodyLength,
    @tag(65535)
    Logon @calculatedFrom(""a	b""),
    repeat matchKey _x `100% of %d`,
    // a // b
    @calculatedFrom(""" ++ [28040; 24687]%N ++ runes_of_ascii """)
    len u8x,
}

packet falsey {
    @lengthOf(rootA)
    char[] i64_ @lengthOf(BodyLength),// 50% %s
    @tag(00)
    @lengthOf(u8x)
    @leftPad()
    stringy a1,
    repeat pack {
        match Logon as A {
            ""\n"" : x,
        },// @lengthOf(
        pack u8x,
        match Logon as A {
            10 : uint8x,
        },
    },
    @calculatedFrom(""`tick`"")
    //
    /// triple
    @tag(255)
    @calculatedFrom(""it's"")
    match x_y_z as body {
        ""\" ++ [233]%N ++ runes_of_ascii """ : u,
        // " ++ [128512]%N ++ runes_of_ascii " emoji
        [""x y"", 10] : u8x,
        // " ++ [27880; 37322]%N ++ runes_of_ascii "
        ""// no comment"" : crc,
        [""x y"", 0123456789] : crc,
        ""a\\"" : tag,
        //
        """ ++ [233]%N ++ runes_of_ascii "t" ++ [233]%N ++ runes_of_ascii """ : leftPad,
        // @lengthOf(
        // `tick` ""quote"" 'q'
    },
    @lengthOf(f32a)
    @rightPad()
    char[7] chars @lengthOf(packetx),// 50% %s
    @tag(3)
    f32 Packet `line1
        line2`,
    @tag(3)
    repeat zchar[00] lengthOf,
}
// @lengthOf(")).
Eval vm_compute in ("<<<M53>>>" ++ check (runes_of_ascii "
root packet Pad
    { i64 leftPad @lengthOf(
// c
//x
repeatCount  )
    , } MetaData
uint8x {  char[]
    uint8x  ,Z9_
// @lengthOf(
/// triple
roots`` //
,  asx stringy
    ``  , _x asx ,
    }
    root	packet o
{
@leftPad	() char[ 255 ]
crc	`" ++ [28040; 24687; 31867; 22411]%N ++ runes_of_ascii "`,
char[
65535] // " ++ [27880; 37322]%N ++ runes_of_ascii "
i64_@lengthOf( u ) , repeat
pack
{
string a1`100% of %d`  , match // c
crc
as body { ""packet"": charz
//
// c
,[ 1 ]
: int/// triple
,
}
, } , int8// `tick` ""quote"" 'q'
A @calculatedFrom( ""x y"" ) `it's`
    , } packet
metadata	{ repeat
    lengthOf { int32 Z9_ // `tick` ""quote"" 'q'
`a\` ,pack@calculatedFrom( ""\n""
    ), tag `line1
line2` , u32// " ++ [27880; 37322]%N ++ runes_of_ascii "
calculatedFrom`two words` ,} , @tag(0123456789
) @leftPad
(
    )int8 _x `line1
line2` , match	rootA as u { 10: Z9_ ,
    // 50% %s
    0123456789  :
float 0 : float, [ ""it's"" ] : packetx,
    // trailing space 
    } , @lengthOf( string_
    ) zchar[ 0123456789]
// packet A { u8 x, }
// 50% %s
body@lengthOf( repeatCount
    )
    ,@calculatedFrom(""\n""
    )
// @lengthOf(
// 50% %s
match/// triple
body as u8x
{ // trailing space 
""a\""b"" : T
,	[ ""\n"", """ ++ [233]%N ++ runes_of_ascii "t" ++ [233]%N ++ runes_of_ascii """ , ""CRC32"" ,255 ,
7, // " ++ [128512]%N ++ runes_of_ascii " emoji
""// no comment""
, """ ++ [28040; 24687]%N ++ runes_of_ascii """ ]	: x
,  255
    :  packetx
    /// triple
    }, @tag( 65535
    ) repeat Header zchar ,
    @lengthOf( u) u16 body `100% of %d`,
}
")).
Eval vm_compute in ("<<<M715>>>" ++ check (runes_of_ascii "// `tick` ""quote"" 'q'
packet
u128 { @calculatedFrom(
""packet"" )	string_ @lengthOf(charz
) `doc`,
match msg_type as	crc	{
    ""\" ++ [233]%N ++ runes_of_ascii """
    : u8x ,
[ 3,// " ++ [27880; 37322]%N ++ runes_of_ascii "
""abc""
,""// no comment""
,
    ""a\""b"" , ""a	b"" , 007 ]
    :matchKey 00 : stringy // trailing space 
, 1
:  string_
// " ++ [27880; 37322]%N ++ runes_of_ascii "
// " ++ [128512]%N ++ runes_of_ascii " emoji
,3: Header , [
007
,
""`tick`""]
:
    // 50% %s
    BodyLength ,
} ,@lengthOf( rootA
    ) @lengthOf( x_y_z
// 50% %s
// trailing space 
)@tag( 4294967296
) zchar[ 4294967296] u128 // packet A { u8 x, }
`say ""hi""` ,Packet @calculatedFrom( ""`tick`""
)
    ,	options1
{ // 50% %s
repeat
    len falsey `line1
line2`
,
    // 50% %s
    int64 // packet A { u8 x, }
lengthOf
    ,} , }
    options{ rootA =false ;  roots = zchar[
10]
;
} packet uint8x { @calculatedFrom(
""packet"")@calculatedFrom(""it's""
//
//
)Logon
// 50% %s
// " ++ [27880; 37322]%N ++ runes_of_ascii "
{
u64 falsey	, repeat
    f32 packetx
,
    uint16 packetx,zchar[ 3] x_y_z
@lengthOf( falsey
    //	t
    ) `" ++ [28040; 24687; 31867; 22411]%N ++ runes_of_ascii "`,}
,@tag( 00  ) u32 Packet	`{ , }` , @lengthOf(	float
)	f64
    roots
// c
// " ++ [27880; 37322]%N ++ runes_of_ascii "
@lengthOf( _x
),
    @tag(
    7 )
repeat u8
_x `crlf
line`, zchar[  10 ]
stringy
// " ++ [27880; 37322]%N ++ runes_of_ascii "
// " ++ [27880; 37322]%N ++ runes_of_ascii "
@calculatedFrom( ""\n"" )
,
    }
MetaData chars
    { }
")).
Eval vm_compute in ("<<<M3880>>>" ++ check (runes_of_ascii "MetaData chars {
    // @lengthOf(
    falsey As,
    char[42] o,// " ++ [128512]%N ++ runes_of_ascii " emoji
    string_ Header,
}

MetaData falsey {
    zchar[0] falsey `{ , }`,
    int32 MetaDataX,
    char[255] Foo,
    int64 u128,
    char[] u128,// packet A { u8 x, }
}

packet metadata {
    // packet A { u8 x, }
    //	t
    metadata @calculatedFrom(""`tick`""),
    repeat pack roots `line1
        line2`,
    string_ @calculatedFrom(""\n""),
    repeat trueish {
        trueish T,
        //x
        // `tick` ""quote"" 'q'
        u16 asx,
        body {
            repeat _x {
                _x @lengthOf(i8i8) `say ""hi""`,
                // a // b
                //
            },
        },
    },
    @calculatedFrom(""a\\"")
    repeat chars {
        f32a {
            // c
            zchar[255] msg_type,
            repeat float64 stringy `
                        `,
        },
        repeat uint8x `tab	here`,
        Logon {
            repeat f64 MetaDataX,
            u64 T @lengthOf(body),
        },
    },
    @lengthOf(trueish)
    // " ++ [27880; 37322]%N ++ runes_of_ascii "
    // @lengthOf(
    float64 _x @calculatedFrom(""" ++ [128512]%N ++ runes_of_ascii """),
}

MetaData chars {
}")).
Eval vm_compute in ("<<<M3711>>>" ++ check (runes_of_ascii "root

    packet int

    {char[ 4294967296]
	Pad ,}  
  //
  // @lengthOf(
	packet
MetaDataX 
{ @lengthOf( string_
	)
    @tag(	1 )match
// " ++ [128512]%N ++ runes_of_ascii " emoji
	  repeatCount  as leftPad
{
007
:

MetaDataX
,}  ,

@rightPad
	(' '
    )@tag( 
4294967296) 
zchar[	255
]chars //x
  , 

//	t
@tag(

    7) 
match	trueish as
    matchKey
    {
    [10

    ] 
:zchar
	[

1]
	:
// a // b
  	x 
,
    4294967296 :falsey 
, [
    ""packet""
        /// triple
  // trailing space 
    ,
""`tick`"", ""\n"" ,

007 ,	255 ,
""`tick`""	//	t
,

    """ ++ [28040; 24687]%N ++ runes_of_ascii """
]
    :
f32a

    ,
	[ 4294967296 

    // c
    , ""1"" ,  ""a\\""
	// " ++ [128512]%N ++ runes_of_ascii " emoji
, ""it's""
    ,

    ""`tick`""	, 00
	,
10 ] : matchKey, 0
:int ,
}  ,
zchar[
    00 ]  msg_type ,  @tag(3

)  pack

@calculatedFrom(	""CRC32"" ) 
, msg_type 
      // c

  // " ++ [128512]%N ++ runes_of_ascii " emoji
    lengthOf , MetaDataX { 
float

{repeat i64_,}
,int  BodyLength  , }  ,
	char[]
crc`// not a comment`

    ,char[]

    o
    @calculatedFrom(
""CRC32"" 
)
, // `tick` ""quote"" 'q'

  i16

As
    @lengthOf(
	len
    )

    `" ++ [233]%N ++ runes_of_ascii "`	,}
")).
Eval vm_compute in ("<<<M392>>>" ++ check (runes_of_ascii "packet options1
{body { i8 i8i8,
falsey @calculatedFrom(
    """ ++ [28040; 24687]%N ++ runes_of_ascii """ ) ,a1 @calculatedFrom( ""a	b"" )  `tab	here`, }
    , u8
u8x `u8 x,`	,  @leftPad
(
' '
)@lengthOf( a1) @tag( 42 // c
)
    // 50% %s
    uint8x
@calculatedFrom( ""{,}"" //x
),
    @tag( 65535 ) @tag( 42) repeat uint64 i64_
    /// triple
    `{ , }`  ,@leftPad (
'\x00' )
uint16
    stringy// packet A { u8 x, }
, zchar
,
    repeat // trailing space 
i64_ leftPad ,
charz i64_
    ,len @calculatedFrom(
    // c
    ""packet"") , /// triple
}// @lengthOf(
packet	calculatedFrom { repeat packetx{
repeat string
options1 ,
    // `tick` ""quote"" 'q'
    } , // 50% %s
int64
msg_type , @tag( 3 //	t
)
leftPad	float ,
    match /// triple
body as Pad { 255
    :
    calculatedFrom
    , [
""it's"" ,  """"
    ,
    ""CRC32""	,
4294967296
, 10
,""" ++ [233]%N ++ runes_of_ascii "t" ++ [233]%N ++ runes_of_ascii """
, 0123456789 ] :trueish 10 :
Z9_, [
    ""a\\"" ] ://
roots, 0123456789// 50% %s
:  rootA	, } , } options{options1= 0123456789
    } options { // " ++ [128512]%N ++ runes_of_ascii " emoji
}
")).
Eval vm_compute in ("<<<M4456>>>" ++ check (runes_of_ascii "packet float {
    @tag(3)
    repeat zchar[3] falsey,
    @leftPad()
    packetx calculatedFrom,
    o @lengthOf(i8i8),
    i64 o,
    char[0] stringy,
    match metadata as metadata {
        0 : BodyLength,
        ""it's"" : u,
        3 : chars,
        255 : asx,
        [4294967296, 10] : int,
        4294967296 : stringy,
    },
    Foo {
        match chars as A {
            ""a\\"" : Packet,
            [
                0123456789, 0123456789, 0123456789, """ ++ [128512]%N ++ runes_of_ascii """, ""1"",
                3, ""CRC32""
            ] : msg_type,
        },
        match body as int {
            7 : packetx,
        },
        i8 zchar @calculatedFrom(""\n""),
        match stringy as Foo {
            65535 : calculatedFrom,
            // c
        },
    },
    @rightPad('\x00')
    MetaDataX pack `" ++ [28040; 24687; 31867; 22411]%N ++ runes_of_ascii "`,
}

options {
    roots = 65535;
}

MetaData float {
    Foo f32a,
}

options {
    f32a = 1
}

options {
    Packet = '\x00';
}")).
Eval vm_compute in ("<<<M293>>>" ++ check (runes_of_ascii "packet x_y_z { uint16
Logon
    @lengthOf(
u128)
    // " ++ [27880; 37322]%N ++ runes_of_ascii "
    , stringy
// " ++ [27880; 37322]%N ++ runes_of_ascii "
//	t
{ match //x
MetaDataX as // " ++ [27880; 37322]%N ++ runes_of_ascii "
asx
    {
    ""a\\"" // 50% %s
: T 255 :
    lengthOf , 00
    :// @lengthOf(
roots ,
    65535 :  rootA
,10: len
    /// triple
    ,
    } , zchar[ 00] x
    `// not a comment`	, }
    ,int32	Pad ,
// " ++ [128512]%N ++ runes_of_ascii " emoji
// packet A { u8 x, }
u8 crc
    `
` //x
,@calculatedFrom( ""`tick`""
    //x
    ) Pad , // trailing space 
string stringy
    @lengthOf( metadata ) , match u128
    as  asx{[  1 , """" ] : BodyLength  4294967296 // " ++ [128512]%N ++ runes_of_ascii " emoji
: rootA , [ """ ++ [233]%N ++ runes_of_ascii "t" ++ [233]%N ++ runes_of_ascii """ ] :
float
    // " ++ [128512]%N ++ runes_of_ascii " emoji
    , [	007
, ""`tick`"" ] : int, }
,@leftPad
('\x00' )
match
    // c
    uint8x as pack{[ ""\n"" ,
""a	b"" , 10 // " ++ [27880; 37322]%N ++ runes_of_ascii "
, 255 , ""a	b"", """"
    ] :repeatCount , },@calculatedFrom(""a\""b""
// a // b
//x
)// c
x_y_z
@lengthOf( x ) `line1
line2` , @calculatedFrom( ""1""	)repeat float32 roots, }
")).
Eval vm_compute in ("<<<M830>>>" ++ check (runes_of_ascii "packet f32a { @calculatedFrom( ""abc"" ) //x
match
metadata as
    packetx
    {
""it's""
: // " ++ [128512]%N ++ runes_of_ascii " emoji
float , """ ++ [128512]%N ++ runes_of_ascii """ : i64_ , // " ++ [27880; 37322]%N ++ runes_of_ascii "
007 :
pack,	[	0123456789 , """ ++ [233]%N ++ runes_of_ascii "t" ++ [233]%N ++ runes_of_ascii """ ,
    // @lengthOf(
    ""`tick`"" , 255 //	t
] : i8i8 ,} ,int64 Pad `" ++ [233]%N ++ runes_of_ascii "` , match
i8i8 as packetx {0123456789 :
u ,	[10]: crc,0123456789
:u128,
    } ,
    // c
    }
    MetaData charz
{ u8	Z9_ , }packet leftPad{ roots As ,@rightPad
    ( '0'
    )
    charz
x ,  char[]
    uint8x`
`
    , Pad	A
, // packet A { u8 x, }
@leftPad(  '0')	@tag( 1 ) @rightPad (
    ) char[ 4294967296
]	x_y_z `doc` , @tag(1) @rightPad ( ' ' ) Logon @calculatedFrom( ""packet"") , @tag( 1)repeat zchar[ 255
// a // b
// " ++ [27880; 37322]%N ++ runes_of_ascii "
] rootA //	t
, string calculatedFrom  `crlf
line` , @rightPad
    ( ' ' ) @calculatedFrom( ""\n"" )
@tag( 4294967296) //x
chars @calculatedFrom(
""" ++ [233]%N ++ runes_of_ascii "t" ++ [233]%N ++ runes_of_ascii """	)`{ , }` , int
    ,
    }
")).
Eval vm_compute in ("<<<M468>>>" ++ check (runes_of_ascii "root packet
A { char[
1 ]calculatedFrom ,
@lengthOf( tag) repeat
    uint16 float , @calculatedFrom( ""a\""b"" ) char[]
rootA @calculatedFrom( ""CRC32"" ) ,char[
/// triple
// packet A { u8 x, }
00 // `tick` ""quote"" 'q'
] a1
`" ++ [233]%N ++ runes_of_ascii "`
, Packet  {
calculatedFrom {
    falsey
    charz
`a\` ,T
`u8 x,`	,
BodyLength @calculatedFrom( ""a\""b"") `say ""hi""` ,
    // c
    } //x
,
repeat zchar[ 0 ]
//x
// c
rootA , } ,
@calculatedFrom( ""1"")
match
    Foo
    as msg_type
    // packet A { u8 x, }
    { 0: u8x,4294967296 :
u, 1 :
    x , // 50% %s
["""" ,
    // " ++ [128512]%N ++ runes_of_ascii " emoji
    10 ,0, ""x y"" ,""" ++ [128512]%N ++ runes_of_ascii """,	00 ]
:	trueish,}, //	t
zchar[0123456789  ]
// `tick` ""quote"" 'q'
// c
Packet @lengthOf( matchKey
) `100% of %d` //x
, matchKey, }  root
    packet Packet
{ @rightPad ( '\x00'
)  match
o
as int { [
""" ++ [28040; 24687]%N ++ runes_of_ascii """ ] : trueish,} ,
}
")).
Eval vm_compute in ("<<<M702>>>" ++ check (runes_of_ascii "root packet trueish{ @lengthOf(A)
    repeat
    roots { repeat len stringy
    // 50% %s
    `two words` ,	A @calculatedFrom( ""x y"" ) ,
//x
// c
match MetaDataX as roots
// a // b
// `tick` ""quote"" 'q'
{""CRC32"" :
len
,
    /// triple
    [ ""\" ++ [233]%N ++ runes_of_ascii """
, """ ++ [28040; 24687]%N ++ runes_of_ascii """
    ]: BodyLength ,
""" ++ [28040; 24687]%N ++ runes_of_ascii """ :
stringy}
, }, A stringy ,zchar[7 ]	chars`" ++ [28040; 24687; 31867; 22411]%N ++ runes_of_ascii "`,Pad { i8i8 , match roots as u128{ ""x y"" : u128
, [  1 ] : uint8x , 0123456789 :
f32a , // " ++ [128512]%N ++ runes_of_ascii " emoji
""it's""  : u8x,} , match
// c
// " ++ [128512]%N ++ runes_of_ascii " emoji
T	as
/// triple
//
repeatCount { 255: falsey
,
    //
    [ 1 , ""a\""b"" ] :x_y_z ,
[""packet""
, 42
,
""" ++ [128512]%N ++ runes_of_ascii """ , """ ++ [233]%N ++ runes_of_ascii "t" ++ [233]%N ++ runes_of_ascii """ // 50% %s
, 3	, ""a	b"" // " ++ [128512]%N ++ runes_of_ascii " emoji
] : lengthOf	,0 : uint8x , 42 :
    BodyLength , [  0
// a // b
// a // b
,
""x y""]
    :
Header ,
    } ,
zchar[
// " ++ [27880; 37322]%N ++ runes_of_ascii "
// " ++ [128512]%N ++ runes_of_ascii " emoji
42 ]Foo
, }
,
}
")).
Eval vm_compute in ("<<<M4287>>>" ++ check (runes_of_ascii "packet body {
    @tag(0123456789)
    repeatCount {
        // @lengthOf(
        i32 roots @calculatedFrom(""it's""),
        char[] repeatCount @calculatedFrom(""packet"") `" ++ [28040; 24687; 31867; 22411]%N ++ runes_of_ascii "`,
        repeat u16 roots,
        match lengthOf as As {
            [""packet"", """ ++ [28040; 24687]%N ++ runes_of_ascii """, 255, 42, ""\" ++ [233]%N ++ runes_of_ascii """] : x_y_z,
        },
    },
    trueish,
    @tag(65535)
    @tag(255)
    /// triple
    @tag(00)
    chars @calculatedFrom(""it's""),
    match o as roots {
        // " ++ [27880; 37322]%N ++ runes_of_ascii "
        // c
        ""{,}"" : options1,
        """ ++ [28040; 24687]%N ++ runes_of_ascii """ : lengthOf,
        00 : pack,
        [""a\""b""] : msg_type,
        1 : i8i8,
        [10, 3, """"] : falsey,
    },
}

root packet Z9_ {
    repeat char[] Packet,
    string chars @calculatedFrom(""a\""b"") `100% of %d`,
}")).
Eval vm_compute in ("<<<M1098>>>" ++ check (runes_of_ascii "options
{ // 50% %s
} packet Packet { @leftPad ('\x00' )  x_y_z
,
@tag( 3
    )repeat string
stringy , Foo{
    Header@lengthOf(  repeatCount ) ,
    // `tick` ""quote"" 'q'
    repeat falsey Header, uint8x
roots
// " ++ [128512]%N ++ runes_of_ascii " emoji
// c
,
    /// triple
    } , int64 calculatedFrom
, } root packet rootA {
i8i8 string_ ,
    zchar[	0
] crc @calculatedFrom( ""a	b"" //x
) , string_ { pack ,
x_y_z	crc	`" ++ [28040; 24687; 31867; 22411]%N ++ runes_of_ascii "`,} , @leftPad ( '0'
)match
int as // @lengthOf(
body { """ ++ [233]%N ++ runes_of_ascii "t" ++ [233]%N ++ runes_of_ascii """: tag
    ,""1"" :
// packet A { u8 x, }
// @lengthOf(
charz , ""\n"" : MetaDataX  , ""a	b"": repeatCount , //	t
"""" :  leftPad[ ""\n"" ,  ""// no comment"" ]
:lengthOf, } ,  @lengthOf( len )  int32 Pad
// c
// @lengthOf(
`line1
line2` ,}
")).
Eval vm_compute in ("<<<M470>>>" ++ check (runes_of_ascii "packet
_x
    { match  matchKey as
packetx	{ 007 :crc,} , match trueish as A // 50% %s
{""" ++ [233]%N ++ runes_of_ascii "t" ++ [233]%N ++ runes_of_ascii """
    :a1
    ,
[ ""packet"" , ""x y"" ,
""" ++ [233]%N ++ runes_of_ascii "t" ++ [233]%N ++ runes_of_ascii """,
    """ ++ [233]%N ++ runes_of_ascii "t" ++ [233]%N ++ runes_of_ascii """,
    """ ++ [28040; 24687]%N ++ runes_of_ascii """ /// triple
]:
    msg_type 10 :packetx""{,}"":	u
    // c
    , 42:	tag
, } , zchar[
    255 ] crc `100% of %d`, matchKey crc
`" ++ [28040; 24687; 31867; 22411]%N ++ runes_of_ascii "` ,	@calculatedFrom( ""packet"" ) //	t
@lengthOf(Z9_ ) @leftPad ( '0' )lengthOf x_y_z ,string
    asx ``,@rightPad ( ' ' )	match chars
as	calculatedFrom { [ ""a\\""
// 50% %s
/// triple
,
    // packet A { u8 x, }
    0 ] : trueish 3 : BodyLength ""{,}"" :
    len} ,repeat zchar[
4294967296 ] // 50% %s
A `line1
line2` ,
    repeat
    char	uint8x `` , zchar[	1 ]	matchKey ,}
")).
Eval vm_compute in ("<<<M409>>>" ++ check (runes_of_ascii "// " ++ [128512]%N ++ runes_of_ascii " emoji
packet trueish{u16 crc`line1
line2` ,
// @lengthOf(
// 50% %s
roots
    //
    ,int
{i64_
    x_y_z	, u8x `a\`,
f32
A //	t
`it's`,
    // `tick` ""quote"" 'q'
    } , calculatedFrom,  char[]chars// " ++ [128512]%N ++ runes_of_ascii " emoji
`{ , }` , zchar[10 ]
    BodyLength  ,@lengthOf( asx
)
    @rightPad ( '\x00' ) @tag( 10) calculatedFrom Z9_
`{ , }`
    ,
@lengthOf(
MetaDataX ) repeat string  calculatedFrom `it's` ,@tag( 4294967296
    // packet A { u8 x, }
    ) packetx , } packet Header { @rightPad(
' ' )	@calculatedFrom(""" ++ [28040; 24687]%N ++ runes_of_ascii """
) repeat charz {
    repeat zchar[ 7// 50% %s
] i64_
    `tab	here` , u64 o
, int MetaDataX `100% of %d` , } ,	}")).
Eval vm_compute in ("<<<M658>>>" ++ check (runes_of_ascii "root packet float{
    @calculatedFrom(
/// triple
// trailing space 
""CRC32"" )match roots
as
calculatedFrom
    {
007  : float,
    //	t
    } , match o as charz {//
00 : Packet
// packet A { u8 x, }
// c
65535 : lengthOf
1:
tag ,}
    ,	@rightPad ( '\x00')
int16 Header @lengthOf(u128 ) `" ++ [28040; 24687; 31867; 22411]%N ++ runes_of_ascii "` , } root
    packet lengthOf { @rightPad ( '\x00' ) @lengthOf( tag
    // a // b
    )  char[]	BodyLength , repeat int8
Foo , @lengthOf( roots ) string Z9_ `// not a comment` , u16
tag ,
    @tag(007//	t
)  Header @calculatedFrom( """ ++ [28040; 24687]%N ++ runes_of_ascii """	) ,}
    root packet u8x
    { @rightPad('0' )
    i64 Packet , }
")).
Eval vm_compute in ("<<<M670>>>" ++ check (runes_of_ascii "  packet stringy
//
//
{
@lengthOf( int) @lengthOf(lengthOf) repeat
zchar[ 65535] x, match Z9_
    as x_y_z{	""a\""b"": x_y_z
    , """ ++ [128512]%N ++ runes_of_ascii """ : i8i8 ,3 : // " ++ [27880; 37322]%N ++ runes_of_ascii "
i64_ ""packet"":
    charz
// packet A { u8 x, }
/// triple
} ,	matchKey { char[ 7 ] repeatCount
@lengthOf(len //x
) `100% of %d`,
}
, // trailing space 
char[] leftPad, i8i8 @calculatedFrom(// @lengthOf(
""abc"" ) `say ""hi""` , } packet f32a
    {
    } options
{matchKey = ""abc""  ; int =zchar[ 0  ] ;float
= '\x00'
; int='\x00'} root // @lengthOf(
packet
    // trailing space 
    a1 {
    repeat Header { Foo
,}
, }")).
Eval vm_compute in ("<<<M4023>>>" ++ check (runes_of_ascii "MetaData trueish {
    trueish len,
    string T,
    char[0123456789] chars,
    falsey As `it's`,
    chars calculatedFrom,
    char[] options1,
}

root packet leftPad {
    @rightPad(' ')
    repeat matchKey {
        // 50% %s
        msg_type @calculatedFrom(""" ++ [233]%N ++ runes_of_ascii "t" ++ [233]%N ++ runes_of_ascii """),
    },
    zchar[65535] metadata `a\`,
    repeat char[0123456789] falsey `
        `,
}

root packet falsey {
    f32a `crlf
        line`,
}

//x
// " ++ [27880; 37322]%N ++ runes_of_ascii "
options {
    u8x = ""a\""b""
}

MetaData options1 {
    uint8 tag `line1
        line2`,
    char lengthOf,
    zchar[0] As,
}")).
Eval vm_compute in ("<<<M1089>>>" ++ check (runes_of_ascii "// packet A { u8 x, }
packet
    float
{ @rightPad ( '0'
// `tick` ""quote"" 'q'
// " ++ [27880; 37322]%N ++ runes_of_ascii "
) repeat zchar[ 3 ] u128 `tab	here` , @rightPad //	t
( '\x00' )
    @calculatedFrom( """ ++ [28040; 24687]%N ++ runes_of_ascii """
)
    //
    T MetaDataX
,
@tag( 007 )zchar[
42// 50% %s
] metadata // packet A { u8 x, }
`say ""hi""` ,
zchar[ 255 ] zchar
,
    } options {// " ++ [128512]%N ++ runes_of_ascii " emoji
body= """"  } MetaData crc{ zchar[
    0123456789 ]
    chars
`say ""hi""` ,
    matchKey /// triple
Header `{ , }`,
    uint16 i8i8 `{ , }`,  char[4294967296] //
falsey
    `a\`,
    charz pack`crlf
line`
, }
")).
Eval vm_compute in ("<<<M548>>>" ++ check (runes_of_ascii "packet
options1 { //
char[] zchar
    // 50% %s
    `" ++ [28040; 24687; 31867; 22411]%N ++ runes_of_ascii "` ,zchar[ 1 ]
    // trailing space 
    u8x
`line1
line2`, @tag(
    0)
    @calculatedFrom(""" ++ [28040; 24687]%N ++ runes_of_ascii """) match repeatCount
    as float { // " ++ [27880; 37322]%N ++ runes_of_ascii "
[ 3  ,
""1"" ,
255 ,// trailing space 
""packet"" // 50% %s
, 0123456789 , 0123456789 ,
// " ++ [128512]%N ++ runes_of_ascii " emoji
// 50% %s
4294967296]:
tag ,4294967296 : /// triple
float , } , repeat
string roots// " ++ [128512]%N ++ runes_of_ascii " emoji
`" ++ [28040; 24687; 31867; 22411]%N ++ runes_of_ascii "` , f64 int, @leftPad ( '\x00' ) uint8 packetx , repeat
    char[]
float , uint64  zchar @lengthOf( msg_type )`` , }
")).
Eval vm_compute in ("<<<M3394>>>" ++ check (runes_of_ascii "// top
MetaData // c0
Pad // c1
{ // c2
x_y_z // c3
a1 // c4
, // c5
int8 // c6
trueish // c7
`two words` // c8
, // c9
char[] // c10
x_y_z // c11
`{ , }` // c12
, // c13
zchar[ // c14
1 // c15
] // c16
pack // c17
`
` // c18
, // c19
len // c20
i64_ // c21
, // c22
} // c23
MetaData // c24
crc // c25
{ // c26
zchar[ // c27
7 // c28
] // c29
Z9_ // c30
, // c31
char[] // c32
options1 // c33
, // c34
uint32 // c35
options1 // c36
, // c37
u // c38
MetaDataX // c39
, // c40
} // c41
")).
Eval vm_compute in ("<<<M443>>>" ++ check (runes_of_ascii "//x
root
// " ++ [27880; 37322]%N ++ runes_of_ascii "
// `tick` ""quote"" 'q'
packet o
    {
@calculatedFrom( ""a\\""
) // 50% %s
f64  a1 ,// @lengthOf(
f64 charz
@calculatedFrom( ""abc""
    )
,zchar[
0123456789
]asx // trailing space 
,len
    @calculatedFrom( ""a\\"" ), }
packet tag
{
i64 Pad @lengthOf( Header )
    ,
} packet msg_type {
    @lengthOf(
Header )string matchKey @calculatedFrom(
""it's"" ) , repeat
    string
msg_type ,
    string pack ,
    zchar[
// " ++ [27880; 37322]%N ++ runes_of_ascii "
/// triple
00] x_y_z
,
    }
")).
Eval vm_compute in ("<<<M4332>>>" ++ check (runes_of_ascii "
// top

  packet 	 // c0a
// c0b
	  B
        // c1
    	{ 	 // c2a
      // c2b

	u8// c3a
// c3b
  a // c4
	,  
  // c5
	}	// c6
  root

packet// c8a

  // c8b
	  P  {	// c10
	  u8// c11a

  // c11b
K// c12
	, // c13
		match 
K
    // c15

	as  // c16
  	Body{ 	 // c18a
    // c18b
		1  // c19a
    // c19b
	  :B 	 // c21
	  , } ,

u16	// c25
    L@lengthOf(// c27a
// c27b
		Body 	 // c28
	)// c29
,  // c30
  } 	 // c31
")).
Eval vm_compute in ("<<<M3835>>>" ++ check (runes_of_ascii "MetaData uint8x {
    uint8 u,
    int16 packetx,
    char[7] metadata `line1
    line2`,
    char[] i8i8 `crlf
    line`,
}

packet u {
    string x_y_z,
    repeat Foo asx,
    trueish {
        u @lengthOf(calculatedFrom),
        i8i8 {
            repeat char[65535] Logon,
        },
        char[] o,
        f64 repeatCount `
        `,
    },
    packetx u128,
}

options {
    roots = false;
    trueish = char[1];
}")).
Eval vm_compute in ("<<<M4302>>>" ++ check (runes_of_ascii "  MetaData
crc

{
    int
    matchKey , i32
	msg_type

`tab	here`,
i8 As
	`it's`
,	f64  asx  ,  // " ++ [27880; 37322]%N ++ runes_of_ascii "
  }	root

packet
	i8i8

    { match
	body as /// triple
  	o{
3 :	i8i8

    , 007
: u128
    ,
10

: calculatedFrom 
,
	[  // trailing space 

	3	,
    0
] 
:

    rootA 
  // @lengthOf(
      ,
	} ,
} 
	    // " ++ [128512]%N ++ runes_of_ascii " emoji
	  MetaData Pad

{ i32 
    // " ++ [27880; 37322]%N ++ runes_of_ascii "
	// " ++ [128512]%N ++ runes_of_ascii " emoji
  asx
, }// packet A { u8 x, }
 
")).
Eval vm_compute in ("<<<M639>>>" ++ check (runes_of_ascii "options
    {  }root packet repeatCount {
@lengthOf( calculatedFrom// packet A { u8 x, }
)
    float  @calculatedFrom(""a\\"" ),
zchar[
007]
    zchar `" ++ [28040; 24687; 31867; 22411]%N ++ runes_of_ascii "`
, @tag(3  )uint32 BodyLength @calculatedFrom(""a\\""
) `
`
, @calculatedFrom(
""1""
    )uint64 leftPad
    ,@rightPad ('\x00' )
    @rightPad ( '\x00' )
    repeat u128 , } options { } MetaData MetaDataX {msg_type
Z9_`u8 x,` ,  string	Logon , }")).
Eval vm_compute in ("<<<M156>>>" ++ check (runes_of_ascii "options {// @lengthOf(
float=
    char[];
T
    = false ;
A = char[] ; options1 = true ;
    matchKey = f64  ;} MetaData
u8x { crc msg_type
    ,	repeatCount Pad `// not a comment` , uint32 tag `" ++ [28040; 24687; 31867; 22411]%N ++ runes_of_ascii "`
// packet A { u8 x, }
//x
, int32 repeatCount ,packetx
falsey,
    }options
{ trueish = string
    // trailing space 
    ;
    i64_ =""a\\"" i64_ = int64	;
lengthOf =string; }
")).
Eval vm_compute in ("<<<M1383>>>" ++ check (runes_of_ascii "
root packet
    //x
    o
{	@tag(65535 ) // c
rootA
@calculatedFrom(
    ""a	b"")
`two words` ,
    // a // b
    }
    // a // b
    root packet
    // trailing space 
    Foo { @lengthOf(x_y_z
    )@tag( 0123456789 ) //x
@calculatedFrom(	""" ++ [128512]%N ++ runes_of_ascii """ )
i8i8 , f32 int/// triple
,
@calculatedFrom( ""it's""
)
i64 MetaDataX @calculatedFrom( ""x y""
    ) `` , } packet zchar
{	}
")).
Eval vm_compute in ("<<<M1215>>>" ++ check (runes_of_ascii "//
packet BodyLength //x
{//x
body , a1 ,@tag( 255) // " ++ [128512]%N ++ runes_of_ascii " emoji
repeat u128  { repeat
    string_ , repeatCount  pack // @lengthOf(
, repeat	stringy {zchar[
10] crc
    ``	, i16 leftPad  @calculatedFrom(""it's"" )
// `tick` ""quote"" 'q'
//	t
`` , string
roots @lengthOf( u8x ) ,
//	t
// 50% %s
} , f64
Foo
    @lengthOf(
BodyLength// a // b
)  ,
    },}
")).
Eval vm_compute in ("<<<M4241>>>" ++ check (runes_of_ascii "  MetaData options1 

// c
    {
	char[]
x
,}
MetaData  float {pack

u128

,	} packet	len
	{ 
i32
float

@lengthOf(
_x	)	, 
@lengthOf(

    Packet )
repeat	crc 
x_y_z `tab	here`	, @tag(

    00 )	repeat

    string_  pack,
	@rightPad (
    '\x00'
) @rightPad ( 
'0' )// 50% %s

@calculatedFrom( 	 //
  	""" ++ [28040; 24687]%N ++ runes_of_ascii """ )
string a1
,
	} ")).
Eval vm_compute in ("<<<M4450>>>" ++ check (runes_of_ascii "root	packet
	tag{
u32	// @lengthOf(
    charz
    ,
@tag(
	65535  )
@calculatedFrom(
""`tick`"" 
)T @lengthOf(  chars

    ) // 50% %s
,

@tag( 
4294967296 
)
        // @lengthOf(
    match 
calculatedFrom
    as BodyLength {4294967296:uint8x  , [	""abc"" ,
""a\""b""  //	t

	,
""{,}""
	,
3

] 
:	u8x,
	""" ++ [28040; 24687]%N ++ runes_of_ascii """
	:
x, }

    ,
	}")).
Eval vm_compute in ("<<<M1065>>>" ++ check (runes_of_ascii "packet
float{ roots`" ++ [28040; 24687; 31867; 22411]%N ++ runes_of_ascii "`
,@tag(
// `tick` ""quote"" 'q'
// packet A { u8 x, }
0123456789 ) // packet A { u8 x, }
@lengthOf( calculatedFrom )  @calculatedFrom( """") T ``
, @leftPad (	' ' ) repeat Logon
{// trailing space 
string matchKey  @lengthOf( i8i8 )
    , repeat	i64_ , } ,repeat uint8 u8x	`100% of %d` ,
}
")).
Eval vm_compute in ("<<<M255>>>" ++ check (runes_of_ascii "packet trueish { // @lengthOf(
i8
    Pad , repeat Foo // " ++ [27880; 37322]%N ++ runes_of_ascii "
stringy , }  MetaData _x	{  } packet calculatedFrom
    {repeat char[]//	t
uint8x `tab	here` ,
    @leftPad (' ' )
match chars
as metadata{  00 : a1
""it's"" : _x , } ,}//	t
packet
    //x
    msg_type{char[] // " ++ [128512]%N ++ runes_of_ascii " emoji
uint8x , }
//	t
")).
Eval vm_compute in ("<<<M1038>>>" ++ check (runes_of_ascii "packet a1
    { match Pad as As
    {
""abc""
    :// `tick` ""quote"" 'q'
falsey, 00:  _x ,	[ """ ++ [28040; 24687]%N ++ runes_of_ascii """ // " ++ [27880; 37322]%N ++ runes_of_ascii "
, 255	]
: Packet
    , },Z9_ {int16	x @calculatedFrom(
    // packet A { u8 x, }
    ""1"" ), string asx
    ,	repeat options1`two words` // 50% %s
, } ,
Pad `100% of %d` ,
    x `" ++ [28040; 24687; 31867; 22411]%N ++ runes_of_ascii "` , }")).
Eval vm_compute in ("<<<M2009>>>" ++ check (runes_of_ascii "packet	packetx { // trailing space 
x_y_z
{
string
charz ,
string x// @lengthOf(
`two words`
    ,  u8x { // `tick` ""quote"" 'q'
charz `100% of %d` // packet A { u8 x, }
,}// " ++ [27880; 37322]%N ++ runes_of_ascii "
,} , }
    // a // b
    packet metadata {  @leftPad ( '0') repeat i32 options1 uint64 u64 uint8x , }
")).
Eval vm_compute in ("<<<M1884>>>" ++ check (runes_of_ascii "packet	packetx { // trailing space 
x_y_z
{
string
charz i16
string x// @lengthOf(
`two words`
    ,  u8x { // `tick` ""quote"" 'q'
charz `100% of %d` // packet A { u8 x, }
,}// " ++ [27880; 37322]%N ++ runes_of_ascii "
,} , }
    // a // b
    packet metadata {  @leftPad ( '0') repeat i32 options1 ,u64 uint8x , }
")).
Eval vm_compute in ("<<<M1854>>>" ++ check (runes_of_ascii "packet	{ packetx // trailing space 
x_y_z
{
string
charz ,
string x// @lengthOf(
`two words`
    ,  u8x { // `tick` ""quote"" 'q'
charz `100% of %d` // packet A { u8 x, }
,}// " ++ [27880; 37322]%N ++ runes_of_ascii "
,} , }
    // a // b
    packet metadata {  @leftPad ( '0') repeat i32 options1 ,u64 uint8x , }
")).
Eval vm_compute in ("<<<M1993>>>" ++ check (runes_of_ascii "packet	packetx { // trailing space 
x_y_z
{
string
charz ,
string x// @lengthOf(
`two words`
    ,  u8x { // `tick` ""quote"" 'q'
charz `100% of %d` // packet A { u8 x, }
,}// " ++ [27880; 37322]%N ++ runes_of_ascii "
,} , }
    // a // b
    packet metadata {  @leftPad ( '0') i32 repeat options1 ,u64 uint8x , }
")).
Eval vm_compute in ("<<<M1851>>>" ++ check (runes_of_ascii "root	packetx { // trailing space 
x_y_z
{
string
charz ,
string x// @lengthOf(
`two words`
    ,  u8x { // `tick` ""quote"" 'q'
charz `100% of %d` // packet A { u8 x, }
,}// " ++ [27880; 37322]%N ++ runes_of_ascii "
,} , }
    // a // b
    packet metadata {  @leftPad ( '0') repeat i32 options1 ,u64 uint8x , }
")).
Eval vm_compute in ("<<<M1916>>>" ++ check (runes_of_ascii "packet	packetx { // trailing space 
x_y_z
{
string
charz ,
string x// @lengthOf(
`two words`
    ,  u8x { // `tick` ""quote"" 'q'
 `100% of %d` // packet A { u8 x, }
,}// " ++ [27880; 37322]%N ++ runes_of_ascii "
,} , }
    // a // b
    packet metadata {  @leftPad ( '0') repeat i32 options1 ,u64 uint8x , }
")).
Eval vm_compute in ("<<<M3516>>>" ++ check (runes_of_ascii "
packet

P1 {

u8  a	, }
packet  P2
    {
    P1
	,  }

    packet  P3
	{ P2

    , P1 , } 
packet P4	{ repeat	P3 ,
P2
    ,}	root
packet
    P5{ P4
,
P3,
    P1
, u8
K , 
match K	as

Body {

4: 
P4
,

3
    : P3  ,2

    : P2
,
1

    :

P1
,

    }	,}
")).
Eval vm_compute in ("<<<M294>>>" ++ check (runes_of_ascii "//x
root packet
    T {
tag// @lengthOf(
o	,
@calculatedFrom( ""a\\"" )// packet A { u8 x, }
@calculatedFrom( """ ++ [128512]%N ++ runes_of_ascii """ )u8
packetx ,uint32 i64_// trailing space 
@lengthOf( asx) , char[
    // " ++ [27880; 37322]%N ++ runes_of_ascii "
    42
//
// `tick` ""quote"" 'q'
] Packet @lengthOf(
metadata) `say ""hi""` ,}")).
Eval vm_compute in ("<<<M2160>>>" ++ check (runes_of_ascii "packet// packet A { u8 x, }
repeatCount	{// packet A { u8 x, }
@leftPad ( '\x00'
) repeat u8x MetaDataX `crlf
line`,
    repeat
    char[] MetaDataX
    ,
u64	uint8x@calculatedFrom(""a\""b""
// c
// packet A { u8 x, }
) `tab	here`
, ,//
}MetaData pack
    {
    }
")).
Eval vm_compute in ("<<<M2066>>>" ++ check (runes_of_ascii "packet// packet A { u8 x, }
repeatCount	{// packet A { u8 x, }
( @leftPad '\x00'
) repeat u8x MetaDataX `crlf
line`,
    repeat
    char[] MetaDataX
    ,
u64	uint8x@calculatedFrom(""a\""b""
// c
// packet A { u8 x, }
) `tab	here`
,//
}MetaData pack
    {
    }
")).
Eval vm_compute in ("<<<M2069>>>" ++ check (runes_of_ascii "packet// packet A { u8 x, }
repeatCount	{// packet A { u8 x, }
@leftPad  '\x00'
) repeat u8x MetaDataX `crlf
line`,
    repeat
    char[] MetaDataX
    ,
u64	uint8x@calculatedFrom(""a\""b""
// c
// packet A { u8 x, }
) `tab	here`
,//
}MetaData pack
    {
    }
")).
Eval vm_compute in ("<<<M1539>>>" ++ check (runes_of_ascii "packet calculatedFrom
{ @calculatedFrom( ""a\\"" ) zchar[ 4294967296 ]
calculatedFrom@lengthOf( pack )	`100% of %d` ,char[]body@calculatedFrom( ""// no comment"" )  ,
@tag( 007) //x
int8
leftPad leftPad`it's` , repeat pack
    { repeat char[ 3] body
,},
}")).
Eval vm_compute in ("<<<M1494>>>" ++ check (runes_of_ascii "packet calculatedFrom
{ @calculatedFrom( ""a\\"" ) zchar[ 4294967296 ]
calculatedFrom@lengthOf( pack )	`100% of %d` ,char[]body body@calculatedFrom( ""// no comment"" )  ,
@tag( 007) //x
int8
leftPad`it's` , repeat pack
    { repeat char[ 3] body
,},
}")).
Eval vm_compute in ("<<<M1424>>>" ++ check (runes_of_ascii "packet calculatedFrom
{ { @calculatedFrom( ""a\\"" ) zchar[ 4294967296 ]
calculatedFrom@lengthOf( pack )	`100% of %d` ,char[]body@calculatedFrom( ""// no comment"" )  ,
@tag( 007) //x
int8
leftPad`it's` , repeat pack
    { repeat char[ 3] body
,},
}")).
Eval vm_compute in ("<<<M1530>>>" ++ check (runes_of_ascii "packet calculatedFrom
{ @calculatedFrom( ""a\\"" ) zchar[ 4294967296 ]
calculatedFrom@lengthOf( pack )	`100% of %d` ,char[]body@calculatedFrom( ""// no comment"" )  ,
@tag( 007 int8 //x
)
leftPad`it's` , repeat pack
    { repeat char[ 3] body
,},
}")).
Eval vm_compute in ("<<<M1476>>>" ++ check (runes_of_ascii "packet calculatedFrom
{ @calculatedFrom( ""a\\"" ) zchar[ 4294967296 ]
calculatedFrom@lengthOf( pack ;	`100% of %d` ,char[]body@calculatedFrom( ""// no comment"" )  ,
@tag( 007) //x
int8
leftPad`it's` , repeat pack
    { repeat char[ 3] body
,},
}")).
Eval vm_compute in ("<<<M1438>>>" ++ check (runes_of_ascii "packet calculatedFrom
{ @calculatedFrom( ""a\\""  zchar[ 4294967296 ]
calculatedFrom@lengthOf( pack )	`100% of %d` ,char[]body@calculatedFrom( ""// no comment"" )  ,
@tag( 007) //x
int8
leftPad`it's` , repeat pack
    { repeat char[ 3] body
,},
}")).
Eval vm_compute in ("<<<M1521>>>" ++ check (runes_of_ascii "packet calculatedFrom
{ @calculatedFrom( ""a\\"" ) zchar[ 4294967296 ]
calculatedFrom@lengthOf( pack )	`100% of %d` ,char[]body@calculatedFrom( ""// no comment"" )  ,
{ 007) //x
int8
leftPad`it's` , repeat pack
    { repeat char[ 3] body
,},
}")).
Eval vm_compute in ("<<<M565>>>" ++ check (runes_of_ascii "packet chars {
    repeat
uint64 repeatCount`100% of %d` ,
    calculatedFrom{ string body@calculatedFrom( ""\n"")
    `doc`
, T
@calculatedFrom( ""x y"") , },repeat
    zchar[
0123456789
]pack // 50% %s
, repeat
    float
asx`tab	here`,  }
")).
Eval vm_compute in ("<<<M1428>>>" ++ check (runes_of_ascii "packet calculatedFrom
{  ""a\\"" ) zchar[ 4294967296 ]
calculatedFrom@lengthOf( pack )	`100% of %d` ,char[]body@calculatedFrom( ""// no comment"" )  ,
@tag( 007) //x
int8
leftPad`it's` , repeat pack
    { repeat char[ 3] body
,},
}")).
Eval vm_compute in ("<<<M740>>>" ++ check (runes_of_ascii "MetaData o { Foo repeatCount `" ++ [28040; 24687; 31867; 22411]%N ++ runes_of_ascii "`
    , trueish
len, uint32 Logon `say ""hi""` , }MetaData pack { char[]
    trueish  `// not a comment` ,i8// 50% %s
i64_ ,	} packet crc { char[
00
    // trailing space 
    ] o``, }
")).
Eval vm_compute in ("<<<M45>>>" ++ check (runes_of_ascii "options // 50% %s
{ }
    root //x
packet Logon { match u8x as x{
[ 007
    ,
    255 , 42
,007,
    255
    , 42 ,
    7 ,""it's""] : zchar
    // " ++ [128512]%N ++ runes_of_ascii " emoji
    ,
    } // " ++ [27880; 37322]%N ++ runes_of_ascii "
,string Header @lengthOf( o
    ) , }")).
Eval vm_compute in ("<<<M837>>>" ++ check (runes_of_ascii "// trailing space 
MetaData
leftPad{float32 MetaDataX
    , } options { } packet u128{
    tag Packet `{ , }`  ,
uint8x
    @lengthOf( chars
// `tick` ""quote"" 'q'
// @lengthOf(
)  `100% of %d` , }

")).
Eval vm_compute in ("<<<M570>>>" ++ check (runes_of_ascii "packet Packet
{
    u64 MetaDataX  , @lengthOf(u128
    ) @calculatedFrom(
""" ++ [28040; 24687]%N ++ runes_of_ascii """	) @tag( 1
)// c
repeat Z9_	u128, }root packet
chars{
    @tag(
255 )char[007 ]	chars @lengthOf( i64_ ),
    }
")).
Eval vm_compute in ("<<<M4508>>>" ++ check (runes_of_ascii "packet body {
    match body as x {
        42 : msg_type,
        255 : options1,
        65535 : u,
        //	t
        // " ++ [27880; 37322]%N ++ runes_of_ascii "
        """ ++ [233]%N ++ runes_of_ascii "t" ++ [233]%N ++ runes_of_ascii """ : a1,
        ""packet"" : lengthOf,
    },
}")).
Eval vm_compute in ("<<<M4066>>>" ++ check (runes_of_ascii "packet
    body

{ match body  as
x	{

42

    : 
msg_type	255 : 
options1
65535
:u 
        //
  	, 

//	t
    // " ++ [27880; 37322]%N ++ runes_of_ascii "
""" ++ [233]%N ++ runes_of_ascii "t" ++ [233]%N ++ runes_of_ascii """:
	a1""packet"" :lengthOf

    , 
}  // " ++ [27880; 37322]%N ++ runes_of_ascii "
    	, 
}
")).
Eval vm_compute in ("<<<M3612>>>" ++ check (runes_of_ascii "

  MetaData
    metadata {
}MetaData rootA {
    i8
    i64_	, 
roots  
  // c
      options1
    `a\`
,
lengthOf
    Header
    ,
	Z9_	Foo 
,  int16	BodyLength
    , } ")).
Eval vm_compute in ("<<<M1052>>>" ++ check (runes_of_ascii "MetaData falsey
{ }	MetaData trueish { }MetaData	float {Z9_ // " ++ [128512]%N ++ runes_of_ascii " emoji
float
,
i8 options1	`two words`
    // 50% %s
    ,
    string u , // c
}
    packet T{  }

")).
Eval vm_compute in ("<<<M1649>>>" ++ check (runes_of_ascii "options { } packet packet Packet{char[] i64_ ,
@tag(
    255) match
crc as i8i8{""{,}"" : trueish """" : Pad , ""a\\"" :
Foo ,
    1 :packetx
, """ ++ [128512]%N ++ runes_of_ascii """ : trueish , } , }")).
Eval vm_compute in ("<<<M1770>>>" ++ check (runes_of_ascii "options { } packet Packet{char[] i64_ ,
@tag(
    255) match
crc as i8i8{""{,}"" : trueish """" : Pad , ""a\\"" :
Foo Header
    1 :packetx
, """ ++ [128512]%N ++ runes_of_ascii """ : trueish , } , }")).
Eval vm_compute in ("<<<M2376>>>" ++ check (runes_of_ascii "
packet MetaDataX
{
    @leftPad
( // a // b
'0~'
) i8 u @lengthOf(
MetaDataX
    ) `say ""hi""` ,	} MetaData BodyLength {
    asx
x_y_z `" ++ [233]%N ++ runes_of_ascii "`
, uint64 u128 , }
")).
Eval vm_compute in ("<<<M2420>>>" ++ check (runes_of_ascii "
packet MetaDataX
{
    @leftPad
( // a // b
'0'
) i8 u @lengthOf(
MetaDataX
    ) , `say ""hi""`	} MetaData BodyLength {
    asx
x_y_z `" ++ [233]%N ++ runes_of_ascii "`
, uint64 u128 , }
")).
Eval vm_compute in ("<<<M1843>>>" ++ check (runes_of_ascii "options $ { } packet Packet{char[] i64_ ,
@tag(
    255) match
crc as i8i8{""{,}"" : trueish """" : Pad , ""a\\"" :
Foo ,
    1 :packetx
, """ ++ [128512]%N ++ runes_of_ascii """ : trueish , } , }")).
Eval vm_compute in ("<<<M2133>>>" ++ check (runes_of_ascii "packet// packet A { u8 x, }
repeatCount	{// packet A { u8 x, }
@leftPad ( '\x00'
) repeat u8x MetaDataX `crlf
line`,
    repeat
    char[] MetaDataX
    ,")).
Eval vm_compute in ("<<<M1755>>>" ++ check (runes_of_ascii "options { } packet Packet{char[] i64_ ,
@tag(
    255) match
crc as i8i8{""{,}"" : trueish """" : Pad , int64 :
Foo ,
    1 :packetx
, """ ++ [128512]%N ++ runes_of_ascii """ : trueish , } , }")).
Eval vm_compute in ("<<<M1737>>>" ++ check (runes_of_ascii "options { } packet Packet{char[] i64_ ,
@tag(
    255) match
crc as i8i8{""{,}"" : trueish """"  Pad , ""a\\"" :
Foo ,
    1 :packetx
, """ ++ [128512]%N ++ runes_of_ascii """ : trueish , } , }")).
Eval vm_compute in ("<<<M2443>>>" ++ check (runes_of_ascii "
packet MetaDataX
{
    @leftPad
( // a // b
'0'
) i8 u @lengthOf(
MetaDataX
    ) `say ""hi""` ,	} MetaData BodyLength {
    asx
x_y_z `" ++ [233]%N ++ runes_of_ascii "`
, uint64 u128")).
Eval vm_compute in ("<<<M3684>>>" ++ check (runes_of_ascii "// trailing space 
MetaData  stringy{
}
	root

packet 
	    // a // b

rootA
    {  match lengthOf

as

Pad

{	""it's"" :
    lengthOf	,
}
    ,  }
")).
Eval vm_compute in ("<<<M2389>>>" ++ check (runes_of_ascii "
packet MetaDataX
{
    @leftPad
( // a // b
'0'
) i8 u @lengthOf(
MetaDataX
    )  ,	} MetaData BodyLength {
    asx
x_y_z `" ++ [233]%N ++ runes_of_ascii "`
, uint64 u128 , }
")).
Eval vm_compute in ("<<<M247>>>" ++ check (runes_of_ascii "
MetaData// @lengthOf(
Logon{ zchar[ 10 ] float `two words` , string calculatedFrom ,u8 tag `// not a comment` // " ++ [27880; 37322]%N ++ runes_of_ascii "
,  string int
,
} // " ++ [27880; 37322]%N)).
Eval vm_compute in ("<<<M1194>>>" ++ check (runes_of_ascii "//
MetaData
    Foo { /// triple
x_y_z chars //
, uint16 Header// @lengthOf(
,zchar[ 0
    ]
tag ,
    i32 falsey , } // trailing space ")).
Eval vm_compute in ("<<<M4050>>>" ++ check (runes_of_ascii "
MetaData 
float
    {uint8	// c
  BodyLength , }
	MetaData  charz
	{ float32 trueish`a\`
	,
    i16

    metadata	`say ""hi""` , 
}
")).
Eval vm_compute in ("<<<M902>>>" ++ check (runes_of_ascii "options { zchar = int16; Z9_=	"""";rootA= 007  ; i64_
    = ""abc""
    ;  msg_type =
    //x
    true
}
packet Logon { string_`" ++ [233]%N ++ runes_of_ascii "` ,}")).
Eval vm_compute in ("<<<M3262>>>" ++ check (runes_of_ascii "MetaData // c
metadata { } MetaData rootA { i8 i64_ , roots options1 `a\` , lengthOf Header , Z9_ Foo , int16 BodyLength , }")).
Eval vm_compute in ("<<<M3294>>>" ++ check (runes_of_ascii "MetaData metadata { } MetaData rootA { i8 i64_ , roots options1 `a\` , lengthOf Header , // c
Z9_ Foo , int16 BodyLength , }")).
Eval vm_compute in ("<<<M1138>>>" ++ check (runes_of_ascii "
packet msg_type
{	i8
roots
`
` ,uint8 zchar@calculatedFrom(
    ""1""
    ) `` , }MetaData packetx {
uint16 Z9_
`` , }
")).
Eval vm_compute in ("<<<M1072>>>" ++ check (runes_of_ascii "packet roots {
    @lengthOf(As
) i8i8
@lengthOf(i8i8 // 50% %s
)`// not a comment`
// packet A { u8 x, }
// " ++ [27880; 37322]%N ++ runes_of_ascii "
, }")).
Eval vm_compute in ("<<<M1060>>>" ++ check (runes_of_ascii "
packet float{ x
`
` // trailing space 
, match	matchKey as Z9_	{ 10 :x	,
}
,
Logon `// not a comment` , }

")).
Eval vm_compute in ("<<<M3333>>>" ++ check (runes_of_ascii "MetaData float { uint8 BodyLength , } MetaData
// c
charz { float32 trueish `a\` , i16 metadata `say ""hi""` , }")).
Eval vm_compute in ("<<<M3098>>>" ++ check (runes_of_ascii "packet A {
    match k as n {
        ""\
"" : B,
        [""\
"", 1] : C,
        [1,2,3,4,5,""\
""] : D,
    },
}")).
Eval vm_compute in ("<<<M4131>>>" ++ check (runes_of_ascii "packet charz {
    roots @calculatedFrom(""a\\"") `a\`,
    @tag(7)
    len string_,// a // b
}// @lengthOf(")).
Eval vm_compute in ("<<<M3469>>>" ++ check (runes_of_ascii "

  options
    { 
FixedStringPadFromLeft
    = true;
}
    root
packet

P 
{	char[

    4] z,
}
")).
Eval vm_compute in ("<<<M1751>>>" ++ check (runes_of_ascii "options { } packet Packet{char[] i64_ ,
@tag(
    255) match
crc as i8i8{""{,}"" : trueish """" : Pad")).
Eval vm_compute in ("<<<M992>>>" ++ check (runes_of_ascii "root packet Packet
//	t
// packet A { u8 x, }
{ @lengthOf( msg_type ) uint32 calculatedFrom , }
")).
Eval vm_compute in ("<<<M2351>>>" ++ check (runes_of_ascii "
packet MetaDataX
{
    @leftPad
( // a // b
'0'
) i8 u @lengthOf(
MetaDataX
    ) `say ""hi""`")).
Eval vm_compute in ("<<<M340>>>" ++ check (runes_of_ascii "options {
    repeatCount
    =
    zchar[	10 ]; falsey = ""// no comment""
; i8i8 = 42 } 	 ")).
Eval vm_compute in ("<<<M4121>>>" ++ check (runes_of_ascii "
options{ 
a=
char[

3
] ;
b
=zchar[0  ]

c =

char[]

d
=  string e

    =
    u8
}")).
Eval vm_compute in ("<<<M2226>>>" ++ check (runes_of_ascii "MetaData _x {x string `// not a comment` , string
i64_ // trailing space 
`a\` ,
    }
")).
Eval vm_compute in ("<<<M4279>>>" ++ check (runes_of_ascii "MetaData _x {
    // c
    f64 charz `tab	here`,
}

options {
    BodyLength = """ ++ [233]%N ++ runes_of_ascii "t" ++ [233]%N ++ runes_of_ascii """;
}")).
Eval vm_compute in ("<<<M2227>>>" ++ check (runes_of_ascii "MetaData _x {as x `// not a comment` , string
i64_ // trailing space 
`a\` ,
    }
")).
Eval vm_compute in ("<<<M3756>>>" ++ check (runes_of_ascii "options

    {
MetaDataX =0123456789 
;
pack

    = 
""{,}""  ;string_ 
=i16	}
")).
Eval vm_compute in ("<<<M2938>>>" ++ check (runes_of_ascii "packet A {
  match k as n {
    [1, ""bb"", 007, ""d"", 5, ""f""] : B
    2 : C
  },
}")).
Eval vm_compute in ("<<<M3772>>>" ++ check (runes_of_ascii "MetaData _x {
    f64 charz `tab	here`,
}

options {
    BodyLength = """ ++ [233]%N ++ runes_of_ascii "t" ++ [233]%N ++ runes_of_ascii """;
}")).
Eval vm_compute in ("<<<M3366>>>" ++ check (runes_of_ascii "MetaData _x // c
{ f64 charz `tab	here` , } options { BodyLength = """ ++ [233]%N ++ runes_of_ascii "t" ++ [233]%N ++ runes_of_ascii """ ; }")).
Eval vm_compute in ("<<<M1190>>>" ++ check (runes_of_ascii "  root packet pack
{ @calculatedFrom(
"""") @tag(4294967296 )	uint8 tag, }
")).
Eval vm_compute in ("<<<M2920>>>" ++ check (runes_of_ascii "packet A {
  match k as n {
    [1, 22, 007, 4, 5] : B,
    2 : C
  },
}")).
Eval vm_compute in ("<<<M1386>>>" ++ check (runes_of_ascii "
packet
Z9_ { @lengthOf( a1
    /// triple
    )	i32 stringy
    ,}

")).
Eval vm_compute in ("<<<M3412>>>" ++ check (runes_of_ascii "packet o { @tag( 4294967296 ) // c
options1 @lengthOf( u8x ) `" ++ [233]%N ++ runes_of_ascii "` , }")).
Eval vm_compute in ("<<<M629>>>" ++ check (runes_of_ascii "MetaData len	{} options // " ++ [128512]%N ++ runes_of_ascii " emoji
{zchar
    = '0' ; } /// triple")).
Eval vm_compute in ("<<<M66>>>" ++ check (runes_of_ascii "options {// " ++ [27880; 37322]%N ++ runes_of_ascii "
Z9_ =	' ' ; // @lengthOf(
repeatCount	='\x00' ; }")).
Eval vm_compute in ("<<<M550>>>" ++ check (runes_of_ascii "options {float = zchar[
//x
// trailing space 
007
    ] ; }
")).
Eval vm_compute in ("<<<M2726>>>" ++ check (runes_of_ascii "MetaData options char[] @calculatedFrom( true uint16 ; true")).
Eval vm_compute in ("<<<M4265>>>" ++ check (runes_of_ascii "  root
packet Z9_ {
    }	packet

    charz

    {
}
")).
Eval vm_compute in ("<<<M2258>>>" ++ check (runes_of_ascii "MetaData _x {string x `// not a comment` , string
i64_")).
Eval vm_compute in ("<<<M2819>>>" ++ check (runes_of_ascii ": float64 u16 u32 false ; packet i8 root root repeat")).
Eval vm_compute in ("<<<M3213>>>" ++ check (runes_of_ascii "packet A { B { // a
 u8 x, // b
 } // c
 , // d
 }")).
Eval vm_compute in ("<<<M1111>>>" ++ check (runes_of_ascii "options
    { _x = false } root packet pack
{ }")).
Eval vm_compute in ("<<<M2823>>>" ++ check (runes_of_ascii "char[] match @lengthOf( u64 string @rightPad ,")).
Eval vm_compute in ("<<<M2822>>>" ++ check (runes_of_ascii "u16 char[] i16 , repeat `say ""hi""` uint16 as")).
Eval vm_compute in ("<<<M3626>>>" ++ check (runes_of_ascii "root packet packetx {
    As u128,
}
// " ++ [27880; 37322]%N)).
Eval vm_compute in ("<<<M3234>>>" ++ check (runes_of_ascii "MetaData
// c
zchar { zchar[ 3 ] Pad , }")).
Eval vm_compute in ("<<<M2791>>>" ++ check (runes_of_ascii "uint32 f32 i8 int64 false : o } packet")).
Eval vm_compute in ("<<<M2635>>>" ++ check (runes_of_ascii "packet A { match k as n { x : B }, }")).
Eval vm_compute in ("<<<M2793>>>" ++ check (runes_of_ascii "6URtIe#[h>d0O<r+BWy:BIxLIowjUi=;_`.")).
Eval vm_compute in ("<<<M674>>>" ++ check (runes_of_ascii "options { x_y_z = // 50% %s
' '}")).
Eval vm_compute in ("<<<M3191>>>" ++ check (runes_of_ascii "packet A {
 u8 x `d x`, // c x
}")).
Eval vm_compute in ("<<<M3166>>>" ++ check (runes_of_ascii "packet A {
 u8 x `d" ++ [12]%N ++ runes_of_ascii "`, // c" ++ [12]%N ++ runes_of_ascii "
}")).
Eval vm_compute in ("<<<M4188>>>" ++ check (runes_of_ascii "
packet

    A {  x
y , }
")).
Eval vm_compute in ("<<<M2466>>>" ++ check (runes_of_ascii "int8 int16 int32 int64 int")).
Eval vm_compute in ("<<<M3743>>>" ++ check (runes_of_ascii "// c" ++ [8202]%N ++ runes_of_ascii "
    packet
A

{ }
")).
Eval vm_compute in ("<<<M2688>>>" ++ check (runes_of_ascii "options { packet = 1; }")).
Eval vm_compute in ("<<<M4480>>>" ++ check (runes_of_ascii "packet BodyLength {
}")).
Eval vm_compute in ("<<<M2615>>>" ++ check (runes_of_ascii "packet A { B { }, }")).
Eval vm_compute in ("<<<M3129>>>" ++ check (runes_of_ascii "packet A {
}
// c" ++ [8192]%N)).
Eval vm_compute in ("<<<M261>>>" ++ check (runes_of_ascii "options { } // " ++ [27880; 37322]%N)).
Eval vm_compute in ("<<<M3210>>>" ++ check (runes_of_ascii "options { // a
 }")).
Eval vm_compute in ("<<<M3200>>>" ++ check (runes_of_ascii "

  packet A {}")).
Eval vm_compute in ("<<<M638>>>" ++ check (runes_of_ascii "
options {}
")).
Eval vm_compute in ("<<<M2560>>>" ++ check (runes_of_ascii ":,;=()[]{}")).
Eval vm_compute in ("<<<M2860>>>" ++ check ([65533]%N ++ runes_of_ascii "j" ++ [65533; 65533; 65533]%N ++ runes_of_ascii ":9
")).
Eval vm_compute in ("<<<M2444>>>" ++ check (runes_of_ascii "char[]")).
Eval vm_compute in ("<<<M2509>>>" ++ check (runes_of_ascii "@tag(")).
Eval vm_compute in ("<<<M2479>>>" ++ check (runes_of_ascii "root")).
Eval vm_compute in ("<<<M2491>>>" ++ check (runes_of_ascii "' '")).
Eval vm_compute in ("<<<M2497>>>" ++ check (runes_of_ascii "'0")).
Eval vm_compute in ("<<<M2695>>>" ++ check (runes_of_ascii "x")).
