From FP Require Import Lexer Parser ShowPT Digest Formatter.
From Coq Require Import String List NArith.
Import ListNotations.
Open Scope string_scope.
Set Printing Width 100000000.
Set Printing Depth 100000000.
Definition show_fres (r : fres) : string :=
  match r with
  | FOk s => "OK:" ++ sh_escaped s ""
  | FErr s => "ERR:" ++ sh_escaped s ""
  | FPanic p => "PANIC:" ++ p
  end.
Definition check (rs : list rune) : string := digest (show_fres (format_res rs)).
Definition full (rs : list rune) : string := show_fres (format_res rs).
Eval vm_compute in ("<<<M3517>>>" ++ check (runes_of_ascii "options { // c1
LittleEndian // c2a
  // c2b
= // c3
true ; // c5a
  // c5b
StringPrefixLenType
    // c6
=
    // c7
u64 // c8
; // c9a
  // c9b
ArrayPrefixLenType
    // c10
= u8 // c12
; // c13
FixedStringPadChar
    // c14
= // c15a
  // c15b
'0' // c16
;
    // c17
} // c18a
  // c18b
packet // c19
Reject // c20a
  // c20b
{ i32 // c22
Ref
    // c23
,
    // c24
repeat f64 OrderId ,
    // c28
repeat // c29
InNote12 // c30a
  // c30b
{ // c31a
  // c31b
u8 // c32a
  // c32b
pad0 // c33a
  // c33b
,
    // c34
}
    // c35
, @leftPad ( // c38
' ' )
    // c40
char[ // c41a
  // c41b
6 // c42a
  // c42b
] count
    // c44
, }
    // c46
packet // c47
Logout // c48
{ zchar[ 6 ] Tail
    // c53
, repeat
    // c55
string // c56a
  // c56b
venue ,
    // c58
} // c59a
  // c59b
packet // c60
Cancel // c61
{ // c62
u64 // c63
count , // c65
repeat // c66a
  // c66b
char[ // c67
5
    // c68
] lastPx
    // c70
, // c71a
  // c71b
i64 // c72
Tail ,
    // c74
repeat // c75
InF140 // c76a
  // c76b
{
    // c77
repeat Logout
    // c79
, // c80
repeat
    // c81
Reject // c82
, // c83
} , } // c86
root packet
    // c88
Trade
    // c89
{
    // c90
repeat // c91
InMsgkind39
    // c92
{ repeat Reject , // c96a
  // c96b
char[ // c97
4 // c98a
  // c98b
]
    // c99
Px , // c101a
  // c101b
} // c102a
  // c102b
, string // c104a
  // c104b
Acct , // c106
uint16 // c107
price , f32 // c110a
  // c110b
OrderId // c111a
  // c111b
,
    // c112
u16 // c113a
  // c113b
x // c114a
  // c114b
, u16 // c116a
  // c116b
clOrdID @lengthOf( // c118a
  // c118b
Body ) // c120
,
    // c121
match // c122a
  // c122b
x // c123a
  // c123b
as
    // c124
Body // c125a
  // c125b
{ // c126a
  // c126b
178 : // c128
Logout // c129a
  // c129b
, // c130a
  // c130b
13 // c131
: // c132a
  // c132b
Cancel // c133
,
    // c134
174
    // c135
: Reject
    // c137
,
    // c138
} , u16
    // c141
Flags // c142a
  // c142b
@calculatedFrom( // c143
""CRC32"" // c144a
  // c144b
) // c145
, }
    // c147
")).
Eval vm_compute in ("<<<M4182>>>" ++ check (runes_of_ascii "packet T {
    repeat zchar[007] x_y_z,
    repeat Logon {
        repeat f32a `// not a comment`,
        string uint8x `crlf
        line`,
    },
    int64 len `// not a comment`,
    match repeatCount as x_y_z {
        00 : packetx,
        [""CRC32"", """ ++ [128512]%N ++ runes_of_ascii """] : metadata,
        00 : metadata,
    },
    repeat msg_type {
        falsey {
            repeat len {
                match float as stringy {
                    // c
                    [
                        007, 007, 1, 4294967296, ""packet"",
                        ""\n"", ""abc""
                    ] : matchKey,
                    42 : f32a,
                    [10, ""a\\""] : a1,
                    65535 : tag,
                    // `tick` ""quote"" 'q'
                },
            },
        },
        u64 _x `two words`,
        pack,
    },
    repeat As {
        repeat string pack,
        uint8 leftPad @lengthOf(As),
        string options1 @calculatedFrom(""// no comment"") `" ++ [28040; 24687; 31867; 22411]%N ++ runes_of_ascii "`,
        u8 leftPad @lengthOf(options1),
    },
}//

packet float {
    @tag(42)
    //
    repeat int64 float `a\`,
    @calculatedFrom(""// no comment"")
    repeat i64_ packetx,
    match lengthOf as falsey {
        [
            42, 10, 10, 007, 1,
            7, ""\" ++ [233]%N ++ runes_of_ascii """, ""abc""
        ] : metadata,
    },
    repeat int,
    repeatCount,
    zchar[255] x @lengthOf(A),
    @leftPad(' ')
    @lengthOf(o)
    @rightPad('\x00')
    // a // b
    // @lengthOf(
    repeat float64 leftPad,
    @leftPad('0')
    match i8i8 as charz {
        """ ++ [28040; 24687]%N ++ runes_of_ascii """ : roots,
    },
    @calculatedFrom(""abc"")
    repeat zchar[00] matchKey,// packet A { u8 x, }
    uint16 string_ `doc`,
}")).
Eval vm_compute in ("<<<M279>>>" ++ check (runes_of_ascii "//x
root packet
// `tick` ""quote"" 'q'
// `tick` ""quote"" 'q'
i8i8 { u128{ repeat lengthOf Foo //
`u8 x,`
,MetaDataX	falsey
`two words` ,Pad{	u8 a1 @lengthOf( leftPad )
, }
    , int @calculatedFrom( // " ++ [128512]%N ++ runes_of_ascii " emoji
""a\\""
    ) `
`
    ,	}
    , Header
Logon , match rootA// c
as
    BodyLength
    // " ++ [27880; 37322]%N ++ runes_of_ascii "
    { """ ++ [28040; 24687]%N ++ runes_of_ascii """ :	Pad [ """ ++ [233]%N ++ runes_of_ascii "t" ++ [233]%N ++ runes_of_ascii """
    ,
1
] : _x , }, options1 `crlf
line` , repeat u	{ match	i8i8 as falsey
{// `tick` ""quote"" 'q'
[ 42 , 4294967296 ]: x_y_z ,42
:
    float ,
// `tick` ""quote"" 'q'
// c
3
    : packetx
, } , }
, charz ,
    }
    // a // b
    root packet float
// @lengthOf(
// c
{ repeat _x body `say ""hi""` , charz`// not a comment`,repeat lengthOf{
repeatCount { repeat
tag { zchar[ 42  ]
// a // b
// " ++ [27880; 37322]%N ++ runes_of_ascii "
leftPad
,repeat
    zchar[0123456789  ]T `crlf
line`,  char[]
trueish , zchar[ 007 // " ++ [128512]%N ++ runes_of_ascii " emoji
]	lengthOf @lengthOf(string_
)`" ++ [233]%N ++ runes_of_ascii "` ,
} ,repeat int32 As
,int8 chars	, i32 calculatedFrom`it's`, } /// triple
, zchar[ 00 ] chars ``
, }	,char[255
] charz @calculatedFrom(""1"" ) `doc` , // packet A { u8 x, }
match body
as rootA { ""CRC32"" :	A , [ 007
    , ""{,}""
    ,
    0 // `tick` ""quote"" 'q'
,""1""
    ,0123456789 ,""// no comment""// " ++ [27880; 37322]%N ++ runes_of_ascii "
, ""it's"", 1] :
    BodyLength 65535 : x_y_z [""`tick`""]  : a1 }, repeat	asx{ char[ 0123456789 ]
    i64_ `" ++ [28040; 24687; 31867; 22411]%N ++ runes_of_ascii "` ,
    } , @lengthOf(  x_y_z )
pack
@calculatedFrom(""" ++ [233]%N ++ runes_of_ascii "t" ++ [233]%N ++ runes_of_ascii """) ,@tag( 3
// trailing space 
//
) repeat uint64 o
    ,// @lengthOf(
}")).
Eval vm_compute in ("<<<M829>>>" ++ check (runes_of_ascii "packet
    repeatCount
{match falsey as  string_{65535 : crc ,[ 007 ,
    // " ++ [27880; 37322]%N ++ runes_of_ascii "
    65535 , 65535 ] : i8i8 ,
} ,
    @lengthOf( // " ++ [128512]%N ++ runes_of_ascii " emoji
float)
T {// " ++ [128512]%N ++ runes_of_ascii " emoji
char[]Packet @lengthOf( // " ++ [27880; 37322]%N ++ runes_of_ascii "
trueish )
,}
    , uint64 Logon `doc` ,
zchar[ 0
]
trueish @calculatedFrom(
// trailing space 
// @lengthOf(
""// no comment""  ) , @lengthOf(a1)repeat rootA i64_ `// not a comment` , u64
    /// triple
    u ,} packet	i64_
// `tick` ""quote"" 'q'
// `tick` ""quote"" 'q'
{//
@rightPad (
' '
) f64 float, // `tick` ""quote"" 'q'
match	rootA as i8i8
    // c
    { [ ""\n"" ,
007 ,
    """ ++ [128512]%N ++ runes_of_ascii """
,
""" ++ [128512]%N ++ runes_of_ascii """ ] :lengthOf }
, i16
Packet , int16
    // `tick` ""quote"" 'q'
    lengthOf
    @calculatedFrom(""" ++ [28040; 24687]%N ++ runes_of_ascii """ ) `line1
line2` ,
@calculatedFrom( """" )@calculatedFrom( ""it's""	)
    zchar[
    // " ++ [128512]%N ++ runes_of_ascii " emoji
    007 ] As  , char[] i8i8@lengthOf(
zchar
//x
// trailing space 
),
u16 packetx @lengthOf(falsey  )
    , repeat	len
{// c
u32 lengthOf ,
},match MetaDataX as u128
    { 1
    : u ,""x y""
    : u	, 255 :
    i64_""x y"" :falsey
, [""1"" , 1 ] :repeatCount
// a // b
//	t
,// packet A { u8 x, }
} ,
}
options {  asx =  uint8 ; matchKey =  true
i64_ =	false Logon
= char[]
/// triple
// " ++ [27880; 37322]%N ++ runes_of_ascii "
;
    A =
00
} packet
Packet
{ // packet A { u8 x, }
uint32
float
    `it's` ,}
")).
Eval vm_compute in ("<<<M4418>>>" ++ check (runes_of_ascii "options {
    asx = true;
    matchKey = ' ';
    Z9_ = int8
    BodyLength = char[]
}

MetaData calculatedFrom {
    float32 tag,
    char[] Header,
    float64 charz,
    falsey Z9_,
    string A,
    char[65535] leftPad,
}

packet BodyLength {
    i16 Foo,
    @tag(65535)
    @lengthOf(lengthOf)
    @tag(007)
    x @calculatedFrom(""packet"") `u8 x,`,
    Logon @calculatedFrom(""1"") `two words`,
}

MetaData options1 {
}

packet Packet {
    pack,
    repeat char[] o,
    @lengthOf(uint8x)
    string_ @calculatedFrom(""a\""b""),
    @tag(0)
    u16 repeatCount `
    `,
    string Packet,
    @tag(0123456789)
    match x as zchar {
        42 : msg_type,
        [3, ""{,}""] : u,
        //
        4294967296 : repeatCount,
        [
            3, ""a\\"", ""`tick`"", ""// no comment"", """",
            ""a\\""
        ] : i64_,
        ""`tick`"" : zchar,
        [""// no comment""] : MetaDataX,
    },
    Foo @lengthOf(A),
    char[65535] Pad `it's`,
    match matchKey as x {
        [
            0123456789, """ ++ [128512]%N ++ runes_of_ascii """, ""\" ++ [233]%N ++ runes_of_ascii """, ""CRC32"", ""`tick`"",
            ""a\""b"", ""a	b""
        ] : stringy,
    },
    // " ++ [128512]%N ++ runes_of_ascii " emoji
    //	t
    repeat uint16 Logon,
}")).
Eval vm_compute in ("<<<M3842>>>" ++ check (runes_of_ascii "packet i64_ {
    @leftPad()
    @tag(4294967296)
    repeat string Logon `{ , }`,
    @lengthOf(float)
    u16 matchKey @lengthOf(body),
    repeat char[4294967296] tag,
    @lengthOf(asx)
    repeat trueish,
    repeat lengthOf len,// packet A { u8 x, }
    match asx as crc {
        [""" ++ [28040; 24687]%N ++ runes_of_ascii """, ""abc""] : roots,
    },
    match uint8x as repeatCount {
        [0123456789] : Foo,
        ""a\""b"" : Packet,
        42 : stringy,
        [0123456789, 007] : f32a,
        //x
        42 : x,
    },
    @lengthOf(msg_type)
    uint8x,
    repeat metadata,
}

MetaData float {
    char[42] Logon `a\`,
    stringy packetx,
    int32 pack,
    rootA x,
    Logon Foo,
    u16 A,
}

//x
packet Header {
    @calculatedFrom(""1"")
    u,
    @tag(65535)
    pack {
        string trueish `" ++ [28040; 24687; 31867; 22411]%N ++ runes_of_ascii "`,
        match stringy as tag {
            ""a\\"" : float,
            ""abc"" : Z9_,
            007 : metadata,
            // c
            [10] : matchKey,
            ""a	b"" : _x,
            7 : Pad,
        },
        repeat body,
        f32 int,
    },
    MetaDataX u128 `doc`,
}

options {
}")).
Eval vm_compute in ("<<<M276>>>" ++ check (runes_of_ascii "
packet body {match u as f32a {  ""// no comment""	:
    float ,}	,
    // trailing space 
    float32 int ,
    char[]tag `u8 x,`
    // packet A { u8 x, }
    , @lengthOf( body ) repeat // " ++ [27880; 37322]%N ++ runes_of_ascii "
i64_ crc
,@leftPad ('0' ) float64 zchar
    , // packet A { u8 x, }
@lengthOf( A)
@leftPad  ( ) @lengthOf( int
)
    //
    crc	@calculatedFrom( ""1"") ,
    }  root packet
    body{
    /// triple
    @lengthOf( T
    ) repeat
u128 `line1
line2` ,
string // `tick` ""quote"" 'q'
BodyLength , @calculatedFrom( ""x y"" ) char[] zchar @calculatedFrom(
    ""a\""b"")	`" ++ [28040; 24687; 31867; 22411]%N ++ runes_of_ascii "` //x
, falsey//	t
trueish	, /// triple
@rightPad // @lengthOf(
( '\x00'  )	@lengthOf( As) @tag( 4294967296  )repeat char[] uint8x , packetx,
    @tag(
7 )
    //
    i64 roots
// `tick` ""quote"" 'q'
// " ++ [27880; 37322]%N ++ runes_of_ascii "
@calculatedFrom( """ ++ [233]%N ++ runes_of_ascii "t" ++ [233]%N ++ runes_of_ascii """
)  `// not a comment`
    , @calculatedFrom( ""x y"" )
    /// triple
    f64 float@lengthOf(
    Packet // " ++ [27880; 37322]%N ++ runes_of_ascii "
), @tag(  4294967296 ) u32
lengthOf@calculatedFrom(""\" ++ [233]%N ++ runes_of_ascii """)// c
, @tag(	10 ) Foo ,
}	packet leftPad { } options {i8i8 =zchar[ 7 ]}")).
Eval vm_compute in ("<<<M4045>>>" ++ check (runes_of_ascii "
options
    {
StringPrefixLenType
    = u8
;

ArrayPrefixLenType  =  u32 ;
	FixedStringPadFromLeft =  false ;

FixedStringPadChar =  ' ' ; }
packet	Party

    { 
repeat
i16 Qty  ,
    repeat
	string
    Tail
    ,i8 
OrderId,
i8
    msgKind,	}

    packet	Ack
	{ Party , repeat

InRef20 
{  Party

,int8 
tag7

    , 
char[
	5	]
OrderId

,
zchar[
7]

    Tail 
,

    char[]
    count , 
InPrice45
{ Party  ,
char[

    1  ]
    Px	, }, },  char[
    12
	]

price

    ,
    int8 sym , 
}

    packet
Reject {	repeat InPrice47 {

Party  ,},
zchar[
	4
] x , repeat
Ack , zchar[  2 
]	Ref  , repeat 
Party , }packet  Cancel
{
Reject,

    repeat string  f1  , uint16 OrderId

, 
u8

Acct,  int8	msgKind 
,
}root
packet

    Fill

{
u8
	count
, char[]	tag7 , zchar[
	7

    ]

    Acct 
,u32 OrderId,
u32
	Note
    @lengthOf(  Body	)
	,match 
OrderId 
as
Body

    {	106
: Cancel
	, 196 : Reject
,
74
: Party,
	75
	:Ack 
, }

    ,	} ")).
Eval vm_compute in ("<<<M301>>>" ++ check (runes_of_ascii "root  packet
    MetaDataX { } options
    {
matchKey
= ""abc""
;i64_ =// a // b
7 ; len  = 1 x_y_z =//x
'0' ; } options { A
    = 7 len
// a // b
//x
=	zchar[4294967296 ]	;o
    = string ;
    int = false f32a = // trailing space 
""CRC32"" ;} root
    packet crc
    // " ++ [27880; 37322]%N ++ runes_of_ascii "
    { char[]
string_
    ,match i8i8 // c
as tag { //x
3 :packetx } ,  @rightPad(' '	)  repeat _x
// packet A { u8 x, }
//x
{ a1
trueish `// not a comment` , }	, int16// packet A { u8 x, }
Z9_ ,@lengthOf( uint8x
    // @lengthOf(
    )
// `tick` ""quote"" 'q'
// `tick` ""quote"" 'q'
zchar[
    // " ++ [128512]%N ++ runes_of_ascii " emoji
    4294967296  ]A
@lengthOf( i64_  ) //	t
`two words` ,repeat // " ++ [27880; 37322]%N ++ runes_of_ascii "
uint64 metadata
,
@calculatedFrom(
""packet"" ) string
//x
//	t
x
`it's`
, match	T
as asx
// " ++ [27880; 37322]%N ++ runes_of_ascii "
//	t
{ ""abc"" : A , ""it's""
:
    Logon, }  ,// packet A { u8 x, }
@calculatedFrom(
//
// a // b
""\n"" ) string _x , uint64 zchar @lengthOf(
lengthOf
) , } packet
uint8x { } // a // b")).
Eval vm_compute in ("<<<M1219>>>" ++ check (runes_of_ascii "packet int// " ++ [128512]%N ++ runes_of_ascii " emoji
{@tag( 7 ) BodyLength { // @lengthOf(
float32 f32a	, char[ 255 ] u8x @lengthOf( Z9_)`line1
line2` ,
repeat char[
65535
    ]
// `tick` ""quote"" 'q'
// a // b
tag `" ++ [233]%N ++ runes_of_ascii "` ,
match Header//x
as  int {""" ++ [128512]%N ++ runes_of_ascii """
// trailing space 
//	t
://	t
body, [
""" ++ [233]%N ++ runes_of_ascii "t" ++ [233]%N ++ runes_of_ascii """  ,
    """ ++ [128512]%N ++ runes_of_ascii """ , ""packet"", 00 ,4294967296, 255
    ]: int	[ 0 ,""a	b"" ]
: Z9_ , [
65535// " ++ [128512]%N ++ runes_of_ascii " emoji
] : tag
,/// triple
""" ++ [233]%N ++ runes_of_ascii "t" ++ [233]%N ++ runes_of_ascii """:
    // `tick` ""quote"" 'q'
    options1
//
//x
}
,} ,
zchar[
255 ] MetaDataX@lengthOf(Z9_  ) `crlf
line`
, stringy
/// triple
// @lengthOf(
{ repeat	string A	, // packet A { u8 x, }
crc{ zchar[ 1 ]
    // c
    uint8x,
}
, uint16 Packet @calculatedFrom(
""a	b"" )
    ,	len @calculatedFrom(
    ""a	b""
    )
`two words` , } ,
zchar[ 255] As ``
,i16// `tick` ""quote"" 'q'
calculatedFrom ,
@tag( 42 // `tick` ""quote"" 'q'
)
repeat x_y_z `two words`
    // " ++ [128512]%N ++ runes_of_ascii " emoji
    , uint8 lengthOf , @tag(
0 )
u128, }
")).
Eval vm_compute in ("<<<M4311>>>" ++ check (runes_of_ascii "packet i8i8 {
    @leftPad('0')
    i16 int,
    @calculatedFrom(""\n"")
    crc @calculatedFrom(""abc""),
    // packet A { u8 x, }
    int16 trueish `it's`,// trailing space 
    @rightPad(' ')
    @tag(3)
    @calculatedFrom("""")
    pack {
        i64_ falsey,
        i8i8 repeatCount,
        repeat u16 pack,
        u128 @calculatedFrom(""it's"") `" ++ [233]%N ++ runes_of_ascii "`,
    },
    @calculatedFrom(""1"")
    match i64_ as a1 {
        42 : MetaDataX,
        [10, ""{,}"", ""abc"", ""`tick`""] : asx,
        //
        65535 : string_,
    },
    @calculatedFrom(""" ++ [128512]%N ++ runes_of_ascii """)
    @lengthOf(_x)
    @rightPad(' ')
    x {
        // packet A { u8 x, }
        f32 tag @lengthOf(calculatedFrom),
        u32 Logon `" ++ [28040; 24687; 31867; 22411]%N ++ runes_of_ascii "`,
    },
    @lengthOf(zchar)
    Packet matchKey,
    @leftPad('0')
    f32 charz `
        `,
    @rightPad('0')
    char[3] stringy `tab	here`,
}")).
Eval vm_compute in ("<<<M4083>>>" ++ check (runes_of_ascii "
packet  Z9_ {
repeat  options1
    {repeat  i16 o
	// a // b

  /// triple
    `two words`	, match 
charz as
    o{
[ 4294967296
    , ""// no comment""  ]
: 
    // `tick` ""quote"" 'q'
	  // packet A { u8 x, }
  u
,
    }
,  match float as  tag { [00 ]:leftPad,	[	""" ++ [233]%N ++ runes_of_ascii "t" ++ [233]%N ++ runes_of_ascii """,""\n""
,

    0  //
	,  ""CRC32""	,
    1

    ,
    """ ++ [28040; 24687]%N ++ runes_of_ascii """ 
,
    255

    ,

    1 ]	: 
options1

,

255
:x

    ,	00	:

x  ,

} ,
    repeat	string 
asx

`u8 x,` ,
	} , 
    // " ++ [27880; 37322]%N ++ runes_of_ascii "
      // a // b
	  zchar[  3

    ]
falsey ,

}	packet	u 
{ 
  //x
// trailing space 
  zchar[	0
]
asx 
, @tag(

10

) @rightPad

    (' '
)

    @rightPad
    //x
( '\x00'
    )
	Logon
@calculatedFrom(
	""" ++ [128512]%N ++ runes_of_ascii """
)
	,
    repeat char[
255
]calculatedFrom 
,
    uint16

    lengthOf

    ,

}root 	 /// triple
packet

pack {}")).
Eval vm_compute in ("<<<M308>>>" ++ check (runes_of_ascii "root packet options1 //	t
{ @lengthOf( Packet )
//x
//	t
repeat chars // " ++ [128512]%N ++ runes_of_ascii " emoji
{ repeatCount
u128 , match u as
BodyLength/// triple
{
[ 65535 ] :
// trailing space 
//x
packetx // a // b
,
3 :
    zchar ,
255: roots """ ++ [233]%N ++ runes_of_ascii "t" ++ [233]%N ++ runes_of_ascii """// c
: Header}
    , i64 Packet,	char[]	uint8x @calculatedFrom(
""// no comment""  ) `crlf
line`
,
    } , string
trueish , @leftPad  (' '  )
i8i8	{/// triple
float64
T @lengthOf( leftPad )
    ,// @lengthOf(
u128 `" ++ [233]%N ++ runes_of_ascii "`
    , lengthOf, // a // b
matchKey ,
    },
    repeat
    char[1] MetaDataX	`a\`  ,
// c
// " ++ [128512]%N ++ runes_of_ascii " emoji
@calculatedFrom( ""1"" )string chars
    `it's` , char[] calculatedFrom
    @lengthOf(
    calculatedFrom) `doc`, rootA// @lengthOf(
_x
// `tick` ""quote"" 'q'
/// triple
`" ++ [28040; 24687; 31867; 22411]%N ++ runes_of_ascii "` , } MetaData calculatedFrom {  u tag `
`,
}
")).
Eval vm_compute in ("<<<M292>>>" ++ check (runes_of_ascii "packet tag	{/// triple
@leftPad (  '\x00' )char[ 10 ]
//	t
// a // b
calculatedFrom , @calculatedFrom( ""a\\"")
    char[ // " ++ [128512]%N ++ runes_of_ascii " emoji
65535 ] BodyLength
,
match i8i8 as repeatCount  { ""{,}"" : asx
""" ++ [233]%N ++ runes_of_ascii "t" ++ [233]%N ++ runes_of_ascii """ : lengthOf/// triple
,  [
    10 ,""""
    ] : crc } , @tag( // trailing space 
10 ) match chars
as
    // " ++ [128512]%N ++ runes_of_ascii " emoji
    Logon {0:
crc ,	[ """ ++ [128512]%N ++ runes_of_ascii """  ,
//x
// " ++ [128512]%N ++ runes_of_ascii " emoji
255, ""a\\"" ]:len
    ,
// @lengthOf(
// " ++ [27880; 37322]%N ++ runes_of_ascii "
} ,
@calculatedFrom(  ""`tick`""
    ) @calculatedFrom(""\" ++ [233]%N ++ runes_of_ascii """  ) o matchKey `crlf
line`  ,
@calculatedFrom( """ ++ [28040; 24687]%N ++ runes_of_ascii """ ) @lengthOf(leftPad/// triple
)// packet A { u8 x, }
@rightPad  (
'0' ) char[] float@calculatedFrom( ""it's"" )
    ,@rightPad
(
    '0' ) crc x
    , Foo T ,// @lengthOf(
zchar[  00 ] charz @lengthOf( tag )
, }")).
Eval vm_compute in ("<<<M230>>>" ++ check (runes_of_ascii "//x
root packet Z9_ { @calculatedFrom( ""a\\"")zchar[ 1] // @lengthOf(
a1 @lengthOf(
Z9_) ,
@tag( 0123456789
    )@lengthOf(
Header ) @tag( 4294967296 ) uint8 u128  ,i16 msg_type// trailing space 
, tag matchKey, repeat i8 options1 `tab	here` , repeat /// triple
f32a Z9_,
/// triple
//	t
match tag as Foo { 42 : Logon ,
    [ 4294967296
    ] : Pad , 3 :a1 , [007	, 1 ]
: a1 ,}
    ,// packet A { u8 x, }
repeat zchar { repeat //
u8 options1 // c
, leftPad
{	msg_type ,
} ,
leftPad@lengthOf( string_
)
    `a\` ,
    }, zchar charz , string tag @calculatedFrom(
""{,}"")
, // " ++ [27880; 37322]%N ++ runes_of_ascii "
}
    packet// @lengthOf(
u128 {@tag(// " ++ [27880; 37322]%N ++ runes_of_ascii "
4294967296 ) @tag( 42
) f32a @lengthOf( float )
    `" ++ [233]%N ++ runes_of_ascii "` ,	}
")).
Eval vm_compute in ("<<<M91>>>" ++ check (runes_of_ascii "options{
T
    =
""x y"" ; } packet Z9_ { @leftPad
    ('0' )
int16
Header @calculatedFrom(
""1""
    ) , options1 @lengthOf(
    u8x )
`// not a comment`
,
    @calculatedFrom(""// no comment"" ) @lengthOf(pack //	t
) Header {
i32 // trailing space 
u
`{ , }`
, _x	, char[
    7 ] crc @lengthOf(i64_)  ,
    }
// a // b
// c
, // `tick` ""quote"" 'q'
float
@lengthOf(
roots ) `it's`  , } packet stringy { @rightPad( '\x00' //
) @rightPad ( //
'0' )
// " ++ [27880; 37322]%N ++ runes_of_ascii "
// packet A { u8 x, }
@calculatedFrom( """ ++ [28040; 24687]%N ++ runes_of_ascii """ ) string a1 ,
    f32
uint8x // packet A { u8 x, }
@lengthOf( charz
// c
// " ++ [128512]%N ++ runes_of_ascii " emoji
) `two words`
,
int32
x_y_z	@lengthOf( string_  ) //	t
,
}
")).
Eval vm_compute in ("<<<M3740>>>" ++ check (runes_of_ascii "packet tag {
    @leftPad('\x00')
    char[10] calculatedFrom,
    @calculatedFrom(""a\\"")
    char[65535] BodyLength,
    match i8i8 as repeatCount {
        ""{,}"" : asx,
        """ ++ [233]%N ++ runes_of_ascii "t" ++ [233]%N ++ runes_of_ascii """ : lengthOf,
        [10, """"] : crc,
    },
    @tag(10)
    match chars as Logon {
        0 : crc,
        [255, """ ++ [128512]%N ++ runes_of_ascii """, ""a\\""] : len,
    },
    @calculatedFrom(""`tick`"")
    @calculatedFrom(""\" ++ [233]%N ++ runes_of_ascii """)
    o matchKey `crlf
        line`,
    @calculatedFrom(""" ++ [28040; 24687]%N ++ runes_of_ascii """)
    @lengthOf(leftPad)
    @rightPad('0')
    char[] float @calculatedFrom(""it's""),
    @rightPad('0')
    crc x,
    Foo T,// @lengthOf(
    zchar[00] charz @lengthOf(tag),
}")).
Eval vm_compute in ("<<<M868>>>" ++ check (runes_of_ascii "packet Z9_
{ } root packet u  {
@lengthOf( int ) f64	tag
`" ++ [28040; 24687; 31867; 22411]%N ++ runes_of_ascii "`	,
    @calculatedFrom(
// c
/// triple
""CRC32""
    ) calculatedFrom
// @lengthOf(
/// triple
@lengthOf(//
a1
    )`two words` , @rightPad (	'\x00'//	t
) @rightPad(
) @calculatedFrom(""it's"" ) string int
/// triple
// `tick` ""quote"" 'q'
@calculatedFrom(
    ""\n"" )`// not a comment`, repeat	f32a { string_
    @calculatedFrom( ""abc"" ) `" ++ [28040; 24687; 31867; 22411]%N ++ runes_of_ascii "` , zchar[65535 ] metadata
, match i8i8
    as
len	{""// no comment"":
repeatCount
,	[
    ""{,}""
// c
//x
, 65535] : Header
,} ,  } ,
}packet int {
repeat int32 pack `tab	here` , }
")).
Eval vm_compute in ("<<<M4220>>>" ++ check (runes_of_ascii "packet asx {
    options1 @calculatedFrom(""" ++ [128512]%N ++ runes_of_ascii """),
    A u,
    char[1] body,
}

MetaData u {
    zchar[1] options1,
}

packet falsey {
    repeat Foo {
        zchar[4294967296] charz @lengthOf(roots),
    },
    float,
    @lengthOf(u8x)
    @calculatedFrom(""{,}"")
    @leftPad('0')
    repeat u128 MetaDataX `u8 x,`,
    @tag(255)
    @rightPad()
    repeat calculatedFrom {
        repeat string f32a,
        match _x as x {
            ""a	b"" : A,
        },
        float32 zchar `
        `,
        string string_ `line1
        line2`,
    },
}")).
Eval vm_compute in ("<<<M3978>>>" ++ check (runes_of_ascii "//
packet u8x {
    repeat int _x `line1
    line2`,
    @lengthOf(rootA)
    int16 leftPad,
    repeat Logon _x,
}

packet float {
    repeat u8x {
        match asx as asx {
            ""a\""b"" : BodyLength,
            [0] : len,
            //	t
            """ ++ [28040; 24687]%N ++ runes_of_ascii """ : BodyLength,
            [0, ""\" ++ [233]%N ++ runes_of_ascii """] : leftPad,
            4294967296 : T,
        },
    },
    chars {
        match Pad as zchar {
            10 : i8i8,
            [3, 10] : u8x,
        },
        zchar[4294967296] stringy @calculatedFrom(""\" ++ [233]%N ++ runes_of_ascii """),
    },
}")).
Eval vm_compute in ("<<<M3469>>>" ++ check (runes_of_ascii "packet A // c1
{ // c2
u8 // c3
a
    // c4
,
    // c5
}
    // c6
packet
    // c7
B { // c9
u16 // c10
b , // c12
}
    // c13
root
    // c14
packet // c15
P { u8 // c18
K1 // c19a
  // c19b
, // c20a
  // c20b
u8 K2 , // c23a
  // c23b
match K1
    // c25
as
    // c26
M1 // c27
{ 1 // c29
: // c30
A // c31
, // c32a
  // c32b
} // c33
, // c34
match // c35
K2 // c36a
  // c36b
as
    // c37
M2 // c38
{ // c39
1 : // c41a
  // c41b
B // c42a
  // c42b
, // c43
} // c44a
  // c44b
, } ")).
Eval vm_compute in ("<<<M350>>>" ++ check (runes_of_ascii "packet uint8x{ string_	{ repeat zchar
    {
// `tick` ""quote"" 'q'
//x
match u128
as A{42 : pack
    , }, // " ++ [27880; 37322]%N ++ runes_of_ascii "
int64  u128	, repeatCount `it's` // trailing space 
, string asx
//	t
//	t
@calculatedFrom( ""a\""b"" ) , }
    ,
matchKey
@calculatedFrom( ""1"" ) , } ,
match o as
Z9_
{
    // a // b
    [ 7	] : uint8x ,
[ 00 // `tick` ""quote"" 'q'
,// " ++ [128512]%N ++ runes_of_ascii " emoji
""" ++ [233]%N ++ runes_of_ascii "t" ++ [233]%N ++ runes_of_ascii """  , ""\" ++ [233]%N ++ runes_of_ascii """// trailing space 
]  : Packet ,// a // b
} ,f32
A, }root
    packet Foo{	repeat	float32	msg_type , }
")).
Eval vm_compute in ("<<<M4349>>>" ++ check (runes_of_ascii "root packet roots {
}

packet As {
    @calculatedFrom(""" ++ [28040; 24687]%N ++ runes_of_ascii """)
    i16 msg_type `" ++ [28040; 24687; 31867; 22411]%N ++ runes_of_ascii "`,
    repeat repeatCount {
        repeat pack msg_type `crlf
        line`,//
        match repeatCount as _x {
            ""`tick`"" : trueish,
            // c
            [65535, 255, 0123456789, ""\n"", ""abc""] : options1,
        },//x
    },
}

MetaData x_y_z {
    options1 chars,
    int32 leftPad `{ , }`,
    string i64_ `say ""hi""`,
    int32 BodyLength `a\`,
}")).
Eval vm_compute in ("<<<M3866>>>" ++ check (runes_of_ascii "packet chars {
    match tag as BodyLength {
        7 : roots,
        ""a\\"" : lengthOf,
        ""1"" : chars,
    },
    @leftPad('\x00')
    _x @lengthOf(MetaDataX),
    repeat x {
        match Logon as options1 {
            //	t
            3 : Pad,
            [7, 3, ""abc"", ""x y""] : o,
            [4294967296] : leftPad,
            """ ++ [28040; 24687]%N ++ runes_of_ascii """ : Pad,
        },
        zchar[0123456789] leftPad,
        stringy T,
    },
}

options {
}")).
Eval vm_compute in ("<<<M1110>>>" ++ check (runes_of_ascii "options{ //x
}
packet
// " ++ [27880; 37322]%N ++ runes_of_ascii "
//x
crc { @rightPad ( ) // " ++ [128512]%N ++ runes_of_ascii " emoji
match lengthOf as _x {
    ""{,}"" :charz,//	t
[ """ ++ [28040; 24687]%N ++ runes_of_ascii """
, 255
    //	t
    ] : u8x ,[
    // @lengthOf(
    ""CRC32"" ,	65535 , ""it's"", """ ++ [128512]%N ++ runes_of_ascii """,	""it's""
    , 3// c
,
255 ]
    :As , ""it's"" :
    options1
    ,
3 :
chars , 42  :
    metadata ,	},
}root	packet
//x
// c
BodyLength {
match string_ as
Z9_ {  0123456789 : leftPad , }, } MetaData float { crc msg_type , }")).
Eval vm_compute in ("<<<M720>>>" ++ check (runes_of_ascii "packet crc{ @tag(
255 )	u64	int//x
,	As len , stringy @lengthOf( A// `tick` ""quote"" 'q'
) `line1
line2` ,
    match
// a // b
// " ++ [27880; 37322]%N ++ runes_of_ascii "
a1
as  o{ """" :	Header , ""packet""// a // b
: i8i8  ,	""" ++ [128512]%N ++ runes_of_ascii """ : body ,
[ ""`tick`"" ]: // trailing space 
i64_
, ""CRC32"" :BodyLength
    // c
    ""{,}"": _x ,}
    ,	o, @tag(
42 // " ++ [27880; 37322]%N ++ runes_of_ascii "
) packetx
{ zchar[ 00 ]
// c
// packet A { u8 x, }
stringy
    ,
    } ,
    // " ++ [128512]%N ++ runes_of_ascii " emoji
    } 	 ")).
Eval vm_compute in ("<<<M90>>>" ++ check (runes_of_ascii "options{ calculatedFrom
= '0'; }
root
    // " ++ [128512]%N ++ runes_of_ascii " emoji
    packet metadata{i64 float@calculatedFrom( ""1"" )	,	@rightPad ( // trailing space 
) Logon u `crlf
line` , // trailing space 
falsey Packet `line1
line2` , u32	a1  `tab	here`, } // " ++ [128512]%N ++ runes_of_ascii " emoji
options { lengthOf
    // packet A { u8 x, }
    = '\x00'
msg_type =
uint8;repeatCount
    // `tick` ""quote"" 'q'
    =
0123456789 ; } //x")).
Eval vm_compute in ("<<<M190>>>" ++ check (runes_of_ascii "packet x_y_z
    {@calculatedFrom( """"
) repeat
// `tick` ""quote"" 'q'
// `tick` ""quote"" 'q'
_x f32a , @calculatedFrom(
    ""it's"")chars
// c
// `tick` ""quote"" 'q'
,
    int32 u8x// `tick` ""quote"" 'q'
, // c
}options
    // " ++ [128512]%N ++ runes_of_ascii " emoji
    {crc	= """ ++ [233]%N ++ runes_of_ascii "t" ++ [233]%N ++ runes_of_ascii """ }root packet  string_{ } packet x  { u8x
    Packet
    ,
i32 float, } options
    {Pad =  4294967296 ; leftPad
= """ ++ [233]%N ++ runes_of_ascii "t" ++ [233]%N ++ runes_of_ascii """}
")).
Eval vm_compute in ("<<<M4179>>>" ++ check (runes_of_ascii "  // @lengthOf(

packet
	_x

    {
@calculatedFrom( ""a	b""

    )  T	rootA ``,

    u64
    body 
@calculatedFrom(
""a	b""  ) 

//x
	`two words`, zchar[
	7

    ]
    MetaDataX@calculatedFrom(
    ""it's"" ) `say ""hi""` /// triple

	,

// trailing space 
    // `tick` ""quote"" 'q'
f32a{

repeat
zchar[
	00
    ] roots `" ++ [233]%N ++ runes_of_ascii "` 
, }
,}// `tick` ""quote"" 'q'")).
Eval vm_compute in ("<<<M541>>>" ++ check (runes_of_ascii "//x
packet Header{// " ++ [27880; 37322]%N ++ runes_of_ascii "
i64 trueish ,	string lengthOf ,match u128 as charz {// packet A { u8 x, }
""" ++ [128512]%N ++ runes_of_ascii """	: body
    } ,trueish `` // packet A { u8 x, }
,
    tag
int
, Foo { //
match asx  as options1  {65535 :
x_y_z // `tick` ""quote"" 'q'
,} ,	zchar trueish, } ,string Foo
    ,@leftPad
(
)
As @calculatedFrom(""" ++ [28040; 24687]%N ++ runes_of_ascii """ )
,
}
MetaData u8x {} 	 ")).
Eval vm_compute in ("<<<M435>>>" ++ check (runes_of_ascii "// trailing space 
packet i64_ {uint8	body , @calculatedFrom(
""\n"" ) repeat BodyLength {repeat
// trailing space 
// packet A { u8 x, }
crc	len
`" ++ [233]%N ++ runes_of_ascii "`
, As , repeat char[] Header
,
}, match T as T { 3 : repeatCount ,}  , match tag
    as pack {	""a	b""://
string_  , } ,
    zchar[10  ] a1 ``
    ,
@tag( 3//	t
) string int ,
}
")).
Eval vm_compute in ("<<<M4097>>>" ++ check (runes_of_ascii "root packet packetx {
    char[65535] u,
    @lengthOf(MetaDataX)
    @lengthOf(rootA)
    @lengthOf(u8x)
    zchar[3] zchar `
        `,
    // packet A { u8 x, }
    //	t
    lengthOf len,
    repeat A {
        // c
        lengthOf @calculatedFrom(""x y""),
        zchar[007] zchar @lengthOf(float),
    },
}")).
Eval vm_compute in ("<<<M811>>>" ++ check (runes_of_ascii "options {
    crc
    // a // b
    =""{,}"";
body	=	1
; }//x
options { MetaDataX
=
    char[] ;chars
// a // b
// trailing space 
=10
; }// " ++ [128512]%N ++ runes_of_ascii " emoji
packet
    // " ++ [128512]%N ++ runes_of_ascii " emoji
    falsey {
@lengthOf( body
//	t
// a // b
)i16 i64_ `u8 x,`  , // a // b
@leftPad  (
) roots @lengthOf(	packetx ) , zchar, }
")).
Eval vm_compute in ("<<<M1465>>>" ++ check (runes_of_ascii "root packet Foo // " ++ [128512]%N ++ runes_of_ascii " emoji
{ } options {
    // a // b
    tag // `tick` ""quote"" 'q'
= //	t
""""
    ; u8x u8x = zchar[0  ] }
MetaData
    int {zchar[ 10]
lengthOf	`` , i64 u8x`// not a comment` ,MetaDataX pack// `tick` ""quote"" 'q'
`crlf
line`
, Logon charz `crlf
line`
    ,
    // a // b
    }
")).
Eval vm_compute in ("<<<M1460>>>" ++ check (runes_of_ascii "root packet Foo // " ++ [128512]%N ++ runes_of_ascii " emoji
{ } options {
    // a // b
    tag // `tick` ""quote"" 'q'
= //	t
""""
    ; ; u8x = zchar[0  ] }
MetaData
    int {zchar[ 10]
lengthOf	`` , i64 u8x`// not a comment` ,MetaDataX pack// `tick` ""quote"" 'q'
`crlf
line`
, Logon charz `crlf
line`
    ,
    // a // b
    }
")).
Eval vm_compute in ("<<<M1623>>>" ++ check (runes_of_ascii "root packet Foo // " ++ [128512]%N ++ runes_of_ascii " emoji
{ } options {
    // a // b
    tag // `tick` ""quote"" 'q'
= //	t
""""
    ; u8x = zchar[0  ] }
MetaData
    int {zchar[ 10]
lengthOf	`` , i64 u8x`// not a comment` ,MetaDataX pack// `tick` ""quote"" 'q'
`crlf
line`
, caf" ++ [233]%N ++ runes_of_ascii "_1 charz `crlf
line`
    ,
    // a // b
    }
")).
Eval vm_compute in ("<<<M1561>>>" ++ check (runes_of_ascii "root packet Foo // " ++ [128512]%N ++ runes_of_ascii " emoji
{ } options {
    // a // b
    tag // `tick` ""quote"" 'q'
= //	t
""""
    ; u8x = zchar[0  ] }
MetaData
    int {zchar[ 10]
lengthOf	`` , i64 u8x`// not a comment` ,pack MetaDataX// `tick` ""quote"" 'q'
`crlf
line`
, Logon charz `crlf
line`
    ,
    // a // b
    }
")).
Eval vm_compute in ("<<<M318>>>" ++ check (runes_of_ascii "
packet As { @leftPad
( )
    @leftPad ( ' '  )char[] zchar, A string_
`" ++ [233]%N ++ runes_of_ascii "`
,
a1
    {	Z9_ @lengthOf(
    repeatCount )
    , u128
{ zchar[4294967296 ] crc
//x
//
@calculatedFrom(  ""packet"" ) ,repeat char x_y_z, }
,	u8
    Logon	@calculatedFrom(
    """ ++ [233]%N ++ runes_of_ascii "t" ++ [233]%N ++ runes_of_ascii """ ) , }, }
packet
u { } // " ++ [128512]%N ++ runes_of_ascii " emoji")).
Eval vm_compute in ("<<<M1414>>>" ++ check (runes_of_ascii "root  Foo // " ++ [128512]%N ++ runes_of_ascii " emoji
{ } options {
    // a // b
    tag // `tick` ""quote"" 'q'
= //	t
""""
    ; u8x = zchar[0  ] }
MetaData
    int {zchar[ 10]
lengthOf	`` , i64 u8x`// not a comment` ,MetaDataX pack// `tick` ""quote"" 'q'
`crlf
line`
, Logon charz `crlf
line`
    ,
    // a // b
    }
")).
Eval vm_compute in ("<<<M3505>>>" ++ check (runes_of_ascii "options {
    LittleEndian = true;
    ArrayPrefixLenType = u64;
    FixedStringPadFromLeft = false;
}
packet Quote {
}
root packet Order {
    i64 Side2,
    Quote,
    u32 Px,
    match Px as Body {
        [119, 147] : Quote,
    },
    u16 Flags @calculatedFrom(""CRC32""),
}
")).
Eval vm_compute in ("<<<M1598>>>" ++ check (runes_of_ascii "root packet Foo // " ++ [128512]%N ++ runes_of_ascii " emoji
{ } options {
    // a // b
    tag // `tick` ""quote"" 'q'
= //	t
""""
    ; u8x = zchar[0  ] }
MetaData
    int {zchar[ 10]
lengthOf	`` , i64 u8x`// not a comment` ,MetaDataX pack// `tick` ""quote"" 'q'
`crlf
line`
, Logon charz `crlf
line`")).
Eval vm_compute in ("<<<M3929>>>" ++ check (runes_of_ascii "
// packet A { u8 x, }
    options
	{ matchKey
=
char[]x
=  char[]  // " ++ [27880; 37322]%N ++ runes_of_ascii "
  }packet i64_
{ repeat
pack `say ""hi""`
    ,	i16 calculatedFrom  `u8 x,`

    ,
}	MetaData

calculatedFrom	{ // trailing space 
	Logon
	Packet,  } 	 // `tick` ""quote"" 'q'
 
")).
Eval vm_compute in ("<<<M1200>>>" ++ check (runes_of_ascii "
packet lengthOf { repeat
    zchar[
    10]
x , @tag( 0123456789  ) char[ 3 ] charz ,
}root packet i64_{ i64_
`say ""hi""` ,string Logon `tab	here` ,
uint64
//x
//	t
pack @calculatedFrom( ""\" ++ [233]%N ++ runes_of_ascii """ ) `two words`
,
    } options
{uint8x =
'0'
; }")).
Eval vm_compute in ("<<<M921>>>" ++ check (runes_of_ascii "root packet
    len {@rightPad( '0') repeat msg_type Foo ,
    match  calculatedFrom
as roots{ 00 : falsey	},@lengthOf( tag ) match // `tick` ""quote"" 'q'
int as rootA { //
7 :_x , },@calculatedFrom(
    ""\" ++ [233]%N ++ runes_of_ascii """
    )	f64 // " ++ [27880; 37322]%N ++ runes_of_ascii "
crc ,
}
")).
Eval vm_compute in ("<<<M3545>>>" ++ check (runes_of_ascii "packet Sub {
    u8 a,
    @calculatedFrom(""CRC16"") i16 SubSum,
}
root packet Frame {
    u16 MsgType,
    u16 BodyLen @lengthOf(Body),
    Sub Body,
    string note,
    @calculatedFrom(""CRC16"") i16 Checksum,
    u8 tail,
}
")).
Eval vm_compute in ("<<<M402>>>" ++ check (runes_of_ascii "packet
    falsey{ }MetaData
    x
{ body len // @lengthOf(
, lengthOf trueish `two words` , zchar[// packet A { u8 x, }
65535	] Header`it's`,  packetx uint8x
`
` , int32 As , }
    // " ++ [128512]%N ++ runes_of_ascii " emoji
    root packet i8i8
{
}
")).
Eval vm_compute in ("<<<M2241>>>" ++ check (runes_of_ascii "MetaData Packet { }packet	asx  { { @lengthOf( asx) falsey`crlf
line`
,
    }
    packet x	{uint32// @lengthOf(
rootA	,u32 options1 `say ""hi""` , @tag( 7
    )// packet A { u8 x, }
msg_type @lengthOf(
stringy	)	, }

")).
Eval vm_compute in ("<<<M2388>>>" ++ check (runes_of_ascii "MetaData Packet { }packet	asx  { @lengthO" ++ [8232]%N ++ runes_of_ascii "f( asx) falsey`crlf
line`
,
    }
    packet x	{uint32// @lengthOf(
rootA	,u32 options1 `say ""hi""` , @tag( 7
    )// packet A { u8 x, }
msg_type @lengthOf(
stringy	)	, }

")).
Eval vm_compute in ("<<<M2352>>>" ++ check (runes_of_ascii "MetaData Packet { }packet	asx  { @lengthOf( asx) falsey`crlf
line`
,
    }
    packet x	{uint32// @lengthOf(
rootA	,u32 options1 `say ""hi""` , @tag( 7
    )// packet A { u8 x, }
msg_type stringy
@lengthOf(	)	, }

")).
Eval vm_compute in ("<<<M1068>>>" ++ check (runes_of_ascii "MetaData pack
    {Header  len ,  } packet
i8i8	{pack @lengthOf( // @lengthOf(
int )
, }root packet
// `tick` ""quote"" 'q'
// c
MetaDataX {char[007 ] metadata ,}
MetaData //x
MetaDataX { int
    //x
    o , }
")).
Eval vm_compute in ("<<<M4237>>>" ++ check (runes_of_ascii "MetaData uint8x {
}

packet matchKey {
    @rightPad()
    a1 {
        zchar[1] u128 @calculatedFrom(""a\""b""),
        i64_ i8i8,
        // c
        repeat int roots,
        i8 charz,
    },
}

options {
}")).
Eval vm_compute in ("<<<M699>>>" ++ check (runes_of_ascii "packet
    Header { @calculatedFrom(""a	b"" ) match u128
    /// triple
    as // trailing space 
A
    { 42// " ++ [128512]%N ++ runes_of_ascii " emoji
: Header [ 3 ,
// trailing space 
// " ++ [27880; 37322]%N ++ runes_of_ascii "
""packet"" , ""x y"" , ""a	b""
    ]: zchar , },
}")).
Eval vm_compute in ("<<<M3942>>>" ++ check (runes_of_ascii "root packet Foo {
    float32 Logon `doc`,
}

MetaData x_y_z {
    Header Z9_ `line1
        line2`,
    o crc,
    string Header,
    _x packetx `say ""hi""`,
}

packet stringy {
    uint8 i64_,
}")).
Eval vm_compute in ("<<<M1286>>>" ++ check (runes_of_ascii "root packet
BodyLength { } options
    { A = true ;
    //	t
    Packet =
    i32 A =//x
char[] }
    packet
    Z9_ { }
root packet f32a
{
    //x
    chars
    // a // b
    float ,	}
")).
Eval vm_compute in ("<<<M3456>>>" ++ check (runes_of_ascii "// top
root // c0
packet P // c2a
  // c2b
{ u16 // c4
a // c5a
  // c5b
, // c6
u32 // c7
Sum @calculatedFrom(
    // c9
""CRC32"" // c10
) , // c12a
  // c12b
} // c13a
  // c13b
")).
Eval vm_compute in ("<<<M958>>>" ++ check (runes_of_ascii "packet trueish { @calculatedFrom( """ ++ [128512]%N ++ runes_of_ascii """ ) char[42 ] leftPad , pack ,@tag(	10	) packetx BodyLength , }	options { metadata
    = ""it's""charz= u64; // " ++ [128512]%N ++ runes_of_ascii " emoji
metadata= ' '
;}
")).
Eval vm_compute in ("<<<M81>>>" ++ check (runes_of_ascii "root packet
x_y_z {
    @leftPad
    (
' ')uint8x { float32 len @calculatedFrom(""it's""
    //
    )
`" ++ [233]%N ++ runes_of_ascii "` ,match o as stringy{ [""{,}""
    ] : x
    , }
    ,
}
, }
")).
Eval vm_compute in ("<<<M1533>>>" ++ check (runes_of_ascii "root packet Foo // " ++ [128512]%N ++ runes_of_ascii " emoji
{ } options {
    // a // b
    tag // `tick` ""quote"" 'q'
= //	t
""""
    ; u8x = zchar[0  ] }
MetaData
    int {zchar[ 10]
lengthOf")).
Eval vm_compute in ("<<<M684>>>" ++ check (runes_of_ascii "root packet body
    //	t
    {@lengthOf(
string_ )	match f32a as rootA{  [""x y""
]
// @lengthOf(
// trailing space 
:packetx
//
// a // b
, }
    , }")).
Eval vm_compute in ("<<<M418>>>" ++ check (runes_of_ascii "  packet repeatCount
    {
    } packet
charz
{ @calculatedFrom( ""// no comment"" ) int32	msg_type
@lengthOf(f32a
    /// triple
    ) , } // " ++ [27880; 37322]%N)).
Eval vm_compute in ("<<<M132>>>" ++ check (runes_of_ascii "packet lengthOf
{ options1 {	calculatedFrom`line1
line2`	,
} ,  @tag(
4294967296 ) match	_x
as msg_type	{ ""\" ++ [233]%N ++ runes_of_ascii """ // @lengthOf(
:  o , },
}")).
Eval vm_compute in ("<<<M1303>>>" ++ check (runes_of_ascii "root packet lengthOf { char[00 ]  x@lengthOf(
matchKey ) ,
    //	t
    float64 repeatCount // c
, @lengthOf(	zchar
)	char[]roots  ,	}
")).
Eval vm_compute in ("<<<M1643>>>" ++ check (runes_of_ascii "root packet /// triple
rootA {	i32 i32
MetaDataX@calculatedFrom( ""CRC32"" ) `line1
line2` , } MetaData BodyLength {
u8
rootA, } // c")).
Eval vm_compute in ("<<<M2324>>>" ++ check (runes_of_ascii "MetaData Packet { }packet	asx  { @lengthOf( asx) falsey`crlf
line`
,
    }
    packet x	{uint32// @lengthOf(
rootA	,u32 options1")).
Eval vm_compute in ("<<<M1699>>>" ++ check (runes_of_ascii "root packet /// triple
rootA {	i32
MetaDataX@calculatedFrom( ""CRC32"" ) `line1
line2` , } MetaData BodyLength {
rootA
u8, } // c")).
Eval vm_compute in ("<<<M3753>>>" ++ check (runes_of_ascii "
packet
A

{
u16 len @lengthOf(	body
    )`a
b`
	,	u32

crc
@calculatedFrom(""CRC32""
	)

    `a
b` , string body

    ,}")).
Eval vm_compute in ("<<<M4191>>>" ++ check (runes_of_ascii "packet  A{

u16
    len @lengthOf( body)

`a

b` 
,
    u32 crc@calculatedFrom(

""CRC32"" )`a

b`	,
    string body,

    }")).
Eval vm_compute in ("<<<M1808>>>" ++ check (runes_of_ascii "packet
    Pad // a // b
{ i8i8 @calculatedFrom( @rightPad) `u8 x,` ,
} options{ float// " ++ [128512]%N ++ runes_of_ascii " emoji
= f64 i64_
=//	t
00 }
")).
Eval vm_compute in ("<<<M1861>>>" ++ check (runes_of_ascii "packet
    Pad // a // b
{ i8i8 @calculatedFrom( ""a	b"") `u8 x,` ,
} options{ float// " ++ [128512]%N ++ runes_of_ascii " emoji
= f64 i64_
= =//	t
00 }
")).
Eval vm_compute in ("<<<M631>>>" ++ check (runes_of_ascii "MetaData // " ++ [128512]%N ++ runes_of_ascii " emoji
Packet { char[] Pad
    // " ++ [27880; 37322]%N ++ runes_of_ascii "
    `tab	here`,
} MetaData	u { roots stringy`doc` , }	options	{ }
")).
Eval vm_compute in ("<<<M1790>>>" ++ check (runes_of_ascii "packet
    Pad // a // b
 i8i8 @calculatedFrom( ""a	b"") `u8 x,` ,
} options{ float// " ++ [128512]%N ++ runes_of_ascii " emoji
= f64 i64_
=//	t
00 }
")).
Eval vm_compute in ("<<<M568>>>" ++ check (runes_of_ascii "root packet lengthOf { repeat char[
0
    ] i8i8 `" ++ [233]%N ++ runes_of_ascii "` ,
MetaDataX@calculatedFrom( ""abc""
/// triple
// a // b
),  }")).
Eval vm_compute in ("<<<M482>>>" ++ check (runes_of_ascii "options{
charz
= true ; roots
    /// triple
    = int64  trueish // trailing space 
= // c
""\n""charz = u8  }
")).
Eval vm_compute in ("<<<M3556>>>" ++ check (runes_of_ascii "options {
    Header = 4294967296
    charz = true
    Pad = '\x00'
    charz = """";
}

MetaData MetaDataX {
}")).
Eval vm_compute in ("<<<M3040>>>" ++ check (runes_of_ascii "packet A {
    u16 len @lengthOf(body) `
x`,
    u32 crc @calculatedFrom(""CRC32"") `
x`,
    string body,
}")).
Eval vm_compute in ("<<<M3340>>>" ++ check (runes_of_ascii "packet
// c
calculatedFrom { @tag( 4294967296 ) u msg_type , char[ 3 ] crc @lengthOf( len ) `u8 x,` , }")).
Eval vm_compute in ("<<<M3372>>>" ++ check (runes_of_ascii "packet calculatedFrom { @tag( 4294967296 ) u msg_type , char[ 3 ] crc @lengthOf( len ) `u8 x,`
// c
, }")).
Eval vm_compute in ("<<<M831>>>" ++ check (runes_of_ascii "packet
    u { }
MetaData string_ {
metadata
    msg_type , } options {pack= true; rootA= true }

")).
Eval vm_compute in ("<<<M4426>>>" ++ check (runes_of_ascii "  root  packet

x_y_z	{ 
// a // b
      // packet A { u8 x, }
	repeat  falsey// " ++ [27880; 37322]%N ++ runes_of_ascii "
      `" ++ [233]%N ++ runes_of_ascii "`	,	}")).
Eval vm_compute in ("<<<M3222>>>" ++ check (runes_of_ascii "packet Logon { @tag( // c
42 ) @rightPad ( ' ' ) @leftPad ( ) repeat trueish { string T , } , }")).
Eval vm_compute in ("<<<M3254>>>" ++ check (runes_of_ascii "packet Logon { @tag( 42 ) @rightPad ( ' ' ) @leftPad ( ) repeat trueish { string T , } // c
, }")).
Eval vm_compute in ("<<<M270>>>" ++ check (runes_of_ascii "packet Pad { @calculatedFrom( ""CRC32"" ) @tag( 7 ) float32 u128 @calculatedFrom(""\n"")
    , }")).
Eval vm_compute in ("<<<M1069>>>" ++ check (runes_of_ascii "MetaData lengthOf // a // b
{i64 matchKey
// " ++ [128512]%N ++ runes_of_ascii " emoji
// packet A { u8 x, }
`say ""hi""`
, }")).
Eval vm_compute in ("<<<M2002>>>" ++ check (runes_of_ascii "root
packet crc
    { f32a @calculatedFrom( """ ++ [233]%N ++ runes_of_ascii "t" ++ [233]%N ++ runes_of_ascii """ )
    `say ""hi""`, , lengthOf `` ,  }")).
Eval vm_compute in ("<<<M1676>>>" ++ check (runes_of_ascii "root packet /// triple
rootA {	i32
MetaDataX@calculatedFrom( ""CRC32"" ) `line1
line2`")).
Eval vm_compute in ("<<<M2045>>>" ++ check (runes_of_ascii "root
packet crc
    { a" ++ [769]%N ++ runes_of_ascii "b @calculatedFrom( """ ++ [233]%N ++ runes_of_ascii "t" ++ [233]%N ++ runes_of_ascii """ )
    `say ""hi""`, lengthOf `` ,  }")).
Eval vm_compute in ("<<<M4348>>>" ++ check (runes_of_ascii "  root
    packet Z9_
	{ @rightPad (	) packetx  `" ++ [233]%N ++ runes_of_ascii "`,
}root
    packet
falsey {
	}
")).
Eval vm_compute in ("<<<M3313>>>" ++ check (runes_of_ascii "packet o { @tag( 42 ) repeat x { char[
// c
0123456789 ] i64_ , } , } options { }")).
Eval vm_compute in ("<<<M2916>>>" ++ check (runes_of_ascii "packet A {
  match k as n {
    [1, ""bb"", 007, ""d"", 5, ""f""] : B
    2 : C
  },
}")).
Eval vm_compute in ("<<<M3482>>>" ++ check (runes_of_ascii "packet
    orderItem  { u8 a	,
} root
packet newOrder{	orderItem	, u8 x	,}
")).
Eval vm_compute in ("<<<M2903>>>" ++ check (runes_of_ascii "packet A {
  match k as n {
    [1, ""bb"", 007, ""d"", 5] : B
    2 : C
  },
}")).
Eval vm_compute in ("<<<M237>>>" ++ check (runes_of_ascii "// " ++ [128512]%N ++ runes_of_ascii " emoji
packet	roots
    // trailing space 
    {
    } // @lengthOf(")).
Eval vm_compute in ("<<<M2169>>>" ++ check (runes_of_ascii "root
    // `tick` ""quote"" 'q'
    packet As false trueish Packet , }
")).
Eval vm_compute in ("<<<M1120>>>" ++ check (runes_of_ascii "MetaData
    Pad { Foo a1 ,
f64
metadata
    , zchar
    string_ , }")).
Eval vm_compute in ("<<<M2762>>>" ++ check (runes_of_ascii "@lengthOf( ; @tag( u16 , @tag( ""it's"" @tag( [ @leftPad char[] char[]")).
Eval vm_compute in ("<<<M2155>>>" ++ check (runes_of_ascii "packet
    // `tick` ""quote"" 'q'
    root As { trueish Packet , }
")).
Eval vm_compute in ("<<<M3789>>>" ++ check (runes_of_ascii "packet f32a {
    @tag(1)
    Z9_ chars,
    chars `
        `,
}")).
Eval vm_compute in ("<<<M16>>>" ++ check (runes_of_ascii "MetaData
    stringy
{ char[ 0] chars// @lengthOf(
`{ , }` , }")).
Eval vm_compute in ("<<<M1923>>>" ++ check (runes_of_ascii "
packet	As { @calculatedFrom(//x
""{,}""	match lengthOf , } 	 ")).
Eval vm_compute in ("<<<M1251>>>" ++ check (runes_of_ascii "MetaData stringy{
    // " ++ [128512]%N ++ runes_of_ascii " emoji
    options1 Header//
,
}")).
Eval vm_compute in ("<<<M3988>>>" ++ check (runes_of_ascii "
root

// `tick` ""quote"" 'q'
packet
As	{ Packet
,
	}

")).
Eval vm_compute in ("<<<M1932>>>" ++ check (runes_of_ascii "
packet	As { @calculatedFrom(//x
""{,}""	)lengthOf } , 	 ")).
Eval vm_compute in ("<<<M530>>>" ++ check (runes_of_ascii "packet	_x  {repeat crc { char[
7 ]
float , }
, } 	 ")).
Eval vm_compute in ("<<<M2403>>>" ++ check (runes_of_ascii "MetaData A
{ {
i64
chars	, } // `tick` ""quote"" 'q'")).
Eval vm_compute in ("<<<M4361>>>" ++ check (runes_of_ascii "  options
	{ a
    =
""\
""

    ;  b	= ""\
"" }

")).
Eval vm_compute in ("<<<M1775>>>" ++ check (runes_of_ascii "options ~ { }options {  } // `tick` ""quote"" 'q'")).
Eval vm_compute in ("<<<M4257>>>" ++ check (runes_of_ascii "options	{
	MetaDataX =	char[] }
/// triple
 
")).
Eval vm_compute in ("<<<M2840>>>" ++ check (runes_of_ascii "[ u8 char[] int64 string } ""\" ++ [233]%N ++ runes_of_ascii """ packet char[")).
Eval vm_compute in ("<<<M1741>>>" ++ check (runes_of_ascii "char { }options {  } // `tick` ""quote"" 'q'")).
Eval vm_compute in ("<<<M3735>>>" ++ check (runes_of_ascii "packet A	{u8 
x

    `d" ++ [5760]%N ++ runes_of_ascii "`

,	// c" ++ [5760]%N ++ runes_of_ascii "

}

")).
Eval vm_compute in ("<<<M3191>>>" ++ check (runes_of_ascii "MetaData
// c
zchar { zchar[ 3 ] Pad , }")).
Eval vm_compute in ("<<<M2149>>>" ++ check (runes_of_ascii "Met" ++ [0]%N ++ runes_of_ascii "aData x
{// " ++ [128512]%N ++ runes_of_ascii " emoji
i16 stringy , }")).
Eval vm_compute in ("<<<M3056>>>" ++ check (runes_of_ascii "options {
    a = ""\
"";
    b = ""\
""
}")).
Eval vm_compute in ("<<<M2132>>>" ++ check (runes_of_ascii "MetaData x
{// " ++ [128512]%N ++ runes_of_ascii " emoji
i16 stringy ,")).
Eval vm_compute in ("<<<M3820>>>" ++ check (runes_of_ascii "packet A  {

    } // a
	// b
 
")).
Eval vm_compute in ("<<<M2814>>>" ++ check (runes_of_ascii "	" ++ [65533; 65533; 65533]%N ++ runes_of_ascii "Y" ++ [65533; 31; 65533; 65533]%N ++ runes_of_ascii "(" ++ [26]%N ++ runes_of_ascii "g" ++ [65533; 65533; 65533; 65533]%N ++ runes_of_ascii "-" ++ [567]%N ++ runes_of_ascii "q" ++ [65533; 65533; 4]%N ++ runes_of_ascii "G" ++ [65533]%N ++ runes_of_ascii "1" ++ [65533]%N ++ runes_of_ascii "/;D" ++ [65533]%N ++ runes_of_ascii "D" ++ [1; 65533]%N)).
Eval vm_compute in ("<<<M51>>>" ++ check (runes_of_ascii "options
{ string_ = //	t
007 }
")).
Eval vm_compute in ("<<<M3073>>>" ++ check (runes_of_ascii "packet A {
 u8 x `d" ++ [160]%N ++ runes_of_ascii "`, // c" ++ [160]%N ++ runes_of_ascii "
}")).
Eval vm_compute in ("<<<M3162>>>" ++ check (runes_of_ascii "MetaData M {
}// c
options {}")).
Eval vm_compute in ("<<<M1799>>>" ++ check (runes_of_ascii "packet
    Pad // a // b
{")).
Eval vm_compute in ("<<<M2123>>>" ++ check (runes_of_ascii "MetaData x
{// " ++ [128512]%N ++ runes_of_ascii " emoji
i16")).
Eval vm_compute in ("<<<M2719>>>" ++ check (runes_of_ascii ";" ++ [65533; 65533]%N ++ runes_of_ascii "M" ++ [29; 4; 65533; 37727]%N ++ runes_of_ascii "nK?" ++ [19; 65533; 65533; 65533]%N ++ runes_of_ascii "B" ++ [19; 16]%N ++ runes_of_ascii "%" ++ [65533; 65533; 65533; 65533]%N ++ runes_of_ascii "<" ++ [65533]%N)).
Eval vm_compute in ("<<<M2665>>>" ++ check (runes_of_ascii "options { options = 1; }")).
Eval vm_compute in ("<<<M2577>>>" ++ check (runes_of_ascii "packet A { char[ 3 y, }")).
Eval vm_compute in ("<<<M2773>>>" ++ check (runes_of_ascii "int64 ; char match i64")).
Eval vm_compute in ("<<<M94>>>" ++ check (runes_of_ascii "  options //x
{} 	 ")).
Eval vm_compute in ("<<<M2571>>>" ++ check (runes_of_ascii "packet A { x `d`, }")).
Eval vm_compute in ("<<<M2753>>>" ++ check (runes_of_ascii ": ) uint16 root as")).
Eval vm_compute in ("<<<M3131>>>" ++ check (runes_of_ascii "packet A {
}
// c" ++ [8203]%N)).
Eval vm_compute in ("<<<M3064>>>" ++ check (runes_of_ascii "packet A {
}// c" ++ [12288]%N)).
Eval vm_compute in ("<<<M3734>>>" ++ check (runes_of_ascii "MetaData asx {
}")).
Eval vm_compute in ("<<<M2727>>>" ++ check (runes_of_ascii "A" ++ [65533; 65533; 65533; 65533]%N ++ runes_of_ascii "}" ++ [65533; 8; 20; 65533; 65533; 65533]%N ++ runes_of_ascii "J")).
Eval vm_compute in ("<<<M545>>>" ++ check (runes_of_ascii "options
{}")).
Eval vm_compute in ("<<<M2486>>>" ++ check (runes_of_ascii "@lengthOf")).
Eval vm_compute in ("<<<M2501>>>" ++ check (runes_of_ascii "// a
b")).
Eval vm_compute in ("<<<M685>>>" ++ check (runes_of_ascii " // c")).
Eval vm_compute in ("<<<M3090>>>" ++ check (runes_of_ascii "// c" ++ [8202]%N)).
Eval vm_compute in ("<<<M2540>>>" ++ check (runes_of_ascii "[[]]")).
Eval vm_compute in ("<<<M2546>>>" ++ check (runes_of_ascii "a" ++ [11]%N ++ runes_of_ascii "b")).
Eval vm_compute in ("<<<M2736>>>" ++ check (runes_of_ascii "u!")).
