From FP Require Import Lexer Parser ShowPT Digest Formatter.
From Coq Require Import String List NArith.
Import ListNotations.
Open Scope string_scope.
Set Printing Width 100000000.
Set Printing Depth 100000000.
Definition show_fres (r : fres) : string :=
  match r with
  | FOk s => "OK:" ++ sh_escaped s ""
  | FErr s => "ERR:" ++ sh_escaped s ""
  | FPanic p => "PANIC:" ++ p
  end.
Definition check (rs : list rune) : string := digest (show_fres (format_res rs)).
Definition full (rs : list rune) : string := show_fres (format_res rs).
Eval vm_compute in ("<<<M1428>>>" ++ check (runes_of_ascii "options { // c1a
  // c1b
LittleEndian
    // c2
=
    // c3
true
    // c4
; // c5a
  // c5b
StringPrefixLenType = // c7a
  // c7b
u32 ; FixedStringPadChar // c10
=
    // c11
'0' ; // c13a
  // c13b
} // c14
packet // c15a
  // c15b
Logout { repeat // c18
InMsgkind49 // c19a
  // c19b
{ u8 pad0 , // c23
} // c24
,
    // c25
repeat // c26
char[ // c27
5 ] seqNo // c30
, // c31a
  // c31b
repeat u8 // c33a
  // c33b
price // c34
, // c35
}
    // c36
packet // c37
Party { // c39a
  // c39b
zchar[ // c40a
  // c40b
7 // c41a
  // c41b
] Qty // c43a
  // c43b
, // c44a
  // c44b
} // c45a
  // c45b
packet // c46
Logon
    // c47
{ repeat // c49
InRef10
    // c50
{ string
    // c52
price // c53a
  // c53b
, // c54
char[]
    // c55
sym , // c57
repeat
    // c58
Logout // c59a
  // c59b
,
    // c60
} // c61
,
    // c62
repeat char[ // c64
3 // c65a
  // c65b
] count
    // c67
, repeat // c69a
  // c69b
Party ,
    // c71
char[] // c72a
  // c72b
tag7
    // c73
, // c74a
  // c74b
@rightPad ( // c76a
  // c76b
'0' // c77a
  // c77b
) // c78a
  // c78b
char[ // c79
2 // c80
] // c81
clOrdID // c82
, // c83a
  // c83b
} // c84
packet // c85a
  // c85b
Order
    // c86
{
    // c87
InTail13
    // c88
{
    // c89
Party , } ,
    // c93
repeat char[ // c95a
  // c95b
4 ] count , // c99a
  // c99b
}
    // c100
root // c101
packet // c102a
  // c102b
Cancel // c103
{
    // c104
Logout
    // c105
, @leftPad
    // c107
( // c108a
  // c108b
'0' ) char[ // c111a
  // c111b
9 // c112
] // c113a
  // c113b
msgKind , // c115
string // c116a
  // c116b
lastPx
    // c117
, // c118
string // c119
tag7
    // c120
, // c121
zchar[
    // c122
1
    // c123
] // c124a
  // c124b
OrderId , // c126
repeat Party , // c129
u16 // c130a
  // c130b
sym // c131
,
    // c132
u16 Acct // c134a
  // c134b
@lengthOf( Body // c136
)
    // c137
, match // c139
sym as
    // c141
Body { [ 24 // c145a
  // c145b
, // c146a
  // c146b
44
    // c147
]
    // c148
: Logout
    // c150
, // c151
160 // c152a
  // c152b
: Order // c154a
  // c154b
, // c155
91 // c156a
  // c156b
: Logon // c158a
  // c158b
, // c159
43 // c160a
  // c160b
: // c161
Party // c162
, } // c164a
  // c164b
,
    // c165
u16 // c166
Tail // c167a
  // c167b
@calculatedFrom( // c168a
  // c168b
""CRC32"" // c169a
  // c169b
) , // c171a
  // c171b
} // c172a
  // c172b
")).
Eval vm_compute in ("<<<M1843>>>" ++ check (runes_of_ascii "
// @lengthOf(
	root	packet 
leftPad
	{

match  Logon as	msg_type

{ ""it's""	:

int
, """ ++ [128512]%N ++ runes_of_ascii """
: charz

""a\\""
	:
    options1	,

}

,	@rightPad
(  ' ' 
)

    asx

    `doc`
	,  @leftPad 
(

'0' ) 
uint32
charz 
,	@tag(
255
)
zchar[	10
	]
	Pad

``,	string	asx  `it's`

, } packet 
    // packet A { u8 x, }
// trailing space 
    Pad 
{
    @lengthOf(lengthOf)	@lengthOf(
	crc  )u8x `a\`
,	float64	f32a
	@calculatedFrom(

""a\""b"" ) `it's`
	,

    @lengthOf(options1
    )	@tag(

42
)
@calculatedFrom( 
// a // b

	//x
  ""1""
)
	zchar[

7
] repeatCount
	`say ""hi""` , @calculatedFrom(
    ""// no comment"" )

//x
    zchar[

    3	]
	i8i8
@calculatedFrom(

""// no comment""
)`" ++ [233]%N ++ runes_of_ascii "`	,
@tag(//
  65535	) 
match	o
	as float{[// @lengthOf(
10]
:
len
	}
, @tag(

3 //x
    	)match

repeatCount
as Pad

{
    [""// no comment"",
42, ""\n""

,	007 ,	3 , ""// no comment""
// c
    ] 
:
	calculatedFrom  }
    ,u8x{

    repeat 
string
    x `it's`

    ,
x
@calculatedFrom( """ ++ [128512]%N ++ runes_of_ascii """
) //
	,  falsey
	{match f32a
as// c

  u128  {
    [	""it's""
    //x
  , 0123456789,
0 
,
""" ++ [233]%N ++ runes_of_ascii "t" ++ [233]%N ++ runes_of_ascii """
, 42 , 65535  // c
, 
1  ,
255
] :uint8x
    ,
0
    :

asx 
, } ,  repeat

    packetx

u
`{ , }`,
    string Foo
,x 
@calculatedFrom( ""a	b""

)  //	t
      , } , o
pack
	,	}

,  // a // b
	  }
packet	i64_ {
	repeat	char[
3 
]
    a1
	, }options
// a // b

{ }
")).
Eval vm_compute in ("<<<M207>>>" ++ check (runes_of_ascii "
root packet	msg_type {u128//
, @calculatedFrom(
""" ++ [233]%N ++ runes_of_ascii "t" ++ [233]%N ++ runes_of_ascii """ ) repeat char[
    //
    3]
    metadata`crlf
line`,
char[255 ]	Pad
,  asx @calculatedFrom(""packet"" )
    , repeat stringy `tab	here`
    ,
//x
//	t
repeat //x
As `two words`, @leftPad ( '\x00'
    ) repeat matchKey`a\`	, @rightPad (' ' ) repeat/// triple
Pad
{ repeat
    u
,
// trailing space 
// packet A { u8 x, }
repeat char[] uint8x , }
    ,
u128	{ repeat
As `u8 x,` ,
pack msg_type,	uint32 lengthOf @calculatedFrom( ""1""	), match roots as
    // " ++ [128512]%N ++ runes_of_ascii " emoji
    x{ ""{,}"" :
    // " ++ [27880; 37322]%N ++ runes_of_ascii "
    Pad
    }
    ,  } ,}
root packet tag
{string pack , } root
packet u8x
    {
string
    pack `doc` , @lengthOf( options1
    )f32	matchKey @calculatedFrom( ""`tick`"" )
`two words` , @leftPad (  '\x00' )@lengthOf( Packet) @tag( 007//x
)
int32
    Pad	@calculatedFrom(""a\\""
)
, @calculatedFrom( """" ) string a1 @lengthOf( metadata ) ,match u128 as Foo {
    [ ""`tick`"" ]
: msg_type
    ,
    10 // a // b
:
msg_type, 00
:  len, ""`tick`"" : _x ,1 : repeatCount
    , [ 1 , //	t
1 ] :
    // packet A { u8 x, }
    pack ,} , @leftPad ( )
float64 pack
    `
` ,
    }")).
Eval vm_compute in ("<<<M1449>>>" ++ check (runes_of_ascii "options {
    StringPrefixLenType = u32;
    ArrayPrefixLenType = u8;
    FixedStringPadFromLeft = false;
}
packet Logon {
    i8 venue,
    int16 f1,
    zchar[8] Acct,
    repeat InNote16 {
        InQty73 {
            float32 tag7,
        },
        f32 Acct,
        zchar[5] sym,
    },
    uint16 Side2,
    i32 lastPx,
}
packet Fill {
    repeat InOrderid15 {
        zchar[8] sym,
        repeat char[2] OrderId,
        repeat Logon,
        InQty82 {
            char[] Tail,
            repeat Logon,
            float64 price,
            f64 Side2,
        },
        char[12] venue,
        char[4] Px,
    },
    @rightPad('0') char[2] venue,
    InPrice99 {
        InAcct72 {
            u8 pad0,
        },
        u32 OrderId,
        Logon,
    },
}
root packet Reject {
    zchar[9] msgKind,
    u32 venue,
    u16 seqNo @lengthOf(Body),
    match venue as Body {
        57 : Fill,
        8 : Logon,
    },
    u16 Tail @calculatedFrom(""CRC32""),
}
")).
Eval vm_compute in ("<<<M1939>>>" ++ check (runes_of_ascii "
options
{
    string_
        //x
		=char[ 7  ]; 
}

    options

    { crc = float64;
Logon
= 
false  // a // b

As =

'0'	f32a
= 
char[]
	;	// packet A { u8 x, }
  T = 00
	} root
	packet
	x  {

    @calculatedFrom(
    ""1"" ) repeat

    zchar[
    255 ] 	 // " ++ [128512]%N ++ runes_of_ascii " emoji
	  string_	,
	} root packet 
int{
    @tag(

4294967296

    ) 
char[ 255  // packet A { u8 x, }
    ]  a1
	,  repeat x `` , 
char[]

    packetx

@lengthOf(

    uint8x	)
    `u8 x,` ,zchar[ 10
]
leftPad

@calculatedFrom(
""a	b"" )	,
    lengthOf
@calculatedFrom(  """"
)
    ,
@calculatedFrom(
	    /// triple
    ""packet"")	i32

    matchKey ,
@rightPad

() 
zchar[  1
	]	A
	,

    u32
    Packet

    @calculatedFrom( ""{,}"")
`a\`

, // c

  repeat

char[
00]  Header  `say ""hi""`
	//x
  	,

stringy
trueish
    `// not a comment` 
, }")).
Eval vm_compute in ("<<<M1948>>>" ++ check (runes_of_ascii "root packet lengthOf {
    repeat char[] asx `// not a comment`,
    lengthOf {
        string options1,
        char[] A @calculatedFrom(""\n""),
        int16 trueish,
    },
    repeat int16 stringy,
    string Logon `{ , }`,
    @lengthOf(metadata)
    match trueish as Foo {
        00 : T,
        7 : Z9_,
    },
    string_ a1 `" ++ [28040; 24687; 31867; 22411]%N ++ runes_of_ascii "`,
}

packet zchar {
    @calculatedFrom(""x y"")
    repeatCount `
    `,
    match stringy as u {
        255 : charz,
    },
    zchar[0123456789] Z9_ @lengthOf(crc) `it's`,
    @leftPad('\x00')
    zchar[0] rootA @calculatedFrom(""CRC32""),
    @lengthOf(leftPad)
    // packet A { u8 x, }
    Foo @calculatedFrom(""{,}""),
    uint32 Foo `// not a comment`,
    f32 float,
    repeat matchKey,
    Logon @lengthOf(rootA) `" ++ [28040; 24687; 31867; 22411]%N ++ runes_of_ascii "`,
}")).
Eval vm_compute in ("<<<M280>>>" ++ check (runes_of_ascii "options{
    metadata
= '0' int = 007 ; zchar
// " ++ [27880; 37322]%N ++ runes_of_ascii "
// `tick` ""quote"" 'q'
=
'\x00' ;
    }
    packet charz {
@leftPad
    ( '0'
    ) @tag(
42
    // " ++ [128512]%N ++ runes_of_ascii " emoji
    ) @calculatedFrom(
    // " ++ [27880; 37322]%N ++ runes_of_ascii "
    ""a\""b"" )char[]
    packetx
    @calculatedFrom(""\" ++ [233]%N ++ runes_of_ascii """
    )`
`
,	match charz as msg_type  {
//
// trailing space 
4294967296:
o 0123456789: // packet A { u8 x, }
trueish ,  ""// no comment"" : asx //x
[ 65535 ,
65535 ,
    3,""a\""b""
,	""a\\""	,""" ++ [28040; 24687]%N ++ runes_of_ascii """
, 0123456789 ,
    ""a	b"" ]
: T
,
}
, @rightPad (
' '
    )
crc , repeat char[]
    // packet A { u8 x, }
    stringy  `a\` , }
// " ++ [128512]%N ++ runes_of_ascii " emoji
// " ++ [128512]%N ++ runes_of_ascii " emoji
MetaData// c
tag { uint64 metadata ,int64 trueish `{ , }`,
uint32 a1 , f32 Packet `// not a comment` , }
")).
Eval vm_compute in ("<<<M1651>>>" ++ check (runes_of_ascii "// top
packet A {
    // c2a
    // c2b
    u8 a,// c5
}

// c6
packet B {
    u16 b,
}

// c13
packet C {
    // c16
    u32 c,// c19
}// c20a

// c20b
root packet M {
    // c24
    u16 Kc,// c27a
    // c27b
    u16 Kb,
    // c30
    u16 Ka,// c33a
    // c33b
    match Kc as X {
        9 : A,
        // c42
        10 : B,
        // c46a
        // c46b
    },
    match Kb as Y {
        // c53
        2 : C,
        // c57
        1 : A,
        // c61
    },
    // c63
    match Ka as Z {
        1 : B,
        // c72
    },// c74a
    // c74b
    A,// c76
    B,// c78
    C,
}
// c81")).
Eval vm_compute in ("<<<M1413>>>" ++ check (runes_of_ascii "// top
root // c0
packet Frame
    // c2
{ // c3a
  // c3b
u8
    // c4
K // c5
, // c6a
  // c6b
Logon // c7
first
    // c8
,
    // c9
match // c10a
  // c10b
K as
    // c12
Body { // c14
1 : Logon
    // c17
, // c18
2 : Logout ,
    // c22
} , // c24
} packet // c26
Logon // c27a
  // c27b
{ // c28a
  // c28b
string // c29a
  // c29b
user
    // c30
, // c31a
  // c31b
} // c32a
  // c32b
packet // c33
Logout
    // c34
{ // c35a
  // c35b
u16 // c36a
  // c36b
reason ,
    // c38
}
    // c39
")).
Eval vm_compute in ("<<<M172>>>" ++ check (runes_of_ascii "// c
options  {
i8i8
    = """ ++ [28040; 24687]%N ++ runes_of_ascii """
    // trailing space 
    ; Pad= ' ' }root packet i8i8{ i64 matchKey`" ++ [233]%N ++ runes_of_ascii "`
,match repeatCount as x// @lengthOf(
{
//	t
// a // b
42 : float
    ,
007 : u , }
// trailing space 
//x
,
@calculatedFrom( ""a	b"" ) string_
// @lengthOf(
/// triple
{  matchKey string_
    ,// trailing space 
} , repeat char[] repeatCount
    , }
options // a // b
{
msg_type =
true ; int
// " ++ [128512]%N ++ runes_of_ascii " emoji
// " ++ [27880; 37322]%N ++ runes_of_ascii "
= u16	string_
    = false ;}")).
Eval vm_compute in ("<<<M361>>>" ++ check (runes_of_ascii "// c
packet float// `tick` ""quote"" 'q'
{ match tag
as	x // " ++ [128512]%N ++ runes_of_ascii " emoji
{
""\n"" :
    // a // b
    A ,
} , @lengthOf(
    o ) A  , char[ 4294967296 ] o @lengthOf( // packet A { u8 x, }
a1 ) , }	packet x {
    char[
3 ] BodyLength
, }
packet Header { @lengthOf( stringy )
@tag(42	)@calculatedFrom(""1"" ) zchar[ 0123456789 ] As
@lengthOf(
    // a // b
    packetx ) `// not a comment` , } //	t")).
Eval vm_compute in ("<<<M1689>>>" ++ check (runes_of_ascii "
packet stringy { 
falsey
    @lengthOf(
MetaDataX
) `crlf
line` , match

tag
as
    uint8x
    {
""a\""b"" 
:

charz

    ,
00 :	repeatCount

    , 10

    :	Header
	""a	b"" 
	/// triple
  :
Pad
    ,
	65535
:  metadata 
,	}	,@calculatedFrom(
""a\""b""
    )
    //x
	char[	255 ]
falsey ,x_y_z@calculatedFrom(
""packet"" )
    `tab	here` ,
	}

")).
Eval vm_compute in ("<<<M360>>>" ++ check (runes_of_ascii "
packet zchar{
stringy//
@lengthOf(
    MetaDataX )
    `it's` ,
    @tag(
    1
    )match	Z9_ as
    calculatedFrom { """ ++ [28040; 24687]%N ++ runes_of_ascii """ :
    Header, 0123456789 : asx [	255 ]//	t
: // " ++ [128512]%N ++ runes_of_ascii " emoji
rootA	""\n""
: zchar , } , repeat float64 rootA, char[] repeatCount
, repeat
int32 metadata `" ++ [233]%N ++ runes_of_ascii "` , repeat
char[
7	] u8x ,
    }
")).
Eval vm_compute in ("<<<M1431>>>" ++ check (runes_of_ascii "options {
    LittleEndian = true;
    ArrayPrefixLenType = u64;
    FixedStringPadFromLeft = false;
}
packet Quote {
}
root packet Order {
    i64 Side2,
    Quote,
    u32 Px,
    match Px as Body {
        [119, 147] : Quote,
    },
    u16 Flags @calculatedFrom(""CRC32""),
}
")).
Eval vm_compute in ("<<<M47>>>" ++ check (runes_of_ascii "  root packet rootA { @leftPad
(
'\x00' // `tick` ""quote"" 'q'
) @lengthOf(
    crc ) @lengthOf( string_ ) uint16 Z9_ `
`	, @lengthOf( Z9_ )char[4294967296
    ]  zchar `say ""hi""` ,
    u, match
int as
    stringy {
3 :
    body, }
    ,	} 	 ")).
Eval vm_compute in ("<<<M512>>>" ++ check (runes_of_ascii "options
{
matchKey = 42/// triple
x='0' ;
// packet A { u8 x, }
//
charz
=
// packet A { u8 x, }
// trailing space 
true  ; } MetaData BodyLength
{
uint8
pack,zchar[ 1]float ,  float32 float32 x_y_z `` ,u32
_x,i16 body  , }
")).
Eval vm_compute in ("<<<M407>>>" ++ check (runes_of_ascii "options
{
matchKey = 42 42/// triple
x='0' ;
// packet A { u8 x, }
//
charz
=
// packet A { u8 x, }
// trailing space 
true  ; } MetaData BodyLength
{
uint8
pack,zchar[ 1]float ,  float32 x_y_z `` ,u32
_x,i16 body  , }
")).
Eval vm_compute in ("<<<M578>>>" ++ check (runes_of_ascii "options
{
matchKey = 42/// triple
x='0' ;
// packet A { u8 x, }
//
charz
=
// packet A { u8 x, }
// trailing space 
true  ; } MetaData BodyLength
{
uint8
pack,zchar[ 1]float ,  float32 x_y_z `` ,u32
_x,i16 body  , / }
")).
Eval vm_compute in ("<<<M434>>>" ++ check (runes_of_ascii "options
{
matchKey = 42/// triple
x='0' ;
// packet A { u8 x, }
//
int64
=
// packet A { u8 x, }
// trailing space 
true  ; } MetaData BodyLength
{
uint8
pack,zchar[ 1]float ,  float32 x_y_z `` ,u32
_x,i16 body  , }
")).
Eval vm_compute in ("<<<M436>>>" ++ check (runes_of_ascii "options
{
matchKey = 42/// triple
x='0' ;
// packet A { u8 x, }
//
charz

// packet A { u8 x, }
// trailing space 
true  ; } MetaData BodyLength
{
uint8
pack,zchar[ 1]float ,  float32 x_y_z `` ,u32
_x,i16 body  , }
")).
Eval vm_compute in ("<<<M471>>>" ++ check (runes_of_ascii "options
{
matchKey = 42/// triple
x='0' ;
// packet A { u8 x, }
//
charz
=
// packet A { u8 x, }
// trailing space 
true  ; } MetaData BodyLength
{

pack,zchar[ 1]float ,  float32 x_y_z `` ,u32
_x,i16 body  , }
")).
Eval vm_compute in ("<<<M540>>>" ++ check (runes_of_ascii "options
{
matchKey = 42/// triple
x='0' ;
// packet A { u8 x, }
//
charz
=
// packet A { u8 x, }
// trailing space 
true  ; } MetaData BodyLength
{
uint8
pack,zchar[ 1]float ,  float32 x_y_z `` ,u32")).
Eval vm_compute in ("<<<M1412>>>" ++ check (runes_of_ascii "root packet Frame {
    u8 K,
    Logon first,
    match K as Body {
        1 : Logon,
        2 : Logout,
    },
}
packet Logon {
    string user,
}
packet Logout {
    u16 reason,
}
")).
Eval vm_compute in ("<<<M2021>>>" ++ check (runes_of_ascii "
options
{ msg_type

    = 
00 string_ = 
      // `tick` ""quote"" 'q'

  // c
  	0
x

    = zchar[
255 ];
    leftPad = false 
;
	f32a // @lengthOf(
    =
	007 ; 	 // " ++ [27880; 37322]%N ++ runes_of_ascii "
  }
")).
Eval vm_compute in ("<<<M147>>>" ++ check (runes_of_ascii "root packet stringy { @tag( 7 ) @tag( 1
    ) @rightPad (
'\x00'
    )Foo // `tick` ""quote"" 'q'
x`crlf
line` ,@calculatedFrom(  ""a	b"" ) roots //x
`it's`// @lengthOf(
,
    }")).
Eval vm_compute in ("<<<M98>>>" ++ check (runes_of_ascii "root // trailing space 
packet Foo
    // " ++ [128512]%N ++ runes_of_ascii " emoji
    {
    //x
    char[] body`crlf
line`, // " ++ [128512]%N ++ runes_of_ascii " emoji
} options {
    _x=  false
    }
packet BodyLength	{
} 	 ")).
Eval vm_compute in ("<<<M1598>>>" ++ check (runes_of_ascii "options {
    Logon = ""{,}""
}//	t

MetaData leftPad {
    i8 zchar `// not a comment`,
}

MetaData len {
    char[] u128,
}// " ++ [27880; 37322]%N ++ runes_of_ascii "

root packet Pad {
}")).
Eval vm_compute in ("<<<M132>>>" ++ check (runes_of_ascii "packet lengthOf
{ options1 {	calculatedFrom`line1
line2`	,
} ,  @tag(
4294967296 ) match	_x
as msg_type	{ ""\" ++ [233]%N ++ runes_of_ascii """ // @lengthOf(
:  o , },
}")).
Eval vm_compute in ("<<<M1385>>>" ++ check (runes_of_ascii "packet A {
    u8 a,
}
packet B {
    u16 b,
}
root packet P {
    u8 K,
    match K as M {
        1 : A,
        1 : B,
    },
}
")).
Eval vm_compute in ("<<<M368>>>" ++ check (runes_of_ascii "MetaData Header
    {
    f64 lengthOf,zchar[ 7 ] zchar
// `tick` ""quote"" 'q'
// `tick` ""quote"" 'q'
`doc` ,
len
x_y_z
, } 	 ")).
Eval vm_compute in ("<<<M1849>>>" ++ check (runes_of_ascii "
packet

    calculatedFrom {@tag(4294967296
)  u	msg_type ,char[ 
3  ]

crc @lengthOf( len )
`u8 x,` 
,
// c
    }")).
Eval vm_compute in ("<<<M1680>>>" ++ check (runes_of_ascii "  packet

A
	{ u16
    len @lengthOf(
    body )`
` 
,  u32
	crc@calculatedFrom( ""CRC32"" )`
`, string
body

    ,
}")).
Eval vm_compute in ("<<<M1754>>>" ++ check (runes_of_ascii "

  packet
A

    {match k
as

n { [""a""

    ,

    22,

""c c"" ,
	4
	, 
""e""
	, 66
	]
:	B
,
2:
    C
}, 
}
")).
Eval vm_compute in ("<<<M334>>>" ++ check (runes_of_ascii "// @lengthOf(
options{ } packet pack  {//
} options
    {
    }MetaData msg_type
{} root packet repeatCount  {}")).
Eval vm_compute in ("<<<M900>>>" ++ check (runes_of_ascii "packet A {
  match k as n {
    [""a"", ""bb"", 007, ""d"", ""e"", 66, ""g"", ""h"", 9, ""j"", ""k""] : B,
    2 : C
  },
}")).
Eval vm_compute in ("<<<M943>>>" ++ check (runes_of_ascii "packet A {
    Inner {
        u8 x `a

b`,
        Deep {
            u8 y `a

b`,
        },
    },
}")).
Eval vm_compute in ("<<<M1283>>>" ++ check (runes_of_ascii "packet calculatedFrom { @tag( 4294967296 ) u msg_type , char[ 3 ] crc @lengthOf( len ) // c
`u8 x,` , }")).
Eval vm_compute in ("<<<M178>>>" ++ check (runes_of_ascii "packet As {
int16
A , }packet u	{ @lengthOf( Pad
)
    f64
    metadata	@lengthOf( a1
)
    ,
}
")).
Eval vm_compute in ("<<<M1128>>>" ++ check (runes_of_ascii "// c
packet Logon { @tag( 42 ) @rightPad ( ' ' ) @leftPad ( ) repeat trueish { string T , } , }")).
Eval vm_compute in ("<<<M1161>>>" ++ check (runes_of_ascii "packet Logon { @tag( 42 ) @rightPad ( ' ' ) @leftPad ( ) repeat trueish {
// c
string T , } , }")).
Eval vm_compute in ("<<<M1751>>>" ++ check (runes_of_ascii "
MetaData  _x

{
zchar[ 4294967296  ] 

// c
    	lengthOf `// not a comment`

    , }
")).
Eval vm_compute in ("<<<M856>>>" ++ check (runes_of_ascii "packet A {
  match k as n {
    [1, ""bb"", 007, ""d"", 5, ""f"", 7, ""h""] : B
    2 : C
  },
}")).
Eval vm_compute in ("<<<M865>>>" ++ check (runes_of_ascii "packet A {
  match k as n {
    [1, 22, 007, 4, 5, 66, 7, 8, 9] : B
    2 : C
  },
}")).
Eval vm_compute in ("<<<M1212>>>" ++ check (runes_of_ascii "packet o { // c
@tag( 42 ) repeat x { char[ 0123456789 ] i64_ , } , } options { }")).
Eval vm_compute in ("<<<M1244>>>" ++ check (runes_of_ascii "packet o { @tag( 42 ) repeat x { char[ 0123456789 ] i64_ , } , } options { // c
}")).
Eval vm_compute in ("<<<M663>>>" ++ check (runes_of_ascii "// c
packet i64_ {	char[] calculatedFrom , } packet
trueish  {@calculatedFrom(")).
Eval vm_compute in ("<<<M291>>>" ++ check (runes_of_ascii "options
    { }
    packet
    string_ {@rightPad ( '0'// c
)
u16 body , }")).
Eval vm_compute in ("<<<M807>>>" ++ check (runes_of_ascii "packet A {
  match k as n {
    [1, 22, ""c c"", 4] : B,
    2 : C
  },
}")).
Eval vm_compute in ("<<<M1326>>>" ++ check (runes_of_ascii "MetaData _x { zchar[ 4294967296 ] lengthOf `// not a comment` ,
// c
}")).
Eval vm_compute in ("<<<M322>>>" ++ check (runes_of_ascii "root packet matchKey { } packet msg_type{	char[ 65535]
falsey ,}
")).
Eval vm_compute in ("<<<M947>>>" ++ check (runes_of_ascii "packet A {
    B b `x
`,
    B `x
`,
    repeat B bs `x
`,
}")).
Eval vm_compute in ("<<<M1505>>>" ++ check (runes_of_ascii "root packet
    P
    {  char
    c
    ,
	u8
    x ,}
")).
Eval vm_compute in ("<<<M342>>>" ++ check (runes_of_ascii "packet o{ char[0123456789 ] asx `doc`
    ,	}
")).
Eval vm_compute in ("<<<M1104>>>" ++ check (runes_of_ascii "MetaData // c
zchar { zchar[ 3 ] Pad , }")).
Eval vm_compute in ("<<<M425>>>" ++ check (runes_of_ascii "options
{
matchKey = 42/// triple
x=")).
Eval vm_compute in ("<<<M1885>>>" ++ check (runes_of_ascii "
root
	packet  A	{ u8

x
`
`,	}
")).
Eval vm_compute in ("<<<M987>>>" ++ check (runes_of_ascii "packet A {
 u8 x `d" ++ [160]%N ++ runes_of_ascii "`, // c" ++ [160]%N ++ runes_of_ascii "
}")).
Eval vm_compute in ("<<<M946>>>" ++ check (runes_of_ascii "packet A {
    u8 x `x
`,
}")).
Eval vm_compute in ("<<<M1192>>>" ++ check (runes_of_ascii "options { u8x =
// c
3 }")).
Eval vm_compute in ("<<<M746>>>" ++ check (runes_of_ascii """1"" float64 { packet")).
Eval vm_compute in ("<<<M1010>>>" ++ check (runes_of_ascii "packet A {
}
// c" ++ [8232]%N)).
Eval vm_compute in ("<<<M993>>>" ++ check (runes_of_ascii "packet A {
}// c" ++ [5760]%N)).
Eval vm_compute in ("<<<M1919>>>" ++ check (runes_of_ascii "options {  }")).
Eval vm_compute in ("<<<M1024>>>" ++ check (runes_of_ascii "// c" ++ [8287]%N)).
